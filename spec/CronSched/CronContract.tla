---------------------------- MODULE CronContract ----------------------------
(* C05 - the cron scheduler as seen by its users: a deterministic monitor    *)
(* over observable events, recorded in real-time order under one mutex.      *)
(* Time is in ticks (the harness uses 30 min) counted from the start of the  *)
(* run; 0 stands for the zero time (no activation / never ran): every         *)
(* activation instant of an entry is >= 1.                                    *)
(*                                                                            *)
(*   reset {loc, chain}          new Cron; loc = UTC offset (s) of WithLocation; *)
(*                               chain = the WithChain option: "none" |          *)
(*                               "recover" | "skip" | "delay" | "recover+delay"  *)
(*                               | "recover+skip"                                *)
(*   sched_call {id,p,ph} / sched_ret {id}   Schedule/AddFunc of an entry whose *)
(*                               schedule, READ IN THE CRON'S LOCATION, is the  *)
(*                               set {a : a % p = ph} (p = 0: never fires)      *)
(*   remove_call {id} / remove_ret {id}                                         *)
(*   entries_call / entries_ret {list}   list of <<id, next, prev>>             *)
(*   start                       Start() (issued with no other call in flight)  *)
(*   runcall {r} / runret {r}    the blocking Run(), called on a goroutine of    *)
(*                               its own (r-th Run call) / it returned           *)
(*   stop_call {k} / stop_ret {k}         k-th Stop call                        *)
(*   stopctx_done {k}            the context returned by the k-th Stop completed*)
(*   adv {now}                   the driver stepped the clock (now may be       *)
(*                               unchanged: a step of 0)                        *)
(*   run {id}                    the scheduler decided to start the job of id   *)
(*                               (its Logger line "run")                        *)
(*   jobstart {id} / jobend {id} the job function began / returned (jobend also  *)
(*                               when it ended by panicking under Recover)       *)
(*   jobskip {id}                an invocation of the entry's wrapped job        *)
(*                               returned without entering the job function      *)
(*   nx {off}                    Schedule.Next was called with a time whose     *)
(*                               zone offset is off                             *)
(*   quiescent                   every goroutine is blocked, nothing parked at  *)
(*                               a scheduler gate                               *)
(*   stuck {n}                   end of run: n calls never returned             *)
(*                                                                            *)
(* Driver discipline the monitor relies on (see the harness): one caller op   *)
(* at a time, except that a Remove and a Stop may be issued together (both in  *)
(* flight; ops counts the calls in flight).  The clock is stepped only while   *)
(* no caller op is in flight and                                               *)
(* no timer expiry is waiting to be picked up by the scheduler (a scheduler   *)
(* that is late by its own latency is not what this property is about).  A    *)
(* caller op MAY be issued while an expiry is pending: that is the race, and  *)
(* both outcomes are accepted below (owed / o-fields).  With the fake clock a *)
(* timer armed with a non-positive duration fires at the next step only, so   *)
(* "the job must have started" is demanded at a quiescent point that follows  *)
(* a clock step taken after the last mutation (fresh).  Such a quiescent point *)
(* is reported and judged IMMEDIATELY after the step (a scheduler that leaves  *)
(* a due entry for a later wake-up - a timer it re-arms with a non-positive    *)
(* duration - has not started the job "at that wake-up").                      *)
EXTENDS Integers, Sequences, FiniteSets, TLC

Bad(why) == [bad |-> TRUE, why |-> why]
IsBad(c) == c.bad

HasDelay(ch) == ch \in {"delay", "recover+delay"}
HasSkip(ch) == ch \in {"skip", "recover+skip"}

CInitC(loc, chain) ==
              [bad |-> FALSE, why |-> "", loc |-> loc, chain |-> chain, now |-> 0,
               run |-> "no",            \* "no" | "yes" | "stopping" (a Stop call is in flight)
               ents |-> << >>,          \* id -> entry record
               ops |-> 0, snap |-> << >>, fresh |-> FALSE,
               jobs |-> << >>,          \* job instances decided and not yet returned: [id, st, ep]
               stops |-> 0,             \* number of Stop calls that have returned
               stopcalls |-> 0,         \* number of Stop calls made
               runs |-> << >>]          \* r -> [noop, sc, ret]: Run call r found the Cron running / Stop calls before it / returned
CInit(loc) == CInitC(loc, "none")

(* The next activation after t: the least instant later than t in the set. *)
NextAct(p, ph, t) == IF p = 0 THEN 0 ELSE CHOOSE a \in (t + 1)..(t + p) : a % p = ph

NewEntry(p, ph, nx) == [p |-> p, ph |-> ph, st |-> "adding", next |-> nx, prev |-> 0,
                        onext |-> 0, oprev |-> 0, owed |-> 0, ended |-> 0]
Live(c) == {i \in DOMAIN c.ents : c.ents[i].st = "live"}

(* an EntryID identifies an entry within a Cron: Schedule never hands out one that is in use or was used *)
CSchedCall(c, e) ==
  IF e.id \in DOMAIN c.ents THEN Bad("Schedule returned an entry id that another entry already has")
  ELSE
  [c EXCEPT !.ents = (e.id :> NewEntry(e.p, e.ph, IF c.run = "yes" THEN NextAct(e.p, e.ph, c.now) ELSE 0)) @@ c.ents,
            !.ops = c.ops + 1, !.fresh = IF c.run = "yes" THEN FALSE ELSE c.fresh]
CSchedRet(c, e) == [c EXCEPT !.ents[e.id].st = "live", !.ops = c.ops - 1]

CRemoveCall(c, e) ==
  IF e.id \notin DOMAIN c.ents THEN [c EXCEPT !.ops = c.ops + 1]
  ELSE [c EXCEPT !.ents[e.id].st = IF c.ents[e.id].st = "removed" THEN "removed" ELSE "removing",
                 !.ops = c.ops + 1, !.fresh = IF c.run = "yes" THEN FALSE ELSE c.fresh]
(* a start that was still owed when Remove returned is cancelled for good *)
CRemoveRet(c, e) ==
  IF e.id \notin DOMAIN c.ents THEN [c EXCEPT !.ops = c.ops - 1]
  ELSE [c EXCEPT !.ents[e.id].st = "removed", !.ents[e.id].owed = 0, !.ops = c.ops - 1]

(* Start: every entry's next activation is computed from the current instant *)
CStart(c) ==
  IF c.run # "no" THEN c
  ELSE [c EXCEPT !.run = "yes",
                 !.ents = [i \in DOMAIN c.ents |->
                             IF c.ents[i].st = "live"
                               THEN [c.ents[i] EXCEPT !.next = NextAct(c.ents[i].p, c.ents[i].ph, c.now), !.owed = 0]
                               ELSE c.ents[i]]]

CStopCall(c, e) == [c EXCEPT !.run = IF c.run = "yes" THEN "stopping" ELSE c.run, !.ops = c.ops + 1, !.stopcalls = c.stopcalls + 1]

(* Run() is Start() on the caller's goroutine: it starts the scheduler and returns when a later Stop ended it; *)
(* on a Cron that is already running it starts nothing and returns at once.                                    *)
CRunCall(c, e) ==
  [CStart(c) EXCEPT !.runs = (e.r :> [noop |-> c.run # "no", sc |-> c.stopcalls, ret |-> FALSE]) @@ c.runs]
CRunRet(c, e) ==
  IF e.r \notin DOMAIN c.runs THEN c
  ELSE IF ~c.runs[e.r].noop /\ c.stopcalls = c.runs[e.r].sc
    THEN Bad("Run returned although Stop was not called")
  ELSE [c EXCEPT !.runs[e.r].ret = TRUE]
(* what was owed and not decided before Stop returned is never started: the entry keeps the pair it had *)
CStopRet(c, e) ==
  [c EXCEPT !.run = "no", !.ops = c.ops - 1, !.stops = c.stops + 1,
            !.ents = [i \in DOMAIN c.ents |->
                        IF c.ents[i].owed > 0
                          THEN [c.ents[i] EXCEPT !.owed = 0, !.next = c.ents[i].onext, !.prev = c.ents[i].oprev]
                          ELSE c.ents[i]]]
(* the context completes only when every job whose start was decided before that Stop returned has returned *)
CStopCtxDone(c, e) ==
  IF \E j \in 1..Len(c.jobs) : c.jobs[j].ep < e.k
    THEN Bad("the context returned by Stop completed while a started job had not returned")
    ELSE c

(* The clock reaches now: every live entry whose next activation is reached owes exactly one start *)
(* (one per wake-up, however many activations were jumped over), then waits for Next(now).        *)
CAdv(c, e) ==
  LET due(x) == c.run = "yes" /\ x.st \in {"live", "removing"} /\ x.next # 0 /\ x.next <= e.now /\ x.owed = 0
  IN [c EXCEPT !.now = e.now, !.fresh = (c.ops = 0),
               !.ents = [i \in DOMAIN c.ents |->
                           IF due(c.ents[i])
                             THEN [c.ents[i] EXCEPT !.owed = 1, !.onext = c.ents[i].next, !.oprev = c.ents[i].prev,
                                                    !.prev = c.ents[i].next,
                                                    !.next = NextAct(c.ents[i].p, c.ents[i].ph, e.now)]
                             ELSE c.ents[i]]]

CRun(c, e) ==
  IF e.id \notin DOMAIN c.ents THEN Bad("a job was started for an entry that was never added")
  ELSE IF c.run = "no" THEN
         IF c.stops > 0 THEN Bad("a job was started after Stop returned")
                        ELSE Bad("a job was started although the Cron was not running")
  ELSE IF c.ents[e.id].st = "removed" THEN Bad("a job was started after Remove of its entry returned")
  ELSE IF c.ents[e.id].owed = 0 THEN
         Bad("a job was started before its activation instant was reached or twice for the same one")
  ELSE [c EXCEPT !.ents[e.id].owed = 0,
                 !.jobs = Append(c.jobs, [id |-> e.id, st |-> "decided", ep |-> c.stops, e0 |-> c.ents[e.id].ended])]

First(jobs, id, st) == CHOOSE j \in 1..Len(jobs) : /\ jobs[j].id = id /\ jobs[j].st = st
                                                   /\ \A k \in 1..(j - 1) : ~(jobs[k].id = id /\ jobs[k].st = st)
Has(jobs, id, st) == \E j \in 1..Len(jobs) : jobs[j].id = id /\ jobs[j].st = st
DropAt(s, j) == [k \in 1..(Len(s) - 1) |-> IF k < j THEN s[k] ELSE s[k + 1]]

CJobStart(c, e) ==
  IF ~Has(c.jobs, e.id, "decided") THEN Bad("a job ran more often than the scheduler decided to start it")
  ELSE [c EXCEPT !.jobs[First(c.jobs, e.id, "decided")].st = "running"]
CJobEnd(c, e) ==
  IF ~Has(c.jobs, e.id, "running") THEN c
  ELSE [c EXCEPT !.jobs = DropAt(c.jobs, First(c.jobs, e.id, "running")), !.ents[e.id].ended = c.ents[e.id].ended + 1]
(* SkipIfStillRunning works per entry: an invocation may be skipped only because an invocation OF THE SAME ENTRY *)
(* was still running when it arrived (judged leniently: another invocation of the entry exists, or one has ended  *)
(* since this one was decided).                                                                                  *)
CJobSkip(c, e) ==
  IF ~Has(c.jobs, e.id, "decided") THEN Bad("a job ran more often than the scheduler decided to start it")
  ELSE LET j == First(c.jobs, e.id, "decided")
           others == \E k \in 1..Len(c.jobs) : k # j /\ c.jobs[k].id = e.id
       IN IF HasSkip(c.chain) /\ (others \/ c.ents[e.id].ended > c.jobs[j].e0)
            THEN [c EXCEPT !.jobs = DropAt(c.jobs, j)]
            ELSE Bad("a started job was skipped although no earlier invocation of the same entry was still running")

(* Entries: each live entry once, with the pair in use.  While a start is owed and undecided the *)
(* snapshot may have been taken on either side of the wake-up.                                   *)
CEntriesCall(c) ==
  [c EXCEPT !.ops = c.ops + 1,
            !.snap = [i \in Live(c) |-> {<<c.ents[i].next, c.ents[i].prev>>} \cup
                                        (IF c.ents[i].owed > 0 THEN {<<c.ents[i].onext, c.ents[i].oprev>>} ELSE {})]]
CEntriesRet(c, e) ==
  LET L == e.list
      ids == {L[k][1] : k \in 1..Len(L)}
  IN IF ids # DOMAIN c.snap \/ Cardinality(ids) # Len(L)
       THEN Bad("Entries did not report exactly the live entries")
     ELSE IF c.run = "yes" /\ \E k \in 1..Len(L) : <<L[k][2], L[k][3]>> \notin c.snap[L[k][1]]
       THEN IF \E k \in 1..Len(L) : L[k][2] \notin {x[1] : x \in c.snap[L[k][1]]}
              THEN Bad("Entries reported a next activation other than the one actually used")
              ELSE Bad("Entries reported a previous activation other than the one actually used")
     ELSE IF c.run # "yes" /\ \E k \in 1..Len(L) : L[k][3] \notin {x[2] : x \in c.snap[L[k][1]]}
       THEN Bad("Entries reported a previous activation other than the one actually used")
     ELSE [c EXCEPT !.ops = c.ops - 1, !.snap = << >>]

CQuiescent(c) ==
  IF c.ops > 0 THEN c
  ELSE IF \E r \in DOMAIN c.runs : c.runs[r].noop /\ ~c.runs[r].ret
    THEN Bad("Run on a Cron that was already running did not return at once")
  ELSE IF \E j \in 1..Len(c.jobs) : /\ c.jobs[j].st = "decided"
                                      /\ ~(HasDelay(c.chain) /\ Has(c.jobs, c.jobs[j].id, "running"))
    THEN IF HasDelay(c.chain) \/ HasSkip(c.chain)
           THEN Bad("a started job was held back although no earlier invocation of the same entry was still running")
           ELSE Bad("a job the scheduler decided to start never began")
  ELSE IF c.run = "yes" /\ c.fresh /\ \E i \in Live(c) : c.ents[i].owed > 0
    THEN Bad("a due job was not started although the clock reached its activation instant")
  ELSE c

CNx(c, e) == IF e.off # c.loc THEN Bad("Schedule.Next was handed a time that is not in the cron's location") ELSE c
CStuck(c, e) == IF e.n > 0 THEN Bad("wedged: a Cron call never returned") ELSE c

CNext(c, e) ==
  IF e.ev = "reset" THEN CInitC(e.loc, e.chain)
  ELSE IF IsBad(c) THEN c
  ELSE CASE e.ev = "sched_call"   -> CSchedCall(c, e)
         [] e.ev = "sched_ret"    -> CSchedRet(c, e)
         [] e.ev = "remove_call"  -> CRemoveCall(c, e)
         [] e.ev = "remove_ret"   -> CRemoveRet(c, e)
         [] e.ev = "entries_call" -> CEntriesCall(c)
         [] e.ev = "entries_ret"  -> CEntriesRet(c, e)
         [] e.ev = "start"        -> CStart(c)
         [] e.ev = "runcall"      -> CRunCall(c, e)
         [] e.ev = "runret"       -> CRunRet(c, e)
         [] e.ev = "stop_call"    -> CStopCall(c, e)
         [] e.ev = "stop_ret"     -> CStopRet(c, e)
         [] e.ev = "stopctx_done" -> CStopCtxDone(c, e)
         [] e.ev = "adv"          -> CAdv(c, e)
         [] e.ev = "run"          -> CRun(c, e)
         [] e.ev = "jobstart"     -> CJobStart(c, e)
         [] e.ev = "jobend"       -> CJobEnd(c, e)
         [] e.ev = "jobskip"      -> CJobSkip(c, e)
         [] e.ev = "nx"           -> CNx(c, e)
         [] e.ev = "quiescent"    -> CQuiescent(c)
         [] e.ev = "stuck"        -> CStuck(c, e)
=============================================================================
