SPECIFICATION Spec
CONSTANTS
  Scheds <- SchedsBetween
  Blocking = {}
  MaxNow = 4
  MaxStep = 3
  MaxOps = 4
  Chain = "none"
  Variant = "unsortedadd"
INVARIANTS Accepted
CHECK_DEADLOCK FALSE
