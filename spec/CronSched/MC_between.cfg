SPECIFICATION Spec
CONSTANTS
  Scheds <- SchedsBetween
  Blocking = {}
  Panicking = {}
  MaxNow = 4
  MaxStep = 3
  MaxOps = 4
  Chain = "none"
  Variant = "ok"
INVARIANTS Accepted ViewsAgree WaitGroupSane
CHECK_DEADLOCK FALSE
