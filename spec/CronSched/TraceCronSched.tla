--------------------------- MODULE TraceCronSched ---------------------------
(* Observable traces of the real cron.Cron judged against CronContract. *)
EXTENDS CronContract, TraceLib
Trace == LoadTrace("trace.ndjson")
Starts == {i \in 1..Len(Trace) : Trace[i].ev = "reset"}
VARIABLES l, c
TInit == l \in Starts /\ c = CInitC(Trace[l].loc, Trace[l].chain)
TNext == /\ ~IsBad(c)
         /\ l + 1 <= Len(Trace)
         /\ Trace[l + 1].ev # "reset"
         /\ c' = CNext(c, Trace[l + 1])
         /\ l' = l + 1
TSpec == TInit /\ [][TNext]_<<l, c>>
Report == IF IsBad(c) THEN RejectLine(l, c.why) ELSE TRUE
=============================================================================
