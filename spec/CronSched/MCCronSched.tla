---------------------------- MODULE MCCronSched ----------------------------
EXTENDS CronSched
S(p, ph) == [p |-> p, ph |-> ph]
SchedsSmall == <<S(2, 0), S(3, 1)>>            \* co-prime
SchedsNested == <<S(2, 0), S(4, 2), S(0, 0)>>  \* nested + never firing
SchedsBig == <<S(2, 0), S(3, 1), S(2, 0)>>     \* co-prime + equal
SchedsBetween == <<S(4, 2), S(4, 0), S(3, 0)>>   \* the third entry's first activation lies between the others'
SchedsChain == <<S(2, 0), S(3, 1)>>
SchedsLive == <<S(2, 1), S(3, 0)>>
(* trace replay: only the number of entry slots matters, the schedules come from the recorded Schedule calls *)
SchedsTrace == <<S(0, 0), S(0, 0), S(0, 0), S(0, 0), S(0, 0), S(0, 0)>>
=============================================================================
