SPECIFICATION Spec
CONSTANTS
  Progs <- ProgsLiveSmall
  MaxNow = 6
  Fixed = TRUE
INVARIANTS NoStranded TokenDiscipline OnTimeOnce NothingAfterClose
PROPERTIES AllDone Drained
CHECK_DEADLOCK FALSE
