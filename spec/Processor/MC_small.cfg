SPECIFICATION Spec
CONSTANTS
  Progs <- ProgsSmall
  MaxNow = 7
  Fixed = TRUE
INVARIANTS NoStranded TokenDiscipline OnTimeOnce NothingAfterClose

CHECK_DEADLOCK FALSE
