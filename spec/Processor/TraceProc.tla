------------------------------ MODULE TraceProc ------------------------------
(* Observable traces of the real queue.Processor checked against ProcContract *)
EXTENDS ProcContract, TraceLib

Trace == LoadTrace("trace.ndjson")
Starts == {i \in 1..Len(Trace) : Trace[i].ev = "reset"}
VARIABLES tr, l, now, items, closeCalled, closeRet, deqs,
          win       \* the loop is between the entry of execute() and the point after its pop: only then can it commit to an item
vars == <<tr, l, now, items, closeCalled, closeRet, deqs, win>>

TInit == /\ tr \in Starts /\ l = tr /\ now = 0 /\ items = << >> /\ closeCalled = FALSE /\ closeRet = FALSE /\ deqs = {} /\ win = FALSE
HasNext == l + 1 <= Trace[tr].end
Ev == Trace[l + 1]
Step == l' = l + 1 /\ UNCHANGED tr

EnqCall == /\ HasNext /\ Ev.ev = "enq_call" /\ Step
           /\ LET concurrentSameKey == \E j \in DOMAIN items : items[j].key = Ev.key /\ items[j].enq = "called" /\ items[j].ex = "no"
                  removalInFlight == \E x \in deqs : x[2] = Ev.key          \* a Dequeue of this key is in flight
                  dead == closeRet                       \* Enqueue after Close returned is ignored
              IN items' = (Ev.id :> [NewItem(Ev.key, Ev.at, concurrentSameKey \/ removalInFlight \/ closeCalled) EXCEPT !.ex = IF dead THEN "done" ELSE "no"])
                          @@ (IF closeCalled THEN MaybeRemoval(items, Ev.key) ELSE StartRemoval(items, Ev.key, <<"e", Ev.id>>))
           /\ UNCHANGED <<now, closeCalled, closeRet, deqs, win>>
EnqRet == /\ HasNext /\ Ev.ev = "enq_ret" /\ Step
          /\ items' = [FinishRemoval(items, <<"e", Ev.id>>, now) EXCEPT ![Ev.id].enq = "ret"]
          /\ UNCHANGED <<now, closeCalled, closeRet, deqs, win>>
DeqCall == /\ HasNext /\ Ev.ev = "deq_call" /\ Step
           /\ items' = IF closeCalled THEN MaybeRemoval(items, Ev.key) ELSE StartRemoval(items, Ev.key, <<"d", Ev.d>>)
           /\ deqs' = deqs \cup {<<Ev.d, Ev.key>>}
           /\ UNCHANGED <<now, closeCalled, closeRet, win>>
DeqRet == /\ HasNext /\ Ev.ev = "deq_ret" /\ Step
          /\ items' = FinishRemoval(items, <<"d", Ev.d>>, now)
          /\ deqs' = {x \in deqs : x[1] # Ev.d}
          /\ UNCHANGED <<now, closeCalled, closeRet, win>>
Adv == /\ HasNext /\ Ev.ev = "adv" /\ Step /\ now' = Ev.now /\ UNCHANGED <<items, closeCalled, closeRet, deqs, win>>

(* The commit window.  All decision points of the Processor are gates in these runs, so the harness knows when the loop   *)
(* passes the entry of execute() (w_open, recorded just before the gate is released) and when it arrives at the point    *)
(* after the pop or back at the top of the loop (w_close).  The pop - the instant the Processor commits to an item -    *)
(* lies inside that window: an item that was surely there, earlier and due when the window opened must be taken first.  *)
WOpen == /\ HasNext /\ Ev.ev = "w_open" /\ Step /\ win' = TRUE /\ UNCHANGED <<now, items, closeCalled, closeRet, deqs>>
WClose == /\ HasNext /\ Ev.ev = "w_close" /\ Step /\ win' = FALSE /\ UNCHANGED <<now, items, closeCalled, closeRet, deqs>>
Pop(i) == /\ HasNext /\ win /\ CanPop(items, now, closeRet, i)
          /\ items' = [items EXCEPT ![i].ex = "popped"]
          /\ UNCHANGED <<tr, l, now, closeCalled, closeRet, deqs, win>>
CbStart == /\ HasNext /\ Ev.ev = "cbstart" /\ Step
           /\ Ev.id \in DOMAIN items /\ items[Ev.id].ex = "popped"
           /\ items' = [items EXCEPT ![Ev.id].ex = "running"]
           /\ UNCHANGED <<now, closeCalled, closeRet, deqs, win>>
CbEnd == /\ HasNext /\ Ev.ev = "cbend" /\ Step
         /\ items[Ev.id].ex = "running"
         /\ items' = [items EXCEPT ![Ev.id].ex = "done"]
         /\ UNCHANGED <<now, closeCalled, closeRet, deqs, win>>
CloseCall == /\ HasNext /\ Ev.ev = "close_call" /\ Step /\ closeCalled' = TRUE /\ UNCHANGED <<now, items, closeRet, deqs, win>>
CloseRet == /\ HasNext /\ Ev.ev = "close_ret" /\ Step
            /\ \A j \in DOMAIN items : items[j].ex \notin {"popped", "running"}   \* no callback is running
            /\ closeRet' = TRUE /\ UNCHANGED <<now, items, closeCalled, deqs, win>>
(* at rest no surely-live item may be due: it would be stranded *)
Quiescent == /\ HasNext /\ Ev.ev = "quiescent" /\ Step
             /\ (closeCalled \/ \A j \in SurelyLive(items) : items[j].at > now)
             /\ \A j \in DOMAIN items : items[j].ex # "popped"
             /\ UNCHANGED <<now, items, closeCalled, closeRet, deqs, win>>

TNext == WOpen \/ WClose \/ EnqCall \/ EnqRet \/ DeqCall \/ DeqRet \/ Adv \/ CbStart \/ CbEnd \/ CloseCall \/ CloseRet \/ Quiescent
         \/ \E i \in DOMAIN items : Pop(i)
TSpec == TInit /\ [][TNext]_vars
Done == IF l = Trace[tr].end THEN PrintT(<<"DONE", tr>>) ELSE TRUE
=============================================================================
