SPECIFICATION Spec
CONSTANTS
  Progs <- ProgsBig
  MaxNow = 8
  Fixed = TRUE
INVARIANTS NoStranded TokenDiscipline OnTimeOnce NothingAfterClose

CHECK_DEADLOCK FALSE
