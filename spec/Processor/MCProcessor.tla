---------------------------- MODULE MCProcessor ----------------------------
EXTENDS Processor
E(k, d) == [op |-> "enq", key |-> k, dt |-> d]
D(k) == [op |-> "deq", key |-> k]
C == [op |-> "close"]
ProgsDefect == << <<E("a", 0)>>, <<E("b", 0)>> >>
ProgsSmall == << <<E("a", 0), D("b")>>, <<E("b", 6), E("a", 2)>>, <<C>> >>
ProgsBig == << <<E("a", 0), D("b"), E("c", 5)>>, <<E("b", 6), E("a", 2), D("a")>>, <<E("b", 0), C>> >>

ProgsLive == << <<E("a", 0), E("b", 6)>>, <<E("a", 2), D("b")>>, <<C>> >>
ProgsLiveSmall == << <<E("a", 0)>>, <<E("a", 2), D("a")>>, <<C>> >>
ProgsTrace == << <<>>, <<>>, <<>>, <<>> >>      \* trace validation: up to 4 clients, their operations come from the trace
=============================================================================
