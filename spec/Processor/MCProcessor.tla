---------------------------- MODULE MCProcessor ----------------------------
EXTENDS Processor
E(k, d) == [op |-> "enq", key |-> k, dt |-> d]
D(k) == [op |-> "deq", key |-> k]
C == [op |-> "close"]
ProgsDefect == << <<E("a", 0)>>, <<E("b", 0)>> >>
ProgsSmall == << <<E("a", 0), D("b")>>, <<E("b", 6), E("a", 2)>>, <<C>> >>
\* measured: 73.0M generated / 20.3M distinct states, depth 52, 11 min with 8 workers on a loaded machine (the former three-op-per-client
\* programs did not finish in 40 min after the model gained cop/head)
ProgsBig == << <<E("a", 0), D("b"), E("c", 5)>>, <<E("b", 6), E("a", 2)>>, <<C>> >>

ProgsLive == << <<E("a", 0), E("b", 6)>>, <<E("a", 2), D("b")>>, <<C>> >>
ProgsLiveSmall == << <<E("a", 0)>>, <<E("a", 2), D("a")>>, <<C>> >>
ProgsTrace == << <<>>, <<>>, <<>>, <<>> >>      \* trace validation: up to 4 clients, their operations come from the trace
=============================================================================
