--------------------------- MODULE TraceProcImpl ---------------------------
(* Binding of the implementation-shaped model to the code: hook-level traces *)
(* of the real Processor (every decision point it passes, plus the client    *)
(* calls/returns, callbacks and clock steps, all recorded under one mutex)   *)
(* must be behaviours of Processor.tla.  Each hook event is matched by the   *)
(* action it stands for; actions without a hook are silent.  A trace that is *)
(* not accepted is DRIFT between model and code - reported in the evidence,  *)
(* never a violation by itself (the contract check is the verdict).          *)
EXTENDS MCProcessor, TraceLib

Trace == LoadTrace("trace.ndjson")
Starts == {i \in 1..Len(Trace) : Trace[i].ev = "reset"}
VARIABLES tr, l, open          \* open[c]: client c has a call in flight whose return was not yet recorded
tvars == <<vars, tr, l, open>>

TInit == Init /\ tr \in Starts /\ l = tr /\ open = [c \in Clients |-> FALSE]
HasNext == l + 1 <= Trace[tr].end
Ev == Trace[l + 1]
Eat == l' = l + 1 /\ UNCHANGED tr
Keep == UNCHANGED <<tr, l>>

(* client events *)
TEnqCall == /\ HasNext /\ Ev.ev = "enq_call" /\ Eat
            /\ Begin(Ev.c, [op |-> "enq", key |-> Ev.key, at |-> Ev.at, id |-> Ev.id])
            /\ open' = [open EXCEPT ![Ev.c] = TRUE] /\ UNCHANGED nextId
TDeqCall == /\ HasNext /\ Ev.ev = "deq_call" /\ Eat
            /\ Begin(Ev.c, [op |-> "deq", key |-> Ev.key, at |-> 0, id |-> 0])
            /\ open' = [open EXCEPT ![Ev.c] = TRUE] /\ UNCHANGED nextId
TCloseCall == /\ HasNext /\ Ev.ev = "close_call" /\ Eat
              /\ Begin(Ev.c, [op |-> "close", key |-> "", at |-> 0, id |-> 0])
              /\ open' = [open EXCEPT ![Ev.c] = TRUE] /\ UNCHANGED nextId
TRet == /\ HasNext /\ Ev.ev \in {"enq_ret", "deq_ret", "close_ret"} /\ Eat
        /\ open[Ev.c] /\ cpc[Ev.c] = "idle"
        /\ open' = [open EXCEPT ![Ev.c] = FALSE] /\ UNCHANGED vars
TAdv == /\ HasNext /\ Ev.ev = "adv" /\ Eat /\ now' = Ev.now
        /\ UNCHANGED <<q, head, tok, reset, stopC, stopped, lpc, lr, timer, cpc, cip, cop, nextId, executed, wg, gone, open>>

(* hook events: the action each decision point stands for *)
TEnter == /\ HasNext /\ Ev.ev \in {"queue.enqueue.enter", "queue.dequeue.enter"} /\ Eat
          /\ \E c \in Clients : Check(c) /\ cpc'[c] = "locked"
                               /\ cop[c].op = (IF Ev.ev = "queue.enqueue.enter" THEN "enq" ELSE "deq")
          /\ UNCHANGED open
TPeeked == /\ HasNext /\ Ev.ev = "queue.loop.peeked" /\ Eat /\ LPeek /\ (Ev.ok <=> q # {}) /\ UNCHANGED open
TSignals == /\ HasNext /\ Ev.ev = "queue.loop.signals" /\ Eat /\ LSignals /\ lpc' = "decide" /\ UNCHANGED open
TArmed == /\ HasNext /\ Ev.ev = "queue.loop.armed" /\ Eat /\ LDecide /\ lpc' = "wait" /\ UNCHANGED open
TExecEnter == /\ HasNext /\ Ev.ev = "queue.exec.enter" /\ Eat /\ (LDecide \/ LWait) /\ lpc' = "exec" /\ UNCHANGED open
TPopped == /\ HasNext /\ Ev.ev = "queue.exec.popped" /\ Eat /\ LExec /\ lpc' = "cb" /\ UNCHANGED open
TCb == /\ HasNext /\ Ev.ev = "cbstart" /\ Eat /\ LCallback /\ lr.id = Ev.id /\ UNCHANGED open
TCloseStopped == /\ HasNext /\ Ev.ev = "queue.close.stopped" /\ Eat
                 /\ \E c \in Clients : CloseCAS(c) /\ cpc'[c] = "token"
                 /\ UNCHANGED open
(* silent: no hook marks these *)
Silent == /\ HasNext /\ Keep /\ UNCHANGED open
          /\ \/ LExit \/ LGone
             \/ (LSignals /\ lpc' # "decide")
             \/ (LWait /\ lpc' # "exec")
             \/ (LExec /\ lpc' = "peek")
             \/ \E c \in Clients : \/ (Check(c) /\ cpc'[c] = "idle")
                                   \/ EnqueueCS(c) \/ DequeueCS(c)
                                   \/ (CloseCAS(c) /\ cpc'[c] = "wgwait") \/ CloseToken(c) \/ CloseWait(c)
TIgnore == /\ HasNext /\ Ev.ev \in {"cbend", "quiescent", "cb.block"} /\ Eat /\ UNCHANGED <<vars, open>>

TNext == TEnqCall \/ TDeqCall \/ TCloseCall \/ TRet \/ TAdv \/ TEnter \/ TPeeked \/ TSignals \/ TArmed \/ TExecEnter
         \/ TPopped \/ TCb \/ TCloseStopped \/ Silent \/ TIgnore
TSpec == TInit /\ [][TNext]_tvars
Done == IF l = Trace[tr].end THEN PrintT(<<"DONE", tr>>) ELSE TRUE
=============================================================================
