------------------------------ MODULE Processor ------------------------------
(* Implementation-shaped model of events/queue/processor.go.  One action per *)
(* critical section / channel operation; the comments give the source lines. *)
(*   lock   p.lock            tok    processorRunningCh (1 slot)              *)
(*   reset  resetCh (1 slot)  stopC  stopCh closed       stopped  p.stopped   *)
(* Clients run fixed small programs; the loop goroutine exists while lpc #    *)
(* "none".  Time is in ticks of 100 µs.                                       *)
EXTENDS Integers, FiniteSets, Sequences, TLC

CONSTANTS Progs,       \* sequence of client programs; an op is [op |-> "enq", key, dt] | [op |-> "deq", key] | [op |-> "close"]
          MaxNow,      \* clock bound
          Fixed        \* TRUE: the loop releases the running token in the same critical section in which it saw the queue empty

Clients == 1..Len(Progs)
Early == 5

VARIABLES now, q,            \* q: set of items [id, key, at] in the heap
          tok, reset, stopC, stopped,
          lpc, lr, timer,    \* loop: program counter, peeked item, armed timer deadline (-1: none)
          cpc, cip,          \* client: pc within the current op, index of the current op
          nextId, executed,  \* executed: [ids: set of executed item ids, bad: some execution was early or repeated]
          wg, gone           \* gone: loop goroutines that released the token but have not yet called wg.Done
vars == <<now, q, tok, reset, stopC, stopped, lpc, lr, timer, cpc, cip, nextId, executed, wg, gone>>

NoItem == [id |-> 0, key |-> "", at |-> 0]
HeadOf(S) == CHOOSE x \in S : \A y \in S : x.at < y.at \/ (x.at = y.at /\ x.id <= y.id)
CurOp(c) == Progs[c][cip[c]]
HasOp(c) == cip[c] <= Len(Progs[c])

Init == /\ now = 0 /\ q = {} /\ tok = FALSE /\ reset = FALSE /\ stopC = FALSE /\ stopped = FALSE
        /\ lpc = "none" /\ lr = NoItem /\ timer = -1
        /\ cpc = [c \in Clients |-> "idle"] /\ cip = [c \in Clients |-> 1]
        /\ nextId = 1 /\ executed = [ids |-> {}, bad |-> FALSE] /\ wg = 0 /\ gone = 0

(* process(isNext) - processor.go:105-129, called with the lock held *)
ProcessEffect(isNext) ==
  IF ~tok THEN /\ tok' = TRUE /\ lpc' = "peek" /\ wg' = wg + 1 /\ UNCHANGED reset      \* got the token: spawn the loop
          ELSE /\ reset' = (reset \/ isNext) /\ UNCHANGED <<tok, lpc, wg>>

(* ---- clients ---- *)
Start(c) == /\ cpc[c] = "idle" /\ HasOp(c)
            /\ cpc' = [cpc EXCEPT ![c] = IF CurOp(c).op = "close" THEN "close" ELSE "check"]
            /\ UNCHANGED <<now, q, tok, reset, stopC, stopped, lpc, lr, timer, cip, nextId, executed, wg, gone>>
(* Enqueue/Dequeue: stopped check - processor.go:58,80 *)
Check(c) == /\ cpc[c] = "check"
            /\ IF stopped THEN /\ cpc' = [cpc EXCEPT ![c] = "idle"] /\ cip' = [cip EXCEPT ![c] = @ + 1]
                          ELSE /\ cpc' = [cpc EXCEPT ![c] = "locked"] /\ UNCHANGED cip
            /\ UNCHANGED <<now, q, tok, reset, stopC, stopped, lpc, lr, timer, nextId, executed, wg, gone>>
(* the critical section of Enqueue - processor.go:64-71 (the loop never holds the lock across steps, so it is free) *)
EnqueueCS(c) ==
  /\ cpc[c] = "locked" /\ CurOp(c).op = "enq"
  /\ LET o == CurOp(c)
         it == [id |-> nextId, key |-> o.key, at |-> now + o.dt]
         wasFirst == q # {} /\ HeadOf(q).key = o.key
         q2 == {x \in q : x.key # o.key} \cup {it}
         isFirst == wasFirst \/ HeadOf(q2) = it
     IN /\ q' = q2 /\ nextId' = nextId + 1 /\ ProcessEffect(isFirst)
  /\ cpc' = [cpc EXCEPT ![c] = "idle"] /\ cip' = [cip EXCEPT ![c] = @ + 1]
  /\ UNCHANGED <<now, stopC, stopped, lr, timer, executed, gone>>
(* the critical section of Dequeue - processor.go:85-92 *)
DequeueCS(c) ==
  /\ cpc[c] = "locked" /\ CurOp(c).op = "deq"
  /\ LET o == CurOp(c)
         wasFirst == q # {} /\ HeadOf(q).key = o.key
     IN /\ q' = {x \in q : x.key # o.key}
        /\ IF wasFirst THEN ProcessEffect(TRUE) ELSE UNCHANGED <<tok, reset, lpc, wg>>
  /\ cpc' = [cpc EXCEPT ![c] = "idle"] /\ cip' = [cip EXCEPT ![c] = @ + 1]
  /\ UNCHANGED <<now, stopC, stopped, lr, timer, nextId, executed, gone>>
(* Close - processor.go:95-103 *)
CloseCAS(c) == /\ cpc[c] = "close"
               /\ IF stopped THEN cpc' = [cpc EXCEPT ![c] = "wgwait"] /\ UNCHANGED <<stopped, stopC>>
                             ELSE stopped' = TRUE /\ stopC' = TRUE /\ cpc' = [cpc EXCEPT ![c] = "token"]
               /\ UNCHANGED <<now, q, tok, reset, lpc, lr, timer, cip, nextId, executed, wg, gone>>
CloseToken(c) == /\ cpc[c] = "token" /\ ~tok /\ tok' = TRUE          \* blocks until the loop released the token
                 /\ cpc' = [cpc EXCEPT ![c] = "wgwait"]
                 /\ UNCHANGED <<now, q, reset, stopC, stopped, lpc, lr, timer, cip, nextId, executed, wg, gone>>
CloseWait(c) == /\ cpc[c] = "wgwait" /\ wg = 0
                /\ cpc' = [cpc EXCEPT ![c] = "idle"] /\ cip' = [cip EXCEPT ![c] = @ + 1]
                /\ UNCHANGED <<now, q, tok, reset, stopC, stopped, lpc, lr, timer, nextId, executed, wg, gone>>

(* ---- the loop goroutine - processor.go:132-190 ---- *)
LPeek == /\ lpc = "peek"                                             \* :150-155
         /\ IF q = {} THEN IF Fixed THEN /\ lpc' = "none" /\ gone' = gone + 1 /\ tok' = FALSE /\ UNCHANGED lr     \* token released under the lock
                                    ELSE /\ lpc' = "exit" /\ UNCHANGED <<lr, tok, gone>>
                      ELSE /\ lr' = HeadOf(q) /\ lpc' = "signals" /\ UNCHANGED <<tok, gone>>
         /\ UNCHANGED <<now, q, reset, stopC, stopped, timer, cpc, cip, nextId, executed, wg>>
LExit == /\ lpc = "exit" /\ tok' = FALSE /\ lpc' = "none" /\ gone' = gone + 1   \* :133-136 deferred token release
         /\ UNCHANGED <<now, q, reset, stopC, stopped, lr, timer, cpc, cip, nextId, executed, wg>>
LGone == /\ gone > 0 /\ gone' = gone - 1 /\ wg' = wg - 1             \* wg.Done of an exiting loop goroutine
         /\ UNCHANGED <<now, q, tok, reset, stopC, stopped, lpc, lr, timer, cpc, cip, nextId, executed>>
LSignals == /\ lpc = "signals"                                        \* :159-169
            /\ \/ stopC /\ lpc' = "exit" /\ UNCHANGED reset
               \/ reset /\ reset' = FALSE /\ lpc' = "peek"
               \/ ~stopC /\ ~reset /\ lpc' = "decide" /\ UNCHANGED reset
            /\ UNCHANGED <<now, q, tok, stopC, stopped, lr, timer, cpc, cip, nextId, executed, wg, gone>>
LDecide == /\ lpc = "decide"                                          \* :171-180
           /\ IF lr.at - now < Early THEN lpc' = "exec" /\ UNCHANGED timer
                                     ELSE lpc' = "wait" /\ timer' = lr.at
           /\ UNCHANGED <<now, q, tok, reset, stopC, stopped, lr, cpc, cip, nextId, executed, wg, gone>>
LWait == /\ lpc = "wait"                                              \* :182-199 select
         /\ \/ now >= timer /\ lpc' = "exec" /\ UNCHANGED reset
            \/ reset /\ reset' = FALSE /\ lpc' = "peek"
            \/ stopC /\ lpc' = "exit" /\ UNCHANGED reset
         /\ timer' = -1
         /\ UNCHANGED <<now, q, tok, stopC, stopped, lr, cpc, cip, nextId, executed, wg, gone>>
LExec == /\ lpc = "exec"                                              \* execute(): :205-218
         /\ IF q # {} /\ HeadOf(q) = lr
              THEN /\ q' = q \ {lr} /\ lpc' = "cb"
              ELSE /\ UNCHANGED q /\ lpc' = "peek"
         /\ UNCHANGED <<now, tok, reset, stopC, stopped, lr, timer, cpc, cip, nextId, executed, wg, gone>>
LCallback == /\ lpc = "cb"                                            \* :220 executeFn(r)
             /\ executed' = [ids |-> executed.ids \cup {lr.id},
                              bad |-> executed.bad \/ lr.id \in executed.ids \/ now < lr.at - Early]
             /\ lpc' = "peek"
             /\ UNCHANGED <<now, q, tok, reset, stopC, stopped, lr, timer, cpc, cip, nextId, wg, gone>>

Advance == /\ now < MaxNow /\ now' = now + 1
           /\ UNCHANGED <<q, tok, reset, stopC, stopped, lpc, lr, timer, cpc, cip, nextId, executed, wg, gone>>

LoopStep == LPeek \/ LExit \/ LGone \/ LSignals \/ LDecide \/ LWait \/ LExec \/ LCallback
ClientStep == \E c \in Clients : Start(c) \/ Check(c) \/ EnqueueCS(c) \/ DequeueCS(c) \/ CloseCAS(c) \/ CloseToken(c) \/ CloseWait(c)
Next == LoopStep \/ ClientStep \/ Advance
Spec == Init /\ [][Next]_vars /\ WF_vars(LoopStep) /\ WF_vars(ClientStep) /\ WF_vars(Advance)

(* ---- properties ---- *)
AtRest == lpc = "none" /\ gone = 0 /\ \A c \in Clients : cpc[c] = "idle"
(* an item is never left queued with no loop serving it *)
NoStranded == (AtRest /\ ~stopped) => q = {}
(* the token is held exactly while a loop exists (or Close took it for good) *)
TokenDiscipline == (lpc \in {"peek", "signals", "decide", "wait", "exec", "cb", "exit"}) => tok
OnTimeOnce == ~executed.bad        \* never more than 0.5 ms early, never twice
NothingAfterClose == (\E c \in Clients : cpc[c] = "idle" /\ cip[c] > 1 /\ Progs[c][cip[c] - 1].op = "close") => (lpc = "none" /\ gone = 0)
(* liveness: everything due gets executed or removed, Close returns *)
AllDone == <>[](\A c \in Clients : ~HasOp(c) /\ cpc[c] = "idle")
Drained == <>[](stopped \/ \A x \in q : x.at > now)
=============================================================================
