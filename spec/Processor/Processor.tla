------------------------------ MODULE Processor ------------------------------
(* Implementation-shaped model of events/queue/processor.go.  One action per *)
(* critical section / channel operation; the comments give the source lines. *)
(*   lock   p.lock            tok    processorRunningCh (1 slot)              *)
(*   reset  resetCh (1 slot)  stopC  stopCh closed       stopped  p.stopped   *)
(* Clients run fixed small programs; the loop goroutine exists while lpc #    *)
(* "none".  Time is in ticks of 100 µs.                                       *)
EXTENDS Integers, FiniteSets, Sequences, TLC

CONSTANTS Progs,       \* sequence of client programs; an op is [op |-> "enq", key, dt] | [op |-> "deq", key] | [op |-> "close"]
          MaxNow,      \* clock bound
          Fixed        \* TRUE: the loop releases the running token in the same critical section in which it saw the queue empty

Clients == 1..Len(Progs)
Early == 5

VARIABLES now, q, head,      \* q: set of items [id, key, at] in the heap; head: the item on top of the heap (NoItem if empty)
          tok, reset, stopC, stopped,
          lpc, lr, timer,    \* loop: program counter, peeked item, armed timer deadline (-1: none)
          cpc, cip, cop,     \* client: pc within the current op, index of the current op, the op in progress [op, key, at, id]
          nextId, executed,  \* executed: [ids: set of executed item ids, bad: some execution was early or repeated]
          wg, gone           \* gone: loop goroutines that released the token but have not yet called wg.Done
vars == <<now, q, head, tok, reset, stopC, stopped, lpc, lr, timer, cpc, cip, cop, nextId, executed, wg, gone>>

NoItem == [id |-> 0, key |-> "", at |-> 0]
NoOp == [op |-> "none", key |-> "", at |-> 0, id |-> 0]
(* the heap orders by scheduled time only; which of several items with the same time is on top is whatever the *)
(* heap happens to hold: `head` is the current top, re-chosen among the minimal items whenever the heap changes   *)
MinSet(S) == {x \in S : \A y \in S : x.at <= y.at}
Tops(S) == IF S = {} THEN {NoItem} ELSE MinSet(S)
CurOp(c) == Progs[c][cip[c]]
HasOp(c) == cip[c] <= Len(Progs[c])

Init == /\ now = 0 /\ q = {} /\ head = NoItem /\ tok = FALSE /\ reset = FALSE /\ stopC = FALSE /\ stopped = FALSE
        /\ lpc = "none" /\ lr = NoItem /\ timer = -1
        /\ cpc = [c \in Clients |-> "idle"] /\ cip = [c \in Clients |-> 1] /\ cop = [c \in Clients |-> NoOp]
        /\ nextId = 1 /\ executed = [ids |-> {}, bad |-> FALSE] /\ wg = 0 /\ gone = 0

(* process(isNext) - processor.go:105-129, called with the lock held *)
ProcessEffect(isNext) ==
  IF ~tok THEN /\ tok' = TRUE /\ lpc' = "peek" /\ wg' = wg + 1 /\ UNCHANGED reset      \* got the token: spawn the loop
          ELSE /\ reset' = (reset \/ isNext) /\ UNCHANGED <<tok, lpc, wg>>

(* ---- clients ---- *)
(* the caller fixes the item (its scheduled time) before calling Enqueue *)
Begin(c, o) == /\ cpc[c] = "idle"
               /\ cop' = [cop EXCEPT ![c] = o]
               /\ cpc' = [cpc EXCEPT ![c] = IF o.op = "close" THEN "close" ELSE "check"]
               /\ UNCHANGED <<now, q, head, tok, reset, stopC, stopped, lpc, lr, timer, cip, executed, wg, gone>>
Start(c) == /\ HasOp(c)
            /\ LET o == CurOp(c) IN
               Begin(c, [op |-> o.op, key |-> IF o.op = "close" THEN "" ELSE o.key,
                         at |-> IF o.op = "enq" THEN now + o.dt ELSE 0, id |-> IF o.op = "enq" THEN nextId ELSE 0])
            /\ nextId' = IF CurOp(c).op = "enq" THEN nextId + 1 ELSE nextId
(* Enqueue/Dequeue: stopped check - processor.go:58,80 *)
Check(c) == /\ cpc[c] = "check"
            /\ IF stopped THEN /\ cpc' = [cpc EXCEPT ![c] = "idle"] /\ cip' = [cip EXCEPT ![c] = @ + 1] /\ cop' = [cop EXCEPT ![c] = NoOp]
                          ELSE /\ cpc' = [cpc EXCEPT ![c] = "locked"] /\ UNCHANGED <<cip, cop>>
            /\ UNCHANGED <<now, q, head, tok, reset, stopC, stopped, lpc, lr, timer, nextId, executed, wg, gone>>
(* the critical section of Enqueue - processor.go:64-71 (the loop never holds the lock across steps, so it is free) *)
EnqueueCS(c) ==
  /\ cpc[c] = "locked" /\ cop[c].op = "enq"
  /\ LET o == cop[c]
         it == [id |-> o.id, key |-> o.key, at |-> o.at]
         wasFirst == q # {} /\ head.key = o.key
         q2 == {x \in q : x.key # o.key} \cup {it}
     IN \E h \in Tops(q2) :
          /\ q' = q2 /\ head' = h
          /\ ProcessEffect(wasFirst \/ h = it)
  /\ cpc' = [cpc EXCEPT ![c] = "idle"] /\ cip' = [cip EXCEPT ![c] = @ + 1]
  /\ cop' = [cop EXCEPT ![c] = NoOp]
  /\ UNCHANGED <<now, stopC, stopped, lr, timer, nextId, executed, gone>>
(* the critical section of Dequeue - processor.go:85-92 *)
DequeueCS(c) ==
  /\ cpc[c] = "locked" /\ cop[c].op = "deq"
  /\ LET o == cop[c]
         wasFirst == q # {} /\ head.key = o.key
     IN /\ q' = {x \in q : x.key # o.key}
        /\ head' \in Tops({x \in q : x.key # o.key})
        /\ (head \in {x \in q : x.key # o.key} => head' = head)          \* removing another item does not change the top
        /\ IF wasFirst THEN ProcessEffect(TRUE) ELSE UNCHANGED <<tok, reset, lpc, wg>>
  /\ cpc' = [cpc EXCEPT ![c] = "idle"] /\ cip' = [cip EXCEPT ![c] = @ + 1]
  /\ cop' = [cop EXCEPT ![c] = NoOp]
  /\ UNCHANGED <<now, stopC, stopped, lr, timer, nextId, executed, gone>>
(* Close - processor.go:95-103 *)
CloseCAS(c) == /\ cpc[c] = "close"
               /\ IF stopped THEN cpc' = [cpc EXCEPT ![c] = "wgwait"] /\ UNCHANGED <<stopped, stopC>>
                             ELSE stopped' = TRUE /\ stopC' = TRUE /\ cpc' = [cpc EXCEPT ![c] = "token"]
               /\ UNCHANGED <<now, q, head, tok, reset, lpc, lr, timer, cip, cop, nextId, executed, wg, gone>>
CloseToken(c) == /\ cpc[c] = "token" /\ ~tok /\ tok' = TRUE          \* blocks until the loop released the token
                 /\ cpc' = [cpc EXCEPT ![c] = "wgwait"]
                 /\ UNCHANGED <<now, q, head, reset, stopC, stopped, lpc, lr, timer, cip, cop, nextId, executed, wg, gone>>
CloseWait(c) == /\ cpc[c] = "wgwait" /\ wg = 0
                /\ cpc' = [cpc EXCEPT ![c] = "idle"] /\ cip' = [cip EXCEPT ![c] = @ + 1]
                /\ cop' = [cop EXCEPT ![c] = NoOp]
                /\ UNCHANGED <<now, q, head, tok, reset, stopC, stopped, lpc, lr, timer, nextId, executed, wg, gone>>

(* ---- the loop goroutine - processor.go:132-190 ---- *)
LPeek == /\ lpc = "peek"                                             \* :150-155
         /\ IF q = {} THEN IF Fixed THEN /\ lpc' = "none" /\ gone' = gone + 1 /\ tok' = FALSE /\ UNCHANGED lr     \* token released under the lock
                                    ELSE /\ lpc' = "exit" /\ UNCHANGED <<lr, tok, gone>>
                      ELSE /\ lr' = head /\ lpc' = "signals" /\ UNCHANGED <<tok, gone>>
         /\ UNCHANGED <<now, q, head, reset, stopC, stopped, timer, cpc, cip, cop, nextId, executed, wg>>
LExit == /\ lpc = "exit" /\ tok' = FALSE /\ lpc' = "none" /\ gone' = gone + 1   \* :133-136 deferred token release
         /\ UNCHANGED <<now, q, head, reset, stopC, stopped, lr, timer, cpc, cip, cop, nextId, executed, wg>>
LGone == /\ gone > 0 /\ gone' = gone - 1 /\ wg' = wg - 1             \* wg.Done of an exiting loop goroutine
         /\ UNCHANGED <<now, q, head, tok, reset, stopC, stopped, lpc, lr, timer, cpc, cip, cop, nextId, executed>>
LSignals == /\ lpc = "signals"                                        \* :159-169
            /\ \/ stopC /\ lpc' = "exit" /\ UNCHANGED reset
               \/ reset /\ reset' = FALSE /\ lpc' = "peek"
               \/ ~stopC /\ ~reset /\ lpc' = "decide" /\ UNCHANGED reset
            /\ UNCHANGED <<now, q, head, tok, stopC, stopped, lr, timer, cpc, cip, cop, nextId, executed, wg, gone>>
LDecide == /\ lpc = "decide"                                          \* :171-180
           /\ IF lr.at - now < Early THEN lpc' = "exec" /\ UNCHANGED timer
                                     ELSE lpc' = "wait" /\ timer' = lr.at
           /\ UNCHANGED <<now, q, head, tok, reset, stopC, stopped, lr, cpc, cip, cop, nextId, executed, wg, gone>>
LWait == /\ lpc = "wait"                                              \* :182-199 select
         /\ \/ now >= timer /\ lpc' = "exec" /\ UNCHANGED reset
            \/ reset /\ reset' = FALSE /\ lpc' = "peek"
            \/ stopC /\ lpc' = "exit" /\ UNCHANGED reset
         /\ timer' = -1
         /\ UNCHANGED <<now, q, head, tok, stopC, stopped, lr, cpc, cip, cop, nextId, executed, wg, gone>>
LExec == /\ lpc = "exec"                                              \* execute(): :205-218
         /\ IF q # {} /\ head = lr
              THEN /\ q' = q \ {lr} /\ head' \in Tops(q \ {lr}) /\ lpc' = "cb"
              ELSE /\ UNCHANGED <<q, head>> /\ lpc' = "peek"
         /\ UNCHANGED <<now, tok, reset, stopC, stopped, lr, timer, cpc, cip, cop, nextId, executed, wg, gone>>
LCallback == /\ lpc = "cb"                                            \* :220 executeFn(r)
             /\ executed' = [ids |-> executed.ids \cup {lr.id},
                              bad |-> executed.bad \/ lr.id \in executed.ids \/ now < lr.at - Early]
             /\ lpc' = "peek"
             /\ UNCHANGED <<now, q, head, tok, reset, stopC, stopped, lr, timer, cpc, cip, cop, nextId, wg, gone>>

Advance == /\ now < MaxNow /\ now' = now + 1
           /\ UNCHANGED <<q, head, tok, reset, stopC, stopped, lpc, lr, timer, cpc, cip, cop, nextId, executed, wg, gone>>

LoopStep == LPeek \/ LExit \/ LGone \/ LSignals \/ LDecide \/ LWait \/ LExec \/ LCallback
ClientStep == \E c \in Clients : Start(c) \/ Check(c) \/ EnqueueCS(c) \/ DequeueCS(c) \/ CloseCAS(c) \/ CloseToken(c) \/ CloseWait(c)
Next == LoopStep \/ ClientStep \/ Advance
Spec == Init /\ [][Next]_vars /\ WF_vars(LoopStep) /\ WF_vars(ClientStep) /\ WF_vars(Advance)

(* ---- properties ---- *)
AtRest == lpc = "none" /\ gone = 0 /\ \A c \in Clients : cpc[c] = "idle"
(* an item is never left queued with no loop serving it *)
NoStranded == (AtRest /\ ~stopped) => q = {}
(* the token is held exactly while a loop exists (or Close took it for good) *)
TokenDiscipline == (lpc \in {"peek", "signals", "decide", "wait", "exec", "cb", "exit"}) => tok
OnTimeOnce == ~executed.bad        \* never more than 0.5 ms early, never twice
NothingAfterClose == (\E c \in Clients : cpc[c] = "idle" /\ cip[c] > 1 /\ Progs[c][cip[c] - 1].op = "close") => (lpc = "none" /\ gone = 0)
(* liveness: everything due gets executed or removed, Close returns *)
AllDone == <>[](\A c \in Clients : ~HasOp(c) /\ cpc[c] = "idle")
Drained == <>[](stopped \/ \A x \in q : x.at > now)
=============================================================================
