SPECIFICATION TSpec
CONSTANTS
  Progs <- ProgsTrace
  MaxNow = 0
  Fixed = TRUE
CONSTRAINT Done
INVARIANTS TokenDiscipline OnTimeOnce
CHECK_DEADLOCK FALSE
