SPECIFICATION Spec
CONSTANTS
  Progs <- ProgsDefect
  MaxNow = 1
  Fixed = FALSE
INVARIANTS NoStranded

CHECK_DEADLOCK FALSE
