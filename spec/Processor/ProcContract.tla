---------------------------- MODULE ProcContract ----------------------------
(* C06 - queue.Processor as seen by its callers.  Time is in ticks of 100 µs *)
(* (the "0.5 ms early" allowance is 5 ticks).                                *)
(*                                                                            *)
(* Observable events (recorded in real-time order under one mutex):          *)
(*   enq_call {id,key,at} / enq_ret {id}     Enqueue of item id               *)
(*   deq_call {d,key}     / deq_ret {d}      Dequeue call number d            *)
(*   adv {now}                               the clock was moved              *)
(*   cbstart {id} / cbend {id}               the callback ran for item id     *)
(*   close_call / close_ret                                                   *)
(*   quiescent      every goroutine is blocked, no call is in flight          *)
(* The only silent step is Pop(i): the instant the Processor commits to run  *)
(* item i (between the events around it).  An item is *surely live* when its *)
(* Enqueue returned and no Dequeue / replacing Enqueue for its key has been   *)
(* called since; operations that overlap leave it *maybe* removed, and the    *)
(* contract then neither demands nor forbids its execution.                  *)
EXTENDS Integers, FiniteSets, Sequences, TLC

Early == 5

NewItem(key, at, maybe) == [key |-> key, at |-> at, enq |-> "called", rm |-> IF maybe THEN "maybe" ELSE "none",
                            by |-> {}, ex |-> "no"]

SurelyLive(items) == {j \in DOMAIN items : items[j].enq = "ret" /\ items[j].rm = "none" /\ items[j].ex = "no"}

(* a removal operation (Dequeue d, or the Enqueue of a new item with the same key) was CALLED *)
StartRemoval(items, key, op) ==
  [j \in DOMAIN items |->
     IF items[j].key = key /\ items[j].ex = "no" /\ items[j].rm \in {"none", "inflight"}
       THEN IF items[j].enq = "ret"
              THEN [items[j] EXCEPT !.rm = "inflight", !.by = @ \cup {op}]
              ELSE [items[j] EXCEPT !.rm = "maybe"]
       ELSE items[j]]

(* a removal operation called after Close was CALLED: once the Processor is stopped Enqueue and Dequeue are no-ops, so the *)
(* item may or may not be removed / replaced (Close may not have set the flag yet)                                        *)
MaybeRemoval(items, key) ==
  [j \in DOMAIN items |->
     IF items[j].key = key /\ items[j].ex = "no" /\ items[j].rm \in {"none", "inflight"}
       THEN [items[j] EXCEPT !.rm = "maybe"]
       ELSE items[j]]

(* ... and RETURNED: an item it surely removed is gone; "early" if it was not yet due *)
FinishRemoval(items, op, now) ==
  [j \in DOMAIN items |->
     IF items[j].rm = "inflight" /\ op \in items[j].by
       THEN [items[j] EXCEPT !.rm = IF now < items[j].at - Early THEN "gone_early" ELSE "gone_late"]
       ELSE items[j]]

(* may the Processor commit to running item i now? *)
CanPop(items, now, closeRet, i) ==
  /\ items[i].ex = "no"
  /\ items[i].rm # "gone_early"                          \* dequeued/replaced before due: never executed
  /\ ~closeRet                                           \* nothing runs after Close returned
  /\ items[i].at <= now + Early                          \* not more than 0.5 ms early
  /\ \A j \in SurelyLive(items) \ {i} : items[j].at >= items[i].at   \* scheduled-time order
=============================================================================
