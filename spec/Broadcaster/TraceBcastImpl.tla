--------------------------- MODULE TraceBcastImpl ---------------------------
(* Binding of the implementation-shaped model to the code: hook-level traces *)
(* of the real Broadcaster (every decision point it passes, plus the client  *)
(* calls/returns, cancels and the readers' receives, all recorded under one  *)
(* mutex) must be behaviours of Broadcaster.tla.  A record is not atomic with *)
(* the step it marks: a hook placed after a step (fwd.got, fwd.exit, ...) is *)
(* recorded some time after the step - goroutines woken by the step may get  *)
(* their records in first - and a hook placed before a step (broadcast.next, *)
(* close.enter, the *_call records) some time before it.  So the model steps *)
(* are taken silently and every hook record must be owed by / must announce  *)
(* exactly the step it stands for, per goroutine, in order.  At the quiescent *)
(* points and at the end of a run the model must agree that nothing can move *)
(* (and on the number of calls that never returned).  A                      *)
(* trace that is not accepted is DRIFT between model and code - reported in  *)
(* the evidence, never a violation by itself (the contract is the verdict).  *)
EXTENDS MCBroadcaster, TraceLib

Trace == LoadTrace("trace.ndjson")
Starts == {i \in 1..Len(Trace) : Trace[i].ev = "reset"}
VARIABLES tr, l,
          open,       \* open[c]: client c has a call in flight whose return was not yet recorded
          entered,    \* entered[c]: c's Close call passed bcast.close.enter
          ann,        \* ann[c]: c's Broadcast announced (bcast.broadcast.next) the select at its current position
          fowe,       \* fowe[s]: the hook record s's forwarder owes for its last step ("": none)
          pend        \* pend[s]: the value handed to s's reader whose recv record is still to come (0: none)
aux == <<open, entered, ann, fowe, pend>>
tvars == <<vars, tr, l, aux>>

TInit == /\ Init /\ tr \in Starts /\ l = tr /\ open = [c \in Clients |-> FALSE] /\ entered = [c \in Clients |-> FALSE]
         /\ ann = [c \in Clients |-> FALSE] /\ fowe = [s \in Subs |-> ""] /\ pend = [s \in Subs |-> 0]
HasNext == l + 1 <= Trace[tr].end
Ev == Trace[l + 1]
Eat == l' = l + 1 /\ UNCHANGED tr
Keep == UNCHANGED <<tr, l>>
Is(name) == HasNext /\ Ev.ev = name /\ Eat

(* ---- client and reader records ---- *)
Call(o) == /\ Begin(Ev.c, o) /\ open' = [open EXCEPT ![Ev.c] = TRUE] /\ entered' = [entered EXCEPT ![Ev.c] = FALSE]
           /\ UNCHANGED <<nextV, ann, fowe, pend>>
TSubCall == Is("sub_call") /\ Call([op |-> "sub", s |-> Ev.s, kind |-> IF Ev.kind = "stalled" THEN "stalled" ELSE "gated", v |-> 0])
TBcCall == Is("bc_call") /\ Call([op |-> "bc", s |-> 0, kind |-> "", v |-> Ev.v])
TCloseCall == Is("close_call") /\ Call([op |-> "close", s |-> 0, kind |-> "", v |-> 0])
TRet == /\ HasNext /\ Ev.ev \in {"sub_ret", "bc_ret", "close_ret"} /\ Eat
        /\ open[Ev.c] /\ cpc[Ev.c] = "idle"
        /\ open' = [open EXCEPT ![Ev.c] = FALSE] /\ UNCHANGED <<vars, entered, ann, fowe, pend>>
TCancel == Is("cancel") /\ Cancel(Ev.s) /\ UNCHANGED aux
TRWait == Is("rwait") /\ RWait(Ev.s) /\ UNCHANGED aux
TRecv == /\ Is("recv") /\ pend[Ev.s] = Ev.v /\ pend' = [pend EXCEPT ![Ev.s] = 0] /\ UNCHANGED <<vars, open, entered, ann, fowe>>

(* ---- hook records ---- *)
Owed(name, what) == /\ Is(name) /\ UNCHANGED <<vars, open, entered, ann, pend>>
                    /\ \E s \in Subs : sid[s] = Ev.id /\ fowe[s] = what /\ fowe' = [fowe EXCEPT ![s] = ""]
TFwdGot == Owed("bcast.fwd.got", "got")                        \* the forwarder took a value from its buffer
TFwdExit == Owed("bcast.fwd.exit", "exit")                     \* ... saw its context or closeCh done
TFwdSignalled == Owed("bcast.fwd.exit.signalled", "sig")       \* ... closed closeEventCh
(* a Broadcast (holding the lock) is about to select on the subscriber at its current position *)
TBcNext == /\ Is("bcast.broadcast.next") /\ UNCHANGED <<vars, open, entered, fowe, pend>>
           /\ \E c \in Clients : /\ cpc[c] = "loop" /\ ~ann[c] /\ bidx[c] <= Len(eventChs) /\ sid[eventChs[bidx[c]]] = Ev.id
                                 /\ ann' = [ann EXCEPT ![c] = TRUE]
TCloseEnter == /\ Is("bcast.close.enter") /\ UNCHANGED <<vars, open, ann, fowe, pend>>
               /\ \E c \in Clients : cpc[c] = "close" /\ ~entered[c] /\ entered' = [entered EXCEPT ![c] = TRUE]

(* ---- the model's steps ---- *)
Silent == /\ HasNext /\ Keep /\ UNCHANGED <<open, entered>>
          /\ \/ /\ UNCHANGED <<ann, fowe, pend>>
                /\ \/ \E s \in Subs : fowe[s] = "" /\ FwdUnreg(s)
                   \/ \E c \in Clients : \/ Subscribe(c) \/ BStart(c) \/ BEnd(c)
                                         \/ (CloseCAS(c) /\ entered[c]) \/ CloseLockFixed(c) \/ CloseWait(c)
             \/ \E c \in Clients : BSend(c) /\ ann[c] /\ ann' = [ann EXCEPT ![c] = FALSE] /\ UNCHANGED <<fowe, pend>>
             \/ \E s \in Subs : /\ fowe[s] = "" /\ UNCHANGED ann
                                /\ \/ FwdWait(s) /\ fowe' = [fowe EXCEPT ![s] = IF fpc'[s] = "got" THEN "got" ELSE "exit"] /\ UNCHANGED pend
                                   \/ FwdGot(s) /\ fpc'[s] = "exit" /\ fowe' = [fowe EXCEPT ![s] = "exit"] /\ UNCHANGED pend
                                   \/ FwdGot(s) /\ fpc'[s] = "wait" /\ pend[s] = 0            \* handed to the reader; its recv record follows
                                      /\ pend' = [pend EXCEPT ![s] = hand[s]] /\ UNCHANGED fowe
                                   \/ FwdExit(s) /\ fowe' = [fowe EXCEPT ![s] = "sig"] /\ UNCHANGED pend

(* ---- nothing can move: the model's view of a quiescent point ---- *)
FwdBlocked(s) == /\ fowe[s] = "" /\ pend[s] = 0
                 /\ \/ fpc[s] \in {"none", "done"}
                    \/ fpc[s] = "wait" /\ ~ctxDone[s] /\ ~closeCh /\ buf[s] = <<>>
                    \/ fpc[s] = "got" /\ ~ctxDone[s] /\ ~closeCh /\ ~rdy[s]
                    \/ fpc[s] = "unreg" /\ lock # 0
ClientBlocked(c) == \/ cpc[c] = "idle"
                    \/ cpc[c] \in {"sub", "bc", "clock"} /\ lock # 0
                    \/ cpc[c] = "loop" /\ ann[c] /\ bidx[c] <= Len(eventChs) /\ ~closeCh
                       /\ LET s == eventChs[bidx[c]] IN ~closeEv[s] /\ Len(buf[s]) >= B
                    \/ cpc[c] = "cwait" /\ wg # 0
TQuiescent == /\ Is("quiescent") /\ UNCHANGED <<vars, aux>>
              /\ \A c \in Clients : cpc[c] = "idle"
              /\ \A s \in Subs : FwdBlocked(s)
TStuck == /\ Is("stuck") /\ UNCHANGED <<vars, aux>>
          /\ \A c \in Clients : ClientBlocked(c)
          /\ \A s \in Subs : FwdBlocked(s)
          /\ Cardinality({c \in Clients : cpc[c] # "idle"}) = Ev.n
TIgnore == /\ HasNext /\ Ev.ev \in {"reader.take"} /\ Eat /\ UNCHANGED <<vars, aux>>

TNext == TSubCall \/ TBcCall \/ TCloseCall \/ TRet \/ TCancel \/ TRWait \/ TRecv \/ TFwdExit \/ TFwdSignalled \/ TFwdGot
         \/ TBcNext \/ TCloseEnter \/ Silent \/ TQuiescent \/ TStuck \/ TIgnore
TSpec == TInit /\ [][TNext]_tvars
Done == IF l = Trace[tr].end THEN PrintT(<<"DONE", tr>>) ELSE TRUE
=============================================================================
