SPECIFICATION Spec
CONSTANTS NSubs = 2 B = 1 Progs <- ProgsPP21 CloseFix = TRUE
INVARIANT CommonOrder
PROPERTIES QuietAfterClose CloseReturns BroadcastsReturn
CHECK_DEADLOCK FALSE
