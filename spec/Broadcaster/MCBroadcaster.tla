--------------------------- MODULE MCBroadcaster ---------------------------
EXTENDS Broadcaster
S(s, k) == [op |-> "sub", s |-> s, kind |-> k]
BC == [op |-> "bc"]
CL == [op |-> "close"]
(* two subscribers (prompt + stalled / both prompt), broadcasters, one Close *)
ProgsPS21 == << <<S(1, "prompt")>>, <<S(2, "stalled")>>, <<BC, BC>>, <<BC>>, <<CL>> >>
ProgsPP21 == << <<S(1, "prompt")>>, <<S(2, "prompt")>>, <<BC, BC>>, <<BC>>, <<CL>> >>
ProgsPS3 == << <<S(1, "prompt")>>, <<S(2, "stalled")>>, <<BC, BC, BC>>, <<CL>> >>
ProgsTrace == << <<>>, <<>>, <<>>, <<>> >>      \* trace validation: up to 4 clients, their operations come from the trace
=============================================================================
