--------------------------- MODULE MCBroadcaster ---------------------------
EXTENDS Broadcaster
KindsPS == <<"prompt", "stalled">>
KindsPP == <<"prompt", "prompt">>
BP1 == <<3>>
BP2 == <<2, 1>>
=============================================================================
