SPECIFICATION TSpec
CONSTANTS
  NSubs = 4
  B = 10
  Progs <- ProgsTrace
  CloseFix = TRUE
CONSTRAINT Done
CHECK_DEADLOCK FALSE
