---------------------------- MODULE BcastContract ----------------------------
(* C11 - the Broadcaster as seen by its users: a deterministic monitor over   *)
(*   sub_call {s,kind} / sub_ret {s}   Subscribe of subscriber s; kind is how *)
(*                                     its reader behaves: prompt|slow|stalled *)
(*   cancel {s}                        s's context ended                       *)
(*   bc_call {b,v} / bc_ret {b}        Broadcast call b with value v           *)
(*   rwait {s}                         s's reader starts waiting for a value   *)
(*   recv {s,v}                        ... and received v (recorded after the  *)
(*                                     fact, so only a receive whose wait began *)
(*                                     after close_ret is surely "after Close") *)
(*   close_call / close_ret                                                    *)
(*   quiescent {final}   all goroutines blocked, no call in flight (final:     *)
(*                       slow readers have been allowed to drain)              *)
(*   stuck {n}           end of run: n calls never returned                    *)
EXTENDS Naturals, Sequences, FiniteSets, TLC

Bad(why) == [bad |-> TRUE, why |-> why]
IsBad(c) == c.bad

CReset == [bad |-> FALSE, why |-> "", subs |-> << >>, bcs |-> << >>, before |-> {}, closeCalled |-> FALSE, closeRet |-> FALSE]

Vals(c) == {c.bcs[b].v : b \in DOMAIN c.bcs}

(* is there a cycle in the "must precede" relation R over nodes N? (Warshall, small N) *)
(* `before` is kept transitively closed.  Adding "every x in X precedes v": *)
AddBefore(R, X, v) == LET A == X \cup {p[1] : p \in {q \in R : q[2] \in X}}
                          D == {v} \cup {p[2] : p \in {q \in R : q[1] = v}}
                      IN R \cup (A \X D)
(* ... creates a cycle iff v already precedes some x in X *)
WouldCycle(R, X, v) == v \in X \/ \E x \in X : <<v, x>> \in R
ToSet(s) == {s[i] : i \in 1..Len(s)}

CSubCall(c, e) == [c EXCEPT !.subs = (e.s :> [st |-> "called", kind |-> e.kind, recv |-> <<>>, lateWait |-> FALSE]) @@ c.subs]
CSubRet(c, e) == [c EXCEPT !.subs[e.s].st = IF c.subs[e.s].st = "called" THEN "subscribed" ELSE @]
CCancel(c, e) == [c EXCEPT !.subs[e.s].st = "cancelled"]

CBcCall(c, e) ==
  LET done == {b \in DOMAIN c.bcs : c.bcs[b].ret}
      elig == {s \in DOMAIN c.subs : c.subs[s].st = "subscribed"}
  IN [c EXCEPT !.bcs = (e.b :> [v |-> e.v, ret |-> FALSE, elig |-> elig]) @@ c.bcs,
               !.before = AddBefore(c.before, {c.bcs[b].v : b \in done}, e.v)]   \* real-time order of Broadcast calls
CBcRet(c, e) == [c EXCEPT !.bcs[e.b].ret = TRUE]

CRecv(c, e) ==
  IF e.v \notin Vals(c) THEN Bad("a value was received that was never broadcast")
  ELSE IF e.v \in ToSet(c.subs[e.s].recv) THEN Bad("a subscriber received a value twice")
  ELSE IF c.subs[e.s].lateWait THEN Bad("a value was delivered after Close returned")
  ELSE LET X == ToSet(c.subs[e.s].recv)
       IN IF WouldCycle(c.before, X, e.v) THEN Bad("subscribers saw values in different orders (or against the order of the Broadcast calls)")
          ELSE [c EXCEPT !.before = AddBefore(c.before, X, e.v), !.subs[e.s].recv = Append(@, e.v)]

(* at rest, with the broadcaster open, every staying subscriber that reads has every value broadcast since it subscribed *)
CQuiescent(c, e) ==
  IF c.closeCalled THEN c
  ELSE IF \E b \in DOMAIN c.bcs : c.bcs[b].ret /\ \E s \in c.bcs[b].elig :
            /\ c.subs[s].st = "subscribed"
            /\ (c.subs[s].kind = "prompt" \/ (e.final /\ c.subs[s].kind = "slow"))
            /\ c.bcs[b].v \notin ToSet(c.subs[s].recv)
       THEN Bad("a staying subscriber never received a broadcast value")
       ELSE c

(* calls that never return are only acceptable while a live subscriber refuses to read and nobody closed *)
CStuck(c, e) ==
  IF e.n = 0 THEN c
  ELSE IF c.closeCalled THEN Bad("deadlock: calls never return although Close was called")
  ELSE IF ~\E s \in DOMAIN c.subs : c.subs[s].st = "subscribed" /\ c.subs[s].kind = "stalled"
       THEN Bad("deadlock: calls never return although no live subscriber is stalled")
       ELSE c

CNext(c, e) ==
  IF e.ev = "reset" THEN CReset
  ELSE IF IsBad(c) THEN c
  ELSE CASE e.ev = "sub_call"   -> CSubCall(c, e)
         [] e.ev = "sub_ret"    -> CSubRet(c, e)
         [] e.ev = "cancel"     -> CCancel(c, e)
         [] e.ev = "bc_call"    -> CBcCall(c, e)
         [] e.ev = "bc_ret"     -> CBcRet(c, e)
         [] e.ev = "rwait"      -> [c EXCEPT !.subs[e.s].lateWait = c.closeRet]
         [] e.ev = "recv"       -> CRecv(c, e)
         [] e.ev = "close_call" -> [c EXCEPT !.closeCalled = TRUE]
         [] e.ev = "close_ret"  -> [c EXCEPT !.closeRet = TRUE]
         [] e.ev = "quiescent"  -> CQuiescent(c, e)
         [] e.ev = "stuck"      -> CStuck(c, e)
=============================================================================
