SPECIFICATION Spec
CONSTANTS NSubs = 2 B = 2 Progs <- ProgsPS21 CloseFix = TRUE
INVARIANT CommonOrder
PROPERTIES QuietAfterClose CloseReturns BroadcastsReturn
CHECK_DEADLOCK FALSE
