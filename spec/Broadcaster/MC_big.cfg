SPECIFICATION Spec
CONSTANTS NSubs = 2 Kinds <- KindsPS B = 2 BProgs <- BP2 CloseFix = TRUE
INVARIANT CommonOrder
PROPERTIES QuietAfterClose CloseReturns BroadcastsReturn
CHECK_DEADLOCK FALSE
