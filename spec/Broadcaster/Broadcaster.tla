----------------------------- MODULE Broadcaster -----------------------------
(* Implementation-shaped model of events/broadcaster/broadcaster.go.          *)
(*   lock: b.lock      closeCh: closed or not      eventChs: registered subs  *)
(*   per subscriber: buf (cap B), closeEv (closeEventCh closed), ctx, the     *)
(*   forwarder goroutine's pc and the value in its hand, the reader's kind.   *)
(* Broadcast holds the lock across its (possibly blocking) sends - that is    *)
(* the point of the model.                                                    *)
EXTENDS Integers, Sequences, FiniteSets, TLC

CONSTANTS NSubs, Kinds,     \* Kinds[s] \in {"prompt", "stalled"}
          B,                \* buffer capacity (10 in the code)
          BProgs,           \* BProgs[p]: number of Broadcast calls of broadcaster p
          CloseFix          \* TRUE: Close signals closeCh before taking the lock (repaired code)

Subs == 1..NSubs
BPs == 1..Len(BProgs)

VARIABLES lock,             \* 0 = free, p = held by broadcaster p across its sends
          closeCh, closed, wg, eventChs,
          sst,              \* subscriber: "unsub" | "active"
          buf, closeEv, ctxDone, fpc, hand, recvd,
          bpc, bidx, bval, bleft, nextV, order,
          cpc               \* closer: "idle" | "signalled" | "locked" | "wait" | "done"
vars == <<lock, closeCh, closed, wg, eventChs, sst, buf, closeEv, ctxDone, fpc, hand, recvd, bpc, bidx, bval, bleft, nextV, order, cpc>>

Init == /\ lock = 0 /\ closeCh = FALSE /\ closed = FALSE /\ wg = 0 /\ eventChs = <<>>
        /\ sst = [s \in Subs |-> "unsub"] /\ buf = [s \in Subs |-> <<>>] /\ closeEv = [s \in Subs |-> FALSE]
        /\ ctxDone = [s \in Subs |-> FALSE] /\ fpc = [s \in Subs |-> "none"] /\ hand = [s \in Subs |-> 0]
        /\ recvd = [s \in Subs |-> <<>>]
        /\ bpc = [p \in BPs |-> "idle"] /\ bidx = [p \in BPs |-> 0] /\ bval = [p \in BPs |-> 0] /\ bleft = [p \in BPs |-> BProgs[p]]
        /\ nextV = 1 /\ order = <<>> /\ cpc = "idle"

Remove(seq, x) == SelectSeq(seq, LAMBDA y : y # x)

(* Subscribe - broadcaster.go:49-98 (its critical section never blocks: one step) *)
Subscribe(s) == /\ sst[s] = "unsub" /\ lock = 0
                /\ IF closed THEN UNCHANGED <<eventChs, wg, fpc>> /\ sst' = [sst EXCEPT ![s] = "dropped"]
                             ELSE /\ eventChs' = Append(eventChs, s) /\ wg' = wg + 1
                                  /\ fpc' = [fpc EXCEPT ![s] = "wait"] /\ sst' = [sst EXCEPT ![s] = "active"]
                /\ UNCHANGED <<lock, closeCh, closed, buf, closeEv, ctxDone, hand, recvd, bpc, bidx, bval, bleft, nextV, order, cpc>>
Cancel(s) == /\ sst[s] = "active" /\ ~ctxDone[s] /\ ctxDone' = [ctxDone EXCEPT ![s] = TRUE]
             /\ UNCHANGED <<lock, closeCh, closed, wg, eventChs, sst, buf, closeEv, fpc, hand, recvd, bpc, bidx, bval, bleft, nextV, order, cpc>>

(* forwarder goroutine - broadcaster.go:67-97 *)
FwdWait(s) == /\ fpc[s] = "wait"
              /\ \/ (ctxDone[s] \/ closeCh) /\ fpc' = [fpc EXCEPT ![s] = "exit"] /\ UNCHANGED <<buf, hand>>
                 \/ buf[s] # <<>> /\ hand' = [hand EXCEPT ![s] = Head(buf[s])] /\ buf' = [buf EXCEPT ![s] = Tail(@)]
                    /\ fpc' = [fpc EXCEPT ![s] = "got"]
              /\ UNCHANGED <<lock, closeCh, closed, wg, eventChs, sst, closeEv, ctxDone, recvd, bpc, bidx, bval, bleft, nextV, order, cpc>>
FwdGot(s) == /\ fpc[s] = "got"
             /\ \/ (ctxDone[s] \/ closeCh) /\ fpc' = [fpc EXCEPT ![s] = "exit"] /\ UNCHANGED recvd
                \/ Kinds[s] = "prompt" /\ recvd' = [recvd EXCEPT ![s] = Append(@, hand[s])] /\ fpc' = [fpc EXCEPT ![s] = "wait"]
             /\ UNCHANGED <<lock, closeCh, closed, wg, eventChs, sst, buf, closeEv, ctxDone, hand, bpc, bidx, bval, bleft, nextV, order, cpc>>
FwdExit(s) == /\ fpc[s] = "exit" /\ closeEv' = [closeEv EXCEPT ![s] = TRUE] /\ fpc' = [fpc EXCEPT ![s] = "unreg"]     \* :69 close(closeEventCh)
              /\ UNCHANGED <<lock, closeCh, closed, wg, eventChs, sst, buf, ctxDone, hand, recvd, bpc, bidx, bval, bleft, nextV, order, cpc>>
FwdUnreg(s) == /\ fpc[s] = "unreg" /\ lock = 0                                                                   \* :71-79
               /\ eventChs' = Remove(eventChs, s) /\ wg' = wg - 1 /\ fpc' = [fpc EXCEPT ![s] = "done"]
               /\ UNCHANGED <<lock, closeCh, closed, sst, buf, closeEv, ctxDone, hand, recvd, bpc, bidx, bval, bleft, nextV, order, cpc>>

(* Broadcast - broadcaster.go:101-115 *)
BStart(p) == /\ bpc[p] = "idle" /\ bleft[p] > 0 /\ lock = 0
             /\ IF closed THEN /\ bleft' = [bleft EXCEPT ![p] = @ - 1] /\ UNCHANGED <<lock, bpc, bidx, bval, nextV, order>>
                          ELSE /\ lock' = p /\ bpc' = [bpc EXCEPT ![p] = "loop"] /\ bidx' = [bidx EXCEPT ![p] = 1]
                               /\ bval' = [bval EXCEPT ![p] = nextV] /\ nextV' = nextV + 1 /\ order' = Append(order, nextV)
                               /\ UNCHANGED bleft
             /\ UNCHANGED <<closeCh, closed, wg, eventChs, sst, buf, closeEv, ctxDone, fpc, hand, recvd, cpc>>
BSend(p) == /\ bpc[p] = "loop" /\ bidx[p] <= Len(eventChs)
            /\ LET s == eventChs[bidx[p]] IN
               \/ closeEv[s] /\ UNCHANGED buf                         \* case <-ev.closeEventCh
               \/ closeCh /\ UNCHANGED buf                            \* case <-b.closeCh
               \/ Len(buf[s]) < B /\ buf' = [buf EXCEPT ![s] = Append(@, bval[p])]   \* case ev.ch <- value
            /\ bidx' = [bidx EXCEPT ![p] = @ + 1]
            /\ UNCHANGED <<lock, closeCh, closed, wg, eventChs, sst, closeEv, ctxDone, fpc, hand, recvd, bpc, bval, bleft, nextV, order, cpc>>
BEnd(p) == /\ bpc[p] = "loop" /\ bidx[p] > Len(eventChs)
           /\ lock' = 0 /\ bpc' = [bpc EXCEPT ![p] = "idle"] /\ bleft' = [bleft EXCEPT ![p] = @ - 1]
           /\ UNCHANGED <<closeCh, closed, wg, eventChs, sst, buf, closeEv, ctxDone, fpc, hand, recvd, bidx, bval, nextV, order, cpc>>

(* Close - broadcaster.go:119-126 *)
CloseSignalFirst == /\ CloseFix /\ cpc = "idle" /\ closed' = TRUE /\ closeCh' = TRUE /\ cpc' = "signalled"
                    /\ UNCHANGED <<lock, wg, eventChs, sst, buf, closeEv, ctxDone, fpc, hand, recvd, bpc, bidx, bval, bleft, nextV, order>>
CloseLockFixed == /\ CloseFix /\ cpc = "signalled" /\ lock = 0 /\ cpc' = "wait"      \* Lock(); Unlock()
                  /\ UNCHANGED <<lock, closeCh, closed, wg, eventChs, sst, buf, closeEv, ctxDone, fpc, hand, recvd, bpc, bidx, bval, bleft, nextV, order>>
CloseLockOrig == /\ ~CloseFix /\ cpc = "idle" /\ lock = 0 /\ closed' = TRUE /\ closeCh' = TRUE /\ cpc' = "wait"
                 /\ UNCHANGED <<lock, wg, eventChs, sst, buf, closeEv, ctxDone, fpc, hand, recvd, bpc, bidx, bval, bleft, nextV, order>>
CloseWait == /\ cpc = "wait" /\ wg = 0 /\ cpc' = "done"
             /\ UNCHANGED <<lock, closeCh, closed, wg, eventChs, sst, buf, closeEv, ctxDone, fpc, hand, recvd, bpc, bidx, bval, bleft, nextV, order>>

Internal == \/ \E s \in Subs : FwdWait(s) \/ FwdGot(s) \/ FwdExit(s) \/ FwdUnreg(s)
            \/ \E p \in BPs : BStart(p) \/ BSend(p) \/ BEnd(p)
            \/ CloseSignalFirst \/ CloseLockFixed \/ CloseLockOrig \/ CloseWait
Env == \E s \in Subs : Subscribe(s) \/ Cancel(s)
Next == Internal \/ Env
(* fairness: every goroutine of the component and every caller keeps going; Close is eventually called *)
Spec == Init /\ [][Next]_vars /\ WF_vars(Internal) /\ \A s \in Subs : WF_vars(Subscribe(s))

(* ---- properties ---- *)
IsSubseq(a, b) == \E f \in [1..Len(a) -> 1..Len(b)] : (\A i \in 1..Len(a) : b[f[i]] = a[i]) /\ (\A i, j \in 1..Len(a) : i < j => f[i] < f[j])
(* one common order that respects the order of the Broadcast calls; nobody gets a value twice *)
CommonOrder == \A s \in Subs : IsSubseq(recvd[s], order)
(* nothing is delivered after Close returned *)
QuietAfterClose == [][cpc = "done" => recvd' = recvd]_vars
(* Close always returns; every Broadcast returns once Close was called (it is, eventually) *)
CloseReturns == <>(cpc = "done")
BroadcastsReturn == <>(\A p \in BPs : bleft[p] = 0)
=============================================================================
