----------------------------- MODULE Broadcaster -----------------------------
(* Implementation-shaped model of events/broadcaster/broadcaster.go.          *)
(*   lock: b.lock      closeCh: closed or not      eventChs: registered subs  *)
(*   per subscriber: the internal id (currentID, assigned in lock order), buf *)
(*   (cap B), closeEv (closeEventCh closed), ctx, the forwarder goroutine's   *)
(*   pc and the value in its hand, the reader (kind, rdy: waiting on its      *)
(*   channel).                                                                *)
(* Broadcast holds the lock across its (possibly blocking) sends - that is    *)
(* the point of the model.                                                    *)
(* Clients run operations: in the exhaustive configurations they come from    *)
(* the constant Progs (Start), in trace validation from the recorded call     *)
(* events (Begin) - the operation in progress is cop[c].                      *)
EXTENDS Integers, Sequences, FiniteSets, TLC

CONSTANTS NSubs,            \* subscribers are numbered 1..NSubs by their callers
          B,                \* buffer capacity (10 in the code)
          Progs,            \* Progs[c]: the operations of client c: [op |-> "sub", s, kind] | [op |-> "bc"] | [op |-> "close"]
          CloseFix          \* TRUE: Close signals closeCh before taking the lock (repaired code)

Subs == 1..NSubs
Clients == 1..Len(Progs)

VARIABLES lock,             \* 0 = free, c = held by client c's Broadcast across its sends
          closeCh, closed, wg, eventChs, nextId,
          sst,              \* subscriber: "unsub" | "active" | "dropped"
          sid,              \* its internal id (-1: none)
          kind,             \* its reader: "prompt" (always takes) | "stalled" (never) | "gated" (takes when rdy)
          rdy,              \* the reader is waiting on its channel
          buf, closeEv, ctxDone, fpc, hand, recvd,
          cpc, cip, cop,    \* client: pc within the current op, index of the current op, the op in progress
          bidx,             \* Broadcast of client c: position in eventChs
          nextV, order,     \* order: the values in the order in which their Broadcasts took the lock
          closeRet          \* some Close call has returned
vars == <<lock, closeCh, closed, wg, eventChs, nextId, sst, sid, kind, rdy, buf, closeEv, ctxDone, fpc, hand, recvd,
          cpc, cip, cop, bidx, nextV, order, closeRet>>

NoOp == [op |-> "none", s |-> 0, kind |-> "", v |-> 0]
CurOp(c) == Progs[c][cip[c]]
HasOp(c) == cip[c] <= Len(Progs[c])

Init == /\ lock = 0 /\ closeCh = FALSE /\ closed = FALSE /\ wg = 0 /\ eventChs = <<>> /\ nextId = 0
        /\ sst = [s \in Subs |-> "unsub"] /\ sid = [s \in Subs |-> -1] /\ kind = [s \in Subs |-> "stalled"]
        /\ rdy = [s \in Subs |-> FALSE]
        /\ buf = [s \in Subs |-> <<>>] /\ closeEv = [s \in Subs |-> FALSE]
        /\ ctxDone = [s \in Subs |-> FALSE] /\ fpc = [s \in Subs |-> "none"] /\ hand = [s \in Subs |-> 0]
        /\ recvd = [s \in Subs |-> <<>>]
        /\ cpc = [c \in Clients |-> "idle"] /\ cip = [c \in Clients |-> 1] /\ cop = [c \in Clients |-> NoOp]
        /\ bidx = [c \in Clients |-> 0]
        /\ nextV = 1 /\ order = <<>> /\ closeRet = FALSE

Remove(seq, x) == SelectSeq(seq, LAMBDA y : y # x)

(* ---- clients: the call ---- *)
Begin(c, o) == /\ cpc[c] = "idle"
               /\ cop' = [cop EXCEPT ![c] = o]
               /\ cpc' = [cpc EXCEPT ![c] = o.op]
               /\ IF o.op = "sub" THEN /\ kind' = [kind EXCEPT ![o.s] = o.kind]
                                       /\ rdy' = [rdy EXCEPT ![o.s] = @ \/ o.kind = "prompt"]
                                  ELSE UNCHANGED <<kind, rdy>>
               /\ UNCHANGED <<lock, closeCh, closed, wg, eventChs, nextId, sst, sid, buf, closeEv, ctxDone, fpc, hand, recvd,
                              cip, bidx, order, closeRet>>
Start(c) == /\ HasOp(c)
            /\ LET o == CurOp(c) IN
               /\ Begin(c, [op |-> o.op, s |-> IF o.op = "sub" THEN o.s ELSE 0, kind |-> IF o.op = "sub" THEN o.kind ELSE "",
                            v |-> IF o.op = "bc" THEN nextV ELSE 0])
               /\ nextV' = IF o.op = "bc" THEN nextV + 1 ELSE nextV
Finish(c) == /\ cpc' = [cpc EXCEPT ![c] = "idle"] /\ cip' = [cip EXCEPT ![c] = @ + 1] /\ cop' = [cop EXCEPT ![c] = NoOp]

(* Subscribe - broadcaster.go:49-98 (its critical section never blocks: one step) *)
Subscribe(c) == /\ cpc[c] = "sub" /\ lock = 0
                /\ LET s == cop[c].s IN
                   IF closed THEN /\ sst' = [sst EXCEPT ![s] = "dropped"] /\ UNCHANGED <<eventChs, wg, fpc, sid, nextId>>
                             ELSE /\ eventChs' = Append(eventChs, s) /\ wg' = wg + 1
                                  /\ sid' = [sid EXCEPT ![s] = nextId] /\ nextId' = nextId + 1
                                  /\ fpc' = [fpc EXCEPT ![s] = "wait"] /\ sst' = [sst EXCEPT ![s] = "active"]
                /\ Finish(c)
                /\ UNCHANGED <<lock, closeCh, closed, kind, rdy, buf, closeEv, ctxDone, hand, recvd, bidx, nextV, order, closeRet>>
(* the subscriber's context ends: possible as soon as its Subscribe call was issued *)
Cancel(s) == /\ ctxDone' = [ctxDone EXCEPT ![s] = TRUE]
             /\ UNCHANGED <<lock, closeCh, closed, wg, eventChs, nextId, sst, sid, kind, rdy, buf, closeEv, fpc, hand, recvd,
                            cpc, cip, cop, bidx, nextV, order, closeRet>>
(* a gated reader starts waiting on its channel *)
RWait(s) == /\ rdy' = [rdy EXCEPT ![s] = TRUE]
            /\ UNCHANGED <<lock, closeCh, closed, wg, eventChs, nextId, sst, sid, kind, buf, closeEv, ctxDone, fpc, hand, recvd,
                           cpc, cip, cop, bidx, nextV, order, closeRet>>

(* forwarder goroutine - broadcaster.go:67-97; Go's select takes any ready arm *)
FwdWait(s) == /\ fpc[s] = "wait"
              /\ \/ (ctxDone[s] \/ closeCh) /\ fpc' = [fpc EXCEPT ![s] = "exit"] /\ UNCHANGED <<buf, hand>>
                 \/ buf[s] # <<>> /\ hand' = [hand EXCEPT ![s] = Head(buf[s])] /\ buf' = [buf EXCEPT ![s] = Tail(@)]
                    /\ fpc' = [fpc EXCEPT ![s] = "got"]
              /\ UNCHANGED <<lock, closeCh, closed, wg, eventChs, nextId, sst, sid, kind, rdy, closeEv, ctxDone, recvd,
                             cpc, cip, cop, bidx, nextV, order, closeRet>>
FwdGot(s) == /\ fpc[s] = "got"
             /\ \/ (ctxDone[s] \/ closeCh) /\ fpc' = [fpc EXCEPT ![s] = "exit"] /\ UNCHANGED <<recvd, rdy>>
                \/ /\ rdy[s] /\ recvd' = [recvd EXCEPT ![s] = Append(@, hand[s])] /\ fpc' = [fpc EXCEPT ![s] = "wait"]
                   /\ rdy' = [rdy EXCEPT ![s] = (kind[s] = "prompt")]
             /\ UNCHANGED <<lock, closeCh, closed, wg, eventChs, nextId, sst, sid, kind, buf, closeEv, ctxDone, hand,
                            cpc, cip, cop, bidx, nextV, order, closeRet>>
FwdExit(s) == /\ fpc[s] = "exit" /\ closeEv' = [closeEv EXCEPT ![s] = TRUE] /\ fpc' = [fpc EXCEPT ![s] = "unreg"]     \* :69 close(closeEventCh)
              /\ UNCHANGED <<lock, closeCh, closed, wg, eventChs, nextId, sst, sid, kind, rdy, buf, ctxDone, hand, recvd,
                             cpc, cip, cop, bidx, nextV, order, closeRet>>
FwdUnreg(s) == /\ fpc[s] = "unreg" /\ lock = 0                                                                   \* :71-79
               /\ eventChs' = Remove(eventChs, s) /\ wg' = wg - 1 /\ fpc' = [fpc EXCEPT ![s] = "done"]
               /\ UNCHANGED <<lock, closeCh, closed, nextId, sst, sid, kind, rdy, buf, closeEv, ctxDone, hand, recvd,
                              cpc, cip, cop, bidx, nextV, order, closeRet>>

(* Broadcast - broadcaster.go:101-115 *)
BStart(c) == /\ cpc[c] = "bc" /\ lock = 0
             /\ IF closed THEN /\ Finish(c) /\ UNCHANGED <<lock, bidx, order>>
                          ELSE /\ lock' = c /\ cpc' = [cpc EXCEPT ![c] = "loop"] /\ bidx' = [bidx EXCEPT ![c] = 1]
                               /\ order' = Append(order, cop[c].v)
                               /\ UNCHANGED <<cip, cop>>
             /\ UNCHANGED <<closeCh, closed, wg, eventChs, nextId, sst, sid, kind, rdy, buf, closeEv, ctxDone, fpc, hand, recvd,
                            nextV, closeRet>>
BSend(c) == /\ cpc[c] = "loop" /\ bidx[c] <= Len(eventChs)
            /\ LET s == eventChs[bidx[c]] IN
               \/ closeEv[s] /\ UNCHANGED buf                         \* case <-ev.closeEventCh
               \/ closeCh /\ UNCHANGED buf                            \* case <-b.closeCh
               \/ Len(buf[s]) < B /\ buf' = [buf EXCEPT ![s] = Append(@, cop[c].v)]   \* case ev.ch <- value
            /\ bidx' = [bidx EXCEPT ![c] = @ + 1]
            /\ UNCHANGED <<lock, closeCh, closed, wg, eventChs, nextId, sst, sid, kind, rdy, closeEv, ctxDone, fpc, hand, recvd,
                           cpc, cip, cop, nextV, order, closeRet>>
BEnd(c) == /\ cpc[c] = "loop" /\ bidx[c] > Len(eventChs)
           /\ lock' = 0 /\ Finish(c)
           /\ UNCHANGED <<closeCh, closed, wg, eventChs, nextId, sst, sid, kind, rdy, buf, closeEv, ctxDone, fpc, hand, recvd,
                          bidx, nextV, order, closeRet>>

(* Close - broadcaster.go:119-131 *)
CloseCAS(c) == /\ CloseFix /\ cpc[c] = "close" /\ closed' = TRUE /\ closeCh' = TRUE      \* CompareAndSwap + close(closeCh), no lock
               /\ cpc' = [cpc EXCEPT ![c] = "clock"]
               /\ UNCHANGED <<lock, wg, eventChs, nextId, sst, sid, kind, rdy, buf, closeEv, ctxDone, fpc, hand, recvd,
                              cip, cop, bidx, nextV, order, closeRet>>
CloseLockFixed(c) == /\ CloseFix /\ cpc[c] = "clock" /\ lock = 0 /\ cpc' = [cpc EXCEPT ![c] = "cwait"]      \* Lock(); Unlock()
                     /\ UNCHANGED <<lock, closeCh, closed, wg, eventChs, nextId, sst, sid, kind, rdy, buf, closeEv, ctxDone, fpc, hand,
                                    recvd, cip, cop, bidx, nextV, order, closeRet>>
CloseLockOrig(c) == /\ ~CloseFix /\ cpc[c] = "close" /\ lock = 0 /\ closed' = TRUE /\ closeCh' = TRUE
                    /\ cpc' = [cpc EXCEPT ![c] = "cwait"]
                    /\ UNCHANGED <<lock, wg, eventChs, nextId, sst, sid, kind, rdy, buf, closeEv, ctxDone, fpc, hand, recvd,
                                   cip, cop, bidx, nextV, order, closeRet>>
CloseWait(c) == /\ cpc[c] = "cwait" /\ wg = 0 /\ Finish(c) /\ closeRet' = TRUE
                /\ UNCHANGED <<lock, closeCh, closed, wg, eventChs, nextId, sst, sid, kind, rdy, buf, closeEv, ctxDone, fpc, hand, recvd,
                               bidx, nextV, order>>

FwdStep == \E s \in Subs : FwdWait(s) \/ FwdGot(s) \/ FwdExit(s) \/ FwdUnreg(s)
OpStep(c) == Subscribe(c) \/ BStart(c) \/ BSend(c) \/ BEnd(c) \/ CloseCAS(c) \/ CloseLockFixed(c) \/ CloseLockOrig(c) \/ CloseWait(c)
Internal == FwdStep \/ \E c \in Clients : Start(c) \/ OpStep(c)
(* the environment: a subscriber's context may end any time after its Subscribe was called; gated readers take when they like *)
Env == \E s \in Subs : \/ (sst[s] = "active" \/ \E c \in Clients : cop[c].op = "sub" /\ cop[c].s = s) /\ ~ctxDone[s] /\ Cancel(s)
                       \/ kind[s] = "gated" /\ ~rdy[s] /\ RWait(s)
(* Begin only touches the caller's own state: a call that starts as soon as the previous one returned loses no behaviour, *)
(* and the exhaustive configurations save the states in which a caller sits between two calls.                           *)
Eager == \E c \in Clients : cpc[c] = "idle" /\ HasOp(c)
Next == IF Eager THEN \E c \in Clients : Start(c) ELSE Internal \/ Env
(* fairness: every goroutine of the component and every caller keeps going; Close is eventually called *)
Spec == Init /\ [][Next]_vars /\ WF_vars(Internal)

(* ---- properties ---- *)
IsSubseq(a, b) == \E f \in [1..Len(a) -> 1..Len(b)] : (\A i \in 1..Len(a) : b[f[i]] = a[i]) /\ (\A i, j \in 1..Len(a) : i < j => f[i] < f[j])
(* one common order that respects the order of the Broadcast calls; nobody gets a value twice *)
CommonOrder == \A s \in Subs : IsSubseq(recvd[s], order)
(* nothing is delivered after Close returned *)
QuietAfterClose == [][closeRet => recvd' = recvd]_vars
(* Close always returns; every Broadcast returns once Close was called (it is, eventually) *)
CloseReturns == <>closeRet
BroadcastsReturn == <>(\A c \in Clients : ~HasOp(c) /\ cpc[c] = "idle")
=============================================================================
