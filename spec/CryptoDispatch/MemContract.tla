----------------------------- MODULE MemContract -----------------------------
(* C17 - the property as a monitor over the observation of one REAL call:    *)
(*  reset {fn, alg, len, path, sv, args, spares, outcome, written, outside}  *)
(*    args/spares  the argument slices as laid out in the canary arena       *)
(*    outcome      class of the result (as in C03; the law does not depend   *)
(*                 on it: it holds "successful or not")                      *)
(*    written      the regions <<argument, "len"|"spare">> in which at least *)
(*                 one byte differs from the snapshot taken before the call  *)
(*                 (a difference that shows only at the re-check made after   *)
(*                 two garbage collections at the end of the batch counts)   *)
(*    outside      a guard byte between/around the arguments changed         *)
(*  with keep, chain, conc ("results stay the caller's"): written also lists *)
(*  <<"result", "len"|"spare">> when a slice returned by an earlier call of   *)
(*  the run no longer equals the snapshot taken when it was returned.         *)
(* A run is a single event: the verdict is a function of the observation.    *)
EXTENDS MemDispatch

Bad(why) == [bad |-> TRUE, why |-> why]
IsBad(c) == c.bad
SeqRange(s) == {s[k] : k \in 1..Len(s)}

CfOf(e) ==
  IF "keep" \in DOMAIN e THEN Cf(e.fn, e.alg, e.len, e.path, e.sv) @@ [keep |-> e.keep, chain |-> e.chain, conc |-> e.conc]
  ELSE Cf(e.fn, e.alg, e.len, e.path, e.sv)

CReset(e) ==
  LET cf == CfOf(e)
      w == SeqRange(e.written)
      illegal == w \ MayWrite(cf)
  IN IF e.args # MemArgs(e.fn) \/ e.spares # SpareVec(e.sv, Len(MemArgs(e.fn)))
     THEN Bad("harness: argument layout mismatch")
     ELSE IF ~(w \subseteq CallerMemory(e.fn)) THEN Bad("harness: unknown region")
     ELSE IF e.outside THEN Bad("outside")
     ELSE IF illegal # {} THEN
          LET x == CHOOSE y \in illegal : TRUE IN Bad(x[1] \o "." \o x[2])
     ELSE [bad |-> FALSE, why |-> ""]

CNext(c, e) == IF e.ev = "reset" THEN CReset(e) ELSE c
=============================================================================
