------------------------------ MODULE MemModel ------------------------------
(* C17 - implementation-shaped model of where the four crypto packages write: *)
(* for every configuration of CryptoDispatch!MemGroups the set of regions the *)
(* code writes, fed to the monitor of MemContract.  PadFix / AppendFix select *)
(* the repaired code (TRUE) or the code as found (FALSE):                     *)
(*   PadPKCS7 returns append(buf, padding...)   - writes buf's spare capacity *)
(*     when it is at least the padding length; reached from                   *)
(*     encryptSymmetricAESCBC (padded CBC) and aescbcaead.Seal                *)
(*   decryptSymmetricAEAD / decryptSymmetricChaCha20Poly1305 do               *)
(*     ciphertext = append(ciphertext, tag...)  - writes the ciphertext's     *)
(*     spare capacity when it is at least the tag length                      *)
(* TLC checks every configuration, the sanity of the configuration space and  *)
(* writes configs.ndjson for the replay.                                      *)
EXTENDS MemContract, Json, SequencesExt

CONSTANTS PadFix, AppendFix,
          PoolFix,     \* FALSE: decryptSymmetricAEAD returns a plaintext that lives in a pooled scratch buffer
          FinalizerFix \* FALSE: a finalizer of the aescbcaead cipher zeroes the (caller's) key when it is collected
VARIABLES cf, c, pc
vars == <<cf, c, pc>>

ArgIdx(fn, a) == CHOOSE j \in 1..Len(MemArgs(fn)) : MemArgs(fn)[j] = a
Spare(x, a) == SpareVec(x.sv, Len(MemArgs(x.fn)))[ArgIdx(x.fn, a)]
PadLen(n) == 16 - (n % 16)
HasRow(x) == x.alg \in Names(AllRows)

(* regions the code writes outside any explicit destination *)
(* the pooled buffer of the previous result is refilled by the next decryption *)
PoolWrites(x) ==
  IF ~PoolFix /\ IsRet(x) /\ x.fn \in {"Decrypt", "DecryptSymmetric"} /\ HasRow(x) /\ Row(x.alg).fam \in {"gcm", "cbchmac"}
  THEN {<<"result", "len">>} \cup (IF x.chain # "none" THEN {<<x.chain, "len">>} ELSE {}) ELSE {}

FinalizerWrites(x) ==
  IF ~FinalizerFix /\ x.fn \in AeadFns \cup {"aescbcaead.New"} /\ ~(x.fn = "aescbcaead.New" /\ x.path # "ok")
  THEN {<<"key", "len">>} ELSE {}

ImplWrites(x) ==
  LET r == Row(x.alg) IN
  IF IsRet(x) THEN PoolWrites(x) \cup FinalizerWrites(x)
  ELSE IF FinalizerWrites(x) # {} THEN FinalizerWrites(x)
  ELSE IF x.fn = "padding.PadPKCS7"
  THEN (IF ~PadFix /\ x.path = "ok" /\ Spare(x, "buf") >= PadLen(x.len) THEN {<<"buf", "spare">>} ELSE {})
  ELSE IF ~HasRow(x) THEN {}
  ELSE IF x.fn \in {"Encrypt", "EncryptSymmetric"} /\ r.fam \in {"cbc", "cbchmac"} /\ x.path = "ok"
  THEN (IF ~PadFix /\ Spare(x, "plaintext") >= PadLen(x.len) THEN {<<"plaintext", "spare">>} ELSE {})
  ELSE IF x.fn = "aescbcaead.Seal"
  THEN (IF ~PadFix /\ Spare(x, "plaintext") >= PadLen(x.len) THEN {<<"plaintext", "spare">>} ELSE {})
  ELSE IF x.fn \in {"Decrypt", "DecryptSymmetric"} /\ r.fam \in AuthFams /\ x.path \in {"ok", "fail_auth"}
  THEN (IF ~AppendFix /\ Spare(x, "ciphertext") >= r.tag THEN {<<"ciphertext", "spare">>} ELSE {})
  ELSE {}
(* an AEAD may or may not use the destination's capacity *)
DstWrites(x) == IF x.fn \in AeadFns THEN {{}, {<<"dst", "spare">>}} ELSE {{}}

Obs(x, w) ==
  DescribeCf(x) @@ [ev |-> "reset", outcome |-> "ok", written |-> SetToSeq(w), outside |-> FALSE]

Init ==
  /\ \E g \in MemGroups : cf \in MemGroupConfigs(g)
  /\ c = [bad |-> FALSE, why |-> ""]
  /\ pc = "call"
Call ==
  /\ pc = "call"
  /\ \E d \in DstWrites(cf) : c' = CNext(c, Obs(cf, ImplWrites(cf) \cup d))
  /\ pc' = "done"
  /\ UNCHANGED cf
Next == Call
Spec == Init /\ [][Next]_vars
NotBad == ~IsBad(c)

ASSUME MemSane
MemGroupSeq == SetToSeq(MemGroups)
ConfigSeq == FlattenSeq([k \in 1..Len(MemGroupSeq) |-> SetToSeq({DescribeCf(x) : x \in MemGroupConfigs(MemGroupSeq[k])})])
ASSUME PrintT(<<"CONFIGS", NumConfigsOf(MemGroups), Len(ConfigSeq)>>)
ASSUME ndJsonSerialize("configs.ndjson", ConfigSeq)
=============================================================================
