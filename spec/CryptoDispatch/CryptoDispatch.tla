--------------------------- MODULE CryptoDispatch ---------------------------
(* C03 / C17 - the DOCUMENTED algorithm table of github.com/dapr/kit/crypto  *)
(* (crypto/consts.go comments, Supported*Algorithms(), RFC 7518, RFC 3394,   *)
(* RFC 8439) written out as data, and the two verdict operators built on it: *)
(*                                                                           *)
(*   Allowed(cs)   the SET of admissible outcome classes of one call         *)
(*   (MayWrite(cf), the regions a call may write: MemDispatch.tla, C17)        *)
(*                                                                           *)
(* plus the enumeration of the case space (Groups / GroupCases); the memory   *)
(* configuration space of C17 is in MemDispatch.tla.  Nothing here is a      *)
(* transcription of the Go code; the implementation-shaped dispatch lives in *)
(* CryptoModel.tla.                                                          *)
(*                                                                           *)
(* A case is  [fn, alg, keyKind, keyBits, nonceLen, tagLen, inLen, aadLen,   *)
(* mut]:  fn the entry point, alg the algorithm NAME handed in, keyKind in   *)
(* {oct, rsa, rsa-pub, ec, ec-pub, okp, okp-pub, okpx}, keyBits the key size *)
(* (oct: 8*len, rsa: modulus, ec: curve, okp: 255), nonceLen/tagLen the      *)
(* lengths of the nonce/tag ARGUMENTS, inLen the length of the message       *)
(* (plaintext / key data / digest; for decrypt-type calls the plaintext the  *)
(* input was made from), aadLen, and mut the deformation applied to an       *)
(* otherwise valid input of a decrypt/unwrap/verify call:                    *)
(*   none | ct tag nonce aad digest sig   (one byte of the component changed)*)
(*   ct+1 ct-1 ct=0 ct+8 ct-8 sig+1 sig-1 (component grown/cut/emptied)      *)
(*   otherkey                              (signature by another key)        *)
(*   forge-ct-1 forge-ct=0 forge-badpad    (CBC-HMAC: tag recomputed by the  *)
(*                                          key holder over a malformed ct)  *)
(*   pad                                   (padded-CBC decryption / UnpadPKCS7 *)
(*        of a hand-built plaintext of inLen bytes whose last byte is padV,  *)
(*        extra fields padV, padTail: full = the last padV bytes are padV,   *)
(*        lastonly = only the last byte, broken = the tail but for its first *)
(*        byte; the CBC ciphertext is made WITHOUT padding by the reference) *)
(* A case may carry seq (in {"rsa","ec","okp"}): the call is made with a key *)
(* that has a key id, once on its own and once after unrelated calls with a  *)
(* DIFFERENT key of kind seq carrying the SAME key id.  Allowed does not     *)
(* depend on seq: the outcome is a function of the arguments alone.          *)
(* A case may carry conc and keep ("live" cases): conc goroutines use ONE    *)
(* shared instance (the cipher.AEAD of aescbcaead, the cipher.Block handed   *)
(* to aeskw, one jwk.Key object for the crypto entry points) at once, each   *)
(* making many calls with its own messages and nonces, and each keeps the    *)
(* slices returned by its previous keep calls.  Allowed depends on neither:  *)
(* a result is a function of the arguments of its call alone, and a result   *)
(* handed to the caller stays what it was.                                   *)
(* Every call of a live case is made 1, 2 or 3 times in a row with the VERY  *)
(* SAME argument slices: same arguments, same result.                        *)
(* A case may carry dst (aescbcaead.Seal/Open): the cipher.AEAD calling      *)
(* convention used for the destination - nil | empty (no capacity) | room    *)
(* (empty, capacity for the result) | tight (empty, capacity too small) |    *)
(* prefix (content, no capacity) | prefixroom (content and capacity) |       *)
(* overlap (plaintext[:0] / ciphertext[:0], no extra capacity) | overlaproom *)
(* (the same, with capacity for the result).  Allowed does not depend on it: *)
(* the appended bytes are those of dst = nil and the prefix is preserved.    *)
(* Outcome classes: ok | keytype nonce tag ptlen ctlen unsupported (the six  *)
(* sentinels) | error (any other error) | invalid (verify: false, nil) |     *)
(* panic (never admissible).                                                 *)
EXTENDS Integers, Sequences, FiniteSets, FiniteSetsExt, TLC

CONSTANT Tier      \* "small" (quick) | "big" (thorough): sizes of the sweeps

-----------------------------------------------------------------------------
(* The table.  nonce/tag in bytes (0: the algorithm has none); keyBits = {}   *)
(* means "any size of that kind" (RSA); hash in bytes (OAEP hash, digest).    *)
R(alg, kind, fam, kk, kb, nonce, tag, hash) ==
  [alg |-> alg, kind |-> kind, fam |-> fam, keyKind |-> kk, keyBits |-> kb,
   nonce |-> nonce, tag |-> tag, hash |-> hash]

SymRows == {
  R("A128CBC",       "sym", "cbc",      "oct", {128}, 16, 0, 0),
  R("A192CBC",       "sym", "cbc",      "oct", {192}, 16, 0, 0),
  R("A256CBC",       "sym", "cbc",      "oct", {256}, 16, 0, 0),
  R("A128CBC-NOPAD", "sym", "cbcnopad", "oct", {128}, 16, 0, 0),
  R("A192CBC-NOPAD", "sym", "cbcnopad", "oct", {192}, 16, 0, 0),
  R("A256CBC-NOPAD", "sym", "cbcnopad", "oct", {256}, 16, 0, 0),
  R("A128GCM",       "sym", "gcm",      "oct", {128}, 12, 16, 0),
  R("A192GCM",       "sym", "gcm",      "oct", {192}, 12, 16, 0),
  R("A256GCM",       "sym", "gcm",      "oct", {256}, 12, 16, 0),
  R("A128CBC-HS256", "sym", "cbchmac",  "oct", {256}, 16, 16, 32),
  R("A192CBC-HS384", "sym", "cbchmac",  "oct", {384}, 16, 24, 48),
  R("A256CBC-HS512", "sym", "cbchmac",  "oct", {512}, 16, 32, 64),
  R("A128KW",        "sym", "kw",       "oct", {128}, 0, 0, 0),
  R("A192KW",        "sym", "kw",       "oct", {192}, 0, 0, 0),
  R("A256KW",        "sym", "kw",       "oct", {256}, 0, 0, 0),
  R("C20P",          "sym", "chacha",   "oct", {256}, 12, 16, 0),
  R("C20PKW",        "sym", "chacha",   "oct", {256}, 12, 16, 0),
  R("XC20P",         "sym", "xchacha",  "oct", {256}, 24, 16, 0),
  R("XC20PKW",       "sym", "xchacha",  "oct", {256}, 24, 16, 0) }

AsymRows == {
  R("RSA1_5",       "asym", "rsa15", "rsa", {}, 0, 0, 0),
  R("RSA-OAEP",     "asym", "oaep",  "rsa", {}, 0, 0, 20),
  R("RSA-OAEP-256", "asym", "oaep",  "rsa", {}, 0, 0, 32),
  R("RSA-OAEP-384", "asym", "oaep",  "rsa", {}, 0, 0, 48),
  R("RSA-OAEP-512", "asym", "oaep",  "rsa", {}, 0, 0, 64) }

SigRows == {
  R("RS256", "sig", "rsapkcs", "rsa", {}, 0, 0, 32),
  R("RS384", "sig", "rsapkcs", "rsa", {}, 0, 0, 48),
  R("RS512", "sig", "rsapkcs", "rsa", {}, 0, 0, 64),
  R("PS256", "sig", "rsapss",  "rsa", {}, 0, 0, 32),
  R("PS384", "sig", "rsapss",  "rsa", {}, 0, 0, 48),
  R("PS512", "sig", "rsapss",  "rsa", {}, 0, 0, 64),
  R("ES256", "sig", "ecdsa",   "ec", {256}, 0, 0, 32),
  R("ES384", "sig", "ecdsa",   "ec", {384}, 0, 0, 48),
  R("ES512", "sig", "ecdsa",   "ec", {521}, 0, 0, 64),
  R("EdDSA", "sig", "eddsa",   "okp", {255}, 0, 0, 0) }

(* crypto/aescbcaead has a fourth constructor (draft-mcgrew-aead-aes-cbc-hmac-sha2) *)
(* without a name in the crypto package; it is reachable only directly.             *)
AeadOnlyRows == { R("A256CBC-HS384", "aead", "cbchmac", "oct", {448}, 16, 24, 48) }

Rows == SymRows \cup AsymRows \cup SigRows
AllRows == Rows \cup AeadOnlyRows
Names(S) == {r.alg : r \in S}
SymNames == Names(SymRows)
AsymNames == Names(AsymRows)
SigNames == Names(SigRows)
KwNames == {r.alg : r \in {q \in SymRows : q.fam = "kw"}}
AeadNames == {r.alg : r \in {q \in SymRows : q.fam = "cbchmac"}} \cup Names(AeadOnlyRows)
Row(alg) == CHOOSE r \in AllRows : r.alg = alg

(* names defined in consts.go but documented as NOT supported, and non-names *)
OtherNames == {"A128GCMKW", "A192GCMKW", "A256GCMKW", "ECDH-ES", "ECDH-ES+A128KW", "ECDH-ES+A192KW",
               "ECDH-ES+A256KW", "HS256", "HS384", "HS512", "", "A128", "a128gcm", "A128GCM ", "RSA-OAEP-1"}

-----------------------------------------------------------------------------
(* Entry points *)
SymFns == {"EncryptSymmetric", "DecryptSymmetric"}
AsymFns == {"EncryptPublicKey", "DecryptPrivateKey"}
GenericFns == {"Encrypt", "Decrypt"}
SigFns == {"SignPrivateKey", "VerifyPublicKey"}
KwFns == {"aeskw.Wrap", "aeskw.Unwrap"}
AeadFns == {"aescbcaead.Seal", "aescbcaead.Open"}
PadFns == {"padding.UnpadPKCS7"}
DirectFns == KwFns \cup AeadFns \cup PadFns        \* packages that define no sentinel errors
Fns == SymFns \cup AsymFns \cup GenericFns \cup SigFns \cup DirectFns

Dir(fn) == CASE fn \in {"Encrypt", "EncryptSymmetric", "EncryptPublicKey", "aeskw.Wrap", "aescbcaead.Seal"} -> "enc"
             [] fn \in {"Decrypt", "DecryptSymmetric", "DecryptPrivateKey", "aeskw.Unwrap", "aescbcaead.Open", "padding.UnpadPKCS7"} -> "dec"
             [] fn = "SignPrivateKey" -> "sign"
             [] fn = "VerifyPublicKey" -> "verify"

SupportedFor(fn) ==
  CASE fn \in SymFns -> SymNames
    [] fn \in AsymFns -> AsymNames
    [] fn \in GenericFns -> SymNames \cup AsymNames
    [] fn \in SigFns -> SigNames
    [] fn \in KwFns -> KwNames
    [] fn \in AeadFns -> AeadNames
    [] fn \in PadFns -> {""}

HasNonceParam(fn) == fn \in SymFns \cup GenericFns \cup AeadFns
HasTagParam(fn) == fn \in {"Decrypt", "DecryptSymmetric"}

Base(kk) == CASE kk \in {"rsa", "rsa-pub"} -> "rsa" [] kk \in {"ec", "ec-pub"} -> "ec"
              [] kk \in {"okp", "okp-pub"} -> "okp" [] OTHER -> kk     \* oct, okpx (X25519: an OKP key that cannot sign)
IsPub(kk) == kk \in {"rsa-pub", "ec-pub", "okp-pub"}
NeedsPrivate(fn, r) == (Dir(fn) = "dec" /\ r.kind = "asym") \/ Dir(fn) = "sign"

-----------------------------------------------------------------------------
(* Sizes that follow from the standards *)
Pad16(n) == ((n \div 16) + 1) * 16
CtLen(r, kb, il) ==
  CASE r.fam \in {"cbc", "cbchmac"} -> Pad16(il)
    [] r.fam \in {"cbcnopad", "gcm", "chacha", "xchacha"} -> il
    [] r.fam = "kw" -> il + 8
    [] r.fam \in {"rsa15", "oaep"} -> kb \div 8
    [] OTHER -> 0
MaxPt(r, kb) == IF r.fam = "rsa15" THEN (kb \div 8) - 11 ELSE (kb \div 8) - 2 * r.hash - 2
PtOK(r, kb, il) ==     \* the message is one the algorithm can encrypt / wrap
  CASE r.fam = "cbcnopad" -> il % 16 = 0
    [] r.fam = "kw" -> il % 8 = 0 /\ il >= 16
    [] r.fam \in {"rsa15", "oaep"} -> il <= MaxPt(r, kb)
    [] OTHER -> TRUE
Flips == {"ct", "tag", "nonce", "aad", "digest", "sig"}
SizeMuts == {"ct+1", "ct-1", "ct=0", "ct+8", "ct-8", "sig+1", "sig-1"}
ForgeMuts == {"forge-ct-1", "forge-ct=0", "forge-badpad"}
(* length of the mutated component; -1: not fixed by the standard (DER ECDSA signature) *)
CompLen(cs, r) ==
  CASE cs.mut = "ct" -> CtLen(r, cs.keyBits, cs.inLen)
    [] cs.mut = "tag" -> r.tag
    [] cs.mut = "nonce" -> r.nonce
    [] cs.mut = "aad" -> cs.aadLen
    [] cs.mut = "digest" -> cs.inLen
    [] cs.mut = "sig" -> (IF r.keyKind = "rsa" THEN cs.keyBits \div 8 ELSE IF r.fam = "eddsa" THEN 64 ELSE -1)
    [] OTHER -> 1

-----------------------------------------------------------------------------
(* Allowed: hard faults (an error is mandatory: any applicable class) and     *)
(* soft conditions (the documentation is silent: extra classes are tolerated  *)
(* next to whatever is otherwise admissible).                                 *)
KeyFault(cs, r) ==
  \/ Base(cs.keyKind) # r.keyKind
  \/ (r.keyBits # {} /\ cs.keyBits \notin r.keyBits)
  \/ (IsPub(cs.keyKind) /\ NeedsPrivate(cs.fn, r))

AuthFams == {"gcm", "cbchmac", "chacha", "xchacha"}

MutHard(cs, r) ==
  LET m == cs.mut f == r.fam IN
  IF m = "none" THEN {}
  ELSE IF r.kind = "sig" THEN {"invalid", "error"}
  ELSE IF f \in AuthFams THEN
         (IF m \in Flips \/ m = "forge-badpad" THEN {"error"}
          ELSE IF m = "forge-ct=0" THEN {}
          ELSE {"error", "ctlen"})
  ELSE IF f = "kw" THEN (IF m = "ct" THEN {"error"} ELSE {"error", "ctlen"})
  ELSE IF f = "cbc" THEN (IF m \in {"ct+1", "ct-1"} THEN {"ctlen"} ELSE {})
  ELSE IF f = "cbcnopad" THEN (IF m \in {"ct+1", "ct-1"} THEN {"ctlen"} ELSE {})
  ELSE IF f = "oaep" THEN (IF m \in Flips THEN {"error"} ELSE {"error", "ctlen"})
  ELSE IF f = "rsa15" THEN (IF m \in Flips THEN {} ELSE {"error", "ctlen"})
  ELSE {}

MutSoft(cs, r) ==
  LET m == cs.mut f == r.fam IN
  IF m = "none" THEN {}
  ELSE IF f = "cbc" /\ m \in Flips THEN {"error"}                \* unauthenticated: padding may or may not survive
  ELSE IF f = "cbc" /\ m = "ct=0" THEN {"error", "ctlen"}        \* an empty CBC/PKCS#7 ciphertext: unspecified
  ELSE IF f = "cbchmac" /\ m = "forge-ct=0" THEN {"error", "ctlen"}
  ELSE IF f = "rsa15" /\ m = "ct" THEN {"error"}                 \* PKCS#1 v1.5 encryption is not authenticated
  ELSE {}

Hard(cs, r) ==
  LET d == Dir(cs.fn) IN
     (IF KeyFault(cs, r) THEN {"keytype"} ELSE {})
  \cup (IF HasNonceParam(cs.fn) /\ r.nonce > 0 /\ cs.nonceLen # r.nonce THEN {"nonce"} ELSE {})
  \cup (IF d = "dec" /\ HasTagParam(cs.fn) /\ r.tag > 0 /\ cs.tagLen # r.tag THEN {"tag"} ELSE {})
  \cup (IF d = "enc" /\ r.fam = "cbcnopad" /\ cs.inLen % 16 # 0 THEN {"ptlen"} ELSE {})
  \cup (IF d = "enc" /\ r.fam = "kw" /\ cs.inLen % 8 # 0 THEN {"ptlen", "error"} ELSE {})
  \cup (IF d = "enc" /\ r.fam \in {"rsa15", "oaep"} /\ Base(cs.keyKind) = "rsa" /\ cs.inLen > MaxPt(r, cs.keyBits)
        THEN {"ptlen", "error"} ELSE {})
  \cup (IF d \in {"dec", "verify"} THEN MutHard(cs, r) ELSE {})

Soft(cs, r) ==
  LET d == Dir(cs.fn) IN
     (IF HasNonceParam(cs.fn) /\ r.nonce = 0 /\ cs.nonceLen # 0 THEN {"nonce"} ELSE {})
  \cup (IF d = "dec" /\ HasTagParam(cs.fn) /\ r.tag = 0 /\ cs.tagLen # 0 THEN {"tag"} ELSE {})
  \cup (IF d = "enc" /\ r.fam = "kw" /\ cs.inLen \in {0, 8} THEN {"ptlen", "error"} ELSE {})   \* RFC 3394 wants n >= 2
  \cup (IF d \in {"dec", "verify"} THEN MutSoft(cs, r) ELSE {})

(* PKCS#7 (RFC 5652 6.3) for a 16-byte block: the last byte v says how many  *)
(* padding bytes there are; valid iff 1 <= v <= 16 and the last v bytes are  *)
(* all v.                                                                    *)
PadValid(cs) == cs.padV >= 1 /\ cs.padV <= 16 /\ (cs.padTail = "full" \/ (cs.padTail = "lastonly" /\ cs.padV = 1))
IsSeq(cs) == "seq" \in DOMAIN cs
IsLive(cs) == "conc" \in DOMAIN cs
IsDst(cs) == "dst" \in DOMAIN cs

Allowed(cs) ==
  IF cs.mut = "pad" THEN (IF PadValid(cs) THEN {"ok"} ELSE {"error"})
  ELSE IF cs.alg \notin SupportedFor(cs.fn)
  THEN {"unsupported"}
       \cup (IF cs.fn \in SymFns \cup GenericFns /\ Base(cs.keyKind) # "oct" THEN {"keytype"} ELSE {})
       \cup (IF cs.fn \in AsymFns \cup SigFns \cup GenericFns /\ Base(cs.keyKind) = "oct" THEN {"keytype"} ELSE {})
  ELSE LET r == Row(cs.alg)
           h == Hard(cs, r)
           hd == IF cs.fn \in DirectFns /\ h # {} THEN h \cup {"error"} ELSE h
       IN (IF hd = {} THEN {"ok"} ELSE hd) \cup Soft(cs, r)

-----------------------------------------------------------------------------
(* Enumeration of the case space *)
Small == Tier = "small"
Lens == IF Small THEN {0, 1, 15, 16, 17, 31, 32, 33, 48, 64, 65}
        ELSE (0..66) \cup {79, 80, 81, 127, 128, 129, 255, 256, 1000, 4097}
KwLens == {8 * i : i \in 0..64} \cup {1, 7, 9, 20, 513}
Sweep == IF Small THEN {0, 1, 8, 11, 12, 13, 15, 16, 17, 23, 24, 25, 31, 32} ELSE 0..32   \* nonce / tag argument lengths
KeyBytes == {1, 8, 16, 20, 24, 32, 48, 56, 64}
AadLens == {0, 1, 20}
MutLens == IF Small THEN {0, 1, 16, 33} ELSE {0, 1, 15, 16, 17, 32, 33, 64}
KwMutLens == IF Small THEN {16, 40} ELSE {8, 16, 24, 40, 64}

C(fn, alg, kk, kb, nl, tl, il, al, mut) ==
  [fn |-> fn, alg |-> alg, keyKind |-> kk, keyBits |-> kb, nonceLen |-> nl, tagLen |-> tl,
   inLen |-> il, aadLen |-> al, mut |-> mut]

GoodBits(r) == IF r.keyBits = {} THEN 2048 ELSE CHOOSE b \in r.keyBits : TRUE
TagArg(fn, r) == IF HasTagParam(fn) THEN r.tag ELSE 0
NonceArg(fn, r) == IF HasNonceParam(fn) THEN r.nonce ELSE 0
LensOf(r) == IF r.fam = "kw" THEN KwLens ELSE Lens
(* decrypt-type cases need a message the reference can encrypt *)
InLens(fn, r, kb, S) == IF Dir(fn) = "enc" THEN S ELSE {l \in S : PtOK(r, kb, l)}
ProbeLens(r) == IF r.fam = "kw" THEN {16, 20} ELSE {0, 16, 17}

SymCallFns == SymFns \cup GenericFns
SymMuts(r) ==
  CASE r.fam \in {"gcm", "chacha", "xchacha"} -> {"ct", "tag", "nonce", "aad", "ct+1", "ct-1", "ct=0"}
    [] r.fam = "cbchmac" -> {"ct", "tag", "nonce", "aad", "ct+1", "ct-1", "ct=0", "forge-ct-1", "forge-ct=0", "forge-badpad"}
    [] r.fam = "kw" -> {"ct", "ct+1", "ct-1", "ct=0", "ct+8", "ct-8"}
    [] r.fam = "cbc" -> {"ct", "nonce", "ct+1", "ct-1", "ct=0"}
    [] r.fam = "cbcnopad" -> {"ct+1", "ct-1"}
(* a mutation needs something to mutate *)
MutApplies(cs, r) ==
  LET cl == CtLen(r, cs.keyBits, cs.inLen) IN
  CASE cs.mut \in Flips -> CompLen(cs, r) # 0
    [] cs.mut \in {"ct-1", "ct=0", "forge-ct-1", "forge-ct=0"} -> cl >= 1
    [] cs.mut = "ct-8" -> cl >= 8
    [] OTHER -> TRUE

SymGroup(r, fn) ==
    LET kb == GoodBits(r) nl == NonceArg(fn, r) tl == TagArg(fn, r) dec == Dir(fn) = "dec" IN
    \* the valid point, every message length and AAD length
       {C(fn, r.alg, "oct", kb, nl, tl, il, al, "none") : il \in InLens(fn, r, kb, LensOf(r)), al \in AadLens}
    \* key size sweep, wrong key kinds
    \cup {C(fn, r.alg, "oct", 8 * k, nl, tl, il, 0, "none") : k \in KeyBytes \ {kb \div 8}, il \in InLens(fn, r, kb, ProbeLens(r))}
    \cup {C(fn, r.alg, kk[1], kk[2], nl, tl, 16, 0, "none") : kk \in {<<"rsa", 2048>>, <<"ec", 256>>, <<"okp", 255>>}}
    \* nonce and tag argument sweeps
    \cup {C(fn, r.alg, "oct", kb, n, tl, il, 0, "none") : n \in Sweep \ {r.nonce}, il \in InLens(fn, r, kb, {0, 16})}
    \cup (IF dec THEN {C(fn, r.alg, "oct", kb, nl, t, il, 0, "none") : t \in Sweep \ {r.tag}, il \in InLens(fn, r, kb, {0, 16})} ELSE {})
    \* two faults at once
    \cup {C(fn, r.alg, "oct", 8 * k, n, tl, 16, 0, "none") : k \in {8, 20, 64} \ {kb \div 8}, n \in {0, r.nonce + 1}}
    \cup (IF dec THEN {C(fn, r.alg, "oct", kb, n, t, 16, 0, "none") : n \in {0, r.nonce + 1}, t \in {0, r.tag + 1}} ELSE {})
    \cup (IF dec THEN {C(fn, r.alg, "oct", 8 * k, nl, t, 16, 0, "none") : k \in {8, 64} \ {kb \div 8}, t \in {0, r.tag + 1}} ELSE {})
    \cup (IF ~dec /\ r.fam \in {"cbcnopad", "kw"} THEN {C(fn, r.alg, "oct", kb, n, tl, 17, 0, "none") : n \in {0, r.nonce + 1}} ELSE {})
    \* deformations of a valid input
    \cup (IF dec THEN {cs \in {C(fn, r.alg, "oct", kb, nl, tl, il, al, m) :
                                il \in InLens(fn, r, kb, IF r.fam = "kw" THEN KwMutLens ELSE MutLens), al \in {0, 20}, m \in SymMuts(r)} :
                        MutApplies(cs, r) /\ (cs.aadLen = 0 \/ r.fam \in AuthFams)} ELSE {})

RsaKeys == {<<"rsa", 2048>>, <<"rsa", 1024>>, <<"rsa-pub", 2048>>} \cup (IF Small THEN {} ELSE {<<"rsa", 3072>>})
WrongForRsa == {<<"ec", 256>>, <<"okp", 255>>, <<"oct", 128>>, <<"oct", 256>>}
AsymCallFns == AsymFns \cup GenericFns
AsymLens(r, kb) == {l \in {0, 1, 32, MaxPt(r, kb) - 1, MaxPt(r, kb), MaxPt(r, kb) + 1, MaxPt(r, kb) + 100} : l >= 0}
AsymMuts(r) == {"ct", "aad", "ct+1", "ct-1"}

AsymGroup(r, fn) ==
    LET dec == Dir(fn) = "dec" nl == 0 tl == 0 IN
       UNION {{C(fn, r.alg, k[1], k[2], nl, tl, il, al, "none") : il \in InLens(fn, r, k[2], AsymLens(r, k[2])), al \in {0, 20}} : k \in RsaKeys}
    \cup {C(fn, r.alg, k[1], k[2], nl, tl, 16, 0, "none") : k \in WrongForRsa}
    \cup (IF dec THEN {cs \in {C(fn, r.alg, "rsa", 2048, nl, tl, il, al, m) : il \in {0, 32}, al \in {0, 20}, m \in AsymMuts(r)} :
                        MutApplies(cs, r) /\ PtOK(r, 2048, cs.inLen)} ELSE {})

SigKeys == {<<"rsa", 2048>>, <<"rsa", 1024>>, <<"rsa-pub", 2048>>, <<"ec", 256>>, <<"ec", 384>>, <<"ec", 521>>, <<"ec-pub", 256>>,
            <<"ec-pub", 384>>, <<"ec-pub", 521>>, <<"okp", 255>>, <<"okp-pub", 255>>, <<"okpx", 255>>, <<"oct", 256>>}
DigestLens(r) == IF r.fam = "eddsa" THEN {0, 1, 32, 100} ELSE {r.hash}
SigMuts == {"sig", "digest", "sig+1", "sig-1", "otherkey"}
SigGroup(r, fn) ==
       {C(fn, r.alg, k[1], k[2], 0, 0, il, 0, "none") : k \in SigKeys, il \in DigestLens(r)}
    \cup (IF fn = "VerifyPublicKey"
          THEN {cs \in {C(fn, r.alg, k[1], k[2], 0, 0, il, 0, m) : k \in SigKeys, il \in DigestLens(r), m \in SigMuts} :
                  ~KeyFault(cs, r) /\ MutApplies(cs, r)}
          ELSE {})

(* unsupported names and names of the wrong family, through every crypto entry point *)
NameFns == SymFns \cup AsymFns \cup GenericFns \cup SigFns
NameGroup(fn) ==
    {C(fn, a, k[1], k[2], IF HasNonceParam(fn) THEN 12 ELSE 0, IF HasTagParam(fn) THEN 16 ELSE 0, 16, 0, "none")
       : a \in (OtherNames \cup Names(Rows)) \ SupportedFor(fn), k \in {<<"oct", 128>>, <<"oct", 256>>, <<"rsa", 2048>>, <<"ec", 256>>}}

KwRows == {q \in SymRows : q.fam = "kw"}
KwGroup(r, fn) ==
       {C(fn, r.alg, "oct", GoodBits(r), 0, 0, il, 0, "none") : il \in InLens(fn, r, 0, KwLens)}
    \cup (IF fn = "aeskw.Unwrap"
          THEN {cs \in {C(fn, r.alg, "oct", GoodBits(r), 0, 0, il, 0, m) : il \in KwMutLens, m \in SymMuts(r)} : MutApplies(cs, r)}
          ELSE {})

AeadRows == {q \in SymRows : q.fam = "cbchmac"} \cup AeadOnlyRows
AeadGroup(r, fn) ==
    LET kb == GoodBits(r) open == fn = "aescbcaead.Open" IN
       {C(fn, r.alg, "oct", kb, 16, r.tag, il, al, "none") : il \in Lens, al \in AadLens}
    \cup {C(fn, r.alg, "oct", 8 * k, 16, r.tag, 16, 0, "none") : k \in KeyBytes \ {kb \div 8}}
    \cup (IF open THEN {C(fn, r.alg, "oct", kb, n, r.tag, 16, 0, "none") : n \in Sweep \ {16}} ELSE {})   \* Seal panics by contract on a bad nonce
    \cup (IF open THEN {cs \in {C(fn, r.alg, "oct", kb, 16, r.tag, il, al, m) : il \in MutLens, al \in {0, 20}, m \in SymMuts(r)} : MutApplies(cs, r)}
          ELSE {})

(* Malformed / well-formed PKCS#7 tails on messages of 1..4 blocks, through  *)
(* padding.UnpadPKCS7 and through every padded-CBC decryption.               *)
PadVsAll == 0..255
PadVs == IF Small THEN (0..18) \cup {31, 32, 33, 34, 47, 48, 49, 63, 64, 65, 255} ELSE PadVsAll
PadLens == {16, 32, 48, 64}
PadRows == {q \in SymRows : q.fam \in {"cbc", "cbchmac"}}
PadTailsFor(v, L) == (IF v >= 1 /\ v <= L THEN {"full"} ELSE {}) \cup (IF v # 1 THEN {"lastonly"} ELSE {})
                     \cup (IF v >= 2 /\ v <= L THEN {"broken"} ELSE {})
CPad(fn, alg, kb, nl, tl, L, v, t) == C(fn, alg, "oct", kb, nl, tl, L, 0, "pad") @@ [padV |-> v, padTail |-> t]
PadVsOf(alg, fn) == IF fn \in PadFns \/ (alg = "A128CBC" /\ fn = "DecryptSymmetric") THEN PadVsAll ELSE PadVs
PadShape(alg, fn, L, v, t) ==       \* the case with this tail, all other fields fixed by (alg, fn)
  LET kb == IF fn \in PadFns THEN 0 ELSE GoodBits(Row(alg))
      nl == IF fn \in PadFns THEN 0 ELSE 16
      tl == IF fn \in PadFns THEN 0 ELSE IF fn \in AeadFns THEN Row(alg).tag ELSE TagArg(fn, Row(alg))
  IN CPad(fn, alg, kb, nl, tl, L, v, t)
PadGroup(alg, fn) ==
  {PadShape(alg, fn, x[1], x[2], x[3]) :
     x \in {y \in PadLens \X PadVsOf(alg, fn) \X {"full", "lastonly", "broken"} : y[3] \in PadTailsFor(y[2], y[1])}}
InPadGroup(cs) ==                   \* membership without building the group
  /\ cs.inLen \in PadLens /\ cs.padV \in PadVsOf(cs.alg, cs.fn) /\ cs.padTail \in PadTailsFor(cs.padV, cs.inLen)
  /\ cs = PadShape(cs.alg, cs.fn, cs.inLen, cs.padV, cs.padTail)

(* History: signature and asymmetric-encryption calls with keys that carry a *)
(* key id, after unrelated calls with another key under the same key id.     *)
SeqKinds == {"rsa", "ec", "okp"}
SeqKeysFor(r) ==
  CASE r.keyKind = "rsa" -> {<<"rsa", 2048>>, <<"rsa-pub", 2048>>, <<"ec", 256>>, <<"okp", 255>>}
    [] r.keyKind = "ec" -> {<<"ec", GoodBits(r)>>, <<"ec-pub", GoodBits(r)>>, <<"rsa", 2048>>}
    [] r.keyKind = "okp" -> {<<"okp", 255>>, <<"okp-pub", 255>>, <<"rsa", 2048>>}
SeqGroup(r, fn) ==
  LET il == IF r.kind = "sig" THEN (IF r.fam = "eddsa" THEN 32 ELSE r.hash) ELSE 32
      muts == IF fn = "VerifyPublicKey" THEN {"none", "otherkey"} ELSE {"none"}
      base == {C(fn, r.alg, k[1], k[2], 0, 0, il, 0, m) : k \in SeqKeysFor(r), m \in muts}
      ok == {x \in base : x.mut = "none" \/ ~KeyFault(x, r)}
  IN {x @@ [seq |-> q] : x \in ok, q \in SeqKinds}

(* Live cases: shared instance used concurrently, earlier results retained. *)
LiveNs == IF Small THEN {1, 2, 8} ELSE {1, 2, 4, 16}
LiveKeeps == IF Small THEN {0, 1, 3} ELSE {0, 1, 2, 3}
LiveShapes(ns, ks) == {x \in ns \X ks : ~(x[1] = 1 /\ x[2] = 0)}
LiveLens(r) == IF r.fam = "kw" THEN {24, 1024} ELSE IF r.fam = "cbcnopad" THEN {32, 1024} ELSE {17, 1000}
LiveSymFns == IF Small THEN SymFns ELSE SymFns \cup GenericFns
LiveGroup(r, fn) ==
  LET kb == GoodBits(r)
      al == IF r.fam \in AuthFams \cup {"oaep"} THEN 20 ELSE 0
      slow == r.kind \in {"asym", "sig"}
      lens == IF r.kind = "asym" THEN {24} ELSE IF r.kind = "sig" THEN {IF r.fam = "eddsa" THEN 32 ELSE r.hash} ELSE LiveLens(r)
      shapes == IF slow THEN LiveShapes({1, 2}, {1, 2}) ELSE LiveShapes(LiveNs, LiveKeeps)
      nl == IF fn \in AeadFns THEN 16 ELSE NonceArg(fn, r)
      tl == IF fn \in AeadFns THEN r.tag ELSE TagArg(fn, r)
  IN {C(fn, r.alg, r.keyKind, kb, nl, tl, il, al, "none") @@ [conc |-> x[1], keep |-> x[2]] : il \in lens, x \in shapes}

(* Destination conventions of cipher.AEAD, for every AEAD the package exposes. *)
DstKinds == {"nil", "empty", "room", "tight", "prefix", "prefixroom", "overlap", "overlaproom"}
DstLens == IF Small THEN {0, 1, 16, 17, 33} ELSE {0, 1, 15, 16, 17, 31, 32, 33, 64, 1000}
DstGroup(r, fn) ==
  {C(fn, r.alg, "oct", GoodBits(r), 16, r.tag, il, al, "none") @@ [dst |-> d] : il \in DstLens, al \in {0, 20}, d \in DstKinds}

(* The case space is the disjoint union of small groups, one per (part, algorithm, entry point). *)
G(part, alg, fn) == [part |-> part, alg |-> alg, fn |-> fn]
Groups ==
       {G("sym", r.alg, fn) : r \in SymRows, fn \in SymCallFns}
  \cup {G("asym", r.alg, fn) : r \in AsymRows, fn \in AsymCallFns}
  \cup {G("sig", r.alg, fn) : r \in SigRows, fn \in SigFns}
  \cup {G("name", "", fn) : fn \in NameFns}
  \cup {G("kw", r.alg, fn) : r \in KwRows, fn \in KwFns}
  \cup {G("aead", r.alg, fn) : r \in AeadRows, fn \in AeadFns}
  \cup {G("pad", "", fn) : fn \in PadFns}
  \cup {G("pad", r.alg, fn) : r \in PadRows, fn \in (IF Small THEN {"DecryptSymmetric"} ELSE {"DecryptSymmetric", "Decrypt"})}
  \cup {G("pad", r.alg, "aescbcaead.Open") : r \in AeadRows}
  \cup {G("live", r.alg, fn) : r \in SymRows, fn \in LiveSymFns}
  \cup {G("live", r.alg, fn) : r \in AeadRows, fn \in AeadFns}
  \cup {G("live", r.alg, fn) : r \in KwRows, fn \in KwFns}
  \cup {G("live", r.alg, fn) : r \in AsymRows, fn \in AsymFns}
  \cup {G("live", r.alg, "SignPrivateKey") : r \in SigRows}
  \cup {G("dst", r.alg, fn) : r \in AeadRows, fn \in AeadFns}
  \cup {G("seq", r.alg, fn) : r \in SigRows, fn \in SigFns}
  \cup {G("seq", r.alg, fn) : r \in AsymRows, fn \in AsymCallFns}
GroupCases(g) ==
  CASE g.part = "sym" -> SymGroup(Row(g.alg), g.fn)
    [] g.part = "asym" -> AsymGroup(Row(g.alg), g.fn)
    [] g.part = "sig" -> SigGroup(Row(g.alg), g.fn)
    [] g.part = "name" -> NameGroup(g.fn)
    [] g.part = "kw" -> KwGroup(Row(g.alg), g.fn)
    [] g.part = "aead" -> AeadGroup(Row(g.alg), g.fn)
    [] g.part = "pad" -> PadGroup(g.alg, g.fn)
    [] g.part = "seq" -> SeqGroup(Row(g.alg), g.fn)
    [] g.part = "live" -> LiveGroup(Row(g.alg), g.fn)
    [] g.part = "dst" -> DstGroup(Row(g.alg), g.fn)
GroupOf(cs) ==
  IF cs.mut = "pad" THEN G("pad", cs.alg, cs.fn)
  ELSE IF IsSeq(cs) THEN G("seq", cs.alg, cs.fn)
  ELSE IF IsLive(cs) THEN G("live", cs.alg, cs.fn)
  ELSE IF IsDst(cs) THEN G("dst", cs.alg, cs.fn)
  ELSE IF cs.alg \notin SupportedFor(cs.fn) THEN G("name", "", cs.fn)
  ELSE IF cs.fn \in KwFns THEN G("kw", cs.alg, cs.fn)
  ELSE IF cs.fn \in AeadFns THEN G("aead", cs.alg, cs.fn)
  ELSE G(Row(cs.alg).kind, cs.alg, cs.fn)
InCases(cs) == /\ cs.fn \in Fns /\ GroupOf(cs) \in Groups
               /\ IF cs.mut = "pad" THEN InPadGroup(cs) ELSE cs \in GroupCases(GroupOf(cs))
CardOfGroup(g) == Cardinality(GroupCases(g))
NumCasesOf(GS) == MapThenSumSet(CardOfGroup, GS)      \* NumCasesOf(Groups): parametrised so that TLC does not evaluate it eagerly

(* what the replay needs to know about a case, all of it derived from the table *)
Describe(cs) ==
  IF cs.fn \notin PadFns /\ cs.alg \in SupportedFor(cs.fn)
  THEN LET r == Row(cs.alg) IN
       cs @@ [fam |-> r.fam, dir |-> Dir(cs.fn), gKeyKind |-> r.keyKind,
              gKeyBits |-> (IF r.keyBits = {} THEN (IF Base(cs.keyKind) = "rsa" THEN cs.keyBits ELSE 2048) ELSE GoodBits(r)),
              gNonce |-> r.nonce, gTag |-> r.tag, hash |-> r.hash, compLen |-> CompLen(cs, r)]
  ELSE cs @@ [fam |-> "none", dir |-> Dir(cs.fn), gKeyKind |-> "none", gKeyBits |-> 0, gNonce |-> 0, gTag |-> 0, hash |-> 0, compLen |-> 1]

-----------------------------------------------------------------------------
(* Table sanity (evaluated by TLC as ASSUMEs of the model modules) *)
TableSane ==
  /\ \A n \in Names(AllRows) : Cardinality({r \in AllRows : r.alg = n}) = 1
  /\ Cardinality(SymRows) = 19 /\ Cardinality(AsymRows) = 5 /\ Cardinality(SigRows) = 10
  /\ SymNames \cap AsymNames = {} /\ SymNames \cap SigNames = {} /\ AsymNames \cap SigNames = {}
  /\ OtherNames \cap Names(Rows) = {}
  /\ \A r \in AllRows : r.keyBits = {} <=> r.keyKind = "rsa"
  /\ \A r \in SymRows : (r.tag > 0) <=> (r.fam \in AuthFams)
  /\ \A r \in SymRows : r.fam \in AuthFams => r.nonce > 0
CasesSane ==
  /\ \A g \in Groups : \A x \in GroupCases(g) :
        Allowed(x) # {} /\ "panic" \notin Allowed(x) /\ x.fn \in Fns /\ GroupOf(x) = g     \* groups are disjoint
  \* every supported name is exercised through every entry point that documents it, at a valid point
  /\ \A g \in Groups : g.part # "name" => \E x \in GroupCases(g) : Allowed(x) = {"ok"}
  /\ \A fn \in Fns : \A a \in SupportedFor(fn) : \E g \in Groups : g.fn = fn /\ g.alg = a
  \* padding: every tail kind, valid and invalid, on every length; the seeded class "17 <= v <= len, full tail" is present
  /\ \A g \in Groups : g.part = "pad" =>
        /\ \E x \in GroupCases(g) : ~PadValid(x) /\ x.padTail = "full" /\ x.padV > 16
        /\ \A L \in PadLens : \E x \in GroupCases(g) : x.inLen = L /\ PadValid(x) /\ x.padV = 16
  \* and every sentinel is demanded somewhere
  /\ \A s \in {"keytype", "nonce", "tag", "ptlen", "ctlen", "unsupported"} :
        \E g \in Groups : \E x \in GroupCases(g) : Allowed(x) = {s}

=============================================================================
