SPECIFICATION Spec
CONSTANTS Tier = "small" PadFix = TRUE AppendFix = TRUE PoolFix = TRUE FinalizerFix = TRUE
INVARIANTS NotBad
CHECK_DEADLOCK FALSE
