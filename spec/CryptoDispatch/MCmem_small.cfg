SPECIFICATION Spec
CONSTANTS Tier = "small" PadFix = TRUE AppendFix = TRUE
INVARIANTS NotBad
CHECK_DEADLOCK FALSE
