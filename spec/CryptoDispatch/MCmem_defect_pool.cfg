SPECIFICATION Spec
CONSTANTS Tier = "small" PadFix = TRUE AppendFix = TRUE PoolFix = FALSE FinalizerFix = TRUE
INVARIANTS NotBad
CHECK_DEADLOCK FALSE
