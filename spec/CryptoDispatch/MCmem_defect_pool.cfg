SPECIFICATION Spec
CONSTANTS Tier = "small" PadFix = TRUE AppendFix = TRUE PoolFix = FALSE
INVARIANTS NotBad
CHECK_DEADLOCK FALSE
