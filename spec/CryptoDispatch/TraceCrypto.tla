----------------------------- MODULE TraceCrypto -----------------------------
(* Validates the recorded outcomes of the real crypto packages against the   *)
(* C03 monitor.  trace.ndjson holds one run per case (reset, call.., end).   *)
EXTENDS CryptoContract, TraceLib

Trace == LoadTrace("trace.ndjson")
Starts == {k \in 1..Len(Trace) : Trace[k].ev = "reset"}
VARIABLES l, c
TInit == /\ l \in Starts
         /\ c = IF Trace[l].fn \in ListFns THEN CList(Trace[l])
                ELSE IF InCases(CaseOf(Trace[l])) THEN CReset(Trace[l])
                ELSE Bad("harness: case outside the spec")
TNext == /\ ~IsBad(c)
         /\ l + 1 <= Len(Trace)
         /\ Trace[l + 1].ev # "reset"
         /\ c' = CNext(c, Trace[l + 1])
         /\ l' = l + 1
TSpec == TInit /\ [][TNext]_<<l, c>>
Report == IF IsBad(c) THEN RejectLine(l, c.why) ELSE TRUE
=============================================================================
