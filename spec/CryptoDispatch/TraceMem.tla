------------------------------ MODULE TraceMem ------------------------------
(* Validates the canary observations of the real calls against the C17      *)
(* monitor; every line of trace.ndjson is one run.                           *)
EXTENDS MemContract, TraceLib

Trace == LoadTrace("trace.ndjson")
Starts == {k \in 1..Len(Trace) : Trace[k].ev = "reset"}
VARIABLES l, c
TInit == /\ l \in Starts
         /\ c = IF InConfigs(CfOf(Trace[l])) THEN CReset(Trace[l])
                ELSE Bad("harness: configuration outside the spec")
TNext == FALSE /\ UNCHANGED <<l, c>>
TSpec == TInit /\ [][TNext]_<<l, c>>
Report == IF IsBad(c) THEN RejectLine(l, c.why) ELSE TRUE
=============================================================================
