SPECIFICATION Spec
CONSTANTS Tier = "big" GenericNopadFix = TRUE EcdsaCurveFix = TRUE KwLenFix = TRUE OpenLenFix = TRUE
INVARIANTS NotBad
CHECK_DEADLOCK FALSE
