---------------------------- MODULE TraceCryptoAll ----------------------------
(* TraceCrypto plus completeness: the recorded runs are exactly the case     *)
(* space enumerated by the specification (every case once).                  *)
EXTENDS TraceCrypto
CaseStarts == {k \in Starts : Trace[k].fn \notin ListFns}
ASSUME Cardinality({CaseOf(Trace[k]) : k \in CaseStarts}) = NumCasesOf(Groups)
ASSUME Cardinality(CaseStarts) = NumCasesOf(Groups)
=============================================================================
