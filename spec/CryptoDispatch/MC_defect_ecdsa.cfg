SPECIFICATION Spec
CONSTANTS Tier = "small" GenericNopadFix = TRUE EcdsaCurveFix = FALSE KwLenFix = TRUE OpenLenFix = TRUE PadBoundFix = TRUE KidCacheFix = TRUE SharedMacFix = TRUE PoolFix = TRUE KwInPlaceFix = TRUE DstGrowFix = TRUE
INVARIANTS NotBad
CHECK_DEADLOCK FALSE
