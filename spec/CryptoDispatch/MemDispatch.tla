----------------------------- MODULE MemDispatch -----------------------------
(* C17 - the ownership view on top of the documented algorithm table:        *)
(* MemArgs (the []byte arguments of every exported function of crypto,       *)
(* crypto/aeskw, crypto/padding, crypto/aescbcaead), MayWrite (the law) and  *)
(* the enumeration of the configuration space.                               *)
EXTENDS CryptoDispatch

(* C17 - ownership view.  A configuration is [fn, alg, len, path, sv]: the    *)
(* entry point, the algorithm (or input kind), the message length, the path   *)
(* the call is steered into (ok / the failure it must hit) and the index of   *)
(* the spare-capacity vector: argument j of the call is a slice with          *)
(* cap - len = SpareVec(sv, n)[j] cut out of one canary-filled arena.         *)
(* Regions are "<argument>.len" (the bytes handed in) and "<argument>.spare"  *)
(* (the capacity behind them).                                                *)
MemOnlyFns == {"padding.PadPKCS7", "padding.UnpadPKCS7", "aescbcaead.New", "ParseKey"}
MemFns == Fns \cup MemOnlyFns
MemArgs(fn) ==
  CASE fn \in {"Encrypt", "EncryptSymmetric"} -> <<"plaintext", "key", "nonce", "associatedData">>
    [] fn \in {"Decrypt", "DecryptSymmetric"} -> <<"ciphertext", "key", "nonce", "tag", "associatedData">>
    [] fn = "EncryptPublicKey" -> <<"plaintext", "associatedData">>
    [] fn = "DecryptPrivateKey" -> <<"ciphertext", "associatedData">>
    [] fn = "SignPrivateKey" -> <<"digest">>
    [] fn = "VerifyPublicKey" -> <<"digest", "signature">>
    [] fn = "aeskw.Wrap" -> <<"cek">>
    [] fn = "aeskw.Unwrap" -> <<"cipherText">>
    [] fn \in {"padding.PadPKCS7", "padding.UnpadPKCS7"} -> <<"buf">>
    [] fn = "aescbcaead.New" -> <<"key">>
    [] fn = "aescbcaead.Seal" -> <<"dst", "nonce", "plaintext", "additionalData", "key">>
    [] fn = "aescbcaead.Open" -> <<"dst", "nonce", "ciphertext", "additionalData", "key">>
    [] fn = "ParseKey" -> <<"raw">>
(* The explicit destination of an AEAD call: "spare" is dst[len(dst) : len(dst)+needed], the room the    *)
(* result needs; "beyond" is the rest of dst's capacity.                                                *)
Regions(fn) == {<<MemArgs(fn)[j], w>> : j \in 1..Len(MemArgs(fn)), w \in {"len", "spare"}}
               \cup (IF fn \in AeadFns THEN {<<"dst", "beyond">>} ELSE {})
(* bytes the result of an aescbcaead call may occupy behind dst: ciphertext and tag (Seal), at most the  *)
(* padded plaintext (Open)                                                                              *)
DstNeeded(cf) ==
  IF cf.fn = "aescbcaead.Seal" THEN Pad16(cf.len) + Row(cf.alg).tag
  ELSE IF cf.fn = "aescbcaead.Open" THEN Pad16(cf.len) ELSE 0

(* Memory a call RETURNED to its caller is the caller's from then on: the      *)
(* slices returned by earlier calls form the region "result" (in-length bytes  *)
(* and spare capacity) of every later call.                                    *)
ResultRegions == {<<"result", "len">>, <<"result", "spare">>}
CallerMemory(fn) == Regions(fn) \cup ResultRegions

(* THE LAW: the only memory a call may write is the part of the spare capacity *)
(* of the destination an AEAD caller passes explicitly that the result needs   *)
(* (not dst's own bytes, not the capacity beyond) - never an argument, never a   *)
(* result handed out by an earlier call (whether or not it comes back as an    *)
(* argument).                                                                  *)
MayWrite(cf) == IF cf.fn \in AeadFns THEN {<<"dst", "spare">>} ELSE {}

SpareVals == <<0, 1, 15, 16, 17, 64>>
NSV == IF Small THEN 12 ELSE 18
(* 0..5: rotation (argument j gets value k+j), 6..11: the same value behind every argument, 12..17: counter-rotation *)
SpareVec(k, n) ==
  [j \in 1..n |-> SpareVals[((IF k < 6 THEN k + j ELSE IF k < 12 THEN k ELSE k + 5 * j) % 6) + 1]]

MemLens == IF Small THEN {0, 1, 15, 16, 17, 32, 33}
           ELSE {0, 1, 2, 7, 8, 9, 14, 15, 16, 17, 18, 23, 24, 25, 30, 31, 32, 33, 34, 47, 48, 49, 63, 64, 65}
MemLensOf(r) == IF r.fam = "kw" THEN {16, 24, 32, 40, 1, 15, 17} ELSE MemLens
Cf(fn, alg, len, path, sv) == [fn |-> fn, alg |-> alg, len |-> len, path |-> path, sv |-> sv]
WithSV(S) == {Cf(x[1], x[2], x[3], x[4], k) : x \in S, k \in 0..(NSV - 1)}

SymMemPaths(r, fn) ==
  LET dec == Dir(fn) = "dec" IN
       {"ok", "fail_key", "fail_alg"}
  \cup (IF r.nonce > 0 THEN {"fail_nonce"} ELSE {})
  \cup (IF dec /\ r.tag > 0 THEN {"fail_tag", "fail_auth"} ELSE {})
  \cup (IF dec /\ r.fam = "kw" THEN {"fail_auth"} ELSE {})
  \cup (IF dec /\ r.fam \in {"cbc", "cbcnopad"} THEN {"fail_len"} ELSE {})
  \cup (IF dec /\ r.fam = "cbc" THEN {"fail_pad"} ELSE {})
SymMem(r, fn) ==
  WithSV({<<fn, r.alg, l, p>> : l \in {x \in MemLensOf(r) : PtOK(r, 0, x)}, p \in SymMemPaths(r, fn)}
         \cup (IF Dir(fn) = "enc" THEN {<<fn, r.alg, l, "fail_len">> : l \in {x \in MemLensOf(r) : ~PtOK(r, 0, x)}} ELSE {}))
AsymMem(r, fn) ==
  WithSV(IF Dir(fn) = "enc"
         THEN {<<fn, r.alg, l, p>> : l \in {0, 1, 16, 32}, p \in {"ok", "fail_key", "fail_alg"}} \cup {<<fn, r.alg, 300, "fail_len">>}
         ELSE {<<fn, r.alg, l, p>> : l \in {0, 1, 16, 32}, p \in {"ok", "fail_key", "fail_auth", "fail_alg"}})
SigMem(r, fn) ==
  WithSV({<<fn, r.alg, l, p>> : l \in (IF r.fam = "eddsa" THEN {0, 1, 32, 33} ELSE {r.hash}),
                               p \in {"ok", "fail_key", "fail_alg"} \cup (IF fn = "VerifyPublicKey" THEN {"fail_auth"} ELSE {})})
KwMem(r, fn) ==
  WithSV(IF fn = "aeskw.Wrap"
         THEN {<<fn, r.alg, l, "ok">> : l \in {16, 24, 32, 40}} \cup {<<fn, r.alg, l, "fail_len">> : l \in {1, 15, 17}}
         ELSE {<<fn, r.alg, l, p>> : l \in {16, 24, 32, 40}, p \in {"ok", "fail_auth"}})
AeadMem(r, fn) ==
  WithSV(CASE fn = "aescbcaead.Seal" -> {<<fn, r.alg, l, "ok">> : l \in MemLens}
           [] fn = "aescbcaead.Open" -> {<<fn, r.alg, l, p>> : l \in MemLens, p \in {"ok", "fail_auth", "fail_pad"}}
           [] fn = "aescbcaead.New" -> {<<fn, r.alg, 0, p>> : p \in {"ok", "fail_key"}})
PadMem(fn) ==
  WithSV({<<fn, "", l, p>> : l \in MemLens \cup {47, 48, 49},
                            p \in {"ok", "fail_size"} \cup (IF fn = "padding.UnpadPKCS7" THEN {"fail_pad"} ELSE {})})
ParseKinds == {"raw", "base64", "jwk", "pem", "badjson"}
ParseMem == WithSV({<<"ParseKey", k, l, IF k = "badjson" THEN "fail_parse" ELSE "ok">> : k \in ParseKinds, l \in {16, 24, 32, 33}})

(* "Results stay the caller's": conc goroutines each make keep successful      *)
(* calls and keep what they return, then one more call (ok, failing, or        *)
(* "chained": the previous result IS the argument named by chain); everything  *)
(* retained is compared with its snapshot after every call.                    *)
IsRet(cf) == "keep" \in DOMAIN cf
RetFns == {"Encrypt", "EncryptSymmetric", "Decrypt", "DecryptSymmetric", "EncryptPublicKey", "DecryptPrivateKey", "SignPrivateKey",
           "aeskw.Wrap", "aeskw.Unwrap", "padding.PadPKCS7", "padding.UnpadPKCS7", "aescbcaead.Seal", "aescbcaead.Open"}
RetKeeps == IF Small THEN {1, 3} ELSE {1, 2, 3}
RetConcs == IF Small THEN {1, 2} ELSE {1, 2, 4}
NoRow == [fam |-> "none", kind |-> "none", nonce |-> 0, tag |-> 0, hash |-> 0, keyBits |-> {0}, keyKind |-> "none", alg |-> ""]
RetChains(fn, r) ==
  CASE fn \in {"Decrypt", "DecryptSymmetric"} /\ r.kind = "sym" ->
         {"associatedData", "ciphertext", "key"} \cup (IF r.nonce > 0 THEN {"nonce"} ELSE {}) \cup (IF r.tag > 0 THEN {"tag"} ELSE {})
    [] fn \in {"Encrypt", "EncryptSymmetric", "EncryptPublicKey"} -> {"plaintext", "associatedData"}
    [] fn \in {"Decrypt", "DecryptPrivateKey"} /\ r.kind = "asym" -> {"associatedData"}
    [] fn = "aeskw.Wrap" -> {"cek"}
    [] fn = "aeskw.Unwrap" -> {"cipherText"}
    [] fn \in {"padding.PadPKCS7", "padding.UnpadPKCS7"} -> {"buf"}
    [] fn = "aescbcaead.Seal" -> {"plaintext", "additionalData"}
    [] fn = "aescbcaead.Open" -> {"additionalData", "nonce"}
    [] OTHER -> {}
(* message length: such that the previous result fits the argument it becomes *)
RetLen(fn, r, ch) ==
  IF fn \in {"Decrypt", "DecryptSymmetric"} /\ r.kind = "sym" /\ ch = "key" THEN GoodBits(r) \div 8
  ELSE IF fn \in {"Decrypt", "DecryptSymmetric"} /\ r.kind = "sym" /\ ch = "nonce" THEN r.nonce
  ELSE IF fn \in {"Decrypt", "DecryptSymmetric"} /\ r.kind = "sym" /\ ch = "tag" THEN r.tag
  ELSE IF fn = "aescbcaead.Open" /\ ch = "nonce" THEN 16
  ELSE IF r.fam = "kw" THEN 24 ELSE IF r.fam = "cbcnopad" THEN 32
  ELSE IF r.kind = "asym" THEN 24
  ELSE IF r.kind = "sig" THEN (IF r.fam = "eddsa" THEN 32 ELSE r.hash)
  ELSE 33
RetCf(fn, alg, len, path, k, ch, n) == Cf(fn, alg, len, path, 6) @@ [keep |-> k, chain |-> ch, conc |-> n]
RetMem(fn, r) ==
  LET shapes == {<<"ok", "none">>, <<"fail", "none">>} \cup {<<"chained", ch>> : ch \in RetChains(fn, r)}
      fit == {x \in shapes : r.kind # "sym" \/ r.fam = "none" \/ PtOK(r, 0, RetLen(fn, r, x[2]))}
      real == {x \in fit : ~(fn = "aescbcaead.Seal" /\ x[1] = "fail")}
  IN {RetCf(fn, r.alg, RetLen(fn, r, x[2]), x[1], k, x[2], n) : x \in real, k \in RetKeeps, n \in RetConcs}

MG(part, alg, fn) == [part |-> part, alg |-> alg, fn |-> fn]
MemGroups ==
       {MG("sym", r.alg, fn) : r \in SymRows, fn \in SymCallFns}
  \cup {MG("asym", r.alg, fn) : r \in AsymRows, fn \in AsymCallFns}
  \cup {MG("sig", r.alg, fn) : r \in SigRows, fn \in SigFns}
  \cup {MG("kw", r.alg, fn) : r \in KwRows, fn \in KwFns}
  \cup {MG("aead", r.alg, fn) : r \in AeadRows, fn \in AeadFns \cup {"aescbcaead.New"}}
  \cup {MG("pad", "", fn) : fn \in {"padding.PadPKCS7", "padding.UnpadPKCS7"}}
  \cup {MG("parse", "", "ParseKey")}
  \cup {MG("ret", r.alg, fn) : r \in SymRows, fn \in SymCallFns}
  \cup {MG("ret", r.alg, fn) : r \in AsymRows, fn \in AsymCallFns}
  \cup {MG("ret", r.alg, "SignPrivateKey") : r \in SigRows}
  \cup {MG("ret", r.alg, fn) : r \in KwRows, fn \in KwFns}
  \cup {MG("ret", r.alg, fn) : r \in AeadRows, fn \in AeadFns}
  \cup {MG("ret", "", fn) : fn \in {"padding.PadPKCS7", "padding.UnpadPKCS7"}}
MemGroupConfigs(g) ==
  CASE g.part = "sym" -> SymMem(Row(g.alg), g.fn)
    [] g.part = "asym" -> AsymMem(Row(g.alg), g.fn)
    [] g.part = "sig" -> SigMem(Row(g.alg), g.fn)
    [] g.part = "kw" -> KwMem(Row(g.alg), g.fn)
    [] g.part = "aead" -> AeadMem(Row(g.alg), g.fn)
    [] g.part = "pad" -> PadMem(g.fn)
    [] g.part = "parse" -> ParseMem
    [] g.part = "ret" -> RetMem(g.fn, IF g.alg = "" THEN NoRow ELSE Row(g.alg))
MemGroupOf(cf) ==
  IF IsRet(cf) THEN MG("ret", cf.alg, cf.fn)
  ELSE IF cf.fn = "ParseKey" THEN MG("parse", "", cf.fn)
  ELSE IF cf.fn \in {"padding.PadPKCS7", "padding.UnpadPKCS7"} THEN MG("pad", "", cf.fn)
  ELSE IF cf.fn \in KwFns THEN MG("kw", cf.alg, cf.fn)
  ELSE IF cf.fn \in AeadFns \cup {"aescbcaead.New"} THEN MG("aead", cf.alg, cf.fn)
  ELSE IF cf.alg \in Names(Rows) THEN MG(Row(cf.alg).kind, cf.alg, cf.fn)
  ELSE MG("none", cf.alg, cf.fn)
InConfigs(cf) == MemGroupOf(cf) \in MemGroups /\ cf \in MemGroupConfigs(MemGroupOf(cf))
CardOfMemGroup(g) == Cardinality(MemGroupConfigs(g))
NumConfigsOf(GS) == MapThenSumSet(CardOfMemGroup, GS)
DescribeCf(cf) ==
  LET n == Len(MemArgs(cf.fn)) IN
  cf @@ [args |-> MemArgs(cf.fn), spares |-> SpareVec(cf.sv, n), dstNeeded |-> DstNeeded(cf),
         fam |-> (IF cf.alg \in Names(AllRows) THEN Row(cf.alg).fam ELSE "none"),
         gKeyBits |-> (IF cf.alg \in Names(AllRows) THEN GoodBits(Row(cf.alg)) ELSE 0),
         gNonce |-> (IF cf.alg \in Names(AllRows) THEN Row(cf.alg).nonce ELSE 0),
         gTag |-> (IF cf.alg \in Names(AllRows) THEN Row(cf.alg).tag ELSE 0),
         hash |-> (IF cf.alg \in Names(AllRows) THEN Row(cf.alg).hash ELSE 0)]

MemSane ==
  /\ \A g \in MemGroups : \A cf \in MemGroupConfigs(g) : MemGroupOf(cf) = g /\ cf.fn \in MemFns /\ MayWrite(cf) \subseteq Regions(cf.fn)
  \* every exported function taking []byte is covered, every argument sees every spare value, each function has ok and failing paths
  /\ \A fn \in MemFns : \E g \in MemGroups : g.fn = fn
  /\ \A fn \in MemFns : \A j \in 1..Len(MemArgs(fn)) : {SpareVec(k, Len(MemArgs(fn)))[j] : k \in 0..(NSV - 1)} = {0, 1, 15, 16, 17, 64}
  /\ \A g \in MemGroups : \E cf \in MemGroupConfigs(g) : cf.path = "ok"
  /\ \A g \in MemGroups : g.fn \notin {"aescbcaead.Seal"} => \E cf \in MemGroupConfigs(g) : cf.path # "ok"
  \* results stay the caller's: every function that returns a slice, alone and concurrently, with and without chaining
  /\ \A fn \in RetFns : \E g \in MemGroups : g.part = "ret" /\ g.fn = fn
  /\ \A g \in MemGroups : g.part = "ret" => \A cf \in MemGroupConfigs(g) : cf.keep >= 1 /\ cf.conc >= 1 /\ MayWrite(cf) \cap ResultRegions = {}

=============================================================================
