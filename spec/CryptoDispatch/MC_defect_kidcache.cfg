SPECIFICATION Spec
CONSTANTS Tier = "small" GenericNopadFix = TRUE EcdsaCurveFix = TRUE KwLenFix = TRUE OpenLenFix = TRUE PadBoundFix = TRUE KidCacheFix = FALSE
INVARIANTS NotBad
CHECK_DEADLOCK FALSE
