SPECIFICATION Spec
CONSTANTS Tier = "small" PadFix = FALSE AppendFix = TRUE
INVARIANTS NotBad
CHECK_DEADLOCK FALSE
