SPECIFICATION Spec
CONSTANTS Tier = "small" PadFix = FALSE AppendFix = TRUE PoolFix = TRUE FinalizerFix = TRUE
INVARIANTS NotBad
CHECK_DEADLOCK FALSE
