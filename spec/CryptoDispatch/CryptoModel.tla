---------------------------- MODULE CryptoModel ----------------------------
(* C03 - implementation-shaped model of the dispatch in crypto/crypto.go,    *)
(* symmetric.go, asymmetric_enc.go, asymmetric_sig.go, aeskw/keywrap.go and  *)
(* aescbcaead/aescbcaead.go: for every case of CryptoDispatch!Cases the      *)
(* order in which the real code checks its arguments and the class of the    *)
(* first check that fails.  The model feeds the contract monitor; TLC checks *)
(* exhaustively that no case drives the monitor bad, checks the table sanity *)
(* assumptions, and writes the enumerated case space for the replay          *)
(* (cases.ndjson).                                                           *)
(* The four *Fix constants select the adjudicated repair of a defect (TRUE)  *)
(* or the code as found (FALSE); MC_defect_*.cfg show that the monitor       *)
(* rejects each of them (non-vacuity).                                       *)
EXTENDS CryptoContract, Json, SequencesExt

CONSTANTS GenericNopadFix,   \* crypto.Encrypt/Decrypt dispatch the three *-NOPAD names
          EcdsaCurveFix,     \* ES256/384/512 tie the curve to the name
          KwLenFix,          \* aeskw: Wrap wants >= 16 bytes, Unwrap a multiple of 8 that is >= 24
          OpenLenFix,        \* aescbcaead.Open rejects a ciphertext that is not a whole number of blocks
          PadBoundFix,       \* UnpadPKCS7 bounds the pad length by the block size (FALSE: by the message length)
          KidCacheFix,       \* FALSE: RSA public keys for verification are cached by key id (kid)
          SharedMacFix,      \* FALSE: one HMAC state per aescbcaead instance, shared by concurrent Seal/Open
          PoolFix,           \* FALSE: decryptSymmetricAEAD returns a plaintext that lives in a pooled scratch buffer
          KwInPlaceFix,      \* FALSE: aeskw.Unwrap works in place on the caller's wrapped key
          DstGrowFix         \* FALSE: aescbcaead grows dst with append(dst, make(..)...), zero-filling an overlapping input

VARIABLES cs, c, i, pc
vars == <<cs, c, i, pc>>

Chk(cond, cls) == IF cond THEN cls ELSE ""
(* outcome of a chain of checks: the first that fails, else any of final *)
Chain(checks, final) ==
  IF \E k \in 1..Len(checks) : checks[k] # ""
  THEN {checks[CHOOSE k \in 1..Len(checks) : checks[k] # "" /\ \A j \in 1..(k - 1) : checks[j] = ""]}
  ELSE final

CtLenMut(x, r) ==
  LET b == CtLen(r, x.keyBits, x.inLen) IN
  CASE x.mut = "ct+1" -> b + 1
    [] x.mut \in {"ct-1", "forge-ct-1"} -> b - 1
    [] x.mut \in {"ct=0", "forge-ct=0"} -> 0
    [] x.mut = "ct+8" -> b + 8
    [] x.mut = "ct-8" -> b - 8
    [] OTHER -> b

AeadOpen(x, r) ==
  CASE x.mut = "none" -> {"ok"}
    [] x.mut = "forge-ct=0" -> {"ok"}                 \* UnpadPKCS7 accepts the empty buffer
    [] x.mut = "forge-ct-1" -> IF OpenLenFix THEN {"error"} ELSE {"panic"}   \* CryptBlocks: input not full blocks
    [] OTHER -> {"error"}

KwWrap(x) ==
  IF x.inLen % 8 # 0 THEN {"error"}
  ELSE IF KwLenFix /\ x.inLen < 16 THEN {"error"}
  ELSE {"ok"}

KwUnwrap(x, cl) ==
  IF KwLenFix THEN (IF cl % 8 # 0 \/ cl < 24 THEN {"error"} ELSE IF x.mut = "none" THEN {"ok"} ELSE {"error"})
  ELSE IF cl < 8 THEN {"panic"}                        \* make([][]byte, -1) / cipherText[:8]
  ELSE IF x.mut \in {"none", "ct+1"} THEN {"ok"}       \* n = len/8 - 1: trailing bytes are ignored
  ELSE {"error"}

ImplSym(x) ==
  IF Base(x.keyKind) # "oct" THEN {"keytype"}
  ELSE IF x.alg \notin SymNames THEN {"unsupported"}
  ELSE LET r == Row(x.alg)
           dec == Dir(x.fn) = "dec"
           key == Chk(x.keyBits \notin r.keyBits, "keytype")
           nonce == Chk(x.nonceLen # r.nonce, "nonce")
           tag == Chk(x.tagLen # r.tag, "tag")
           cl == CtLenMut(x, r)
       IN CASE r.fam = "cbc" /\ ~dec -> Chain(<<key, nonce>>, {"ok"})
            [] r.fam = "cbcnopad" /\ ~dec -> Chain(<<key, nonce, Chk(x.inLen % 16 # 0, "ptlen")>>, {"ok"})
            [] r.fam = "cbc" /\ dec -> Chain(<<key, nonce, Chk(cl % 16 # 0, "ctlen")>>,
                                             IF x.mut \in {"ct", "nonce"} THEN {"ok", "error"} ELSE {"ok"})
            [] r.fam = "cbcnopad" /\ dec -> Chain(<<key, nonce, Chk(cl % 16 # 0, "ctlen")>>, {"ok"})
            [] r.fam \in AuthFams /\ ~dec -> Chain(<<key, nonce>>, {"ok"})
            [] r.fam \in AuthFams /\ dec -> Chain(<<key, nonce, tag>>, AeadOpen(x, r))
            [] r.fam = "kw" /\ ~dec -> Chain(<<key>>, KwWrap(x))
            [] r.fam = "kw" /\ dec -> Chain(<<key>>, KwUnwrap(x, cl))

ImplAsym(x) ==
  IF x.alg \notin AsymNames THEN {"unsupported"}
  ELSE LET r == Row(x.alg) IN
       IF Dir(x.fn) = "enc"
       THEN Chain(<<Chk(Base(x.keyKind) # "rsa", "keytype"), Chk(x.inLen > MaxPt(r, x.keyBits), "error")>>, {"ok"})
       ELSE Chain(<<Chk(x.keyKind # "rsa", "keytype")>>,
                  CASE x.mut = "none" -> {"ok"}
                    [] r.fam = "rsa15" /\ x.mut = "ct" -> {"ok", "error"}
                    [] r.fam = "rsa15" /\ x.mut = "aad" -> {"ok"}
                    [] OTHER -> {"error"})

NopadNames == {"A128CBC-NOPAD", "A192CBC-NOPAD", "A256CBC-NOPAD"}
GenericSym == (SymNames \ (IF GenericNopadFix THEN {} ELSE NopadNames)) \cup {"A128GCMKW", "A192GCMKW", "A256GCMKW"}
GenericAsym == AsymNames \cup {"ECDH-ES", "ECDH-ES+A128KW", "ECDH-ES+A192KW", "ECDH-ES+A256KW"}
ImplGeneric(x) ==
  IF x.alg \in GenericSym THEN ImplSym(x)
  ELSE IF x.alg \in GenericAsym THEN ImplAsym(x)
  ELSE {"unsupported"}

ImplSig(x) ==
  IF x.alg \notin SigNames THEN {"unsupported"}
  ELSE LET r == Row(x.alg)
           kind == IF x.fn = "SignPrivateKey" THEN Chk(x.keyKind # r.keyKind, "keytype")
                   ELSE Chk(Base(x.keyKind) # r.keyKind, "keytype")
           curve == Chk(EcdsaCurveFix /\ r.fam = "ecdsa" /\ x.keyBits \notin r.keyBits, "keytype")
       IN Chain(<<kind, curve>>, IF x.mut = "none" THEN {"ok"} ELSE {"invalid"})

ImplDirect(x) ==
  LET r == Row(x.alg) IN
  IF x.fn = "aeskw.Wrap" THEN KwWrap(x)
  ELSE IF x.fn = "aeskw.Unwrap" THEN KwUnwrap(x, CtLenMut(x, r))
  ELSE LET key == Chk(x.keyBits \notin r.keyBits, "error") IN
       IF x.fn = "aescbcaead.Seal" THEN Chain(<<key>>, {"ok"})
       ELSE Chain(<<key>>, IF x.nonceLen # 16 THEN {"error"} ELSE AeadOpen(x, r))   \* a wrong nonce fails the MAC

(* UnpadPKCS7 as reached directly and from every padded-CBC decryption *)
ImplPad(x) ==
  LET bound == IF PadBoundFix THEN 16 ELSE x.inLen IN
  IF x.padV <= 0 \/ x.padV > bound THEN {"error"}
  ELSE IF x.padTail = "full" \/ (x.padTail = "lastonly" /\ x.padV = 1) THEN {"ok"}
  ELSE {"error"}

(* verification through a stale cached RSA key: the key that an earlier call stored under this key id *)
StaleRSA(x, k) ==
  ~KidCacheFix /\ IsSeq(x) /\ k = 1 /\ x.seq = "rsa" /\ x.fn = "VerifyPublicKey"
  /\ x.alg \in SigNames /\ Row(x.alg).fam \in {"rsapkcs", "rsapss"}
ImplStale(x) == IF x.mut = "otherkey" /\ Base(x.keyKind) = "rsa" THEN {"ok"} ELSE {"invalid"}

Impl(x) ==
  CASE x.mut = "pad" -> ImplPad(x)
    [] IsDst(x) /\ ~DstGrowFix /\ x.fn = "aescbcaead.Open" /\ x.dst \in {"overlap", "overlaproom"} -> {"error"}
    [] x.fn \in SymFns -> ImplSym(x)
    [] x.fn \in AsymFns -> ImplAsym(x)
    [] x.fn \in GenericFns -> ImplGeneric(x)
    [] x.fn \in SigFns -> ImplSig(x)
    [] x.fn \in DirectFns -> ImplDirect(x)

(* Unwrap(Wrap("")) panics in the code as found *)
ImplRt(x, o) ==
  IF o = "ok" /\ ~KwLenFix /\ Dir(x.fn) = "enc" /\ x.inLen = 0 /\ x.alg \in KwNames /\ x.fn \in SymFns \cup GenericFns \cup KwFns
  THEN "no" ELSE "yes"

LiveAgain(x) == IF ~KwInPlaceFix /\ Dir(x.fn) = "dec" /\ x.alg \in KwNames THEN "no" ELSE "yes"
LiveSame(x) == IF ~SharedMacFix /\ x.conc > 1 /\ x.fn \in AeadFns THEN {"yes", "no"} ELSE {"yes"}
LiveKept(x, k) == IF ~PoolFix /\ x.keep >= 1 /\ k >= 1 /\ x.fn \in {"Decrypt", "DecryptSymmetric"}
                     /\ Row(x.alg).fam \in {"gcm", "cbchmac"} THEN "no" ELSE "yes"
ModelCompLen(x) == IF x.mut \in Flips \/ IsSeq(x) \/ IsLive(x) THEN 2 ELSE 1     \* the model abstracts a component to two byte positions

Init ==
  /\ \E g \in Groups : cs \in GroupCases(g)
  /\ c = CReset(cs @@ [ev |-> "reset", compLen |-> ModelCompLen(cs), full |-> TRUE])
  /\ i = 0
  /\ pc = "call"

Call ==
  /\ pc = "call"
  /\ IF IsLive(cs)
     THEN \E o \in Impl(cs), sm \in LiveSame(cs) :
            c' = CNext(c, [ev |-> "call", idx |-> 0, w |-> 0, i |-> i, outcome |-> o, rt |-> "yes", ref |-> "yes", noout |-> "yes",
                           same |-> sm, kept |-> LiveKept(cs, i), again |-> LiveAgain(cs)])
     ELSE \E o \in (IF StaleRSA(cs, i) THEN ImplStale(cs) ELSE Impl(cs)) :
            c' = CNext(c, [ev |-> "call", idx |-> i, outcome |-> o, rt |-> ImplRt(cs, o), ref |-> "yes", noout |-> "yes"])
  /\ i' = i + 1
  /\ pc' = IF i + 1 >= ModelCompLen(cs) THEN (IF IsLive(cs) THEN "wsum" ELSE "end") ELSE "call"
  /\ UNCHANGED cs

(* the goroutines of a live case report one after the other *)
Wsum ==
  /\ pc = "wsum"
  /\ c' = CNext(c, [ev |-> "wsum", w |-> i - ModelCompLen(cs), n |-> 2, deviating |-> 0])
  /\ i' = i + 1
  /\ pc' = IF i + 1 - ModelCompLen(cs) >= cs.conc THEN "end" ELSE "wsum"
  /\ UNCHANGED cs

End ==
  /\ pc = "end"
  /\ c' = CNext(c, [ev |-> "end"])
  /\ pc' = "done"
  /\ UNCHANGED <<cs, i>>

Next == Call \/ Wsum \/ End
Spec == Init /\ [][Next]_vars

NotBad == ~IsBad(c)

ASSUME TableSane
ASSUME CasesSane
GroupSeq == SetToSeq(Groups)
CaseSeq == FlattenSeq([k \in 1..Len(GroupSeq) |-> SetToSeq({Describe(x) : x \in GroupCases(GroupSeq[k])})])
ASSUME PrintT(<<"CASES", NumCasesOf(Groups), Len(CaseSeq)>>)
ASSUME ndJsonSerialize("cases.ndjson", CaseSeq)
=============================================================================
