SPECIFICATION Spec
CONSTANTS Tier = "small" PadFix = TRUE AppendFix = TRUE PoolFix = TRUE FinalizerFix = FALSE
INVARIANTS NotBad
CHECK_DEADLOCK FALSE
