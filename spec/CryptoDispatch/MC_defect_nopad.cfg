SPECIFICATION Spec
CONSTANTS Tier = "small" GenericNopadFix = FALSE EcdsaCurveFix = TRUE KwLenFix = TRUE OpenLenFix = TRUE PadBoundFix = TRUE KidCacheFix = TRUE SharedMacFix = TRUE PoolFix = TRUE KwInPlaceFix = TRUE DstGrowFix = TRUE
INVARIANTS NotBad
CHECK_DEADLOCK FALSE
