SPECIFICATION Spec
CONSTANTS Tier = "small" GenericNopadFix = FALSE EcdsaCurveFix = TRUE KwLenFix = TRUE OpenLenFix = TRUE
INVARIANTS NotBad
CHECK_DEADLOCK FALSE
