SPECIFICATION Spec
CONSTANTS Tier = "small" GenericNopadFix = TRUE EcdsaCurveFix = TRUE KwLenFix = FALSE OpenLenFix = TRUE PadBoundFix = TRUE KidCacheFix = TRUE SharedMacFix = TRUE PoolFix = TRUE KwInPlaceFix = TRUE DstGrowFix = TRUE
INVARIANTS NotBad
CHECK_DEADLOCK FALSE
