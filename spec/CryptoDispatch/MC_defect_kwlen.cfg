SPECIFICATION Spec
CONSTANTS Tier = "small" GenericNopadFix = TRUE EcdsaCurveFix = TRUE KwLenFix = FALSE OpenLenFix = TRUE
INVARIANTS NotBad
CHECK_DEADLOCK FALSE
