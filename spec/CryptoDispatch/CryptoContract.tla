--------------------------- MODULE CryptoContract ---------------------------
(* C03 - the property as a monitor automaton over the observable events of   *)
(* one case (a run):                                                         *)
(*  reset {fn, alg, keyKind, keyBits, nonceLen, tagLen, inLen, aadLen, mut,  *)
(*         compLen, full}      the case; compLen = length of the mutated     *)
(*                             component as observed; full = every byte      *)
(*                             position of it is going to be mutated         *)
(*  call  {idx, outcome, rt, ref, noout}   one call of the REAL package:     *)
(*         idx     byte position mutated (0 when mut is not a byte flip)     *)
(*         outcome class of the result (see CryptoDispatch)                  *)
(*         rt      "yes"/"no"/"na": decrypt(encrypt(m)) = m, unwrap(wrap(k)) *)
(*                 = k, verify(sign(d)) accepts - by the real package        *)
(*         ref     "yes"/"no"/"na": bytes agree with the independent         *)
(*                 reference implementation (interoperability)               *)
(*         noout   "yes"/"no"/"na": a failed call returned no output         *)
(*  end                                                                      *)
(* A case with seq (history) has exactly two calls: the call on its own and  *)
(* the same call after unrelated calls that used ANOTHER key with the SAME   *)
(* key id; law: same case, same result class whatever preceded it.           *)
(* A live case (conc, keep) has many calls, made by conc goroutines on one   *)
(* shared instance; its call events carry                                    *)
(*         w, i    goroutine and iteration                                   *)
(*         same    "yes"/"no": class and bytes of the result are those the   *)
(*                 same call gave when it was made alone                     *)
(*         kept    "yes"/"no": the slices returned by this goroutine's       *)
(*                 previous keep calls are still bit-for-bit what they were  *)
(*                 (checked after this call and after a failing call)        *)
(*         again   "yes"/"no": the call repeated (rep times in all) with the *)
(*                 very same argument slices gave the same result each time  *)
(* and wsum {w, n, deviating} closes a goroutine (calls made / not recorded  *)
(* one by one are all as required iff deviating = 0).                        *)
EXTENDS CryptoDispatch

Bad(why) == [bad |-> TRUE, why |-> why]
IsBad(c) == c.bad

CaseOf(e) ==
  LET b == C(e.fn, e.alg, e.keyKind, e.keyBits, e.nonceLen, e.tagLen, e.inLen, e.aadLen, e.mut) IN
  IF e.mut = "pad" THEN b @@ [padV |-> e.padV, padTail |-> e.padTail]
  ELSE IF "seq" \in DOMAIN e THEN b @@ [seq |-> e.seq]
  ELSE IF "conc" \in DOMAIN e THEN b @@ [conc |-> e.conc, keep |-> e.keep]
  ELSE IF "dst" \in DOMAIN e THEN b @@ [dst |-> e.dst]
  ELSE b

CReset(e) ==
  [bad |-> FALSE, why |-> "", cs |-> CaseOf(e), compLen |-> e.compLen, full |-> e.full,
   calls |-> 0, last |-> -1, distinct |-> 0, first |-> <<>>]

(* classification of an inadmissible outcome (the finding class) *)
Why(cs, o) ==
  LET sup == cs.alg \in SupportedFor(cs.fn) IN
  IF o = "panic" THEN "panic"
  ELSE IF cs.mut = "pad" THEN (IF o = "ok" THEN "malformed-padding-accepted" ELSE IF PadValid(cs) THEN "valid-rejected" ELSE "wrong-error-class")
  ELSE IF cs.fn \in GenericFns /\ o = "unsupported" /\ sup THEN "generic-dispatch"
  ELSE IF sup /\ Row(cs.alg).fam = "ecdsa" /\ Base(cs.keyKind) = "ec" /\ cs.keyBits \notin Row(cs.alg).keyBits /\ o = "ok"
       THEN "ecdsa-curve-mismatch"
  ELSE IF o = "ok" /\ cs.mut # "none" THEN "tamper-accepted"
  ELSE IF o = "ok" THEN "fault-accepted"
  ELSE IF "ok" \in Allowed(cs) THEN "valid-rejected"
  ELSE "wrong-error-class"

CCall(c, e) ==
  LET cs == c.cs flip == cs.mut \in Flips seq == IsSeq(cs) res == <<e.outcome, e.rt, e.ref>> IN
  IF IsLive(cs) THEN
       (IF e.again = "no" THEN Bad("repeat-dependent")
        ELSE IF e.same = "no" THEN Bad(IF cs.conc > 1 THEN "concurrency-dependent" ELSE "history-dependent")
        ELSE IF e.kept = "no" THEN Bad("result-overwritten")
        ELSE IF e.outcome \notin Allowed(cs) THEN Bad(Why(cs, e.outcome))
        ELSE IF e.outcome = "ok" /\ e.rt = "no" THEN Bad("roundtrip-failed")
        ELSE IF e.ref = "no" THEN Bad("reference-disagreement")
        ELSE IF e.w < 0 \/ e.w >= cs.conc THEN Bad("harness: goroutine index out of range")
        ELSE [c EXCEPT !.calls = @ + 1])
  ELSE IF seq /\ c.calls = 1 /\ res # c.first THEN Bad("history-dependent")
  ELSE IF e.outcome \notin Allowed(cs) THEN Bad(Why(cs, e.outcome))
  ELSE IF e.outcome = "ok" /\ e.rt = "no" THEN Bad("roundtrip-failed")
  ELSE IF e.ref = "no" THEN Bad("reference-disagreement")
  ELSE IF e.outcome # "ok" /\ e.noout = "no" THEN Bad("output-on-error")
  ELSE IF ~flip /\ c.calls >= (IF seq THEN 2 ELSE 1) THEN Bad("harness: more than one call")
  ELSE IF flip /\ (e.idx < c.last \/ e.idx >= c.compLen) THEN Bad("harness: byte position out of order")
  ELSE [c EXCEPT !.calls = @ + 1, !.last = e.idx, !.distinct = IF e.idx > c.last THEN @ + 1 ELSE @,
                 !.first = IF c.calls = 0 THEN res ELSE @]

CWsum(c, e) ==
  IF ~IsLive(c.cs) THEN Bad("harness: wsum outside a live case")
  ELSE IF e.deviating # 0 THEN Bad(IF c.cs.conc > 1 THEN "concurrency-dependent" ELSE "history-dependent")
  ELSE IF e.n < 1 THEN Bad("harness: goroutine made no call")
  ELSE [c EXCEPT !.distinct = @ + 1]

CEnd(c) ==
  IF c.calls = 0 THEN Bad("harness: case not executed")
  ELSE IF IsSeq(c.cs) /\ c.calls # 2 THEN Bad("harness: history case needs two calls")
  ELSE IF IsLive(c.cs) /\ c.distinct # c.cs.conc THEN Bad("harness: a goroutine did not report")
  ELSE IF c.cs.mut \in Flips /\ c.full /\ c.distinct # c.compLen THEN Bad("harness: byte positions missing")
  ELSE c

(* the lists the package publishes must be the documented ones *)
ListFns == {"SupportedSymmetricAlgorithms", "SupportedAsymmetricAlgorithms", "SupportedSignatureAlgorithms"}
CList(e) ==
  LET want == CASE e.fn = "SupportedSymmetricAlgorithms" -> SymNames
                [] e.fn = "SupportedAsymmetricAlgorithms" -> AsymNames
                [] e.fn = "SupportedSignatureAlgorithms" -> SigNames
      got == {e.names[k] : k \in 1..Len(e.names)}
  IN IF got # want \/ Len(e.names) # Cardinality(want) THEN Bad("supported-list-mismatch")
     ELSE [bad |-> FALSE, why |-> "", cs |-> [mut |-> "none"], compLen |-> 1, full |-> FALSE, calls |-> 1, last |-> 0, distinct |-> 1, first |-> <<>>]

CNext(c, e) ==
  IF e.ev = "reset" THEN CReset(e)
  ELSE IF IsBad(c) THEN c
  ELSE CASE e.ev = "call" -> CCall(c, e)
         [] e.ev = "wsum" -> CWsum(c, e)
         [] e.ev = "end"  -> CEnd(c)
=============================================================================
