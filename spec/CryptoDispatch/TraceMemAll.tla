----------------------------- MODULE TraceMemAll -----------------------------
(* TraceMem plus completeness: the recorded runs are exactly the             *)
(* configuration space enumerated by the specification.                      *)
EXTENDS TraceMem
ASSUME Cardinality({CfOf(Trace[k]) : k \in Starts}) = NumConfigsOf(MemGroups)
=============================================================================
