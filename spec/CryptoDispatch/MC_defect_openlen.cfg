SPECIFICATION Spec
CONSTANTS Tier = "small" GenericNopadFix = TRUE EcdsaCurveFix = TRUE KwLenFix = TRUE OpenLenFix = FALSE PadBoundFix = TRUE KidCacheFix = TRUE SharedMacFix = TRUE PoolFix = TRUE KwInPlaceFix = TRUE DstGrowFix = TRUE
INVARIANTS NotBad
CHECK_DEADLOCK FALSE
