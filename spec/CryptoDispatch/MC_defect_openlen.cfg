SPECIFICATION Spec
CONSTANTS Tier = "small" GenericNopadFix = TRUE EcdsaCurveFix = TRUE KwLenFix = TRUE OpenLenFix = FALSE
INVARIANTS NotBad
CHECK_DEADLOCK FALSE
