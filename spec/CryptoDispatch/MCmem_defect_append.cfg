SPECIFICATION Spec
CONSTANTS Tier = "small" PadFix = TRUE AppendFix = FALSE PoolFix = TRUE
INVARIANTS NotBad
CHECK_DEADLOCK FALSE
