SPECIFICATION Spec
CONSTANTS Tier = "small" PadFix = TRUE AppendFix = FALSE PoolFix = TRUE FinalizerFix = TRUE
INVARIANTS NotBad
CHECK_DEADLOCK FALSE
