SPECIFICATION Spec
CONSTANTS Tier = "small" PadFix = TRUE AppendFix = FALSE
INVARIANTS NotBad
CHECK_DEADLOCK FALSE
