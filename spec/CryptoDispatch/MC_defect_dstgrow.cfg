SPECIFICATION Spec
CONSTANTS Tier = "small" GenericNopadFix = TRUE EcdsaCurveFix = TRUE KwLenFix = TRUE OpenLenFix = TRUE PadBoundFix = TRUE KidCacheFix = TRUE SharedMacFix = TRUE PoolFix = TRUE KwInPlaceFix = TRUE DstGrowFix = FALSE
INVARIANTS NotBad
CHECK_DEADLOCK FALSE
