SPECIFICATION Spec
CONSTANTS Tier = "small" GenericNopadFix = TRUE EcdsaCurveFix = TRUE KwLenFix = TRUE OpenLenFix = TRUE PadBoundFix = TRUE KidCacheFix = TRUE SharedMacFix = FALSE PoolFix = TRUE KwInPlaceFix = TRUE DstGrowFix = TRUE
INVARIANTS NotBad
CHECK_DEADLOCK FALSE
