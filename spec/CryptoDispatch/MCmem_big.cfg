SPECIFICATION Spec
CONSTANTS Tier = "big" PadFix = TRUE AppendFix = TRUE PoolFix = TRUE FinalizerFix = TRUE
INVARIANTS NotBad
CHECK_DEADLOCK FALSE
