SPECIFICATION Spec
CONSTANTS Tier = "big" PadFix = TRUE AppendFix = TRUE
INVARIANTS NotBad
CHECK_DEADLOCK FALSE
