SPECIFICATION Spec
CONSTANTS Kinds = {"rm", "rcm"} MaxR = 2 MaxC = 1 MaxLate = 1 MaxClose = 1 GraceSet = {2} MaxT = 3
  RClasses = {"nil", "err", "canceled"} CClasses = {"nil", "err"}
  AtomicAddCloser = TRUE GraceRecheck = TRUE ReleaseBeforeStart = TRUE Monitor = TRUE Defect = "runCheckThenSet"
INVARIANTS NotBad
CHECK_DEADLOCK FALSE
