---------------------------- MODULE MgrContract ----------------------------
(* C12 - RunnerManager / RunnerCloserManager: the property as a monitor      *)
(* automaton over observable events.  A monitor state is a record;           *)
(* CNext(c, e) is the successor, or Bad(why) when event e breaks a law.      *)
(*                                                                           *)
(* Runners and closers are harness (or model) functions that announce        *)
(* themselves; every event carries `now` (virtual milliseconds / ticks).     *)
(*  reset        kind in {"rm","rcm"}, G (grace, -1: unset), pdl (deadline   *)
(*               of the parent context, -1: none), nr, nc (sizes of the id   *)
(*               spaces of runners / closers), r0 (runners 1..r0 were given  *)
(*               to the constructor), nruns, ncl (ids of Run / Close calls)  *)
(*  addrunner    i, ok             Add(runner i) returned nil (ok) / an error *)
(*  addcloser.call j               AddCloser(closer j) is being called       *)
(*  addcloser.ret  j, ok           ... returned nil (ok) / an error          *)
(*  addcloser.retmix j, ok         the same for a call that offered closer j *)
(*               together with a value of an unsupported type                *)
(*  addcloser.bad  ok              AddCloser(value of an unsupported type)   *)
(*  runcall      id                Run is being called                       *)
(*  runstarted                     a Run won the manager's running flag      *)
(*               (seen through the verif points *.run.afterCAS): from here   *)
(*               on the manager has definitely been started                  *)
(*  runreturn    id, rejected, errs   Run returned; rejected: the error is   *)
(*               ErrManagerAlreadyStarted; errs: ids of the leaves of the    *)
(*               joined error (a sequence: duplicates visible)               *)
(*  closecall    id ;  closereturn id, errs                                   *)
(*  parentcancel                   the context given to Run is cancelled     *)
(*  runnerstart  i ; seescancel i  (runner i observed ctx.Done())            *)
(*  runnerreturn i, class in {"nil","err","deadline","canceled","wcanceled"},*)
(*               id (the error's id; "" when none)                           *)
(*  closerstart  j ; closerreturn j, class in {"nil","err","kcanceled" (an   *)
(*               error wrapping Canceled), "kfmt" (fmt.Errorf("..%w",        *)
(*               Canceled)), "kraw" (context.Canceled itself, id "canceled")}*)
(*  panic        what              a method of the manager panicked          *)
(*  fatal                          the fatal-shutdown action ran             *)
(*  q                              quiescence: nothing can move any more     *)
(*               unless the environment acts or time passes                  *)
EXTENDS Integers, Sequences, FiniteSets

Bad(why) == [bad |-> TRUE, why |-> why]
IsBad(c) == c.bad

CReset(e) ==
  [bad |-> FALSE, why |-> "", kind |-> e.kind, G |-> e.G, pdl |-> e.pdl,
   (* life cycle as far as the observer can tell:
      new       nothing called yet
      starting  Run called, no Close call yet, not yet settled
      preclose  Close called on a manager on which Run was not called yet
      race      Run and Close both called before either settled: either may win
      running   Run was accepted
      neverran  Close won: the manager never ran and never will
      finished  the accepted Run returned                                    *)
   phase |-> "new",
   rreg |-> [i \in 1..e.nr |-> i <= e.r0],           \* registered runners
   rst |-> [i \in 1..e.nr |-> "idle"],               \* idle | started | cancelled | returned
   creg |-> [j \in 1..e.nc |-> "no"],                \* no | pending | yes | maybe | mixed
   cst |-> [j \in 1..e.nc |-> "idle"],               \* idle | started | returned
   cause |-> FALSE,        \* a reason to cancel the runners' context exists
   t0 |-> -1,              \* instant at which the last runner returned (closers' start)
   must |-> <<>>,          \* ids of errors that have to be reported (a bag)
   may |-> <<>>,           \* ids on which the statement is silent (a runner's error that wraps Canceled)
   fatal |-> FALSE,
   late |-> FALSE,         \* a closer was still unfinished strictly after t0 + G
   tie |-> FALSE,          \* a closer finished exactly at t0 + G
   accepted |-> 0,         \* id of the Run call that returned as the manager's one accepted run (0: none yet)
   runs |-> [k \in 1..e.nruns |-> "idle"],           \* idle | called | returned
   closes |-> [k \in 1..e.ncl |-> "idle"]]

Dummy == CReset([kind |-> "rm", G |-> -1, pdl |-> -1, nr |-> 0, nc |-> 0, r0 |-> 0, nruns |-> 0, ncl |-> 0])

Rs(c) == DOMAIN c.rst
Cs(c) == DOMAIN c.cst
NoRunners(c) == \A i \in Rs(c) : ~c.rreg[i]
AllStarted(c) == \A i \in Rs(c) : c.rreg[i] => c.rst[i] # "idle"
AllRet(c) == \A i \in Rs(c) : c.rreg[i] => c.rst[i] = "returned"
ClosersInvoked(c) == \A j \in Cs(c) : c.creg[j] = "yes" => c.cst[j] # "idle"
ClosersDone(c) == \A j \in Cs(c) : c.creg[j] = "yes" => c.cst[j] = "returned"
Outstanding(c) == \E j \in Cs(c) : c.cst[j] = "started"
(* a closer is still to finish: running, or registered and not even announced yet (with a grace period of zero the  *)
(* timer may fire before the closers' goroutines get to run)                                                        *)
Unfinished(c) == \E j \in Cs(c) : c.cst[j] = "started" \/ (c.creg[j] \in {"yes", "mixed"} /\ c.cst[j] = "idle")
NothingRegistered(c) == NoRunners(c) /\ \A j \in Cs(c) : c.creg[j] # "yes"
CauseNow(c, now) == c.cause \/ (c.pdl >= 0 /\ now >= c.pdl)

Range(s) == {s[k] : k \in DOMAIN s}
Count(s, x) == Cardinality({k \in DOMAIN s : s[k] = x})
(* the reported bag is the bag of errors that must be reported, give or take *)
(* the ids on which the statement is silent                                  *)
BagOK(c, errs) ==
  \A x \in Range(errs) \cup Range(c.must) \cup Range(c.may) :
     /\ Count(c.must, x) <= Count(errs, x)
     /\ Count(errs, x) <= Count(c.must, x) + Count(c.may, x)

(* evidence that the first Run was accepted *)
Accepted(c) ==
  IF c.phase = "starting" THEN [c EXCEPT !.phase = "running"]
  ELSE IF c.phase = "race" THEN [c EXCEPT !.phase = "running", !.cause = TRUE]
  ELSE c

----------------------------------------------------------------------------
(* additions are rejected once the manager's single life is used up, by Run  *)
(* or by Close; an Add that returned nil registers the runner: Run has to     *)
(* start it and wait for it                                                   *)
CAddRunner(c, e) ==
  IF e.ok /\ c.phase \in {"running", "finished"} THEN Bad("Add was accepted after Run had started")
  ELSE IF e.ok /\ c.phase = "neverran" THEN Bad("Add was accepted after Close on a manager that never ran")
  ELSE IF e.ok THEN [c EXCEPT !.rreg[e.i] = TRUE]      \* new, or Run / Close called but not settled yet
  ELSE c

CRunStarted(c) ==
  IF c.phase \in {"neverran", "finished"} THEN Bad("Run was accepted by a manager that had already run or been closed")
  ELSE IF c.phase = "new" THEN Bad("harness: Run started without a call")
  ELSE Accepted(c)

CAddCloserCall(c, e) ==
  IF c.creg[e.j] # "no" THEN Bad("harness: closer id reused") ELSE [c EXCEPT !.creg[e.j] = "pending"]

(* a closer whose AddCloser returned nil is registered; after an error the   *)
(* statement does not say whether it is (AddCloser(ok, unsupported) keeps ok) *)
CAddCloserRet(c, e) ==
  IF c.creg[e.j] # "pending" THEN Bad("harness: AddCloser return without call")
  ELSE [c EXCEPT !.creg[e.j] = IF e.ok THEN "yes" ELSE "maybe"]

(* AddCloser(good, unsupported) reports the unsupported value; the statement does not say what becomes of the good *)
(* closer (closer.go keeps it): it counts as possibly registered - it may be invoked, and while it has not finished *)
(* it is a closer that can outlast the grace period                                                                 *)
CAddCloserRetMix(c, e) ==
  IF c.creg[e.j] # "pending" THEN Bad("harness: AddCloser return without call")
  ELSE [c EXCEPT !.creg[e.j] = IF e.ok THEN "yes" ELSE "mixed"]

CAddCloserBad(c, e) ==
  IF e.ok THEN Bad("AddCloser accepted a value of an unsupported type") ELSE c

(* Run calls may be issued concurrently: exactly one of them may be accepted (it need not be the one announced   *)
(* first); every other one is rejected, which is legitimate only when another Run (pending or accepted) or a Close *)
(* used up the manager's single life                                                                               *)
CRunCall(c, e) ==
  IF c.runs[e.id] # "idle" THEN Bad("harness: Run id reused")
  ELSE LET c1 == [c EXCEPT !.runs[e.id] = "called"] IN
  IF c.phase = "new" THEN [c1 EXCEPT !.phase = "starting", !.t0 = IF NoRunners(c) THEN e.now ELSE -1]
  ELSE IF c.phase = "preclose" THEN [c1 EXCEPT !.phase = "race", !.t0 = IF NoRunners(c) THEN e.now ELSE -1]
  ELSE c1                                   \* a further Run (or one on a closed manager): has to be rejected

OtherRun(c, id) == c.accepted # 0 \/ \E k \in DOMAIN c.runs : k # id /\ c.runs[k] = "called"

CRunReturn(c, e) ==
  IF c.runs[e.id] # "called" THEN Bad("harness: return of a Run that was not called")
  ELSE LET c1 == [c EXCEPT !.runs[e.id] = "returned"] IN
  IF e.rejected THEN
    (IF c.phase = "neverran" \/ OtherRun(c, e.id) THEN c1
     ELSE IF c.phase = "race" THEN [c1 EXCEPT !.phase = "neverran"]      \* Close won
     ELSE Bad("the first Run was rejected"))
  ELSE IF c.accepted # 0 THEN Bad("a second Run was accepted")
  ELSE IF c.phase = "neverran" THEN Bad("Run was accepted after Close on a manager that never ran")
  ELSE IF c.phase \notin {"starting", "race", "running"} THEN Bad("harness: Run returned in an impossible phase")
  ELSE LET c2 == Accepted(c1) IN
    IF ~AllStarted(c2) THEN Bad("Run returned although a registered runner was never started")
    ELSE IF ~AllRet(c2) THEN Bad("Run returned while a runner is still running")
    ELSE IF ~ClosersInvoked(c2) THEN Bad("Run returned although a registered closer was never invoked")
    ELSE IF ~ClosersDone(c2) THEN Bad("Run returned before every registered closer finished")
    ELSE IF ~BagOK(c2, e.errs) THEN Bad("Run did not report exactly the non-nil non-Canceled runner errors and the closer errors")
    ELSE [c2 EXCEPT !.phase = "finished", !.accepted = e.id]

CCloseCall(c, e) ==
  IF c.kind # "rcm" THEN Bad("harness: Close on a plain RunnerManager")
  ELSE IF c.closes[e.id] # "idle" THEN Bad("harness: Close id reused")
  ELSE LET c1 == [c EXCEPT !.closes[e.id] = "called"] IN
  CASE c.phase = "new"      -> [c1 EXCEPT !.phase = "preclose"]
    [] c.phase = "starting" -> [c1 EXCEPT !.phase = "race"]
    [] c.phase = "running"  -> [c1 EXCEPT !.cause = TRUE]
    [] OTHER                -> c1

CCloseReturn(c, e) ==
  IF c.closes[e.id] # "called" THEN Bad("harness: return of a Close that was not called")
  ELSE LET c1 == [c EXCEPT !.closes[e.id] = "returned"]
           never == IF e.errs # <<>> THEN Bad("Close on a manager that never ran returned errors")
                    ELSE [c1 EXCEPT !.phase = "neverran"]
       IN
  CASE c.phase \in {"preclose", "neverran"} -> never
    [] c.phase = "race" ->
         IF NothingRegistered(c)
           THEN (IF e.errs # <<>> THEN Bad("Close returned errors nobody produced") ELSE c1)
           ELSE never      \* nothing ran so far, so this Close can only have won against Run
    [] c.phase \in {"running", "finished"} ->
         IF ~AllRet(c) THEN Bad("Close returned while a runner is still running")
         ELSE IF ~ClosersInvoked(c) THEN Bad("Close returned although a registered closer was never invoked")
         ELSE IF ~ClosersDone(c) THEN Bad("Close returned before every registered closer finished")
         ELSE IF ~BagOK(c, e.errs) THEN Bad("Close did not return the joined runner and closer errors")
         ELSE c1
    [] OTHER -> Bad("harness: Close return in an impossible phase")

CParentCancel(c) == [c EXCEPT !.cause = TRUE]

CRunnerStart(c0, e) ==
  IF c0.phase \notin {"starting", "race", "running"} THEN Bad("a runner was started by a manager that is not running")
  ELSE LET c == Accepted(c0) IN
  IF ~c.rreg[e.i] THEN Bad("a runner that was not registered was started")
  ELSE IF c.rst[e.i] # "idle" THEN Bad("a runner was started twice")
  ELSE [c EXCEPT !.rst[e.i] = "started"]

CSeesCancel(c, e) ==
  IF c.rst[e.i] # "started" THEN Bad("harness: cancellation seen by a runner that is not running")
  ELSE IF ~CauseNow(c, e.now)
    THEN Bad("a runner's context was cancelled although no runner returned, Close was not called and the parent context is live")
  ELSE [c EXCEPT !.rst[e.i] = "cancelled"]

CRunnerReturn(c, e) ==
  IF c.rst[e.i] \notin {"started", "cancelled"} THEN Bad("harness: return of a runner that is not running")
  ELSE LET c1 == [c EXCEPT !.rst[e.i] = "returned", !.cause = TRUE,
                           !.must = IF e.class \in {"err", "deadline"} THEN Append(@, e.id) ELSE @,
                           !.may = IF e.class = "wcanceled" THEN Append(@, e.id) ELSE @]
       IN IF AllRet(c1) THEN [c1 EXCEPT !.t0 = e.now] ELSE c1

CCloserStart(c0, e) ==
  IF c0.kind # "rcm" THEN Bad("harness: closer on a plain RunnerManager")
  ELSE IF c0.phase \notin {"starting", "race", "running", "finished"} THEN Bad("a closer was invoked by a manager that never ran")
  ELSE LET c == Accepted(c0) IN
  IF c.creg[e.j] = "no" THEN Bad("a closer that was not registered was invoked")
  ELSE IF c.cst[e.j] # "idle" THEN Bad("a closer was invoked twice")
  ELSE IF ~AllStarted(c) \/ ~AllRet(c) THEN Bad("a closer was invoked before all runners returned")
  ELSE [c EXCEPT !.cst[e.j] = "started"]

CCloserReturn(c, e) ==
  IF c.cst[e.j] # "started" THEN Bad("harness: return of a closer that is not running")
  ELSE [c EXCEPT !.cst[e.j] = "returned",
                 \* the Canceled filter is stated for runners only: whatever a closer returns is reported
                 !.must = IF e.class # "nil" THEN Append(@, e.id) ELSE @,
                 !.late = @ \/ (c.G >= 0 /\ c.t0 >= 0 /\ e.now > c.t0 + c.G),
                 !.tie = @ \/ (c.G >= 0 /\ c.t0 >= 0 /\ e.now = c.t0 + c.G)]

(* fatal iff the closers outlast the grace period; a closer finishing at the *)
(* very instant the grace period ends may go either way                      *)
CFatal(c0, e) ==
  LET c == Accepted(c0) IN
  IF c.kind # "rcm" \/ c.G < 0 THEN Bad("the fatal-shutdown action ran although no grace period is set")
  ELSE IF c.fatal THEN Bad("the fatal-shutdown action ran twice")
  ELSE IF c.phase # "running" THEN Bad("the fatal-shutdown action ran outside the shutdown of a running manager")
  ELSE IF c.t0 < 0 \/ ~AllRet(c) THEN Bad("the fatal-shutdown action ran while runners are still running")
  ELSE IF e.now < c.t0 + c.G THEN Bad("the fatal-shutdown action ran before the grace period elapsed")
  ELSE IF ~(Unfinished(c) \/ c.late \/ c.tie) THEN Bad("the fatal-shutdown action ran although no closer outlasted the grace period")
  ELSE [c EXCEPT !.fatal = TRUE]

PendingRun(c) == \E k \in DOMAIN c.runs : c.runs[k] = "called"
PendingSecondRun(c) == Cardinality({k \in DOMAIN c.runs : c.runs[k] = "called"}) >= 2
PendingClose(c) == \E k \in DOMAIN c.closes : c.closes[k] = "called"

(* at quiescence everything the manager owes has to have happened *)
CQuiesce(c0, e) ==
  IF c0.phase = "race" THEN Bad("Run racing with Close neither ran nor was rejected")
  ELSE LET c == IF c0.phase = "starting" THEN [c0 EXCEPT !.phase = "running"]
                ELSE IF c0.phase = "preclose" THEN [c0 EXCEPT !.phase = "neverran"] ELSE c0
           late2 == c.late \/ (c.G >= 0 /\ c.t0 >= 0 /\ e.now > c.t0 + c.G /\ Outstanding(c))
       IN
  CASE c.phase = "new" -> c
    [] c.phase = "neverran" ->
         IF PendingClose(c) THEN Bad("Close on a manager that never ran did not return at once")
         ELSE IF PendingRun(c) THEN Bad("Run after Close on a manager that never ran did not return")
         ELSE c
    [] c.phase = "running" ->
         IF ~AllStarted(c) THEN Bad("a registered runner was not started")
         ELSE IF PendingSecondRun(c) THEN Bad("a second Run did not return at once")
         ELSE IF CauseNow(c, e.now) /\ \E i \in Rs(c) : c.rst[i] = "started"
           THEN Bad("a runner returned or Close was called or the parent context ended but a running runner was not cancelled")
         ELSE IF AllRet(c) /\ ~ClosersInvoked(c) THEN Bad("all runners returned but a registered closer was not invoked")
         ELSE IF late2 /\ ~c.fatal THEN Bad("the closers outlasted the grace period but the fatal-shutdown action did not run")
         ELSE IF AllRet(c) /\ ClosersDone(c) /\ ~Outstanding(c) THEN Bad("all runners and closers finished but Run did not return")
         ELSE [c EXCEPT !.late = late2]
    [] c.phase = "finished" ->
         IF ~ClosersInvoked(c) THEN Bad("a closer accepted by AddCloser was never invoked")
         ELSE IF PendingClose(c) THEN Bad("Close did not return although the manager finished")
         ELSE IF PendingRun(c) THEN Bad("a second Run did not return at once")
         ELSE IF c.late /\ ~c.fatal THEN Bad("the closers outlasted the grace period but the fatal-shutdown action did not run")
         ELSE c

CNext(c, e) ==
  IF e.ev = "reset" THEN CReset(e)
  ELSE IF IsBad(c) THEN c
  ELSE CASE e.ev = "addrunner"      -> CAddRunner(c, e)
         [] e.ev = "addcloser.call" -> CAddCloserCall(c, e)
         [] e.ev = "addcloser.ret"  -> CAddCloserRet(c, e)
         [] e.ev = "addcloser.retmix" -> CAddCloserRetMix(c, e)
         [] e.ev = "addcloser.bad"  -> CAddCloserBad(c, e)
         [] e.ev = "runcall"        -> CRunCall(c, e)
         [] e.ev = "runstarted"     -> CRunStarted(c)
         [] e.ev = "runreturn"      -> CRunReturn(c, e)
         [] e.ev = "closecall"      -> CCloseCall(c, e)
         [] e.ev = "closereturn"    -> CCloseReturn(c, e)
         [] e.ev = "parentcancel"   -> CParentCancel(c)
         [] e.ev = "runnerstart"    -> CRunnerStart(c, e)
         [] e.ev = "seescancel"     -> CSeesCancel(c, e)
         [] e.ev = "runnerreturn"   -> CRunnerReturn(c, e)
         [] e.ev = "closerstart"    -> CCloserStart(c, e)
         [] e.ev = "closerreturn"   -> CCloserReturn(c, e)
         [] e.ev = "fatal"          -> CFatal(c, e)
         [] e.ev = "panic"          -> Bad("a manager method panicked")
         [] e.ev = "q"              -> CQuiesce(c, e)
=============================================================================
