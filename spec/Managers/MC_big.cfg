SPECIFICATION Spec
CONSTANTS Kinds = {"rm", "rcm"} MaxR = 3 MaxC = 2 MaxLate = 1 MaxClose = 2 GraceSet = {2} MaxT = 3
  RClasses = {"nil", "err", "canceled"} CClasses = {"nil", "err"}
  AtomicAddCloser = TRUE GraceRecheck = TRUE ReleaseBeforeStart = TRUE Monitor = TRUE Defect = "none"
INVARIANTS NotBad ClosersAfterRunners StoppedLast
CHECK_DEADLOCK FALSE
