SPECIFICATION TSpec
CONSTANTS Kinds = {"rm", "rcm"} MaxR = 0 MaxC = 0 MaxLate = 0 MaxClose = 0 GraceSet = {} MaxT = 0
  RClasses = {} CClasses = {}
  AtomicAddCloser = TRUE GraceRecheck = TRUE ReleaseBeforeStart = TRUE Monitor = FALSE Defect = "none"
CONSTRAINT Done
INVARIANTS ClosersAfterRunners
CHECK_DEADLOCK FALSE
