SPECIFICATION Spec
CONSTANTS Kinds = {"rm", "rcm"} MaxR = 2 MaxC = 1 MaxLate = 1 MaxClose = 1 GraceSet = {2} MaxT = 3
  RClasses = {"nil", "err", "canceled"} CClasses = {"nil", "err"}
  AtomicAddCloser = FALSE GraceRecheck = TRUE ReleaseBeforeStart = TRUE Monitor = TRUE Defect = "none"
INVARIANTS NotBad
CHECK_DEADLOCK FALSE
