------------------------------ MODULE TraceMgr ------------------------------
(* Validates recorded executions of the real RunnerManager and               *)
(* RunnerCloserManager against the C12 contract monitor.  trace.ndjson holds *)
(* many runs, each starting with a "reset" line; every run is checked as its *)
(* own behaviour (one initial state per run).  The monitor is deterministic; *)
(* a rejected run is reported through the RejectLine idiom.                  *)
EXTENDS MgrContract, TraceLib

Trace == LoadTrace("trace.ndjson")
Starts == {i \in 1..Len(Trace) : Trace[i].ev = "reset"}
VARIABLES l, c
TInit == l \in Starts /\ c = CReset(Trace[l])
TNext == /\ ~IsBad(c)
         /\ l + 1 <= Len(Trace)
         /\ Trace[l + 1].ev # "reset"
         /\ c' = CNext(c, Trace[l + 1])
         /\ l' = l + 1
TSpec == TInit /\ [][TNext]_<<l, c>>
Report == IF IsBad(c) THEN RejectLine(l, c.why) ELSE TRUE
=============================================================================
