----------------------------- MODULE CloserMgr -----------------------------
(* Implementation-shaped model of concurrency/runner.go (RunnerManager) and  *)
(* concurrency/closer.go (RunnerCloserManager): the flags running / closing /*)
(* closed, the channels closeCh / stopped / closeFatalShutdown, the result   *)
(* channel, the mngr lock, the grace-period closer with its timer and the    *)
(* inner RunnerManager with the hidden runner that waits on closeCh.         *)
(* The environment (harness) releases runners and closers in any order with  *)
(* any result, calls Close / Run / AddCloser / Add at any moment, cancels    *)
(* the parent context and lets time pass (only at quiescence, as under       *)
(* testing/synctest).  Every visible step feeds the MgrContract monitor; the *)
(* invariant is that the monitor never goes bad.                             *)
EXTENDS MgrContract, TLC

CONSTANTS Kinds,            \* subset of {"rm", "rcm"}
          MaxR, MaxC,       \* 0..MaxR runners, 0..MaxC closers registered before Run
          MaxLate,          \* AddCloser calls made at any later moment
          MaxClose,         \* Close calls
          GraceSet, MaxT,   \* configured grace periods to explore (ticks; 0 is a legal configuration) and horizon
          RClasses, CClasses,  \* results a runner / closer may return
          AtomicAddCloser,  \* TRUE: AddCloser as repaired (closing checked before AND again under the lock);
                            \* FALSE: as first written (checked only before taking the lock)
          GraceRecheck,     \* TRUE: the grace closer as repaired (after its timer fired it looks at closeFatalShutdown
                            \* first and returns when that is closed); FALSE: as found (timer and channel raced)
          ReleaseBeforeStart, \* TRUE: Run as repaired (with exactly one closer - the grace closer alone, or a single user
                            \* closer - closeFatalShutdown is closed BEFORE the closer goroutines are started); FALSE: as found
                            \* (closed only in the collection loop, i.e. after the goroutines were started)
          Monitor,          \* TRUE: every visible step feeds the contract monitor c (exhaustive checking);
                            \* FALSE: c is left alone (trace validation of this model against the code)
          Defect            \* "none" | "errsEarly" | "releaseLate" | "filterCtxErr" | "closersEarly" | "noWaitClose"
                            \* | "addNoOuterCheck" (RunnerCloserManager.Add without its own running check)
                            \* | "skipIfCtxDone" (RunnerManager.Run returns nil at once when its context has already ended)
                            \* | "closeNonAtomic" (Close looks at closeCh and closes it in two steps instead of the closed CAS)
                            \* | "noFatalIfNonPositive" (a configured grace period <= 0 does not install the fatal action)
                            \* | "filterCloserCanceled" (closer errors that are / wrap Canceled are dropped like runner errors)
                            \* | "runCheckThenSet" (RunnerManager.Run reads the running flag and sets it in two steps)

VARIABLES kind, nr, nc, grace,                  \* configuration (grace: configured period in ticks, -1: none)
          now,
          running, closing, closeCh, stopped, closeFS, lockRun,  \* closer.go:54-59 (closed is subsumed by closeCh)
          pcan, ctx,                            \* parent context cancelled; inner manager's context cancelled
          mrunning, rl, apr,                    \* inner manager: running flag, runners slice (ids); Add in flight: 0 | id that passed the checks
          rpc, hpc, icnt, ierrs,                \* runner goroutines, hidden closeCh runner, results collected (runner.go:87-94)
          opc, runid, nearly, nloop,            \* Run: idle | inner | lockwait | collect | done
          regs,                                 \* c.closers (ids of user closers, in order)
          cpc, cres, gpc, garm, ccnt, cerrs,    \* closer goroutines, grace closer, collection loop (closer.go:180-194)
          retErr,
          apc, kpc, nrun,                       \* AddCloser calls, Close calls, Run calls
          rpass,                                \* defect "runCheckThenSet": Run calls that read running = FALSE and did not set it yet
          c
vars == <<kind, nr, nc, grace, now, running, closing, closeCh, stopped, closeFS, lockRun, pcan, ctx, mrunning, rl, apr,
          rpc, hpc, icnt, ierrs, opc, runid, nearly, nloop, regs, cpc, cres, gpc, garm, ccnt, cerrs,
          retErr, apc, kpc, nrun, rpass, c>>

RECURSIVE FeedAll(_, _)
FeedAll(cc, evs) == IF evs = <<>> THEN cc ELSE FeedAll(CNext(cc, Head(evs)), Tail(evs))
Feed(cc, evs) == IF Monitor THEN FeedAll(cc, evs) ELSE cc

RId == <<"r1", "r2", "r3", "r4", "r5">>
DId == <<"d1", "d2", "d3", "d4", "d5">>
WId == <<"w1", "w2", "w3", "w4", "w5">>
KId == <<"k1", "k2", "k3", "k4", "k5", "k6">>
KCId == <<"kc1", "kc2", "kc3", "kc4", "kc5", "kc6">>

Hidden == hpc # "none"                           \* closer.go:161-170: decided when the inner manager is started
NInner == Len(rl) + (IF Hidden THEN 1 ELSE 0)    \* runner.go: len(r.runners), re-read by the collection loop
Extra == nr + 1                                  \* the runner offered to Add after Run / Close
Installed == grace >= 0 /\ ~(Defect = "noFatalIfNonPositive" /\ grace <= 0)   \* closer.go:74-94
GraceN == IF Installed THEN 1 ELSE 0
LateIds == DOMAIN apc                            \* closers offered through AddCloser calls of the behaviour
E(name) == [ev |-> name, now |-> now]

Init ==
  /\ kind \in Kinds
  /\ nr \in 0..MaxR
  /\ nc \in (IF kind = "rcm" THEN 0..MaxC ELSE {0})
  /\ grace \in (IF kind = "rcm" THEN {-1} \cup GraceSet ELSE {-1})
  /\ now = 0
  /\ running = FALSE /\ closing = FALSE /\ closeCh = FALSE /\ stopped = FALSE /\ closeFS = FALSE /\ lockRun = FALSE
  /\ pcan = FALSE /\ ctx = FALSE
  /\ mrunning = FALSE /\ rl = [i \in 1..nr |-> i] /\ apr = 0
  /\ rpc = [i \in 1..(nr + 1) |-> "idle"] /\ hpc = "none" /\ icnt = 0 /\ ierrs = <<>>
  /\ opc = "idle" /\ runid = 0 /\ nearly = 0 /\ nloop = 0
  /\ regs = [j \in 1..nc |-> j]
  /\ cpc = [j \in 1..(nc + MaxLate) |-> "idle"] /\ cres = [j \in 1..(nc + MaxLate) |-> ""]
  /\ gpc = "none" /\ garm = 0 /\ ccnt = 0 /\ cerrs = <<>>
  /\ retErr = <<>>
  /\ apc = [j \in (nc + 1)..(nc + MaxLate) |-> "idle"]
  /\ kpc = [k \in 1..MaxClose |-> "idle"]
  /\ nrun = 0 /\ rpass = 0
  /\ c = Feed(CReset([kind |-> kind, G |-> grace, pdl |-> -1,
                      nr |-> nr + 1, nc |-> nc + MaxLate, r0 |-> nr, nruns |-> 2, ncl |-> MaxClose]),
              [x \in 1..(2 * nc) |-> IF x % 2 = 1 THEN [ev |-> "addcloser.call", j |-> (x + 1) \div 2, now |-> 0]
                                                   ELSE [ev |-> "addcloser.ret", j |-> x \div 2, ok |-> TRUE, now |-> 0]])

----------------------------------------------------------------------------
(* Run - runner.go:58-62 / closer.go:152-156: the running CAS.  The plain manager goes on to start its runners in  *)
(* the same step; the closer manager first prepares (InnerStart below), and its inner manager's flag is still clear *)
StartRunners ==
  /\ mrunning' = TRUE
  /\ rpc' = [i \in DOMAIN rpc |-> IF \E x \in DOMAIN rl : rl[x] = i THEN "spawned" ELSE rpc[i]]
  /\ ctx' = pcan
(* the context given to Run may have ended before Run is called (ParentCancel is possible in any state): the runners *)
(* are started all the same.  Defect "skipIfCtxDone": the inner manager returns nil at once instead.                  *)
SkipNow == Defect = "skipIfCtxDone" /\ pcan
RunCall ==
  /\ nrun < 2
  /\ nrun' = nrun + 1
  /\ IF Defect = "runCheckThenSet" /\ kind = "rm" /\ ~running THEN
       /\ rpass' = rpass + 1                     \* read the flag; the store and everything else follow in RunStore
       /\ c' = Feed(c, <<E("runcall") @@ [id |-> nrun + 1]>>)
       /\ UNCHANGED <<running, opc, runid, rpc, hpc, ctx, nearly, mrunning>>
     ELSE IF ~running THEN
       /\ rpass' = rpass
       /\ running' = TRUE /\ runid' = nrun + 1
       /\ nearly' = Len(regs) + GraceN
       /\ c' = Feed(c, <<E("runcall") @@ [id |-> nrun + 1], E("runstarted")>>)
       /\ IF kind = "rm" /\ SkipNow THEN opc' = "innerskip" /\ mrunning' = TRUE /\ UNCHANGED <<rpc, ctx, hpc>>
          ELSE IF kind = "rm" THEN opc' = "inner" /\ StartRunners /\ hpc' = hpc
                         ELSE opc' = "spawn" /\ UNCHANGED <<mrunning, rpc, ctx, hpc>>
     ELSE
       /\ rpass' = rpass
       /\ c' = Feed(c, <<E("runcall") @@ [id |-> nrun + 1],
                         E("runreturn") @@ [id |-> nrun + 1, rejected |-> TRUE, errs |-> <<>>]>>)
       /\ UNCHANGED <<running, opc, runid, rpc, hpc, ctx, nearly, mrunning>>
  /\ UNCHANGED <<kind, nr, nc, grace, rl, apr, now, closing, closeCh, stopped, closeFS, lockRun, pcan, icnt, ierrs, nloop, regs,
                 cpc, cres, gpc, garm, ccnt, cerrs, retErr, apc, kpc>>

(* defect "runCheckThenSet" only: a Run that found the flag clear sets it and starts the runners - again, if another *)
(* Run got in between                                                                                               *)
RunStore ==
  /\ rpass > 0 /\ rpass' = rpass - 1
  /\ running' = TRUE /\ runid' = nrun /\ opc' = "inner" /\ hpc' = hpc /\ icnt' = 0
  /\ mrunning' = TRUE /\ ctx' = pcan
  /\ rpc' = [i \in DOMAIN rpc |-> IF \E x \in DOMAIN rl : rl[x] = i THEN "spawned" ELSE rpc[i]]
  /\ c' = Feed(c, <<E("runstarted")>>)
  /\ UNCHANGED <<kind, nr, nc, grace, rl, apr, now, closing, closeCh, stopped, closeFS, lockRun, pcan, ierrs, nearly, nloop, regs,
                 cpc, cres, gpc, garm, ccnt, cerrs, retErr, apc, kpc, nrun>>

(* closer.go:161-176: add the runner that waits on closeCh when there is at least one runner, then the spawned      *)
(* goroutine wins the inner manager's CAS (runner.go:59) and starts the runners that are in the slice now            *)
InnerStart ==
  /\ kind = "rcm" /\ opc = "spawn"
  /\ IF SkipNow THEN opc' = "innerskip" /\ mrunning' = TRUE /\ hpc' = "none" /\ UNCHANGED <<rpc, ctx>>
     ELSE /\ opc' = "inner" /\ StartRunners
          /\ hpc' = IF Len(rl) > 0 THEN "run" ELSE "none"
  /\ UNCHANGED <<rpass, kind, nr, nc, grace, rl, apr, now, running, closing, closeCh, stopped, closeFS, lockRun, pcan, icnt, ierrs,
                 runid, nearly, nloop, regs, cpc, cres, gpc, garm, ccnt, cerrs, retErr, apc, kpc, nrun, c>>

RunnerBegin(i) ==
  /\ rpc[i] = "spawned"
  /\ rpc' = [rpc EXCEPT ![i] = "run"]
  /\ c' = Feed(c, <<E("runnerstart") @@ [i |-> i]>>)
  /\ UNCHANGED <<rpass, kind, nr, nc, grace, mrunning, rl, apr, now, running, closing, closeCh, stopped, closeFS, lockRun, pcan, ctx, hpc, icnt, ierrs,
                 opc, runid, nearly, nloop, regs, cpc, cres, gpc, garm, ccnt, cerrs, retErr, apc, kpc, nrun>>

SeesCancel(i) ==
  /\ rpc[i] = "run" /\ ctx
  /\ rpc' = [rpc EXCEPT ![i] = "seen"]
  /\ c' = Feed(c, <<E("seescancel") @@ [i |-> i]>>)
  /\ UNCHANGED <<rpass, kind, nr, nc, grace, mrunning, rl, apr, now, running, closing, closeCh, stopped, closeFS, lockRun, pcan, ctx, hpc, icnt, ierrs,
                 opc, runid, nearly, nloop, regs, cpc, cres, gpc, garm, ccnt, cerrs, retErr, apc, kpc, nrun>>

(* the harness lets runner i return cl; runner.go:72-83: the result is filtered, sent, and the context cancelled *)
Reported(cl) == cl \in {"err", "deadline"} \/ (Defect = "filterCtxErr" /\ ~ctx /\ cl \in {"canceled", "wcanceled"})
RErrId(i, cl) == CASE cl = "err" -> RId[i] [] cl = "deadline" -> DId[i] [] cl = "wcanceled" -> WId[i]
                   [] cl = "canceled" -> "canceled" [] OTHER -> ""
ReleaseId(i, cl, id) ==
  /\ rpc[i] \in {"run", "seen"}
  /\ rpc' = [rpc EXCEPT ![i] = "done"]
  /\ icnt' = icnt + 1
  /\ ierrs' = IF Reported(cl) THEN Append(ierrs, id) ELSE ierrs
  /\ ctx' = TRUE
  /\ c' = Feed(c, <<E("runnerreturn") @@ [i |-> i, class |-> cl, id |-> IF cl = "canceled" THEN "" ELSE id]>>)
  /\ UNCHANGED <<rpass, kind, nr, nc, grace, mrunning, rl, apr, now, running, closing, closeCh, stopped, closeFS, lockRun, pcan, hpc,
                 opc, runid, nearly, nloop, regs, cpc, cres, gpc, garm, ccnt, cerrs, retErr, apc, kpc, nrun>>
Release(i, cl) == ReleaseId(i, cl, RErrId(i, cl))

(* closer.go:157-163 *)
HiddenRet ==
  /\ hpc = "run" /\ (ctx \/ closeCh)
  /\ hpc' = "done" /\ icnt' = icnt + 1 /\ ctx' = TRUE
  /\ UNCHANGED <<rpass, kind, nr, nc, grace, mrunning, rl, apr, now, running, closing, closeCh, stopped, closeFS, lockRun, pcan, rpc, ierrs,
                 opc, runid, nearly, nloop, regs, cpc, cres, gpc, garm, ccnt, cerrs, retErr, apc, kpc, nrun, c>>

(* runner.go:96 returned; plain manager: that is Run's result *)
InnerDoneRM ==
  /\ kind = "rm" /\ ((opc = "inner" /\ icnt = NInner) \/ opc = "innerskip")
  /\ opc' = "done"
  /\ c' = Feed(c, <<E("runreturn") @@ [id |-> runid, rejected |-> FALSE, errs |-> ierrs]>>)
  /\ UNCHANGED <<rpass, kind, nr, nc, grace, mrunning, rl, apr, now, running, closing, closeCh, stopped, closeFS, lockRun, pcan, ctx, rpc, hpc, icnt, ierrs,
                 runid, nearly, nloop, regs, cpc, cres, gpc, garm, ccnt, cerrs, retErr, apc, kpc, nrun>>

InnerReady == IF Defect = "closersEarly" THEN icnt >= 1 \/ NInner = 0 ELSE icnt = NInner

(* closer.go:171-184: take the lock, set closing, start every closer *)
StartClosing ==
  /\ kind = "rcm" /\ ((opc = "inner" /\ InnerReady) \/ opc = "innerskip")
  /\ opc' = "collect" /\ lockRun' = TRUE /\ closing' = TRUE
  /\ nloop' = IF Defect = "errsEarly" THEN nearly ELSE Len(regs) + GraceN
  /\ cpc' = [j \in DOMAIN cpc |-> IF \E x \in DOMAIN regs : regs[x] = j THEN "spawned" ELSE cpc[j]]
  /\ gpc' = IF Installed THEN "spawned" ELSE "none"
  /\ closeFS' = (closeFS \/ (ReleaseBeforeStart /\ nloop' = 1))     \* closer.go: if len(c.closers) == 1 { close(...) }
  /\ UNCHANGED <<rpass, kind, nr, nc, grace, mrunning, rl, apr, now, running, closeCh, stopped, pcan, ctx, rpc, hpc, icnt, ierrs,
                 runid, nearly, regs, cres, garm, ccnt, cerrs, retErr, apc, kpc, nrun, c>>

CloserBegin(j) ==
  /\ cpc[j] = "spawned"
  /\ cpc' = [cpc EXCEPT ![j] = "run"]
  /\ c' = Feed(c, <<E("closerstart") @@ [j |-> j]>>)
  /\ UNCHANGED <<rpass, kind, nr, nc, grace, mrunning, rl, apr, now, running, closing, closeCh, stopped, closeFS, lockRun, pcan, ctx, rpc, hpc, icnt, ierrs,
                 opc, runid, nearly, nloop, regs, cres, gpc, garm, ccnt, cerrs, retErr, apc, kpc, nrun>>

CErrId(j, cl) == CASE cl = "err" -> KId[j] [] cl = "kcanceled" -> KCId[j] [] cl = "kraw" -> "canceled" [] OTHER -> ""
CloserReleaseId(j, cl, id) ==
  /\ cpc[j] = "run"
  /\ cpc' = [cpc EXCEPT ![j] = "sent"]
  /\ cres' = [cres EXCEPT ![j] = IF Defect = "filterCloserCanceled" /\ cl \in {"kcanceled", "kfmt", "kraw"} THEN "" ELSE id]
  /\ c' = Feed(c, <<E("closerreturn") @@ [j |-> j, class |-> cl, id |-> id]>>)
  /\ UNCHANGED <<rpass, kind, nr, nc, grace, mrunning, rl, apr, now, running, closing, closeCh, stopped, closeFS, lockRun, pcan, ctx, rpc, hpc, icnt, ierrs,
                 opc, runid, nearly, nloop, regs, gpc, garm, ccnt, cerrs, retErr, apc, kpc, nrun>>
CloserRelease(j, cl) == CloserReleaseId(j, cl, CErrId(j, cl))

(* the grace-period closer - closer.go:83-94 *)
GraceBegin ==
  /\ gpc = "spawned" /\ gpc' = "timing" /\ garm' = now
  /\ UNCHANGED <<rpass, kind, nr, nc, grace, mrunning, rl, apr, now, running, closing, closeCh, stopped, closeFS, lockRun, pcan, ctx, rpc, hpc, icnt, ierrs,
                 opc, runid, nearly, nloop, regs, cpc, cres, ccnt, cerrs, retErr, apc, kpc, nrun, c>>
GraceFire ==
  /\ gpc = "timing" /\ now >= garm + grace /\ (GraceRecheck => ~closeFS)
  /\ gpc' = "sent"
  /\ c' = Feed(c, <<E("fatal")>>)
  /\ UNCHANGED <<rpass, kind, nr, nc, grace, mrunning, rl, apr, now, running, closing, closeCh, stopped, closeFS, lockRun, pcan, ctx, rpc, hpc, icnt, ierrs,
                 opc, runid, nearly, nloop, regs, cpc, cres, garm, ccnt, cerrs, retErr, apc, kpc, nrun>>
GraceRelease ==
  /\ gpc = "timing" /\ closeFS
  /\ gpc' = "sent"
  /\ UNCHANGED <<rpass, kind, nr, nc, grace, mrunning, rl, apr, now, running, closing, closeCh, stopped, closeFS, lockRun, pcan, ctx, rpc, hpc, icnt, ierrs,
                 opc, runid, nearly, nloop, regs, cpc, cres, garm, ccnt, cerrs, retErr, apc, kpc, nrun, c>>

(* the collection loop - closer.go:187-194 *)
NeedClose == opc = "collect" /\ ~closeFS /\ nloop >= 1 /\ ccnt = nloop - 1 /\ (Defect = "releaseLate" => ccnt >= 1)
CloseFSAct ==
  /\ NeedClose /\ closeFS' = TRUE
  /\ UNCHANGED <<rpass, kind, nr, nc, grace, mrunning, rl, apr, now, running, closing, closeCh, stopped, lockRun, pcan, ctx, rpc, hpc, icnt, ierrs,
                 opc, runid, nearly, nloop, regs, cpc, cres, gpc, garm, ccnt, cerrs, retErr, apc, kpc, nrun, c>>
Recv(j) ==
  /\ opc = "collect" /\ ccnt < nloop /\ ~NeedClose /\ cpc[j] = "sent"
  /\ cpc' = [cpc EXCEPT ![j] = "done"]
  /\ ccnt' = ccnt + 1
  /\ cerrs' = IF cres[j] # "" THEN Append(cerrs, cres[j]) ELSE cerrs
  /\ UNCHANGED <<rpass, kind, nr, nc, grace, mrunning, rl, apr, now, running, closing, closeCh, stopped, closeFS, lockRun, pcan, ctx, rpc, hpc, icnt, ierrs,
                 opc, runid, nearly, nloop, regs, cres, gpc, garm, retErr, apc, kpc, nrun, c>>
RecvGrace ==
  /\ opc = "collect" /\ ccnt < nloop /\ ~NeedClose /\ gpc = "sent"
  /\ gpc' = "done" /\ ccnt' = ccnt + 1
  /\ UNCHANGED <<rpass, kind, nr, nc, grace, mrunning, rl, apr, now, running, closing, closeCh, stopped, closeFS, lockRun, pcan, ctx, rpc, hpc, icnt, ierrs,
                 opc, runid, nearly, nloop, regs, cpc, cres, garm, cerrs, retErr, apc, kpc, nrun, c>>
(* closer.go: retErr is set, then the deferred unlock and close(stopped) run; only after that has Run returned to its *)
(* caller - an AddCloser waiting for the lock or a Close waiting on stopped may get ahead of that                      *)
Finish ==
  /\ opc = "collect" /\ ccnt = nloop
  /\ opc' = "ret" /\ retErr' = ierrs \o cerrs /\ lockRun' = FALSE /\ stopped' = TRUE
  /\ UNCHANGED <<rpass, kind, nr, nc, grace, mrunning, rl, apr, now, running, closing, closeCh, closeFS, pcan, ctx, rpc, hpc, icnt, ierrs,
                 runid, nearly, nloop, regs, cpc, cres, gpc, garm, ccnt, cerrs, apc, kpc, nrun, c>>
RunRet ==
  /\ opc = "ret" /\ opc' = "done"
  /\ c' = Feed(c, <<E("runreturn") @@ [id |-> runid, rejected |-> FALSE, errs |-> retErr]>>)
  /\ UNCHANGED <<rpass, kind, nr, nc, grace, mrunning, rl, apr, now, running, closing, closeCh, stopped, closeFS, lockRun, pcan, ctx, rpc, hpc, icnt, ierrs,
                 runid, nearly, nloop, regs, cpc, cres, gpc, garm, ccnt, cerrs, retErr, apc, kpc, nrun>>

(* AddCloser - closer.go: the closing flag is looked at before taking the lock (the verif point addcloser.afterCheck *)
(* sits right after that look) and, in the repaired code, once more under the lock                                  *)
AddCloserCall(j) ==
  /\ kind = "rcm" /\ apc[j] = "idle"
  /\ IF closing THEN
       /\ apc' = [apc EXCEPT ![j] = "done"]
       /\ c' = Feed(c, <<E("addcloser.call") @@ [j |-> j], E("addcloser.ret") @@ [j |-> j, ok |-> FALSE]>>)
     ELSE
       /\ apc' = [apc EXCEPT ![j] = "passed"]
       /\ c' = Feed(c, <<E("addcloser.call") @@ [j |-> j]>>)
  /\ UNCHANGED <<rpass, kind, nr, nc, grace, mrunning, rl, apr, now, running, closing, closeCh, stopped, closeFS, lockRun, pcan, ctx, rpc, hpc, icnt, ierrs,
                 opc, runid, nearly, nloop, regs, cpc, cres, gpc, garm, ccnt, cerrs, retErr, kpc, nrun>>
AddCloserFinish(j) ==
  /\ apc[j] = "passed" /\ ~lockRun
  /\ apc' = [apc EXCEPT ![j] = "done"]
  /\ IF AtomicAddCloser /\ closing
       THEN /\ c' = Feed(c, <<E("addcloser.ret") @@ [j |-> j, ok |-> FALSE]>>) /\ regs' = regs
       ELSE /\ c' = Feed(c, <<E("addcloser.ret") @@ [j |-> j, ok |-> TRUE]>>) /\ regs' = Append(regs, j)
  /\ UNCHANGED <<rpass, kind, nr, nc, grace, mrunning, rl, apr, now, running, closing, closeCh, stopped, closeFS, lockRun, pcan, ctx, rpc, hpc, icnt, ierrs,
                 opc, runid, nearly, nloop, cpc, cres, gpc, garm, ccnt, cerrs, retErr, kpc, nrun>>

(* Close - closer.go:202-212 *)
CloseCall(k) ==
  /\ kind = "rcm" /\ kpc[k] = "idle"
  /\ c' = Feed(c, <<E("closecall") @@ [id |-> k]>>)
  /\ IF Defect = "closeNonAtomic" /\ ~closeCh
       THEN /\ kpc' = [kpc EXCEPT ![k] = "sawopen"] /\ UNCHANGED <<closeCh, running, stopped>>
       ELSE /\ kpc' = [kpc EXCEPT ![k] = "wait"]
            /\ closeCh' = TRUE
            /\ running' = TRUE
            /\ stopped' = (stopped \/ ~running)
  /\ UNCHANGED <<rpass, kind, nr, nc, grace, mrunning, rl, apr, now, closing, closeFS, lockRun, pcan, ctx, rpc, hpc, icnt, ierrs,
                 opc, runid, nearly, nloop, regs, cpc, cres, gpc, garm, ccnt, cerrs, retErr, apc, nrun>>
(* defect "closeNonAtomic" only: the call found closeCh open and now closes it - a second close of a channel panics *)
CloseSecond(k) ==
  /\ kpc[k] = "sawopen"
  /\ IF closeCh
       THEN /\ kpc' = [kpc EXCEPT ![k] = "done"] /\ c' = Feed(c, <<E("panic") @@ [what |-> "close"]>>)
            /\ UNCHANGED <<closeCh, running, stopped>>
       ELSE /\ kpc' = [kpc EXCEPT ![k] = "wait"] /\ c' = c
            /\ closeCh' = TRUE /\ running' = TRUE /\ stopped' = (stopped \/ ~running)
  /\ UNCHANGED <<rpass, kind, nr, nc, grace, mrunning, rl, apr, now, closing, closeFS, lockRun, pcan, ctx, rpc, hpc, icnt, ierrs,
                 opc, runid, nearly, nloop, regs, cpc, cres, gpc, garm, ccnt, cerrs, retErr, apc, nrun>>
CloseRet(k) ==
  /\ kpc[k] = "wait" /\ (stopped \/ Defect = "noWaitClose")
  /\ kpc' = [kpc EXCEPT ![k] = "done"]
  /\ c' = Feed(c, <<E("closereturn") @@ [id |-> k, errs |-> retErr]>>)
  /\ UNCHANGED <<rpass, kind, nr, nc, grace, mrunning, rl, apr, now, running, closing, closeCh, stopped, closeFS, lockRun, pcan, ctx, rpc, hpc, icnt, ierrs,
                 opc, runid, nearly, nloop, regs, cpc, cres, gpc, garm, ccnt, cerrs, retErr, apc, nrun>>

(* Add - closer.go:100-106 then runner.go:45-53: the closer manager's own check, the inner manager's check, then    *)
(* the append under the lock.  A rejected call leaves the model state unchanged (the step only shows the event to   *)
(* the monitor).                                                                                                    *)
AddRunnerCall(i) ==
  /\ apr = 0 /\ rpc[i] = "idle" /\ \A x \in DOMAIN rl : rl[x] # i
  /\ IF (kind = "rcm" /\ Defect # "addNoOuterCheck" /\ running) \/ mrunning
       THEN /\ c' = Feed(c, <<E("addrunner") @@ [i |-> i, ok |-> FALSE]>>) /\ apr' = apr
       ELSE /\ apr' = i /\ c' = c
  /\ UNCHANGED <<rpass, kind, nr, nc, grace, mrunning, rl, now, running, closing, closeCh, stopped, closeFS, lockRun, pcan, ctx, rpc, hpc, icnt, ierrs,
                 opc, runid, nearly, nloop, regs, cpc, cres, gpc, garm, ccnt, cerrs, retErr, apc, kpc, nrun>>
AddRunnerFinish ==
  /\ apr # 0 /\ ~lockRun
  /\ apr' = 0 /\ rl' = Append(rl, apr)
  /\ c' = Feed(c, <<E("addrunner") @@ [i |-> apr, ok |-> TRUE]>>)
  /\ UNCHANGED <<rpass, kind, nr, nc, grace, mrunning, now, running, closing, closeCh, stopped, closeFS, lockRun, pcan, ctx, rpc, hpc, icnt, ierrs,
                 opc, runid, nearly, nloop, regs, cpc, cres, gpc, garm, ccnt, cerrs, retErr, apc, kpc, nrun>>

(* the context given to Run ends; the inner manager's context is derived from it once that manager runs *)
ParentCancel ==
  /\ ~pcan
  /\ pcan' = TRUE /\ ctx' = (ctx \/ mrunning)
  /\ c' = Feed(c, <<E("parentcancel")>>)
  /\ UNCHANGED <<rpass, kind, nr, nc, grace, mrunning, rl, apr, now, running, closing, closeCh, stopped, closeFS, lockRun, rpc, hpc, icnt, ierrs,
                 opc, runid, nearly, nloop, regs, cpc, cres, gpc, garm, ccnt, cerrs, retErr, apc, kpc, nrun>>

(* steps the manager takes on its own; hj: an AddCloser call the harness holds at addcloser.afterCheck (0: none) *)
InternalExcept(hj) ==
  \/ \E i \in DOMAIN rpc : RunnerBegin(i) \/ SeesCancel(i)
  \/ InnerStart \/ AddRunnerFinish \/ RunStore
  \/ HiddenRet \/ InnerDoneRM \/ StartClosing
  \/ \E j \in DOMAIN cpc : CloserBegin(j) \/ Recv(j)
  \/ GraceBegin \/ GraceFire \/ GraceRelease \/ CloseFSAct \/ RecvGrace \/ Finish \/ RunRet
  \/ \E j \in LateIds \ {hj} : AddCloserFinish(j)
  \/ \E k \in DOMAIN kpc : CloseRet(k) \/ CloseSecond(k)
Internal == InternalExcept(0)

(* the environment of the exhaustive check: to keep the state space small, AddCloser and Close calls are issued in *)
(* the order of their ids, Add is tried with one extra runner once the manager was started or closed, and the       *)
(* parent context is cancelled only while that can matter                                                           *)
Env ==
  \/ RunCall
  \/ \E i \in DOMAIN rpc, cl \in RClasses : Release(i, cl)
  \/ \E j \in DOMAIN cpc, cl \in CClasses : CloserRelease(j, cl)
  \/ \E j \in LateIds : (\A x \in LateIds : x < j => apc[x] # "idle") /\ AddCloserCall(j)
  \/ \E k \in DOMAIN kpc : (\A x \in DOMAIN kpc : x < k => kpc[x] # "idle") /\ CloseCall(k)
  \/ (running /\ AddRunnerCall(Extra))
  \/ (opc \in {"idle", "spawn", "inner"} /\ nr > 0 /\ ParentCancel)

Quiescent == ~ENABLED Internal

(* virtual time advances only when nothing can move (testing/synctest) *)
Advance(t) ==
  /\ now' = t
  /\ UNCHANGED <<rpass, kind, nr, nc, grace, mrunning, rl, apr, running, closing, closeCh, stopped, closeFS, lockRun, pcan, ctx, rpc, hpc, icnt, ierrs,
                 opc, runid, nearly, nloop, regs, cpc, cres, gpc, garm, ccnt, cerrs, retErr, apc, kpc, nrun, c>>
Tick == /\ Quiescent /\ now < MaxT /\ Advance(now + 1)
        /\ gpc = "timing" \/ (grace >= 0 /\ ~Installed /\ opc = "collect")     \* only while the passing of time can matter

Quiesce ==
  /\ Quiescent
  /\ c' = CNext(c, E("q"))
  /\ UNCHANGED <<rpass, kind, nr, nc, grace, mrunning, rl, apr, now, running, closing, closeCh, stopped, closeFS, lockRun, pcan, ctx, rpc, hpc, icnt, ierrs,
                 opc, runid, nearly, nloop, regs, cpc, cres, gpc, garm, ccnt, cerrs, retErr, apc, kpc, nrun>>

Next == Internal \/ Env \/ Tick \/ Quiesce
Spec == Init /\ [][Next]_vars

NotBad == ~IsBad(c)
(* the same laws stated directly on the model state *)
ClosersAfterRunners == (\E j \in DOMAIN cpc : cpc[j] # "idle") => \A x \in DOMAIN rl : rpc[rl[x]] = "done"
StoppedLast == stopped /\ opc \in {"ret", "done"} => (\A j \in DOMAIN regs : cpc[regs[j]] = "done") /\ gpc \in {"none", "done"}
=============================================================================
