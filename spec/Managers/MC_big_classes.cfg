SPECIFICATION Spec
CONSTANTS Kinds = {"rm", "rcm"} MaxR = 2 MaxC = 1 MaxLate = 1 MaxClose = 2 GraceSet = {0, 2} MaxT = 3
  RClasses = {"nil", "err", "canceled", "deadline", "wcanceled"} CClasses = {"nil", "err", "kcanceled", "kraw"}
  AtomicAddCloser = TRUE GraceRecheck = TRUE ReleaseBeforeStart = TRUE Monitor = TRUE Defect = "none"
INVARIANTS NotBad ClosersAfterRunners StoppedLast
CHECK_DEADLOCK FALSE
