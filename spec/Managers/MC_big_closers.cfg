SPECIFICATION Spec
CONSTANTS Kinds = {"rcm"} MaxR = 1 MaxC = 3 MaxLate = 1 MaxClose = 2 GraceSet = {2} MaxT = 3
  RClasses = {"nil", "err"} CClasses = {"nil", "err"}
  AtomicAddCloser = TRUE GraceRecheck = TRUE ReleaseBeforeStart = TRUE Monitor = TRUE Defect = "none"
INVARIANTS NotBad ClosersAfterRunners StoppedLast
CHECK_DEADLOCK FALSE
