---------------------------- MODULE TraceMgrImpl ----------------------------
(* Binding of the implementation-shaped model to the code: hook-level traces *)
(* of the real RunnerManager / RunnerCloserManager (the events of the        *)
(* harness-owned runners and closers, call / return of Run, Close, Add and   *)
(* AddCloser, the verif points closer.run.afterCAS, runner.run.afterCAS and  *)
(* addcloser.afterCheck, the fatal action, the virtual clock and the         *)
(* quiescence points, all recorded under one mutex) must be behaviours of    *)
(* CloserMgr.tla.  Each event is matched by the model action it stands for;  *)
(* steps the code takes without a hook (the hidden closeCh runner, taking    *)
(* the lock and starting the closers, the grace closer, the result           *)
(* collection, closeFatalShutdown, unlock and close(stopped), Close's flag   *)
(* updates) are silent and                                                   *)
(* inferred by TLC.  A "q" event demands that the model, too, cannot move.   *)
(* A trace that is not accepted is DRIFT between model and code - reported   *)
(* in the evidence, never a violation by itself.                             *)
EXTENDS CloserMgr, TraceLib

Trace == LoadTrace("trace.ndjson")
Starts == {i \in 1..Len(Trace) : Trace[i].ev = "reset"}
VARIABLES tr, l,
          prun,      \* Run calls announced whose running CAS was not yet seen
          pclose,    \* Close calls announced whose flag updates were not yet taken
          padd,      \* AddCloser calls announced that did not yet pass their first look at closing
          gated,     \* the AddCloser call the harness holds at addcloser.afterCheck (0: none)
          mix,       \* closers offered together with a value of an unsupported type (AddCloser keeps them and returns an error)
          pdl        \* deadline of the context given to Run (-1: none)
tvars == <<vars, tr, l, prun, pclose, padd, gated, mix, pdl>>
aux == <<prun, pclose, padd, gated, mix>>

R == Trace[tr]
TInit ==
  /\ tr \in Starts /\ l = tr
  /\ kind = R.kind /\ nr = R.r0 /\ nc = 0 /\ grace = R.G /\ pdl = R.pdl
  /\ now = 0
  /\ running = FALSE /\ closing = FALSE /\ closeCh = FALSE /\ stopped = FALSE /\ closeFS = FALSE /\ lockRun = FALSE
  /\ pcan = FALSE /\ ctx = FALSE
  /\ mrunning = FALSE /\ rl = [i \in 1..R.r0 |-> i] /\ apr = 0
  /\ rpc = [i \in 1..R.nr |-> "idle"] /\ hpc = "none" /\ icnt = 0 /\ ierrs = <<>>
  /\ opc = "idle" /\ runid = 0 /\ nearly = 0 /\ nloop = 0
  /\ regs = <<>>
  /\ cpc = [j \in 1..R.nc |-> "idle"] /\ cres = [j \in 1..R.nc |-> ""]
  /\ gpc = "none" /\ garm = 0 /\ ccnt = 0 /\ cerrs = <<>>
  /\ retErr = <<>>
  /\ apc = [j \in 1..R.nc |-> "idle"]
  /\ kpc = [k \in 1..R.ncl |-> "idle"]
  /\ nrun = 0 /\ rpass = 0
  /\ c = Dummy
  /\ prun = 0 /\ pclose = {} /\ padd = {} /\ gated = 0 /\ mix = {}

HasNext == l + 1 <= R.end
Ev == Trace[l + 1]
Is(name) == HasNext /\ Ev.ev = name /\ Ev.now = now
Eat == l' = l + 1 /\ UNCHANGED <<tr, pdl>>
Keep == UNCHANGED <<tr, l, pdl>>

DeadlineDue == pdl >= 0 /\ ~pcan /\ now >= pdl
QuiescentT == ~ENABLED InternalExcept(gated)

(* ---- Run ---- *)
TRunCall == Is("runcall") /\ Eat /\ prun' = prun + 1 /\ UNCHANGED <<vars, pclose, padd, gated, mix>>
TRunStarted ==        \* closer.run.afterCAS (closer manager) / runner.run.afterCAS (plain manager)
  /\ Is("runstarted") /\ Eat /\ prun > 0 /\ ~running /\ RunCall
  /\ prun' = prun - 1 /\ UNCHANGED <<pclose, padd, gated, mix>>
TRunRejected ==
  /\ Is("runreturn") /\ Ev.rejected /\ Eat /\ prun > 0 /\ running /\ RunCall
  /\ prun' = prun - 1 /\ UNCHANGED <<pclose, padd, gated, mix>>
TInner == Is("h.inner") /\ Eat /\ InnerStart /\ UNCHANGED aux     \* runner.run.afterCAS inside a closer manager
TRunReturn ==
  /\ Is("runreturn") /\ ~Ev.rejected /\ Eat /\ UNCHANGED aux
  /\ \/ InnerDoneRM /\ ierrs = Ev.errs
     \/ RunRet /\ retErr = Ev.errs

(* ---- Close ---- *)
TCloseCall == Is("closecall") /\ Eat /\ pclose' = pclose \cup {Ev.id} /\ UNCHANGED <<vars, prun, padd, gated, mix>>
SCloseCAS == /\ HasNext /\ Keep
             /\ \E k \in pclose : CloseCall(k) /\ pclose' = pclose \ {k}
             /\ UNCHANGED <<prun, padd, gated, mix>>
TCloseReturn == Is("closereturn") /\ Eat /\ CloseRet(Ev.id) /\ retErr = Ev.errs /\ UNCHANGED aux

(* ---- Add ---- *)
SAddPass == Is("addrunner") /\ Ev.ok /\ Keep /\ AddRunnerCall(Ev.i) /\ apr' = Ev.i /\ UNCHANGED aux
TAddRunner ==
  /\ Is("addrunner") /\ Eat /\ UNCHANGED aux
  /\ IF Ev.ok THEN apr = Ev.i /\ AddRunnerFinish
              ELSE AddRunnerCall(Ev.i) /\ apr' = 0

(* ---- AddCloser ---- *)
TAddCloserCall ==
  /\ Is("addcloser.call") /\ Eat /\ UNCHANGED <<vars, prun, pclose>>
  /\ padd' = padd \cup {Ev.j}
  /\ gated' = IF Ev.gate THEN Ev.j ELSE gated
  /\ mix' = IF Ev.mix THEN mix \cup {Ev.j} ELSE mix
THookAddCloser ==     \* addcloser.afterCheck
  /\ Is("h.addcloser") /\ Eat /\ UNCHANGED <<prun, pclose, gated, mix>>
  /\ IF Ev.j = 0 THEN UNCHANGED <<vars, padd>>     \* the manager's own grace closer, or an unsupported value alone
     ELSE /\ Ev.j \in padd /\ AddCloserCall(Ev.j) /\ apc'[Ev.j] = "passed"
          /\ padd' = padd \ {Ev.j}
TAddCloserRet ==
  /\ (Is("addcloser.ret") \/ Is("addcloser.retmix")) /\ Eat /\ UNCHANGED <<prun, pclose, mix>>
  /\ gated' = IF gated = Ev.j THEN 0 ELSE gated
  /\ IF Ev.j \in padd
       THEN /\ ~Ev.ok /\ AddCloserCall(Ev.j) /\ apc'[Ev.j] = "done"      \* turned away at the first look
            /\ padd' = padd \ {Ev.j}
       ELSE /\ AddCloserFinish(Ev.j) /\ UNCHANGED padd
            /\ IF Ev.j \in mix THEN ~Ev.ok ELSE (Ev.ok <=> regs' # regs)
TUngate == Is("h.ungate") /\ Eat /\ gated' = 0 /\ UNCHANGED <<vars, prun, pclose, padd, mix>>
TIgnore == Is("addcloser.bad") /\ Eat /\ UNCHANGED <<vars, aux>>

(* ---- runners, closers, fatal, parent context ---- *)
TParent == Is("parentcancel") /\ Eat /\ ParentCancel /\ UNCHANGED aux
SDeadline == HasNext /\ Keep /\ DeadlineDue /\ ParentCancel /\ UNCHANGED aux
TRunnerStart == Is("runnerstart") /\ Eat /\ RunnerBegin(Ev.i) /\ UNCHANGED aux
TSeesCancel == Is("seescancel") /\ Eat /\ SeesCancel(Ev.i) /\ UNCHANGED aux
TRunnerReturn == /\ Is("runnerreturn") /\ Eat /\ UNCHANGED aux
                 /\ ReleaseId(Ev.i, Ev.class, IF Ev.class = "canceled" THEN "canceled" ELSE Ev.id)
TCloserStart == Is("closerstart") /\ Eat /\ CloserBegin(Ev.j) /\ UNCHANGED aux
TCloserReturn == Is("closerreturn") /\ Eat /\ CloserReleaseId(Ev.j, Ev.class, Ev.id) /\ UNCHANGED aux
TFatal == Is("fatal") /\ Eat /\ GraceFire /\ UNCHANGED aux

(* ---- quiescence and the virtual clock ---- *)
TQ == /\ Is("q") /\ Eat /\ UNCHANGED <<vars, aux>>
      /\ QuiescentT /\ ~DeadlineDue /\ prun = 0 /\ pclose = {} /\ padd = {} /\ apr = 0
Cands == {Ev.now} \cup (IF gpc = "timing" /\ garm + grace > now THEN {garm + grace} ELSE {})
                  \cup (IF pdl > now /\ ~pcan THEN {pdl} ELSE {})
SAdvance == /\ HasNext /\ Ev.now > now /\ Keep /\ UNCHANGED aux
            /\ QuiescentT /\ ~DeadlineDue
            /\ Advance(CHOOSE t \in Cands : \A u \in Cands : t <= u)

(* ---- steps without a hook ---- *)
Silent == /\ HasNext /\ Keep /\ UNCHANGED aux
          /\ \/ HiddenRet \/ StartClosing \/ GraceBegin \/ GraceRelease \/ CloseFSAct \/ RecvGrace \/ Finish
             \/ \E j \in DOMAIN cpc : Recv(j)

TNext == TRunCall \/ TRunStarted \/ TRunRejected \/ TInner \/ TRunReturn \/ TCloseCall \/ SCloseCAS \/ TCloseReturn
         \/ SAddPass \/ TAddRunner \/ TAddCloserCall \/ THookAddCloser \/ TAddCloserRet \/ TUngate \/ TIgnore
         \/ TParent \/ SDeadline \/ TRunnerStart \/ TSeesCancel \/ TRunnerReturn \/ TCloserStart \/ TCloserReturn \/ TFatal
         \/ TQ \/ SAdvance \/ Silent
TSpec == TInit /\ [][TNext]_tvars
Done == IF l = R.end THEN PrintT(<<"DONE", tr>>) ELSE TRUE
=============================================================================
