SPECIFICATION Spec
CONSTANTS NInit = 2 MaxAdd = 2
INVARIANT NeverEarly
PROPERTY EventuallyDone
CHECK_DEADLOCK FALSE
