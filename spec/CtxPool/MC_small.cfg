SPECIFICATION Spec
CONSTANTS NInit = 2 MaxAdd = 2 NClients = 2 MaxCancel = 1
INVARIANT NeverEarly
PROPERTY EventuallyDone
CHECK_DEADLOCK FALSE
