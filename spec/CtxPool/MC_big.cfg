SPECIFICATION Spec
CONSTANTS NInit = 3 MaxAdd = 3
INVARIANT NeverEarly
PROPERTY EventuallyDone
CHECK_DEADLOCK FALSE
