SPECIFICATION Spec
CONSTANTS NInit = 3 MaxAdd = 3 NClients = 2 MaxCancel = 2
INVARIANT NeverEarly
PROPERTY EventuallyDone
CHECK_DEADLOCK FALSE
