--------------------------- MODULE TracePoolImpl ---------------------------
(* Binding of the implementation-shaped model to the code: hook-level traces *)
(* of the real Pool (every decision point it passes - pool.* - plus NewPool, *)
(* the Add/Cancel calls and returns, the member cancellations and the        *)
(* observations at the quiescent points, all recorded under one mutex) must  *)
(* be behaviours of CtxPool.tla.  A record is not atomic with the step it    *)
(* marks: pool.watch.woke / pool.watch.beforeCancel are recorded some time   *)
(* after the watcher's step, pool.add.enter / pool.cancel.enter (and the     *)
(* *_call records) some time before the critical section.  So the model      *)
(* steps are taken silently and every hook record must be owed by / must     *)
(* announce exactly the step it stands for.  At every observation the model  *)
(* must agree with what the pool showed (Done, Size, watcher alive) and that *)
(* the watcher cannot move.  A trace that is not accepted is DRIFT between   *)
(* model and code - reported in the evidence, never a violation by itself.   *)
EXTENDS CtxPool, TraceLib

Trace == LoadTrace("trace.ndjson")
Starts == {i \in 1..Len(Trace) : Trace[i].ev = "reset"}
VARIABLES tr, l,
          open,       \* open[c]: caller c has a call in flight whose return was not yet recorded
          ann,        \* ann[c]: c's call announced (pool.add.enter / pool.cancel.enter) its critical section
          wowe        \* the hook record the watcher owes for its last step ("": none)
aux == <<open, ann, wowe>>
tvars == <<vars, tr, l, aux>>

(* the record after reset is NewPool *)
TInit == /\ tr \in Starts /\ l = tr + 1 /\ Trace[tr + 1].ev = "new"
         /\ InitWith(Trace[tr + 1].init, ToSet(Trace[tr + 1].pre)) /\ nextM = 0
         /\ open = [c \in Clients |-> FALSE] /\ ann = [c \in Clients |-> FALSE] /\ wowe = ""
HasNext == l + 1 <= Trace[tr].end
Ev == Trace[l + 1]
Eat == l' = l + 1 /\ UNCHANGED tr
Keep == UNCHANGED <<tr, l>>
Is(name) == HasNext /\ Ev.ev = name /\ Eat

(* ---- caller and environment records ---- *)
Call(o) == /\ Begin(Ev.c, o) /\ open' = [open EXCEPT ![Ev.c] = TRUE] /\ ann' = [ann EXCEPT ![Ev.c] = FALSE]
           /\ UNCHANGED <<nextM, ncancel, wowe>>
TAddCall == Is("add_call") /\ Call([op |-> "add", m |-> Ev.m, ended |-> Ev.ended])
TCancelCall == Is("pcancel_call") /\ Call([op |-> "cancel", m |-> 0, ended |-> FALSE])
TRet == /\ HasNext /\ Ev.ev \in {"add_ret", "pcancel_ret"} /\ Eat
        /\ open[Ev.c] /\ cpc[Ev.c] = "idle"
        /\ open' = [open EXCEPT ![Ev.c] = FALSE] /\ UNCHANGED <<vars, ann, wowe>>
TEnd == Is("end") /\ (IF Ev.m \in ended THEN UNCHANGED vars ELSE End(Ev.m)) /\ UNCHANGED aux

(* ---- hook records ---- *)
TEnter(name, op) == /\ Is(name) /\ UNCHANGED <<vars, open, wowe>>
                    /\ \E c \in Clients : cpc[c] = op /\ ~ann[c] /\ ann' = [ann EXCEPT ![c] = TRUE]
TAddEnter == TEnter("pool.add.enter", "add")
TCancelEnter == TEnter("pool.cancel.enter", "cancel")
TWoke == Is("pool.watch.woke") /\ wowe = "woke" /\ wowe' = "" /\ UNCHANGED <<vars, open, ann>>                  \* the watcher's select fired
TBeforeCancel == Is("pool.watch.beforeCancel") /\ wowe = "bc" /\ wowe' = "" /\ UNCHANGED <<vars, open, ann>>    \* it left its loop and released the lock

(* ---- the model's steps ---- *)
Silent == /\ HasNext /\ Keep /\ UNCHANGED open
          /\ \/ /\ wowe = "" /\ UNCHANGED ann
                /\ \/ WCheck /\ wowe' = (IF wpc' = "exit" THEN "bc" ELSE "")
                   \/ WWait /\ wowe' = "woke"
                   \/ (WRelock \/ WExit) /\ UNCHANGED wowe
             \/ \E c \in Clients : /\ ann[c] /\ (AddCS(c) \/ CancelCS(c))
                                   /\ ann' = [ann EXCEPT ![c] = FALSE] /\ UNCHANGED wowe

(* an observation at a quiescent point with no call in flight *)
TObs == /\ Is("obs") /\ UNCHANGED <<vars, aux>>
        /\ \A c \in Clients : cpc[c] = "idle"
        /\ poolDone = Ev.done /\ Len2 = Ev.size /\ (Ev.watcher <=> wpc # "gone")
        /\ wowe = "" /\ wpc # "check"                                                    \* the watcher is blocked or parked at a gate
        /\ wpc = "wait" => ~(closed \/ (wi <= Len(pool) /\ pool[wi] \in ended))
        /\ Ev.final => wpc \in {"wait", "gone"}

TNext == TAddCall \/ TCancelCall \/ TRet \/ TEnd \/ TAddEnter \/ TCancelEnter \/ TWoke \/ TBeforeCancel \/ Silent \/ TObs
TSpec == TInit /\ [][TNext]_tvars
Done == IF l = Trace[tr].end THEN PrintT(<<"DONE", tr>>) ELSE TRUE
=============================================================================
