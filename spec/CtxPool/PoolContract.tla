----------------------------- MODULE PoolContract -----------------------------
(* C20 - context.Pool as seen by its users: a deterministic monitor over       *)
(*   new {init, pre}        NewPool with contexts init (ids); pre: the ones     *)
(*                          already ended when it was called                    *)
(*   end {m}                member context m ended                              *)
(*   add_call {m, ended} / add_ret {m}    Add of context m (ended: it had       *)
(*                          already ended; m = 0..: never-ending contexts have  *)
(*                          never = TRUE)                                       *)
(*   pcancel_call / pcancel_ret           Pool.Cancel                           *)
(*   obs {done, size, watcher}  at a quiescent point: is the pool's context     *)
(*                          done, what does Size report, does the watcher       *)
(*                          goroutine still exist; final: everything drained    *)
(* A context added while the pool and some member were live THROUGHOUT the Add *)
(* call is surely a member; one whose Add overlapped the end of the pool or of  *)
(* the last live member, or a Cancel, is "maybe" (either way is allowed).       *)
EXTENDS Naturals, FiniteSets, Sequences, TLC

Bad(why) == [bad |-> TRUE, why |-> why]
IsBad(c) == c.bad
CReset == [bad |-> FALSE, why |-> "", init |-> {}, live |-> {}, sure |-> {}, maybe |-> {}, ignored |-> {},
           pending |-> << >>, cancelCalled |-> FALSE, cancelRet |-> FALSE, sawDone |-> FALSE, tracked |-> 0, trackedMaybe |-> 0]

ToSet(s) == {s[i] : i \in 1..Len(s)}
Members(c) == c.init \cup c.sure

CNew(c, e) == [c EXCEPT !.init = ToSet(e.init), !.live = ToSet(e.init) \ ToSet(e.pre),
                        !.tracked = Cardinality(ToSet(e.init) \ ToSet(e.pre))]
CEnd(c, e) == [c EXCEPT !.live = @ \ {e.m},
                        \* an Add in flight loses its certainty if this was the last live member
                        !.pending = [m \in DOMAIN c.pending |->
                                        IF (Members(c) \cap c.live) \ {e.m} = {} THEN [c.pending[m] EXCEPT !.certain = FALSE] ELSE c.pending[m]]]
CAddCall(c, e) ==
  LET poolLive == ~c.sawDone /\ ~c.cancelCalled /\ (Members(c) \cap c.live) # {}
  IN [c EXCEPT !.pending = (e.m :> [certain |-> poolLive, mustIgnore |-> c.sawDone \/ c.cancelRet, ended |-> e.ended]) @@ c.pending,
               !.live = IF e.ended THEN @ ELSE @ \cup {e.m}]
CAddRet(c, e) ==
  LET p == c.pending[e.m]
      rest == [m \in (DOMAIN c.pending) \ {e.m} |-> c.pending[m]]
  IN IF p.mustIgnore THEN [c EXCEPT !.pending = rest, !.ignored = @ \cup {e.m}]
     ELSE IF p.certain /\ ~c.cancelCalled THEN [c EXCEPT !.pending = rest, !.sure = @ \cup {e.m}, !.tracked = @ + 1]
     ELSE [c EXCEPT !.pending = rest, !.maybe = @ \cup {e.m}, !.trackedMaybe = @ + 1]
CPCancelCall(c) == [c EXCEPT !.cancelCalled = TRUE,
                             !.pending = [m \in DOMAIN c.pending |-> [c.pending[m] EXCEPT !.certain = FALSE]]]

CObs(c, e) ==
  LET liveMembers == Members(c) \cap c.live
      liveMaybe == (c.maybe \cup DOMAIN c.pending) \cap c.live
  IN IF e.done /\ ~c.cancelCalled /\ liveMembers # {}
       THEN Bad("the pool's context was cancelled while a member had not ended")
     ELSE IF ~e.done /\ e.final /\ (c.cancelRet \/ (liveMembers = {} /\ liveMaybe = {} /\ DOMAIN c.pending = {}))
       THEN Bad("the pool's context is not cancelled although Cancel returned or every member ended")
     ELSE IF c.cancelRet /\ e.size # 0 THEN Bad("Size is not zero after Cancel")
     \* Size: at least the members that are still live, at most everything that was accepted
     ELSE IF ~c.cancelCalled /\ ~e.done /\ DOMAIN c.pending = {} /\ (e.size < Cardinality(liveMembers) \/ e.size > c.tracked + c.trackedMaybe)
       THEN Bad("Size does not report the members being tracked")
     ELSE IF e.done /\ e.final /\ e.watcher THEN Bad("the watcher goroutine outlived the pool")
     ELSE [c EXCEPT !.sawDone = c.sawDone \/ e.done]

CNext(c, e) ==
  IF e.ev = "reset" THEN CReset
  ELSE IF IsBad(c) THEN c
  ELSE CASE e.ev = "new"          -> CNew(c, e)
         [] e.ev = "end"          -> CEnd(c, e)
         [] e.ev = "add_call"     -> CAddCall(c, e)
         [] e.ev = "add_ret"      -> CAddRet(c, e)
         [] e.ev = "pcancel_call" -> CPCancelCall(c)
         [] e.ev = "pcancel_ret"  -> [c EXCEPT !.cancelRet = TRUE]
         [] e.ev = "obs"          -> CObs(c, e)
         [] e.ev = "panic"        -> Bad("a Pool method panicked")
         [] e.ev = "hung"         -> Bad("a Pool method never returned although nothing else could move")
=============================================================================
