SPECIFICATION TSpec
CONSTANTS
  NInit = 0
  MaxAdd = 0
  NClients = 3
  MaxCancel = 0
CONSTRAINT Done
CHECK_DEADLOCK FALSE
