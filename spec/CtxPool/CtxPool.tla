------------------------------- MODULE CtxPool -------------------------------
(* Implementation-shaped model of context/pool.go.  The watcher goroutine      *)
(* holds the read lock except while it waits for pool[i]; Add/Cancel take the  *)
(* write lock.  wpc: "check" (holds RLock, about to test i < len), "wait"      *)
(* (no lock, blocked on pool[i] or closed), "relock" (woke, wants RLock),      *)
(* "exit" (released the lock, about to cancel), "gone".                        *)
(* Callers: a caller slot c runs one Add/Cancel call at a time, the call in    *)
(* progress is cop[c].  The exhaustive configurations let every slot start any *)
(* call at any time (Start); trace validation fills cop from the recorded call *)
(* events (Begin) and the initial pool from the recorded NewPool (InitWith).   *)
EXTENDS Naturals, Sequences, FiniteSets, TLC

CONSTANTS NInit, MaxAdd,        \* exhaustive configurations: initial contexts 1..NInit, at most MaxAdd Add calls (ids NInit+1..)
          NClients, MaxCancel   \* caller slots; at most MaxCancel Cancel calls
Clients == 1..NClients

VARIABLES ended,        \* set of contexts that have ended
          pool,         \* sequence of context ids (nil'd by Cancel is modelled by isNil)
          isNil, closed, poolDone, wpc, wi,
          added, members, maybe, cancelCalled,
          cpc, cop,     \* caller slot: "idle" | "add" | "cancel" (called, before its critical section); the call in progress
          nextM, ncancel
vars == <<ended, pool, isNil, closed, poolDone, wpc, wi, added, members, maybe, cancelCalled, cpc, cop, nextM, ncancel>>

NoOp == [op |-> "none", m |-> 0, ended |-> FALSE]
ToSet(s) == {s[i] : i \in 1..Len(s)}

(* NewPool(ids...) of which pre have already ended - pool.go:36-50; the caller takes the read lock for the watcher *)
InitWith(ids, pre) ==
        /\ ended = pre
        /\ pool = SelectSeq(ids, LAMBDA x : x \notin pre)
        /\ isNil = FALSE /\ closed = FALSE /\ poolDone = FALSE /\ wpc = "check" /\ wi = 1
        /\ added = {} /\ members = ToSet(ids) /\ maybe = {} /\ cancelCalled = FALSE
        /\ cpc = [c \in Clients |-> "idle"] /\ cop = [c \in Clients |-> NoOp]
        /\ ncancel = 0
Init == /\ \E pre \in SUBSET (1..NInit) : InitWith([i \in 1..NInit |-> i], pre)
        /\ nextM = NInit + 1

Len2 == IF isNil THEN 0 ELSE Len(pool)
(* watcher - pool.go:53-65 *)
WCheck == /\ wpc = "check"
          /\ IF wi <= Len2 THEN wpc' = "wait" ELSE wpc' = "exit"     \* RUnlock in both cases
          /\ UNCHANGED <<ended, pool, isNil, closed, poolDone, wi, added, members, maybe, cancelCalled, cpc, cop, nextM, ncancel>>
WWait == /\ wpc = "wait" /\ (closed \/ (wi <= Len(pool) /\ pool[wi] \in ended))
         /\ wpc' = "relock" /\ UNCHANGED <<ended, pool, isNil, closed, poolDone, wi, added, members, maybe, cancelCalled, cpc, cop, nextM, ncancel>>
WRelock == /\ wpc = "relock" /\ wpc' = "check" /\ wi' = wi + 1     \* RLock (no writer holds the lock across steps)
           /\ UNCHANGED <<ended, pool, isNil, closed, poolDone, added, members, maybe, cancelCalled, cpc, cop, nextM, ncancel>>
WExit == /\ wpc = "exit" /\ poolDone' = TRUE /\ wpc' = "gone"      \* deferred cancel()
         /\ UNCHANGED <<ended, pool, isNil, closed, wi, added, members, maybe, cancelCalled, cpc, cop, nextM, ncancel>>

(* ---- callers: the call ---- *)
Begin(c, o) == /\ cpc[c] = "idle"
               /\ cop' = [cop EXCEPT ![c] = o] /\ cpc' = [cpc EXCEPT ![c] = o.op]
               /\ ended' = IF o.op = "add" /\ o.ended THEN ended \cup {o.m} ELSE ended       \* Add of a context that has already ended
               /\ UNCHANGED <<pool, isNil, closed, poolDone, wpc, wi, added, members, maybe, cancelCalled>>
Start(c) == \/ /\ nextM <= NInit + MaxAdd
               /\ \E e \in BOOLEAN : Begin(c, [op |-> "add", m |-> nextM, ended |-> e])
               /\ nextM' = nextM + 1 /\ UNCHANGED ncancel
            \/ /\ ncancel < MaxCancel
               /\ Begin(c, [op |-> "cancel", m |-> 0, ended |-> FALSE])
               /\ ncancel' = ncancel + 1 /\ UNCHANGED nextM
Finish(c) == cpc' = [cpc EXCEPT ![c] = "idle"] /\ cop' = [cop EXCEPT ![c] = NoOp]

(* Add - pool.go:72-82 (one critical section; cannot run while the watcher holds the read lock) *)
AddCS(c) == /\ cpc[c] = "add" /\ wpc # "check"
            /\ LET m == cop[c].m IN
               /\ added' = added \cup {m}
               /\ IF poolDone \/ closed THEN UNCHANGED <<pool, members, maybe>>
                  ELSE /\ pool' = IF isNil THEN <<m>> ELSE Append(pool, m)
                       \* a member per the statement: added while the pool and some member were live;
                       \* added after the last member ended but before the pool noticed: tracked or not, both allowed
                       /\ IF \E x \in members : x \notin ended THEN members' = members \cup {m} /\ UNCHANGED maybe
                                                                 ELSE maybe' = maybe \cup {m} /\ UNCHANGED members
            /\ isNil' = (isNil /\ (poolDone \/ closed))
            /\ Finish(c)
            /\ UNCHANGED <<ended, closed, poolDone, wpc, wi, cancelCalled, nextM, ncancel>>
(* a context ends: a member, an added one, or one whose Add call is in flight *)
End(m) == /\ m \notin ended /\ ended' = ended \cup {m}
          /\ UNCHANGED <<pool, isNil, closed, poolDone, wpc, wi, added, members, maybe, cancelCalled, cpc, cop, nextM, ncancel>>
Known(m) == m \in members \/ m \in added \/ \E c \in Clients : cop[c].op = "add" /\ cop[c].m = m
(* Cancel - pool.go:85-93 *)
CancelCS(c) == /\ cpc[c] = "cancel" /\ wpc # "check" /\ cancelCalled' = TRUE
               /\ IF ~isNil THEN closed' = TRUE /\ isNil' = TRUE ELSE UNCHANGED <<closed, isNil>>
               /\ Finish(c)
               /\ UNCHANGED <<ended, pool, poolDone, wpc, wi, added, members, maybe, nextM, ncancel>>

Watcher == WCheck \/ WWait \/ WRelock \/ WExit
Next == Watcher \/ (\E c \in Clients : Start(c) \/ AddCS(c) \/ CancelCS(c)) \/ \E m \in 1..(NInit + MaxAdd) : Known(m) /\ End(m)
Spec == Init /\ [][Next]_vars /\ WF_vars(Watcher) /\ WF_vars(\E c \in Clients : AddCS(c) \/ CancelCS(c))

(* never cancelled while a member has not ended, unless Cancel was called *)
NeverEarly == poolDone => (cancelCalled \/ \A m \in members : m \in ended)
(* cancelled once every member ended or Cancel was called, and the watcher ends with it *)
EventuallyDone == (<>[]((\A m \in members \cup maybe : m \in ended) \/ cancelCalled)) => <>(poolDone /\ wpc = "gone")
SizeZeroAfterCancel == cancelCalled => Len2 = 0 \/ ~isNil
=============================================================================
