------------------------------- MODULE CtxPool -------------------------------
(* Implementation-shaped model of context/pool.go.  The watcher goroutine      *)
(* holds the read lock except while it waits for pool[i]; Add/Cancel take the  *)
(* write lock.  wpc: "check" (holds RLock, about to test i < len), "wait"      *)
(* (no lock, blocked on pool[i] or closed), "relock" (woke, wants RLock),      *)
(* "exit" (released the lock, about to cancel), "gone".                        *)
EXTENDS Naturals, Sequences, FiniteSets, TLC

CONSTANTS NInit, MaxAdd
Ctx == 1..(NInit + MaxAdd)

VARIABLES ended,        \* set of contexts that have ended
          pool,         \* sequence of context ids (0 = nil'd by Cancel is modelled by isNil)
          isNil, closed, poolDone, wpc, wi, writer,  \* writer: some Add/Cancel holds the write lock (atomic here)
          added, members, maybe, cancelCalled
vars == <<ended, pool, isNil, closed, poolDone, wpc, wi, writer, added, members, maybe, cancelCalled>>

Init == /\ ended \in SUBSET (1..NInit)
        /\ pool = SelectSeq([i \in 1..NInit |-> i], LAMBDA x : x \notin ended)    \* pool.go:44-50
        /\ isNil = FALSE /\ closed = FALSE /\ poolDone = FALSE /\ wpc = "check" /\ wi = 1 /\ writer = FALSE
        /\ added = {} /\ members = 1..NInit /\ maybe = {} /\ cancelCalled = FALSE

Len2 == IF isNil THEN 0 ELSE Len(pool)
(* watcher - pool.go:53-65 *)
WCheck == /\ wpc = "check"
          /\ IF wi <= Len2 THEN wpc' = "wait" ELSE wpc' = "exit"     \* RUnlock in both cases
          /\ UNCHANGED <<ended, pool, isNil, closed, poolDone, wi, writer, added, members, maybe, cancelCalled>>
WWait == /\ wpc = "wait" /\ (closed \/ (wi <= Len(pool) /\ pool[wi] \in ended))
         /\ wpc' = "relock" /\ UNCHANGED <<ended, pool, isNil, closed, poolDone, wi, writer, added, members, maybe, cancelCalled>>
WRelock == /\ wpc = "relock" /\ wpc' = "check" /\ wi' = wi + 1     \* RLock (no writer holds the lock across steps)
           /\ UNCHANGED <<ended, pool, isNil, closed, poolDone, writer, added, members, maybe, cancelCalled>>
WExit == /\ wpc = "exit" /\ poolDone' = TRUE /\ wpc' = "gone"      \* deferred cancel()
         /\ UNCHANGED <<ended, pool, isNil, closed, wi, writer, added, members, maybe, cancelCalled>>

(* Add - pool.go:72-82 (one critical section; cannot run while the watcher holds the read lock) *)
Add(c) == /\ c \notin members /\ c \notin added /\ c > NInit /\ wpc # "check"
          /\ added' = added \cup {c}
          /\ IF poolDone \/ closed THEN UNCHANGED <<pool, members, maybe>>
             ELSE /\ pool' = IF isNil THEN <<c>> ELSE Append(pool, c)
                  \* a member per the statement: added while the pool and some member were live;
                  \* added after the last member ended but before the pool noticed: tracked or not, both allowed
                  /\ IF \E m \in members : m \notin ended THEN members' = members \cup {c} /\ UNCHANGED maybe
                                                            ELSE maybe' = maybe \cup {c} /\ UNCHANGED members
          /\ isNil' = (isNil /\ (poolDone \/ closed))
          /\ UNCHANGED <<ended, closed, poolDone, wpc, wi, writer, cancelCalled>>
End(c) == /\ c \notin ended /\ (c \in members \/ c \in added) /\ ended' = ended \cup {c}
          /\ UNCHANGED <<pool, isNil, closed, poolDone, wpc, wi, writer, added, members, maybe, cancelCalled>>
Cancel == /\ wpc # "check" /\ cancelCalled' = TRUE
          /\ IF ~isNil THEN closed' = TRUE /\ isNil' = TRUE ELSE UNCHANGED <<closed, isNil>>
          /\ UNCHANGED <<ended, pool, poolDone, wpc, wi, writer, added, members, maybe>>

Next == WCheck \/ WWait \/ WRelock \/ WExit \/ Cancel \/ \E c \in Ctx : Add(c) \/ End(c)
Spec == Init /\ [][Next]_vars /\ WF_vars(WCheck \/ WWait \/ WRelock \/ WExit)

(* never cancelled while a member has not ended, unless Cancel was called *)
NeverEarly == poolDone => (cancelCalled \/ \A m \in members : m \in ended)
(* cancelled once every member ended or Cancel was called, and the watcher ends with it *)
EventuallyDone == (<>[]((\A m \in members \cup maybe : m \in ended) \/ cancelCalled)) => <>(poolDone /\ wpc = "gone")
SizeZeroAfterCancel == cancelCalled => Len2 = 0 \/ ~isNil
=============================================================================
