------------------------------ MODULE TraceLib ------------------------------
(* Shared helpers for trace validation.  A batch file holds many traces, one  *)
(* JSON object per line; a line {"ev":"reset", ...} starts a new trace.       *)
EXTENDS TLC, Naturals, Sequences, Json

LoadTrace(file) == ndJsonDeserialize(file)

(* High-water mark of the cursor: register 1.  Used from a CONSTRAINT with   *)
(* -workers 1; read by the POSTCONDITION.                                     *)
HWMInit == TLCSet(1, 0)
HWMNote(l) == IF l > TLCGet(1) THEN TLCSet(1, l) ELSE TRUE
HWM == TLCGet(1)

(* Deterministic monitors report a rejected run by printing one line from a *)
(* CONSTRAINT (cheap: no counterexample reconstruction; the harness has the  *)
(* trace).  The constraint is FALSE for the bad state so it is not expanded. *)
RejectLine(l, why) == PrintT(<<"REJECT", l, why>>) /\ FALSE

Accepted(l, len) ==
    IF HWM = len + 1 THEN TRUE
    ELSE PrintT(<<"TRACE-REJECTED-AT-LINE", HWM, "OF", len>>) /\ FALSE
=============================================================================
