SPECIFICATION TSpec
CONSTANTS TPS = 10
CONSTRAINT Done
CHECK_DEADLOCK FALSE
