------------------------------ MODULE TraceTTL ------------------------------
(* Validates recorded histories of the real ttlcache against TTLCache.       *)
(* Events:  reset {maxTTL, cleaner, end}                                     *)
(*          op    {op, k, v, ttl, d, res}    an operation executed alone      *)
(*          call  {id, op, k, v, ttl, d} / ret {id, res}   concurrent calls   *)
(*          stopret {alive}   Stop returned; alive: the cleaner still exists  *)
(* Set reads the clock (TClock) and then stores (TLin): the expiry is counted  *)
(* from a moment inside the call, not necessarily from the store.  Get reads   *)
(* the map (TLin) and then the clock (TGetClock): its hit/miss is judged with  *)
(* the later clock reading.  Both orders are those of ttlcache.go.             *)
(* Between call and ret an operation takes effect in one silent step (TLin); *)
(* Cleanup, Reset and Delete in two or more: TLin collects the keys (scan),  *)
(* TSweep removes them - and may do so repeatedly until the call returns:    *)
(* the underlying lock-free map (haxmap) can lose a Set that lands while a   *)
(* Del of the same key is in progress (marked, not yet unlinked), which is   *)
(* the documented "updated after the scan, deleted nevertheless" race, not   *)
(* bounded to one loss.  While the periodic cleaner is on, it may scan and   *)
(* sweep at any time.  A history is  *)
(* accepted iff some choice of silent steps explains every recorded result;  *)
(* TLC prints DONE <trace> when it reaches the end of one.                   *)
EXTENDS TTLCache, TraceLib, Sequences

Trace == LoadTrace("trace.ndjson")
Starts == {i \in 1..Len(Trace) : Trace[i].ev = "reset"}
VARIABLES tr, l, store, now, maxTTL, ops, cp, cleanerOn
vars == <<tr, l, store, now, maxTTL, ops, cp, cleanerOn>>
Idle == [a |-> FALSE, ks |-> {}]

TInit == /\ tr \in Starts /\ l = tr /\ store = << >> /\ now = 0 /\ maxTTL = Trace[tr].maxTTL
         /\ ops = << >> /\ cp = Idle /\ cleanerOn = Trace[tr].cleaner

HasNext == l + 1 <= Trace[tr].end
Ev == Trace[l + 1]
TwoStep(op) == op \in {"cleanup", "reset", "delete"}

(* effect of a one-step operation: <<store, now, result>> *)
Eff(e) == CASE e.op = "set"     -> <<SetTo(store, now, maxTTL, e.k, e.v, e.ttl), now, 0>>
            [] e.op = "get"     -> <<store, now, GetRes(store, now, e.k)>>
            [] e.op = "delete"  -> <<Del(store, {e.k}), now, 0>>
            [] e.op = "advance" -> <<store, now + e.d, 0>>
            [] e.op = "cleanup" -> <<Del(store, Expired(store, now)), now, 0>>
            [] e.op = "reset"   -> <<<< >>, now, 0>>

TOp == /\ HasNext /\ Ev.ev = "op"
       /\ LET r == Eff(Ev) IN /\ (Ev.op = "get" => r[3] = Ev.res)
                              /\ store' = r[1] /\ now' = r[2]
       /\ l' = l + 1 /\ UNCHANGED <<tr, maxTTL, ops, cp, cleanerOn>>

TCall == /\ HasNext /\ Ev.ev = "call"
         /\ ops' = (Ev.id :> [e |-> Ev, st |-> "called", res |-> 0, ks |-> {}, t |-> -1, seen |-> <<>>]) @@ ops
         /\ l' = l + 1 /\ UNCHANGED <<tr, store, now, maxTTL, cp, cleanerOn>>

(* Set: the clock is read first (ttlcache.go:97), the entry stored afterwards *)
TClock(id) == /\ HasNext /\ ops[id].st = "called" /\ ops[id].e.op = "set" /\ ops[id].t = -1
              /\ ops' = [ops EXCEPT ![id].t = now]
              /\ UNCHANGED <<tr, l, store, now, maxTTL, cp, cleanerOn>>
(* Get: the clock is read after the map (ttlcache.go:79-80) *)
TGetClock(id) == /\ HasNext /\ ops[id].st = "read" /\ ops[id].e.op = "get"
                 /\ ops' = [ops EXCEPT ![id].st = "lin",
                                        ![id].res = IF ops[id].seen # <<>> /\ ops[id].seen[1].exp > now THEN ops[id].seen[1].val ELSE Miss]
                 /\ UNCHANGED <<tr, l, store, now, maxTTL, cp, cleanerOn>>

TLinSet(id) == /\ ops[id].e.op = "set" /\ ops[id].t # -1
               /\ store' = (ops[id].e.k :> [val |-> ops[id].e.v, exp |-> ops[id].t + Cap(ops[id].e.ttl, maxTTL) * TPS]) @@ store
               /\ ops' = [ops EXCEPT ![id].st = "lin"]
               /\ UNCHANGED now
TLinGet(id) == /\ ops[id].e.op = "get"
               /\ ops' = [ops EXCEPT ![id].st = "read",
                                      ![id].seen = IF ops[id].e.k \in DOMAIN store THEN <<store[ops[id].e.k]>> ELSE <<>>]
               /\ UNCHANGED <<store, now>>
TLinScan(id) == /\ TwoStep(ops[id].e.op)
                /\ ops' = [ops EXCEPT ![id].st = "scanned",
                                       ![id].ks = CASE ops[id].e.op = "reset" -> DOMAIN store
                                                    [] ops[id].e.op = "delete" -> {ops[id].e.k}
                                                    [] OTHER -> Expired(store, now)]
                /\ UNCHANGED <<store, now>>
TLinOther(id) == /\ ops[id].e.op \notin {"set", "get"} /\ ~TwoStep(ops[id].e.op)
                 /\ LET r == Eff(ops[id].e) IN
                      /\ store' = r[1] /\ now' = r[2]
                      /\ ops' = [ops EXCEPT ![id].st = "lin", ![id].res = r[3]]
TLin(id) == /\ HasNext /\ ops[id].st = "called"
            /\ (TLinSet(id) \/ TLinGet(id) \/ TLinScan(id) \/ TLinOther(id))
            /\ UNCHANGED <<tr, l, maxTTL, cp, cleanerOn>>

TSweep(id) == /\ HasNext /\ ops[id].st \in {"scanned", "lin"} /\ TwoStep(ops[id].e.op)
              /\ store' = Del(store, ops[id].ks)
              /\ ops' = [ops EXCEPT ![id].st = "lin"]           \* "lin": swept at least once; may sweep again until ret
              /\ UNCHANGED <<tr, l, now, maxTTL, cp, cleanerOn>>

TRet == /\ HasNext /\ Ev.ev = "ret" /\ Ev.id \in DOMAIN ops
        /\ ops[Ev.id].st = "lin"
        /\ (ops[Ev.id].e.op = "get" => ops[Ev.id].res = Ev.res)
        /\ ops' = [i \in (DOMAIN ops) \ {Ev.id} |-> ops[i]]
        /\ l' = l + 1 /\ UNCHANGED <<tr, store, now, maxTTL, cp, cleanerOn>>

CScan == /\ HasNext /\ cleanerOn /\ ~cp.a /\ cp' = [a |-> TRUE, ks |-> Expired(store, now)]
         /\ cp'.ks # {}                       \* a scan that finds nothing has no effect
         /\ UNCHANGED <<tr, l, store, now, maxTTL, ops, cleanerOn>>
CSweep == /\ HasNext /\ cp.a /\ store' = Del(store, cp.ks) /\ cp' \in {cp, Idle}     \* repeatable, see above
          /\ UNCHANGED <<tr, l, now, maxTTL, ops, cleanerOn>>

(* Stop returned: the property says the cleaner has exited by now *)
TStopRet == /\ HasNext /\ Ev.ev = "stopret" /\ ~Ev.alive /\ ~cp.a
            /\ cleanerOn' = FALSE
            /\ l' = l + 1 /\ UNCHANGED <<tr, store, now, maxTTL, ops, cp>>

TNext == TOp \/ TCall \/ TRet \/ TStopRet \/ CScan \/ CSweep \/ \E id \in DOMAIN ops : TLin(id) \/ TSweep(id) \/ TClock(id) \/ TGetClock(id)
TSpec == TInit /\ [][TNext]_vars
Done == IF l = Trace[tr].end THEN PrintT(<<"DONE", tr>>) ELSE TRUE
=============================================================================
