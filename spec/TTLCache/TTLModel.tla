------------------------------ MODULE TTLModel ------------------------------
(* Exhaustive exploration: clients issue Set/Get/Delete/Cleanup/Reset and    *)
(* clock advances in any order, Cleanup/Reset calls of clients and of the    *)
(* background cleaner are split in scan and sweep, so every interleaving of  *)
(* other operations with the two halves is visited.  Ghost variables hold    *)
(* what the property talks about (the latest Set of each key) and the        *)
(* invariants are the clauses of C15.                                        *)
EXTENDS TTLCache

CONSTANTS Keys, MaxTTLs, TTLs, MaxNow, Procs

VARIABLES store, now, maxTTL,
          pend,      \* per process: [a: a scan is pending, ks: the keys it collected]
          truth,     \* ghost: key -> [val, exp] of the latest Set not followed by Delete/Reset-scan; missing otherwise
          raced,     \* ghost: keys whose latest Set happened between a scan that collected them and its sweep
          nextVal, lastGet
vars == <<store, now, maxTTL, pend, truth, raced, nextVal, lastGet>>
None == << >>

Init == /\ store = None /\ now = 0 /\ maxTTL \in MaxTTLs
        /\ pend = [p \in Procs |-> [a |-> FALSE, ks |-> {}, reset |-> FALSE]]
        /\ truth = None /\ raced = {} /\ nextVal = 1 /\ lastGet = [k |-> "none", res |-> Miss, ok |-> TRUE]

Idle(p) == ~pend[p].a
PendingKeys == UNION {pend[p].ks : p \in Procs}

Set(p, k, ttl) ==
  /\ Idle(p) /\ p # "cleaner" /\ nextVal <= 4
  /\ store' = SetTo(store, now, maxTTL, k, nextVal, ttl)
  /\ truth' = (k :> [val |-> nextVal, exp |-> now + Cap(ttl, maxTTL) * TPS]) @@ truth
  /\ raced' = (raced \ {k}) \cup (IF k \in PendingKeys THEN {k} ELSE {})
  /\ nextVal' = nextVal + 1
  /\ UNCHANGED <<now, maxTTL, pend, lastGet>>
Get(p, k) ==
  /\ Idle(p) /\ p # "cleaner"
  /\ LET r == GetRes(store, now, k) IN
     lastGet' = [k |-> k, res |-> r,
                 ok |-> r # Miss => (k \in DOMAIN truth /\ truth[k].val = r /\ now < truth[k].exp)]
  /\ UNCHANGED <<store, now, maxTTL, pend, truth, raced, nextVal>>
Delete(p, k) ==
  /\ Idle(p) /\ p # "cleaner"
  /\ store' = Del(store, {k}) /\ truth' = Restrict(truth, (DOMAIN truth) \ {k}) /\ raced' = raced \ {k}
  /\ UNCHANGED <<now, maxTTL, pend, nextVal, lastGet>>
CleanupScan(p) ==
  /\ Idle(p)
  /\ pend' = [pend EXCEPT ![p] = [a |-> TRUE, ks |-> Expired(store, now), reset |-> FALSE]]
  /\ UNCHANGED <<store, now, maxTTL, truth, raced, nextVal, lastGet>>
ResetScan(p) ==
  /\ Idle(p) /\ p # "cleaner"
  /\ pend' = [pend EXCEPT ![p] = [a |-> TRUE, ks |-> DOMAIN store, reset |-> TRUE]]
  /\ UNCHANGED <<store, now, maxTTL, truth, raced, nextVal, lastGet>>
Sweep(p) ==
  /\ ~Idle(p)
  /\ store' = Del(store, pend[p].ks)
  /\ pend' = [pend EXCEPT ![p] = [a |-> FALSE, ks |-> {}, reset |-> FALSE]]
  /\ IF pend[p].reset                            \* the reset takes effect here, for every key it collected
       THEN truth' = Restrict(truth, (DOMAIN truth) \ pend[p].ks) /\ raced' = raced \ pend[p].ks
       ELSE UNCHANGED <<truth, raced>>
  /\ UNCHANGED <<now, maxTTL, nextVal, lastGet>>
Advance == /\ now < MaxNow /\ now' = now + 1
           /\ UNCHANGED <<store, maxTTL, pend, truth, raced, nextVal, lastGet>>

Next == \/ Advance
        \/ \E p \in Procs : \/ \E k \in Keys : (\E t \in TTLs : Set(p, k, t)) \/ Get(p, k) \/ Delete(p, k)
                            \/ CleanupScan(p) \/ ResetScan(p) \/ Sweep(p)
Spec == Init /\ [][Next]_vars

(* C15 clause 1: a hit is the latest Set, not deleted/reset since, strictly younger than its (capped) TTL *)
HitIsLatestLive ==
  lastGet.ok      \* evaluated when the Get happened
(* C15 clause 2: an entry that is live and that nobody refreshed during a cleanup is never missing *)
LiveNeverVanishes ==
  \A k \in DOMAIN truth : (truth[k].exp > now /\ k \notin raced) => (k \in DOMAIN store /\ store[k] = truth[k])
(* the cap *)
CapApplied == \A k \in DOMAIN store : maxTTL > 0 => store[k].exp <= now + maxTTL
=============================================================================
