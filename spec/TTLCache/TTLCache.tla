------------------------------ MODULE TTLCache ------------------------------
(* C15 - ttlcache as a state machine.  Time is in ticks, TPS ticks per       *)
(* second (ttl values are whole seconds, as in the API).  Cleanup            *)
(* and Reset are TWO steps (scan, then bulk delete), exactly the documented  *)
(* race of ttlcache.go:Cleanup/Reset and nothing else: a key refreshed       *)
(* between the scan and the delete is deleted.                               *)
EXTENDS Integers, FiniteSets, TLC

CONSTANT TPS                    \* ticks per second: 1 in the exhaustive configurations, 10 for traces (100 ms)

Miss == -1                      \* Get result for "not found"

Cap(ttl, maxTTL) == IF maxTTL > 0 /\ ttl > maxTTL THEN maxTTL ELSE ttl

Restrict(f, S) == [x \in S |-> f[x]]

SetTo(store, now, maxTTL, k, v, ttl) == (k :> [val |-> v, exp |-> now + Cap(ttl, maxTTL) * TPS]) @@ store
GetRes(store, now, k) == IF k \in DOMAIN store /\ store[k].exp > now THEN store[k].val ELSE Miss   \* ttlcache.go:80 exp.After(now)
Del(store, ks) == Restrict(store, (DOMAIN store) \ ks)
Expired(store, now) == {k \in DOMAIN store : store[k].exp < now}                                   \* ttlcache.go:119 exp.Before(now)
=============================================================================
