SPECIFICATION Spec
CONSTANTS TPS = 1 Keys = {"a", "b"} MaxTTLs = {0, 2} TTLs = {1, 3} MaxNow = 4 Procs = {"c1", "cleaner"}
INVARIANTS HitIsLatestLive LiveNeverVanishes CapApplied
CHECK_DEADLOCK FALSE
