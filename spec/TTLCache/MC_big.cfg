SPECIFICATION Spec
CONSTANTS TPS = 1 Keys = {"a", "b"} MaxTTLs = {0, 2} TTLs = {1, 2, 3} MaxNow = 5 Procs = {"c1", "c2", "cleaner"}
INVARIANTS HitIsLatestLive LiveNeverVanishes CapApplied
CHECK_DEADLOCK FALSE
