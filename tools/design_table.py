#!/usr/bin/env python3
"""design_table.py : rewrite the numeric columns of the DESIGN.md §0 table (TLC states, real executions, hook-level traces,
quick wall) from the evidence files in /verif/evidence.  Run after a quick sweep of all checks."""
import json, re, os
root = os.path.dirname(os.path.dirname(os.path.abspath(__file__)))
def fmt(n):
    if n is None: return "–"
    if n < 10000: return str(n)
    if n < 1000000: return f"{round(n/1000)}k"
    return f"{n/1e6:.1f}M"
p = os.path.join(root, "DESIGN.md")
out = []
for line in open(p):
    m = re.match(r"^\| (C\d\d) \|", line)
    cells = line.rstrip("\n").split("|")
    if m and len(cells) == 10:
        ev = os.path.join(root, "evidence", m.group(1) + ".json")
        if os.path.exists(ev):
            e = json.load(open(ev))
            if e["tier"] == "quick":
                c = e["coverage"]
                cells[5] = f" {fmt(c.get('states'))} "
                cells[6] = f" {fmt(c.get('evaluations'))} "
                cells[7] = f" {fmt(c.get('impl_traces_validated'))} "
                cells[8] = f" {round(e['wall_s'])} s "
                line = "|".join(cells) + "\n"
    out.append(line)
open(p, "w").write("".join(out))
