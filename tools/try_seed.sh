#!/bin/bash
# tools/try_seed.sh <patch.diff> <id> [tier] : run check <id> against a scratch worktree of /repo's HEAD
# with the seeded change applied.  /repo itself is never touched.  Prints rc and the verdict lines.
set -u
patch="$(realpath "$1")"; id="$2"; tier="${3:-quick}"
wt="$(mktemp -d /tmp/tryseed-XXXXXX)"; rmdir "$wt"
git -C /repo worktree add -q --detach "$wt" "${SEED_REV:-HEAD}" || exit 2
cleanup() { git -C /repo worktree remove --force "$wt" 2>/dev/null; rm -rf "$wt" "$evd"; }
evd="$(mktemp -d /tmp/tryseed-ev-XXXXXX)"
trap cleanup EXIT
if ! git -C "$wt" apply --3way "$patch" 2>"$evd/apply.err"; then echo "PATCH DOES NOT APPLY: $(head -3 "$evd/apply.err")"; exit 3; fi
cd /verif && VERIF_REPO="$wt" VERIF_EVIDENCE_DIR="$evd" ./check "$id" --tier "$tier" > "$evd/log" 2>&1; rc=$?
echo "rc=$rc"; grep -E '^(VIOLATION|INCONCLUSIVE|EVIDENCE)' "$evd/log" | cut -c1-260 | head -12; grep -c '^KNOWN-FINDING' "$evd/log" | sed 's/^/known-finding lines: /'
cp "$evd/log" "/tmp/try_seed.$id.last.log" 2>/dev/null
exit $rc
