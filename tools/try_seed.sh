#!/bin/bash
# tools/try_seed.sh <patch.diff> <id> [tier]  : apply a seeded change to /repo, run the check, undo.
set -u
patch="$1"; id="$2"; tier="${3:-quick}"
cd /repo || exit 2
if [ -n "$(git status --porcelain)" ]; then echo "repo not clean"; exit 2; fi
if ! git apply --3way "$patch" 2>/tmp/apply.err; then echo "PATCH DOES NOT APPLY: $(cat /tmp/apply.err | head -3)"; git reset -q --hard HEAD; exit 3; fi
git reset -q
cd /verif && ./check "$id" --tier "$tier" > /tmp/try_seed.$id.log 2>&1; rc=$?
git -C /repo checkout -- . ; git -C /repo clean -fdq
echo "rc=$rc"; grep -E '^(VIOLATION|KNOWN-FINDING|INCONCLUSIVE|EVIDENCE)' /tmp/try_seed.$id.log | cut -c1-300 | head -8
exit $rc
