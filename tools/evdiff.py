#!/usr/bin/env python3
"""evdiff.py A.json B.json [ratio] : compare every numeric leaf under .coverage of two evidence files of the same check
(A = the committed one, B = a fresh run) and print the leaves where B reports far less than A (B < ratio*A, default 0.8)
or a leaf that A has and B lacks.  Used to confirm that the committed evidence describes what a fresh quick run does."""
import json, sys

def leaves(x, path, out):
    if isinstance(x, bool):
        return
    if isinstance(x, (int, float)):
        out[path] = x
    elif isinstance(x, dict):
        for k, v in x.items():
            leaves(v, path + "." + k if path else k, out)
    elif isinstance(x, list):
        out[path + ".#len"] = len(x)

a = json.load(open(sys.argv[1])); b = json.load(open(sys.argv[2]))
ratio = float(sys.argv[3]) if len(sys.argv) > 3 else 0.8
la, lb = {}, {}
leaves(a.get("coverage", {}), "", la); leaves(b.get("coverage", {}), "", lb)
bad = 0
for k, v in sorted(la.items()):
    if "samples" in k or k.startswith("wall") or k.endswith("_ms") or k.endswith("wall_s"):
        continue
    if k not in lb:
        if v != 0:
            print(f"  MISSING {k}: committed={v} fresh=<absent>"); bad += 1
    elif v > 0 and lb[k] < ratio * v:
        print(f"  LESS    {k}: committed={v} fresh={lb[k]}"); bad += 1
sys.exit(1 if bad else 0)
