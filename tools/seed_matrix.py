#!/usr/bin/env python3
"""tools/seed_matrix.py [ID ...] : run every kept seeded change against its property's check (scratch worktree of
/repo's HEAD, or of meta.detect_rev if the change was neutralised by a later fix) and record the outcome in
seeded/<ID>-<k>/meta.json (key "detection") and seeded/RESULTS.md."""
import json, os, re, subprocess, sys, glob
ROOT = os.path.dirname(os.path.dirname(os.path.abspath(__file__)))
ids = sys.argv[1:]
rows = []
for d in sorted(glob.glob(f"{ROOT}/seeded/C*-*")):
    name = os.path.basename(d); pid = name.split("-")[0]
    if ids and pid not in ids: continue
    if os.environ.get("SEED_ONLY") and not re.search(os.environ["SEED_ONLY"], name): continue
    if not os.path.isdir(f"{ROOT}/harness/{pid.lower()}"): continue
    meta = json.load(open(f"{d}/meta.json"))
    if os.environ.get("SEED_STATUS") and not re.search(os.environ["SEED_STATUS"], (meta.get("detection") or {}).get("status", "not-run")): continue
    if meta.get("skip_matrix"):
        det = meta.get("detection", {})
        rows.append((name, det.get("status", "skipped"), ", ".join(det.get("keys", [])[:3]), (meta.get("summary") or "")[:110].replace("\n", " ").replace("|", "/")))
        continue
    patch = f"{d}/patch.rebased.diff" if os.path.exists(f"{d}/patch.rebased.diff") else f"{d}/patch.diff"
    env = dict(os.environ)
    rev = meta.get("detect_rev")
    if rev: env["SEED_REV"] = rev
    p = subprocess.run([f"{ROOT}/tools/try_seed.sh", patch, pid], capture_output=True, text=True, env=env)
    out = p.stdout
    keys = re.findall(r"^VIOLATION property=\S+ replay=\S+ key=(\S+)", out, re.M)
    rc = p.returncode
    status = "detected" if rc == 1 and keys else ("does-not-apply" if rc == 3 else ("inconclusive" if rc == 2 else "MISSED"))
    # the outcome at first contact (before any strengthening prompted by this change) is kept separately
    if "first_contact" not in meta:
        meta["first_contact"] = (meta.get("detection") or {}).get("status", status)
    meta["detection"] = {"check": f"./check {pid} --tier quick", "against": rev or "HEAD", "patch": os.path.basename(patch), "status": status, "keys": sorted(set(keys))[:6]}
    json.dump(meta, open(f"{d}/meta.json", "w"), indent=1)
    rows.append((name, status, ", ".join(sorted(set(keys))[:3]), (meta.get("summary") or "")[:110].replace("\n", " ").replace("|", "/")))
    print(name, status, keys[:2], flush=True)
res = f"{ROOT}/seeded/RESULTS.md"
# the table is rebuilt from every meta.json (so a partial run keeps the other rows)
with open(res, "w") as f:
    f.write("# Seeded changes vs checks (quick tier, VERIF_SEED=1)\n\n| seed | status now | at first contact | violation keys (first 3) | change |\n|---|---|---|---|---|\n")
    for d in sorted(glob.glob(f"{ROOT}/seeded/C*-*")):
        name = os.path.basename(d)
        try: meta = json.load(open(f"{d}/meta.json"))
        except Exception: continue
        det = meta.get("detection") or {}
        summ = (meta.get("summary") or meta.get("description") or "")[:110].replace("\n", " ").replace("|", "/")
        f.write(f"| {name} | {det.get('status', 'not-run')} | {meta.get('first_contact', det.get('status', ''))} | {', '.join(det.get('keys', [])[:3])} | {summ} |\n")
