#!/bin/bash
# Offline setup: pre-build the harness against /repo so the first check is fast.
set -e
cd "$(dirname "$0")/../harness"
export GOFLAGS=-mod=mod GOPROXY=off GOSUMDB=off GOTOOLCHAIN=auto
cp /repo/go.sum go.sum
go vet -tags "verif unit" ./... >/dev/null 2>&1 || true
# pre-compile every check package (a package that does not build is reported, not fatal: its check will say so itself)
for d in c*/; do go test -tags "verif unit" -count=1 -run '^$' "./$d" >/dev/null 2>&1 || echo "warning: harness/$d does not build"; done
java -cp /opt/veriftools/tla/tla2tools.jar tlc2.TLC -h >/dev/null 2>&1 || true
echo setup ok
