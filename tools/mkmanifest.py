#!/usr/bin/env python3
"""Regenerates /verif/MANIFEST.json from the table below (single source of truth)."""
import json, os, subprocess
ROOT = os.path.dirname(os.path.dirname(os.path.abspath(__file__)))
props = [json.loads(l) for l in open(os.path.join(ROOT, "properties.jsonl"))]

# id -> (level, technique, level text, level note, design ref)
CHECKS = {
 "C16": ("model_checking",
   "TLA+ contract monitor (StreamsContract) + implementation-shaped model (StreamsImpl) checked exhaustively by TLC; every run of the real wrappers over enumerated source scripts recorded and validated by TLC against the contract",
   "TLC explores every legal io.Reader script x buffer size x consumption path of an implementation-shaped model for small bounds and shows it never breaks the contract monitor; the same monitor then judges recorded executions of the real code over an exhaustive enumeration of chunkings/styles (N<=5 quick, N<=16 thorough) - the verdict comes from the real executions",
   "trusted: TLC, the harness's scripted sources obey the io.Reader contract, byte comparison done in Go (the spec sees ok/not ok)", "DESIGN.md#c16"),
 "C18": ("fault_enumeration",
   "TLA+ model of Write's filesystem steps with a Crash action (DirImpl) checked exhaustively by TLC against the contract monitor (DirContract); the real Write is run on a real directory with a crash injected at every step point of every Write of enumerated sequences, every filesystem projection judged by TLC against the same monitor",
   "every crash point (between any two filesystem operations, one crash exhaustively, two crashes sampled/exhaustive in thorough) of every sequence of 1-3 (4) Writes over 5 file sets is executed on the real code and real filesystem; the reader's view is projected at every step and judged by the TLA+ monitor; TLC separately explores the model of the steps exhaustively (15M states thorough)",
   "a crash is modelled as a panic out of Write at a verif step point (state on disk is what the completed syscalls left; no power-loss/unsynced-data semantics); trusted: TLC, the projection function in the harness", "DESIGN.md#c18"),
 "C15": ("model_checking",
   "TLA+ state machine of the cache with two-step Cleanup/Reset (TTLCache/TTLModel) checked exhaustively by TLC for the C15 clauses; every bounded operation sequence executed on the real cache (fake clock) and concurrent histories (call/return order, staged scan/sweep window, Stop vs parked cleaner) validated by TLC as behaviours of the same spec (linearization search)",
   "TLC checks the three clauses on all interleavings of 2 clients + cleaner (16M states thorough); the real cache is driven through every op sequence up to length 5 (6) over a 10-letter alphabet and through thousands of concurrent histories, each accepted only if TLC finds silent linearization steps explaining every Get result",
   "trusted: TLC, k8s FakeClock, the order of call/return records (taken under one mutex); the periodic cleaner is over-approximated (may scan at any time while on), which can only hide, never invent, a violation", "DESIGN.md#c15"),
 "C06": ("model_checking",
   "implementation-shaped TLA+ model of the Processor (token, reset, stop, loop pcs) checked exhaustively by TLC for NoStranded/on-time/once + liveness; real Processor driven by a gated scheduler through its decision points (all interleavings sampled, staged windows forced), observable traces judged by TLC against the ProcContract monitor with a silent Pop step",
   "TLC visits every interleaving of 3 clients x loop x clock of the model (0.75M states quick, more thorough, plus a liveness config); the real code is executed under ~700 (quick) to tens of thousands (thorough) controlled schedules with every loop decision point a gate, and each observable trace must be explainable by the contract (exactly once, not early, order, none stranded at quiescence, nothing after Close)",
   "trusted: TLC; quiescence detection by goroutine wait states (a run that cannot be driven is inconclusive, never a violation); fake clock = k8s FakeClock; schedules are sampled, not exhaustive, on the real code", "DESIGN.md#c06"),
 "C11": ("model_checking",
   "implementation-shaped TLA+ model of the Broadcaster (lock held across blocking sends, closeCh, closeEventCh, forwarders) checked exhaustively by TLC for common order, quiet-after-Close and liveness of Close/Broadcast; real Broadcaster driven by a gated scheduler (decision points + slow readers), observable traces judged by TLC against the BcastContract monitor",
   "TLC explores all interleavings of 2 subscribers (prompt/stalled) x 2 broadcasters x Close for buffer capacity 1-2 incl. liveness; the real code runs ~700 (quick) to tens of thousands (thorough) controlled schedules of staged and random programs (stalled readers with >10 outstanding, churn, Close at any point), each trace checked for exactly-once to stayers, at-most-once, one common order (acyclicity of the union of per-subscriber orders and call order), nothing after Close, no stuck call",
   "trusted: TLC; quiescence detection by goroutine wait states (undrivable runs are inconclusive); a receive counts as 'after Close' only if the reader began waiting after Close returned (sound, slightly weak); schedules sampled", "DESIGN.md#c11"),
 "C01": ("model_checking",
   "TLA+ model of the segment loop (EncFraming) and of the document/option structure (EncV1Format) checked exhaustively by TLC against contract monitors; the real processSegments loop run at small segment sizes over all reader scripts and the real Encrypt/Decrypt at 64 KiB over boundary lengths x ciphers x key-wrap ids/aliases x key-name options x reader/consumer chunkings, every run recorded (structure decomposed by an independent README-derived implementation) and judged by TLC",
   "framing: every reader script (all compositions, EOF styles, zero reads, errors) for S in {3,4} on the real loop via a verif export, validated by TLC; format: each produced document is decomposed by an independent implementation written from README.md and the structural trace (header lines, manifest fields, MAC span, per-segment length/counter/last flag/nonce) is validated by TLC; interop both ways incl. stored testdata",
   "trusted: TLC; the independent reference implementation (encref, ~300 lines, checked against the stored testdata); cryptographic primitives of the Go standard library", "DESIGN.md#c01"),
 "C02": ("model_checking",
   "symbolic (Dolev-Yao style) TLA+ model of documents, adversary operations and the decryptor (EncTamper) checked exhaustively by TLC: released bytes are always a prefix, clean EOF only on the full message, source errors surface; TLC exports every terminal state as a mutation script with predicted outcome, the scripts and byte-level sweeps are replayed on real documents and the outcomes judged by TLC against the contract monitor",
   "all documents of <=3 segments x <=2 (3) adversary operations x source failures explored on the model (3.9M states thorough); ~22k (quick) to ~100k (thorough) mutated real documents at the real segment size, both ciphers: every header bit, segment edges and tags, every truncation offset class, delete/duplicate/swap/append/splice, wrong key, source failures at 5 offset classes x error kinds x with/without data",
   "trusted: TLC; AES-GCM/ChaCha20-Poly1305/HMAC strength (symbolic model); known finding: header-only truncation (inherent in the format) listed in known-findings.txt", "DESIGN.md#c02"),
 "C08": ("model_checking",
   "TLA+ models of the shared state (BufPool with havoc-on-Put, logger Registry get-or-create, BytePool reuse) checked exhaustively by TLC over all interleavings; on the real code the havoc is made real by a poison-on-Put hook, pipelines run sequentially, under gated seeded schedules on one P and free-running under the race detector, and every outcome is judged by TLC against the SharedContract monitor",
   "TLC: 3 pipelines x 2-3 buffers all interleavings (44k-650k states), registry and byte pool models (3.3M states thorough); real code: ~600 sequential poisoned scenarios, 400 (10k) gated multi-pipeline schedules, 250 (6k) free-running waves, 5k (60k) concurrent NewLogger rounds, byte-pool sequences, all compared with each operation's own sequential result; race reports become rejected traces",
   "trusted: TLC, Go race detector, the poison hook (build tag verif); sync.Pool per-P behaviour is a runtime fact, which is why the poison hook (deterministic) carries the verdict for pooled-buffer aliasing", "DESIGN.md#c08"),
 "C10": ("model_checking",
   "implementation-shaped TLA+ model of the Batcher (lock held across blocking sends, forwarders, departure channel, Close after queue.Close) checked exhaustively by TLC incl. liveness of Close with a departing stalled subscriber; real Batcher (fake clock) driven by a gated scheduler, observable traces judged by TLC against the BatchContract monitor",
   "TLC explores all interleavings of 2 subscribers (one stalled and eventually leaving) x deliveries x Close for buffer capacity 1-2; the real code runs ~700 (quick) to tens of thousands (thorough) controlled schedules: last value per key once one interval after its call, suppressed values never delivered, not early, one common order, departures with >50 outstanding never wedge delivery/Batch/Close, channels closed when Close returns",
   "trusted: TLC; quiescence detection by goroutine wait states; k8s FakeClock; the Processor is abstracted to its contract in the model (C06 discharges it) but is the real one in the executions", "DESIGN.md#c10"),
 "C12": ("model_checking",
   "implementation-shaped TLA+ model of RunnerManager/RunnerCloserManager (CloserMgr) checked exhaustively by TLC against the MgrContract monitor over runner/closer behaviours x completion orders x Close placements x grace modes; the real managers run with harness-owned runners/closers inside testing/synctest so completion orders are enumerated and the grace timer is exact; every trace judged by TLC against the monitor",
   "133k (quick) to 12M (thorough) model states; 11.8k (quick) to 175k (thorough) real scenarios: every result assignment x release order for up to 3-4 runners and closers, 10 Close placements, 5 grace modes, 7 AddCloser modes incl. the gated race, second Run, Add after Run",
   "trusted: TLC, testing/synctest virtual time, the addcloser.afterCheck gate (build tag verif)", "DESIGN.md#c12"),
 "C14": ("model_checking",
   "sequential TLA+ objects (SeqMap, AtomicMap, SeqSlice) with a generic linearization trace spec: TLC searches for a linearization of every recorded concurrent history; implementation-shaped lock model (CMapImpl) checked exhaustively; Ring.tla/BufRing.tla: TLC enumerates the full transition graph / operation strings and the real rings are replayed against it (three-way agreement with container/ring)",
   "6.6k (quick) to 54k (thorough) concurrent histories (lockstep barrier to force overlap), 75k to 17M model states, every ring transition for N<=5 (6) cells incl. zero-value rings, every AppendBack/RemoveFront string up to length 9 (12) for all 49 (initial,buffer) size pairs in -1..5",
   "trusted: TLC; call/return order recorded under one mutex; Unlink(n) with n%Len=0 is left to kit-vs-container/ring agreement (documentation ambiguous)", "DESIGN.md#c14"),
 "C04": ("model_checking",
   "declarative TLA+ semantics of the cron grammar and of Next (field sets, either-day rule, calendar, time zones as data exported from tzdata) - not the implementation's algorithm; TLC checks the per-interval oracle against the brute-force definition, enumerates the single-term grammar (replayed on the real parser) and judges every recorded Parse/Next call of the real code",
   "80k (quick) to 380k (thorough) enumerated terms replayed on the real parser; ~6k (quick) to ~143k (thorough) Next calls over 22 zones with start instants around every transition 2010-2035, TZ prefixes, foreign-zone instants, time.Local reassigned; each judged by TLC for minimality/zero-time/@every",
   "trusted: TLC, Go's tzdata and time.ZoneBounds; known findings: 11 per-zone keys for zones whose transitions are not whole hours on the hour / at local midnight / skip a day (see known-findings.txt) - those zones are exempt, all others fully checked", "DESIGN.md#c04"),
 "C03": ("exploration",
   "TLA+ transcription of the documented algorithm table (CryptoDispatch: 19+5+10 names, key/nonce/tag sizes, padding, AAD binding) with Allowed(case) = admissible outcome classes; TLC enumerates the case space and validates the recorded outcome of every real call; byte-level facts by round trip and agreement with independent references (stdlib, own RFC 3394 / RFC 7518 code seeded with the RFC vectors)",
   "14.6k cases / 45k real calls (quick) to 34k cases / 475k calls (thorough): every algorithm x key size x nonce/tag length x message length class x every single-byte mutation of every component; TLC also checks the recorded runs are exactly the spec's case space",
   "TLC decides which outcome class is admissible; the bytes are judged by Go against independent references (trusted base: Go stdlib, x/crypto, ~300 lines of reference code checked against RFC vectors)", "DESIGN.md#c03"),
 "C17": ("exploration",
   "TLA+ ownership table (MemDispatch: MayWrite per exported function) and configuration space enumerated by TLC; every configuration executed on the real functions with all arguments cut from one canary arena (spare capacity 0..64 per argument); TLC checks written is a subset of MayWrite for every recorded call and completeness of the run",
   "33.7k (quick) to 145k (thorough) calls: 16 functions x algorithms x spare-capacity vectors x lengths around block boundaries x success and each failure path; whole arena compared bit for bit",
   "TLC contributes the configuration space and the MayWrite table; the observation (canaries) is plain Go", "DESIGN.md#c17"),
 "C07": ("exploration",
   "TLA+ shape grammar per entry point (InputShapes: 37 families) enumerated by TLC and rendered to bytes/values by Go; every shape fed to the real entry point in a child process under recover and a watchdog; outcomes judged by TLC against the ShapesContract monitor (ok or error, except named misuse)",
   "86k shapes / 131k real calls (quick) to 900k shapes / 1.16M calls (thorough) over ~40 entry points; hangs confirmed by a second 25 s run; fatal crashes attributed through an mmap'd in-flight record",
   "a structured shape space, not arbitrary byte strings (coverage-guided fuzzing is a different technique and not used); documented misuse panics excluded by name in the spec", "DESIGN.md#c07"),
 "C20": ("model_checking",
   "implementation-shaped TLA+ model of context.Pool (watcher pcs, read/write lock hand-over, closed, members vs maybe-members) checked exhaustively by TLC for NeverEarly and eventual cancellation; real Pool driven by a gated scheduler over the watcher's decision points and the entries of Add/Cancel, observed at every quiescent point, traces judged by TLC against the PoolContract monitor",
   "all interleavings of 2-3 initial contexts (any subset pre-cancelled) x 2-3 Adds x member ends x Cancel on the model (98k states thorough config); ~1.5k (quick) to ~50k (thorough) controlled schedules of staged and random programs on the real code incl. Add racing the end of the last member and Cancel, never-ending contexts, empty pools",
   "trusted: TLC; quiescence detection by goroutine wait states; an Add that overlaps the end of the last live member or Cancel is 'maybe a member' (the statement's own definition leaves it open)", "DESIGN.md#c20"),
 "C05": ("model_checking",
   "implementation-shaped TLA+ model of the cron run loop (CronSched: sorted entries, one timer, select over timer/add/snapshot/stop/remove, rendezvous channels, job WaitGroup, FakeClock timer semantics) checked exhaustively by TLC against the CronContract monitor incl. liveness; the real Cron (fake clock, harness schedules that record every Next argument and its zone, real specs under WithLocation) driven by the gated scheduler in sequential and racing histories plus ungated Stop-vs-wake rounds; every trace judged by TLC against the contract",
   "159k (quick) to 8.5M (thorough) model states; 706 (quick) to 11.5k (thorough) histories: every activation the clock reaches starts its job once, never early/twice, none lost after Add/Remove of other entries, nothing after Remove/Stop returned, Stop's context only after started jobs returned, Entries' next/prev are the instants actually used, Schedule.Next always handed the wake time in the cron's location",
   "trusted: TLC, k8s FakeClock (a timer armed with a non-positive duration needs a Step(0) nudge), quiescence by goroutine wait states; time in ticks of 30 min so that half-hour location offsets are whole ticks; Run() (blocking Start) not exercised", "DESIGN.md#c05"),
 "C19": ("model_checking",
   "implementation-shaped TLA+ model of SPIFFE (RWMutex with pending writer, readyCh, current SVID, Run/Ready/Get processes in every first-call order, rotation loop in seconds, issuer scripts) checked exhaustively by TLC against the SpiffeContract monitor incl. liveness; the real SPIFFE with a harness-owned issuer/CA, a real identity directory and a fake clock driven by the gated scheduler; every trace judged by TLC",
   "392k (quick) to 11.1M (thorough) model states over validity windows x failure sequences x step sizes, all 24 first-call orders x 4 initial-fetch outcomes on the real code, 516 (quick) to 5.4k (thorough) runs / 1.2k+ issuer requests: calls return once the initial fetch finished, latest good SVID served (memory and files), renewal within 60 s of half-life (also when handed out past it), 10 s retry, fresh key per request, consistent published file set",
   "trusted: TLC, k8s FakeClock (wrapped so After(d<=0) fires at once), the harness CA; 'SVID published after readiness' has no gate between close(readyCh) and the publication, so that class is caught only by timing (3 of 516 runs)", "DESIGN.md#c19"),
 "C09": ("model_checking",
   "implementation-shaped TLA+ model of the coalescing limiter (RWMutex, WaitGroup, token and signal sender goroutines, Run's program counter, fake timer) whose observable steps feed the CoalContract monitor (a nondeterministic machine tracked as the set of compatible states), checked exhaustively by TLC incl. liveness; the real limiter (fake ticker) driven by the gated scheduler over Add bursts, clock steps, prompt/slow consumers, Close and cancel; every trace judged by TLC",
   "329k (quick) to ~21M (thorough) model states; 325 (quick) to ~5k (thorough) schedules incl. sequential timelines whose signal timeline is unique and compared exactly: first Add signalled at once, windows double up to MaxDelay, cap forces a signal, one signal per burst, signals <= Adds, no Add lost, Close returns only after all helpers finished and never deadlocks",
   "trusted: TLC, k8s FakeClock, quiescence by goroutine wait states; exhaustive monitored configurations are bounded to <=3 Adds / time <=3 (the monitor's uncertainty set multiplies states), larger constants in simulation only", "DESIGN.md#c09"),
 "C13": ("model_checking",
   "one implementation-shaped TLA+ model per primitive (FifoMutex, FifoMap, CmapMutex with mutex objects that can go stale, CtxLock, OuterCancel) feeding the shared LockContract monitor, checked exhaustively by TLC; the real primitives driven by the gated scheduler (fifo map / cmap look-up windows, FIFO arrival order from goroutine wait states, context cancellation at hand-over) and inside testing/synctest (OuterCancel grace period in exact virtual time), an occupancy monitor around every critical section; traces judged by TLC",
   "283k (quick) to 14.2M (thorough) model states over 10-16 passing configs (+7-8 defect configs that must be caught); 1.5k (quick) to 26k (thorough) scenarios in re-exec'ed child processes: never two exclusive holders, never a writer with an un-stopped reader, FIFO grant order, no leaked per-key entry, failed acquisition holds nothing, cancelled waiter stops waiting, outer-cancel writer only after grace since ITS request, reader cancelled only for the four allowed reasons",
   "trusted: TLC, FIFO-ness of Go's channel send queue (axiom of FifoMutex.tla), testing/synctest virtual time; a rejected run is reported only if it is rejected again in a fresh process; plain Delete by a bystander is outside the property's 'correctly paired' quantifier", "DESIGN.md#c13"),
}

def hook_commits():
    try:
        out = subprocess.run(["git", "-C", "/repo", "log", "--format=%H %s"], capture_output=True, text=True).stdout
        return [l.split()[0] for l in out.splitlines() if " verif-hook:" in l]
    except Exception:
        return []

checks, na = [], []
for p in props:
    i = p["id"]
    if i in CHECKS:
        lvl, tech, text, note, ref = CHECKS[i]
        checks.append({
            "property_id": i,
            "quick_cmd": f"./check {i} --tier quick",
            "thorough_cmd": f"./check {i} --tier thorough",
            "evidence_file": f"/verif/evidence/{i}.json",
            "replay_cmd_template": f"./check {i} --replay {{path}}",
            "engine": "tlc+go-harness",
            "level_claimed": {"category": lvl, "text": text, "design_ref": ref},
            "level_note": note,
            "technique": tech,
        })
    else:
        na.append({"property_id": i, "reason": "check not built yet in this round (planned, see DESIGN.md); not claimed until it runs"})

m = {
 "version": 1,
 "setup_cmd": "cd /verif && ./tools/setup.sh",
 "hooks": {
   "guard": "verif",
   "enable": "go test -tags 'verif unit' (harness module /verif/harness replaces github.com/dapr/kit => /repo)",
   "baseline_off_cmd": "cd /repo && GOFLAGS=-mod=mod GOPROXY=off GOSUMDB=off go test -vet=off -count=1 -timeout 25m ./...",
   "source_commits": hook_commits(),
   "add_only": True,
 },
 "engines": [{"name": "tlc+go-harness", "path": "/verif/harness", "serves_properties": sorted(CHECKS),
              "kind_free_text": "TLA+ specifications under /verif/spec checked with TLC; Go harness records traces from the real code (module replace => /repo) and has TLC validate them; TLC-generated behaviours replayed into the real code"}],
 "checks": checks,
 "not_applicable": na,
 "notes": "One check per property: ./check <id> --tier quick|thorough. Exit 0 ok / 1 VIOLATION / 2 inconclusive. Known findings in known-findings.txt. Every concurrent component's implementation-shaped model is additionally bound to the code by hook-level trace validation (DRIFT lines, never a verdict). Beyond the listed properties the specification covers thirteen more components as extension checks ./check X01..X13 (spec/ext/*, harness/x01..x13; DESIGN.md section 6) - they are not properties and are not registered here. spec/INDEX.md lists every TLA+ module and configuration.",
}
json.dump(m, open(os.path.join(ROOT, "MANIFEST.json"), "w"), indent=1)
print("claimed:", sorted(CHECKS), "not_applicable:", len(na))
