#!/usr/bin/env python3
"""tools/confirm_seed.py <ID> <k> : independently confirm a seeded change produced by a sub-agent
(in /tmp/seed/<ID>.out/<k>) in a scratch worktree of /repo's HEAD: patch applies, builds, full test
suite passes (both tag modes; a failing package is re-run 3x to rule out flakes), demo passes on
the clean tree and fails with the patch.  On success copies it to /verif/seeded/<ID>-<k>/."""
import json, os, re, shutil, subprocess, sys, glob, tempfile
ID, k = sys.argv[1], sys.argv[2]
base = os.environ.get("SEED_SRC", "/tmp/seed"); tagn = os.environ.get("SEED_TAG", "")
src = f"{base}/{ID}.out/{k}"
env = dict(os.environ, GOFLAGS="-mod=mod", GOPROXY="off", GOSUMDB="off")
def sh(cmd, cwd, timeout=1500):
    p = subprocess.run(cmd, shell=True, cwd=cwd, env=env, capture_output=True, text=True, timeout=timeout)
    return p.returncode, p.stdout + p.stderr
meta = json.load(open(f"{src}/meta.json"))
demo_cmd = meta.get("demo_cmd", "")
if isinstance(demo_cmd, list): demo_cmd = " ; ".join(demo_cmd)
tests = [f for f in glob.glob(f"{src}/*_test.go")]
m = re.findall(r"go test[^;&|]*?\s\./([\w/.-]+?)/?(?:\s|$|\))", demo_cmd)
run = re.findall(r"-run[ =]'?\"?([^\s'\"]+)", demo_cmd)
res = {"id": ID, "k": k, "summary": meta.get("summary")}
if not tests or not m:
    res["error"] = f"cannot locate demo (tests={tests}, dirs={m})"; print(json.dumps(res)); sys.exit(1)
pkg = m[-1]; runpat = run[-1] if run else "."
wt = tempfile.mkdtemp(prefix=f"confirm-{ID}-{k}-", dir="/tmp")
os.rmdir(wt)
try:
    rev = os.environ.get("SEED_REV", "HEAD")
    rc, out = sh(f"git -C /repo worktree add -q --detach {wt} {rev}", "/")
    assert rc == 0, out
    for t in tests: shutil.copy(t, f"{wt}/{pkg}/")
    demo = f"go test -vet=off -count=1 -tags unit -run '{runpat}' ./{pkg}/"
    rc, out = sh(demo, wt, 600); res["demo_clean_rc"] = rc
    if rc != 0: res["demo_clean_out"] = out[-1500:]
    rc, out = sh(f"git apply --3way {src}/patch.diff && git reset -q", wt)
    res["applies"] = rc == 0
    if rc != 0:
        res["apply_err"] = out[-500:]; print(json.dumps(res)); sys.exit(1)
    rc, out = sh(demo, wt, 600); res["demo_patched_rc"] = rc; res["demo_patched_tail"] = out[-600:]
    for t in tests: os.remove(f"{wt}/{pkg}/{os.path.basename(t)}")
    rc, out = sh("go build ./...", wt); res["build_rc"] = rc
    suite = {}
    for mode, flag in (("notag", ""), ("unit", "-tags unit")):
        rc, out = sh(f"go test -vet=off -count=1 {flag} ./... 2>&1", wt)
        fails = [l.split()[1] for l in out.splitlines() if l.startswith("FAIL\t") and "[build failed]" not in l]
        bfail = [l.split()[1] for l in out.splitlines() if l.startswith("FAIL\t") and "[build failed]" in l]
        real = []
        for p in fails:
            rel = p.replace("github.com/dapr/kit", ".")
            # timing-sensitive packages (cron, crypto/spiffe*) flake under machine load on the clean tree as well: a package counts
            # as failing only if none of 4 separate re-runs passes
            ok_once = False
            for _ in range(4):
                rc2, out2 = sh(f"go test -vet=off -count=1 {flag} {rel}", wt)
                if rc2 == 0: ok_once = True; break
            if not ok_once: real.append(p)
        suite[mode] = {"failed_once": fails, "failed_on_3x_rerun": real, "build_failed": bfail}
    res["suite"] = suite
    expected_bf = {"github.com/dapr/kit/concurrency", "github.com/dapr/kit/events/ratelimiting", "github.com/dapr/kit/fswatcher"}
    ok = (res["demo_clean_rc"] == 0 and res["demo_patched_rc"] != 0 and res["build_rc"] == 0
          and not suite["notag"]["failed_on_3x_rerun"] and not suite["unit"]["failed_on_3x_rerun"]
          and set(suite["notag"]["build_failed"]) <= expected_bf and not suite["unit"]["build_failed"])
    res["confirmed"] = ok
    if ok:
        dst = f"/verif/seeded/{ID}-{tagn}{k}"
        os.makedirs(dst, exist_ok=True)
        for f in os.listdir(src): shutil.copy(f"{src}/{f}", dst)
        meta["confirmed_by_main"] = {"worktree_of": subprocess.run("git -C /repo rev-parse --short " + os.environ.get("SEED_REV", "HEAD"), shell=True, capture_output=True, text=True).stdout.strip(),
            "demo_cmd": demo, "demo_clean": "pass", "demo_patched": "fail", "suite": suite}
        json.dump(meta, open(f"{dst}/meta.json", "w"), indent=1)
finally:
    sh(f"git -C /repo worktree remove --force {wt}", "/")
print(json.dumps(res))
