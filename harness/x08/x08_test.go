// X08 (extension check) — github.com/dapr/kit/errors: ErrorBuilder (NewBuilder, With*, Build) and the
// *Error it builds (codes, ErrorCode, Error/String, AddDetails, GRPCStatus, JSONErrorValue, FromError, Is).
//
//   - spec/ext/ErrorsBuilder/ErrorsBuilderContract.tla: the documented contract (README.md, doc comments,
//     errors_test.go) as a deterministic monitor over call sequences on ONE builder and the errors built from it:
//     Build panics iff no ErrorInfo was passed; a built error carries exactly the details passed before Build plus
//     those added to it by AddDetails, in order; no call on the builder or on another error changes it; codes,
//     error code, string format, gRPC status and JSON rendering as documented.
//   - ErrorsBuilderModel.tla: implementation-shaped model (Go slices with the runtime's append rule); the state
//     holds the call history, so TLC enumerates EVERY call sequence up to MaxLen, checks the (repaired) model
//     against the monitor and prints the case table (what the contract expects after each sequence).  The
//     as-found variant (Build returns the builder's slice header) and four more defect variants are rejected.
//   - every enumerated sequence is replayed on the real package (the maximal sequences are run, every prefix of
//     them is an enumerated sequence and is compared with its exported expectation); after EVERY call ALL errors
//     built so far are re-observed (gRPC status details decoded, JSON decoded by the documented field names,
//     a fresh FromError of the value Build returned).  The recorded runs are judged by TLC (TraceErrorsBuilder.tla).
//   - seeded longer random call sequences (full alphabet) are recorded and judged the same way.
//   - FromError / Is facts are recorded per group and judged by TLC.
package x08

import (
	"bytes"
	"encoding/json"
	"errors"
	"fmt"
	"io"
	"math/rand"
	"os"
	"sort"
	"strconv"
	"strings"
	"sync"
	"sync/atomic"
	"testing"
	"time"

	"google.golang.org/genproto/googleapis/rpc/errdetails"
	"google.golang.org/grpc/codes"
	"google.golang.org/protobuf/types/known/durationpb"

	kit "github.com/dapr/kit/errors"
	"github.com/dapr/kit/logger"

	"verifharness/internal/ev"
	"verifharness/internal/tlc"
	"verifharness/internal/tv"
)

const specDir = "ext/ErrorsBuilder"

// ---------------------------------------------------------------- alphabet (mirrors ErrorsBuilderContract.tla)

type variant struct {
	Name string
	Grpc codes.Code
	HTTP int
	Msg  string
	Tag  string
	Cat  string
}

var variants = map[string]variant{
	"tag":    {"tag", codes.ResourceExhausted, 418, "state store is busy", "DAPR_STATE_BUSY", "state"},
	"notag":  {"notag", codes.NotFound, 404, "pubsub pubsub1 is not found", "", "pubsub"},
	"okcode": {"okcode", codes.OK, 400, "http only error", "", "http"},
}

func (v variant) reset(n int) tv.M {
	return tv.M{"kind": "seq", "vname": v.Name, "grpc": v.Grpc.String(), "http": v.HTTP, "msg": v.Msg, "tag": v.Tag, "cat": v.Cat,
		"okcode": v.Grpc == codes.OK, "n": n}
}

func (v variant) goNew() string {
	return fmt.Sprintf("b := kiterrors.NewBuilder(codes.%s, %d, %q, %q, %q)", v.Grpc.String(), v.HTTP, v.Msg, v.Tag, v.Cat)
}

// the content of a decoded detail -> the atom the specification uses for it
var atoms = map[string]string{
	"REASON_A|dapr.io|k=v":                         "e1",
	"REASON_B|dapr.io|":                            "e2",
	"REASON_C|dapr.io|x=y":                         "e3",
	"state|store1|owner1|resource not found":       "r1",
	"https://docs.dapr.io/1|first link":            "l1",
	"https://docs.dapr.io/2|second link":           "l2",
	"https://docs.dapr.io/3|third link":            "l3",
	"field1|must not be empty":                     "f1",
	"field2|must be positive":                      "f2",
	"en-US|hello":                                  "m1",
	"de-DE|hallo":                                  "m2",
	"subj1|quota exceeded":                         "q1",
	"*durationpb.Duration|7":                       "u1",
	"s1,s2|debug detail":                           "d1",
	"TOS|subj2|terms of service not accepted":      "p1",
	"https://docs.dapr.io/k|link passed as detail": "k1",
}

func atom(content string) string {
	if a, ok := atoms[content]; ok {
		return a
	}
	return "?" + content
}

var withOps = []string{"EI1", "EI2", "RI", "HL", "H2", "FV1", "FV2", "WD0", "WD1", "WD2", "WDU"}

var goOf = map[string]string{
	"EI1": `b.WithErrorInfo("REASON_A", map[string]string{"k": "v"})`,
	"EI2": `b.WithErrorInfo("REASON_B", nil)`,
	"RI":  `b.WithResourceInfo("state", "store1", "owner1", "resource not found")`,
	"HL":  `b.WithHelpLink("https://docs.dapr.io/1", "first link")`,
	"H2":  `b.WithHelp([]*errdetails.Help_Link{{Url: "https://docs.dapr.io/2", Description: "second link"}, {Url: "https://docs.dapr.io/3", Description: "third link"}})`,
	"FV1": `b.WithFieldViolation("field1", "must not be empty")`,
	"FV2": `b.WithFieldViolation("field2", "must be positive")`,
	"WD0": `b.WithDetails()`,
	"WD1": `b.WithDetails(&errdetails.LocalizedMessage{Locale: "en-US", Message: "hello"})`,
	"WD2": `b.WithDetails(&errdetails.ErrorInfo{Reason: "REASON_C", Domain: kiterrors.Domain, Metadata: map[string]string{"x": "y"}}, &errdetails.QuotaFailure_Violation{Subject: "subj1", Description: "quota exceeded"})`,
	"WDU": `b.WithDetails(&durationpb.Duration{Seconds: 7})`,
	"A1":  `.AddDetails(&errdetails.DebugInfo{StackEntries: []string{"s1", "s2"}, Detail: "debug detail"})`,
	"A3":  `.AddDetails(&errdetails.LocalizedMessage{Locale: "de-DE", Message: "hallo"})`,
	"A2":  `.AddDetails(&errdetails.PreconditionFailure_Violation{Type: "TOS", Subject: "subj2", Description: "terms of service not accepted"}, &errdetails.Help_Link{Url: "https://docs.dapr.io/k", Description: "link passed as detail"})`,
}

func applyWith(b *kit.ErrorBuilder, op string) bool {
	switch op {
	case "EI1":
		b.WithErrorInfo("REASON_A", map[string]string{"k": "v"})
	case "EI2":
		b.WithErrorInfo("REASON_B", nil)
	case "RI":
		b.WithResourceInfo("state", "store1", "owner1", "resource not found")
	case "HL":
		b.WithHelpLink("https://docs.dapr.io/1", "first link")
	case "H2":
		b.WithHelp([]*errdetails.Help_Link{{Url: "https://docs.dapr.io/2", Description: "second link"}, {Url: "https://docs.dapr.io/3", Description: "third link"}})
	case "FV1":
		b.WithFieldViolation("field1", "must not be empty")
	case "FV2":
		b.WithFieldViolation("field2", "must be positive")
	case "WD0":
		b.WithDetails()
	case "WD1":
		b.WithDetails(&errdetails.LocalizedMessage{Locale: "en-US", Message: "hello"})
	case "WD2":
		b.WithDetails(&errdetails.ErrorInfo{Reason: "REASON_C", Domain: kit.Domain, Metadata: map[string]string{"x": "y"}},
			&errdetails.QuotaFailure_Violation{Subject: "subj1", Description: "quota exceeded"})
	case "WDU":
		b.WithDetails(&durationpb.Duration{Seconds: 7})
	default:
		return false
	}
	return true
}

func applyAdd(h *kit.Error, v int) {
	switch v {
	case 1:
		h.AddDetails(&errdetails.DebugInfo{StackEntries: []string{"s1", "s2"}, Detail: "debug detail"})
	case 2:
		h.AddDetails(&errdetails.PreconditionFailure_Violation{Type: "TOS", Subject: "subj2", Description: "terms of service not accepted"},
			&errdetails.Help_Link{Url: "https://docs.dapr.io/k", Description: "link passed as detail"})
	case 3:
		h.AddDetails(&errdetails.LocalizedMessage{Locale: "de-DE", Message: "hallo"})
	}
}

// parseOp: "B" | a With* code | "A<v>.<j>"
func parseOp(op string) (kind string, v, tgt int) {
	if op == "B" {
		return "build", 0, 0
	}
	if strings.HasPrefix(op, "A") && strings.Contains(op, ".") {
		parts := strings.SplitN(op[1:], ".", 2)
		v, _ = strconv.Atoi(parts[0])
		tgt, _ = strconv.Atoi(parts[1])
		return "adddetails", v, tgt
	}
	return "with", 0, 0
}

// ---------------------------------------------------------------- observation of a built error

type built struct {
	err error      // the value Build returned
	h   *kit.Error // the handle: FromError(err) right after Build; AddDetails is called on it
}

func metaStr(m map[string]string) string {
	var kv []string
	for k, v := range m {
		kv = append(kv, k+"="+v)
	}
	sort.Strings(kv)
	return strings.Join(kv, ",")
}

// detail decoded from the gRPC status -> <<kind, atom, ...>>
func tokGRPC(d any) []string {
	switch m := d.(type) {
	case *errdetails.ErrorInfo:
		return []string{"EI", atom(m.GetReason() + "|" + m.GetDomain() + "|" + metaStr(m.GetMetadata()))}
	case *errdetails.ResourceInfo:
		return []string{"RI", atom(m.GetResourceType() + "|" + m.GetResourceName() + "|" + m.GetOwner() + "|" + m.GetDescription())}
	case *errdetails.Help:
		out := []string{"H"}
		for _, l := range m.GetLinks() {
			out = append(out, atom(l.GetUrl()+"|"+l.GetDescription()))
		}
		return out
	case *errdetails.BadRequest:
		out := []string{"BR"}
		for _, f := range m.GetFieldViolations() {
			out = append(out, atom(f.GetField()+"|"+f.GetDescription()))
		}
		return out
	case *errdetails.LocalizedMessage:
		return []string{"LM", atom(m.GetLocale() + "|" + m.GetMessage())}
	case *errdetails.QuotaFailure_Violation:
		return []string{"QV", atom(m.GetSubject() + "|" + m.GetDescription())}
	case *errdetails.DebugInfo:
		return []string{"DI", atom(strings.Join(m.GetStackEntries(), ",") + "|" + m.GetDetail())}
	case *errdetails.PreconditionFailure_Violation:
		return []string{"PV", atom(m.GetType() + "|" + m.GetSubject() + "|" + m.GetDescription())}
	case *errdetails.Help_Link:
		return []string{"HK", atom(m.GetUrl() + "|" + m.GetDescription())}
	case *durationpb.Duration:
		return []string{"UN", atom(fmt.Sprintf("*durationpb.Duration|%d", m.GetSeconds()))}
	case error:
		return []string{"?undecodable"}
	}
	return []string{"?" + fmt.Sprintf("%T", d)}
}

const typePrefix = "type.googleapis.com/google.rpc."

// documented JSON field names per detail type (errors_test.go TestError_JSONErrorValue)
var jsonKeys = map[string]string{
	"ErrorInfo":                     "@type,domain,metadata,reason",
	"ResourceInfo":                  "@type,description,owner,resource_name,resource_type",
	"Help":                          "@type,links",
	"BadRequest":                    "@type,field_violations",
	"LocalizedMessage":              "@type,locale,message",
	"QuotaFailure.Violation":        "@type,description,subject",
	"DebugInfo":                     "@type,detail,stack_entries",
	"PreconditionFailure.Violation": "@type,description,subject,type",
	"Help.Link":                     "@type,description,url",
}

func sortedKeys[V any](m map[string]V) string {
	ks := make([]string, 0, len(m))
	for k := range m {
		ks = append(ks, k)
	}
	sort.Strings(ks)
	return strings.Join(ks, ",")
}

func jstr(m map[string]any, k string) string {
	if s, ok := m[k].(string); ok {
		return s
	}
	return fmt.Sprintf("?%v", m[k])
}

// detail of the JSON rendering -> <<kind, atom, ...>>, by the documented field names only
func tokJSON(m map[string]any) []string {
	keys := sortedKeys(m)
	if keys == "unknownDetailType,unknownDetails" {
		c := jstr(m, "unknownDetailType")
		if strings.Contains(jstr(m, "unknownDetails"), "Seconds:7") {
			c += "|7"
		}
		return []string{"UN", atom(c)}
	}
	t, _ := m["@type"].(string)
	if !strings.HasPrefix(t, typePrefix) {
		return []string{"?type(" + t + ")keys(" + keys + ")"}
	}
	t = strings.TrimPrefix(t, typePrefix)
	if want, ok := jsonKeys[t]; !ok || want != keys {
		return []string{"?type(" + t + ")keys(" + keys + ")"}
	}
	list := func(k string, f func(map[string]any) string) []string {
		var out []string
		arr, _ := m[k].([]any)
		for _, x := range arr {
			xm, _ := x.(map[string]any)
			out = append(out, atom(f(xm)))
		}
		return out
	}
	switch t {
	case "ErrorInfo":
		md := map[string]string{}
		if mm, ok := m["metadata"].(map[string]any); ok {
			for k, v := range mm {
				md[k] = fmt.Sprint(v)
			}
		}
		return []string{"EI", atom(jstr(m, "reason") + "|" + jstr(m, "domain") + "|" + metaStr(md))}
	case "ResourceInfo":
		return []string{"RI", atom(jstr(m, "resource_type") + "|" + jstr(m, "resource_name") + "|" + jstr(m, "owner") + "|" + jstr(m, "description"))}
	case "Help":
		return append([]string{"H"}, list("links", func(x map[string]any) string { return jstr(x, "url") + "|" + jstr(x, "description") })...)
	case "BadRequest":
		return append([]string{"BR"}, list("field_violations", func(x map[string]any) string { return jstr(x, "field") + "|" + jstr(x, "description") })...)
	case "LocalizedMessage":
		return []string{"LM", atom(jstr(m, "locale") + "|" + jstr(m, "message"))}
	case "QuotaFailure.Violation":
		return []string{"QV", atom(jstr(m, "subject") + "|" + jstr(m, "description"))}
	case "DebugInfo":
		var st []string
		arr, _ := m["stack_entries"].([]any)
		for _, x := range arr {
			st = append(st, fmt.Sprint(x))
		}
		return []string{"DI", atom(strings.Join(st, ",") + "|" + jstr(m, "detail"))}
	case "PreconditionFailure.Violation":
		return []string{"PV", atom(jstr(m, "type") + "|" + jstr(m, "subject") + "|" + jstr(m, "description"))}
	case "Help.Link":
		return []string{"HK", atom(jstr(m, "url") + "|" + jstr(m, "description"))}
	}
	return []string{"?type(" + t + ")"}
}

type jsonView struct {
	Keys, Code, Msg string
	Details         [][]string
}

func decodeJSON(raw []byte) jsonView {
	var top map[string]json.RawMessage
	if err := json.Unmarshal(raw, &top); err != nil {
		return jsonView{Keys: "?not-an-object", Details: [][]string{{"?json"}}}
	}
	v := jsonView{Keys: sortedKeys(top), Code: "?absent", Msg: "?absent", Details: [][]string{}}
	if r, ok := top["errorCode"]; ok {
		_ = json.Unmarshal(r, &v.Code)
	}
	if r, ok := top["message"]; ok {
		_ = json.Unmarshal(r, &v.Msg)
	}
	if r, ok := top["details"]; ok {
		var ds []map[string]any
		if err := json.Unmarshal(r, &ds); err != nil {
			v.Details = append(v.Details, []string{"?details-not-a-list-of-objects"})
		}
		for _, d := range ds {
			v.Details = append(v.Details, tokJSON(d))
		}
	}
	return v
}

// observe: everything observable of one built error, through its public API only.
func observe(bt *built) (o tv.M) {
	o = tv.M{"det": [][]string{}, "jdet": [][]string{}, "orig": [][]string{}, "http": 0, "grpc": "", "code": "", "cat": "", "str": "", "sstr": "",
		"snil": false, "scode": "", "smsg": "", "jcode": "", "jmsg": "", "jkeys": "", "opanic": ""}
	defer func() {
		if p := recover(); p != nil {
			o["opanic"] = fmt.Sprint(p)
		}
	}()
	h := bt.h
	o["http"] = h.HTTPStatusCode()
	o["grpc"] = h.GrpcStatusCode().String()
	o["code"] = h.ErrorCode()
	o["cat"] = h.Category()
	o["str"] = h.Error()
	o["sstr"] = h.String()
	st := h.GRPCStatus()
	if st == nil {
		o["snil"] = true
	} else {
		o["scode"] = st.Code().String()
		o["smsg"] = st.Message()
		det := [][]string{}
		for _, d := range st.Details() {
			det = append(det, tokGRPC(d))
		}
		o["det"] = det
	}
	jv := decodeJSON(h.JSONErrorValue())
	o["jdet"], o["jcode"], o["jmsg"], o["jkeys"] = jv.Details, jv.Code, jv.Msg, jv.Keys
	if fresh, ok := kit.FromError(bt.err); ok && fresh != nil {
		o["orig"] = decodeJSON(fresh.JSONErrorValue()).Details
	} else {
		o["orig"] = [][]string{{"?FromError-failed"}}
	}
	return o
}

// ---------------------------------------------------------------- one run = one call sequence on one builder

type step struct {
	Op       string
	Panic    bool
	Pval     string
	NormDets []string // per built error: the normal form of its details (Go-side cross-check against the export)
}

func guard(f func()) (panicked bool, pval string) {
	defer func() {
		if p := recover(); p != nil {
			panicked, pval = true, fmt.Sprint(p)
		}
	}()
	f()
	return false, ""
}

// perform replays ops on the real package; returns the trace lines (reset first) and the per-step summaries.
func perform(v variant, ops []string) ([]tv.M, []step) {
	lines := []tv.M{v.reset(len(ops))}
	b := kit.NewBuilder(v.Grpc, v.HTTP, v.Msg, v.Tag, v.Cat)
	var errs []*built
	var steps []step
	done := 0
loop:
	for _, op := range ops {
		kind, av, tgt := parseOp(op)
		code := op
		var pan bool
		var pval string
		switch kind {
		case "build":
			var err error
			pan, pval = guard(func() { err = b.Build() })
			if !pan {
				bt := &built{err: err}
				if p, s := guard(func() { bt.h, _ = kit.FromError(err) }); p || bt.h == nil {
					// no handle: every later observation of this error reports it
					pan, pval = true, "FromError(Build()) gave no *Error: "+s
					bt = nil
				}
				if bt != nil {
					errs = append(errs, bt)
				}
			}
		case "adddetails":
			code = "AD"
			if tgt < 1 || tgt > len(errs) {
				break loop // the error was never built (an earlier Build misbehaved and is already recorded)
			}
			pan, pval = guard(func() { applyAdd(errs[tgt-1].h, av) })
		default:
			ok := true
			pan, pval = guard(func() { ok = applyWith(b, op) })
			if !ok {
				panic("harness: unknown op " + op)
			}
		}
		{
			obs := make([]tv.M, 0, len(errs))
			st := step{Op: op, Panic: pan, Pval: pval}
			for _, bt := range errs {
				o := observe(bt)
				obs = append(obs, o)
				view := o["det"].([][]string)
				if o["snil"].(bool) {
					view = o["jdet"].([][]string)
				}
				st.NormDets = append(st.NormDets, render(norm(view)))
			}
			lines = append(lines, tv.M{"ev": "op", "op": code, "v": av, "tgt": tgt, "panic": pan, "pval": pval, "obs": obs})
			steps = append(steps, st)
			done++
		}
	}
	lines = append(lines, tv.M{"ev": "end", "nops": done})
	return lines, steps
}

// norm: field violations / help links accumulated in the first BadRequest / Help (ErrorsBuilderContract!Norm)
func norm(ds [][]string) [][]string {
	var out [][]string
	first := map[string]int{}
	for _, d := range ds {
		k := d[0]
		if k == "BR" || k == "H" {
			if i, ok := first[k]; ok {
				out[i] = append(out[i], d[1:]...)
				continue
			}
			first[k] = len(out)
		}
		out = append(out, append([]string{}, d...))
	}
	return out
}

func render(ds [][]string) string {
	var parts []string
	for _, d := range ds {
		parts = append(parts, d[0]+":"+strings.Join(d[1:], ","))
	}
	return strings.Join(parts, ";")
}

func appendTrace(b *tv.Batch, lines []tv.M) int {
	tr := b.Start(lines[0])
	for _, l := range lines[1:] {
		b.Ev(l["ev"].(string), l)
	}
	return tr
}

// reproducer: the Go program of a call sequence.
func reproducer(v variant, ops []string) string {
	var sb strings.Builder
	sb.WriteString(v.goNew() + "\n")
	n := 0
	for _, op := range ops {
		kind, av, tgt := parseOp(op)
		switch kind {
		case "build":
			n++
			fmt.Fprintf(&sb, "err%d := b.Build(); e%d, _ := kiterrors.FromError(err%d)\n", n, n, n)
		case "adddetails":
			fmt.Fprintf(&sb, "e%d%s\n", tgt, goOf["A"+strconv.Itoa(av)])
		default:
			sb.WriteString(goOf[op] + "\n")
		}
	}
	sb.WriteString("// now inspect e1.GRPCStatus().Details() / e1.JSONErrorValue() (and e2 ...) and compare with what was passed before each Build plus what was added to that error")
	return sb.String()
}

// ---------------------------------------------------------------- the case table exported by TLC

type expectation struct {
	Pan  string   // per Build call: 1 = panics
	Errs []string // per built error: normal form of the expected details
}

// parseExport: lines "SEQ|<variant>|<ops>|<panics>|<err1>/<err2>..." printed by ErrorsBuilderModel!Export.
func parseExport(out string, into map[string]expectation) int {
	n := 0
	for _, l := range strings.Split(out, "\n") {
		l = strings.TrimSpace(l)
		if !strings.HasPrefix(l, `"SEQ|`) {
			continue
		}
		f := strings.Split(strings.Trim(l, `"`), "|")
		if len(f) != 5 {
			continue
		}
		x := expectation{Pan: f[3]}
		if f[4] != "" {
			x.Errs = strings.Split(f[4], "/")
		}
		into[f[1]+"|"+f[2]] = x
		n++
	}
	return n
}

func splitOps(s string) []string {
	if s == "" {
		return nil
	}
	return strings.Split(s, ",")
}

type runInfo struct {
	Variant string   `json:"variant"`
	Ops     []string `json:"ops"`
	Kind    string   `json:"kind"` // enumerated | seeded
}

// stepMatches: the Go-side comparison of one step with the exported expectation of its prefix.
func stepMatches(steps []step, k int, x expectation) bool {
	pan := ""
	for _, s := range steps[:k] {
		if s.Op == "B" {
			if s.Panic {
				pan += "1"
			} else {
				pan += "0"
			}
		}
		if s.Op != "B" && s.Panic {
			return false
		}
	}
	if pan != x.Pan {
		return false
	}
	got := steps[k-1].NormDets
	if len(got) != len(x.Errs) {
		return false
	}
	for i := range got {
		if got[i] != x.Errs[i] {
			return false
		}
	}
	return true
}

// ---------------------------------------------------------------- FromError / Is facts

type fact struct {
	Name  string
	Got   bool
	Panic bool
}

var factGroups = []string{"fromerror-value", "fromerror-pointer", "is-pointer-target", "is-value-target", "errors-is"}

func performFacts(v variant, group string) []tv.M {
	var fs []fact
	add := func(name string, f func() bool) {
		var got bool
		pan, _ := guard(func() { got = f() })
		fs = append(fs, fact{name, got, pan})
	}
	mk := func(vv variant) (error, *kit.Error) {
		err := kit.NewBuilder(vv.Grpc, vv.HTTP, vv.Msg, vv.Tag, vv.Cat).WithErrorInfo("REASON_A", map[string]string{"k": "v"}).
			WithResourceInfo("state", "store1", "owner1", "resource not found").Build()
		h, _ := kit.FromError(err)
		return err, h
	}
	err, h := mk(v)
	if h == nil {
		h = &kit.Error{}
	}
	other := func(f func(*variant)) *kit.Error { vv := v; f(&vv); _, p := mk(vv); return p }
	switch group {
	case "fromerror-value":
		add("fromerror:nil", func() bool { p, ok := kit.FromError(nil); return ok || p != nil })
		add("fromerror:foreign-error", func() bool { p, ok := kit.FromError(errors.New("foreign")); return ok || p != nil })
		add("fromerror:built-error", func() bool { p, ok := kit.FromError(err); return ok && p != nil })
		add("fromerror:wrapped-built-error", func() bool { p, ok := kit.FromError(fmt.Errorf("wrapped: %w", err)); return ok && p != nil })
		add("fromerror:twice-wrapped-built-error", func() bool {
			p, ok := kit.FromError(fmt.Errorf("outer: %w", fmt.Errorf("wrapped: %w", err)))
			return ok && p != nil
		})
		add("fromerror:recovered-error-has-same-content", func() bool {
			p, ok := kit.FromError(fmt.Errorf("wrapped: %w", err))
			if !ok || p == nil {
				return false
			}
			return p.HTTPStatusCode() == v.HTTP && p.GrpcStatusCode() == v.Grpc && p.Category() == v.Cat && p.Error() == h.Error() &&
				bytes.Equal(p.JSONErrorValue(), h.JSONErrorValue())
		})
	case "fromerror-pointer":
		ptrErr := error(h.AddDetails()) // AddDetails returns *Error, which implements error
		add("fromerror:pointer-error", func() bool { p, ok := kit.FromError(ptrErr); return ok && p != nil })
		add("fromerror:wrapped-pointer-error", func() bool { p, ok := kit.FromError(fmt.Errorf("wrapped: %w", ptrErr)); return ok && p != nil })
	case "is-pointer-target":
		add("is:same-pointer", func() bool { return h.Is(h) })
		add("is:target-pointer-same-codes-other-message", func() bool { return h.Is(other(func(x *variant) { x.Msg = "another message"; x.Cat = "other" })) })
		add("is:target-wrapped-pointer", func() bool { return h.Is(fmt.Errorf("wrapped: %w", other(func(x *variant) { x.Msg = "formatted" }))) })
		add("is:target-other-tag", func() bool { return h.Is(other(func(x *variant) { x.Tag = "DAPR_OTHER_TAG" })) })
		add("is:target-other-grpc-code", func() bool { return h.Is(other(func(x *variant) { x.Grpc = codes.Internal })) })
		add("is:target-other-http-code", func() bool { return h.Is(other(func(x *variant) { x.HTTP = 500 })) })
		add("is:target-foreign-error", func() bool { return h.Is(errors.New("foreign")) })
		add("is:target-nil", func() bool { return h.Is(nil) })
	case "is-value-target":
		add("is:target-built-error", func() bool { return h.Is(err) })
		add("is:target-wrapped-built-error", func() bool { return h.Is(fmt.Errorf("wrapped: %w", err)) })
	case "errors-is":
		add("is:errors.Is-pointer-vs-pointer", func() bool { return errors.Is(h, other(func(x *variant) { x.Msg = "another message" })) })
		add("is:errors.Is-built-error-vs-same-codes", func() bool { return errors.Is(err, other(func(x *variant) { x.Msg = "another message" })) })
	}
	lines := []tv.M{{"kind": "fact", "group": group, "vname": v.Name, "n": len(fs)}}
	for _, f := range fs {
		lines = append(lines, tv.M{"ev": "fact", "name": f.Name, "got": f.Got, "panic": f.Panic})
	}
	lines = append(lines, tv.M{"ev": "end", "nops": len(fs)})
	return lines
}

var factRepro = map[string]string{
	"fromerror:pointer-error":                `err := b.WithErrorInfo("R", nil).Build(); e, _ := kiterrors.FromError(err); var asErr error = e.AddDetails(); _, ok := kiterrors.FromError(asErr) // ok == false although asErr is a kit *Error`,
	"is:target-built-error":                  `err := b.WithErrorInfo("R", nil).Build(); e, _ := kiterrors.FromError(err); e.Is(err) // false: Is looks for *Error, Build returns Error`,
	"is:errors.Is-built-error-vs-same-codes": `err := b.WithErrorInfo("R", nil).Build(); target, _ := kiterrors.FromError(<error built with the same tag, gRPC and HTTP code>); errors.Is(err, target) // false: Is has a pointer receiver, Build returns an Error value, so errors.Is never calls it`,
}

// ---------------------------------------------------------------- explanations of the finding classes

func explain(key string) string {
	switch {
	case strings.HasPrefix(key, "aliasing:"):
		return "a call on the builder or on ANOTHER error changed the details of an already built error (the errors share the backing array of the builder's details slice: Build returns b.err by value and append writes into spare capacity). " +
			"Contradicts: AddDetails 'Allow details to be mutable and added to the error in runtime' (to THE error it is called on), With* 'is used to pass ... error details to the Error struct' of the builder, and a built error 'carrying exactly the details added'"
	case strings.HasPrefix(key, "details:build") && strings.HasSuffix(key, "-after-adddetails-on-earlier-error"):
		return "a freshly built error does not carry the details passed to the builder: AddDetails on an EARLIER built error overwrote a detail the builder had appended after that Build (shared backing array of the details slice). " +
			"Contradicts: AddDetails 'Allow details to be mutable and added to the error in runtime' (to THE error), With* 'is used to pass ... error details to the Error struct'"
	case strings.HasPrefix(key, "details:"):
		return "a built error does not carry exactly the details passed to the builder before Build plus those added to it with AddDetails, in order"
	case strings.HasPrefix(key, "panic:"):
		return "Build must panic exactly when no ErrorInfo was passed (errors.go: 'Check for ErrorInfo, since it's required per the proposal'; TestErrorBuilder_Build), nothing else may panic"
	case strings.HasPrefix(key, "json:message-when-grpc-code-is-ok"):
		return "JSONErrorValue renders an empty message for an error whose gRPC code is OK (an HTTP-only error; TestError_Error builds one): the message is read from the gRPC status, which is nil because grpc refuses details on an OK status"
	case strings.HasPrefix(key, "json:"):
		return "JSONErrorValue must render errorCode (the tag, else the ErrorInfo reason), message and the details under the documented field names (TestError_JSONErrorValue)"
	case strings.HasPrefix(key, "errorcode:"):
		return "ErrorCode 'returns the error code from the error, prioritizing the legacy Error.Tag, otherwise the ErrorInfo.Reason'"
	case strings.HasPrefix(key, "grpcstatus:"):
		return "GRPCStatus 'returns the gRPC status.Status object' carrying the code, the message and every detail"
	case strings.HasPrefix(key, "fromerror:pointer"), strings.HasPrefix(key, "fromerror:wrapped-pointer"):
		return "FromError 'takes in an error and returns back the kitError if it's that type under the hood', but a *Error (what AddDetails returns and what Is looks for) used as an error is not recognised: errors.As is asked for the value type Error only"
	case strings.HasPrefix(key, "fromerror:"):
		return "FromError 'takes in an error and returns back the kitError if it's that type under the hood' (TestFromError: nil, a foreign error, the error itself, a wrapped error)"
	case strings.HasPrefix(key, "is:target-built-error"), strings.HasPrefix(key, "is:target-wrapped-built-error"):
		return "Is 'checks if the error matches the given one' (tag, gRPC and HTTP code; 'Ignore the message in the comparison'), but the error value returned by Build never matches, not even itself: Is looks for a *Error in the target's chain while Build returns an Error value"
	case strings.HasPrefix(key, "is:errors.Is-built"):
		return "Is 'implements the interface that checks if the error matches the given one' (the one errors.Is consults), but it has a pointer receiver and Build returns an Error VALUE, whose method set lacks Is: errors.Is(builtErr, target) never matches"
	case strings.HasPrefix(key, "is:"):
		return "Is 'checks if the error matches the given one': same tag, gRPC code and HTTP code, the message is ignored"
	case strings.HasPrefix(key, "codes:"), strings.HasPrefix(key, "string:"):
		return "HTTPStatusCode / GrpcStatusCode / Category return what NewBuilder was given; Error() has the format 'api error: code = %s desc = %s' (TestError_Error)"
	}
	return "the recorded run breaks the contract"
}

// ---------------------------------------------------------------- seeded random sequences

func randomOps(rng *rand.Rand, n int) []string {
	var ops []string
	nErr, hasEI, builds := 0, false, 0
	for len(ops) < n {
		switch r := rng.Intn(10); {
		case r < 5 || (nErr == 0 && r >= 8):
			op := withOps[rng.Intn(len(withOps))]
			if !hasEI && rng.Intn(3) > 0 {
				op = []string{"EI1", "EI2", "WD2"}[rng.Intn(3)]
			}
			if op == "EI1" || op == "EI2" || op == "WD2" {
				hasEI = true
			}
			ops = append(ops, op)
		case r < 8:
			if builds >= 5 {
				continue
			}
			builds++
			ops = append(ops, "B")
			if hasEI {
				nErr++
			}
		default:
			ops = append(ops, fmt.Sprintf("A%d.%d", 1+rng.Intn(3), 1+rng.Intn(nErr)))
		}
	}
	return ops
}

// ---------------------------------------------------------------- the check

type mcRun struct {
	cfg string
	res tlc.Result
}

func TestCheck(t *testing.T) {
	e := ev.New("X08", "model_checking")
	defer func() {
		if e.Write() > 0 {
			t.Fail()
		}
	}()
	logger.NewLogger("dapr.kit").SetOutput(io.Discard) // Build logs every refused call
	thorough := ev.Thorough()
	rng := rand.New(rand.NewSource(ev.Seed()))
	if rp := os.Getenv("VERIF_REPLAY"); rp != "" {
		replay(e, rp)
		return
	}
	e.Assume("the arguments of the calls are fixed by the harness (one to four argument variants per With* method, three for AddDetails, three NewBuilder parameter sets: with tag, without tag, gRPC code OK); fresh proto messages are passed to every call and never modified afterwards",
		"the handle of a built error is the *Error FromError returns right after Build; AddDetails is called on the handle; the value Build returned is re-read with a fresh FromError after every call",
		"details are compared by decoded content (gRPC status: proto getters; JSON: the documented field names), not by pointer identity",
		"RetryInfo is not part of the alphabet (errors_test.go states a JSON form for it that it never compares)")

	// ---- 1. model checking + enumeration of the call sequences (all TLC runs in parallel)
	noTE := []string{"-noGenerateSpecTE"}
	enum := []*mcRun{{cfg: ev.Pick("MC_small.cfg", "MC_big.cfg")}, {cfg: ev.Pick("MC_small_all.cfg", "MC_big_all.cfg")}}
	if thorough {
		enum = append(enum, &mcRun{cfg: "MC_big_deep.cfg"})
	}
	defects := []string{"shared_slice", "no_panic", "reason_over_tag", "build_resets", "okcode_message_lost"}
	defRes := make([]tlc.Result, len(defects))
	var wg sync.WaitGroup
	for _, m := range enum {
		wg.Add(1)
		go func() {
			defer wg.Done()
			m.res = tlc.Run(tlc.Opts{Dir: specDir, Module: "ErrorsBuilderModel", Config: m.cfg, Workers: 6, Timeout: ev.Pick(5*time.Minute, 30*time.Minute), Args: noTE})
		}()
	}
	for i, d := range defects {
		wg.Add(1)
		go func() {
			defer wg.Done()
			defRes[i] = tlc.Run(tlc.Opts{Dir: specDir, Module: "ErrorsBuilderModel", Config: "MC_defect_" + d + ".cfg", Workers: 2, Timeout: 5 * time.Minute, Args: noTE})
		}()
	}
	wg.Wait()
	exp := map[string]expectation{}
	var states, trans int64
	var cmds []string
	for _, m := range enum {
		n := parseExport(m.res.Output, exp)
		fmt.Printf("MC %s: ok=%v generated=%d distinct=%d depth=%d sequences=%d wall=%s %s\n", m.cfg, m.res.OK, m.res.Generated, m.res.Distinct, m.res.Depth, n, m.res.Wall.Round(time.Millisecond), m.res.What)
		states += m.res.Distinct
		trans += m.res.Generated
		cmds = append(cmds, m.res.Cmd)
		if !m.res.OK {
			e.Inconclusive("model check " + m.cfg + " did not pass: " + m.res.What + "\n" + m.res.Tail(3000))
			return
		}
		if int64(n) != m.res.Distinct {
			e.Inconclusive(fmt.Sprintf("%s: %d exported sequences for %d states", m.cfg, n, m.res.Distinct))
			return
		}
	}
	e.Set("states", states)
	e.Set("transitions", trans)
	e.Set("checker_cmd", strings.Join(cmds, " ; "))
	defSummary := tv.M{}
	for i, d := range defects {
		ok := defRes[i].Violation && strings.Contains(defRes[i].What, "NotBad")
		defSummary[d] = ok
		if !ok {
			e.Inconclusive("the defect variant " + d + " of ErrorsBuilderModel was not rejected by the contract: " + defRes[i].What)
		}
	}
	e.Set("defect_models_rejected", defSummary)
	e.Set("sequences_enumerated_by_tlc", int64(len(exp)))

	// ---- 2. replay on the real package: the maximal sequences are run; every prefix is an enumerated sequence
	t0 := time.Now()
	hasChild := map[string]bool{}
	for k := range exp {
		if i := strings.LastIndex(k, ","); i >= 0 {
			hasChild[k[:i]] = true
		} else if j := strings.Index(k, "|"); j >= 0 && j < len(k)-1 {
			hasChild[k[:j+1]] = true
		}
	}
	var infos []runInfo
	for k := range exp {
		if !hasChild[k] {
			j := strings.Index(k, "|")
			infos = append(infos, runInfo{Variant: k[:j], Ops: splitOps(k[j+1:]), Kind: "enumerated"})
		}
	}
	sort.Slice(infos, func(i, j int) bool {
		a, b := infos[i], infos[j]
		if a.Variant != b.Variant {
			return a.Variant < b.Variant
		}
		return strings.Join(a.Ops, ",") < strings.Join(b.Ops, ",")
	})
	nEnum := len(infos)
	nSeeded := ev.Pick(400, 6000)
	for i := 0; i < nSeeded; i++ {
		v := []string{"tag", "notag"}[rng.Intn(2)]
		infos = append(infos, runInfo{Variant: v, Ops: randomOps(rng, 7+rng.Intn(ev.Pick(6, 10))), Kind: "seeded"})
	}
	// the runs are performed, recorded and judged chunk by chunk (bounded memory): a chunk = consecutive runs with at most
	// maxLines events; up to conc chunks at a time, each with its own TLC run.
	type chunk struct{ from, to int }
	var chunks []chunk
	maxLines, conc := ev.Pick(40_000, 150_000), ev.Pick(3, 4)
	for from, lines, i := 0, 0, 0; i <= len(infos); i++ {
		if i == len(infos) || (lines > 0 && lines+len(infos[i].Ops)+2 > maxLines) {
			chunks = append(chunks, chunk{from, i})
			from, lines = i, 0
		}
		if i < len(infos) {
			lines += len(infos[i].Ops) + 2
		}
	}
	sampleIdx := map[int]bool{0: true, nEnum / 3: true, nEnum / 2: true, nEnum - 1: true, len(infos) - 1: true}
	type found struct {
		r     tv.Reject // Trace: index into infos
		lines []string
	}
	var (
		mu            sync.Mutex
		covered       = map[string]bool{}
		goMismatch    int
		firstMismatch = -1
		events        int
		samples       = map[int][]string{}
		best          = map[string]found{} // per key: the reject with the shortest failing prefix
		perKey        = map[string]int64{}
		enumRejected  int
		nRej          int
		agg           = tlc.Result{OK: true}
		missing       string
	)
	less := func(a, b tv.Reject) bool {
		if a.At != b.At {
			return a.At < b.At
		}
		if x, y := strings.Join(infos[a.Trace].Ops, ","), strings.Join(infos[b.Trace].Ops, ","); x != y {
			return x < y
		}
		return infos[a.Trace].Variant < infos[b.Trace].Variant
	}
	sem := make(chan struct{}, conc)
	for _, ck := range chunks {
		wg.Add(1)
		go func() {
			defer wg.Done()
			sem <- struct{}{}
			defer func() { <-sem }()
			n := ck.to - ck.from
			lines := make([][]tv.M, n)
			steps := make([][]step, n)
			var iw sync.WaitGroup
			var next int64 = -1
			for w := 0; w < 4; w++ {
				iw.Add(1)
				go func() {
					defer iw.Done()
					for {
						i := int(atomic.AddInt64(&next, 1))
						if i >= n {
							return
						}
						in := infos[ck.from+i]
						lines[i], steps[i] = perform(variants[in.Variant], in.Ops)
					}
				}()
			}
			iw.Wait()
			b := &tv.Batch{}
			cov := map[string]bool{}
			mism, firstM := 0, -1
			for i := 0; i < n; i++ {
				gi := ck.from + i
				in := infos[gi]
				appendTrace(b, lines[i])
				lines[i] = nil
				if in.Kind != "enumerated" {
					e.Nontrivial("seeded|" + in.Variant + "|" + strings.Join(in.Ops, ","))
					continue
				}
				bad := false
				for k := 1; k <= len(steps[i]); k++ {
					key := in.Variant + "|" + strings.Join(in.Ops[:k], ",")
					x, ok := exp[key]
					if !ok {
						mu.Lock()
						missing = key
						mu.Unlock()
						continue
					}
					cov[key] = true
					if !bad && !stepMatches(steps[i], k, x) {
						bad = true
					}
					if len(x.Errs) > 0 {
						e.Nontrivial(key) // a sequence with at least one built error
					}
				}
				if bad {
					mism++
					if firstM < 0 {
						firstM = gi
					}
				}
			}
			rej, res := tv.Validate(tlc.Opts{Dir: specDir, Module: "TraceErrorsBuilder", Config: "TraceErrorsBuilder.cfg", Workers: 4,
				Timeout: ev.Pick(6*time.Minute, 30*time.Minute), HeapMB: 6144}, b)
			mu.Lock()
			defer mu.Unlock()
			for k := range cov {
				covered[k] = true
			}
			goMismatch += mism
			if firstM >= 0 && (firstMismatch < 0 || firstM < firstMismatch) {
				firstMismatch = firstM
			}
			events += b.Lines()
			for i := 0; i < n; i++ {
				if sampleIdx[ck.from+i] {
					samples[ck.from+i] = b.TraceStrings(i)
				}
			}
			agg.Distinct += res.Distinct
			agg.Generated += res.Generated
			if res.Wall > agg.Wall {
				agg.Wall = res.Wall
			}
			if !res.OK && !res.Violation {
				agg.OK, agg.What, agg.Output, agg.TimedOut = false, res.What, res.Output, res.TimedOut
			}
			if res.Violation && len(rej) == 0 {
				agg.OK, agg.Violation, agg.What, agg.Output = false, true, res.What, res.Output
			}
			for _, r := range rej {
				local := r.Trace
				r.Trace += ck.from
				nRej++
				perKey[r.Why]++
				if infos[r.Trace].Kind == "enumerated" {
					enumRejected++
				}
				if cur, ok := best[r.Why]; !ok || less(r, cur.r) {
					best[r.Why] = found{r, aroundStep(b.TraceStrings(local), r.At)}
				}
			}
		}()
	}

	// ---- 3. FromError / Is facts, binding self-test (concurrently with the chunks)
	fb := &tv.Batch{}
	type factInfo struct{ Variant, Group string }
	var finfos []factInfo
	for _, vn := range []string{"tag", "notag", "okcode"} {
		for _, g := range factGroups {
			appendTrace(fb, performFacts(variants[vn], g))
			finfos = append(finfos, factInfo{vn, g})
			e.Nontrivial("fact|" + vn + "|" + g)
		}
	}
	var frej []tv.Reject
	var fres tlc.Result
	var selfTest string
	wg.Add(2)
	go func() {
		defer wg.Done()
		frej, fres = tv.Validate(tlc.Opts{Dir: specDir, Module: "TraceErrorsBuilder", Config: "TraceErrorsBuilder.cfg", Workers: 2, Timeout: 5 * time.Minute}, fb)
	}()
	go func() { defer wg.Done(); selfTest = bindingSelfTest(e) }()
	wg.Wait()
	res := agg
	// the empty sequences (nothing called yet) are trivially covered
	for k := range exp {
		if strings.HasSuffix(k, "|") {
			covered[k] = true
		}
	}
	fm := ""
	if firstMismatch >= 0 {
		fm = infos[firstMismatch].Variant + "|" + strings.Join(infos[firstMismatch].Ops, ",")
	}
	fmt.Printf("replayed %d maximal sequences (covering %d of %d enumerated sequences) and %d seeded sequences, %d events, %d chunks, in %s; go-side mismatches %d (first: %s)\n",
		nEnum, len(covered), len(exp), nSeeded, events, len(chunks), time.Since(t0).Round(time.Millisecond), goMismatch, fm)
	fmt.Printf("TLC trace validation (sequences): ok=%v rejects=%d distinct=%d longest-chunk-wall=%s %s\n", res.OK, nRej, res.Distinct, res.Wall.Round(time.Millisecond), res.What)
	fmt.Printf("TLC trace validation (facts): ok=%v violation=%v rejects=%d distinct=%d wall=%s %s\n", fres.OK, fres.Violation, len(frej), fres.Distinct, fres.Wall.Round(time.Millisecond), fres.What)
	e.Set("evaluations", int64(len(infos)+fb.Len()))
	e.Set("rule", "call sequences on one ErrorBuilder and the errors built from it: alphabet = With* calls (core: EI1,WD2,RI"+ev.Pick("", "; deep: EI1,WD2")+
		"; full: WithErrorInfo x2, WithResourceInfo, WithHelpLink, WithHelp, WithFieldViolation x2, WithDetails x4 incl. no argument / two details / a non-google.rpc message), Build (at most "+ev.Pick("2", "3")+
		" times), AddDetails(three argument variants: one detail x2, two details; core/deep: the two one-detail variants) on any error built so far; TLC enumerates EVERY sequence: core alphabet up to length "+ev.Pick("6", "7; deep alphabet up to length 8")+
		" (NewBuilder without tag), full alphabet up to length "+ev.Pick("3", "4")+
		" (with tag / without tag / gRPC code OK); every maximal sequence is run on the real package, after every call all errors built so far are re-observed (gRPC status details, JSON, fresh FromError of the built value, codes, strings) "+
		"and compared with the exported expectation of that prefix; every run is judged by TLC against the contract monitor; plus seeded random sequences of length 7.."+ev.Pick("12", "16")+" over the full alphabet and 15 FromError/Is fact groups. "+
		"non-trivial = an enumerated sequence with at least one built error, a seeded sequence, a fact group; distinct by (variant, sequence)")
	for _, i := range []int{0, nEnum / 3, nEnum / 2, nEnum - 1, len(infos) - 1} {
		e.Sample(tv.M{"run": infos[i], "trace": samples[i]})
	}
	e.Sample(tv.M{"facts": finfos[3], "trace": fb.TraceStrings(3)})
	if missing != "" {
		e.Inconclusive("a prefix of an enumerated sequence is not in the case table: " + missing)
		return
	}
	if len(covered) != len(exp) {
		e.Inconclusive(fmt.Sprintf("only %d of %d enumerated sequences were covered by the replay", len(covered), len(exp)))
		return
	}
	e.Set("sequences_replayed", int64(len(covered)))
	e.Set("maximal_sequences_run", int64(nEnum))
	e.Set("seeded_sequences_run", int64(nSeeded))
	e.Set("events_recorded", int64(events))
	e.Set("go_side_expectation_mismatches", int64(goMismatch))

	// ---- 4. verdict
	if selfTest != "" {
		e.Inconclusive("binding self-test failed: " + selfTest)
	}
	bad := false
	if !res.OK {
		e.Inconclusive("trace validation (sequences) did not run or could not be parsed: " + res.What + "\n" + res.Tail(2000))
		bad = true
	}
	if !fres.OK && !fres.Violation {
		e.Inconclusive("trace validation (facts) did not run: " + fres.What + "\n" + fres.Tail(2000))
		bad = true
	}
	if fres.Violation && len(frej) == 0 {
		e.Inconclusive("TLC reported a violation that could not be parsed:\n" + fres.Tail(1500))
		bad = true
	}
	if bad {
		return
	}
	e.Set("traces_validated_against_impl", int64(len(infos)+fb.Len()))
	// per key the shortest failing prefix: it becomes the reproducer of its key
	var keys []string
	for k := range best {
		keys = append(keys, k)
	}
	sort.Slice(keys, func(i, j int) bool { return less(best[keys[i]].r, best[keys[j]].r) })
	for _, k := range keys {
		f := best[k]
		in := infos[f.r.Trace]
		ops := in.Ops
		if f.r.At >= 1 && f.r.At <= len(ops) {
			ops = ops[:f.r.At]
		}
		e.Violation(k, explain(k)+". Minimal sequence: NewBuilder["+in.Variant+"] "+strings.Join(ops, " "),
			tv.M{"run": runInfo{Variant: in.Variant, Ops: ops, Kind: in.Kind}, "reproducer": reproducer(variants[in.Variant], ops), "trace": f.lines, "at": f.r.At})
	}
	sort.SliceStable(frej, func(i, j int) bool { return frej[i].Trace < frej[j].Trace })
	for _, r := range frej {
		fi := finfos[r.Trace]
		perKey[r.Why]++
		e.Violation(r.Why, explain(r.Why)+" (NewBuilder["+fi.Variant+"])",
			tv.M{"fact": fi, "reproducer": variants[fi.Variant].goNew() + "\n" + factRepro[r.Why], "trace": fb.TraceStrings(r.Trace), "at": r.At})
	}
	e.Set("rejected_runs_per_key", perKey)
	if goMismatch != enumRejected {
		fmt.Printf("note: go-side mismatches=%d, enumerated runs rejected by TLC=%d (the Go side compares panics and details only)\n", goMismatch, enumRejected)
	}
	_ = thorough
}

// aroundStep keeps the reset line, the offending event and the one before it (the whole sequence is in "run").
func aroundStep(tr []string, at int) []string {
	if at < 2 || at >= len(tr) {
		return tr
	}
	return []string{tr[0], tr[at-1], tr[at]}
}

// bindingSelfTest: the unmodified trace of a run without shared capacity is accepted; corrupted ones are rejected.
func bindingSelfTest(e *ev.Evidence) string {
	lines, _ := perform(variants["tag"], []string{"EI1", "FV1", "B", "A1.1", "B"})
	lines[0]["ev"] = "reset"
	var raw [][]byte
	for _, l := range lines {
		j, _ := json.Marshal(l)
		raw = append(raw, j)
	}
	clone := func() [][]byte { return append([][]byte{}, raw...) }
	edit := func(line []byte, f func(m map[string]any)) []byte {
		var m map[string]any
		_ = json.Unmarshal(line, &m)
		f(m)
		j, _ := json.Marshal(m)
		return j
	}
	obsOf := func(m map[string]any, i int) map[string]any { return m["obs"].([]any)[i].(map[string]any) }
	b := &tv.Batch{}
	b.AppendTrace(raw)
	// 1: a detail dropped from the gRPC status of the first error after AddDetails (op 4)
	t1 := clone()
	t1[4] = edit(t1[4], func(m map[string]any) { o := obsOf(m, 0); d := o["det"].([]any); o["det"] = d[:len(d)-1] })
	b.AppendTrace(t1)
	// 2: the first Build reported as panicking
	t2 := clone()
	t2[3] = bytes.Replace(t2[3], []byte(`"panic":false`), []byte(`"panic":true`), 1)
	b.AppendTrace(t2)
	// 3: error code rewritten
	t3 := clone()
	t3[3] = bytes.Replace(t3[3], []byte(`"code":"DAPR_STATE_BUSY"`), []byte(`"code":"REASON_A"`), 1)
	b.AppendTrace(t3)
	// 4: truncated (last call removed, end kept)
	t4 := append(append([][]byte{}, raw[:5]...), raw[6])
	b.AppendTrace(t4)
	// 5: two JSON details swapped
	t5 := clone()
	t5[3] = edit(t5[3], func(m map[string]any) { o := obsOf(m, 0); d := o["jdet"].([]any); d[0], d[1] = d[1], d[0] })
	b.AppendTrace(t5)
	// 6: aliasing injected: after the second Build the first error's added detail is replaced
	t6 := clone()
	t6[5] = edit(t6[5], func(m map[string]any) {
		o := obsOf(m, 0)
		for _, k := range []string{"det", "jdet"} {
			d := o[k].([]any)
			d[len(d)-1] = []any{"RI", "r1"}
		}
	})
	b.AppendTrace(t6)
	// 7: end event removed
	b.AppendTrace(raw[:6])
	rej, res := tv.Validate(tlc.Opts{Dir: specDir, Module: "TraceErrorsBuilder", Config: "TraceErrorsBuilder.cfg", Workers: 2, Timeout: 3 * time.Minute}, b)
	got := map[int]string{}
	for _, r := range rej {
		got[r.Trace] = r.Why
	}
	_, acc := got[0]
	if acc && (res.OK || res.Violation) {
		// the real run used as the base is itself rejected: that is a verdict on the code, not a binding problem
		e.Set("binding_selftest", tv.M{"skipped": "the base run on the real package is rejected: " + got[0]})
		ops := []string{"EI1", "FV1", "B", "A1.1", "B"}
		e.Violation(got[0], explain(got[0])+". Sequence: NewBuilder[tag] "+strings.Join(ops, " "),
			tv.M{"run": runInfo{Variant: "tag", Ops: ops, Kind: "selftest-base"}, "reproducer": reproducer(variants["tag"], ops), "trace": b.TraceStrings(0)})
		return ""
	}
	e.Set("binding_selftest", tv.M{"unmodified_accepted": !acc, "detail_dropped": got[1], "build_reported_panicking": got[2], "error_code_rewritten": got[3],
		"truncated": got[4], "json_details_swapped": got[5], "aliasing_injected": got[6], "end_removed": got[7]})
	if (res.OK || res.Violation) && !acc && strings.HasPrefix(got[1], "details:adddetails") && strings.HasPrefix(got[2], "panic:") && strings.HasPrefix(got[3], "errorcode:") &&
		strings.HasPrefix(got[4], "trace:") && strings.HasPrefix(got[5], "details:build-json") && got[6] == "aliasing:build-changes-earlier-built-error" && strings.HasPrefix(got[7], "trace:") {
		return ""
	}
	return fmt.Sprintf("rejects=%v %s %s", rej, res.What, res.Tail(800))
}

// replay re-performs the run stored in a replay file (./check X08 --replay <file>) and has TLC judge it.
func replay(e *ev.Evidence, path string) {
	raw, err := os.ReadFile(path)
	if err != nil {
		e.Inconclusive("cannot read the replay file: " + err.Error())
		return
	}
	var f struct {
		Replay struct {
			Run  *runInfo                         `json:"run"`
			Fact *struct{ Variant, Group string } `json:"fact"`
		} `json:"replay"`
	}
	if err := json.Unmarshal(raw, &f); err != nil {
		e.Inconclusive("cannot parse the replay file: " + err.Error())
		return
	}
	b := &tv.Batch{}
	switch {
	case f.Replay.Run != nil:
		v, ok := variants[f.Replay.Run.Variant]
		if !ok {
			e.Inconclusive("unknown variant in the replay file")
			return
		}
		lines, _ := perform(v, f.Replay.Run.Ops)
		appendTrace(b, lines)
	case f.Replay.Fact != nil:
		v, ok := variants[f.Replay.Fact.Variant]
		if !ok {
			e.Inconclusive("unknown variant in the replay file")
			return
		}
		appendTrace(b, performFacts(v, f.Replay.Fact.Group))
	default:
		e.Inconclusive("the replay file holds neither a run nor a fact group")
		return
	}
	rej, res := tv.Validate(tlc.Opts{Dir: specDir, Module: "TraceErrorsBuilder", Config: "TraceErrorsBuilder.cfg", Workers: 2, Timeout: 3 * time.Minute}, b)
	fmt.Printf("replay: %d events, TLC ok=%v rejects=%d %s\n", b.Lines(), res.OK, len(rej), res.What)
	for _, l := range b.TraceStrings(0) {
		fmt.Println("  " + l)
	}
	if !res.OK && !res.Violation {
		e.Inconclusive("trace validation did not run: " + res.What)
		return
	}
	e.Set("evaluations", int64(1))
	e.Set("traces_validated_against_impl", int64(1))
	for _, r := range rej {
		pl := tv.M{"replayed": path, "trace": b.TraceStrings(0), "at": r.At} // the file stays replayable
		if f.Replay.Run != nil {
			pl["run"], pl["reproducer"] = f.Replay.Run, reproducer(variants[f.Replay.Run.Variant], f.Replay.Run.Ops)
		} else {
			pl["fact"] = f.Replay.Fact
		}
		e.Violation(r.Why, explain(r.Why), pl)
	}
}
