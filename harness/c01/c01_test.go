// C01 — schemes/enc/v1: Decrypt inverts Encrypt and the ciphertext follows the
// published dapr.io/enc/v1 format.
//
//  1. TLC model-checks spec/Enc/EncFraming.tla (the segment loop over positions,
//     all reader scripts, all consumer chunkings) and spec/Enc/EncV1Format.tla
//     (document term x all option combinations) against their contract monitors.
//  2. The REAL segment loop runs (v1.VerifProcessSegments) with segment sizes 3
//     and 4 over every enumerated reader script; each run is a trace judged by
//     TLC against EncFramingContract.
//  3. The REAL Encrypt / Decrypt run at the real 64 KiB segment size over
//     boundary lengths x ciphers x key-wrap algorithms/aliases x key-name options
//     x source chunkings x consumer read sizes.  Every produced document is
//     decomposed by an independent README implementation (c01/encref) into a
//     structural trace judged by TLC against EncV1FormatContract, decrypted by
//     the reference and by the real Decrypt; reference-produced documents and the
//     repository's stored testdata are fed to the real Decrypt.
package c01

import (
	"bytes"
	"encoding/base64"
	"errors"
	"fmt"
	"io"
	"math/rand"
	"os"
	"path/filepath"
	"runtime"
	"sort"
	"strconv"
	"strings"
	"sync"
	"testing"
	"testing/iotest"
	"time"

	v1 "github.com/dapr/kit/schemes/enc/v1"

	"verifharness/c01/encref"
	"verifharness/c01/poolchk"
	"verifharness/internal/ev"
	"verifharness/internal/tlc"
	"verifharness/internal/tv"
)

const specDir = "Enc"

type rec struct {
	mu sync.Mutex
	b  *tv.Batch
}

func (r *rec) Ev(name string, m tv.M) {
	r.mu.Lock()
	r.b.Ev(name, m)
	r.mu.Unlock()
}

func readClass(err error) string {
	switch {
	case err == nil:
		return "nil"
	case err == io.EOF:
		return "eof"
	}
	return "err"
}

func streamClass(err error) string {
	switch {
	case err == nil:
		return "nil"
	case err == io.EOF:
		return "eof"
	case errors.Is(err, encref.ErrSrc):
		return "srcerr"
	}
	return "other"
}

func slug(s string) string {
	var sb strings.Builder
	for _, r := range s {
		switch {
		case r == ' ':
			sb.WriteByte('-')
		case r >= 'a' && r <= 'z' || r >= 'A' && r <= 'Z' || r >= '0' && r <= '9' || r == ',':
			sb.WriteRune(r)
		}
	}
	return sb.String()
}

// ---------------------------------------------------------------------------
// (a) the real segment loop at small segment sizes

type frameCase struct {
	S      int           `json:"S"`
	Len    int           `json:"len"`
	Script encref.Script `json:"script"`
	CBuf   int           `json:"cbuf"`
}

func (c frameCase) class() string {
	switch {
	case c.Script.ErrAt >= 0 && c.Script.ErrWithData:
		return "src-error-with-data"
	case c.Script.ErrAt >= 0:
		return "src-error"
	case len(c.Script.ZeroBefore) > 0 || c.Script.ZeroEach > 0:
		return "zero-read"
	case c.Script.EOFWithData:
		return "eof-with-data"
	}
	return "eof-alone"
}

func runFrame(b *tv.Batch, cs frameCase) {
	r := &rec{b: b}
	b.Start(tv.M{"S": cs.S, "len": cs.Len})
	data := make([]byte, cs.Len)
	for i := range data {
		data[i] = byte(i + 1)
	}
	src := encref.New(data, cs.Script, func(k, n int, err error) {
		r.Ev("srcread", tv.M{"k": k, "n": n, "err": readClass(err)})
	})
	pr, pw := io.Pipe()
	emittedTo := 0
	fn := func(out io.Writer, d []byte, num uint32, last bool) error {
		from, ok := emittedTo, true
		if len(d) > 0 {
			from = int(d[0]) - 1
		}
		for j := range d {
			if int(d[j]) != from+j+1 || from+j >= len(data) {
				ok = false
			}
		}
		if from < 0 {
			from, ok = 0, false
		}
		r.Ev("emit", tv.M{"from": from, "to": from + len(d), "num": int(num), "last": last, "ok": ok})
		emittedTo = from + len(d)
		_, err := out.Write(d)
		return err
	}
	go v1.VerifProcessSegments(src, pw, fn, cs.S)
	done := make(chan struct{})
	go func() {
		defer close(done)
		buf := make([]byte, cs.CBuf)
		delivered := 0
		for i := 0; i < 20*(cs.Len+4); i++ {
			n, err := pr.Read(buf)
			ok := n >= 0 && n <= len(buf) && delivered+n <= len(data) && bytes.Equal(buf[:n], data[delivered:delivered+n])
			delivered += n
			r.Ev("read", tv.M{"k": cs.CBuf, "n": n, "err": streamClass(err), "ok": ok})
			if err != nil {
				return
			}
		}
	}()
	select {
	case <-done:
	case <-time.After(20 * time.Second):
		_ = pr.CloseWithError(errors.New("verif: watchdog"))
		<-done
	}
	r.Ev("end", nil)
}

// runFrameBig drives the REAL segment loop over a stream of tens of thousands of segments (tiny segment size).  Every
// emitted segment is checked here the way the contract's CEmit does (counter = index, position, size, last flag, bytes)
// and the run is reported as ONE bulk event; the consumer's reads are summed up the same way.
func runFrameBig(b *tv.Batch, S, segments int) {
	total := segments * S
	b.Start(tv.M{"S": S, "len": total, "segments": segments})
	data := plaintext(total, int64(segments))
	src := encref.New(data, encref.Script{ChunkSize: 4096, ErrAt: -1}, nil)
	pr, pw := io.Pipe()
	count, ok := 0, true
	fn := func(out io.Writer, d []byte, num uint32, last bool) error {
		from := count * S
		if int(num) != count || len(d) == 0 || from+len(d) > total || (from+len(d) < total && len(d) != S) || last != (from+len(d) == total) || !bytes.Equal(d, data[from:from+len(d)]) {
			ok = false
		}
		count++
		_, err := out.Write(d)
		return err
	}
	go v1.VerifProcessSegments(src, pw, fn, S)
	buf := make([]byte, 4096)
	n, rok := 0, true
	var term error
	deadline := time.Now().Add(60 * time.Second)
	for term == nil {
		m, err := pr.Read(buf)
		if n+m > total || !bytes.Equal(buf[:m], data[n:n+m]) {
			rok = false
		}
		n += m
		term = err
		if time.Now().After(deadline) {
			_ = pr.CloseWithError(errors.New("verif: watchdog"))
			break
		}
	}
	b.Ev("srcread", tv.M{"k": 0, "n": src.Pos(), "err": "eof"})
	b.Ev("bulk", tv.M{"count": count, "ok": ok})
	b.Ev("read", tv.M{"k": n + 1, "n": n, "err": "nil", "ok": rok})
	if term != nil {
		b.Ev("read", tv.M{"k": 1, "n": 0, "err": streamClass(term), "ok": true, "msg": term.Error()})
	}
	b.Ev("end", nil)
}

func frameCases(S int, thorough bool, rng *rand.Rand) []frameCase {
	var out []frameCase
	cbufs := []int{1, 2, S, S + 1, 64}
	idx := 0
	add := func(l int, sc encref.Script) {
		out = append(out, frameCase{S: S, Len: l, Script: sc, CBuf: cbufs[idx%len(cbufs)]})
		idx++
	}
	for l := 0; l <= 3*S+1; l++ {
		for _, comp := range encref.Compositions(l, S+1) {
			offs := []int{0}
			for _, c := range comp {
				offs = append(offs, offs[len(offs)-1]+c)
			}
			if l == 0 {
				offs = []int{0}
			}
			// clean sources: EOF alone / EOF with the last data
			add(l, encref.Script{Chunks: comp, ErrAt: -1})
			add(l, encref.Script{Chunks: comp, ErrAt: -1, EOFWithData: true})
			// zero-length reads
			zs := offs
			if !thorough && len(offs) > 3 {
				zs = []int{offs[0], offs[len(offs)/2], offs[len(offs)-1]}
			}
			for i, z := range zs {
				add(l, encref.Script{Chunks: comp, ErrAt: -1, EOFWithData: i%2 == 0, ZeroBefore: []int{z}})
			}
			if len(offs) >= 2 {
				add(l, encref.Script{Chunks: comp, ErrAt: -1, EOFWithData: l%2 == 0, ZeroBefore: append([]int{}, offs...)})
			}
			// source failures, alone and together with data
			es := offs
			if !thorough && len(offs) > 3 {
				es = []int{offs[0], offs[1+rng.Intn(len(offs)-2)], offs[len(offs)-1]}
			}
			for _, ea := range es {
				add(l, encref.Script{Chunks: comp, ErrAt: ea})
				if ea > 0 {
					add(l, encref.Script{Chunks: comp, ErrAt: ea, ErrWithData: true})
				}
			}
		}
	}
	return out
}

// ---------------------------------------------------------------------------
// (b)+(c) the real Encrypt / Decrypt at the real segment size

const (
	segSize = 65536
	tagSize = 16
)

type decCase struct {
	By       string `json:"by"`  // real | ref
	Src      string `json:"src"` // source reader style over the ciphertext
	CBuf     int    `json:"cbuf"`
	Override string `json:"override"`
	Mode     string `json:"mode"` // "" | slow-unwrap (the unwrap callback runs another round trip first) | two-streams (two Decrypt calls, then both streams are read)
}

// poison-on-Put: while poisonOn is set, every buffer handed back to v1.BufPool is overwritten first (hook point
// "bufpool.put"), so that any view into a pooled buffer that outlives the Put is visibly destroyed - deterministically,
// without needing a concurrent user of the pool.

func installPoison() {
	poolchk.Install()
	poolchk.Poison.Store(true)
}

type docCase struct {
	Producer   string    `json:"producer"` // real | ref | stored
	Len        int       `json:"len"`
	Cipher     string    `json:"cipher"` // "" = option left nil
	Alg        string    `json:"alg"`
	KeyName    string    `json:"keyName"`
	DecKeyName string    `json:"decKeyName"`
	Omit       bool      `json:"omit"`
	Pair       string    `json:"pair"` // identity | kit
	Src        string    `json:"src"`  // source reader style over the plaintext
	CBuf       int       `json:"cbuf"` // read size of the consumer of the ciphertext stream
	File       string    `json:"file"` // stored: file name
	Decs       []decCase `json:"decs"`
	Seed       int64     `json:"seed"`
	NoDrain    bool      `json:"noDrain"` // staged family: leave the pool as the operations leave it
}

func plaintext(n int, seed int64) []byte {
	p := make([]byte, n)
	x := uint64(seed)*0x9E3779B97F4A7C15 + uint64(n) + 1
	for i := range p {
		x ^= x << 13
		x ^= x >> 7
		x ^= x << 17
		p[i] = byte(x >> 24)
	}
	return p
}

// mkReader builds a source reader of the given style; bounds are the structural offsets (segment / header
// boundaries) around which chunk boundaries are placed.
func mkReader(style string, data []byte, bounds []int, seed int64) io.Reader {
	cut := func(points []int) []int {
		sort.Ints(points)
		var chunks []int
		prev := 0
		for _, p := range points {
			if p > prev && p < len(data) {
				chunks = append(chunks, p-prev)
				prev = p
			}
		}
		if len(data) > prev {
			chunks = append(chunks, len(data)-prev)
		}
		return chunks
	}
	shift := func(d int) []int {
		var ps []int
		for _, b := range bounds {
			ps = append(ps, b+d)
		}
		return ps
	}
	switch {
	case style == "whole":
		return encref.New(data, encref.Script{Chunks: []int{len(data)}, ErrAt: -1}, nil)
	case style == "whole-eof":
		return encref.New(data, encref.Script{Chunks: []int{len(data)}, ErrAt: -1, EOFWithData: true}, nil)
	case style == "bytes.Reader":
		return bytes.NewReader(data)
	case style == "b-1":
		return encref.New(data, encref.Script{Chunks: cut(shift(-1)), ErrAt: -1}, nil)
	case style == "b+0":
		return encref.New(data, encref.Script{Chunks: cut(shift(0)), ErrAt: -1, EOFWithData: true}, nil)
	case style == "b+1":
		return encref.New(data, encref.Script{Chunks: cut(shift(1)), ErrAt: -1}, nil)
	case style == "b-1+0+1":
		return encref.New(data, encref.Script{Chunks: cut(append(append(shift(-1), shift(0)...), shift(1)...)), ErrAt: -1, EOFWithData: true}, nil)
	case style == "zeros":
		return encref.New(data, encref.Script{Chunks: cut(shift(0)), ErrAt: -1, ZeroBefore: append([]int{0, len(data)}, bounds...)}, nil)
	case style == "zeros-many":
		// a zero-length read before every 1 KiB chunk: hundreds of empty reads over a long stream, never two in a row
		return encref.New(data, encref.Script{ChunkSize: 1024, ZeroEach: 1, ErrAt: -1}, nil)
	case style == "zeros-many3":
		// three zero-length reads before every 4 KiB chunk, the last data together with io.EOF
		return encref.New(data, encref.Script{ChunkSize: 4096, ZeroEach: 3, ErrAt: -1, EOFWithData: true}, nil)
	case style == "onebyte":
		return iotest.OneByteReader(bytes.NewReader(data))
	case style == "half":
		return iotest.HalfReader(bytes.NewReader(data))
	case style == "dataerr":
		return iotest.DataErrReader(bytes.NewReader(data))
	case style == "dataerr-half":
		return iotest.DataErrReader(iotest.HalfReader(bytes.NewReader(data)))
	case style == "rnd":
		rng := rand.New(rand.NewSource(seed))
		var chunks []int
		for left := len(data); left > 0; {
			k := 1 + rng.Intn(100000)
			if rng.Intn(4) == 0 {
				k = 1 + rng.Intn(40)
			}
			if k > left {
				k = left
			}
			chunks = append(chunks, k)
			left -= k
		}
		return encref.New(data, encref.Script{Chunks: chunks, ErrAt: -1, EOFWithData: rng.Intn(2) == 0}, nil)
	case strings.HasPrefix(style, "split:"):
		// split:<p>[:<q>]  two or three chunks, the last read returns its data together with io.EOF
		var p, q int
		n, _ := fmt.Sscanf(style, "split:%d:%d", &p, &q)
		pts := []int{p}
		if n == 2 {
			pts = append(pts, q)
		}
		return encref.New(data, encref.Script{Chunks: cut(pts), ErrAt: -1, EOFWithData: p%2 == 0}, nil)
	}
	panic("unknown reader style " + style)
}

func resolveAlg(a string) string {
	switch a {
	case "AES":
		return "A256KW"
	case "RSA":
		return "RSA-OAEP-256"
	}
	return a
}

func pair(name string) (encref.WrapFn, encref.UnwrapFn) {
	if name == "kit" {
		w, u, err := encref.KitPair()
		if err != nil {
			panic(err)
		}
		return w, u
	}
	return encref.IdentityPair()
}

func repoDir() string {
	if d := os.Getenv("VERIF_REPO"); d != "" {
		return d
	}
	return "/repo"
}

// stored testdata: plaintexts are generated as in scheme_test.go
var storedPlain = map[string][]byte{
	"single-segment.enc":             []byte("hello world"),
	"single-segment-no-key-name.enc": []byte("hello world"),
	"multi-segment.enc":              bytes.Repeat([]byte{1, 2, 3, 4, 5, 6, 7, 8, 9, 0}, 12<<10),
	"one-full-segment.enc":           bytes.Repeat([]byte{1, 2, 3, 4, 5, 6, 7, 8}, 8<<10),
	"two-full-segments.enc":          bytes.Repeat([]byte{1, 2, 3, 4, 5, 6, 7, 8}, 16<<10),
	"large-file.enc":                 bytes.Repeat([]byte{1, 2, 3, 4, 5, 6, 7, 8, 9, 0}, 30<<10),
	"empty-message.enc":              {},
}

func ctBounds(hdrLen, total int) []int {
	b := []int{hdrLen}
	for o := hdrLen + segSize + tagSize; o <= total; o += segSize + tagSize {
		b = append(b, o)
	}
	return b
}

func ptBounds(total int) []int {
	var b []int
	for o := segSize; o <= total; o += segSize {
		b = append(b, o)
	}
	return b
}

// drain reads r to its terminal error with reads of size k, comparing with want on the fly.
func drain(r io.Reader, k int, want []byte) (n int, equal bool, term error) {
	buf := make([]byte, k)
	equal = true
	deadline := time.Now().Add(60 * time.Second)
	for {
		m, err := r.Read(buf)
		if m < 0 || m > len(buf) || n+m > len(want) || !bytes.Equal(buf[:m], want[n:n+m]) {
			equal = false
		}
		n += m
		if err != nil {
			if n != len(want) {
				equal = false
			}
			return n, equal, err
		}
		if time.Now().After(deadline) {
			return n, false, errors.New("verif: drain timeout")
		}
	}
}

func termClass(err error) string {
	if err == io.EOF {
		return "eof"
	}
	return "err"
}

// decompose has the reference implementation take a document apart and records what it finds (doc and seg events).
func decompose(r *rec, doc, pt, fk, wfk []byte) encref.Header {
	h, payload := encref.ParseHeader(doc)
	has := func(k string) bool {
		for _, x := range h.Keys {
			if x == k {
				return true
			}
		}
		return false
	}
	de := tv.M{"scheme": h.Scheme, "lines": h.Lines, "compact": h.Compact, "required": has("kw") && has("wfk") && has("cph") && has("np") && h.ParseErr == "",
		"hasK": has("k"), "k": h.Manifest.KeyName, "kw": h.Manifest.Kw, "cph": h.Manifest.Cph,
		"wfkOK": len(wfk) > 0 && bytes.Equal(h.Manifest.WFK, wfk) && bytes.Contains(h.ManifestRaw, []byte(`"`+base64.StdEncoding.EncodeToString(wfk)+`"`)),
		"npLen": len(h.Manifest.NoncePrefix), "macStd": h.MacStd, "macLen": len(h.Mac),
		"macOK": h.MacStd && len(fk) == 32 && bytes.Equal(h.Mac, encref.ComputeMAC(fk, h.Signed)), "payloadLen": len(payload), "hdrLen": h.Len}
	r.Ev("doc", de)
	if h.Lines == 3 && len(fk) == 32 && len(h.Manifest.NoncePrefix) == encref.NPLen {
		off := 0
		for i, s := range encref.SplitSegments(payload) {
			opens, ok := "none", false
			for _, last := range []bool{true, false} {
				if p, err := encref.OpenSegment(h.Manifest.Cph, fk, h.Manifest.NoncePrefix, uint32(i), last, s); err == nil {
					opens = map[bool]string{true: "last", false: "notlast"}[last]
					ok = off+len(p) <= len(pt) && bytes.Equal(p, pt[off:off+len(p)])
					off += len(p)
					break
				}
			}
			r.Ev("seg", tv.M{"i": i, "clen": len(s), "opens": opens, "plainOK": ok})
		}
	}

	return h
}

// rejectOne has the real Decrypt reject one tampered document (tag of the first stored segment flipped) and waits until
// its goroutine has handed its buffer back.
func rejectOne(cph string, seed int64) string {
	w, u := encref.IdentityPair()
	c := v1.Cipher(cph)
	before := poolchk.Puts()
	enc, err := v1.Encrypt(bytes.NewReader(plaintext(2*segSize+500, seed)), v1.EncryptOptions{WrapKeyFn: w, KeyName: "k", Algorithm: v1.KeyAlgorithmAES256KW, Cipher: &c})
	if err != nil {
		return "encrypt: " + err.Error()
	}
	doc, err := io.ReadAll(enc)
	if err != nil {
		return "encrypt stream: " + err.Error()
	}
	h, _ := encref.ParseHeader(doc)
	doc[h.Len+segSize+tagSize-3] ^= 0x04
	dec, err := v1.Decrypt(bytes.NewReader(doc), v1.DecryptOptions{UnwrapKeyFn: u})
	if err != nil {
		return "decrypt: " + err.Error()
	}
	_, err = io.Copy(io.Discard, dec)
	poolchk.WaitPuts(before+3, 50*time.Millisecond)
	if err == nil {
		return "accepted"
	}
	return "rejected"
}

// runStaged: stage 1 rejects one tampered document; k = 0: the pool is drained and inspected right away; k >= 1: k
// Encrypt->Decrypt pipelines (Encrypt's output stream is Decrypt's input) of different multi-segment messages run
// concurrently on the pool as stage 1 left it.  One trace per pipeline (or one for k = 0).
func runStaged(cph string, k int, seed int64) (bs []*tv.Batch, descs []string) {
	outcome := rejectOne(cph, seed)
	if k == 0 {
		b := &tv.Batch{}
		b.Start(tv.M{"len": 0, "S": segSize, "tag": tagSize, "cipher": cph, "alg": "A256KW", "keyName": "k", "decKeyName": "", "omit": false, "producer": "stage", "hmax": segSize})
		b.Ev("stage", tv.M{"what": "one tampered document handed to Decrypt", "outcome": outcome})
		twice, n := poolchk.Drain()
		b.Ev("pool", tv.M{"twice": twice, "buffers": n, "after": "rejected-document"})
		b.Ev("end", nil)
		return []*tv.Batch{b}, []string{"one tampered document rejected, then the pool is inspected"}
	}
	type pipe struct {
		pt, fk, wfk, doc  []byte
		wrapAlg, wrapName string
		n                 int
		eq                bool
		term, errs        string
		encErr            string
	}
	ps := make([]*pipe, k)
	var wg sync.WaitGroup
	before := poolchk.Puts()
	for j := range ps {
		p := &pipe{pt: plaintext(2*segSize+1000*(j+1)+j, seed+int64(j))}
		ps[j] = p
		wg.Add(1)
		go func() {
			defer wg.Done()
			c := v1.Cipher(cph)
			enc, err := v1.Encrypt(bytes.NewReader(p.pt), v1.EncryptOptions{KeyName: "k", Algorithm: v1.KeyAlgorithmAES256KW, Cipher: &c,
				WrapKeyFn: func(key []byte, alg, name string, nonce []byte) ([]byte, []byte, error) {
					p.fk, p.wfk = append([]byte{}, key...), append([]byte{}, key...)
					p.wrapAlg, p.wrapName = alg, name
					return append([]byte{}, key...), nil, nil
				}})
			if err != nil {
				p.encErr = err.Error()
				return
			}
			var captured bytes.Buffer
			dec, err := v1.Decrypt(io.TeeReader(enc, &captured), v1.DecryptOptions{UnwrapKeyFn: func(w []byte, alg, name string, nonce, tag []byte) ([]byte, error) {
				return append([]byte{}, w...), nil
			}})
			if err != nil {
				p.term, p.errs = "decrypt-err", err.Error()
				_, _ = io.Copy(&captured, enc)
			} else {
				var term error
				p.n, p.eq, term = drain(dec, 3000, p.pt)
				p.term, p.errs = termClass(term), term.Error()
				go func() { _, _ = io.Copy(io.Discard, enc) }() // release the encrypting goroutine if Decrypt gave up early
			}
			p.doc = captured.Bytes()
		}()
	}
	wg.Wait()
	poolchk.WaitPuts(before+int64(3*k), 50*time.Millisecond)
	for j, p := range ps {
		b := &tv.Batch{}
		r := &rec{b: b}
		b.Start(tv.M{"len": len(p.pt), "S": segSize, "tag": tagSize, "cipher": cph, "alg": "A256KW", "keyName": "k", "decKeyName": "", "omit": false, "producer": "real", "hmax": segSize,
			"pipelines": k, "pipeline": j})
		r.Ev("stage", tv.M{"what": "one tampered document handed to Decrypt before the pipelines started", "outcome": outcome})
		if p.encErr != "" {
			r.Ev("encfail", tv.M{"stage": "call", "err": p.encErr, "hdrWouldBe": 0})
		} else {
			r.Ev("wrap", tv.M{"alg": p.wrapAlg, "keyName": p.wrapName, "fkLen": len(p.fk)})
			r.Ev("unwrap", tv.M{"override": "", "alg": "A256KW", "keyName": "k"})
			r.Ev("dec", tv.M{"by": "real", "override": "", "src": "pipeline", "cbuf": 3000, "mode": "pipeline-after-reject", "n": p.n, "equal": p.eq, "term": p.term, "err": p.errs})
			decompose(r, p.doc, p.pt, p.fk, p.wfk)
		}
		if j == len(ps)-1 {
			twice, n := poolchk.Drain()
			r.Ev("pool", tv.M{"twice": twice, "buffers": n, "after": "pipelines"})
		}
		r.Ev("end", nil)
		bs = append(bs, b)
		descs = append(descs, fmt.Sprintf("pipeline %d of %d concurrent Encrypt->Decrypt pipelines (%d-byte message, %s) started right after one tampered document was rejected", j+1, k, len(p.pt), cph))
	}
	return bs, descs
}

// runDoc executes one document case and appends its trace to b.
func runDoc(b *tv.Batch, cs docCase) {
	r := &rec{b: b}
	pt := plaintext(cs.Len, cs.Seed)
	if cs.Producer == "stored" {
		pt = storedPlain[cs.File]
	}
	b.Start(tv.M{"len": len(pt), "S": segSize, "tag": tagSize, "cipher": cs.Cipher, "alg": cs.Alg, "keyName": cs.KeyName,
		"decKeyName": cs.DecKeyName, "omit": cs.Omit, "producer": cs.Producer, "pair": cs.Pair, "src": cs.Src, "cbuf": cs.CBuf, "file": cs.File, "hmax": segSize})
	defer r.Ev("end", nil)
	var vault *encref.Vault
	var wrapFn encref.WrapFn
	var unwrapFn encref.UnwrapFn
	if cs.Pair == "caching" {
		vault = encref.NewVault()
		wrapFn, unwrapFn = vault.Wrap, vault.Unwrap
	} else if strings.HasPrefix(cs.Pair, "sized:") {
		n, _ := strconv.Atoi(cs.Pair[6:])
		sv := encref.NewSizedVault(n)
		wrapFn, unwrapFn = sv.Wrap, sv.Unwrap
	} else {
		wrapFn, unwrapFn = pair(cs.Pair)
	}
	keycheck := func(after string) {
		if vault != nil {
			r.Ev("keycheck", tv.M{"intact": vault.Intact(), "after": after})
		}
	}
	// pool discipline: once the goroutines of the operation have handed their buffers back, no buffer may be in the pool twice
	poolcheck := func(before, expect int64, after string) {
		poolchk.WaitPuts(before+expect, 20*time.Millisecond)
		if !cs.NoDrain {
			twice, n := poolchk.Drain()
			r.Ev("pool", tv.M{"twice": twice, "buffers": n, "after": after})
		}
	}
	var fk, wfk []byte
	var doc []byte
	switch cs.Producer {
	case "real":
		putsBefore := poolchk.Puts()
		opts := v1.EncryptOptions{
			WrapKeyFn: func(k []byte, alg, name string, nonce []byte) ([]byte, []byte, error) {
				r.Ev("wrap", tv.M{"alg": alg, "keyName": name, "fkLen": len(k)})
				fk = append([]byte{}, k...)
				w, tag, err := wrapFn(k, alg, name, nonce)
				wfk = append([]byte{}, w...)
				return w, tag, err
			},
			Algorithm: v1.KeyAlgorithm(cs.Alg), KeyName: cs.KeyName, DecryptionKeyName: cs.DecKeyName, OmitKeyName: cs.Omit,
		}
		if cs.Cipher != "" {
			c := v1.Cipher(cs.Cipher)
			opts.Cipher = &c
		}
		enc, err := v1.Encrypt(mkReader(cs.Src, pt, ptBounds(len(pt)), cs.Seed), opts)
		if err != nil {
			k := cs.DecKeyName
			if cs.Omit {
				k = ""
			} else if k == "" {
				k = cs.KeyName
			}
			if len(wfk) == 0 {
				wfk = make([]byte, 32)
			}
			cph := encref.CipherIDs[cs.Cipher]
			if cs.Cipher == "" {
				cph = 1
			}
			would := encref.HeaderLen(encref.Manifest{KeyName: k, Kw: encref.KwIDs[resolveAlg(cs.Alg)], WFK: wfk, Cph: cph, NoncePrefix: make([]byte, encref.NPLen)})
			r.Ev("encfail", tv.M{"stage": "call", "err": err.Error(), "hdrWouldBe": would})
			return
		}
		var buf bytes.Buffer
		chunk := make([]byte, cs.CBuf)
		for {
			n, err := enc.Read(chunk)
			buf.Write(chunk[:n])
			if err == io.EOF {
				break
			}
			if err != nil {
				r.Ev("encfail", tv.M{"stage": "stream", "err": err.Error(), "hdrWouldBe": 0})
				return
			}
		}
		doc = buf.Bytes()
		poolcheck(putsBefore, 1, "encrypt")
		keycheck("encrypt")
	case "ref":
		fk = plaintext(32, cs.Seed+1000)
		np := plaintext(7, cs.Seed+2000)
		w, _, err := wrapFn(fk, resolveAlg(cs.Alg), cs.KeyName, nil)
		if err != nil {
			panic(err)
		}
		wfk = w
		k := cs.DecKeyName
		if cs.Omit {
			k = ""
		} else if k == "" {
			k = cs.KeyName
		}
		cph := encref.CipherIDs[cs.Cipher]
		if cs.Cipher == "" {
			cph = 1
		}
		doc, err = encref.Encrypt(pt, encref.EncryptOpts{FileKey: fk, NoncePrefix: np, Cph: cph, Kw: encref.KwIDs[resolveAlg(cs.Alg)], WFK: wfk, KeyName: k})
		if err != nil {
			panic(err)
		}
	case "stored":
		var err error
		doc, err = os.ReadFile(filepath.Join(repoDir(), "schemes", "enc", "v1", "testdata", cs.File))
		if err != nil {
			panic(err)
		}
		h, _ := encref.ParseHeader(doc)
		fk, wfk = h.Manifest.WFK, h.Manifest.WFK // the stored documents were made with the identity pair
	}

	h := decompose(r, doc, pt, fk, wfk)

	// decryptions
	for _, d := range cs.Decs {
		switch d.By {
		case "ref":
			out, err := encref.Decrypt(doc, func(w []byte, kw, name string) ([]byte, error) { return unwrapFn(w, kw, name, nil, nil) }, d.Override)
			term := "eof"
			if err != nil {
				term = "decrypt-err"
			}
			r.Ev("dec", tv.M{"by": "ref", "override": d.Override, "src": d.Src, "cbuf": d.CBuf, "n": len(out), "equal": bytes.Equal(out, pt), "term": term})
		case "real":
			putsBefore := poolchk.Puts()
			n, eq, term, errs := realDecrypt(r, doc, pt, h.Len, cs, d, unwrapFn, true)
			expect := int64(2)
			if d.Mode == "slow-unwrap" {
				expect += 3
			}
			if d.Mode == "two-streams" {
				expect *= 2
			}
			if term == "decrypt-err" {
				expect = 1
			}
			m := tv.M{"by": "real", "override": d.Override, "src": d.Src, "cbuf": d.CBuf, "mode": d.Mode, "n": n, "equal": eq, "term": term, "err": errs}
			if (term != "eof" || !eq) && poolchk.Poison.Load() {
				// does the same decryption succeed when pooled buffers are left alone after Put?
				poolchk.Poison.Store(false)
				_, eq2, term2, _ := realDecrypt(r, doc, pt, h.Len, cs, d, unwrapFn, false)
				poolchk.Poison.Store(true)
				m["poisonOnly"] = term2 == "eof" && eq2
			}
			r.Ev("dec", m)
			poolcheck(putsBefore, expect, "decrypt")
			keycheck("decrypt")
		}
	}
}

// realDecrypt runs the real Decrypt over doc in the given mode and returns (bytes read, equal to pt, terminal class, error text).
func realDecrypt(r *rec, doc, pt []byte, hdrLen int, cs docCase, d decCase, unwrapFn encref.UnwrapFn, log bool) (int, bool, string, string) {
	open := func() (io.Reader, error) {
		in := mkReader(d.Src, doc, ctBounds(hdrLen, len(doc)), cs.Seed)
		return v1.Decrypt(in, v1.DecryptOptions{KeyName: d.Override,
			UnwrapKeyFn: func(w []byte, alg, name string, nonce, tag []byte) ([]byte, error) {
				if log {
					r.Ev("unwrap", tv.M{"override": d.Override, "alg": alg, "keyName": name})
				}
				if d.Mode == "slow-unwrap" {
					// a slow key vault: meanwhile another complete round trip goes through the same buffer pool
					iw, iu := encref.IdentityPair()
					other := plaintext(segSize+77, 31)
					if enc, err := v1.Encrypt(bytes.NewReader(other), v1.EncryptOptions{WrapKeyFn: iw, KeyName: "other", Algorithm: v1.KeyAlgorithmAES256KW}); err == nil {
						if od, err := io.ReadAll(enc); err == nil {
							if dd, err := v1.Decrypt(bytes.NewReader(od), v1.DecryptOptions{UnwrapKeyFn: iu}); err == nil {
								_, _ = io.Copy(io.Discard, dd)
							}
						}
					}
					time.Sleep(time.Millisecond)
				}
				return unwrapFn(w, alg, name, nonce, tag)
			}})
	}
	dec, err := open()
	if err != nil {
		return 0, false, "decrypt-err", err.Error()
	}
	if d.Mode == "two-streams" {
		// a caller that opens two streams first and reads them afterwards, the second one first
		dec2, err := open()
		if err != nil {
			_, _ = io.Copy(io.Discard, dec)
			return 0, false, "decrypt-err", "second stream: " + err.Error()
		}
		n2, eq2, term2 := drain(dec2, d.CBuf, pt)
		n1, eq1, term1 := drain(dec, d.CBuf, pt)
		if term2 != io.EOF || !eq2 {
			return n2, false, termClass(term2), "second stream: " + term2.Error()
		}
		return n1, eq1, termClass(term1), "first stream: " + term1.Error()
	}
	n, eq, term := drain(dec, d.CBuf, pt)
	return n, eq, termClass(term), term.Error()
}

// header-size boundary: the header is limited to one segment; the key name is its only unbounded field.
var hdrBoundary = tv.M{}

func tryEncrypt(cs docCase) bool {
	wrapFn, _ := pair(cs.Pair)
	enc, err := v1.Encrypt(bytes.NewReader([]byte("x")), v1.EncryptOptions{WrapKeyFn: wrapFn, Algorithm: v1.KeyAlgorithm(cs.Alg), KeyName: cs.KeyName,
		DecryptionKeyName: cs.DecKeyName, OmitKeyName: cs.Omit})
	if err != nil {
		return false
	}
	_, err = io.Copy(io.Discard, enc)
	return err == nil
}

func hdrBoundaryCases(thorough bool, seed int64) []docCase {
	var out []docCase
	decs := func(ovr string) []decCase {
		return []decCase{{By: "ref", Override: ovr}, {By: "real", Src: "bytes.Reader", CBuf: 4096, Override: ovr}, {By: "real", Src: "b-1+0+1", CBuf: segSize + 1, Override: ovr},
			{By: "real", Src: "half", CBuf: 1000, Override: ovr}, {By: "real", Src: "dataerr", CBuf: 1 << 20, Override: ovr}, {By: "real", Src: "whole", CBuf: 512, Override: ovr, Mode: "two-streams"}}
	}
	type cfg struct {
		pair, alg, ch string
		viaDec        bool // the long name is DecryptionKeyName (KeyName stays short)
	}
	cfgs := []cfg{{"identity", "A256KW", "a", false}, {"kit", "RSA-OAEP-256", "a", false}, {"identity", "AES", "<", false}, {"kit", "RSA", "k", true}}
	if thorough {
		cfgs = append(cfgs, cfg{"kit", "RSA-OAEP-256", "\"", false}, cfg{"identity", "A256KW", "\u00e9", true})
	}
	for _, c := range cfgs {
		mk := func(klen int, l int) docCase {
			cs := docCase{Producer: "real", Len: l, Cipher: "AES-GCM", Alg: c.alg, KeyName: strings.Repeat(c.ch, klen), Pair: c.pair, Src: "whole", CBuf: 4096, Seed: seed + int64(klen)}
			if c.viaDec {
				cs.KeyName, cs.DecKeyName = "enc-key", strings.Repeat(c.ch, klen)
			}
			return cs
		}
		lo, hi := 1, 70000 // Encrypt succeeds at lo, fails at hi
		if !tryEncrypt(mk(lo, 1)) || tryEncrypt(mk(hi, 1)) {
			hdrBoundary[fmt.Sprintf("%s/%s/%q", c.pair, c.alg, c.ch)] = "no boundary between 1 and 70000"
			lo = 65000
		} else {
			for hi-lo > 1 {
				mid := (lo + hi) / 2
				if tryEncrypt(mk(mid, 1)) {
					lo = mid
				} else {
					hi = mid
				}
			}
			hdrBoundary[fmt.Sprintf("%s/%s/%q", c.pair, c.alg, c.ch)] = lo
		}
		for k := lo - 3; k <= lo+3; k++ {
			cs := mk(k, 5)
			cs.Decs = decs("")
			out = append(out, cs)
		}
		cs := mk(lo, segSize+1)
		cs.Decs = decs("")
		out = append(out, cs)
		// OmitKeyName: the key name does not go into the header, any length must work (with an explicit key name at Decrypt)
		for _, k := range []int{lo + 3, 70000} {
			cs := mk(k, 5)
			cs.Omit = true
			cs.Decs = decs("ovr-key")
			out = append(out, cs)
		}
	}
	return out
}

var allAlgs = []string{"A256KW", "A128CBC-NOPAD", "A192CBC-NOPAD", "A256CBC-NOPAD", "RSA-OAEP-256", "AES", "RSA"}
var allCiphers = []string{"AES-GCM", "CHACHA20-POLY1305", ""}

func docCases(thorough bool, rng *rand.Rand) []docCase {
	var out []docCase
	seed := ev.Seed()
	lens := []int{0, 1, segSize - 1, segSize, segSize + 1, 2*segSize - 1, 2 * segSize, 2*segSize + 1, 3 * segSize, 1 + rng.Intn(3*segSize)}
	if thorough {
		lens = append(lens, 3*segSize-1, 3*segSize+1, 4*segSize, 1+rng.Intn(5*segSize), 1+rng.Intn(segSize), 1<<20+rng.Intn(100), 16<<20+3)
	}
	srcStyles := []string{"whole", "whole-eof", "bytes.Reader", "b-1", "b+0", "b+1", "b-1+0+1", "zeros", "half", "dataerr", "dataerr-half", "rnd", "onebyte"}
	cbufs := []int{1, 16, segSize - 1, segSize, segSize + 1, 1 << 20}
	keyOpts := []struct {
		dec  string
		omit bool
	}{{"", false}, {"dec-key", false}, {"", true}, {"dec-key", true}}
	i := 0
	decsFor := func(l int, omit bool, i int) []decCase {
		ovr := ""
		if omit || i%5 == 0 {
			ovr = "ovr-key"
		}
		ds := []decCase{{By: "ref", Override: ovr}}
		styles := []string{srcStyles[i%len(srcStyles)], srcStyles[(i+5)%len(srcStyles)], srcStyles[(i+9)%len(srcStyles)]}
		if thorough {
			styles = srcStyles
		}
		for j, st := range styles {
			cb := cbufs[(i+j)%len(cbufs)]
			if (cb == 1 && l > segSize+1 && !thorough) || (cb < 1000 && l > 4*segSize) {
				cb = segSize
			}
			if st == "onebyte" && l > 5*segSize {
				st = "rnd"
			}
			ds = append(ds, decCase{By: "real", Src: st, CBuf: cb, Override: ovr})
		}
		// poisoned-pool scenarios: header and payload in one read / many reads, slow unwrap, two streams opened before reading
		ds = append(ds, decCase{By: "real", Src: "whole", CBuf: 4096, Override: ovr, Mode: "two-streams"},
			decCase{By: "real", Src: styles[0], CBuf: segSize, Override: ovr, Mode: "slow-unwrap"},
			decCase{By: "real", Src: "b-1+0+1", CBuf: 1000, Override: ovr, Mode: "two-streams"})
		if omit {
			ds = append(ds, decCase{By: "real", Src: "whole", CBuf: segSize, Override: ""}) // must fail with "key missing" or succeed correctly
		}
		return ds
	}
	// boundary lengths x ciphers x source styles; algorithms, key options, pairs and consumer sizes rotate
	for _, l := range lens {
		for ci := 0; ci < 2; ci++ {
			for _, st := range srcStyles {
				if st == "onebyte" && l > 5*segSize {
					continue
				}
				ko := keyOpts[i%len(keyOpts)]
				cb := cbufs[i%len(cbufs)]
				if (cb == 1 && l > segSize+1 && !thorough) || (cb < 1000 && l > 4*segSize) {
					cb = 1 << 20
				}
				out = append(out, docCase{Producer: "real", Len: l, Cipher: allCiphers[(ci+i/7)%3], Alg: allAlgs[i%len(allAlgs)], KeyName: "enc-key",
					DecKeyName: ko.dec, Omit: ko.omit, Pair: []string{"identity", "kit"}[(i/3)%2], Src: st, CBuf: cb, Seed: seed + int64(i), Decs: decsFor(l, ko.omit, i)})
				i++
			}
		}
	}
	// full option product on small messages
	for _, l := range []int{0, 5, segSize + 9} {
		if l > segSize && !thorough {
			continue
		}
		for _, alg := range allAlgs {
			for _, cph := range allCiphers {
				for _, ko := range keyOpts {
					for _, p := range []string{"identity", "kit"} {
						ds := []decCase{{By: "ref", Override: ""}, {By: "ref", Override: "ovr-key"},
							{By: "real", Src: "bytes.Reader", CBuf: 512, Override: ""}, {By: "real", Src: "dataerr", CBuf: 7, Override: "ovr-key"}}
						out = append(out, docCase{Producer: "real", Len: l, Cipher: cph, Alg: alg, KeyName: "enc-key", DecKeyName: ko.dec, Omit: ko.omit,
							Pair: p, Src: "whole-eof", CBuf: 4096, Seed: seed + int64(i), Decs: ds})
						i++
					}
				}
			}
		}
	}
	// header split across the reads of the ciphertext source in every way, small documents
	for _, l := range []int{0, 1, 9} {
		for ci := 0; ci < 2; ci++ {
			var ds []decCase
			total := 260 // upper bound of the document size; split points beyond the end are harmless
			for p := 1; p < total; p++ {
				ds = append(ds, decCase{By: "real", Src: fmt.Sprintf("split:%d", p), CBuf: 16 + p%3})
				if thorough || p%4 == 0 {
					ds = append(ds, decCase{By: "real", Src: fmt.Sprintf("split:%d:%d", p, p+1+p%37), CBuf: 64})
				}
			}
			ds = append(ds, decCase{By: "real", Src: "onebyte", CBuf: 1}, decCase{By: "real", Src: "half", CBuf: 3}, decCase{By: "real", Src: "dataerr", CBuf: 1 << 20})
			for _, st := range []string{"whole", "whole-eof", "bytes.Reader", "onebyte", "split:100", "split:170"} {
				ds = append(ds, decCase{By: "real", Src: st, CBuf: 64, Mode: "two-streams"}, decCase{By: "real", Src: st, CBuf: 64, Mode: "slow-unwrap"})
			}
			out = append(out, docCase{Producer: "real", Len: l, Cipher: allCiphers[ci], Alg: "A256KW", KeyName: "k", Pair: "identity", Src: "whole", CBuf: 100,
				Seed: seed + int64(i), Decs: ds})
			i++
		}
	}
	// documents produced by the reference implementation, read by the real Decrypt
	refLens := []int{0, 1, segSize - 1, segSize, segSize + 1, 2 * segSize, 2*segSize + 1}
	if thorough {
		refLens = append(refLens, lens...)
	}
	for _, l := range refLens {
		for ci := 0; ci < 2; ci++ {
			for _, omit := range []bool{false, true} {
				alg := allAlgs[i%len(allAlgs)]
				out = append(out, docCase{Producer: "ref", Len: l, Cipher: allCiphers[ci], Alg: alg, KeyName: "enc-key", DecKeyName: []string{"", "dec-key"}[i%2], Omit: omit,
					Pair: []string{"identity", "kit"}[(i/2)%2], Seed: seed + int64(i), Decs: decsFor(l, omit, i)[1:]})
				i++
			}
		}
	}
	// zero-length reads spread over the WHOLE stream (hundreds of them, never many in a row), for the plaintext source of
	// Encrypt and the ciphertext source of Decrypt
	zl := []int{4*segSize + 17, 2 * segSize}
	if thorough {
		zl = append(zl, 1<<20, 3<<20+5)
	}
	for _, l := range zl {
		for ci := 0; ci < 2; ci++ {
			for _, st := range []string{"zeros-many", "zeros-many3"} {
				out = append(out, docCase{Producer: "real", Len: l, Cipher: allCiphers[ci], Alg: allAlgs[i%len(allAlgs)], KeyName: "enc-key", Pair: "identity", Src: st, CBuf: segSize, Seed: seed + int64(i),
					Decs: []decCase{{By: "ref"}, {By: "real", Src: "zeros-many", CBuf: segSize}, {By: "real", Src: "zeros-many3", CBuf: 1 << 20}, {By: "real", Src: "bytes.Reader", CBuf: 4096}}})
				i++
			}
		}
	}
	// wrapped file keys of many sizes (the format does not limit the wrapped key; the header as a whole must fit one segment)
	for wi, n := range []int{1, 16, 32, 40, 256, 512, 513, 1024, 4096, 40000, 65536} {
		for _, l := range []int{5, segSize + 1} {
			out = append(out, docCase{Producer: "real", Len: l, Cipher: allCiphers[(wi+l)%2], Alg: allAlgs[i%len(allAlgs)], KeyName: "enc-key", Omit: wi%3 == 2, Pair: fmt.Sprintf("sized:%d", n), Src: "whole-eof",
				CBuf: 4096, Seed: seed + int64(i), Decs: []decCase{{By: "ref", Override: "ovr-key"}, {By: "real", Src: "bytes.Reader", CBuf: 4096, Override: "ovr-key"}, {By: "real", Src: "half", CBuf: segSize, Override: "ovr-key"},
					{By: "real", Src: "whole", CBuf: 512, Override: "ovr-key", Mode: "two-streams"}}})
			i++
		}
	}
	// caching key provider: the unwrap callback returns the same retained slice on every call; every document is
	// decrypted several times (and once unsuccessfully: no key name) through it
	for _, l := range []int{0, 5, segSize + 1, 2 * segSize} {
		for ci := 0; ci < 2; ci++ {
			for _, omit := range []bool{false, true} {
				ovr := ""
				if omit {
					ovr = "ovr-key"
				}
				ds := []decCase{{By: "real", Src: "bytes.Reader", CBuf: 4096, Override: ovr}, {By: "ref", Override: ovr}, {By: "real", Src: "b-1+0+1", CBuf: segSize, Override: ovr}}
				if omit {
					ds = append(ds, decCase{By: "real", Src: "whole", CBuf: 512, Override: ""}) // fails: no key name anywhere
				}
				ds = append(ds, decCase{By: "real", Src: "dataerr-half", CBuf: 1000, Override: ovr}, decCase{By: "real", Src: "whole", CBuf: 700, Override: ovr, Mode: "two-streams"},
					decCase{By: "real", Src: "rnd", CBuf: 1 << 20, Override: ovr, Mode: "slow-unwrap"}, decCase{By: "ref", Override: ovr}, decCase{By: "real", Src: "zeros", CBuf: 16 * 1024, Override: ovr})
				out = append(out, docCase{Producer: "real", Len: l, Cipher: allCiphers[ci], Alg: allAlgs[i%len(allAlgs)], KeyName: "enc-key", DecKeyName: []string{"", "dec-key"}[i%2], Omit: omit,
					Pair: "caching", Src: srcStyles[i%len(srcStyles)], CBuf: 4096, Seed: seed + int64(i), Decs: ds})
				i++
			}
		}
	}
	// key-name length across the maximum header size
	out = append(out, hdrBoundaryCases(thorough, seed+int64(i))...)
	i = len(out)
	// stored testdata of the repository
	if ents, err := os.ReadDir(filepath.Join(repoDir(), "schemes", "enc", "v1", "testdata")); err == nil {
		for _, en := range ents {
			pt, ok := storedPlain[en.Name()]
			if !ok {
				continue
			}
			omit := strings.Contains(en.Name(), "no-key-name")
			ovr := ""
			if omit {
				ovr = "mykey"
			}
			out = append(out, docCase{Producer: "stored", File: en.Name(), Len: len(pt), Cipher: "AES-GCM", Alg: "A256KW", KeyName: "mykey", Omit: omit, Pair: "identity",
				Decs: []decCase{{By: "ref", Override: ovr}, {By: "real", Src: "bytes.Reader", CBuf: 32 * 1024, Override: ovr}, {By: "real", Src: "b-1+0+1", CBuf: segSize + 1, Override: ovr},
					{By: "real", Src: "dataerr-half", CBuf: 1000, Override: ovr}}})
			i++
		}
	}
	return out
}

// ---------------------------------------------------------------------------
// (d) the real per-segment functions at arbitrary segment numbers (v1.VerifSegmentFns)

type segfnCase struct {
	Cipher string `json:"cipher"`
	N      uint32 `json:"N"`
}

// runSegFn seals a chunk with the REAL segment encryptor at (N, last) and asks the README opener under which of the
// boundary positions it opens; compares it byte for byte with the README sealing; and has the REAL segment decryptor
// open the README sealing.  One trace per (cipher, N).
func runSegFn(b *tv.Batch, cs segfnCase) {
	b.Start(tv.M{"len": 0, "S": segSize, "tag": tagSize, "cipher": cs.Cipher, "alg": "A256KW", "keyName": "k", "decKeyName": "", "omit": false,
		"producer": "segfn", "N": int64(cs.N), "hmax": segSize})
	fk, np := plaintext(32, int64(cs.N)+5), plaintext(7, int64(cs.N)+6)
	cph := encref.CipherIDs[cs.Cipher]
	enc, dec, err := v1.VerifSegmentFns(fk, np, v1.Cipher(cs.Cipher))
	if err != nil {
		b.Ev("encfail", tv.M{"stage": "call", "err": err.Error(), "hdrWouldBe": 0})
		b.Ev("end", nil)
		return
	}
	chunk := plaintext(48, int64(cs.N)+7)
	pos := func(n uint32, last bool) tv.M { return tv.M{"hi": int(n >> 16), "lo": int(n & 0xffff), "last": last} }
	for _, last := range []bool{false, true} {
		// real encryptor -> README opener
		var out bytes.Buffer
		buf := make([]byte, len(chunk), len(chunk)+64)
		copy(buf, chunk)
		opens := []tv.M{}
		same, plainOK := false, false
		if err := enc(&out, buf, cs.N, last); err == nil {
			for _, l2 := range []bool{false, true} {
				for _, n2 := range encref.BoundaryCounters {
					if p, err := encref.OpenSegment(cph, fk, np, n2, l2, out.Bytes()); err == nil {
						opens = append(opens, pos(n2, l2))
						if n2 == cs.N && l2 == last {
							plainOK = bytes.Equal(p, chunk)
						}
					}
				}
			}
			ref, _ := encref.SealSegment(cph, fk, np, cs.N, last, chunk)
			same = bytes.Equal(ref, out.Bytes())
		}
		m := pos(cs.N, last)
		m["dir"], m["opens"], m["same"], m["plainOK"] = "enc", opens, same, plainOK
		b.Ev("segn", m)
		// README sealing -> real decryptor
		ref, _ := encref.SealSegment(cph, fk, np, cs.N, last, chunk)
		var got bytes.Buffer
		opens = []tv.M{}
		if err := dec(&got, append(make([]byte, 0, len(ref)+16), ref...), cs.N, last); err == nil {
			opens = append(opens, pos(cs.N, last))
		}
		m = pos(cs.N, last)
		m["dir"], m["opens"], m["same"], m["plainOK"] = "dec", opens, true, bytes.Equal(got.Bytes(), chunk) || len(opens) == 0
		b.Ev("segn", m)
	}
	b.Ev("end", nil)
}

// ---------------------------------------------------------------------------

// batches collects traces into several TLC batches of bounded size.
type batches struct {
	bs      []*tv.Batch
	caseOf  [][]int // per batch: global case index of every trace
	maxLine int
}

func (m *batches) cur() *tv.Batch {
	if len(m.bs) == 0 || m.bs[len(m.bs)-1].Lines() >= m.maxLine {
		m.bs = append(m.bs, &tv.Batch{})
		m.caseOf = append(m.caseOf, nil)
	}
	return m.bs[len(m.bs)-1]
}

func (m *batches) note(caseIdx int) { m.caseOf[len(m.bs)-1] = append(m.caseOf[len(m.bs)-1], caseIdx) }

type reject struct {
	Case  int
	At    int
	Why   string
	Trace []string
}

// validate runs TLC on every batch (a few at a time) and returns the rejected runs.
func (m *batches) validate(module string, timeout time.Duration) (rej []reject, traces int, lines int, distinct int64, err string) {
	type res struct {
		rs  []tv.Reject
		r   tlc.Result
		idx int
	}
	out := make([]res, len(m.bs))
	sem := make(chan struct{}, 4)
	var wg sync.WaitGroup
	for i := range m.bs {
		wg.Add(1)
		go func(i int) {
			defer wg.Done()
			sem <- struct{}{}
			defer func() { <-sem }()
			rs, r := encref.Validate(tlc.Opts{Dir: specDir, Module: module, Config: module + ".cfg", Workers: 4, Timeout: timeout, HeapMB: 6144}, m.bs[i])
			out[i] = res{rs, r, i}
		}(i)
	}
	wg.Wait()
	for i, o := range out {
		traces += m.bs[i].Len()
		lines += m.bs[i].Lines()
		distinct += o.r.Distinct
		if !o.r.OK && !o.r.Violation {
			err = "trace validation did not run: " + o.r.What + "\n" + o.r.Tail(1500)
			continue
		}
		if o.r.Violation && len(o.rs) == 0 {
			err = "TLC reported a violation that could not be parsed:\n" + o.r.Tail(1500)
			continue
		}
		for _, r := range o.rs {
			rej = append(rej, reject{Case: m.caseOf[i][r.Trace], At: r.At, Why: r.Why, Trace: m.bs[i].TraceStrings(r.Trace)})
		}
	}
	return
}

func mcRun(e *ev.Evidence, module, cfg string, timeout time.Duration, wantViolation bool) tlc.Result {
	mc := encref.RunTLC(tlc.Opts{Dir: specDir, Module: module, Config: cfg, Workers: 8, Timeout: timeout, Args: []string{"-noGenerateSpecTE"}})
	fmt.Printf("MC %s/%s: ok=%v violation=%v generated=%d distinct=%d depth=%d wall=%s %s\n", module, cfg, mc.OK, mc.Violation, mc.Generated, mc.Distinct, mc.Depth, mc.Wall.Round(time.Millisecond), mc.What)
	if wantViolation {
		if !mc.Violation {
			e.Inconclusive("defect configuration " + cfg + " of " + module + " was not rejected by TLC (vacuous model check?): " + mc.What)
		}
	} else if !mc.OK {
		e.Inconclusive("model check of " + module + " (" + cfg + ") did not pass: " + mc.What + "\n" + mc.Tail(3000))
	}
	return mc
}

func TestCheck(t *testing.T) {
	e := ev.New("C01", "model_checking")
	defer func() {
		if e.Write() > 0 {
			t.Fail()
		}
	}()
	thorough := ev.Thorough()
	rng := rand.New(rand.NewSource(ev.Seed()))
	installPoison()

	// 1. exhaustive model checks (in parallel with the drivers below)
	var mcWG sync.WaitGroup
	var mcFraming, mcFormat, mcPosition tlc.Result
	mcWG.Add(1)
	go func() {
		defer mcWG.Done()
		mcFraming = mcRun(e, "EncFraming", ev.Pick("MC_framing_small.cfg", "MC_framing_big.cfg"), ev.Pick(4*time.Minute, 30*time.Minute), false)
		mcFormat = mcRun(e, "EncV1Format", "MC_format.cfg", 5*time.Minute, false)
		// the defect variants (each must be rejected by TLC), three at a time
		var dw sync.WaitGroup
		sem := make(chan struct{}, 3)
		defect := func(module, cfg string) {
			dw.Add(1)
			go func() {
				defer dw.Done()
				sem <- struct{}{}
				defer func() { <-sem }()
				mcRun(e, module, cfg, 3*time.Minute, true)
			}()
		}
		for _, d := range []string{"MC_framing_defect_swallow.cfg", "MC_framing_defect_nocarry.cfg", "MC_framing_defect_eager-last.cfg", "MC_framing_defect_empty-read-budget.cfg", "MC_framing_defect_small-counter-limit.cfg"} {
			defect("EncFraming", d)
		}
		for _, d := range []string{"MC_format_defect_alias.cfg", "MC_format_defect_omit.cfg", "MC_format_defect_hdr-off-by-one.cfg", "MC_format_defect_hdr-none.cfg", "MC_format_defect_wipes-key.cfg"} {
			defect("EncV1Format", d)
		}
		for _, d := range []string{"MC_position_fmt_defect_wrap24.cfg", "MC_position_fmt_defect_last-overlaps.cfg"} {
			defect("EncPosition", d)
		}
		mcPosition = mcRun(e, "EncPosition", "MC_position.cfg", 3*time.Minute, false)
		dw.Wait()
	}()

	// 2. the real segment loop at small segment sizes, every enumerated reader script
	var fcases []frameCase
	for _, S := range ev.Pick([]int{3}, []int{3, 4}) {
		fcases = append(fcases, frameCases(S, thorough, rng)...)
		// hundreds of zero-length reads spread over a long stream (never more than three in a row)
		fcases = append(fcases,
			frameCase{S: S, Len: 250, Script: encref.Script{ChunkSize: 1, ZeroEach: 1, ErrAt: -1}, CBuf: 64},
			frameCase{S: S, Len: 200, Script: encref.Script{ChunkSize: 2, ZeroEach: 2, ErrAt: -1, EOFWithData: true}, CBuf: S},
			frameCase{S: S, Len: 254, Script: encref.Script{ChunkSize: S + 1, ZeroEach: 3, ErrAt: -1}, CBuf: 1},
			frameCase{S: S, Len: 252, Script: encref.Script{ChunkSize: S, ZeroEach: 1, ErrAt: -1, EOFWithData: true}, CBuf: 7})
	}
	fb := &batches{maxLine: 250000}
	for i, cs := range fcases {
		runFrame(fb.cur(), cs)
		fb.note(i)
		if cs.Len > cs.S || cs.Script.ErrAt >= 0 || len(cs.Script.ZeroBefore) > 0 || cs.Script.EOFWithData {
			e.Nontrivial(fmt.Sprintf("frame %v", cs))
		}
	}
	// streams of more than 2^16 segments (the documented limit is 2^32): the loop must process them to the end
	bigSegs := [][2]int{{1, 65535}, {1, 65536}, {1, 65537}, {1, 70000}, {2, 65536}, {3, 65537}}
	if thorough {
		bigSegs = append(bigSegs, [2]int{1, 1<<17 + 1}, [2]int{1, 1 << 20}, [2]int{4, 1<<16 + 1}, [2]int{1, 1<<24 + 1})
	}
	nSmall := len(fcases)
	for _, bs := range bigSegs {
		runFrameBig(fb.cur(), bs[0], bs[1])
		fb.note(len(fcases))
		fcases = append(fcases, frameCase{S: bs[0], Len: bs[0] * bs[1], Script: encref.Script{ChunkSize: 4096, ErrAt: -1}, CBuf: 4096})
		e.Nontrivial(fmt.Sprintf("frame-big S=%d segments=%d", bs[0], bs[1]))
	}
	fmt.Printf("framing: %d runs of the real loop recorded (%d with more than 65534 segments)\n", len(fcases), len(fcases)-nSmall)

	// 3. real Encrypt / Decrypt at the real segment size
	dcases := docCases(thorough, rng)
	dres := make([]*tv.Batch, len(dcases))
	// one operation at a time, on one P: C01 is about an operation run alone (interference between concurrent streams
	// through the package-level BufPool is property C08's subject), and one P means one pool shard, so that what one
	// operation hands back is what the next one gets and draining the pool is exact
	prevProcs := runtime.GOMAXPROCS(1)
	for i := range dcases {
		b := &tv.Batch{}
		runDoc(b, dcases[i])
		dres[i] = b
	}
	// staged family: ONE tampered document is rejected first, then (a) the pool is inspected, (b) 1..3 Encrypt->Decrypt
	// pipelines (two segment loops each) run at the same time: every round trip must succeed
	var staged []*tv.Batch
	var stagedDesc []string
	for ci, cph := range []string{"AES-GCM", "CHACHA20-POLY1305"} {
		for k := 0; k <= 3; k++ {
			bs, ds := runStaged(cph, k, ev.Seed()+int64(10*ci+k))
			staged = append(staged, bs...)
			stagedDesc = append(stagedDesc, ds...)
		}
	}
	runtime.GOMAXPROCS(prevProcs)
	db := &batches{maxLine: 250000}
	ndec := 0
	for i, b := range dres {
		db.cur().AppendTrace(b.Trace(0))
		db.note(i)
		ndec += len(dcases[i].Decs)
		cs := dcases[i]
		cs.Seed = 0
		cs.Decs = nil
		if len(cs.KeyName)+len(cs.DecKeyName) > 100 {
			cs.KeyName, cs.DecKeyName = fmt.Sprintf("%.1s x %d", cs.KeyName, len(cs.KeyName)), fmt.Sprintf("%.1s x %d", cs.DecKeyName, len(cs.DecKeyName))
		}
		e.Nontrivial(fmt.Sprintf("doc %v", cs))
	}
	fmt.Printf("format/round trip: %d documents, %d decryptions recorded\n", len(dcases), ndec)

	// 3b. the real segment functions at segment numbers over the whole 32-bit range
	var scases []segfnCase
	sb := &batches{maxLine: 250000}
	for _, cph := range []string{"AES-GCM", "CHACHA20-POLY1305"} {
		for _, n := range encref.BoundaryCounters {
			scases = append(scases, segfnCase{Cipher: cph, N: n})
			runSegFn(sb.cur(), scases[len(scases)-1])
			sb.note(len(scases) - 1)
			e.Nontrivial(fmt.Sprintf("segfn %v", scases[len(scases)-1]))
		}
	}

	mcWG.Wait()
	e.Set("states", mcFraming.Distinct+mcFormat.Distinct+mcPosition.Distinct)
	e.Set("transitions", mcFraming.Generated+mcFormat.Generated+mcPosition.Generated)
	e.Set("checker_cmd", mcFraming.Cmd+" ; "+mcFormat.Cmd)
	e.Set("model_checks", tv.M{"EncFraming": tv.M{"distinct": mcFraming.Distinct, "generated": mcFraming.Generated, "depth": mcFraming.Depth},
		"EncV1Format": tv.M{"distinct": mcFormat.Distinct, "generated": mcFormat.Generated}, "EncPosition": tv.M{"distinct": mcPosition.Distinct}, "defect_configs_rejected": 12})

	// 4. TLC judges the recorded executions
	frej, ftr, fl, _, ferr := fb.validate("TraceEncFraming", ev.Pick(6*time.Minute, 40*time.Minute))
	fmt.Printf("TLC framing trace validation: traces=%d lines=%d rejects=%d %s\n", ftr, fl, len(frej), ferr)
	drej, dtr, dl, _, derr := db.validate("TraceEncV1Format", ev.Pick(6*time.Minute, 30*time.Minute))
	fmt.Printf("TLC format trace validation: traces=%d lines=%d rejects=%d %s\n", dtr, dl, len(drej), derr)
	stb := &batches{maxLine: 250000}
	for i, b := range staged {
		stb.cur().AppendTrace(b.Trace(0))
		stb.note(i)
		e.Nontrivial("staged " + stagedDesc[i])
	}
	strej, sttr, _, _, sterr := stb.validate("TraceEncV1Format", 5*time.Minute)
	fmt.Printf("TLC staged-family trace validation: traces=%d rejects=%d %s\n", sttr, len(strej), sterr)
	if sterr != "" {
		e.Inconclusive(sterr)
	}
	for _, r := range strej {
		evs := ""
		if r.At < len(r.Trace) {
			evs = r.Trace[r.At]
		}
		key := "format:staged:" + slug(r.Why)
		switch {
		case strings.HasPrefix(r.Why, "pooled buffer"):
			key = "pool:buffer-in-pool-twice:after-" + jsonField(evs, "after")
		case strings.Contains(evs, `"ev":"dec"`):
			key = "roundtrip:pipeline-after-rejected-document:" + slug(r.Why)
		}
		if len(evs) > 500 {
			evs = evs[:500] + "..."
		}
		e.Violation(key, fmt.Sprintf("%s: %s [%s]", stagedDesc[r.Case], r.Why, evs), tv.M{"scenario": stagedDesc[r.Case], "trace": r.Trace, "at": r.At})
	}
	srej, str, sl, _, serr := sb.validate("TraceEncV1Format", 5*time.Minute)
	fmt.Printf("TLC segment-number trace validation: traces=%d lines=%d rejects=%d %s\n", str, sl, len(srej), serr)
	if serr != "" {
		e.Inconclusive(serr)
	}
	for _, r := range srej {
		cs := scases[r.Case]
		e.Violation(fmt.Sprintf("format:segment-number:N=%d:%s", cs.N, slug(r.Why)), fmt.Sprintf("segment functions, %s, segment number %d: %s [%s]", cs.Cipher, cs.N, r.Why, r.Trace[r.At]),
			tv.M{"case": cs, "trace": r.Trace, "at": r.At})
	}
	if ferr != "" {
		e.Inconclusive(ferr)
	}
	if derr != "" {
		e.Inconclusive(derr)
	}
	e.Set("header_size_boundary_largest_keyname", hdrBoundary)
	e.Set("poison_on_put", true)
	e.Set("evaluations", int64(len(fcases)+len(dcases)+ndec+4*len(scases)))
	e.Set("traces_validated_against_impl", int64(ftr+dtr+str+sttr))
	e.Set("rule", "framing case = (S, message length 0..3S+1, composition of the length into read chunks with parts <= S+1, EOF style [alone / with the last data], zero-length read placement, source failure offset alone / with data, consumer buffer size), all compositions enumerated; "+
		"document case = (producer real/ref/stored, plaintext length around the 64 KiB boundaries, cipher, key-wrap algorithm or alias, DecryptionKeyName/OmitKeyName, wrap pair identity/kit, source reader style, consumer read size) with its list of decryptions (by real/ref, ciphertext reader style incl. every header split point, consumer read size, key-name override); "+
		"segment-number case = (cipher, N in {0,1,255,256,65535,65536,2^24-1,2^24,2^24+1,2^31,2^32-2,2^32-1}) x last flag x direction (real seal -> README open at all 24 boundary positions + byte equality with the README sealing; README seal -> real open); "+
		"non-trivial = framing case with more than one segment or a non-default reader behaviour, every document case (each crosses Encrypt, the reference decomposition and at least one Decrypt); distinct by the full case tuple")
	for _, i := range []int{0, len(fcases) / 2, len(fcases) - 1} {
		if i >= 0 && i < len(fcases) {
			bi, ti := locate(fb, i)
			e.Sample(tv.M{"case": fcases[i], "trace": fb.bs[bi].TraceStrings(ti)})
		}
	}
	for _, i := range []int{0, len(dcases) / 3, len(dcases) - 1} {
		cs := dcases[i]
		if len(cs.Decs) > 4 {
			cs.Decs = cs.Decs[:4]
		}
		tr := dres[i].TraceStrings(0)
		if len(tr) > 14 {
			tr = tr[:14]
		}
		e.Sample(tv.M{"case": cs, "trace": tr})
	}
	for _, r := range frej {
		cs := fcases[r.Case]
		key, what := "framing:"+cs.class()+":"+slug(r.Why), fmt.Sprintf("segment loop, S=%d len=%d: %s", cs.S, cs.Len, r.Why)
		if r.At < len(r.Trace) && strings.Contains(r.Trace[r.At], "too large") && cs.Len/cs.S < 1<<32-1 {
			key = "framing:stream-too-large-below-the-documented-limit"
			what = fmt.Sprintf("segment loop, S=%d, %d segments: stream refused although within the documented limit of 2^32 segments [%s]", cs.S, (cs.Len+cs.S-1)/cs.S, r.Trace[r.At])
		}
		e.Violation(key, what, tv.M{"case": cs, "trace": r.Trace, "at": r.At})
	}
	for _, r := range drej {
		cs := dcases[r.Case]
		key := "format:" + cs.Producer + ":" + slug(r.Why)
		what := fmt.Sprintf("%s document len=%d cipher=%q alg=%s: %s", cs.Producer, cs.Len, cs.Cipher, cs.Alg, r.Why)
		if r.At < len(r.Trace) && strings.Contains(r.Trace[r.At], `"ev":"dec"`) {
			// a failed decryption: the key names the ciphertext reader style class
			st := "?"
			if j := strings.Index(r.Trace[r.At], `"src":"`); j >= 0 {
				st = r.Trace[r.At][j+7:]
				st = st[:strings.IndexByte(st, '"')]
				if strings.HasPrefix(st, "split:") {
					st = "header-split"
				}
			}
			key = "roundtrip:" + cs.Producer + ":" + st + ":" + slug(r.Why)
			evs := r.Trace[r.At]
			if strings.Contains(evs, `"poisonOnly":true`) {
				// fails only when pooled buffers are overwritten on Put: something still looks into a buffer it gave back
				where := st
				if j := strings.Index(evs, `"mode":"`); j >= 0 {
					if m := evs[j+8:]; m[:strings.IndexByte(m, '"')] != "" {
						where = m[:strings.IndexByte(m, '"')] + ":" + st
					}
				}
				key = "roundtrip:poisoned-pool:" + where
			}
			if len(evs) > 600 {
				evs = evs[:600] + "..."
			}
			what += " [" + evs + "]"
		}
		if strings.HasPrefix(cs.Pair, "sized:") {
			key = "roundtrip:wrapped-key-size=" + cs.Pair[6:] + ":" + slug(r.Why)
			what = fmt.Sprintf("wrapped file key of %s bytes (the format does not limit it; the header fits one segment): %s", cs.Pair[6:], what)
		}
		if strings.HasPrefix(r.Why, "pooled buffer") && r.At < len(r.Trace) {
			key = "pool:buffer-in-pool-twice:after-" + jsonField(r.Trace[r.At], "after")
		}
		if strings.HasPrefix(r.Why, "caller's retained key") {
			after := "decrypt"
			if r.At < len(r.Trace) && strings.Contains(r.Trace[r.At], `"after":"encrypt"`) {
				after = "encrypt"
			}
			key = "roundtrip:caching-unwrap:key-modified-after-" + after
			what = fmt.Sprintf("the key bytes retained by the caller's caching key provider were modified by %s (document len=%d cipher=%q alg=%s): later unwraps hand out the damaged key", after, cs.Len, cs.Cipher, cs.Alg)
		}
		if kl := len(cs.KeyName) + len(cs.DecKeyName); kl > 1000 {
			// header-size boundary case
			key = fmt.Sprintf("roundtrip:header-size-boundary:keyname=%d", kl-len("enc-key")*btoi(cs.DecKeyName != ""))
			what = fmt.Sprintf("key name of %d bytes (%s, %s, omit=%v; largest accepted lengths: %v): %s", kl, cs.Pair, cs.Alg, cs.Omit, hdrBoundary, r.Why)
			for j := range r.Trace {
				if len(r.Trace[j]) > 600 {
					r.Trace[j] = r.Trace[j][:600] + "..."
				}
			}
		}
		if len(r.Trace) > 40 {
			r.Trace = append(r.Trace[:20], r.Trace[r.At])
		}
		e.Violation(key, what, tv.M{"case": cs, "trace": r.Trace, "at": r.At})
	}

	// 5. binding self-tests
	selfTest(e)
}

// jsonField extracts a string field from one recorded event line.
func jsonField(line, name string) string {
	j := strings.Index(line, `"`+name+`":"`)
	if j < 0 {
		return "?"
	}
	v := line[j+len(name)+4:]
	if k := strings.IndexByte(v, '"'); k >= 0 {
		return v[:k]
	}
	return "?"
}

func btoi(b bool) int {
	if b {
		return 1
	}
	return 0
}

func locate(m *batches, caseIdx int) (int, int) {
	for bi, cs := range m.caseOf {
		for ti, c := range cs {
			if c == caseIdx {
				return bi, ti
			}
		}
	}
	return 0, 0
}

func selfTest(e *ev.Evidence) {
	// framing: an unmodified 3-segment run, the same with one last flag flipped, the same with one emit removed
	good := &tv.Batch{}
	runFrame(good, frameCase{S: 3, Len: 7, Script: encref.Script{Chunks: []int{4, 3}, ErrAt: -1}, CBuf: 2})
	lines := good.Trace(0)
	fb := &tv.Batch{}
	fb.AppendTrace(lines)
	var mutA, mutB [][]byte
	flipped, removed := false, false
	for _, l := range lines {
		if !flipped && bytes.Contains(l, []byte(`"ev":"emit"`)) && bytes.Contains(l, []byte(`"last":false`)) {
			mutA = append(mutA, bytes.Replace(l, []byte(`"last":false`), []byte(`"last":true`), 1))
			flipped = true
		} else {
			mutA = append(mutA, l)
		}
		if !removed && bytes.Contains(l, []byte(`"ev":"emit"`)) {
			removed = true
			continue
		}
		mutB = append(mutB, l)
	}
	fb.AppendTrace(mutA)
	fb.AppendTrace(mutB)
	frej, fres := encref.Validate(tlc.Opts{Dir: specDir, Module: "TraceEncFraming", Config: "TraceEncFraming.cfg", Workers: 2, Timeout: 2 * time.Minute}, fb)
	fgot := map[int]bool{}
	for _, r := range frej {
		fgot[r.Trace] = true
	}
	fok := (fres.OK || fres.Violation) && !fgot[0] && fgot[1] && fgot[2]

	// format: a good document; its trace with the kw id rewritten; with one seg event removed; and a REAL non-conforming
	// document (reference encryptor told to cut 65535-byte segments) decomposed by the same code path
	db := &tv.Batch{}
	gd := &tv.Batch{}
	base := docCase{Producer: "real", Len: segSize + 10, Cipher: "AES-GCM", Alg: "AES", KeyName: "k", Pair: "identity", Src: "whole", CBuf: 4096, Seed: 7,
		Decs: []decCase{{By: "ref"}, {By: "real", Src: "whole", CBuf: 4096}}}
	runDoc(gd, base)
	dl := gd.Trace(0)
	db.AppendTrace(dl)
	var mutC, mutD [][]byte
	removed = false
	for _, l := range dl {
		mutC = append(mutC, bytes.Replace(l, []byte(`"kw":1`), []byte(`"kw":2`), 1))
		if !removed && bytes.Contains(l, []byte(`"ev":"seg"`)) {
			removed = true
			continue
		}
		mutD = append(mutD, l)
	}
	db.AppendTrace(mutC)
	db.AppendTrace(mutD)
	// non-conforming document, decomposed for real
	bad := &tv.Batch{}
	runBadRefDoc(bad)
	db.AppendTrace(bad.Trace(0))
	drej, dres := encref.Validate(tlc.Opts{Dir: specDir, Module: "TraceEncV1Format", Config: "TraceEncV1Format.cfg", Workers: 2, Timeout: 2 * time.Minute}, db)
	dgot := map[int]bool{}
	for _, r := range drej {
		dgot[r.Trace] = true
	}
	dok := (dres.OK || dres.Violation) && !dgot[0] && dgot[1] && dgot[2] && dgot[3]
	e.Set("binding_selftest", tv.M{"framing_unmodified_accepted": !fgot[0], "framing_last_flag_flipped_rejected": fgot[1], "framing_emit_removed_rejected": fgot[2],
		"format_unmodified_accepted": !dgot[0], "format_kw_rewritten_rejected": dgot[1], "format_segment_removed_rejected": dgot[2],
		"format_nonconforming_65535_byte_segments_rejected": dgot[3]})
	if !fok || !dok {
		e.Inconclusive(fmt.Sprintf("binding self-test failed: framing rejects=%v (%s) format rejects=%v (%s)", frej, fres.What, drej, dres.What))
	}
}

// runBadRefDoc decomposes a deliberately non-conforming document (segments of 65535 bytes) with the same
// decomposition code; used by the self-test only.
func runBadRefDoc(b *tv.Batch) {
	pt := plaintext(segSize+10, 3)
	fk, np := plaintext(32, 11), plaintext(7, 12)
	doc, err := encref.Encrypt(pt, encref.EncryptOpts{FileKey: fk, NoncePrefix: np, Cph: 1, Kw: 1, WFK: fk, KeyName: "k", SegmentSize: segSize - 1})
	if err != nil {
		panic(err)
	}
	r := &rec{b: b}
	b.Start(tv.M{"len": len(pt), "S": segSize, "tag": tagSize, "cipher": "AES-GCM", "alg": "A256KW", "keyName": "k", "decKeyName": "", "omit": false, "producer": "ref", "hmax": segSize})
	h, payload := encref.ParseHeader(doc)
	r.Ev("doc", tv.M{"scheme": h.Scheme, "lines": h.Lines, "compact": h.Compact, "required": true, "hasK": true, "k": h.Manifest.KeyName, "kw": h.Manifest.Kw,
		"cph": h.Manifest.Cph, "wfkOK": true, "npLen": 7, "macStd": h.MacStd, "macLen": len(h.Mac), "macOK": bytes.Equal(h.Mac, encref.ComputeMAC(fk, h.Signed)), "payloadLen": len(payload)})
	for i, s := range encref.SplitSegments(payload) {
		opens := "none"
		for _, last := range []bool{true, false} {
			if _, err := encref.OpenSegment(1, fk, np, uint32(i), last, s); err == nil {
				opens = map[bool]string{true: "last", false: "notlast"}[last]
			}
		}
		r.Ev("seg", tv.M{"i": i, "clen": len(s), "opens": opens, "plainOK": opens != "none"})
	}
	r.Ev("end", nil)
}
