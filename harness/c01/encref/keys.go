package encref

import (
	"crypto/rand"
	"crypto/rsa"
	"errors"
	"fmt"
	"sync"

	"github.com/lestrrat-go/jwx/v2/jwk"

	kitcrypto "github.com/dapr/kit/crypto"
)

// WrapFn / UnwrapFn have the signatures of v1.WrapKeyFn / v1.UnwrapKeyFn.
type WrapFn = func(plaintextKey []byte, algorithm string, keyName string, nonce []byte) (wrappedKey []byte, tag []byte, err error)
type UnwrapFn = func(wrappedKey []byte, algorithm string, keyName string, nonce []byte, tag []byte) (plaintextKey []byte, err error)

// Call is one recorded callback invocation.
type Call struct {
	Alg     string
	KeyName string
	InLen   int
}

// IdentityPair wraps nothing (the pair used by the repository's own tests).
func IdentityPair() (WrapFn, UnwrapFn) {
	return func(k []byte, alg, name string, nonce []byte) ([]byte, []byte, error) {
			return append([]byte{}, k...), nil, nil
		}, func(w []byte, alg, name string, nonce, tag []byte) ([]byte, error) {
			return append([]byte{}, w...), nil
		}
}

var (
	kitOnce sync.Once
	kitSym  map[string]jwk.Key
	kitRSA  jwk.Key
	kitErr  error
)

func kitKeys() error {
	kitOnce.Do(func() {
		kitSym = map[string]jwk.Key{}
		for alg, n := range map[string]int{"A256KW": 32, "A128CBC-NOPAD": 16, "A192CBC-NOPAD": 24, "A256CBC-NOPAD": 32} {
			raw := make([]byte, n)
			if _, kitErr = rand.Read(raw); kitErr != nil {
				return
			}
			var k jwk.Key
			if k, kitErr = jwk.FromRaw(raw); kitErr != nil {
				return
			}
			kitSym[alg] = k
		}
		var pk *rsa.PrivateKey
		if pk, kitErr = rsa.GenerateKey(rand.Reader, 2048); kitErr != nil {
			return
		}
		kitRSA, kitErr = jwk.FromRaw(pk)
	})
	return kitErr
}

var cbcIV = []byte("verif-fixed-iv-0")

// KitPair wraps and unwraps with the helpers of github.com/dapr/kit/crypto and real AES / RSA keys, dispatching
// on the algorithm string the scheme hands to the callbacks (an unresolved alias such as "AES" is an error,
// exactly as it would be for a Dapr crypto component).
func KitPair() (WrapFn, UnwrapFn, error) {
	if err := kitKeys(); err != nil {
		return nil, nil, err
	}
	wrap := func(k []byte, alg, name string, nonce []byte) ([]byte, []byte, error) {
		switch alg {
		case "A256KW":
			w, _, err := kitcrypto.EncryptSymmetric(k, alg, kitSym[alg], nil, nil)
			return w, nil, err
		case "A128CBC-NOPAD", "A192CBC-NOPAD", "A256CBC-NOPAD":
			w, _, err := kitcrypto.EncryptSymmetric(k, alg, kitSym[alg], cbcIV, nil)
			return w, nil, err
		case "RSA-OAEP-256":
			w, err := kitcrypto.EncryptPublicKey(k, alg, kitRSA, nil)
			return w, nil, err
		}
		return nil, nil, fmt.Errorf("verif kit pair: unsupported key wrap algorithm %q", alg)
	}
	unwrap := func(w []byte, alg, name string, nonce, tag []byte) ([]byte, error) {
		switch alg {
		case "A256KW":
			return kitcrypto.DecryptSymmetric(w, alg, kitSym[alg], nil, nil, nil)
		case "A128CBC-NOPAD", "A192CBC-NOPAD", "A256CBC-NOPAD":
			return kitcrypto.DecryptSymmetric(w, alg, kitSym[alg], cbcIV, nil, nil)
		case "RSA-OAEP-256":
			return kitcrypto.DecryptPrivateKey(w, alg, kitRSA, nil)
		}
		return nil, errors.New("verif kit pair: unsupported key wrap algorithm " + alg)
	}
	return wrap, unwrap, nil
}

// Vault is a caching key provider (a key cache / in-memory vault): its wrap callback KEEPS the plaintext key slice it
// was given and issues a random token as wrapped key; its unwrap callback returns the SAME retained slice on every
// call.  Nothing in Encrypt/Decrypt may modify that memory: Intact compares it with a private snapshot.
type Vault struct {
	mu       sync.Mutex
	retained map[string][]byte
	snapshot map[string][]byte
}

func NewVault() *Vault { return &Vault{retained: map[string][]byte{}, snapshot: map[string][]byte{}} }

func (v *Vault) Wrap(k []byte, alg, name string, nonce []byte) ([]byte, []byte, error) {
	v.mu.Lock()
	defer v.mu.Unlock()
	tok := make([]byte, 32)
	if _, err := rand.Read(tok); err != nil {
		return nil, nil, err
	}
	v.retained[string(tok)] = k
	v.snapshot[string(tok)] = append([]byte{}, k...)
	return tok, nil, nil
}

func (v *Vault) Unwrap(w []byte, alg, name string, nonce, tag []byte) ([]byte, error) {
	v.mu.Lock()
	defer v.mu.Unlock()
	k, ok := v.retained[string(w)]
	if !ok {
		return nil, errors.New("verif vault: unknown wrapped key")
	}
	return k, nil
}

// Intact reports whether every retained key still has the bytes it had when it was stored.
func (v *Vault) Intact() bool {
	v.mu.Lock()
	defer v.mu.Unlock()
	for t, k := range v.retained {
		if string(k) != string(v.snapshot[t]) {
			return false
		}
	}
	return true
}

// SizedVault is a key provider whose wrapped keys have a chosen size (the README does not limit the size of the
// wrapped file key; only the header as a whole is limited to one segment): the wrap callback issues a random
// token of N bytes and remembers a copy of the key, the unwrap callback looks the token up.
type SizedVault struct {
	N    int
	mu   sync.Mutex
	keys map[string][]byte
}

func NewSizedVault(n int) *SizedVault { return &SizedVault{N: n, keys: map[string][]byte{}} }

func (v *SizedVault) Wrap(k []byte, alg, name string, nonce []byte) ([]byte, []byte, error) {
	v.mu.Lock()
	defer v.mu.Unlock()
	tok := make([]byte, v.N)
	if _, err := rand.Read(tok); err != nil {
		return nil, nil, err
	}
	v.keys[string(tok)] = append([]byte{}, k...)
	return tok, nil, nil
}

func (v *SizedVault) Unwrap(w []byte, alg, name string, nonce, tag []byte) ([]byte, error) {
	v.mu.Lock()
	defer v.mu.Unlock()
	k, ok := v.keys[string(w)]
	if !ok {
		return nil, errors.New("verif sized vault: unknown wrapped key")
	}
	return append([]byte{}, k...), nil
}
