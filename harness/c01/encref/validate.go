package encref

import (
	"regexp"
	"sort"
	"strconv"

	"verifharness/internal/tlc"
	"verifharness/internal/tv"
)

// TLC pretty-prints a long <<"REJECT", l, why>> tuple over several lines; this pattern accepts both layouts.
var reReject = regexp.MustCompile(`<<\s*"REJECT",\s*(\d+),\s*"([^"]*)"\s*>>`)

// Validate runs TLC over the batch against a deterministic monitor spec that reports rejected runs with
// TraceLib!RejectLine, and maps every reported line back to (trace, offset).
func Validate(o tlc.Opts, b *tv.Batch) ([]tv.Reject, tlc.Result) {
	if o.Files == nil {
		o.Files = map[string][]byte{}
	}
	o.Files["trace.ndjson"] = b.Bytes()
	o.Args = append(o.Args, "-continue", "-noGenerateSpecTE")
	res := RunTLC(o)
	starts := make([]int, b.Len())
	off := 0
	for i := 0; i < b.Len(); i++ {
		starts[i] = off
		off += len(b.Trace(i))
	}
	seen := map[int]bool{}
	var rs []tv.Reject
	for _, m := range reReject.FindAllStringSubmatch(res.Output, -1) {
		l, _ := strconv.Atoi(m[1])
		idx := l - 1
		tr := sort.Search(len(starts), func(i int) bool { return starts[i] > idx }) - 1
		if tr < 0 || seen[tr] {
			continue
		}
		seen[tr] = true
		rs = append(rs, tv.Reject{Trace: tr, At: idx - starts[tr], Why: m[2]})
	}
	sort.Slice(rs, func(i, j int) bool { return rs[i].Trace < rs[j].Trace })
	return rs, res
}

// RunTLC runs TLC and retries (twice) when the JVM died without a verdict (e.g. killed by a signal while
// other checks run on the same machine); a timeout is not retried.
func RunTLC(o tlc.Opts) tlc.Result {
	var res tlc.Result
	for try := 0; try < 3; try++ {
		res = tlc.Run(o)
		if res.OK || res.Violation || res.TimedOut {
			break
		}
	}
	return res
}
