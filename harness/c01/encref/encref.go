// Package encref is an INDEPENDENT implementation of the dapr.io/enc/v1
// document format, written from /repo/schemes/enc/v1/README.md alone.  It does
// not import github.com/dapr/kit/schemes/enc/v1 and shares no code with it.
// It is used by the C01/C02 checks as the "implementation written from the
// published spec": it decomposes documents produced by the real Encrypt into
// their structure, decrypts them, and produces documents that the real
// Decrypt has to accept.
//
// README summary used here:
//
//	document  = header || segment_0 || ... || segment_k
//	header    = "dapr.io/enc/v1" LF  compact-JSON-manifest LF  base64std(MAC) LF
//	manifest  = {"k":string (optional), "kw":1..5, "wfk":b64, "cph":1|2, "np":b64 (7 bytes)}
//	mac-key   = HKDF-SHA-256(ikm = file key, salt = empty, info = "header")
//	MAC       = HMAC-SHA-256(mac-key, first two lines including the trailing LF)
//	payload-key = HKDF-SHA-256(ikm = file key, salt = nonce prefix, info = "payload")
//	segment   = AEAD(payload-key, nonce = np(7) || BE32(i) || (last ? 1 : 0), plaintext chunk of 65536 bytes
//	            (the last may be shorter, never empty unless the whole message is empty: then no segment))
//	            stored as ciphertext || 16-byte tag
package encref

import (
	"bytes"
	"crypto/aes"
	"crypto/cipher"
	"crypto/hmac"
	"crypto/sha256"
	"encoding/base64"
	"encoding/binary"
	"encoding/json"
	"errors"
	"fmt"
	"io"

	"golang.org/x/crypto/chacha20poly1305"
	"golang.org/x/crypto/hkdf"
)

const (
	SchemeLine  = "dapr.io/enc/v1"
	SegmentSize = 65536
	TagSize     = 16
	NPLen       = 7
)

// Key-wrap algorithm ids and cipher ids of the README.
var KwIDs = map[string]int{"A256KW": 1, "A128CBC-NOPAD": 2, "A192CBC-NOPAD": 3, "A256CBC-NOPAD": 4, "RSA-OAEP-256": 5}
var KwNames = map[int]string{1: "A256KW", 2: "A128CBC-NOPAD", 3: "A192CBC-NOPAD", 4: "A256CBC-NOPAD", 5: "RSA-OAEP-256"}
var CipherIDs = map[string]int{"AES-GCM": 1, "CHACHA20-POLY1305": 2}

// Manifest as described in the README.
type Manifest struct {
	KeyName     string `json:"k,omitempty"`
	Kw          int    `json:"kw"`
	WFK         []byte `json:"wfk"`
	Cph         int    `json:"cph"`
	NoncePrefix []byte `json:"np"`
}

// Header is a parsed header plus everything needed to judge its form.
type Header struct {
	Lines       int    // header lines found (terminated by LF), at most 3
	Scheme      string // first line
	ManifestRaw []byte // second line, exactly as in the document
	MacB64      []byte // third line
	Signed      []byte // the bytes covered by the MAC: first two lines including the trailing LF
	Len         int    // total header length in bytes (offset of the payload)
	Manifest    Manifest
	Keys        []string // JSON object keys of the manifest, in document order
	Compact     bool     // manifest is compact JSON (no insignificant white space)
	ParseErr    string
	Mac         []byte // decoded MAC ("" if not standard padded base64)
	MacStd      bool
}

func hk(ikm, salt []byte, info string) []byte {
	out := make([]byte, 32)
	if _, err := io.ReadFull(hkdf.New(sha256.New, ikm, salt, []byte(info)), out); err != nil {
		panic(err)
	}
	return out
}

// HeaderKey and PayloadKey are the two README derivations.
func HeaderKey(fk []byte) []byte      { return hk(fk, nil, "header") }
func PayloadKey(fk, np []byte) []byte { return hk(fk, np, "payload") }

func ComputeMAC(fk, signed []byte) []byte {
	h := hmac.New(sha256.New, HeaderKey(fk))
	h.Write(signed)
	return h.Sum(nil)
}

func aead(cph int, key []byte) (cipher.AEAD, error) {
	switch cph {
	case 1:
		b, err := aes.NewCipher(key)
		if err != nil {
			return nil, err
		}
		return cipher.NewGCM(b)
	case 2:
		return chacha20poly1305.New(key)
	}
	return nil, fmt.Errorf("encref: unknown cipher id %d", cph)
}

// Nonce is nonce_prefix || i || last_segment.
func Nonce(np []byte, i uint32, last bool) []byte {
	n := make([]byte, 12)
	copy(n, np)
	binary.BigEndian.PutUint32(n[7:11], i)
	if last {
		n[11] = 1
	}
	return n
}

// ParseHeader splits the header off a document.
func ParseHeader(doc []byte) (Header, []byte) {
	var h Header
	rest := doc
	var lines [][]byte
	for len(lines) < 3 {
		i := bytes.IndexByte(rest, '\n')
		if i < 0 {
			break
		}
		lines = append(lines, rest[:i])
		rest = rest[i+1:]
	}
	h.Lines = len(lines)
	if h.Lines < 3 {
		h.ParseErr = "fewer than three LF-terminated header lines"
		return h, nil
	}
	h.Scheme = string(lines[0])
	h.ManifestRaw = lines[1]
	h.MacB64 = lines[2]
	h.Len = len(doc) - len(rest)
	h.Signed = doc[:len(lines[0])+1+len(lines[1])+1]
	var cb bytes.Buffer
	if err := json.Compact(&cb, h.ManifestRaw); err == nil {
		h.Compact = bytes.Equal(cb.Bytes(), h.ManifestRaw)
	}
	dec := json.NewDecoder(bytes.NewReader(h.ManifestRaw))
	if tok, err := dec.Token(); err != nil || tok != json.Delim('{') {
		h.ParseErr = "manifest is not a JSON object"
		return h, rest
	}
	for dec.More() {
		tok, err := dec.Token()
		if err != nil {
			h.ParseErr = "manifest: " + err.Error()
			return h, rest
		}
		k, _ := tok.(string)
		h.Keys = append(h.Keys, k)
		var raw json.RawMessage
		if err := dec.Decode(&raw); err != nil {
			h.ParseErr = "manifest: " + err.Error()
			return h, rest
		}
	}
	if err := json.Unmarshal(h.ManifestRaw, &h.Manifest); err != nil {
		h.ParseErr = "manifest: " + err.Error()
		return h, rest
	}
	if mac, err := base64.StdEncoding.DecodeString(string(h.MacB64)); err == nil {
		h.Mac, h.MacStd = mac, true
	}
	return h, rest
}

// SplitSegments cuts the binary payload into stored segments (65536+16 bytes each, the last may be shorter).
func SplitSegments(payload []byte) [][]byte {
	var segs [][]byte
	for len(payload) > 0 {
		n := SegmentSize + TagSize
		if n > len(payload) {
			n = len(payload)
		}
		segs = append(segs, payload[:n])
		payload = payload[n:]
	}
	return segs
}

// OpenSegment opens stored segment number i.
func OpenSegment(cph int, fk, np []byte, i uint32, last bool, seg []byte) ([]byte, error) {
	a, err := aead(cph, PayloadKey(fk, np))
	if err != nil {
		return nil, err
	}
	return a.Open(nil, Nonce(np, i, last), seg, nil)
}

// Unwrap gives the file key for a manifest.
type Unwrap func(wfk []byte, kwName string, keyName string) ([]byte, error)

// Decrypt decrypts a whole document the way the README describes.  keyName overrides the manifest's key name when non-empty.
func Decrypt(doc []byte, unwrap Unwrap, keyName string) ([]byte, error) {
	h, payload := ParseHeader(doc)
	if h.ParseErr != "" {
		return nil, errors.New("encref: " + h.ParseErr)
	}
	if h.Scheme != SchemeLine {
		return nil, errors.New("encref: unknown scheme")
	}
	if keyName == "" {
		keyName = h.Manifest.KeyName
	}
	if keyName == "" {
		return nil, errors.New("encref: no key name")
	}
	kw, ok := KwNames[h.Manifest.Kw]
	if !ok {
		return nil, errors.New("encref: unknown key wrap algorithm id")
	}
	if len(h.Manifest.NoncePrefix) != NPLen {
		return nil, errors.New("encref: nonce prefix is not 7 bytes")
	}
	fk, err := unwrap(h.Manifest.WFK, kw, keyName)
	if err != nil {
		return nil, err
	}
	if len(fk) != 32 {
		return nil, errors.New("encref: file key is not 256 bits")
	}
	if !h.MacStd || !hmac.Equal(h.Mac, ComputeMAC(fk, h.Signed)) {
		return nil, errors.New("encref: header MAC mismatch")
	}
	segs := SplitSegments(payload)
	var out []byte
	for i, s := range segs {
		if len(s) <= TagSize {
			return out, fmt.Errorf("encref: segment %d is empty", i)
		}
		p, err := OpenSegment(h.Manifest.Cph, fk, h.Manifest.NoncePrefix, uint32(i), i == len(segs)-1, s)
		if err != nil {
			return out, fmt.Errorf("encref: segment %d does not open", i)
		}
		out = append(out, p...)
	}
	return out, nil
}

// EncryptOpts drives the reference encryptor.
type EncryptOpts struct {
	FileKey     []byte // 32 bytes
	NoncePrefix []byte // 7 bytes
	Cph         int
	Kw          int
	WFK         []byte
	KeyName     string // "" => no "k" member
	SegmentSize int    // 0 => 65536 (other values produce deliberately non-conforming documents)
}

// Encrypt produces a document from the README's rules.
func Encrypt(plaintext []byte, o EncryptOpts) ([]byte, error) {
	m, err := json.Marshal(Manifest{KeyName: o.KeyName, Kw: o.Kw, WFK: o.WFK, Cph: o.Cph, NoncePrefix: o.NoncePrefix})
	if err != nil {
		return nil, err
	}
	var doc bytes.Buffer
	doc.WriteString(SchemeLine)
	doc.WriteByte('\n')
	doc.Write(m)
	doc.WriteByte('\n')
	mac := ComputeMAC(o.FileKey, doc.Bytes())
	doc.WriteString(base64.StdEncoding.EncodeToString(mac))
	doc.WriteByte('\n')
	a, err := aead(o.Cph, PayloadKey(o.FileKey, o.NoncePrefix))
	if err != nil {
		return nil, err
	}
	ss := o.SegmentSize
	if ss == 0 {
		ss = SegmentSize
	}
	for i := 0; i*ss < len(plaintext); i++ {
		end := (i + 1) * ss
		last := end >= len(plaintext)
		if last {
			end = len(plaintext)
		}
		doc.Write(a.Seal(nil, Nonce(o.NoncePrefix, uint32(i), last), plaintext[i*ss:end], nil))
	}
	return doc.Bytes(), nil
}

// SealSegment seals one plaintext chunk as stored segment number i (README: AEAD under the payload key and
// nonce_prefix || BE32(i) || last flag, ciphertext || tag).
func SealSegment(cph int, fk, np []byte, i uint32, last bool, chunk []byte) ([]byte, error) {
	a, err := aead(cph, PayloadKey(fk, np))
	if err != nil {
		return nil, err
	}
	return a.Seal(nil, Nonce(np, i, last), chunk, nil), nil
}

// BoundaryCounters are the segment numbers around the byte boundaries of the 32-bit counter.
var BoundaryCounters = []uint32{0, 1, 255, 256, 65535, 65536, 1<<24 - 1, 1 << 24, 1<<24 + 1, 1 << 31, 1<<32 - 2, 1<<32 - 1}

// HeaderLen is the size in bytes of the header the README prescribes for a manifest: scheme line, compact JSON
// manifest and the base64 of a 32-byte MAC, each followed by LF.
func HeaderLen(m Manifest) int {
	j, err := json.Marshal(m)
	if err != nil {
		return -1
	}
	return len(SchemeLine) + 1 + len(j) + 1 + base64.StdEncoding.EncodedLen(sha256.Size) + 1
}
