package encref

import (
	"errors"
	"io"
)

// ErrSrc is the plain scripted source failure.
var ErrSrc = errors.New("verif: scripted source failure")

// Script describes how a scripted source hands out its bytes.
type Script struct {
	Chunks      []int  `json:"chunks"`      // sizes of the successive non-empty reads (a smaller buffer gets a part); bytes beyond the sum come in reads as large as the buffer
	EOFWithData bool   `json:"eofWithData"` // the read that delivers the last byte also returns io.EOF
	ZeroBefore  []int  `json:"zeroBefore"`  // byte offsets at which one (0, nil) read is returned before data continues
	ChunkSize   int    `json:"chunkSize"`   // size of the reads after Chunks is used up (0: as large as the buffer)
	ZeroEach    int    `json:"zeroEach"`    // that many (0, nil) reads before EVERY chunk (zero-length reads spread over the whole stream)
	HoldOpen    bool   `json:"holdOpen"`    // the source does not end on its own: after its last byte Read blocks until Release is called
	ErrAt       int    `json:"errAt"`       // -1: never; else the source fails once ErrAt bytes were handed out
	ErrWithData bool   `json:"errWithData"` // the read that delivers the bytes up to ErrAt returns them together with the error (needs ErrAt > 0)
	ErrKind     string `json:"errKind"`     // "", "plain", "unexpected-eof", "wrapped-unexpected-eof"
	Once        bool   `json:"once"`        // the error is returned by one Read only; later reads return (0, io.EOF)
}

// NoErr is the script of a well-behaved source that reads as much as the buffer allows.
func NoErr() Script { return Script{ErrAt: -1} }

// Reader is a scripted io.Reader over Data.
type Reader struct {
	Data   []byte
	S      Script
	OnRead func(k, n int, err error)

	Err     error // the error value injected (set from S.ErrKind by New)
	pos     int
	ci      int // current chunk index
	cleft   int // bytes left in the current chunk
	zeroed  map[int]bool
	zrun    int           // zero-length reads already returned before the current chunk
	release chan struct{} // closed by Release
	eof     bool
	failed  bool
	errSeen bool
}

type wrapErr struct{ err error }

func (w wrapErr) Error() string { return "verif: wrapped: " + w.err.Error() }
func (w wrapErr) Unwrap() error { return w.err }

// ErrFor maps an error kind to the injected value.
func ErrFor(kind string) error {
	switch kind {
	case "unexpected-eof":
		return io.ErrUnexpectedEOF
	case "wrapped-unexpected-eof":
		return wrapErr{io.ErrUnexpectedEOF}
	}
	return ErrSrc
}

func New(data []byte, s Script, onRead func(k, n int, err error)) *Reader {
	return &Reader{Data: data, S: s, OnRead: onRead, Err: ErrFor(s.ErrKind), zeroed: map[int]bool{}, release: make(chan struct{})}
}

// Release lets a HoldOpen source end (its pending and later reads return io.EOF).
func (r *Reader) Release() {
	select {
	case <-r.release:
	default:
		close(r.release)
	}
}

// ErrSeen reports whether the source returned its non-EOF error at least once.
func (r *Reader) ErrSeen() bool { return r.errSeen }

// Pos is the number of bytes handed out so far.
func (r *Reader) Pos() int { return r.pos }

func (r *Reader) Read(p []byte) (n int, err error) {
	defer func() {
		if err != nil && err != io.EOF {
			r.errSeen = true
		}
		if r.OnRead != nil {
			r.OnRead(len(p), n, err)
		}
	}()
	if r.failed {
		if r.S.Once {
			return 0, io.EOF
		}
		return 0, r.Err
	}
	if r.eof {
		return 0, io.EOF
	}
	if len(p) == 0 {
		return 0, nil
	}
	if r.S.ErrAt >= 0 && r.pos >= r.S.ErrAt {
		r.failed = true
		return 0, r.Err
	}
	if r.pos >= len(r.Data) {
		if r.S.HoldOpen {
			<-r.release
		}
		r.eof = true
		return 0, io.EOF
	}
	for _, z := range r.S.ZeroBefore {
		if z == r.pos && !r.zeroed[z] {
			r.zeroed[z] = true
			return 0, nil
		}
	}
	if r.cleft == 0 && r.zrun < r.S.ZeroEach {
		r.zrun++
		return 0, nil
	}
	if r.cleft == 0 {
		r.zrun = 0
		if r.ci < len(r.S.Chunks) {
			r.cleft = r.S.Chunks[r.ci]
			r.ci++
		} else {
			r.cleft = len(p)
			if r.S.ChunkSize > 0 {
				r.cleft = r.S.ChunkSize
			}
		}
	}
	n = r.cleft
	if n > len(p) {
		n = len(p)
	}
	if n > len(r.Data)-r.pos {
		n = len(r.Data) - r.pos
	}
	if r.S.ErrAt >= 0 && n > r.S.ErrAt-r.pos {
		n = r.S.ErrAt - r.pos
	}
	copy(p, r.Data[r.pos:r.pos+n])
	r.pos += n
	r.cleft -= n
	if r.S.ErrAt >= 0 && r.pos == r.S.ErrAt && r.S.ErrWithData {
		r.failed = true
		return n, r.Err
	}
	if r.pos == len(r.Data) && r.S.EOFWithData && !r.S.HoldOpen && !(r.S.ErrAt >= 0 && r.S.ErrAt <= len(r.Data)) {
		r.eof = true
		return n, io.EOF
	}
	return n, nil
}

// Compositions returns all ordered sums of n with parts in 1..maxPart.
func Compositions(n, maxPart int) [][]int {
	if n == 0 {
		return [][]int{{}}
	}
	var out [][]int
	for first := 1; first <= n && first <= maxPart; first++ {
		for _, rest := range Compositions(n-first, maxPart) {
			out = append(out, append([]int{first}, rest...))
		}
	}
	return out
}
