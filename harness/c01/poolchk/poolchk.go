// Package poolchk observes the discipline of v1.BufPool from the outside: the "bufpool.put" verif hook counts (and
// optionally poisons) the buffers that are handed back, BufPool.New is wrapped so that draining the pool knows when it
// is empty, and Drain reports a buffer that sits in the pool more than once.
package poolchk

import (
	"runtime"
	"sync/atomic"
	"time"

	v1 "github.com/dapr/kit/schemes/enc/v1"
)

var (
	puts      atomic.Int64
	fresh     atomic.Int64
	putCh     = make(chan struct{}, 4096)
	Poison    atomic.Bool // overwrite every buffer that is handed back
	installed atomic.Bool
)

// Install sets the hook and wraps BufPool.New (once).
func Install() {
	if installed.Swap(true) {
		return
	}
	v1.VerifHook = func(point string, arg any) {
		if point != "bufpool.put" {
			return
		}
		if Poison.Load() {
			if b, ok := arg.(*[]byte); ok && b != nil {
				for i := range *b {
					(*b)[i] = 0xA5
				}
			}
		}
		puts.Add(1)
		select {
		case putCh <- struct{}{}:
		default:
		}
	}
	orig := v1.BufPool.New
	v1.BufPool.New = func() any {
		fresh.Add(1)
		return orig()
	}
}

// Puts is the number of (hooked) Puts so far.
func Puts() int64 { return puts.Load() }

// WaitPuts waits (bounded) until the counter reaches want, then yields so that the Put after the hook completes.
func WaitPuts(want int64, max time.Duration) {
	deadline := time.Now().Add(max)
	for puts.Load() < want && time.Now().Before(deadline) {
		select {
		case <-putCh:
		case <-time.After(5 * time.Millisecond):
		}
	}
	for i := 0; i < 3; i++ {
		runtime.Gosched()
	}
}

// Drain takes every buffer out of v1.BufPool until the pool has to allocate a fresh one, reports whether the same
// buffer came out twice, and gives every distinct buffer back once.  Exact with GOMAXPROCS(1) (one pool shard).
func Drain() (twice bool, n int) {
	seen := map[*[]byte]bool{}
	var all []*[]byte
	for k := 0; k < 256; k++ {
		f := fresh.Load()
		p := v1.BufPool.Get().(*[]byte)
		if fresh.Load() != f {
			all = append(all, p)
			break
		}
		if seen[p] {
			twice = true
			continue
		}
		seen[p] = true
		all = append(all, p)
		n++
	}
	for _, p := range all {
		v1.BufPool.Put(p)
	}
	return twice, n
}
