// Package c07 — no input can crash or hang a parser, decoder or crypto entry
// point.  TLC enumerates the shape grammar spec/InputShapes/InputShapes.tla;
// this package renders every shape to bytes / Go values, calls the real entry
// points in child processes (recover + watchdog; a crash or a hang of the
// child is attributed to the call in flight), and has TLC judge the recorded
// calls against spec/InputShapes/ShapesContract.tla.
package c07

import (
	"bufio"
	"bytes"
	"encoding/binary"
	"encoding/json"
	"fmt"
	"os"
	"runtime/debug"
	"strconv"
	"strings"
	"sync"
	"sync/atomic"
	"syscall"
	"time"
)

// Shape is one line of shapes.ndjson as written by TLC.
type Shape struct {
	Fam     string         `json:"fam"`
	Cls     string         `json:"cls"`
	Entries []string       `json:"entries"`
	P       map[string]any `json:"p"`
	Raw     json.RawMessage `json:"-"` // the p object exactly as TLC wrote it
}

func (s *Shape) str(k string) string {
	v, ok := s.P[k].(string)
	if !ok {
		panic(harnessBug(fmt.Sprintf("shape %s: parameter %q is not a string: %v", s.Fam, k, s.P[k])))
	}
	return v
}

func (s *Shape) num(k string) int {
	v, ok := s.P[k].(float64)
	if !ok {
		panic(harnessBug(fmt.Sprintf("shape %s: parameter %q is not a number: %v", s.Fam, k, s.P[k])))
	}
	return int(v)
}

func (s *Shape) strs(k string) []string {
	v, ok := s.P[k].([]any)
	if !ok {
		panic(harnessBug(fmt.Sprintf("shape %s: parameter %q is not a sequence: %v", s.Fam, k, s.P[k])))
	}
	out := make([]string, len(v))
	for i := range v {
		out[i] = v[i].(string)
	}
	return out
}

type harnessBug string

func loadShapes(data []byte) ([]*Shape, error) { return loadShapesRange(data, 0, 1<<62) }

// loadShapesRange parses only lines [from, to); the other entries stay nil.
func loadShapesRange(data []byte, from, to int) ([]*Shape, error) {
	var out []*Shape
	sc := bufio.NewScanner(bytes.NewReader(data))
	sc.Buffer(make([]byte, 1<<20), 1<<24)
	for sc.Scan() {
		line := sc.Bytes()
		if len(line) == 0 {
			continue
		}
		if len(out) < from || len(out) >= to {
			out = append(out, nil)
			continue
		}
		var raw struct {
			P json.RawMessage `json:"p"`
		}
		s := &Shape{}
		if err := json.Unmarshal(line, s); err != nil {
			return nil, err
		}
		if err := json.Unmarshal(line, &raw); err != nil {
			return nil, err
		}
		s.Raw = append(json.RawMessage{}, raw.P...)
		out = append(out, s)
	}
	return out, sc.Err()
}

// ---------------------------------------------------------------------------
// child side

const (
	outOK      = "ok"
	outError   = "error"
	outPanic   = "panic"
	outHang    = "hang"
	outSuspect = "hang?"   // watchdog fired once (not yet confirmed)
	outSkipped = "skipped" // class already has a confirmed hang
	outBug     = "harness" // the harness itself failed (inconclusive)
)

// cur is the shared-memory "call in flight" record: idx(8) entry(8) seq(8).
type flight struct {
	mem []byte
}

func openFlight(path string, create bool) (*flight, error) {
	flag := os.O_RDWR
	if create {
		flag |= os.O_CREATE | os.O_TRUNC
	}
	f, err := os.OpenFile(path, flag, 0o644)
	if err != nil {
		return nil, err
	}
	defer f.Close()
	if create {
		if err := f.Truncate(24); err != nil {
			return nil, err
		}
	}
	mem, err := syscall.Mmap(int(f.Fd()), 0, 24, syscall.PROT_READ|syscall.PROT_WRITE, syscall.MAP_SHARED)
	if err != nil {
		return nil, err
	}
	return &flight{mem: mem}, nil
}

func (f *flight) set(idx, entry int) {
	binary.LittleEndian.PutUint64(f.mem[0:], uint64(int64(idx)))
	binary.LittleEndian.PutUint64(f.mem[8:], uint64(int64(entry)))
}

func (f *flight) get() (idx, entry int) {
	return int(int64(binary.LittleEndian.Uint64(f.mem[0:]))), int(int64(binary.LittleEndian.Uint64(f.mem[8:])))
}

// runner executes the calls of one shape.
type runner struct {
	sh       *Shape
	idx      int
	fx       *fixtures
	out      *os.File
	outMu    *sync.Mutex
	fl       *flight
	started  *atomic.Int64 // unix nanos of the call in flight, 0 when idle
	skip     map[string]bool
	called   map[string]bool
	got      string // rendering of the decoded value of the call in flight (families with a value law)
}

func entryIndex(sh *Shape, entry string) int {
	for i, e := range sh.Entries {
		if e == entry {
			return i
		}
	}
	return -1
}

func firstLine(s string, n int) string {
	s = strings.ReplaceAll(strings.ReplaceAll(s, "\n", " | "), "\t", " ")
	if len(s) > n {
		s = s[:n]
	}
	return s
}

// panicSite extracts the innermost dapr/kit frame from a stack trace.
func panicSite(stack []byte) string {
	lines := strings.Split(string(stack), "\n")
	for i, l := range lines {
		if strings.HasPrefix(l, "\t") && (strings.Contains(l, "/dapr/kit") || strings.Contains(l, "/repo/") || strings.Contains(l, "/kit@")) && !strings.Contains(l, "/verif/") {
			site := strings.TrimSpace(l)
			if j := strings.Index(site, " +0x"); j > 0 {
				site = site[:j]
			}
			fn := ""
			if i > 0 {
				fn = strings.TrimSpace(lines[i-1])
				if j := strings.LastIndex(fn, "("); j > 0 {
					fn = fn[:j]
				}
			}
			return fn + " " + site
		}
	}
	return ""
}

func (r *runner) record(ei int, outcome, msg string) {
	line := strconv.Itoa(r.idx) + "\t" + strconv.Itoa(ei) + "\t" + outcome + "\t" + firstLine(r.got, 80) + "\t" + firstLine(msg, 300) + "\n"
	r.outMu.Lock()
	_, _ = r.out.WriteString(line)
	r.outMu.Unlock()
}

// call runs f, one real entry point invocation (or a fixed short sequence of
// them), under recover.  It is the only place outcomes are produced.
func (r *runner) call(entry string, f func() error) {
	ei := entryIndex(r.sh, entry)
	if ei < 0 {
		panic(harnessBug("entry " + entry + " is not listed by the grammar for family " + r.sh.Fam))
	}
	if r.called[entry] {
		panic(harnessBug("entry " + entry + " called twice for one shape of " + r.sh.Fam))
	}
	r.called[entry] = true
	if r.skip[r.sh.Fam+"|"+r.sh.Cls+"|"+entry] {
		r.record(ei, outSkipped, "")
		return
	}
	r.fl.set(r.idx, ei)
	r.got = ""
	r.started.Store(time.Now().UnixNano())
	outcome, msg := outOK, ""
	func() {
		defer func() {
			if x := recover(); x != nil {
				outcome = outPanic
				msg = fmt.Sprint(x)
				if hb, ok := x.(harnessBug); ok {
					outcome, msg = outBug, string(hb)
					return
				}
				if site := panicSite(debug.Stack()); site != "" {
					msg += " @ " + site
				}
			}
		}()
		if err := f(); err != nil {
			outcome, msg = outError, err.Error()
		}
	}()
	r.started.Store(0)
	r.record(ei, outcome, msg)
}

// runShape dispatches on the family; a panic of the rendering code (outside
// call) is a harness bug.
func (r *runner) runShape() {
	defer func() {
		if x := recover(); x != nil {
			r.started.Store(0)
			r.record(-1, outBug, fmt.Sprint(x)+" @ "+firstLine(string(debug.Stack()), 600))
		}
	}()
	fn, ok := families[r.sh.Fam]
	if !ok {
		panic(harnessBug("no renderer for family " + r.sh.Fam))
	}
	fn(r)
}

var families = map[string]func(r *runner){}

// childMain is the body of a child process: run shapes [from, to).
func childMain() int {
	shapesPath := os.Getenv("C07_SHAPES")
	from, _ := strconv.Atoi(os.Getenv("C07_FROM"))
	to, _ := strconv.Atoi(os.Getenv("C07_TO"))
	deadlineMS, _ := strconv.Atoi(os.Getenv("C07_DEADLINE_MS"))
	if deadlineMS <= 0 {
		deadlineMS = 2000
	}
	data, err := os.ReadFile(shapesPath)
	if err != nil {
		fmt.Fprintln(os.Stderr, "child: ", err)
		return 4
	}
	shapes, err := loadShapesRange(data, from, to)
	if err != nil {
		fmt.Fprintln(os.Stderr, "child: ", err)
		return 4
	}
	fx, err := loadFixtures(os.Getenv("C07_FIX"))
	if err != nil {
		fmt.Fprintln(os.Stderr, "child: fixtures: ", err)
		return 4
	}
	out, err := os.OpenFile(os.Getenv("C07_OUT"), os.O_CREATE|os.O_WRONLY|os.O_APPEND, 0o644)
	if err != nil {
		fmt.Fprintln(os.Stderr, "child: ", err)
		return 4
	}
	defer out.Close()
	fl, err := openFlight(os.Getenv("C07_FLIGHT"), false)
	if err != nil {
		fmt.Fprintln(os.Stderr, "child: ", err)
		return 4
	}
	skip := map[string]bool{}
	if b, err := os.ReadFile(os.Getenv("C07_SKIP")); err == nil {
		for _, l := range strings.Split(string(b), "\n") {
			if l != "" {
				skip[l] = true
			}
		}
	}
	var outMu sync.Mutex
	var started atomic.Int64
	var curIdx atomic.Int64
	// watchdog: a call in flight for longer than the deadline ends the process
	go func() {
		d := time.Duration(deadlineMS) * time.Millisecond
		for {
			time.Sleep(50 * time.Millisecond)
			st := started.Load()
			if st != 0 && time.Since(time.Unix(0, st)) > d {
				idx, ei := fl.get()
				outMu.Lock()
				_, _ = out.WriteString(strconv.Itoa(idx) + "\t" + strconv.Itoa(ei) + "\t" + outSuspect + "\t\tno return within " + d.String() + "\n")
				os.Exit(3)
			}
		}
	}()
	if to > len(shapes) {
		to = len(shapes)
	}
	for i := from; i < to; i++ {
		curIdx.Store(int64(i))
		fl.set(i, -1)
		r := &runner{sh: shapes[i], idx: i, fx: fx, out: out, outMu: &outMu, fl: fl, started: &started, skip: skip, called: map[string]bool{}}
		r.runShape()
		outMu.Lock()
		_, _ = out.WriteString("D\t" + strconv.Itoa(i) + "\n")
		outMu.Unlock()
	}
	return 0
}
