package c07

import (
	"bytes"
	"crypto/aes"
	"crypto/cipher"
	"crypto/hmac"
	"crypto/sha256"
	"crypto/sha512"
	"encoding/binary"
	"errors"
	"fmt"
	"hash"
	"strings"

	"github.com/dapr/kit/crypto/aescbcaead"
	"github.com/dapr/kit/crypto/aeskw"
	"github.com/dapr/kit/crypto/padding"
)

func init() {
	families["kw-unwrap"] = runKwUnwrap
	families["kw-wrap"] = runKwWrap
	families["pad"] = runPad
	families["aead-new"] = runAeadNew
	families["aead-seal"] = runAeadSeal
	families["aead-open"] = runAeadOpen
	families["sym-dec"] = runSymDec
	families["sym-enc"] = runSymEnc
	families["asym"] = runAsym
}

// resize truncates b or extends it with zeros to n bytes (always a fresh slice).
func resize(b []byte, n int) []byte {
	out := make([]byte, n)
	copy(out, b)
	return out
}

func fill(n int, v byte) []byte { return bytes.Repeat([]byte{v}, n) }

// safely runs harness-side preparation that goes through kit code; a failure
// there just means "no valid sample available".
func safely(f func()) {
	defer func() { _ = recover() }()
	f()
}

func (fx *fixtures) memoize(id string, f func() []byte) []byte {
	if b, ok := fx.memo[id]; ok {
		return b
	}
	var b []byte
	safely(func() { b = f() })
	fx.memo[id] = b
	return b
}

func contentBytes(content string, n int, valid func() []byte) []byte {
	switch content {
	case "zeros":
		return make([]byte, n)
	case "iv-prefix":
		return fill(n, 0xA6)
	case "ff":
		return fill(n, 0xFF)
	case "valid-resized":
		return resize(valid(), n)
	}
	panic(harnessBug("unknown content class " + content))
}

func runKwUnwrap(r *runner) {
	s := r.sh
	block := must(aes.NewCipher(seqBytes(s.num("key"), 1)))
	n := s.num("len")
	in := contentBytes(s.str("content"), n, func() []byte {
		return r.fx.memoize(fmt.Sprint("kw-valid-", s.num("key")), func() []byte {
			w, _ := aeskw.Wrap(block, seqBytes(64, 7))
			return w
		})
	})
	r.call("aeskw.Unwrap", func() error { _, err := aeskw.Unwrap(block, in); return err })
}

func runKwWrap(r *runner) {
	s := r.sh
	block := must(aes.NewCipher(seqBytes(s.num("key"), 1)))
	in := seqBytes(s.num("len"), 3)
	r.call("aeskw.Wrap", func() error { _, err := aeskw.Wrap(block, in); return err })
}

func runPad(r *runner) {
	s := r.sh
	n, size := s.num("len"), s.num("size")
	mk := func() []byte {
		b := fill(n, 0x41)
		if n == 0 {
			return b
		}
		switch s.str("last") {
		case "zero":
			b[n-1] = 0
		case "one":
			b[n-1] = 1
		case "size":
			b[n-1] = byte(size)
		case "size+1":
			b[n-1] = byte(size + 1)
		case "ff":
			b[n-1] = 0xFF
		case "valid":
			k := size
			if k < 1 || k > 255 {
				k = 16
			}
			k = 1 + (n-1)%k // a run that fits
			for i := n - k; i < n; i++ {
				b[i] = byte(k)
			}
		default:
			panic(harnessBug("unknown last " + s.str("last")))
		}
		return b
	}
	in1, in2 := mk(), mk()
	r.call("padding.PadPKCS7", func() error { _, err := padding.PadPKCS7(in1, size); return err })
	r.call("padding.UnpadPKCS7", func() error { _, err := padding.UnpadPKCS7(in2, size); return err })
}

type aeadCtor struct {
	mk                       func([]byte) (cipher.AEAD, error)
	encKey, macKey, tag      int
	h                        func() hash.Hash
}

var aeadCtors = map[string]aeadCtor{
	"AESCBC128SHA256": {aescbcaead.NewAESCBC128SHA256, 16, 16, 16, sha256.New},
	"AESCBC192SHA384": {aescbcaead.NewAESCBC192SHA384, 24, 24, 24, sha512.New384},
	"AESCBC256SHA384": {aescbcaead.NewAESCBC256SHA384, 32, 24, 24, sha512.New384},
	"AESCBC256SHA512": {aescbcaead.NewAESCBC256SHA512, 32, 32, 32, sha512.New},
}

func runAeadNew(r *runner) {
	c := aeadCtors[r.sh.str("ctor")]
	key := seqBytes(r.sh.num("keylen"), 1)
	r.call("aescbcaead.New", func() error { _, err := c.mk(key); return err })
}

func mkDst(kind string) []byte {
	switch kind {
	case "nil":
		return nil
	case "spare":
		return make([]byte, 3, 400)
	case "exact":
		return make([]byte, 3, 3)
	}
	panic(harnessBug("unknown dst " + kind))
}

func runAeadSeal(r *runner) {
	s := r.sh
	c := aeadCtors[s.str("ctor")]
	a := must(c.mk(seqBytes(c.encKey+c.macKey, 1)))
	nonce, pt, aad, dst := seqBytes(s.num("nonce"), 9), seqBytes(s.num("len"), 1), seqBytes(s.num("aad"), 5), mkDst(s.str("dst"))
	r.call("aescbcaead.Seal", func() error { _ = a.Seal(dst, nonce, pt, aad); return nil })
}

// the RFC 7518 5.2 tag, computed independently of the package under test
func cbcHmacTag(c aeadCtor, key, aad, nonce, body []byte) []byte {
	h := hmac.New(c.h, key[:c.macKey])
	al := make([]byte, 8)
	binary.BigEndian.PutUint64(al, uint64(len(aad))*8)
	h.Write(aad)
	h.Write(nonce)
	h.Write(body)
	h.Write(al)
	return h.Sum(nil)[:c.tag]
}

func runAeadOpen(r *runner) {
	s := r.sh
	c := aeadCtors[s.str("ctor")]
	key := seqBytes(c.encKey+c.macKey, 1)
	a := must(c.mk(key))
	n := s.num("len")
	nonce := seqBytes(s.num("nonce"), 9)
	var in []byte
	switch s.str("content") {
	case "zeros":
		in = make([]byte, n)
	case "valid-resized":
		in = resize(r.fx.memoize("aead-valid-"+s.str("ctor"), func() []byte { return a.Seal(nil, seqBytes(16, 9), seqBytes(24, 1), nil) }), n)
	case "authentic":
		if n < c.tag {
			in = make([]byte, n)
		} else {
			body := make([]byte, n-c.tag)
			in = append(body, cbcHmacTag(c, key, nil, nonce, body)...)
		}
	}
	dst := mkDst(s.str("dst"))
	r.call("aescbcaead.Open", func() error { _, err := a.Open(dst, nonce, in, nil); return err })
}

// sizes an algorithm name expects (the harness's own table)
func symSizes(alg string) (key, nonce, tag int) {
	bits := func() int {
		switch {
		case strings.HasPrefix(alg, "A128"):
			return 16
		case strings.HasPrefix(alg, "A192"):
			return 24
		case strings.HasPrefix(alg, "A256"):
			return 32
		}
		return 32
	}()
	switch {
	case strings.Contains(alg, "CBC-HS"):
		return bits * 2, 16, bits
	case strings.Contains(alg, "CBC"):
		return bits, 16, 0
	case strings.HasSuffix(alg, "GCM") || strings.HasSuffix(alg, "GCMKW"):
		return bits, 12, 16
	case strings.HasSuffix(alg, "KW") && strings.HasPrefix(alg, "A"):
		return bits, 0, 0
	case alg == "C20P" || alg == "C20PKW":
		return 32, 12, 16
	case alg == "XC20P" || alg == "XC20PKW":
		return 32, 24, 16
	}
	return 32, 12, 16
}

type symSample struct{ ct, tag []byte }

func (fx *fixtures) symValid(alg string) symSample {
	k, nn, _ := symSizes(alg)
	ct := fx.memoize("sym-ct-"+alg, func() []byte {
		c, t, err := fx.octKey(seqBytes(k, 1)).encSym(seqBytes(32, 1), alg, seqBytes(nn, 9), nil)
		if err != nil {
			return nil
		}
		fx.memo["sym-tag-"+alg] = t
		return c
	})
	return symSample{ct, fx.memo["sym-tag-"+alg]}
}

func runSymDec(r *runner) {
	s := r.sh
	alg, n := s.str("alg"), s.num("len")
	ks, ns, ts := symSizes(alg)
	v := r.fx.symValid(alg)
	valid := s.str("content") == "valid-resized"
	key, nonce := seqBytes(ks, 1), seqBytes(ns, 9)
	ct, tag := make([]byte, 32), make([]byte, ts)
	if valid && v.ct != nil {
		ct, tag = resize(v.ct, len(v.ct)), resize(v.tag, len(v.tag))
	}
	switch s.str("sweep") {
	case "ciphertext":
		ct = resize(ct, n)
	case "tag":
		tag = resize(tag, n)
	case "nonce":
		nonce = seqBytes(n, 9)
	case "key":
		key = seqBytes(n, 1)
	}
	ops := r.fx.octKey(key)
	if ops == nil {
		return // a jwk cannot hold this key (empty): nothing to call
	}
	r.call("crypto.Decrypt", func() error { _, err := ops.decrypt(resize(ct, len(ct)), alg, nonce, tag, nil); return err })
	r.call("crypto.DecryptSymmetric", func() error { _, err := ops.decSym(resize(ct, len(ct)), alg, nonce, tag, nil); return err })
}

func runSymEnc(r *runner) {
	s := r.sh
	alg, n := s.str("alg"), s.num("len")
	ks, ns, _ := symSizes(alg)
	key, nonce, pt := seqBytes(ks, 1), seqBytes(ns, 9), seqBytes(32, 1)
	switch s.str("sweep") {
	case "plaintext":
		pt = seqBytes(n, 1)
	case "nonce":
		nonce = seqBytes(n, 9)
	case "key":
		key = seqBytes(n, 1)
	}
	ops := r.fx.octKey(key)
	if ops == nil {
		return
	}
	r.call("crypto.Encrypt", func() error { _, _, err := ops.encrypt(resize(pt, len(pt)), alg, nonce, nil); return err })
	r.call("crypto.EncryptSymmetric", func() error { _, _, err := ops.encSym(resize(pt, len(pt)), alg, nonce, nil); return err })
}

func digestSize(alg string) int {
	switch {
	case strings.HasSuffix(alg, "384"):
		return 48
	case strings.HasSuffix(alg, "512"):
		return 64
	}
	return 32
}

func runAsym(r *runner) {
	s := r.sh
	op, alg, keyID, n := s.str("op"), s.str("alg"), s.str("key"), s.num("len")
	ops := r.fx.keyByID(keyID)
	privOps := r.fx.keyByID(privateCounterpart(keyID))
	valid := s.str("content") == "valid-resized"
	switch op {
	case "encrypt":
		pt := seqBytes(n, 1)
		r.call("crypto.Encrypt", func() error { _, _, err := ops.encrypt(pt, alg, nil, nil); return err })
		r.call("crypto.EncryptPublicKey", func() error { _, err := ops.encPub(pt, alg, nil); return err })
	case "decrypt":
		ct := make([]byte, n)
		if valid {
			ct = resize(r.fx.memoize("asym-ct-"+alg+"-"+keyID, func() []byte {
				c, err := ops.encPub(seqBytes(16, 1), alg, nil)
				if err != nil {
					return nil
				}
				return c
			}), n)
		}
		r.call("crypto.Decrypt", func() error { _, err := ops.decrypt(ct, alg, nil, nil, nil); return err })
		r.call("crypto.DecryptPrivateKey", func() error { _, err := ops.decPriv(ct, alg, nil); return err })
	case "sign":
		d := seqBytes(n, 1)
		r.call("crypto.SignPrivateKey", func() error { _, err := ops.sign(d, alg); return err })
	case "verify-sig", "verify-digest":
		digest := seqBytes(digestSize(alg), 1)
		sig := r.fx.memoize("asym-sig-"+alg+"-"+privateCounterpart(keyID), func() []byte {
			sg, err := privOps.sign(digest, alg)
			if err != nil {
				return nil
			}
			return sg
		})
		if op == "verify-sig" {
			if valid {
				sig = resize(sig, n)
			} else {
				sig = make([]byte, n)
			}
		} else {
			digest = seqBytes(n, 1)
		}
		r.call("crypto.VerifyPublicKey", func() error {
			ok, err := ops.verify(digest, sig, alg)
			if err == nil && !ok {
				return errors.New("signature is not valid")
			}
			return err
		})
	default:
		panic(harnessBug("unknown op " + op))
	}
}
