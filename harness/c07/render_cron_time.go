package c07

import (
	"strings"
	"time"

	"github.com/dapr/kit/cron"
	ktime "github.com/dapr/kit/time"
)

func init() {
	families["cron-term"] = runCronTerm
	families["cron-list"] = runCronList
	families["cron-sep"] = runCronSep
	families["cron-count"] = runCronCount
	families["cron-desc"] = runCronDesc
	families["cron-tz"] = runCronTz
	families["cron-combo"] = runCronCombo
	families["dur-tok"] = runDurTok
	families["dur-struct"] = runDurStruct
	families["stamp"] = runStamp
}

const (
	hugeNum   = "99999999999999999999"
	maxIntNum = "9223372036854775807"
)

func cronVal(tok string) string {
	switch tok {
	case "huge":
		return hugeNum
	case "maxint":
		return maxIntNum
	case "2^32":
		return "4294967296"
	case "fullwidth1":
		return "１"
	}
	return tok
}

func cronStep(tok string) string {
	switch tok {
	case "/huge":
		return "/" + hugeNum
	case "/maxint":
		return "/" + maxIntNum
	}
	return tok
}

func nFields(parser string) int {
	switch parser {
	case "std", "dowopt":
		return 5
	case "sec", "secopt":
		return 6
	}
	return 0
}

func cronParse(parser string) func(string) (cron.Schedule, error) {
	switch parser {
	case "std":
		return cron.ParseStandard
	case "sec":
		return func(s string) (cron.Schedule, error) {
			return cron.NewParser(cron.Second | cron.Minute | cron.Hour | cron.Dom | cron.Month | cron.Dow).Parse(s)
		}
	case "secopt":
		return func(s string) (cron.Schedule, error) {
			return cron.NewParser(cron.SecondOptional | cron.Minute | cron.Hour | cron.Dom | cron.Month | cron.Dow | cron.Descriptor).Parse(s)
		}
	case "dowopt":
		return func(s string) (cron.Schedule, error) {
			return cron.NewParser(cron.Minute | cron.Hour | cron.Dom | cron.Month | cron.DowOptional).Parse(s)
		}
	case "desconly":
		return func(s string) (cron.Schedule, error) { return cron.NewParser(cron.Descriptor).Parse(s) }
	}
	panic(harnessBug("unknown parser " + parser))
}

var nyc = func() *time.Location {
	l, err := time.LoadLocation("America/New_York")
	if err != nil {
		return time.UTC
	}
	return l
}()

// parseAndWalk feeds spec to the parser and walks Next three steps from two
// start instants on whatever schedule comes back.
func parseAndWalk(r *runner, parse func(string) (cron.Schedule, error), spec string) {
	var sched cron.Schedule
	r.call("cron.Parse", func() error {
		s, err := parse(spec)
		sched = s
		return err
	})
	if sched == nil {
		return
	}
	starts := []time.Time{
		time.Date(2024, 2, 28, 23, 59, 59, 0, time.UTC),
		time.Date(2023, 11, 5, 0, 59, 59, 500, nyc), // the day DST ends
	}
	r.call("cron.Next", func() error {
		for _, t := range starts {
			for i := 0; i < 3; i++ {
				t = sched.Next(t)
				if t.IsZero() {
					if i == 0 {
						return nil // never fires: one exhausted search is enough
					}
					break
				}
			}
		}
		return nil
	})
}

func fieldsWith(parser string, pos int, field string) string {
	n := nFields(parser)
	fs := make([]string, n)
	for i := range fs {
		fs[i] = "*"
	}
	fs[pos] = field
	return strings.Join(fs, " ")
}

func runCronTerm(r *runner) {
	s := r.sh
	term := cronVal(s.str("lo")) + s.str("dash") + cronVal(s.str("hi")) + cronStep(s.str("step"))
	parseAndWalk(r, cronParse(s.str("parser")), fieldsWith(s.str("parser"), s.num("pos"), term))
}

func runCronList(r *runner) {
	s := r.sh
	parseAndWalk(r, cronParse(s.str("parser")), fieldsWith(s.str("parser"), s.num("pos"), strings.Join(s.strs("terms"), ",")))
}

func runCronSep(r *runner) {
	s := r.sh
	parseAndWalk(r, cronParse(s.str("parser")), fieldsWith(s.str("parser"), s.num("pos"), s.str("field")))
}

func runCronCount(r *runner) {
	s := r.sh
	opts := cron.ParseOption(s.num("opts"))
	fs := make([]string, s.num("n"))
	for i := range fs {
		fs[i] = s.str("fill")
	}
	spec := strings.Join(fs, " ")
	if opts&cron.SecondOptional > 0 && opts&cron.DowOptional > 0 {
		r.call("cron.NewParser", func() error { _ = cron.NewParser(opts); return nil })
		return
	}
	parseAndWalk(r, func(sp string) (cron.Schedule, error) { return cron.NewParser(opts).Parse(sp) }, spec)
}

func runCronDesc(r *runner) {
	s := r.sh
	spec := s.str("d")
	if tz := s.str("tz"); tz != "none" {
		spec = tz + " " + spec
	}
	parseAndWalk(r, cronParse(s.str("parser")), spec)
}

func sepOf(tok string) string {
	switch tok {
	case "none":
		return ""
	case "sp":
		return " "
	case "sp2":
		return "  "
	case "tab":
		return "\t"
	case "nl":
		return "\n"
	case "crlf":
		return "\r\n"
	}
	panic(harnessBug("unknown separator " + tok))
}

func runCronCombo(r *runner) {
	s := r.sh
	spec := "0 0 " + s.str("dom") + " " + s.str("month") + " " + s.str("dow")
	if s.str("parser") == "sec" {
		spec = "0 " + spec
	}
	parseAndWalk(r, cronParse(s.str("parser")), spec)
}

func runCronTz(r *runner) {
	s := r.sh
	spec := s.str("key") + s.str("zone") + sepOf(s.str("sep")) + s.str("tail")
	parseAndWalk(r, cronParse(s.str("parser")), spec)
}

// --- kit time package ---

var fixedOffset = time.Date(2024, 1, 31, 12, 0, 0, 0, time.UTC)

func timeCalls(r *runner, in string) {
	has := func(e string) bool { return entryIndex(r.sh, e) >= 0 }
	if has("time.ParseISO8601Duration") {
		r.call("time.ParseISO8601Duration", func() error {
			_, _, _, _, _, err := ktime.ParseISO8601Duration(in)
			return err
		})
	}
	if has("time.ParseDuration") {
		r.call("time.ParseDuration", func() error {
			_, _, _, _, _, err := ktime.ParseDuration(in)
			return err
		})
	}
	if has("time.ParseTime") {
		r.call("time.ParseTime", func() error {
			off := fixedOffset
			_, err := ktime.ParseTime(in, &off)
			_, err2 := ktime.ParseTime(in, nil)
			if err == nil {
				err = err2
			}
			return err
		})
	}
}

func runDurTok(r *runner) {
	timeCalls(r, strings.Join(r.sh.strs("toks"), ""))
}

func mutateComp(comps []string, op string, at int) []string {
	if at < 1 || at > len(comps) {
		return comps
	}
	i := at - 1
	c := comps[i]
	digits := strings.TrimRight(c, "YMWDHSTPR/")
	unit := c[len(digits):]
	if strings.HasPrefix(c, "R") {
		digits, unit = c[1:], ""
	}
	rebuild := func(d string) string {
		if strings.HasPrefix(c, "R") {
			return "R" + d
		}
		return d + unit
	}
	out := append([]string{}, comps...)
	switch op {
	case "none":
	case "drop":
		out = append(out[:i], out[i+1:]...)
	case "dup":
		out = append(out[:i+1], append([]string{c}, out[i+1:]...)...)
	case "nonum":
		out[i] = rebuild("")
	case "huge":
		out[i] = rebuild(hugeNum)
	case "neg":
		out[i] = rebuild("-" + digits)
	case "frac":
		out[i] = rebuild("1.5")
	case "swap":
		if i+1 < len(out) {
			out[i], out[i+1] = out[i+1], out[i]
		}
	case "lower":
		out[i] = strings.ToLower(c)
	case "space":
		out[i] = " " + c
	default:
		panic(harnessBug("unknown duration mutation " + op))
	}
	return out
}

func runDurStruct(r *runner) {
	s := r.sh
	comps := []string{"R5", "/", "P", "1Y", "2M", "1W", "3D", "T", "4H", "5M", "6S"}
	if s.str("rep") == "norep" {
		comps = comps[2:]
	}
	comps = mutateComp(comps, s.str("op"), s.num("at"))
	comps = mutateComp(comps, s.str("op2"), s.num("at2"))
	timeCalls(r, strings.Join(comps, ""))
}

func runStamp(r *runner) {
	s := r.sh
	sep := s.str("sep")
	switch sep {
	case "sp":
		sep = " "
	case "none":
		sep = ""
	}
	in := s.str("date") + sep + s.str("time") + s.str("zone")
	r.call("time.ParseTime", func() error {
		var err error
		if s.str("offset") == "nil" {
			_, err = ktime.ParseTime(in, nil)
		} else {
			off := fixedOffset
			_, err = ktime.ParseTime(in, &off)
		}
		return err
	})
}
