package c07

import (
	"strings"
	"time"

	"github.com/dapr/kit/config"
	"github.com/dapr/kit/metadata"
	"github.com/dapr/kit/retry"
)

func init() {
	families["dur-int"] = runDurInt
	families["dur-lit"] = runDurLit
	families["decode-target"] = runDecodeTarget
	families["retry-cfg"] = runRetryCfg
}

func signOf(d time.Duration) string {
	switch {
	case d < 0:
		return "neg"
	case d == 0:
		return "zero"
	}
	return "pos"
}

// durValue feeds the text of a duration value to the duration-typed field tgt
// names and reports the sign of what was decoded.
func durValue(r *runner, tgt, form, text string) {
	in, at := text, 0
	switch form {
	case "plain":
	case "list-first":
		in = text + ",1s"
	case "list-last":
		in, at = "1s, "+text, 1
	default:
		panic(harnessBug("unknown form " + form))
	}
	elem := func(l []time.Duration) string {
		if at >= len(l) {
			return "missing"
		}
		return signOf(l[at])
	}
	switch {
	case strings.HasPrefix(tgt, "md-"):
		field := strings.TrimPrefix(tgt, "md-")
		r.call("metadata.DecodeMetadata", func() error {
			var t mdTarget
			err := metadata.DecodeMetadata(map[string]string{field: in}, &t)
			if err != nil {
				return err
			}
			switch field {
			case "duration":
				r.got = signOf(t.Duration)
			case "mdduration":
				r.got = signOf(t.MdDuration.Duration)
			case "mddurationptr":
				r.got = "missing"
				if t.MdDurationPtr != nil {
					r.got = signOf(t.MdDurationPtr.Duration)
				}
			case "durations":
				r.got = elem(t.Durations)
			case "durationsptr":
				r.got = "missing"
				if t.DurationsPtr != nil {
					r.got = elem(*t.DurationsPtr)
				}
			default:
				panic(harnessBug("unknown metadata duration field " + field))
			}
			return nil
		})
	case tgt == "cfg-duration":
		r.call("config.Decode", func() error {
			var t cfgTarget
			err := config.Decode(map[string]any{"duration": in}, &t)
			if err == nil {
				r.got = signOf(t.Duration)
			}
			return err
		})
	case strings.HasPrefix(tgt, "retry-"):
		field := strings.TrimPrefix(tgt, "retry-")
		r.call("retry.DecodeConfig", func() error {
			c := retry.DefaultConfig()
			err := retry.DecodeConfig(&c, map[string]any{field: in})
			if err == nil {
				switch field {
				case "duration":
					r.got = signOf(c.Duration)
				case "maxInterval":
					r.got = signOf(c.MaxInterval)
				default:
					panic(harnessBug("unknown retry duration field " + field))
				}
			}
			return err
		})
	default:
		panic(harnessBug("unknown duration target " + tgt))
	}
}

func runDurInt(r *runner) {
	s := r.sh
	ds, ok := s.P["digits"].([]any)
	if !ok {
		panic(harnessBug("digits is not a sequence"))
	}
	var sb strings.Builder
	if neg, _ := s.P["neg"].(bool); neg {
		sb.WriteByte('-')
	}
	for _, d := range ds {
		sb.WriteByte('0' + byte(d.(float64)))
	}
	durValue(r, s.str("tgt"), s.str("form"), sb.String())
}

func runDurLit(r *runner) {
	s := r.sh
	durValue(r, s.str("tgt"), s.str("form"), s.str("lit"))
}

// --- decode target shapes ---

type TgInner struct {
	In string `mapstructure:"in" mapstructurealiases:"in_alias"`
}
type TgInner2 struct {
	TgInner `mapstructure:",squash"`
	Mid     string `mapstructure:"mid"`
}
type TgInner2P struct {
	*TgInner `mapstructure:",squash"`
	Mid      string `mapstructure:"mid"`
}
type tgPlain struct {
	Out string `mapstructure:"out" mapstructurealiases:"out_alias"`
}
type tgSquash struct {
	TgInner `mapstructure:",squash"`
	Out     string `mapstructure:"out"`
}
type tgSquashPtr struct {
	*TgInner `mapstructure:",squash"`
	Out      string `mapstructure:"out"`
}
type tgSquashNested struct {
	TgInner2 `mapstructure:",squash"`
	Out      string `mapstructure:"out"`
}
type tgSquashPtrNested struct {
	TgInner2P `mapstructure:",squash"`
	Out       string `mapstructure:"out"`
}
type tgSquashNonStruct struct {
	M   map[string]string `mapstructure:",squash"`
	Out string            `mapstructure:"out"`
}
type tgEmbedded struct {
	TgInner
	Out string `mapstructure:"out"`
}
type tgEmbeddedPtr struct {
	*TgInner
	Out string `mapstructure:"out"`
}

func mkTarget(tok string) any {
	switch tok {
	case "nil":
		return nil
	case "typed-nil":
		return (*tgPlain)(nil)
	case "value":
		return tgPlain{}
	case "ptr-int":
		return new(int)
	case "ptr-string":
		return new(string)
	case "ptr-map":
		return &map[string]string{}
	case "ptr-slice":
		return &[]string{}
	case "ptr-struct":
		return &tgPlain{}
	case "ptrptr-struct":
		t := &tgPlain{}
		return &t
	case "ptrptr-nil":
		var t *tgPlain
		return &t
	case "squash-struct":
		return &tgSquash{}
	case "squash-ptr":
		return &tgSquashPtr{}
	case "squash-ptr-set":
		return &tgSquashPtr{TgInner: &TgInner{}}
	case "squash-nested":
		return &tgSquashNested{}
	case "squash-ptr-nested":
		return &tgSquashPtrNested{}
	case "squash-nonstruct":
		return &tgSquashNonStruct{}
	case "embedded-untagged":
		return &tgEmbedded{}
	case "embedded-ptr-untagged":
		return &tgEmbeddedPtr{}
	}
	panic(harnessBug("unknown target shape " + tok))
}

func runDecodeTarget(r *runner) {
	s := r.sh
	v := strVal(s.str("val"))
	var keys []string
	switch s.str("key") {
	case "none":
	case "outer":
		keys = []string{"out"}
	case "inner":
		keys = []string{"in"}
	case "inner-alias":
		keys = []string{"in_alias"}
	case "both":
		keys = []string{"out", "in", "mid"}
	default:
		panic(harnessBug("unknown key " + s.str("key")))
	}
	mss := func() map[string]string {
		m := map[string]string{}
		for _, k := range keys {
			m[k] = v
		}
		return m
	}
	msa := map[string]any{}
	for _, k := range keys {
		msa[k] = v
	}
	t1, t2, t3 := mkTarget(s.str("result")), mkTarget(s.str("result")), mkTarget(s.str("result"))
	m1, m2 := mss(), mss()
	r.call("metadata.DecodeMetadata", func() error { return metadata.DecodeMetadata(m1, t1) })
	r.call("metadata.Properties.Decode", func() error { return metadata.Properties(m2).Decode(t2) })
	r.call("config.Decode", func() error { return config.Decode(msa, t3) })
}

// --- retry ---

func runRetryCfg(r *runner) {
	s := r.sh
	field, val := s.str("field"), mapVal(s.str("val"))
	if s.str("via") == "plain" {
		in := map[string]any{field: val}
		r.call("retry.DecodeConfig", func() error {
			c := retry.DefaultConfig()
			var zero retry.Config
			e1 := retry.DecodeConfig(&c, in)
			e2 := retry.DecodeConfig(&zero, in)
			if e1 != nil {
				return e1
			}
			return e2
		})
		return
	}
	in := map[string]any{"retry" + strings.ToUpper(field[:1]) + field[1:]: val, "other": 1}
	in2 := map[any]any{"retry" + strings.ToUpper(field[:1]) + field[1:]: val, 5: 1}
	r.call("retry.DecodeConfigWithPrefix", func() error {
		c := retry.DefaultConfig()
		e1 := retry.DecodeConfigWithPrefix(&c, in, "retry")
		c2 := retry.DefaultConfig()
		_ = retry.DecodeConfigWithPrefix(&c2, in2, "retry")
		return e1
	})
}
