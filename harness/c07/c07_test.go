package c07

import (
	"os"
	"testing"
)

func TestMain(m *testing.M) {
	if os.Getenv("C07_CHILD") == "1" {
		os.Exit(childMain())
	}
	os.Exit(m.Run())
}
