package c07

import (
	"bytes"
	"encoding/json"
	"fmt"
	"os"
	"os/exec"
	"path/filepath"
	"regexp"
	"runtime"
	"sort"
	"strconv"
	"strings"
	"sync"
	"testing"
	"time"

	"verifharness/internal/ev"
	"verifharness/internal/tlc"
	"verifharness/internal/tv"
)

func TestMain(m *testing.M) {
	if os.Getenv("C07_CHILD") == "1" {
		os.Exit(childMain())
	}
	os.Exit(m.Run())
}

const (
	firstDeadline   = 2 * time.Second  // watchdog of the first run
	confirmDeadline = 25 * time.Second // a hang is reported only if a second, isolated run does not return within this
)

// result of one call: shape index, entry index
type callKey struct{ idx, ei int }

type callResult struct {
	outcome string
	got     string
	msg     string
}

type driver struct {
	dir     string
	shapes  []*Shape
	mu      sync.Mutex
	results map[callKey]callResult
	bugs    []string
	skipSet map[string]bool // fam|cls|entry with a confirmed hang
	slow    []string        // calls that outlived the first watchdog but returned in the confirmation run
	crashes int
	spawned int
}

func (d *driver) skipFile() string { return filepath.Join(d.dir, "skip.txt") }

func (d *driver) writeSkip() {
	var ls []string
	for k := range d.skipSet {
		ls = append(ls, k)
	}
	sort.Strings(ls)
	_ = os.WriteFile(d.skipFile(), []byte(strings.Join(ls, "\n")+"\n"), 0o644)
}

type childExit struct {
	code    int
	stderr  string
	flIdx   int
	flEntry int
	lines   []string
}

// spawn runs one child over [from, to) and returns what it wrote.
func (d *driver) spawn(tag string, from, to int, deadline time.Duration) childExit {
	out := filepath.Join(d.dir, "out-"+tag+".txt")
	flp := filepath.Join(d.dir, "flight-"+tag)
	_ = os.Remove(out)
	fl, err := openFlight(flp, true)
	if err != nil {
		return childExit{code: -1, stderr: err.Error()}
	}
	fl.set(-1, -1)
	cmd := exec.Command(os.Args[0], "-test.run=^$")
	cmd.Env = append(os.Environ(), "C07_CHILD=1", "C07_SHAPES="+filepath.Join(d.dir, "shapes.ndjson"), "C07_FIX="+filepath.Join(d.dir, "fixtures.json"),
		"C07_FROM="+strconv.Itoa(from), "C07_TO="+strconv.Itoa(to), "C07_OUT="+out, "C07_FLIGHT="+flp, "C07_SKIP="+d.skipFile(),
		"C07_DEADLINE_MS="+strconv.Itoa(int(deadline/time.Millisecond)), "GOMAXPROCS=2", "GOTRACEBACK=single")
	var stderr bytes.Buffer
	cmd.Stderr = &stderr
	cmd.Stdout = &stderr
	runErr := cmd.Run()
	d.mu.Lock()
	d.spawned++
	d.mu.Unlock()
	ce := childExit{}
	if runErr != nil {
		ce.code = -1
		if ee, ok := runErr.(*exec.ExitError); ok {
			ce.code = ee.ExitCode()
		}
	}
	ce.stderr = stderr.String()
	ce.flIdx, ce.flEntry = fl.get()
	b, _ := os.ReadFile(out)
	for _, l := range strings.Split(string(b), "\n") {
		if l != "" {
			ce.lines = append(ce.lines, l)
		}
	}
	return ce
}

// absorb stores the child's result lines; returns the highest finished shape index (-1: none).
func (d *driver) absorb(ce childExit, override bool) (done int, suspect *callKey) {
	done = -1
	d.mu.Lock()
	defer d.mu.Unlock()
	for _, l := range ce.lines {
		f := strings.SplitN(l, "\t", 5)
		if f[0] == "D" && len(f) >= 2 {
			if n, err := strconv.Atoi(f[1]); err == nil && n > done {
				done = n
			}
			continue
		}
		if len(f) < 3 {
			continue
		}
		idx, _ := strconv.Atoi(f[0])
		ei, _ := strconv.Atoi(f[1])
		msg, got := "", ""
		if len(f) >= 4 {
			got = f[3]
		}
		if len(f) == 5 {
			msg = f[4]
		}
		switch f[2] {
		case outBug:
			d.bugs = append(d.bugs, fmt.Sprintf("shape %d (%s): %s", idx, d.shapes[idx].Fam, msg))
		case outSuspect:
			suspect = &callKey{idx, ei}
		default:
			k := callKey{idx, ei}
			if _, ok := d.results[k]; !ok || override {
				d.results[k] = callResult{f[2], got, msg}
			}
		}
	}
	return done, suspect
}

var reFatal = regexp.MustCompile(`(?m)^(fatal error: .*|panic: .*|runtime: .*|SIGSEGV.*|signal: .*)$`)

func crashText(stderr string) string {
	if m := reFatal.FindString(stderr); m != "" {
		return m
	}
	return firstLine(stderr, 200)
}

// runRange runs shapes [from, to) in child processes, restarting after a crash
// or a suspected hang of the child.
func (d *driver) runRange(tag string, from, to int) {
	attempt := 0
	for from < to {
		attempt++
		ce := d.spawn(fmt.Sprintf("%s-%d", tag, attempt), from, to, firstDeadline)
		done, suspect := d.absorb(ce, false)
		if ce.code == 0 {
			return
		}
		if ce.code == 4 || ce.flIdx < from || ce.flIdx >= to {
			d.mu.Lock()
			d.bugs = append(d.bugs, fmt.Sprintf("child %s [%d,%d) failed to run (exit %d): %s", tag, from, to, ce.code, firstLine(ce.stderr, 400)))
			d.mu.Unlock()
			return
		}
		idx, ei := ce.flIdx, ce.flEntry
		sh := d.shapes[idx]
		if suspect != nil {
			idx, ei = suspect.idx, suspect.ei
			sh = d.shapes[idx]
			d.confirmHang(tag, idx, ei)
		} else {
			// the process died (fatal error, panic on another goroutine, ...): attributed to the call in flight
			d.mu.Lock()
			d.crashes++
			if ei >= 0 && ei < len(sh.Entries) {
				d.results[callKey{idx, ei}] = callResult{outPanic, "", "process crashed: " + crashText(ce.stderr)}
			} else {
				d.bugs = append(d.bugs, fmt.Sprintf("child crashed outside a call at shape %d (%s): %s", idx, sh.Fam, crashText(ce.stderr)))
			}
			d.mu.Unlock()
		}
		_ = done
		from = idx + 1
	}
}

// confirmHang re-runs one shape alone with the long deadline.
func (d *driver) confirmHang(tag string, idx, ei int) {
	sh := d.shapes[idx]
	key := sh.Fam + "|" + sh.Cls + "|" + sh.Entries[ei]
	d.mu.Lock()
	already := d.skipSet[key]
	d.mu.Unlock()
	if already {
		d.mu.Lock()
		d.results[callKey{idx, ei}] = callResult{outSkipped, "", ""}
		d.mu.Unlock()
		return
	}
	ce := d.spawn(fmt.Sprintf("%s-confirm-%d", tag, idx), idx, idx+1, confirmDeadline)
	_, suspect := d.absorb(ce, true)
	d.mu.Lock()
	defer d.mu.Unlock()
	switch {
	case suspect != nil:
		d.results[callKey{suspect.idx, suspect.ei}] = callResult{outHang, "", fmt.Sprintf("no return within %s, then (alone) within %s", firstDeadline, confirmDeadline)}
		s2 := d.shapes[suspect.idx]
		d.skipSet[s2.Fam+"|"+s2.Cls+"|"+s2.Entries[suspect.ei]] = true
		d.writeSkip()
	case ce.code != 0:
		d.crashes++
		if ce.flEntry >= 0 && ce.flEntry < len(sh.Entries) {
			d.results[callKey{idx, ce.flEntry}] = callResult{outPanic, "", "process crashed: " + crashText(ce.stderr)}
		}
	default:
		d.slow = append(d.slow, fmt.Sprintf("%s %s %s", sh.Entries[ei], sh.Cls, string(sh.Raw)))
	}
}

func (d *driver) runAll(workers int) {
	n := len(d.shapes)
	chunk := n/(workers*6) + 1
	type job struct{ from, to int }
	jobs := make(chan job, n/chunk+2)
	for f := 0; f < n; f += chunk {
		t := f + chunk
		if t > n {
			t = n
		}
		jobs <- job{f, t}
	}
	close(jobs)
	var wg sync.WaitGroup
	for w := 0; w < workers; w++ {
		wg.Add(1)
		go func() {
			defer wg.Done()
			for j := range jobs {
				d.runRange(fmt.Sprintf("r%d", j.from), j.from, j.to)
			}
		}()
	}
	wg.Wait()
}

// ---------------------------------------------------------------------------

type runKey struct{ fam, entry, cls string }

type event struct {
	idx     int
	outcome string
	got     string
	msg     string
}

func callEvent(sh *Shape, entry string, idx int, outcome, got string) tv.M {
	return tv.M{"fam": sh.Fam, "entry": entry, "cls": sh.Cls, "id": idx, "p": sh.Raw, "outcome": outcome, "got": got}
}

// buildBatches groups the recorded calls into runs (fam, entry, cls) and
// batches of at most maxLines lines.
func buildBatches(shapes []*Shape, results map[callKey]callResult, maxLines int) ([]*tv.Batch, [][]runKey, map[runKey][]event) {
	runs := map[runKey][]event{}
	for k, r := range results {
		if r.outcome == outSkipped {
			continue
		}
		sh := shapes[k.idx]
		rk := runKey{sh.Fam, sh.Entries[k.ei], sh.Cls}
		runs[rk] = append(runs[rk], event{k.idx, r.outcome, r.got, r.msg})
	}
	var keys []runKey
	for k := range runs {
		sort.Slice(runs[k], func(i, j int) bool { return runs[k][i].idx < runs[k][j].idx })
		keys = append(keys, k)
	}
	sort.Slice(keys, func(i, j int) bool {
		a, b := keys[i], keys[j]
		if a.fam != b.fam {
			return a.fam < b.fam
		}
		if a.entry != b.entry {
			return a.entry < b.entry
		}
		return a.cls < b.cls
	})
	var batches []*tv.Batch
	var index [][]runKey
	cur := &tv.Batch{}
	var curKeys []runKey
	for _, k := range keys {
		if cur.Lines() > 0 && cur.Lines()+len(runs[k])+2 > maxLines {
			batches, index = append(batches, cur), append(index, curKeys)
			cur, curKeys = &tv.Batch{}, nil
		}
		cur.Start(tv.M{"fam": k.fam, "entry": k.entry, "cls": k.cls})
		for _, e := range runs[k] {
			cur.Ev("call", callEvent(shapes[e.idx], k.entry, e.idx, e.outcome, e.got))
		}
		cur.Ev("end", tv.M{"n": len(runs[k])})
		curKeys = append(curKeys, k)
	}
	if cur.Lines() > 0 {
		batches, index = append(batches, cur), append(index, curKeys)
	}
	return batches, index, runs
}

func traceCfg() string { return ev.Pick("TraceShapes.cfg", "TraceShapes_big.cfg") }

func TestCheck(t *testing.T) {
	e := ev.New("C07", "exploration")
	defer func() {
		if e.Write() > 0 {
			t.Fail()
		}
	}()
	dir, err := os.MkdirTemp("", "c07-")
	if err != nil {
		e.Inconclusive("mktemp: " + err.Error())
		return
	}
	defer os.RemoveAll(dir)

	// 0. the defect model (one guard dropped) must be caught by TLC: the model check is not vacuous
	defectCh := make(chan tlc.Result, 1)
	go func() {
		defectCh <- tlc.Run(tlc.Opts{Dir: "InputShapes", Module: "ShapesModel", Config: "MC_defect.cfg", Workers: 2, Timeout: 5 * time.Minute, HeapMB: 2048, Args: []string{"-noGenerateSpecTE"}})
	}()
	defect2Ch := make(chan tlc.Result, 1)
	go func() {
		defect2Ch <- tlc.Run(tlc.Opts{Dir: "InputShapes", Module: "ShapesModel", Config: "MC_defect_value.cfg", Workers: 2, Timeout: 5 * time.Minute, HeapMB: 2048, Args: []string{"-noGenerateSpecTE"}})
	}()
	fixCh := make(chan error, 1)
	go func() { fixCh <- generateFixtures(filepath.Join(dir, "fixtures.json")) }()

	// 1. TLC enumerates the shape space (written to shapes.ndjson) and checks the guard-table model against the monitor
	var shapes []*Shape
	var data []byte
	if os.Getenv("VERIF_REPLAY") == "" {
		mc := tlc.Run(tlc.Opts{Dir: "InputShapes", Module: "ShapesModel", Config: ev.Pick("MC_small.cfg", "MC_big.cfg"), Workers: 14,
			Timeout: ev.Pick(6*time.Minute, 40*time.Minute), HeapMB: ev.Pick(6144, 12288), Args: []string{"-noGenerateSpecTE"}, Keep: []string{"shapes.ndjson"}})
		fmt.Printf("MC ShapesModel: ok=%v generated=%d distinct=%d wall=%s %s\n", mc.OK, mc.Generated, mc.Distinct, mc.Wall.Round(time.Millisecond), mc.What)
		if !mc.OK {
			e.Inconclusive("model check / enumeration of ShapesModel did not pass: " + mc.What + "\n" + mc.Tail(2000))
		}
		e.Set("states", mc.Distinct)
		e.Set("transitions", mc.Generated)
		e.Set("checker_cmd", mc.Cmd)
		data = mc.Kept["shapes.ndjson"]
		if len(data) == 0 {
			e.Inconclusive("TLC did not write shapes.ndjson\n" + mc.Tail(2000))
			return
		}
		shapes, err = loadShapes(data)
		if err != nil {
			e.Inconclusive("cannot read the shapes TLC wrote: " + err.Error())
			return
		}
		if m := regexp.MustCompile(`<<"SHAPES", (\d+)>>`).FindStringSubmatch(mc.Output); m == nil || m[1] != strconv.Itoa(len(shapes)) {
			e.Inconclusive(fmt.Sprintf("shape count mismatch: TLC announced %v, file has %d", m, len(shapes)))
			return
		}
	}
	if rp := os.Getenv("VERIF_REPLAY"); rp != "" {
		shapes, err = replayShapes(rp)
		if err != nil {
			e.Inconclusive("replay: " + err.Error())
			return
		}
	}
	// a fixed permutation spreads the (contiguous) families, and with them the slow shapes, over the child processes
	shapes, data = permute(shapes)
	if err := os.WriteFile(filepath.Join(dir, "shapes.ndjson"), data, 0o644); err != nil {
		e.Inconclusive(err.Error())
		return
	}
	if err := <-fixCh; err != nil {
		e.Inconclusive("fixtures: " + err.Error())
		return
	}

	// 2. every shape is rendered and fed to the real entry points in child processes
	d := &driver{dir: dir, shapes: shapes, results: map[callKey]callResult{}, skipSet: map[string]bool{}}
	d.writeSkip()
	start := time.Now()
	workers := runtime.NumCPU()
	if workers > 16 {
		workers = 16
	}
	d.runAll(workers)
	fmt.Printf("ran %d shapes -> %d calls in %s (%d child processes, %d crashes, %d slow, %d hang classes)\n", len(shapes), len(d.results),
		time.Since(start).Round(time.Millisecond), d.spawned, d.crashes, len(d.slow), len(d.skipSet))
	seenBug := map[string]bool{}
	for _, b := range d.bugs {
		// one report per family and message
		k := regexp.MustCompile(`shape \d+`).ReplaceAllString(firstLine(b, 120), "shape N")
		if seenBug[k] {
			continue
		}
		seenBug[k] = true
		if len(seenBug) > 12 {
			e.Inconclusive(fmt.Sprintf("harness: ... %d failures in total", len(d.bugs)))
			break
		}
		e.Inconclusive("harness: " + firstLine(b, 700))
	}
	if len(d.bugs) > 0 {
		return
	}
	famSeen := map[string]int{}
	touched := map[int]bool{}
	for k := range d.results {
		touched[k.idx] = true
	}
	for i, s := range shapes {
		if touched[i] {
			famSeen[s.Fam]++
		}
	}
	e.Set("shapes", int64(len(shapes)))
	e.Set("shapes_exercised", int64(len(touched)))
	e.Set("shapes_exercised_by_family", famSeen)
	e.Set("evaluations", int64(len(d.results)))
	if len(touched) < len(shapes)*9/10 {
		e.Inconclusive(fmt.Sprintf("only %d of %d shapes produced a call", len(touched), len(shapes)))
	}
	if len(d.slow) > 0 {
		sort.Strings(d.slow)
		if len(d.slow) > 20 {
			d.slow = d.slow[:20]
		}
		e.Set("slow_but_returning", d.slow)
	}

	// 3. TLC judges the recorded calls against the contract
	batches, index, runs := buildBatches(shapes, d.results, 400000)
	outcomes := map[string]int64{}
	for k, evs := range runs {
		for _, x := range evs {
			outcomes[x.outcome]++
			e.Nontrivial(k.entry + "|" + k.cls + "|" + x.outcome)
		}
	}
	e.Set("outcomes", outcomes)
	byEntry := map[string]map[string]int{}
	for k, evs := range runs {
		if byEntry[k.entry] == nil {
			byEntry[k.entry] = map[string]int{}
		}
		for _, x := range evs {
			byEntry[k.entry][x.outcome]++
		}
	}
	e.Set("outcomes_by_entry", byEntry)
	if dump := os.Getenv("C07_DUMP"); dump != "" {
		var sb strings.Builder
		for k, evs := range runs {
			cnt := map[string]int{}
			ex := map[string]string{}
			for _, x := range evs {
				cnt[x.outcome]++
				if ex[x.outcome] == "" {
					ex[x.outcome] = string(shapes[x.idx].Raw) + " => " + x.msg
				}
			}
			fmt.Fprintf(&sb, "%s\t%s\t%s\t%v\n", k.fam, k.entry, k.cls, cnt)
			for o, x := range ex {
				fmt.Fprintf(&sb, "\t\t%s: %s\n", o, firstLine(x, 260))
			}
		}
		_ = os.WriteFile(dump, []byte(sb.String()), 0o644)
	}
	e.Set("runs", int64(len(runs)))
	expectBad := map[runKey]string{}
	for k, evs := range runs {
		for _, x := range evs {
			if x.outcome == outHang || (x.outcome == outPanic && !isMisuse(k)) {
				if _, ok := expectBad[k]; !ok {
					expectBad[k] = x.outcome
				}
			}
		}
	}
	gotBad := map[runKey]string{}
	gotBadAt := map[runKey]int{}
	validated := 0
	for bi, b := range batches {
		rej, res := tv.Validate(tlc.Opts{Dir: "InputShapes", Module: "TraceShapes", Config: traceCfg(), Workers: 16, Timeout: ev.Pick(6*time.Minute, 30*time.Minute), HeapMB: ev.Pick(8192, 12288)}, b)
		fmt.Printf("TLC trace validation %d/%d: ok=%v runs=%d lines=%d rejects=%d distinct=%d wall=%s %s\n", bi+1, len(batches), res.OK, b.Len(), b.Lines(), len(rej), res.Distinct, res.Wall.Round(time.Millisecond), res.What)
		if !res.OK && !res.Violation {
			e.Inconclusive("trace validation did not run: " + res.What + "\n" + res.Tail(2000))
			return
		}
		if res.Violation {
			e.Inconclusive("TLC failed while validating traces:\n" + res.Tail(3000))
			return
		}
		validated += b.Len()
		for _, r := range rej {
			k := index[bi][r.Trace]
			if r.Why != outPanic && r.Why != outHang && valueLaw[r.Why] == "" {
				e.Inconclusive(fmt.Sprintf("binding: run %v rejected at event %d: %s", k, r.At, r.Why))
				continue
			}
			gotBad[k] = r.Why
			gotBadAt[k] = r.At
		}
	}
	e.Set("traces_validated_against_impl", int64(validated))
	for k, why := range gotBad {
		if prefix := valueLaw[why]; prefix != "" {
			// a value law of the contract: only TLC knows the expectation; the offending call is the one the run stopped at
			i := gotBadAt[k] - 1
			if i < 0 || i >= len(runs[k]) || runs[k][i].outcome != outOK {
				e.Inconclusive(fmt.Sprintf("TLC rejected run %v (%s) at event %d, which is not a successful call", k, why, gotBadAt[k]))
				continue
			}
			x := runs[k][i]
			oks := 0
			for _, y := range runs[k] {
				if y.outcome == outOK {
					oks++
				}
			}
			sj := shapeJSON(shapes[x.idx])
			e.Violation(prefix+":"+k.entry+":"+k.cls, fmt.Sprintf("%s: %s returned no error on a shape of class %s (family %s) and decoded %q, e.g. p=%s (%d of %d calls of the class returned no error)",
				why, k.entry, k.cls, k.fam, x.got, string(sj), oks, len(runs[k])),
				tv.M{"shapes": []any{tv.M{"shape": json.RawMessage(sj), "outcome": x.outcome, "got": x.got}}, "entry": k.entry, "class": k.cls, "family": k.fam})
			continue
		}
		if expectBad[k] == "" {
			e.Inconclusive(fmt.Sprintf("TLC rejected run %v (%s) but the harness recorded no such outcome", k, why))
			continue
		}
		var bad []any
		for _, x := range runs[k] {
			if x.outcome == why {
				if len(bad) < 6 {
					bad = append(bad, tv.M{"shape": json.RawMessage(shapeJSON(shapes[x.idx])), "outcome": x.outcome, "detail": x.msg})
				}
			}
		}
		n := 0
		for _, x := range runs[k] {
			if x.outcome == why {
				n++
			}
		}
		if len(bad) == 0 {
			e.Inconclusive(fmt.Sprintf("TLC rejected run %v for %s but the harness recorded another outcome", k, why))
			continue
		}
		first := bad[0].(tv.M)
		e.Violation(why+":"+k.entry+":"+k.cls, fmt.Sprintf("%s on %d of %d shapes of class %s (family %s), e.g. p=%s: %s", k.entry, n, len(runs[k]), k.cls, k.fam, string(first["shape"].(json.RawMessage)), first["detail"]),
			tv.M{"shapes": bad, "entry": k.entry, "class": k.cls, "family": k.fam})
	}
	for k, why := range expectBad {
		if gotBad[k] == "" {
			e.Inconclusive(fmt.Sprintf("the harness recorded %s in run %v but TLC accepted the run", why, k))
		}
	}

	// evidence: rule and samples
	e.Set("rule", "a case = one call of a real entry point on the rendering of one shape (family, parameter record) enumerated by TLC from spec/InputShapes/InputShapes.tla "+
		"(cron ASTs+mutations x parser option sets, TZ prefixes, duration/timestamp token sequences, every length 0..65 (+block multiples +-1) x algorithm x content class for wrapped keys/ciphertexts/tags/nonces/keys/paddings, "+
		"every marshalable key type x encoding x container x PEM label x cut, whitespace blobs 0..40, JWK members removed/retyped, certificate bundles, enc/v1 header lines and manifest members mutated (stale and re-signed MAC), "+
		"metadata/config value kinds x target kinds); non-trivial = distinct (entry point, shape class, outcome) triples; all shapes of the tier's grammar are executed (no sampling); "+
		"a call counts as hang only if it exceeds 2s and then, alone, 25s")
	sampleRuns(e, shapes, runs)
	if dr := <-defectCh; !dr.Violation || !strings.Contains(dr.What, "NotBad") {
		e.Inconclusive("the defect model (guard wrapped-key-min-length dropped) was not caught by TLC: " + dr.What)
	} else {
		e.Set("defect_model_detected", true)
	}
	if dr := <-defect2Ch; !dr.Violation || !strings.Contains(dr.What, "NotBad") {
		e.Inconclusive("the defect model (guard duration-range-check dropped) was not caught by TLC: " + dr.What)
	} else {
		e.Set("defect_value_model_detected", true)
	}
	e.Assume("the claim covers the shapes of the grammar only (not arbitrary byte strings); rendering of tokens to bytes is done by the harness",
		"hang = no return within 2s and, in an isolated second run, within 25s; a crash of the child process is attributed to the call in flight",
		"trusted: TLC, the Go runtime's recover / process exit status, crypto primitives of the standard library used to build valid samples")

	// 4. binding self-test
	selfTest(e, shapes)
}

func permute(in []*Shape) ([]*Shape, []byte) {
	n := len(in)
	stride := 7919
	for n%stride == 0 {
		stride += 2
	}
	gcd := func(a, b int) int {
		for b != 0 {
			a, b = b, a%b
		}
		return a
	}
	for n > 0 && gcd(stride, n) != 1 {
		stride++
	}
	out := make([]*Shape, 0, n)
	var buf bytes.Buffer
	for i := 0; i < n; i++ {
		s := in[(i*stride)%n]
		out = append(out, s)
		buf.Write(shapeJSON(s))
		buf.WriteByte('\n')
	}
	return out, buf.Bytes()
}

// reasons of the contract's value laws -> finding key prefix
var valueLaw = map[string]string{"malformed input accepted": "accepted", "wrong value without an error": "wrong-value"}

var misuse = map[[2]string]bool{{"aescbcaead.Seal", "nonce-wrong-size"}: true, {"cron.NewParser", "two-optionals"}: true}

// isMisuse mirrors ShapesContract!Misuse only to cross-check TLC's verdicts (a mismatch is reported as inconclusive).
func isMisuse(k runKey) bool { return misuse[[2]string{k.entry, k.cls}] }

func shapeJSON(s *Shape) []byte {
	b, _ := json.Marshal(map[string]any{"fam": s.Fam, "cls": s.Cls, "entries": s.Entries, "p": s.Raw})
	return b
}

func sampleRuns(e *ev.Evidence, shapes []*Shape, runs map[runKey][]event) {
	var keys []runKey
	for k := range runs {
		keys = append(keys, k)
	}
	sort.Slice(keys, func(i, j int) bool { return fmt.Sprint(keys[i]) < fmt.Sprint(keys[j]) })
	seenFam := map[string]bool{}
	for _, k := range keys {
		if seenFam[k.fam] || len(runs[k]) == 0 {
			continue
		}
		seenFam[k.fam] = true
		x := runs[k][len(runs[k])/2]
		e.Sample(tv.M{"entry": k.entry, "class": k.cls, "shape": json.RawMessage(shapeJSON(shapes[x.idx])), "outcome": x.outcome, "detail": x.msg})
	}
}

func replayShapes(path string) ([]*Shape, error) {
	b, err := os.ReadFile(path)
	if err != nil {
		return nil, err
	}
	var f struct {
		Replay struct {
			Shapes []struct {
				Shape json.RawMessage `json:"shape"`
			} `json:"shapes"`
		} `json:"replay"`
	}
	if err := json.Unmarshal(b, &f); err != nil {
		return nil, err
	}
	var buf bytes.Buffer
	for _, s := range f.Replay.Shapes {
		buf.Write(bytes.ReplaceAll(s.Shape, []byte("\n"), nil))
		buf.WriteByte('\n')
	}
	out, err := loadShapes(buf.Bytes())
	if err == nil && len(out) == 0 {
		err = fmt.Errorf("no shapes in %s", path)
	}
	return out, err
}

// selfTest: the validator must accept an honest run and reject (a) a panic
// outcome, (b) a call whose parameters are not a shape of the grammar, (c) a
// call on an entry point the grammar does not list for the shape, (d) a run
// with a missing call, and accept (e) a documented misuse panic.
func selfTest(e *ev.Evidence, shapes []*Shape) {
	var kw, seal *Shape
	for _, s := range shapes {
		if kw == nil && s.Fam == "kw-wrap" {
			kw = s
		}
		if seal == nil && s.Fam == "aead-seal" && s.Cls == "nonce-wrong-size" {
			seal = s
		}
	}
	if os.Getenv("VERIF_REPLAY") != "" {
		return
	}
	if kw == nil || seal == nil {
		e.Inconclusive("binding self-test: sample shapes not found")
		return
	}
	b := &tv.Batch{}
	run := func(sh *Shape, entry string, outcome string, mut func(m tv.M), n int) {
		b.Start(tv.M{"fam": sh.Fam, "entry": entry, "cls": sh.Cls})
		m := callEvent(sh, entry, 0, outcome, "")
		if mut != nil {
			mut(m)
		}
		b.Ev("call", m)
		b.Ev("end", tv.M{"n": n})
	}
	run(kw, "aeskw.Wrap", outOK, nil, 1)                                                                           // 0 accepted
	run(kw, "aeskw.Wrap", outPanic, nil, 1)                                                                        // 1 rejected: panic
	run(kw, "aeskw.Wrap", outOK, func(m tv.M) { m["p"] = json.RawMessage(`{"len":1000000,"key":16}`) }, 1)         // 2 rejected: not a shape
	run(kw, "aeskw.Unwrap", outOK, nil, 1)                                                                         // 3 rejected: entry not listed
	run(kw, "aeskw.Wrap", outOK, nil, 2)                                                                           // 4 rejected: incomplete
	run(seal, "aescbcaead.Seal", outPanic, nil, 1)                                                                 // 5 accepted: misuse
	run(kw, "aeskw.Wrap", outHang, nil, 1)                                                                         // 6 rejected: hang
	var over, fit, ptr *Shape
	for _, s := range shapes {
		if s.Fam == "dur-int" && s.Cls == "duration-seconds-overflow" && over == nil {
			over = s
		}
		if s.Fam == "dur-int" && s.Cls == "duration-seconds-in-range" && fit == nil && s.P["neg"] == false && len(s.P["digits"].([]any)) > 1 {
			fit = s
		}
		if s.Fam == "cfg-decode" && s.Cls == "value-ptr" && s.P["target"] == "string" && s.P["out"] == "ptr" && ptr == nil {
			ptr = s
		}
	}
	if over == nil || fit == nil || ptr == nil {
		e.Inconclusive("binding self-test: value-law sample shapes not found")
		return
	}
	withGot := func(g string) func(m tv.M) { return func(m tv.M) { m["got"] = g } }
	run(over, "metadata.DecodeMetadata", outError, nil, 1)            // 7 accepted: overflow reported
	run(over, "metadata.DecodeMetadata", outOK, withGot("neg"), 1)    // 8 rejected: malformed input accepted
	run(fit, "metadata.DecodeMetadata", outOK, withGot("pos"), 1)     // 9 accepted
	run(fit, "metadata.DecodeMetadata", outOK, withGot("neg"), 1)     // 10 rejected: wrong value
	run(ptr, "config.Decode", outOK, withGot("5"), 1)                 // 11 accepted
	run(ptr, "config.Decode", outOK, withGot("0xc000012345"), 1)      // 12 rejected: wrong value
	rej, res := tv.Validate(tlc.Opts{Dir: "InputShapes", Module: "TraceShapes", Config: traceCfg(), Workers: 2, Timeout: 3 * time.Minute, HeapMB: 2048}, b)
	got := map[int]string{}
	for _, r := range rej {
		got[r.Trace] = r.Why
	}
	st := tv.M{"honest_run_accepted": got[0] == "", "panic_rejected": got[1] == "panic", "foreign_shape_rejected": got[2] == "not a shape of the grammar",
		"unlisted_entry_rejected": got[3] == "not a shape of the grammar", "incomplete_run_rejected": got[4] == "run is incomplete",
		"documented_misuse_panic_accepted": got[5] == "", "hang_rejected": got[6] == "hang",
		"overflow_error_accepted": got[7] == "", "overflow_without_error_rejected": got[8] == "malformed input accepted",
		"in_range_value_accepted": got[9] == "", "wrapped_sign_rejected": got[10] == "wrong value without an error",
		"pointee_text_accepted": got[11] == "", "pointer_address_rejected": got[12] == "wrong value without an error"}
	e.Set("binding_selftest", st)
	ok := res.OK
	for _, v := range st {
		ok = ok && v.(bool)
	}
	if !ok {
		e.Inconclusive(fmt.Sprintf("binding self-test failed: %v rejects=%v %s", st, rej, res.What))
	}
}
