package c07

import (
	"bytes"
	"errors"
	"io"
	"math"
	"strconv"
	"strings"
	"time"

	"github.com/dapr/kit/config"
	"github.com/dapr/kit/metadata"
	"github.com/dapr/kit/streams"
)

func init() {
	families["upper"] = runUpper
	families["rune"] = runRune
	families["md-decode"] = runMdDecode
	families["md-misc"] = runMdMisc
	families["cfg-decode"] = runCfgDecode
	families["cfg-tree"] = runCfgTree
}

// --- streams ---

type chunkReader struct {
	b []byte
	n int
}

func (c *chunkReader) Read(p []byte) (int, error) {
	if len(c.b) == 0 {
		return 0, io.EOF
	}
	n := c.n
	if n > len(p) {
		n = len(p)
	}
	if n > len(c.b) {
		n = len(c.b)
	}
	copy(p, c.b[:n])
	c.b = c.b[n:]
	return n, nil
}

var units = map[string]string{"a": "a", "Z": "Z", "nul": "\x00", "ff": "\xff", "c3": "\xc3", "szlig": "ß", "dotless-i": "ı",
	"dz": "ǆ", "euro": "€", "max": "\U0010FFFF", "surrogate": "\xed\xa0\x80", "overlong": "\xc0\xaf"}

func runUpper(r *runner) {
	s := r.sh
	u, ok := units[s.str("unit")]
	if !ok {
		panic(harnessBug("unknown unit " + s.str("unit")))
	}
	n := s.num("n")
	b := []byte(strings.Repeat(u, n/len(u)+1))[:n]
	r.call("streams.UppercaseTransformer", func() error {
		_, err := io.ReadAll(streams.UppercaseTransformer(&chunkReader{b: b, n: s.num("chunk")}))
		return err
	})
}

var runes = map[string]rune{"-1": -1, "0": 0, "a": 'a', "z": 'z', "7f": 0x7f, "80": 0x80, "df": 0xdf, "131": 0x131, "d800": 0xd800,
	"10ffff": 0x10ffff, "110000": 0x110000, "maxint32": math.MaxInt32, "minint32": math.MinInt32}

func runRune(r *runner) {
	c, ok := runes[r.sh.str("r")]
	if !ok {
		panic(harnessBug("unknown rune " + r.sh.str("r")))
	}
	r.call("streams.RuneToUppercase", func() error { _ = streams.RuneToUppercase(c); return nil })
}

// --- metadata ---

type mdNested struct {
	Inner string `mapstructure:"inner"`
}

type mdSquash struct {
	Squashed string `mapstructure:"squashed" mapstructurealiases:"squashed_alias"`
}

type mdTarget struct {
	String        string               `mapstructure:"string" mapstructurealiases:"string_alias,text"`
	Int           int                  `mapstructure:"int" mapstructurealiases:"int_alias"`
	Uint8         uint8                `mapstructure:"uint8" mapstructurealiases:"uint8_alias"`
	Bool          bool                 `mapstructure:"bool" mapstructurealiases:"bool_alias"`
	BoolPtr       *bool                `mapstructure:"boolptr" mapstructurealiases:"boolptr_alias"`
	Float64       float64              `mapstructure:"float64" mapstructurealiases:"float64_alias"`
	Duration      time.Duration        `mapstructure:"duration" mapstructurealiases:"duration_alias"`
	MdDuration    metadata.Duration    `mapstructure:"mdduration" mapstructurealiases:"mdduration_alias"`
	MdDurationPtr *metadata.Duration   `mapstructure:"mddurationptr" mapstructurealiases:"mddurationptr_alias"`
	Strings       []string             `mapstructure:"strings" mapstructurealiases:"strings_alias"`
	StringsPtr    *[]string            `mapstructure:"stringsptr" mapstructurealiases:"stringsptr_alias"`
	Durations     []time.Duration      `mapstructure:"durations" mapstructurealiases:"durations_alias"`
	DurationsPtr  *[]time.Duration     `mapstructure:"durationsptr" mapstructurealiases:"durationsptr_alias"`
	ByteSize      metadata.ByteSize    `mapstructure:"bytesize" mapstructurealiases:"bytesize_alias"`
	ByteSizePtr   *metadata.ByteSize   `mapstructure:"bytesizeptr" mapstructurealiases:"bytesizeptr_alias"`
	Nested        mdNested             `mapstructure:"nested" mapstructurealiases:"nested_alias"`
	mdSquash      `mapstructure:",squash"`
	StringMap     map[string]string    `mapstructure:"stringmap" mapstructurealiases:"stringmap_alias"`
	Any           any                  `mapstructure:"any" mapstructurealiases:"any_alias"`
	Aliased       string               `mapstructure:"aliased" mapstructurealiases:"alias1,aliased_alias"`
}

func strVal(tok string) string {
	v := strings.TrimPrefix(tok, "s:")
	if v == "fullwidth1" {
		return "１"
	}
	return v
}

func mapVal(tok string) any {
	if strings.HasPrefix(tok, "s:") {
		return strVal(tok)
	}
	five := "5"
	pfive := &five
	var nilStr *string
	seven := 7
	pseven := &seven
	var nilInt *int
	switch tok {
	case "int":
		return 7
	case "float":
		return 1.5
	case "bool":
		return true
	case "nil":
		return nil
	case "nilptr":
		return nilStr
	case "ptr":
		return pfive
	case "ptrptr-nil":
		return &nilStr
	case "ptrptr":
		return &pfive
	case "intptr":
		return pseven
	case "intptr-nil":
		return nilInt
	case "intptrptr":
		return &pseven
	case "intptrptr-nil":
		return &nilInt
	case "map":
		return map[string]any{"inner": "x"}
	case "slice":
		return []any{"a", 1}
	case "maa":
		return map[any]any{"inner": "x", 5: "y"}
	case "duration":
		return 3 * time.Second
	case "bytes":
		return []byte("12")
	}
	panic(harnessBug("unknown value " + tok))
}

type propsStruct struct{ Properties map[string]string }
type propsOther struct{ Properties map[string]int }

func runMdDecode(r *runner) {
	s := r.sh
	field, val := s.str("field"), s.str("val")
	var keys []string
	switch s.str("key") {
	case "exact":
		keys = []string{field}
	case "upper":
		keys = []string{strings.ToUpper(field)}
	case "alias":
		keys = []string{field + "_alias"}
	case "dup-case":
		keys = []string{field, strings.ToUpper(field)}
	}
	mkInput := func() any {
		switch s.str("input") {
		case "mss":
			m := map[string]string{}
			for _, k := range keys {
				m[k] = strVal(val)
			}
			return m
		case "msa":
			m := map[string]any{}
			for _, k := range keys {
				m[k] = mapVal(val)
			}
			return m
		case "maa":
			m := map[any]any{}
			for _, k := range keys {
				m[k] = mapVal(val)
			}
			return m
		case "struct":
			m := map[string]string{}
			for _, k := range keys {
				m[k] = strVal(val)
			}
			return propsStruct{Properties: m}
		case "struct-other":
			m := map[string]int{}
			for _, k := range keys {
				m[k] = len(strVal(val))
			}
			return propsOther{Properties: m}
		case "json":
			var sb strings.Builder
			sb.WriteString("{")
			for i, k := range keys {
				if i > 0 {
					sb.WriteString(",")
				}
				sb.WriteString(`"` + k + `":"` + strings.ReplaceAll(strVal(val), `"`, `\"`) + `"`)
			}
			sb.WriteString("}")
			return sb.String()
		case "nil":
			return nil
		case "int":
			return 5
		case "slice":
			return []any{"a"}
		}
		panic(harnessBug("unknown input " + s.str("input")))
	}
	mkResult := func() any {
		switch s.str("result") {
		case "ptr":
			return &mdTarget{}
		case "ptrptr":
			t := &mdTarget{}
			return &t
		case "value":
			return mdTarget{}
		case "ptr-int":
			return new(int)
		}
		panic(harnessBug("unknown result " + s.str("result")))
	}
	in, res := mkInput(), mkResult()
	r.call("metadata.DecodeMetadata", func() error { return metadata.DecodeMetadata(in, res) })
	if s.str("input") == "mss" {
		in2, res2 := mkInput().(map[string]string), mkResult()
		r.call("metadata.Properties.Decode", func() error { return metadata.Properties(in2).Decode(res2) })
	}
}

func runMdMisc(r *runner) {
	tok := r.sh.str("tok")
	js := tok
	switch tok {
	case "q1s":
		js = `"1s"`
	case "q":
		js = `""`
	case "qabc":
		js = `"abc"`
	case "quote":
		js = `"`
	case "nilreceiver":
		js = `"1s"`
	}
	r.call("metadata.Duration.UnmarshalJSON", func() error {
		var d metadata.Duration
		return d.UnmarshalJSON([]byte(js))
	})
	durs := map[string]time.Duration{"0": 0, "1ns": 1, "1s": time.Second, "59s": 59 * time.Second, "60s": time.Minute, "3600s": time.Hour,
		"86400s": 24 * time.Hour, "-1s": -time.Second, "minint64": math.MinInt64, "maxint64": math.MaxInt64, "-86400s": -24 * time.Hour}
	if d, ok := durs[tok]; ok {
		r.call("metadata.Duration.ToISOString", func() error {
			_ = metadata.Duration{Duration: d}.ToISOString()
			_, err := metadata.Duration{Duration: d}.MarshalJSON()
			return err
		})
	}
	switch tok {
	case "nilreceiver":
		r.call("metadata.ByteSize.GetBytes", func() error { _, err := (*metadata.ByteSize)(nil).GetBytes(); return err })
	case "1", "1Ki", "1Ei", "9Ei", "1e30", "0.5", "-1", "0":
		var t mdTarget
		if err := metadata.DecodeMetadata(map[string]string{"bytesize": tok}, &t); err == nil {
			r.call("metadata.ByteSize.GetBytes", func() error { _, err := t.ByteSize.GetBytes(); return err })
		}
	}
	r.call("metadata.GetMetadataProperty", func() error {
		props := map[string]string{"Key": "v", "": "empty", "1s": "x"}
		_, ok := metadata.GetMetadataProperty(props, js, tok)
		_, _, _ = metadata.GetMetadataPropertyWithMatchedKey(props)
		_, ok2 := metadata.Properties(props).GetProperty(tok)
		if !ok && !ok2 {
			return errors.New("not found")
		}
		return nil
	})
}

// --- config ---

type cfgDecoder struct{ v string }

func (d *cfgDecoder) DecodeString(s string) error {
	if s == "bad" || s == "" {
		return errors.New("refused")
	}
	d.v = s
	return nil
}

// StringDecoder implemented with a VALUE receiver on a struct, a named map and a named slice type
type cfgVDecoder struct{ V string }

func (d cfgVDecoder) DecodeString(s string) error {
	if s == "bad" || s == "" {
		return errors.New("refused")
	}
	return nil
}

type cfgVMap map[string]string

func (m cfgVMap) DecodeString(s string) error {
	if s == "bad" || s == "" {
		return errors.New("refused")
	}
	if m != nil {
		m["v"] = s
	}
	return nil
}

type cfgVSlice []string

func (l cfgVSlice) DecodeString(s string) error {
	if s == "bad" || s == "" {
		return errors.New("refused")
	}
	return nil
}

type cfgNested struct {
	Inner string `mapstructure:"inner"`
}

type cfgTarget struct {
	String     string            `mapstructure:"string"`
	Int        int               `mapstructure:"int"`
	Int8       int8              `mapstructure:"int8"`
	Int16      int16             `mapstructure:"int16"`
	Int32      int32             `mapstructure:"int32"`
	Int64      int64             `mapstructure:"int64"`
	Uint       uint              `mapstructure:"uint"`
	Uint8      uint8             `mapstructure:"uint8"`
	Uint16     uint16            `mapstructure:"uint16"`
	Uint32     uint32            `mapstructure:"uint32"`
	Uint64     uint64            `mapstructure:"uint64"`
	Float32    float32           `mapstructure:"float32"`
	Float64    float64           `mapstructure:"float64"`
	Bool       bool              `mapstructure:"bool"`
	Duration   time.Duration     `mapstructure:"duration"`
	Time       time.Time         `mapstructure:"time"`
	Decoder    cfgDecoder        `mapstructure:"decoder"`
	DecoderPtr *cfgDecoder       `mapstructure:"decoderptr"`
	VDecoder       cfgVDecoder  `mapstructure:"vdecoder"`
	VDecoderPtr    *cfgVDecoder `mapstructure:"vdecoderptr"`
	VMapDecoder    cfgVMap      `mapstructure:"vmapdecoder"`
	VSliceDecoder  cfgVSlice    `mapstructure:"vslicedecoder"`
	VMapDecoderPtr *cfgVMap     `mapstructure:"vmapdecoderptr"`
	IntPtr     *int              `mapstructure:"intptr"`
	StringPtr  *string           `mapstructure:"stringptr"`
	Strings    []string          `mapstructure:"strings"`
	StringMap  map[string]string `mapstructure:"stringmap"`
	Nested     cfgNested         `mapstructure:"nested"`
	Any        any               `mapstructure:"any"`
}

func runCfgDecode(r *runner) {
	s := r.sh
	key, val := s.str("target"), s.str("val")
	var in any
	switch s.str("input") {
	case "msa":
		in = map[string]any{key: mapVal(val)}
	case "maa":
		in = map[any]any{key: mapVal(val)}
	case "typed":
		switch v := mapVal(val).(type) {
		case string:
			in = map[string]string{key: v}
		case *string:
			in = map[string]*string{key: v}
		case **string:
			in = map[string]**string{key: v}
		case *int:
			in = map[string]*int{key: v}
		case **int:
			in = map[string]**int{key: v}
		default:
			panic(harnessBug("no typed map for " + val))
		}
	}
	var out any
	switch s.str("out") {
	case "ptr":
		out = &cfgTarget{}
	case "value":
		out = cfgTarget{}
	case "mapptr":
		out = &map[string]any{}
	case "ptr-int":
		out = new(int)
	}
	r.call("config.Decode", func() error {
		err := config.Decode(in, out)
		if t, ok := out.(*cfgTarget); ok && err == nil {
			switch key {
			case "string":
				r.got = t.String
			case "int":
				r.got = strconv.Itoa(t.Int)
			case "duration":
				r.got = t.Duration.String()
			}
		}
		return err
	})
}

func mkTree(tok string) any {
	switch tok {
	case "nil":
		return nil
	case "scalar":
		return 5
	case "mss":
		return map[string]string{"keyA": "a", "xB": "b", "": "c", "éa": "d"}
	case "msa":
		return map[string]any{"keyA": "a", "xB": 1, "": nil, "éa": []any{1}}
	case "maa":
		return map[any]any{"keyA": "a", "xB": 1}
	case "maa-intkey":
		return map[any]any{"keyA": "a", 5: 1}
	case "maa-nested":
		return map[any]any{"keyA": map[any]any{"x": map[any]any{"y": 1}}}
	case "msa-maa":
		return map[string]any{"keyA": map[any]any{"x": 1}}
	case "msa-maa-intkey":
		return map[string]any{"keyA": map[any]any{1.5: 1}}
	case "slice-maa":
		return []any{map[any]any{"x": 1}, "s", nil}
	case "slice-maa-intkey":
		return []any{map[any]any{nil: 1}}
	case "nil-map":
		var m map[any]any
		return m
	case "nil-slice":
		var l []any
		return l
	case "empty":
		return map[string]any{}
	case "deep":
		var cur any = "leaf"
		for i := 0; i < 300; i++ {
			if i%2 == 0 {
				cur = map[any]any{"k": cur}
			} else {
				cur = []any{cur}
			}
		}
		return cur
	}
	panic(harnessBug("unknown tree " + tok))
}

func runCfgTree(r *runner) {
	s := r.sh
	prefix := s.str("prefix")
	if prefix == "unicode" {
		prefix = "é"
	}
	t1, t2 := mkTree(s.str("tree")), mkTree(s.str("tree"))
	r.call("config.Normalize", func() error { _, err := config.Normalize(t1); return err })
	r.call("config.PrefixedBy", func() error { _, err := config.PrefixedBy(t2, prefix); return err })
}

var _ = bytes.MinRead
