package c07

import (
	"bytes"
	"crypto/hmac"
	"crypto/sha256"
	"encoding/base64"
	"encoding/json"
	"errors"
	"io"
	"strconv"
	"strings"

	v1 "github.com/dapr/kit/schemes/enc/v1"
)

func init() {
	families["enc-header"] = runEncHeader
	families["enc-manifest"] = runEncManifest
	families["enc-wfk"] = runEncWfk
	families["enc-payload"] = runEncPayload
	families["enc-alg"] = runEncAlg
	families["enc-encrypt"] = runEncEncrypt
}

// encDoc is a valid encrypted document taken apart.
type encDoc struct {
	lines   [3]string // scheme name, manifest, MAC (without newlines)
	payload []byte
	fileKey []byte
}

// hkdf32 is HKDF-SHA256 (RFC 5869) with a 32-byte output.
func hkdf32(ikm, salt, info []byte) []byte {
	if salt == nil {
		salt = make([]byte, sha256.Size)
	}
	ext := hmac.New(sha256.New, salt)
	ext.Write(ikm)
	prk := ext.Sum(nil)
	exp := hmac.New(sha256.New, prk)
	exp.Write(info)
	exp.Write([]byte{1})
	return exp.Sum(nil)
}

// headerMAC is the MAC line a holder of fileKey computes over a manifest line.
func headerMAC(fileKey []byte, manifest string) string {
	h := hmac.New(sha256.New, hkdf32(fileKey, nil, []byte("header")))
	h.Write([]byte(v1.SchemeName + "\n" + manifest + "\n"))
	return base64.StdEncoding.EncodeToString(h.Sum(nil))
}

func identityWrap(dst *[]byte) v1.WrapKeyFn {
	return func(k []byte, alg, name string, nonce []byte) ([]byte, []byte, error) {
		*dst = append([]byte{}, k...)
		return append([]byte{}, k...), nil, nil
	}
}

func identityUnwrap(w []byte, alg, name string, nonce, tag []byte) ([]byte, error) {
	return append([]byte{}, w...), nil
}

// doc builds (once per process) a valid document with plaintext of n bytes.
func (fx *fixtures) doc(cipher v1.Cipher, n int) *encDoc {
	id := string(cipher) + ":" + strconv.Itoa(n)
	if d, ok := fx.docs[id]; ok {
		return d
	}
	d := &encDoc{}
	out, err := v1.Encrypt(bytes.NewReader(seqBytes(n, 1)), v1.EncryptOptions{WrapKeyFn: identityWrap(&d.fileKey), Algorithm: v1.KeyAlgorithmAES256KW, KeyName: "k1", Cipher: &cipher})
	if err != nil {
		panic(harnessBug("cannot build a valid document: " + err.Error()))
	}
	all, err := io.ReadAll(out)
	if err != nil {
		panic(harnessBug("cannot build a valid document: " + err.Error()))
	}
	parts := bytes.SplitN(all, []byte("\n"), 4)
	if len(parts) != 4 {
		panic(harnessBug("valid document has no 3-line header"))
	}
	d.lines = [3]string{string(parts[0]), string(parts[1]), string(parts[2])}
	d.payload = parts[3]
	if headerMAC(d.fileKey, d.lines[1]) != d.lines[2] {
		panic(harnessBug("independent header MAC differs from the document's"))
	}
	fx.docs[id] = d
	return d
}

func mutLine(l, mut string) string {
	switch mut {
	case "keep":
		return l + "\n"
	case "drop":
		return ""
	case "dup":
		return l + "\n" + l + "\n"
	case "empty":
		return "\n"
	case "long600":
		return l + strings.Repeat(" ", 600) + "\n"
	case "long70k":
		return l + strings.Repeat(" ", 70000) + "\n"
	case "crlf":
		return l + "\r\n"
	case "nonl":
		return l
	case "lead-space":
		return " " + l + "\n"
	}
	panic(harnessBug("unknown line mutation " + mut))
}

// the manifest text a reader would see for mutation mut of line l
func seenLine(l, mut string) string {
	switch mut {
	case "drop", "empty":
		return ""
	case "dup", "nonl", "keep":
		return l
	}
	return strings.TrimSuffix(mutLine(l, mut), "\n")
}

func decryptAll(doc []byte, unwrap v1.UnwrapKeyFn) error {
	out, err := v1.Decrypt(bytes.NewReader(doc), v1.DecryptOptions{UnwrapKeyFn: unwrap})
	if err != nil {
		return err
	}
	_, err = io.ReadAll(out)
	return err
}

func runEncHeader(r *runner) {
	s := r.sh
	d := r.fx.doc(v1.CipherAESGCM, 40)
	if s.str("payload") == "twoseg" {
		d = r.fx.doc(v1.CipherAESGCM, v1.SegmentSize+10)
	}
	mac := d.lines[2]
	if s.str("mac") == "resigned" {
		mac = headerMAC(d.fileKey, seenLine(d.lines[1], s.str("l2")))
	}
	var payload []byte
	switch s.str("payload") {
	case "none":
	case "seg", "twoseg":
		payload = d.payload
	case "seg-minus1":
		payload = d.payload[:len(d.payload)-1]
	case "seg-plus1":
		payload = append(append([]byte{}, d.payload...), 0)
	case "zeros15":
		payload = make([]byte, 15)
	case "zeros16":
		payload = make([]byte, 16)
	case "zeros17":
		payload = make([]byte, 17)
	default:
		panic(harnessBug("unknown payload " + s.str("payload")))
	}
	doc := []byte(mutLine(d.lines[0], s.str("l1")) + mutLine(d.lines[1], s.str("l2")) + mutLine(mac, s.str("l3")))
	doc = append(doc, payload...)
	r.call("enc.Decrypt", func() error { return decryptAll(doc, identityUnwrap) })
}

func manVal(tok string) (json.RawMessage, bool) {
	switch tok {
	case "drop":
		return nil, false
	case "null":
		return json.RawMessage("null"), true
	case "nhuge":
		return json.RawMessage("1000000000000000000000000000000"), true
	case "s":
		return json.RawMessage(`""`), true
	case "sx":
		return json.RawMessage(`"x"`), true
	case "s1":
		return json.RawMessage(`"1"`), true
	case "true":
		return json.RawMessage("true"), true
	case "arr":
		return json.RawMessage("[]"), true
	case "obj":
		return json.RawMessage("{}"), true
	}
	if strings.HasPrefix(tok, "b64:") {
		n, _ := strconv.Atoi(tok[4:])
		return json.RawMessage(`"` + base64.StdEncoding.EncodeToString(seqBytes(n, 1)) + `"`), true
	}
	if strings.HasPrefix(tok, "n") {
		return json.RawMessage(tok[1:]), true
	}
	panic(harnessBug("unknown manifest value " + tok))
}

func mutateManifest(base string, muts ...[2]string) string {
	var m map[string]json.RawMessage
	if err := json.Unmarshal([]byte(base), &m); err != nil {
		panic(harnessBug("valid manifest is not JSON: " + err.Error()))
	}
	for _, fv := range muts {
		v, ok := manVal(fv[1])
		if !ok {
			delete(m, fv[0])
		} else {
			m[fv[0]] = v
		}
	}
	b, err := json.Marshal(m)
	if err != nil {
		panic(harnessBug(err.Error()))
	}
	return string(b)
}

func runEncManifest(r *runner) {
	s := r.sh
	d := r.fx.doc(v1.CipherAESGCM, 40)
	man := mutateManifest(d.lines[1], [2]string{s.str("f1"), s.str("v1")}, [2]string{s.str("f2"), s.str("v2")})
	mac := d.lines[2]
	if s.str("mac") == "resigned" {
		mac = headerMAC(d.fileKey, man)
	}
	r.call("enc.Manifest", func() error {
		var m v1.Manifest
		if err := json.Unmarshal([]byte(man), &m); err != nil {
			return err
		}
		return m.Validate()
	})
	doc := append([]byte(d.lines[0]+"\n"+man+"\n"+mac+"\n"), d.payload...)
	r.call("enc.Decrypt", func() error { return decryptAll(doc, identityUnwrap) })
}

var kwNames = map[int]string{1: "A256KW", 2: "A128CBC-NOPAD", 3: "A192CBC-NOPAD", 4: "A256CBC-NOPAD", 5: "RSA-OAEP-256"}

// realUnwrap is an UnwrapKeyFn made of kit's own crypto.Decrypt.
func (fx *fixtures) realUnwrap() v1.UnwrapKeyFn {
	return func(w []byte, alg, name string, nonce, tag []byte) ([]byte, error) {
		var ops *keyOps
		switch alg {
		case "A256KW", "A256CBC-NOPAD":
			ops = fx.octKey(seqBytes(32, 1))
		case "A128CBC-NOPAD":
			ops = fx.octKey(seqBytes(16, 1))
		case "A192CBC-NOPAD":
			ops = fx.octKey(seqBytes(24, 1))
		case "RSA-OAEP-256":
			ops = fx.keyByID("rsa2048")
		default:
			return nil, errors.New("unsupported algorithm " + alg)
		}
		return ops.decrypt(w, alg, nonce, tag, nil)
	}
}

func runEncWfk(r *runner) {
	s := r.sh
	d := r.fx.doc(v1.CipherAESGCM, 40)
	kw, n := s.num("kw"), s.num("len")
	alg := kwNames[kw]
	unwrap := r.fx.realUnwrap()
	wfk := contentBytes(s.str("content"), n, func() []byte {
		return r.fx.memoize("wfk-valid-"+alg, func() []byte {
			switch kw {
			case 1:
				c, _, _ := r.fx.octKey(seqBytes(32, 1)).encrypt(d.fileKey, alg, nil, nil)
				return c
			case 5:
				c, _, _ := r.fx.keyByID("rsa2048").encrypt(d.fileKey, alg, nil, nil)
				return c
			}
			return d.fileKey
		})
	})
	// the key Decrypt will end up with: the unwrapped one, or 32 zero bytes
	fk := make([]byte, 32)
	safely(func() {
		if k, err := unwrap(append([]byte{}, wfk...), alg, "k1", nil, nil); err == nil && len(k) == 32 {
			fk = k
		}
	})
	man := mutateManifest(d.lines[1], [2]string{"kw", "n" + strconv.Itoa(kw)},
		[2]string{"wfk", "sx"})
	// splice the wrapped key in (manVal has no token for arbitrary bytes)
	if !strings.Contains(man, `"wfk":"x"`) {
		panic(harnessBug("cannot splice the wrapped key into the manifest"))
	}
	man = strings.Replace(man, `"wfk":"x"`, `"wfk":"`+base64.StdEncoding.EncodeToString(wfk)+`"`, 1)
	doc := append([]byte(d.lines[0]+"\n"+man+"\n"+headerMAC(fk, man)+"\n"), d.payload...)
	r.call("enc.Decrypt", func() error { return decryptAll(doc, unwrap) })
}

func runEncPayload(r *runner) {
	s := r.sh
	cipher := v1.CipherAESGCM
	if s.num("cipher") == 2 {
		cipher = v1.CipherChaCha20Poly1305
	}
	n := s.num("len")
	big := r.fx.doc(cipher, 2*v1.SegmentSize+500)
	var payload []byte
	if s.str("content") == "zeros" {
		payload = make([]byte, n)
	} else {
		payload = resize(big.payload, n)
	}
	doc := append([]byte(big.lines[0]+"\n"+big.lines[1]+"\n"+big.lines[2]+"\n"), payload...)
	r.call("enc.Decrypt", func() error { return decryptAll(doc, identityUnwrap) })
}

func algTok(tok string) string {
	switch tok {
	case "q1":
		return `"1"`
	case "sp1":
		return " 1"
	}
	return tok
}

func runEncAlg(r *runner) {
	tok := algTok(r.sh.str("tok"))
	id, idErr := strconv.Atoi(tok)
	r.call("enc.KeyAlgorithm.Validate", func() error {
		_ = v1.KeyAlgorithm(tok).ID()
		_, _ = v1.KeyAlgorithm(tok).MarshalJSON()
		_, err := v1.KeyAlgorithm(tok).Validate()
		return err
	})
	r.call("enc.KeyAlgorithm.UnmarshalJSON", func() error {
		var a, b v1.KeyAlgorithm
		_ = json.Unmarshal([]byte(tok), &b)
		return a.UnmarshalJSON([]byte(tok))
	})
	r.call("enc.Cipher.Validate", func() error {
		_ = v1.Cipher(tok).ID()
		_, _ = v1.Cipher(tok).MarshalJSON()
		_, err := v1.Cipher(tok).Validate()
		return err
	})
	r.call("enc.Cipher.UnmarshalJSON", func() error {
		var a, b v1.Cipher
		_ = json.Unmarshal([]byte(tok), &b)
		return a.UnmarshalJSON([]byte(tok))
	})
	if idErr == nil {
		r.call("enc.NewKeyAlgorithmFromID", func() error { _, err := v1.NewKeyAlgorithmFromID(id); return err })
		r.call("enc.NewCipherFromID", func() error { _, err := v1.NewCipherFromID(id); return err })
	}
}

func runEncEncrypt(r *runner) {
	s := r.sh
	opts := v1.EncryptOptions{Algorithm: v1.KeyAlgorithm(s.str("alg")), KeyName: s.str("keyname")}
	if c := s.str("cipher"); c != "nil" {
		cc := v1.Cipher(c)
		opts.Cipher = &cc
	}
	var fk []byte
	switch s.str("wrap") {
	case "nil":
	case "identity":
		opts.WrapKeyFn = identityWrap(&fk)
	case "error":
		opts.WrapKeyFn = func([]byte, string, string, []byte) ([]byte, []byte, error) {
			return nil, nil, errors.New("wrap failed")
		}
	case "short":
		opts.WrapKeyFn = func([]byte, string, string, []byte) ([]byte, []byte, error) { return []byte{1, 2, 3}, nil, nil }
	case "empty":
		opts.WrapKeyFn = func([]byte, string, string, []byte) ([]byte, []byte, error) { return nil, nil, nil }
	default:
		panic(harnessBug("unknown wrap " + s.str("wrap")))
	}
	in := seqBytes(s.num("n"), 1)
	r.call("enc.Encrypt", func() error {
		out, err := v1.Encrypt(bytes.NewReader(in), opts)
		if err != nil {
			return err
		}
		_, err = io.ReadAll(out)
		return err
	})
}
