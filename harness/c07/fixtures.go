package c07

import (
	"crypto"
	"crypto/ecdh"
	"crypto/ecdsa"
	"crypto/ed25519"
	"crypto/elliptic"
	"crypto/rand"
	"crypto/rsa"
	"crypto/x509"
	"crypto/x509/pkix"
	"encoding/base64"
	"encoding/json"
	"encoding/pem"
	"fmt"
	"math/big"
	"os"
	"strconv"
	"time"

	kcrypto "github.com/dapr/kit/crypto"
)

// fixtures is the key material shared by parent and children: generated once
// by the parent, passed as PKCS#8 / certificate DER.
type fixtures struct {
	priv  map[string]any    // rsa, rsa1024, ec-p224, ec-p256, ec-p384, ec-p521, ed25519, x25519
	certs map[string][]byte // root, inter, leaf, rsa-leaf, ed-leaf (DER)
	ops   map[string]*keyOps
	docs  map[string]*encDoc
	memo  map[string][]byte
}

type fixtureFile struct {
	Priv  map[string]string `json:"priv"`
	Certs map[string]string `json:"certs"`
}

func generateFixtures(path string) error {
	ff := fixtureFile{Priv: map[string]string{}, Certs: map[string]string{}}
	priv := map[string]any{}
	var err error
	gen := func(name string, f func() (any, error)) {
		if err != nil {
			return
		}
		var k any
		k, err = f()
		if err != nil {
			err = fmt.Errorf("%s: %w", name, err)
			return
		}
		priv[name] = k
		var der []byte
		der, err = x509.MarshalPKCS8PrivateKey(k)
		ff.Priv[name] = base64.StdEncoding.EncodeToString(der)
	}
	gen("rsa", func() (any, error) { return rsa.GenerateKey(rand.Reader, 2048) })
	gen("rsa1024", func() (any, error) { return rsa.GenerateKey(rand.Reader, 1024) })
	gen("ec-p224", func() (any, error) { return ecdsa.GenerateKey(elliptic.P224(), rand.Reader) })
	gen("ec-p256", func() (any, error) { return ecdsa.GenerateKey(elliptic.P256(), rand.Reader) })
	gen("ec-p384", func() (any, error) { return ecdsa.GenerateKey(elliptic.P384(), rand.Reader) })
	gen("ec-p521", func() (any, error) { return ecdsa.GenerateKey(elliptic.P521(), rand.Reader) })
	gen("ed25519", func() (any, error) { _, k, e := ed25519.GenerateKey(rand.Reader); return k, e })
	gen("x25519", func() (any, error) { return ecdh.X25519().GenerateKey(rand.Reader) })
	if err != nil {
		return err
	}
	// an ECDSA P-256 chain root -> inter -> leaf, plus RSA / Ed25519 leaves signed by root
	mk := func(cn string, serial int64, ca bool, pub any, parent *x509.Certificate, signer any) (*x509.Certificate, []byte, error) {
		t := &x509.Certificate{SerialNumber: big.NewInt(serial), Subject: pkix.Name{CommonName: cn},
			NotBefore: time.Now().Add(-time.Hour), NotAfter: time.Now().Add(24 * time.Hour),
			IsCA: ca, BasicConstraintsValid: true, KeyUsage: x509.KeyUsageDigitalSignature | x509.KeyUsageCertSign}
		if parent == nil {
			parent = t
		}
		der, e := x509.CreateCertificate(rand.Reader, t, parent, pub, signer)
		if e != nil {
			return nil, nil, e
		}
		c, e := x509.ParseCertificate(der)
		return c, der, e
	}
	rootKey, _ := ecdsa.GenerateKey(elliptic.P256(), rand.Reader)
	interKey, _ := ecdsa.GenerateKey(elliptic.P256(), rand.Reader)
	root, rootDER, e := mk("root", 1, true, &rootKey.PublicKey, nil, rootKey)
	if e != nil {
		return e
	}
	inter, interDER, e := mk("inter", 2, true, &interKey.PublicKey, root, rootKey)
	if e != nil {
		return e
	}
	_, leafDER, e := mk("leaf", 3, false, &priv["ec-p256"].(*ecdsa.PrivateKey).PublicKey, inter, interKey)
	if e != nil {
		return e
	}
	_, rsaLeafDER, e := mk("rsa-leaf", 4, false, &priv["rsa"].(*rsa.PrivateKey).PublicKey, root, rootKey)
	if e != nil {
		return e
	}
	_, edLeafDER, e := mk("ed-leaf", 5, false, priv["ed25519"].(ed25519.PrivateKey).Public(), root, rootKey)
	if e != nil {
		return e
	}
	for n, d := range map[string][]byte{"root": rootDER, "inter": interDER, "leaf": leafDER, "rsa-leaf": rsaLeafDER, "ed-leaf": edLeafDER} {
		ff.Certs[n] = base64.StdEncoding.EncodeToString(d)
	}
	b, _ := json.Marshal(ff)
	return os.WriteFile(path, b, 0o644)
}

func loadFixtures(path string) (*fixtures, error) {
	b, err := os.ReadFile(path)
	if err != nil {
		return nil, err
	}
	var ff fixtureFile
	if err := json.Unmarshal(b, &ff); err != nil {
		return nil, err
	}
	fx := &fixtures{priv: map[string]any{}, certs: map[string][]byte{}, ops: map[string]*keyOps{}, docs: map[string]*encDoc{}, memo: map[string][]byte{}}
	for n, s := range ff.Priv {
		der, _ := base64.StdEncoding.DecodeString(s)
		k, err := x509.ParsePKCS8PrivateKey(der)
		if err != nil {
			return nil, fmt.Errorf("%s: %w", n, err)
		}
		fx.priv[n] = k
	}
	for n, s := range ff.Certs {
		fx.certs[n], _ = base64.StdEncoding.DecodeString(s)
	}
	return fx, nil
}

func must[T any](v T, err error) T {
	if err != nil {
		panic(harnessBug("fixture: " + err.Error()))
	}
	return v
}

func publicOf(k any) any {
	switch x := k.(type) {
	case *rsa.PrivateKey:
		return &x.PublicKey
	case *ecdsa.PrivateKey:
		return &x.PublicKey
	case ed25519.PrivateKey:
		return x.Public()
	case *ed25519.PrivateKey:
		return x.Public()
	case *ecdh.PrivateKey:
		return x.PublicKey()
	}
	return k
}

func pemOf(label string, der []byte) []byte {
	return pem.EncodeToMemory(&pem.Block{Type: label, Bytes: der})
}

// keyOps wraps a parsed jwk.Key (the type is never named: no third-party import).
type keyOps struct {
	encrypt   func(pt []byte, alg string, nonce, aad []byte) ([]byte, []byte, error)
	decrypt   func(ct []byte, alg string, nonce, tag, aad []byte) ([]byte, error)
	encSym    func(pt []byte, alg string, nonce, aad []byte) ([]byte, []byte, error)
	decSym    func(ct []byte, alg string, nonce, tag, aad []byte) ([]byte, error)
	encPub    func(pt []byte, alg string, aad []byte) ([]byte, error)
	decPriv   func(ct []byte, alg string, aad []byte) ([]byte, error)
	sign      func(digest []byte, alg string) ([]byte, error)
	verify    func(digest, sig []byte, alg string) (bool, error)
	serialize func() ([]byte, error)
}

// parseKeyOps calls the real crypto.ParseKey and closes over the result.
func parseKeyOps(raw []byte, contentType string) (*keyOps, error) {
	k, err := kcrypto.ParseKey(raw, contentType)
	if err != nil {
		return nil, err
	}
	if k == nil {
		return nil, fmt.Errorf("ParseKey returned a nil key and a nil error")
	}
	return &keyOps{
		encrypt: func(pt []byte, alg string, nonce, aad []byte) ([]byte, []byte, error) {
			return kcrypto.Encrypt(pt, alg, k, nonce, aad)
		},
		decrypt: func(ct []byte, alg string, nonce, tag, aad []byte) ([]byte, error) {
			return kcrypto.Decrypt(ct, alg, k, nonce, tag, aad)
		},
		encSym: func(pt []byte, alg string, nonce, aad []byte) ([]byte, []byte, error) {
			return kcrypto.EncryptSymmetric(pt, alg, k, nonce, aad)
		},
		decSym: func(ct []byte, alg string, nonce, tag, aad []byte) ([]byte, error) {
			return kcrypto.DecryptSymmetric(ct, alg, k, nonce, tag, aad)
		},
		encPub:    func(pt []byte, alg string, aad []byte) ([]byte, error) { return kcrypto.EncryptPublicKey(pt, alg, k, aad) },
		decPriv:   func(ct []byte, alg string, aad []byte) ([]byte, error) { return kcrypto.DecryptPrivateKey(ct, alg, k, aad) },
		sign:      func(d []byte, alg string) ([]byte, error) { return kcrypto.SignPrivateKey(d, alg, k) },
		verify:    func(d, s []byte, alg string) (bool, error) { return kcrypto.VerifyPublicKey(d, s, alg, k) },
		serialize: func() ([]byte, error) { return kcrypto.SerializeKey(k) },
	}, nil
}

// octKey returns the ops of a symmetric key with exactly these bytes (nil when
// a jwk cannot hold them, e.g. the empty key).
func (fx *fixtures) octKey(b []byte) *keyOps {
	id := "oct:" + string(b)
	if o, ok := fx.ops[id]; ok {
		return o
	}
	var o *keyOps
	if len(b) > 0 {
		// a JWK states the bytes unambiguously
		j := `{"kty":"oct","k":"` + base64.RawURLEncoding.EncodeToString(b) + `"}`
		o, _ = parseKeyOps([]byte(j), "application/json")
	}
	fx.ops[id] = o
	return o
}

// seedOff shifts every generated byte pattern (VERIF_SEED): different seeds use different key / data bytes.
var seedOff = func() byte {
	n, _ := strconv.Atoi(os.Getenv("VERIF_SEED"))
	if n < 1 {
		n = 1
	}
	return byte((n - 1) * 37)
}()

func seqBytes(n int, start byte) []byte {
	b := make([]byte, n)
	for i := range b {
		b[i] = start + seedOff + byte(i)
	}
	return b
}

// key fixtures named as in the grammar (KeyIds).
func (fx *fixtures) keyByID(id string) *keyOps {
	if o, ok := fx.ops[id]; ok {
		return o
	}
	var o *keyOps
	privName := map[string]string{"rsa2048": "rsa", "rsa2048-pub": "rsa", "rsa1024": "rsa1024", "ec-p224": "ec-p224", "ec-p256": "ec-p256",
		"ec-p256-pub": "ec-p256", "ec-p384": "ec-p384", "ec-p521": "ec-p521", "ed25519": "ed25519", "ed25519-pub": "ed25519", "x25519": "x25519"}
	switch {
	case id == "oct32":
		o = fx.octKey(seqBytes(32, 1))
	case len(id) > 4 && id[len(id)-4:] == "-pub":
		der := must(x509.MarshalPKIXPublicKey(publicOf(fx.priv[privName[id]])))
		o = must(parseKeyOps(pemOf("PUBLIC KEY", der), "application/x-pem-file"))
	case id == "x25519":
		// jwx cannot import an X25519 key from PEM; state it as a JWK
		k := fx.priv["x25519"].(*ecdh.PrivateKey)
		j := `{"kty":"OKP","crv":"X25519","x":"` + base64.RawURLEncoding.EncodeToString(k.PublicKey().Bytes()) + `","d":"` + base64.RawURLEncoding.EncodeToString(k.Bytes()) + `"}`
		o = must(parseKeyOps([]byte(j), "application/json"))
	default:
		der := must(x509.MarshalPKCS8PrivateKey(fx.priv[privName[id]]))
		o = must(parseKeyOps(pemOf("PRIVATE KEY", der), "application/x-pem-file"))
	}
	fx.ops[id] = o
	return o
}

// privateCounterpart of a key fixture id (for producing valid signatures / ciphertexts).
func privateCounterpart(id string) string {
	switch id {
	case "rsa2048-pub":
		return "rsa2048"
	case "ec-p256-pub":
		return "ec-p256"
	case "ed25519-pub":
		return "ed25519"
	}
	return id
}

var _ = crypto.SHA256
