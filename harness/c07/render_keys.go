package c07

import (
	"crypto/ecdh"
	"crypto/ecdsa"
	"crypto/ed25519"
	"crypto/rsa"
	"crypto/x509"
	"encoding/base64"
	"encoding/json"
	"errors"
	"strings"

	kpem "github.com/dapr/kit/crypto/pem"
	"github.com/dapr/kit/utils"
)

func init() {
	families["key-blob"] = runKeyBlob
	families["key-ws"] = runKeyWs
	families["key-raw"] = runKeyRaw
	families["jwk-mut"] = runJwkMut
	families["certs"] = runCerts
	families["key-obj"] = runKeyObj
}

func (fx *fixtures) keyDER(kt, enc string) []byte {
	return fx.memoize("der-"+kt+"-"+enc, func() []byte {
		k := fx.priv[kt]
		switch enc {
		case "pkcs8":
			return must(x509.MarshalPKCS8PrivateKey(k))
		case "pkcs1":
			return x509.MarshalPKCS1PrivateKey(k.(*rsa.PrivateKey))
		case "sec1":
			return must(x509.MarshalECPrivateKey(k.(*ecdsa.PrivateKey)))
		case "pkix":
			return must(x509.MarshalPKIXPublicKey(publicOf(k)))
		case "pkcs1pub":
			return x509.MarshalPKCS1PublicKey(&k.(*rsa.PrivateKey).PublicKey)
		}
		panic(harnessBug("unknown encoding " + enc))
	})
}

func cutBlob(b []byte, cut string) []byte {
	switch cut {
	case "full", "body-flip":
		return b
	case "minus1":
		if len(b) > 0 {
			return b[:len(b)-1]
		}
		return b
	case "half":
		return b[:len(b)/2]
	case "head12":
		if len(b) > 12 {
			return b[:12]
		}
		return b
	case "head1":
		return b[:1]
	case "garbage-after":
		return append(append([]byte{}, b...), []byte("\ngarbage!!\x00\xff")...)
	case "minus-line":
		t := strings.TrimRight(string(b), "\n")
		if i := strings.LastIndex(t, "\n"); i >= 0 {
			return []byte(t[:i+1])
		}
		return b[:len(b)/3]
	}
	panic(harnessBug("unknown cut " + cut))
}

// parseAndSerialize: crypto.ParseKey, then crypto.SerializeKey on a parsed key.
func parseAndSerialize(r *runner, blob []byte, ct string) *keyOps {
	var ops *keyOps
	r.call("crypto.ParseKey", func() error {
		o, err := parseKeyOps(blob, ct)
		ops = o
		return err
	})
	if ops != nil && entryIndex(r.sh, "crypto.SerializeKey") >= 0 {
		r.call("crypto.SerializeKey", func() error { _, err := ops.serialize(); return err })
	}
	return ops
}

func runKeyBlob(r *runner) {
	s := r.sh
	kt := s.str("kt")
	if kt == "rsa" {
		kt = "rsa"
	}
	der := append([]byte{}, r.fx.keyDER(kt, s.str("enc"))...)
	if s.str("cut") == "body-flip" {
		der[len(der)/2] ^= 0x55
	}
	var blob []byte
	switch s.str("wrap") {
	case "pem":
		blob = pemOf(s.str("label"), der)
	case "der":
		blob = der
	case "b64":
		blob = []byte(base64.StdEncoding.EncodeToString(der))
	case "b64url":
		blob = []byte(base64.RawURLEncoding.EncodeToString(der))
	}
	blob = cutBlob(blob, s.str("cut"))
	parseAndSerialize(r, append([]byte{}, blob...), s.str("ct"))
	if s.str("ct") != "" {
		return
	}
	r.call("pem.DecodePEMPrivateKey", func() error { _, err := kpem.DecodePEMPrivateKey(append([]byte{}, blob...)); return err })
	r.call("pem.DecodePEMCertificates", func() error { _, err := kpem.DecodePEMCertificates(append([]byte{}, blob...)); return err })
	r.call("utils.IsValidPEM", func() error {
		if !utils.IsValidPEM(string(blob)) {
			return errors.New("not PEM")
		}
		return nil
	})
	r.call("utils.GetPEM", func() error { _, err := utils.GetPEM(string(blob)); return err })
}

func wsUnit(tok string) string {
	return sepOf(tok)
}

func runKeyWs(r *runner) {
	s := r.sh
	blob := strings.Repeat(wsUnit(s.str("ws")), s.num("n"))
	switch s.str("then") {
	case "none":
	case "brace":
		blob += "{"
	case "dashes":
		blob += "-----"
	case "jwk":
		blob += `{"kty":"oct","k":"AQIDBAUGBwgJCgsMDQ4PEA"}`
	case "pem":
		blob += string(pemOf("PRIVATE KEY", r.fx.keyDER("ec-p256", "pkcs8")))
	case "b64":
		blob += base64.StdEncoding.EncodeToString(seqBytes(32, 1))
	case "bin":
		blob += string(seqBytes(32, 0x80))
	default:
		panic(harnessBug("unknown then " + s.str("then")))
	}
	parseAndSerialize(r, []byte(blob), s.str("ct"))
	r.call("pem.DecodePEMPrivateKey", func() error { _, err := kpem.DecodePEMPrivateKey([]byte(blob)); return err })
	r.call("utils.IsValidPEM", func() error {
		if !utils.IsValidPEM(blob) {
			return errors.New("not PEM")
		}
		return nil
	})
}

func runKeyRaw(r *runner) {
	s := r.sh
	n := s.num("n")
	var b []byte
	switch s.str("fill") {
	case "zero":
		b = make([]byte, n)
	case "A":
		b = fill(n, 'A')
	case "eq":
		b = fill(n, '=')
	case "brace":
		b = fill(n, 'A')
		if n > 0 {
			b[0] = '{'
		}
	case "dash":
		b = fill(n, 'A')
		copy(b, "-----")
	case "Anl":
		b = fill(n, 'A')
		if n > 0 {
			b[n-1] = '\n'
		}
	case "ff":
		b = fill(n, 0xFF)
	case "b64url":
		b = []byte(strings.Repeat("-_", n)[:n])
	default:
		panic(harnessBug("unknown fill " + s.str("fill")))
	}
	parseAndSerialize(r, b, s.str("ct"))
}

// base JWKs, built without the library under test
func b64u(b []byte) string { return base64.RawURLEncoding.EncodeToString(b) }

func (fx *fixtures) baseJWK(base string) map[string]any {
	rk := fx.priv["rsa"].(*rsa.PrivateKey)
	ek := fx.priv["ec-p256"].(*ecdsa.PrivateKey)
	ed := fx.priv["ed25519"].(ed25519.PrivateKey)
	xk := fx.priv["x25519"].(*ecdh.PrivateKey)
	pad := func(b []byte, n int) []byte {
		if len(b) >= n {
			return b
		}
		return append(make([]byte, n-len(b)), b...)
	}
	switch base {
	case "rsa-priv", "rsa-pub":
		m := map[string]any{"kty": "RSA", "n": b64u(rk.N.Bytes()), "e": "AQAB", "kid": "kid-1"}
		if base == "rsa-priv" {
			rk.Precompute()
			m["d"] = b64u(rk.D.Bytes())
			m["p"] = b64u(rk.Primes[0].Bytes())
			m["q"] = b64u(rk.Primes[1].Bytes())
			m["dp"] = b64u(rk.Precomputed.Dp.Bytes())
			m["dq"] = b64u(rk.Precomputed.Dq.Bytes())
			m["qi"] = b64u(rk.Precomputed.Qinv.Bytes())
		}
		return m
	case "ec-priv", "ec-pub":
		m := map[string]any{"kty": "EC", "crv": "P-256", "x": b64u(pad(ek.X.Bytes(), 32)), "y": b64u(pad(ek.Y.Bytes(), 32))}
		if base == "ec-priv" {
			m["d"] = b64u(pad(ek.D.Bytes(), 32))
		}
		return m
	case "ed-priv", "ed-pub":
		m := map[string]any{"kty": "OKP", "crv": "Ed25519", "x": b64u(ed.Public().(ed25519.PublicKey))}
		if base == "ed-priv" {
			m["d"] = b64u(ed.Seed())
		}
		return m
	case "x25519-priv":
		return map[string]any{"kty": "OKP", "crv": "X25519", "x": b64u(xk.PublicKey().Bytes()), "d": b64u(xk.Bytes())}
	case "oct":
		return map[string]any{"kty": "oct", "k": b64u(seqBytes(32, 1)), "alg": "A256GCM"}
	}
	panic(harnessBug("unknown JWK base " + base))
}

func (fx *fixtures) otherValid(base, field string, cur any) any {
	switch field {
	case "kty":
		order := []string{"RSA", "EC", "OKP", "oct"}
		for i, k := range order {
			if k == cur {
				return order[(i+1)%len(order)]
			}
		}
		return "EC"
	case "crv":
		switch cur {
		case "P-256":
			return "P-384"
		case "Ed25519":
			return "X25519"
		case "X25519":
			return "Ed25519"
		}
		return "P-256"
	case "n":
		return b64u(fx.priv["rsa1024"].(*rsa.PrivateKey).N.Bytes())
	case "x", "y", "d":
		k := fx.priv["ec-p384"].(*ecdsa.PrivateKey)
		if field == "d" {
			return b64u(k.D.Bytes())
		}
		return b64u(k.X.Bytes())
	case "p", "q", "dp", "dq", "qi":
		return b64u(fx.priv["rsa1024"].(*rsa.PrivateKey).Primes[0].Bytes())
	case "e":
		return "Aw"
	case "k":
		return b64u(seqBytes(16, 1))
	case "alg":
		return "RS256"
	case "use":
		return "enc"
	case "key_ops":
		return []any{"sign", "verify"}
	case "kid":
		return "kid-2"
	case "x5c":
		return []any{base64.StdEncoding.EncodeToString(fx.certs["leaf"])}
	}
	return "AQAB"
}

func runJwkMut(r *runner) {
	s := r.sh
	m := r.fx.baseJWK(s.str("base"))
	f := s.str("field")
	switch s.str("mut") {
	case "none":
	case "drop":
		delete(m, f)
	case "empty":
		m[f] = ""
	case "json-null":
		m[f] = nil
	case "number":
		m[f] = 5
	case "bool":
		m[f] = true
	case "array":
		m[f] = []any{}
	case "object":
		m[f] = map[string]any{}
	case "short":
		m[f] = "AA"
	case "badb64":
		m[f] = "!!!"
	case "long":
		m[f] = b64u(seqBytes(600, 1))
	case "other-valid":
		m[f] = r.fx.otherValid(s.str("base"), f, m[f])
	default:
		panic(harnessBug("unknown JWK mutation " + s.str("mut")))
	}
	blob, err := json.Marshal(m)
	if err != nil {
		panic(harnessBug(err.Error()))
	}
	ops := parseAndSerialize(r, blob, "application/json")
	if ops == nil {
		return
	}
	// the parsed key is used with the operations natural for each key type
	first := func(errs ...error) error {
		for _, e := range errs {
			if e != nil {
				return e
			}
		}
		return nil
	}
	r.call("crypto.Encrypt", func() error {
		_, _, e1 := ops.encrypt(seqBytes(16, 1), "RSA-OAEP", nil, nil)
		_, _, e2 := ops.encrypt(seqBytes(16, 1), "A256GCM", seqBytes(12, 9), nil)
		_, _, e3 := ops.encrypt(seqBytes(16, 1), "RSA1_5", nil, nil)
		return first(e1, e2, e3)
	})
	r.call("crypto.Decrypt", func() error {
		_, e1 := ops.decrypt(make([]byte, 256), "RSA-OAEP-256", nil, nil, nil)
		_, e2 := ops.decrypt(make([]byte, 40), "A256KW", nil, nil, nil)
		_, e3 := ops.decrypt(make([]byte, 256), "RSA1_5", nil, nil, nil)
		return first(e1, e2, e3)
	})
	r.call("crypto.SignPrivateKey", func() error {
		_, e1 := ops.sign(seqBytes(32, 1), "PS256")
		_, e2 := ops.sign(seqBytes(32, 1), "RS256")
		_, e3 := ops.sign(seqBytes(32, 1), "ES256")
		_, e4 := ops.sign(seqBytes(32, 1), "EdDSA")
		return first(e1, e2, e3, e4)
	})
	r.call("crypto.VerifyPublicKey", func() error {
		_, e1 := ops.verify(seqBytes(32, 1), make([]byte, 256), "RS256")
		_, e2 := ops.verify(seqBytes(32, 1), make([]byte, 256), "PS256")
		_, e3 := ops.verify(seqBytes(32, 1), make([]byte, 64), "ES256")
		_, e4 := ops.verify(seqBytes(32, 1), make([]byte, 64), "EdDSA")
		return first(e1, e2, e3, e4)
	})
}

func (fx *fixtures) certBlock(tok string) string {
	switch tok {
	case "root", "inter", "leaf", "rsa-leaf", "ed-leaf":
		return string(pemOf("CERTIFICATE", fx.certs[tok]))
	case "leaf-cut":
		d := fx.certs["leaf"]
		return string(pemOf("CERTIFICATE", d[:len(d)-7]))
	case "key":
		return string(pemOf("PRIVATE KEY", fx.keyDER("ec-p256", "pkcs8")))
	case "text":
		return "subject=CN = leaf, issuer=CN = inter\n"
	case "empty":
		return "-----BEGIN CERTIFICATE-----\n-----END CERTIFICATE-----\n"
	case "badb64":
		return "-----BEGIN CERTIFICATE-----\nMIIB!!!!????\n-----END CERTIFICATE-----\n"
	}
	panic(harnessBug("unknown block " + tok))
}

func runCerts(r *runner) {
	s := r.sh
	var sb strings.Builder
	for _, b := range s.strs("blocks") {
		sb.WriteString(r.fx.certBlock(b))
	}
	switch s.str("tail") {
	case "garbage":
		sb.WriteString("garbage\x00\xff-----BEGIN")
	case "nl":
		sb.WriteString("\n\n")
	}
	blob := []byte(sb.String())
	switch s.str("cut") {
	case "minus1":
		if len(blob) > 0 {
			blob = blob[:len(blob)-1]
		}
	case "half":
		blob = blob[:len(blob)/2]
	}
	var certs []*x509.Certificate
	r.call("pem.DecodePEMCertificates", func() error {
		c, err := kpem.DecodePEMCertificates(append([]byte{}, blob...))
		certs = c
		return err
	})
	r.call("pem.DecodePEMCertificatesChain", func() error {
		_, err := kpem.DecodePEMCertificatesChain(append([]byte{}, blob...))
		return err
	})
	withNil := append(append([]*x509.Certificate{nil}, certs...), nil)
	r.call("pem.EncodeX509Chain", func() error {
		_, e1 := kpem.EncodeX509Chain(certs)
		_, e2 := kpem.EncodeX509Chain(withNil)
		if e1 != nil {
			return e1
		}
		return e2
	})
	if len(certs) > 0 {
		r.call("pem.EncodeX509", func() error {
			for _, c := range certs {
				if _, err := kpem.EncodeX509(c); err != nil {
					return err
				}
			}
			return nil
		})
	}
	r.call("utils.IsValidPEM", func() error {
		if !utils.IsValidPEM(string(blob)) {
			return errors.New("not PEM")
		}
		return nil
	})
}

func (fx *fixtures) keyObj(tok string) any {
	switch tok {
	case "rsa":
		return fx.priv["rsa"]
	case "rsa-pub":
		return publicOf(fx.priv["rsa"])
	case "ec-p224", "ec-p256", "ec-p384", "ec-p521":
		return fx.priv[tok]
	case "ec-pub":
		return publicOf(fx.priv["ec-p256"])
	case "ed25519-ptr":
		k := fx.priv["ed25519"].(ed25519.PrivateKey)
		return &k
	case "ed25519-value":
		return fx.priv["ed25519"]
	case "ed25519-pub":
		return publicOf(fx.priv["ed25519"])
	case "x25519":
		return fx.priv["x25519"]
	case "x25519-pub":
		return publicOf(fx.priv["x25519"])
	case "bytes":
		return []byte("0123456789abcdef")
	case "string":
		return "key"
	case "nil":
		return nil
	}
	panic(harnessBug("unknown key object " + tok))
}

func runKeyObj(r *runner) {
	a, b := r.fx.keyObj(r.sh.str("a")), r.fx.keyObj(r.sh.str("b"))
	r.call("pem.EncodePrivateKey", func() error { _, err := kpem.EncodePrivateKey(a); return err })
	pa, pb := publicOf(a), publicOf(b)
	r.call("pem.PublicKeysEqual", func() error { _, err := kpem.PublicKeysEqual(pa, pb); return err })
}
