// X05 (extension check) — retry.NotifyRecover / NotifyRecoverWithData and the
// retry.Config decoding.
//
//   - spec/ext/Retry/RetryModel.tla: implementation-shaped model of the retry loop,
//     model-checked against the contract monitor (RetryContract.tla) for every case of
//     RetryCases.tla (operation outcome scripts x MaxRetries x cancellation point); TLC
//     writes the case table with the expected outcome (cases.ndjson).
//   - every case is replayed on the REAL NotifyRecover with a scripted operation and the
//     real back-off policies of Config.NewBackOff[WithContext]: a zero-wait constant policy
//     on the real clock, and a constant and an exponential policy inside a testing/synctest
//     bubble (virtual clock: the waits are exact).  Every run is recorded and judged by TLC
//     (TraceRetry.tla: contract monitor + the expectation re-derived from the case).
//   - timing scenarios (constant / exponential with MaxElapsedTime / package defaults) are
//     recorded on the virtual clock and judged against the interval laws of the contract.
//   - spec/ext/Retry/DecodeModel.tla enumerates the Config decoding case table
//     (decode_cases.ndjson); each case is performed on the real DecodeConfig /
//     DecodeConfigWithPrefix and judged by TLC (TraceDecode.tla).
package x05

import (
	"bytes"
	"context"
	"encoding/json"
	"errors"
	"fmt"
	"math"
	"math/rand"
	"os"
	"sort"
	"strconv"
	"strings"
	"sync"
	"testing"
	"testing/synctest"
	"time"

	"github.com/cenkalti/backoff/v4"

	"github.com/dapr/kit/retry"

	"verifharness/internal/ev"
	"verifharness/internal/tlc"
	"verifharness/internal/tv"
)

const specDir = "ext/Retry"

// ---------------------------------------------------------------- NotifyRecover

// Case is one line of cases.ndjson (RetryCases!Describe).
type Case struct {
	Script       []string `json:"script"`
	MaxRetries   int      `json:"maxRetries"`
	Ctx          bool     `json:"ctx"`
	Pre          bool     `json:"pre"`
	CancelAt     int      `json:"cancelAt"`
	CancelWait   int      `json:"cancelWait"`
	ExpAttempts  int      `json:"expAttempts"`
	ExpResults   []string `json:"expResults"`
	ExpNotifies  []int    `json:"expNotifies"`
	ExpRecovered int      `json:"expRecovered"`
}

// policy: a retry.Config (MaxRetries filled per case) and its description in the reset line (microseconds).
type policy struct {
	Name    string
	Cfg     retry.Config
	Timed   bool // run inside a synctest bubble
	RT      bool // real clock, non-zero waits
	MultNum int
	MultDen int
	RfPct   int
}

func us(d time.Duration) int { return int(d / time.Microsecond) }

func (p policy) reset(cs Case, variant string, exh bool) tv.M {
	pol := "constant"
	if p.Cfg.Policy == retry.PolicyExponential {
		pol = "exponential"
	}
	script := cs.Script
	if script == nil {
		script = []string{}
	}
	return tv.M{"pol": p.Name, "policy": pol, "dur": us(p.Cfg.Duration), "init": us(p.Cfg.InitialInterval),
		"multNum": p.MultNum, "multDen": p.MultDen, "rfPct": p.RfPct, "maxI": us(p.Cfg.MaxInterval), "maxEl": us(p.Cfg.MaxElapsedTime),
		"maxRetries": cs.MaxRetries, "ctx": cs.Ctx, "timed": p.Timed, "rt": p.RT, "variant": variant, "exh": exh,
		"script": script, "pre": cs.Pre, "cancelAt": cs.CancelAt, "cancelWait": cs.CancelWait}
}

var (
	polZero  = policy{Name: "zero", Cfg: retry.Config{Policy: retry.PolicyConstant, Duration: 0}, MultNum: 1, MultDen: 1}
	polConst = policy{Name: "const3ms", Cfg: retry.Config{Policy: retry.PolicyConstant, Duration: 3 * time.Millisecond}, Timed: true, MultNum: 1, MultDen: 1}
	polExp   = policy{Name: "exp", Cfg: retry.Config{Policy: retry.PolicyExponential, InitialInterval: 6400 * time.Microsecond,
		RandomizationFactor: 0.5, Multiplier: 1.5, MaxInterval: 30 * time.Millisecond, MaxElapsedTime: 0}, Timed: true, MultNum: 3, MultDen: 2, RfPct: 50}
)

type summary struct {
	Attempts, Notifies, Recovereds int
	Class                          string
}

type recorder struct {
	mu    sync.Mutex
	lines []tv.M
}

func (r *recorder) ev(name string, m tv.M) {
	if m == nil {
		m = tv.M{}
	}
	m["ev"] = name
	r.mu.Lock()
	r.lines = append(r.lines, m)
	r.mu.Unlock()
}

// outAt: the outcome of attempt k (1-based); attempts beyond the script succeed; a script ending in
// "loop" repeats its last real outcome forever (timing scenarios).
func outAt(script []string, k int) string {
	if k <= len(script) {
		return script[k-1]
	}
	return "ok"
}

// perform runs one case on the real NotifyRecover.  Must be called inside a synctest bubble when p.Timed.
// forever: attempts beyond the script fail with a retryable error instead of succeeding.
func perform(cs Case, p policy, variant string, exh, forever bool) ([]tv.M, summary) {
	r := &recorder{}
	r.lines = append(r.lines, p.reset(cs, variant, exh))
	cfg := p.Cfg
	cfg.MaxRetries = int64(cs.MaxRetries)
	ctx, cancel := context.WithCancel(context.Background())
	defer cancel()
	var b backoff.BackOff
	if cs.Ctx {
		b = cfg.NewBackOffWithContext(ctx)
	} else {
		b = cfg.NewBackOff()
	}
	if cs.Pre {
		r.ev("cancel", nil)
		cancel()
	}
	const maxAttempts = 400
	errT := make([]error, maxAttempts+2)
	errP := make([]error, maxAttempts+2)
	var sum summary
	var k int
	var lastAt time.Duration
	var waitTimer *time.Timer
	start := time.Now()
	body := func() (int, error) {
		k++
		at := time.Since(start)
		gap := at - lastAt
		if k == 1 {
			gap = 0
		}
		lastAt = at
		out := outAt(cs.Script, k)
		if forever && k > len(cs.Script) {
			out = "transient"
		}
		if k > maxAttempts {
			out = "permanent" // safety net of the harness; never reached by a conforming run
		}
		r.ev("attempt", tv.M{"k": k, "at": us(at), "gap": us(gap), "out": out})
		sum.Attempts++
		if cs.CancelAt == k {
			r.ev("cancel", nil)
			cancel()
		}
		if cs.CancelWait == k && p.Timed {
			waitTimer = time.AfterFunc(time.Microsecond, func() {
				r.ev("cancel", nil)
				cancel()
			})
		}
		switch out {
		case "ok":
			return k, nil
		case "permanent":
			errP[k] = fmt.Errorf("verif: permanent failure of attempt %d", k)
			return k, backoff.Permanent(errP[k])
		}
		errT[k] = fmt.Errorf("verif: transient failure of attempt %d", k)
		return k, errT[k]
	}
	idx := func(list []error, err error) int {
		for i, e := range list {
			if e != nil && e == err {
				return i
			}
		}
		return 0
	}
	notify := func(err error, d time.Duration) {
		sum.Notifies++
		r.ev("notify", tv.M{"k": idx(errT, err), "d": us(d)})
	}
	recovered := func() {
		sum.Recovereds++
		r.ev("recovered", nil)
	}
	var err error
	data := 0
	panicked := func() (p any) {
		defer func() { p = recover() }()
		if variant == "data" {
			data, err = retry.NotifyRecoverWithData(body, b, notify, recovered)
		} else {
			err = retry.NotifyRecover(func() error { _, e := body(); return e }, b, notify, recovered)
			data = k
		}
		return nil
	}()
	if waitTimer != nil {
		waitTimer.Stop()
	}
	class, ek := "other", 0
	switch {
	case panicked != nil:
		class = "panic"
	case err == nil:
		class = "nil"
	case idx(errT, err) > 0:
		class, ek = "last", idx(errT, err)
	case idx(errP, err) > 0:
		class, ek = "perm", idx(errP, err)
	case errors.Is(err, context.Canceled):
		class = "ctx"
	}
	sum.Class = class
	r.ev("ret", tv.M{"class": class, "k": ek, "data": data})
	r.ev("end", tv.M{"attempts": sum.Attempts, "notifies": sum.Notifies, "recovereds": sum.Recovereds})
	return r.lines, sum
}

func performIn(t *testing.T, cs Case, p policy, variant string, exh, forever bool) (lines []tv.M, sum summary) {
	if !p.Timed {
		return perform(cs, p, variant, exh, forever)
	}
	synctest.Test(t, func(t *testing.T) {
		lines, sum = perform(cs, p, variant, exh, forever)
	})
	return lines, sum
}

func appendTrace(b *tv.Batch, lines []tv.M) int {
	tr := b.Start(lines[0])
	for _, l := range lines[1:] {
		name := l["ev"].(string)
		b.Ev(name, l)
	}
	return tr
}

func contains[T comparable](s []T, v T) bool {
	for _, x := range s {
		if x == v {
			return true
		}
	}
	return false
}

func slug(s string) string {
	var sb strings.Builder
	for _, r := range s {
		switch {
		case r >= 'a' && r <= 'z' || r >= 'A' && r <= 'Z' || r >= '0' && r <= '9':
			sb.WriteRune(r)
		case r == ' ' || r == '-' || r == ':' || r == '/':
			sb.WriteByte('-')
		}
	}
	return strings.Trim(strings.ReplaceAll(sb.String(), "--", "-"), "-")
}

type runInfo struct {
	Case    Case   `json:"case"`
	Pol     string `json:"policy"`
	Variant string `json:"variant"`
	Kind    string `json:"kind"`              // exhaustive | timing | realtime
	Forever bool   `json:"forever,omitempty"` // attempts beyond the script keep failing
}

func loadCases(raw []byte) ([]Case, error) {
	var out []Case
	for _, l := range bytes.Split(raw, []byte("\n")) {
		if len(bytes.TrimSpace(l)) == 0 {
			continue
		}
		var c Case
		if err := json.Unmarshal(l, &c); err != nil {
			return nil, fmt.Errorf("%v: %s", err, l)
		}
		out = append(out, c)
	}
	return out, nil
}

func cancelClass(cs Case) string {
	switch {
	case !cs.Ctx:
		return "noctx"
	case cs.Pre:
		return "precancelled"
	case cs.CancelAt > 0:
		return "cancel-in-attempt"
	case cs.CancelWait > 0:
		return "cancel-in-wait"
	}
	return "livectx"
}

// timing scenarios: the interval laws on the virtual clock
func timingScenarios(rng *rand.Rand, thorough bool) ([]policy, [][]string) {
	ms, usd := time.Millisecond, time.Microsecond
	pols := []policy{
		{Name: "const1ms", Cfg: retry.Config{Policy: retry.PolicyConstant, Duration: ms}, Timed: true, MultNum: 1, MultDen: 1},
		{Name: "const5s", Cfg: retry.Config{Policy: retry.PolicyConstant, Duration: 5 * time.Second}, Timed: true, MultNum: 1, MultDen: 1},
		{Name: "const250us", Cfg: retry.Config{Policy: retry.PolicyConstant, Duration: 250 * usd}, Timed: true, MultNum: 1, MultDen: 1},
		polExp,
		{Name: "exp-elapsed", Cfg: retry.Config{Policy: retry.PolicyExponential, InitialInterval: 6400 * usd, RandomizationFactor: 0.5, Multiplier: 1.5,
			MaxInterval: 30 * ms, MaxElapsedTime: 150 * ms}, Timed: true, MultNum: 3, MultDen: 2, RfPct: 50},
		{Name: "exp-norand", Cfg: retry.Config{Policy: retry.PolicyExponential, InitialInterval: ms, RandomizationFactor: 0, Multiplier: 2,
			MaxInterval: 8 * ms, MaxElapsedTime: 20 * ms}, Timed: true, MultNum: 2, MultDen: 1, RfPct: 0},
		{Name: "exp-fullrand", Cfg: retry.Config{Policy: retry.PolicyExponential, InitialInterval: 2 * ms, RandomizationFactor: 1, Multiplier: 1,
			MaxInterval: 2 * ms, MaxElapsedTime: 30 * ms}, Timed: true, MultNum: 1, MultDen: 1, RfPct: 100},
		{Name: "exp-quarter", Cfg: retry.Config{Policy: retry.PolicyExponential, InitialInterval: 6400 * usd, RandomizationFactor: 0.25, Multiplier: 2,
			MaxInterval: 100 * ms, MaxElapsedTime: 0}, Timed: true, MultNum: 2, MultDen: 1, RfPct: 25},
		{Name: "exp-defaults", Cfg: func() retry.Config { c := retry.DefaultConfig(); c.Policy = retry.PolicyExponential; return c }(), Timed: true, MultNum: 3, MultDen: 2, RfPct: 50},
	}
	var scripts [][]string
	maxM := 9
	if thorough {
		maxM = 14
	}
	for m := 0; m <= maxM; m++ {
		s := make([]string, m)
		for i := range s {
			s[i] = "transient"
		}
		scripts = append(scripts, s) // then ok
		scripts = append(scripts, append(append([]string{}, s...), "permanent"))
	}
	_ = rng
	return pols, scripts
}

func TestCheck(t *testing.T) {
	e := ev.New("X05", "model_checking")
	defer func() {
		if e.Write() > 0 {
			t.Fail()
		}
	}()
	thorough := ev.Thorough()
	rng := rand.New(rand.NewSource(ev.Seed()))
	if rp := os.Getenv("VERIF_REPLAY"); rp != "" {
		replay(t, e, rp)
		return
	}
	e.Assume("the operation is scripted by the harness (ok / retryable error / backoff.Permanent error per attempt, every attempt returns its own error value) and takes no time",
		"timed runs use the real back-off policies of Config.NewBackOff inside a testing/synctest bubble: time.Now and the retry timer are the bubble's virtual clock, so the waits between attempts are exact",
		"cancellation points are harness-owned: inside the operation of attempt k, or 1 microsecond into the wait that follows attempt k",
		"durations are compared in whole microseconds with a tolerance of 2 microseconds on the exponential bounds")

	// ---- 1. model checking (all TLC runs of this step in parallel; no scheduler-driven part in this check)
	noTE := []string{"-noGenerateSpecTE"}
	defects := []string{"notify_every", "recover_always", "off_by_one", "ignore_ctx", "first_error", "retry_permanent"}
	var wg sync.WaitGroup
	var mcRetry, mcDecode, mcDecDefect tlc.Result
	defRes := make([]tlc.Result, len(defects))
	wg.Add(3 + len(defects))
	go func() {
		defer wg.Done()
		mcRetry = tlc.Run(tlc.Opts{Dir: specDir, Module: "RetryModel", Config: ev.Pick("MC_small.cfg", "MC_big.cfg"), Workers: 6,
			Timeout: ev.Pick(5*time.Minute, 30*time.Minute), Args: noTE, Keep: []string{"cases.ndjson"}})
	}()
	go func() {
		defer wg.Done()
		mcDecode = tlc.Run(tlc.Opts{Dir: specDir, Module: "DecodeModel", Config: ev.Pick("MC_decode_small.cfg", "MC_decode_big.cfg"), Workers: 4,
			Timeout: ev.Pick(5*time.Minute, 30*time.Minute), Args: noTE, Keep: []string{"decode_cases.ndjson"}})
	}()
	go func() {
		defer wg.Done()
		mcDecDefect = tlc.Run(tlc.Opts{Dir: specDir, Module: "DecodeModel", Config: "MC_decode_defect.cfg", Workers: 2, Timeout: 5 * time.Minute, Args: noTE})
	}()
	for i, d := range defects {
		go func() {
			defer wg.Done()
			defRes[i] = tlc.Run(tlc.Opts{Dir: specDir, Module: "RetryModel", Config: "MC_defect_" + d + ".cfg", Workers: 2, Timeout: 5 * time.Minute, Args: noTE})
		}()
	}
	wg.Wait()
	fmt.Printf("MC RetryModel: ok=%v generated=%d distinct=%d depth=%d wall=%s %s\n", mcRetry.OK, mcRetry.Generated, mcRetry.Distinct, mcRetry.Depth, mcRetry.Wall.Round(time.Millisecond), mcRetry.What)
	fmt.Printf("MC DecodeModel: ok=%v generated=%d distinct=%d wall=%s %s\n", mcDecode.OK, mcDecode.Generated, mcDecode.Distinct, mcDecode.Wall.Round(time.Millisecond), mcDecode.What)
	e.Set("states", mcRetry.Distinct+mcDecode.Distinct)
	e.Set("transitions", mcRetry.Generated+mcDecode.Generated)
	e.Set("checker_cmd", mcRetry.Cmd+" ; "+mcDecode.Cmd)
	if !mcRetry.OK {
		e.Inconclusive("model check of RetryModel did not pass: " + mcRetry.What + "\n" + mcRetry.Tail(3000))
		return
	}
	if !mcDecode.OK {
		e.Inconclusive("model check of DecodeModel did not pass: " + mcDecode.What + "\n" + mcDecode.Tail(3000))
		return
	}
	defSummary := tv.M{}
	for i, d := range defects {
		ok := defRes[i].Violation && strings.Contains(defRes[i].What, "NotBad")
		defSummary[d] = ok
		if !ok {
			e.Inconclusive("the defect variant " + d + " of RetryModel was not rejected by the contract: " + defRes[i].What)
		}
	}
	decDefOK := mcDecDefect.Violation && strings.Contains(mcDecDefect.What, "NotBad")
	defSummary["decode_ms_overflow_as_found"] = decDefOK
	if !decDefOK {
		e.Inconclusive("the as-found variant of DecodeModel was not rejected: " + mcDecDefect.What)
	}
	e.Set("defect_models_rejected", defSummary)

	cases, err := loadCases(mcRetry.Kept["cases.ndjson"])
	if err != nil || len(cases) == 0 {
		e.Inconclusive(fmt.Sprintf("cannot read the case table written by TLC: %v (%d)", err, len(cases)))
		return
	}
	e.Set("cases_enumerated_by_tlc", int64(len(cases)))

	// ---- 2. replay of the case table on the real NotifyRecover
	t0 := time.Now()
	b := &tv.Batch{}
	var infos []runInfo
	goMismatch := 0
	perPol := map[string]int64{}
	addRun := func(cs Case, p policy, variant, kind string, exh, forever bool) {
		lines, sum := performIn(t, cs, p, variant, exh, forever)
		appendTrace(b, lines)
		infos = append(infos, runInfo{Case: cs, Pol: p.Name, Variant: variant, Kind: kind, Forever: forever})
		perPol[p.Name]++
		if exh {
			if sum.Attempts != cs.ExpAttempts || !contains(cs.ExpResults, sum.Class) || !contains(cs.ExpNotifies, sum.Notifies) || sum.Recovereds != cs.ExpRecovered {
				goMismatch++
			}
			if sum.Attempts >= 2 || cs.Ctx { // non-trivial: at least one retry, or a context in play
				e.Nontrivial(fmt.Sprintf("%s|%v|%d|%s|%d|%d", p.Name, cs.Script, cs.MaxRetries, cancelClass(cs), cs.CancelAt, cs.CancelWait))
			}
		} else if sum.Attempts >= 2 {
			e.Nontrivial(fmt.Sprintf("%s|%s|%v|%d|%s|%d|%d", kind, p.Name, cs.Script, cs.MaxRetries, cancelClass(cs), cs.CancelAt, cs.CancelWait))
		}
	}
	timedMaxLen := ev.Pick(3, 6)
	for i, cs := range cases {
		if cs.CancelWait == 0 { // the zero-wait policy on the real clock has no controllable wait
			if thorough || i%2 == 0 {
				addRun(cs, polZero, "plain", "exhaustive", true, false)
			}
			if thorough || i%2 == 1 {
				addRun(cs, polZero, "data", "exhaustive", true, false)
			}
		}
		if len(cs.Script) <= timedMaxLen {
			v := []string{"plain", "data"}[i%2]
			addRun(cs, polConst, v, "exhaustive", true, false)
			addRun(cs, polExp, []string{"data", "plain"}[i%2], "exhaustive", true, false)
		}
	}
	nExh := b.Len()

	// ---- 3. timing scenarios (virtual clock) and a few real-clock runs
	tpols, tscripts := timingScenarios(rng, thorough)
	reps := ev.Pick(2, 10)
	for _, p := range tpols {
		for _, sc := range tscripts {
			for _, mr := range []int{-1, 3, 7} {
				for rep := 0; rep < reps; rep++ {
					cs := Case{Script: sc, MaxRetries: mr, Ctx: rep%2 == 1}
					addRun(cs, p, []string{"plain", "data"}[rep%2], "timing", false, false)
				}
			}
		}
		// endless failure: only MaxElapsedTime, MaxRetries or the context end it
		for _, mr := range []int{-1, 5, 40} {
			if p.Cfg.Policy == retry.PolicyExponential && p.Cfg.MaxElapsedTime == 0 && mr < 0 || p.Cfg.Policy == retry.PolicyConstant && mr < 0 {
				continue // would never end
			}
			for rep := 0; rep < reps*2; rep++ {
				addRun(Case{Script: []string{}, MaxRetries: mr, Ctx: true}, p, "plain", "timing", false, true)
			}
		}
		// cancellation in the wait after attempt k / inside attempt k while failing forever
		for k := 1; k <= ev.Pick(4, 8); k++ {
			addRun(Case{Script: []string{}, MaxRetries: -1, Ctx: true, CancelWait: k}, p, "plain", "timing", false, true)
			addRun(Case{Script: []string{}, MaxRetries: -1, Ctx: true, CancelAt: k}, p, "data", "timing", false, true)
		}
	}
	// real clock, millisecond waits: a retry never comes sooner than the policy says
	rtPols := []policy{
		{Name: "rt-const2ms", Cfg: retry.Config{Policy: retry.PolicyConstant, Duration: 2 * time.Millisecond}, RT: true, MultNum: 1, MultDen: 1},
		{Name: "rt-exp", Cfg: retry.Config{Policy: retry.PolicyExponential, InitialInterval: time.Millisecond, RandomizationFactor: 0.5, Multiplier: 2,
			MaxInterval: 4 * time.Millisecond, MaxElapsedTime: 0}, RT: true, MultNum: 2, MultDen: 1, RfPct: 50},
	}
	for _, p := range rtPols {
		for m := 0; m <= ev.Pick(4, 6); m++ {
			sc := make([]string, m)
			for i := range sc {
				sc[i] = "transient"
			}
			for _, mr := range []int{-1, 2} {
				addRun(Case{Script: sc, MaxRetries: mr, Ctx: m%2 == 0}, p, []string{"plain", "data"}[m%2], "realtime", false, false)
			}
		}
	}
	fmt.Printf("performed %d runs of NotifyRecover (%d from the case table) in %s; %d events\n", b.Len(), nExh, time.Since(t0).Round(time.Millisecond), b.Lines())
	e.Set("runs_per_policy", perPol)
	e.Set("go_side_expectation_mismatches", int64(goMismatch))

	// ---- 4. decoding case table on the real DecodeConfig / DecodeConfigWithPrefix
	dcases, err := loadDecodeCases(mcDecode.Kept["decode_cases.ndjson"])
	if err != nil || len(dcases) == 0 {
		e.Inconclusive(fmt.Sprintf("cannot read the decoding case table written by TLC: %v (%d)", err, len(dcases)))
		return
	}
	e.Set("decode_cases_enumerated_by_tlc", int64(len(dcases)))
	db := &tv.Batch{}
	for _, dc := range dcases {
		performDecode(db, dc)
		if len(dc.Inputs) > 0 {
			e.Nontrivial("decode|" + dc.key())
		}
	}
	e.Set("evaluations", int64(b.Len()+db.Len()))
	e.Set("rule", "NotifyRecover: case = (outcome script over {ok, transient, permanent} of length <= "+strconv.Itoa(ev.Pick(4, 6))+
		" [later attempts succeed], MaxRetries in {-1,0,1,2,3}, back-off with/without context, cancellation point: none | before the call | inside attempt k | in the wait after attempt k), "+
		"enumerated by TLC (RetryCases!Cases) with the expected (attempts, notify count set, recovered count, result class set); every case replayed on the real NotifyRecover / NotifyRecoverWithData (thorough: both; quick: alternating) "+
		"with the zero-wait constant policy (real clock; no cancel-in-wait) and, for scripts of length <= "+strconv.Itoa(timedMaxLen)+", a 3ms constant and an exponential policy on the synctest clock; "+
		"plus timing scenarios (9 policies incl. the package defaults x failure counts x MaxRetries x repeats, endless failure bounded by MaxElapsedTime/MaxRetries/cancellation) judged by the interval laws. "+
		"Decoding: case = (call [DecodeConfig | DecodeConfigWithPrefix with prefix '', 'backOff', 'retry.'], map type [map[string]any | map[string]string | map[any]any], initial config [zero | default | no-retry | custom], "+
		"decoy keys, per field absent or one entry of its input table) for all single fields, all pairs of fields and all-fields combinations. non-trivial = a run with a retry or a context (NotifyRecover), a case with at least one field given (decoding); distinct by the full case tuple")
	for _, i := range []int{0, nExh / 3, nExh / 2, nExh - 1, b.Len() - 1} {
		e.Sample(tv.M{"run": infos[i], "trace": b.TraceStrings(i)})
	}
	for _, i := range []int{len(dcases) / 3, len(dcases) - 1} {
		e.Sample(tv.M{"decode_case": dcases[i], "trace": db.TraceStrings(i)})
	}

	// ---- 5. TLC judges the recorded runs
	var rej []tv.Reject
	var res tlc.Result
	var drej []tv.Reject
	var dres tlc.Result
	var stRetry, stDecode string
	wg.Add(4)
	go func() {
		defer wg.Done()
		rej, res = tv.ValidateChunked(tlc.Opts{Dir: specDir, Module: "TraceRetry", Config: "TraceRetry.cfg", Workers: 8,
			Timeout: ev.Pick(6*time.Minute, 40*time.Minute), HeapMB: 8192}, b)
	}()
	go func() {
		defer wg.Done()
		drej, dres = tv.ValidateChunked(tlc.Opts{Dir: specDir, Module: "TraceDecode", Config: "TraceDecode.cfg", Workers: 4,
			Timeout: ev.Pick(6*time.Minute, 40*time.Minute), HeapMB: 6144}, db)
	}()
	go func() { defer wg.Done(); stRetry = selfTestRetry(t, e) }()
	go func() { defer wg.Done(); stDecode = selfTestDecode(e, dcases) }()
	wg.Wait()
	fmt.Printf("TLC trace validation (NotifyRecover): ok=%v violation=%v rejects=%d distinct=%d wall=%s %s\n", res.OK, res.Violation, len(rej), res.Distinct, res.Wall.Round(time.Millisecond), res.What)
	fmt.Printf("TLC trace validation (decoding): ok=%v violation=%v rejects=%d distinct=%d wall=%s %s\n", dres.OK, dres.Violation, len(drej), dres.Distinct, dres.Wall.Round(time.Millisecond), dres.What)
	if stRetry != "" {
		e.Inconclusive("binding self-test (NotifyRecover) failed: " + stRetry)
	}
	if stDecode != "" {
		e.Inconclusive("binding self-test (decoding) failed: " + stDecode)
	}
	bad := false
	if !res.OK && !res.Violation {
		e.Inconclusive("trace validation (NotifyRecover) did not run: " + res.What + "\n" + res.Tail(2000))
		bad = true
	}
	if !dres.OK && !dres.Violation {
		e.Inconclusive("trace validation (decoding) did not run: " + dres.What + "\n" + dres.Tail(2000))
		bad = true
	}
	if (res.Violation && len(rej) == 0) || (dres.Violation && len(drej) == 0) {
		e.Inconclusive("TLC reported a violation that could not be parsed:\n" + res.Tail(1500) + dres.Tail(1500))
		bad = true
	}
	if bad {
		return
	}
	e.Set("traces_validated_against_impl", int64(b.Len()+db.Len()))
	sort.SliceStable(rej, func(i, j int) bool { // smallest script first: it becomes the reproducer of its key
		return len(infos[rej[i].Trace].Case.Script) < len(infos[rej[j].Trace].Case.Script)
	})
	sort.SliceStable(drej, func(i, j int) bool { return len(dcases[drej[i].Trace].Inputs) < len(dcases[drej[j].Trace].Inputs) })
	for _, r := range rej {
		in := infos[r.Trace]
		key := "notifyrecover:" + slug(r.Why) // the reason names the law; policy / cancellation class are in the replay
		e.Violation(key, r.Why, tv.M{"run": in, "trace": b.TraceStrings(r.Trace), "at": r.At})
	}
	for _, r := range drej {
		dc := dcases[r.Trace]
		key := "decode:" + slug(r.Why)
		e.Violation(key, r.Why+" ("+dc.describe()+")", tv.M{"case": dc, "trace": db.TraceStrings(r.Trace), "reproducer": dc.reproducer()})
	}
	if goMismatch != countExpected(rej) {
		fmt.Printf("note: go-side mismatches=%d, TLC expected-outcome rejects=%d\n", goMismatch, countExpected(rej))
	}
}

func countExpected(rej []tv.Reject) int {
	n := 0
	for _, r := range rej {
		if strings.HasPrefix(r.Why, "expected-outcome") {
			n++
		}
	}
	return n
}

// selfTestRetry: the unmodified trace of a recovering run is accepted; corrupted ones are rejected.
func selfTestRetry(t *testing.T, e *ev.Evidence) string {
	cs := Case{Script: []string{"transient", "transient"}, MaxRetries: 3, Ctx: true, ExpAttempts: 3}
	lines, _ := perform(cs, polZero, "data", true, false)
	lines[0]["ev"] = "reset"
	var raw [][]byte
	for _, l := range lines {
		j, _ := json.Marshal(l)
		raw = append(raw, j)
	}
	b := &tv.Batch{}
	b.AppendTrace(raw)
	var dupNotify, noRecovered, wrongCount, wrongErr [][]byte
	for _, l := range raw {
		dupNotify = append(dupNotify, l)
		if bytes.Contains(l, []byte(`"ev":"notify"`)) {
			dupNotify = append(dupNotify, l)
		}
		if !bytes.Contains(l, []byte(`"ev":"recovered"`)) {
			noRecovered = append(noRecovered, l)
		}
		wrongCount = append(wrongCount, bytes.Replace(l, []byte(`"attempts":3`), []byte(`"attempts":2`), 1))
		wrongErr = append(wrongErr, bytes.Replace(l, []byte(`"class":"nil"`), []byte(`"class":"last"`), 1))
	}
	b.AppendTrace(dupNotify)
	b.AppendTrace(noRecovered)
	b.AppendTrace(wrongCount)
	b.AppendTrace(wrongErr)
	rej, res := tv.Validate(tlc.Opts{Dir: specDir, Module: "TraceRetry", Config: "TraceRetry.cfg", Workers: 2, Timeout: 3 * time.Minute}, b)
	got := map[int]bool{}
	for _, r := range rej {
		got[r.Trace] = true
	}
	e.Set("binding_selftest_notifyrecover", tv.M{"unmodified_accepted": !got[0], "second_notify_rejected": got[1], "recovered_removed_rejected": got[2],
		"attempt_count_rewritten_rejected": got[3], "result_rewritten_rejected": got[4]})
	if (res.OK || res.Violation) && !got[0] && got[1] && got[2] && got[3] && got[4] {
		return ""
	}
	return fmt.Sprintf("rejects=%v %s", rej, res.What)
}

// ---------------------------------------------------------------- decoding

type decInput struct {
	F string `json:"f"`
	S string `json:"s"`
	T string `json:"t"`
}

type DecodeCase struct {
	Fn      string         `json:"fn"`
	Prefix  string         `json:"prefix"`
	MapKind string         `json:"mapKind"`
	Base    string         `json:"base"`
	Decoys  bool           `json:"decoys"`
	Vals    map[string]int `json:"vals"`
	Inputs  []decInput     `json:"inputs"`
	ExpErr  bool           `json:"expErr"`
}

func (d DecodeCase) key() string {
	return fmt.Sprintf("%s|%s|%s|%s|%v|%v", d.Fn, d.Prefix, d.MapKind, d.Base, d.Decoys, d.Inputs)
}

func (d DecodeCase) keyOf(field string) string {
	if d.Fn == "plain" {
		return field
	}
	switch d.Prefix {
	case "retry.":
		return d.Prefix + field
	default:
		return d.Prefix + strings.ToUpper(field[:1]) + field[1:]
	}
}

func (d DecodeCase) describe() string {
	var parts []string
	for _, in := range d.Inputs {
		parts = append(parts, fmt.Sprintf("%s=%s(%q)", d.keyOf(in.F), in.T, in.S))
	}
	return fmt.Sprintf("%s prefix=%q map=%s base=%s {%s}", d.Fn, d.Prefix, d.MapKind, d.Base, strings.Join(parts, ", "))
}

func (d DecodeCase) reproducer() string {
	call := "retry.DecodeConfig(&c, m)"
	if d.Fn == "prefix" {
		call = fmt.Sprintf("retry.DecodeConfigWithPrefix(&c, m, %q)", d.Prefix)
	}
	return fmt.Sprintf("c := <%s config>; m := %s; err := %s", d.Base, d.describe(), call)
}

func loadDecodeCases(raw []byte) ([]DecodeCase, error) {
	var out []DecodeCase
	for _, l := range bytes.Split(raw, []byte("\n")) {
		if len(bytes.TrimSpace(l)) == 0 {
			continue
		}
		var c DecodeCase
		if err := json.Unmarshal(l, &c); err != nil {
			return nil, fmt.Errorf("%v: %s", err, l)
		}
		if c.Inputs == nil {
			c.Inputs = []decInput{}
		}
		out = append(out, c)
	}
	return out, nil
}

func typed(in decInput) any {
	switch in.T {
	case "int":
		v, _ := strconv.Atoi(in.S)
		return v
	case "float":
		v, _ := strconv.ParseFloat(in.S, 64)
		return v
	case "bool":
		return in.S == "true"
	}
	return in.S
}

func baseConfig(name string) retry.Config {
	switch name {
	case "default":
		return retry.DefaultConfig()
	case "noretry":
		return retry.DefaultConfigWithNoRetry()
	case "custom":
		return retry.Config{Policy: retry.PolicyExponential, Duration: 7 * time.Second, InitialInterval: 20 * time.Millisecond, RandomizationFactor: 0.25,
			Multiplier: 3, MaxInterval: 4 * time.Second, MaxElapsedTime: time.Minute, MaxRetries: 9}
	}
	return retry.Config{}
}

const (
	sentinelBig  = 2147483647
	sentinelFrac = 2147483646
)

func canonDur(d time.Duration) int {
	if d%time.Microsecond != 0 {
		return sentinelFrac
	}
	v := int64(d / time.Microsecond)
	if v > 2147483000 || v < -2147483000 {
		return sentinelBig
	}
	return int(v)
}

func canonFloat(f float32) int {
	v := float64(f) * 1000
	if math.IsNaN(v) || math.IsInf(v, 0) || math.Abs(v) > 2e9 {
		return sentinelBig
	}
	if math.Abs(v-math.Round(v)) > 1e-3 {
		return sentinelFrac
	}
	return int(math.Round(v))
}

func canonInt(v int64) int {
	if v > 2147483000 || v < -2147483000 {
		return sentinelBig
	}
	return int(v)
}

func canonCfg(c retry.Config) tv.M {
	return tv.M{"policy": int(c.Policy), "duration": canonDur(c.Duration), "initialInterval": canonDur(c.InitialInterval),
		"randomizationFactor": canonFloat(c.RandomizationFactor), "multiplier": canonFloat(c.Multiplier), "maxInterval": canonDur(c.MaxInterval),
		"maxElapsedTime": canonDur(c.MaxElapsedTime), "maxRetries": canonInt(c.MaxRetries)}
}

type decodeObs struct {
	Err   bool
	Panic bool
	Cfg   retry.Config
	Msg   string
}

func doDecode(d DecodeCase) decodeObs {
	kv := map[string]any{}
	for _, in := range d.Inputs {
		kv[d.keyOf(in.F)] = typed(in)
	}
	if d.Decoys {
		// keys that do not carry the prefix: an unprefixed field name with garbage, and another component's key
		kv["duration"] = "not-a-duration"
		kv["maxRetries"] = "many"
		kv["otherPolicy"] = "roundrobin"
	}
	var input any
	switch d.MapKind {
	case "string":
		m := map[string]string{}
		for k, v := range kv {
			m[k] = v.(string)
		}
		input = m
	case "iface":
		m := map[any]any{}
		for k, v := range kv {
			m[k] = v
		}
		input = m
	default:
		input = kv
	}
	c := baseConfig(d.Base)
	var o decodeObs
	func() {
		defer func() {
			if p := recover(); p != nil {
				o.Panic = true
				o.Msg = fmt.Sprint(p)
			}
		}()
		var err error
		if d.Fn == "plain" {
			err = retry.DecodeConfig(&c, input)
		} else {
			err = retry.DecodeConfigWithPrefix(&c, input, d.Prefix)
		}
		if err != nil {
			o.Err = true
			o.Msg = err.Error()
		}
	}()
	o.Cfg = c
	return o
}

func performDecode(b *tv.Batch, d DecodeCase) decodeObs {
	vals := tv.M{}
	for k, v := range d.Vals {
		vals[k] = v
	}
	b.Start(tv.M{"fn": d.Fn, "prefix": d.Prefix, "mapKind": d.MapKind, "base": d.Base, "decoys": d.Decoys, "vals": vals})
	o := doDecode(d)
	b.Ev("decoded", tv.M{"err": o.Err, "panic": o.Panic, "cfg": canonCfg(o.Cfg), "msg": o.Msg})
	b.Ev("end", nil)
	return o
}

func selfTestDecode(e *ev.Evidence, dcases []DecodeCase) string {
	// a valid case with a field given and an invalid case (not the overflow class)
	var good, badc *DecodeCase
	for i := range dcases {
		d := &dcases[i]
		if good == nil && !d.ExpErr && len(d.Inputs) == 2 && d.Base == "custom" {
			good = d
		}
		if badc == nil && d.ExpErr && len(d.Inputs) == 1 && d.Inputs[0].S == "abc" {
			badc = d
		}
	}
	if good == nil || badc == nil {
		return "no suitable cases"
	}
	b := &tv.Batch{}
	performDecode(b, *good)
	performDecode(b, *badc)
	g := b.Trace(0)
	var wrongVal, wrongErr [][]byte
	for _, l := range g {
		wrongErr = append(wrongErr, bytes.Replace(l, []byte(`"err":false`), []byte(`"err":true`), 1))
		if bytes.Contains(l, []byte(`"ev":"decoded"`)) {
			var m map[string]any
			_ = json.Unmarshal(l, &m)
			cfg := m["cfg"].(map[string]any)
			cfg[good.Inputs[0].F] = cfg[good.Inputs[0].F].(float64) + 1
			j, _ := json.Marshal(m)
			wrongVal = append(wrongVal, j)
		} else {
			wrongVal = append(wrongVal, l)
		}
	}
	var accepted [][]byte
	for _, l := range b.Trace(1) {
		accepted = append(accepted, bytes.Replace(l, []byte(`"err":true`), []byte(`"err":false`), 1))
	}
	b.AppendTrace(wrongVal)
	b.AppendTrace(wrongErr)
	b.AppendTrace(accepted)
	rej, res := tv.Validate(tlc.Opts{Dir: specDir, Module: "TraceDecode", Config: "TraceDecode.cfg", Workers: 2, Timeout: 3 * time.Minute}, b)
	got := map[int]bool{}
	for _, r := range rej {
		got[r.Trace] = true
	}
	e.Set("binding_selftest_decoding", tv.M{"unmodified_valid_accepted": !got[0], "unmodified_invalid_accepted": !got[1], "value_rewritten_rejected": got[2],
		"error_injected_rejected": got[3], "error_removed_rejected": got[4]})
	if (res.OK || res.Violation) && !got[0] && !got[1] && got[2] && got[3] && got[4] {
		return ""
	}
	return fmt.Sprintf("rejects=%v %s", rej, res.What)
}

// replay re-performs the single run stored in a replay file (./check X05 --replay <file>) and has TLC judge it.
func replay(t *testing.T, e *ev.Evidence, path string) {
	raw, err := os.ReadFile(path)
	if err != nil {
		e.Inconclusive("cannot read the replay file: " + err.Error())
		return
	}
	var f struct {
		Replay struct {
			Run  *runInfo    `json:"run"`
			Case *DecodeCase `json:"case"`
		} `json:"replay"`
	}
	if err := json.Unmarshal(raw, &f); err != nil {
		e.Inconclusive("cannot parse the replay file: " + err.Error())
		return
	}
	b := &tv.Batch{}
	opts := tlc.Opts{Dir: specDir, Workers: 2, Timeout: 3 * time.Minute}
	switch {
	case f.Replay.Run != nil:
		in := *f.Replay.Run
		tpols, _ := timingScenarios(rand.New(rand.NewSource(1)), true)
		var pol *policy
		rtp := []policy{
			{Name: "rt-const2ms", Cfg: retry.Config{Policy: retry.PolicyConstant, Duration: 2 * time.Millisecond}, RT: true, MultNum: 1, MultDen: 1},
			{Name: "rt-exp", Cfg: retry.Config{Policy: retry.PolicyExponential, InitialInterval: time.Millisecond, RandomizationFactor: 0.5, Multiplier: 2,
				MaxInterval: 4 * time.Millisecond, MaxElapsedTime: 0}, RT: true, MultNum: 2, MultDen: 1, RfPct: 50},
		}
		for _, p := range append(append([]policy{polZero, polConst, polExp}, tpols...), rtp...) {
			if p.Name == in.Pol {
				pol = &p
				break
			}
		}
		if pol == nil {
			e.Inconclusive("unknown policy in the replay file: " + in.Pol)
			return
		}
		lines, _ := performIn(t, in.Case, *pol, in.Variant, in.Kind == "exhaustive", in.Forever)
		appendTrace(b, lines)
		opts.Module, opts.Config = "TraceRetry", "TraceRetry.cfg"
	case f.Replay.Case != nil:
		performDecode(b, *f.Replay.Case)
		opts.Module, opts.Config = "TraceDecode", "TraceDecode.cfg"
	default:
		e.Inconclusive("the replay file holds neither a run nor a decoding case")
		return
	}
	rej, res := tv.Validate(opts, b)
	fmt.Printf("replay: %d events, TLC ok=%v rejects=%d %s\n", b.Lines(), res.OK, len(rej), res.What)
	for _, l := range b.TraceStrings(0) {
		fmt.Println("  " + l)
	}
	if !res.OK && !res.Violation {
		e.Inconclusive("trace validation did not run: " + res.What)
		return
	}
	e.Set("evaluations", int64(1))
	e.Set("traces_validated_against_impl", int64(1))
	for _, r := range rej {
		key := "notifyrecover:" + slug(r.Why)
		if f.Replay.Case != nil {
			key = "decode:" + slug(r.Why)
		}
		e.Violation(key, r.Why, tv.M{"replayed": path, "trace": b.TraceStrings(0), "at": r.At})
	}
}
