// C02 — schemes/enc/v1: tampered or truncated documents never decrypt silently.
//
//  1. TLC model-checks spec/Enc/EncTamper.tla (symbolic documents, adversary
//     operations, failing source) against the EncTamperContract monitor, modulo
//     the named deviation HeaderOnlyTruncation; defect variants and the strict
//     configuration must be rejected (the model is not vacuous).
//  2. TLC exports every terminal state of the model as a mutation SCRIPT with the
//     model's prediction.  Each script is replayed on REAL documents produced by
//     the real Encrypt at the real 64 KiB segment size, for both ciphers: ops are
//     mapped to byte ranges through the document's structure, the real Decrypt
//     reads the result, and the observation {released bytes prefix-ok, terminal
//     class} is recorded.
//  3. Exhaustive byte-level sweeps: every bit of the header of a small document,
//     every bit of the first/last 32 bytes and of the tag of every segment,
//     truncation at every header offset and around every segment boundary,
//     source-reader failures at every offset class with several error values,
//     alone or together with the final data bytes.
//  4. TLC judges every recorded run against the contract monitor (trace
//     validation); the verdict comes from real executions only.
package c02

import (
	"bytes"
	"encoding/base64"
	"encoding/json"
	"errors"
	"fmt"
	"io"
	"math/rand"
	"runtime"
	"sort"
	"strconv"
	"strings"
	"sync"
	"sync/atomic"
	"testing"
	"time"

	v1 "github.com/dapr/kit/schemes/enc/v1"

	"verifharness/c01/encref"
	"verifharness/internal/ev"
	"verifharness/internal/tlc"
	"verifharness/internal/tv"
)

const (
	specDir   = "Enc"
	segSize   = 65536
	tagSize   = 16
	unitSize  = segSize + tagSize
	shortLen  = 777
	namedKey  = "truncate@header-end->empty-clean-eof"
	namedWhy  = "HeaderOnlyTruncation"
	cipherAES = "AES-GCM"
	cipherCC  = "CHACHA20-POLY1305"
)

func slug(s string) string {
	var sb strings.Builder
	for _, r := range s {
		switch {
		case r == ' ':
			sb.WriteByte('-')
		case r >= 'a' && r <= 'z' || r >= 'A' && r <= 'Z' || r >= '0' && r <= '9':
			sb.WriteRune(r)
		}
	}
	return sb.String()
}

func pseudo(n int, seed int64) []byte {
	p := make([]byte, n)
	x := uint64(seed)*0x9E3779B97F4A7C15 + uint64(n) + 1
	for i := range p {
		x ^= x << 13
		x ^= x >> 7
		x ^= x << 17
		p[i] = byte(x >> 24)
	}
	return p
}

// ---------------------------------------------------------------------------
// honest documents

type unit struct{ cells [][]byte }

func (u unit) bytes() []byte { return bytes.Join(u.cells, nil) }

// cellsOf cuts a stored segment into the cells of the model: a full one into first byte / body / tag, a short one into body / tag.
func cellsOf(seg []byte) unit {
	if len(seg) == unitSize {
		return unit{[][]byte{seg[:1], seg[1 : len(seg)-tagSize], seg[len(seg)-tagSize:]}}
	}
	return unit{[][]byte{seg[:len(seg)-tagSize], seg[len(seg)-tagSize:]}}
}

// vault is a caching key provider: it keeps the file key in memory - the very slice the WrapKeyFn was given - and
// hands out the SAME retained bytes on every unwrap of the wrapped key it issued (a key cache / in-memory vault).
type vault struct {
	retained []byte // owned by the provider; Encrypt and Decrypt must never modify it
	snapshot []byte
	wfk      []byte
}

func (v *vault) unwrap(w []byte, alg, name string, nonce, tag []byte) ([]byte, error) {
	if !bytes.Equal(w, v.wfk) {
		return nil, errors.New("verif vault: unknown wrapped key")
	}
	return v.retained, nil
}
func (v *vault) intact() bool { return bytes.Equal(v.retained, v.snapshot) }
func (v *vault) restore()     { copy(v.retained, v.snapshot) }

// pool instrumentation: the "bufpool.put" hook counts the (deferred) Puts so that the harness can wait for the goroutine
// of a stream to be done with its buffer; New is wrapped so that draining the pool knows when it is empty.
var (
	poolPuts  atomic.Int64
	poolFresh atomic.Int64
	poolPutCh = make(chan struct{}, 4096)
)

func instrumentPool() {
	v1.VerifHook = func(point string, arg any) {
		if point == "bufpool.put" {
			poolPuts.Add(1)
			select {
			case poolPutCh <- struct{}{}:
			default:
			}
		}
	}
	orig := v1.BufPool.New
	v1.BufPool.New = func() any {
		poolFresh.Add(1)
		return orig()
	}
}

func waitPuts(want int64) {
	deadline := time.Now().Add(2 * time.Second)
	for poolPuts.Load() < want && time.Now().Before(deadline) {
		select {
		case <-poolPutCh:
		case <-time.After(50 * time.Millisecond):
		}
	}
	for i := 0; i < 3; i++ {
		runtime.Gosched()
	}
}

// drainPool takes every buffer out of v1.BufPool (until the pool has to allocate a fresh one) and reports whether the
// same buffer came out twice; every distinct buffer is given back once.  Exact with GOMAXPROCS(1) (one pool shard).
func drainPool() (twice bool, n int) {
	seen := map[*[]byte]bool{}
	var all []*[]byte
	for k := 0; k < 256; k++ {
		fresh := poolFresh.Load()
		p := v1.BufPool.Get().(*[]byte)
		if poolFresh.Load() != fresh {
			all = append(all, p)
			break
		}
		if seen[p] {
			twice = true
			continue
		}
		seen[p] = true
		all = append(all, p)
		n++
	}
	for _, p := range all {
		v1.BufPool.Put(p)
	}
	return twice, n
}

type honest struct {
	vault        *vault
	encKeyIntact bool
	cipher       string
	plain        []byte
	doc          []byte
	hdr          []byte
	units        []unit
	fk, np       []byte
	lines        [3][2]int // byte range of the three header lines (without LF)
	b            [4][]unit // document B variants 1..3: two units each
}

var honestCache = map[string]*honest{}

// mkHonest produces (once per shape and cipher) a real document with n segments through the real Encrypt.
func mkHonest(cipher string, plainLen int, tag string) *honest {
	key := fmt.Sprintf("%s/%d/%s", cipher, plainLen, tag)
	if h, ok := honestCache[key]; ok {
		return h
	}
	h := &honest{cipher: cipher, plain: pseudo(plainLen, int64(len(key))+ev.Seed())}
	c := v1.Cipher(cipher)
	enc, err := v1.Encrypt(bytes.NewReader(h.plain), v1.EncryptOptions{
		WrapKeyFn: func(k []byte, alg, name string, nonce []byte) ([]byte, []byte, error) {
			h.fk = append([]byte{}, k...)
			h.vault = &vault{retained: k, snapshot: append([]byte{}, k...), wfk: pseudo(32, int64(len(key))+31)} // keeps what it was given
			return append([]byte{}, h.vault.wfk...), nil, nil
		}, KeyName: "c02-key", Algorithm: v1.KeyAlgorithmAES256KW, Cipher: &c})
	if err != nil {
		panic(err)
	}
	if h.doc, err = io.ReadAll(enc); err != nil {
		panic(err)
	}
	time.Sleep(200 * time.Microsecond)
	h.encKeyIntact = h.vault.intact()
	h.vault.restore()
	ph, payload := encref.ParseHeader(h.doc)
	if ph.ParseErr != "" {
		panic("honest document does not parse: " + ph.ParseErr)
	}
	h.hdr = h.doc[:ph.Len]
	h.np = ph.Manifest.NoncePrefix
	off := 0
	for i, l := range bytes.SplitN(h.hdr, []byte{'\n'}, 4)[:3] {
		h.lines[i] = [2]int{off, off + len(l)}
		off += len(l) + 1
	}
	for _, s := range encref.SplitSegments(payload) {
		h.units = append(h.units, cellsOf(s))
	}
	// documents B (reference encryptor): same file key / other nonce prefix; other key / same prefix; both differ
	bplain := pseudo(segSize+shortLen, 99)
	otherK, otherNP := pseudo(32, 98), pseudo(7, 97)
	for v := 1; v <= 3; v++ {
		fk, np := h.fk, otherNP
		if v >= 2 {
			fk = otherK
		}
		if v == 2 {
			np = h.np
		}
		bdoc, err := encref.Encrypt(bplain, encref.EncryptOpts{FileKey: fk, NoncePrefix: np, Cph: encref.CipherIDs[cipher], Kw: 1, WFK: fk, KeyName: "c02-key"})
		if err != nil {
			panic(err)
		}
		bh, bpay := encref.ParseHeader(bdoc)
		_ = bh
		for _, s := range encref.SplitSegments(bpay) {
			h.b[v] = append(h.b[v], cellsOf(s))
		}
	}
	honestCache[key] = h
	return h
}

func shapeLen(nA int, lastFull bool) int {
	if nA == 0 {
		return 0
	}
	if lastFull {
		return nA * segSize
	}
	return (nA-1)*segSize + shortLen
}

// ---------------------------------------------------------------------------
// one run of the real Decrypt

type run struct {
	Class    string        `json:"class"`
	Cipher   string        `json:"cipher"`
	PlainLen int           `json:"plainLen"`
	Doc      []byte        `json:"-"`
	DocLen   int           `json:"docLen"`
	Desc     string        `json:"desc"` // human-readable replay recipe
	Script   encref.Script `json:"script"`
	Unwrap   int           `json:"unwrap"`  // 0 honest, 1 another key, 2 (nil, err), 3 empty key without error, 4 32 zero bytes + err, 5 32 other bytes + err, 6 16-byte key without error
	Prior    bool          `json:"prior"`   // the honest document is decrypted first through the caching key provider
	NoDrain  bool          `json:"noDrain"` // staged families: leave the pool as the run left it
	Forged   bool          `json:"forged"`  // the document was built by the adversary under the all-zero file key
	CBuf     int           `json:"cbuf"`
	Pred     []int         `json:"pred"` // model prediction: released segments, term code (nil when not from the model)
	neutral  bool          // a flip of the script instance undid an earlier one, or left the decoded MAC as it was: see apply
}

type outcome struct {
	srcPos   int // bytes the source had handed out when the run ended
	released int
	prefixOK bool
	equal    bool
	term     string
}

type lockedBatch struct {
	mu sync.Mutex
	b  *tv.Batch
}

func (l *lockedBatch) Ev(name string, m tv.M) {
	l.mu.Lock()
	l.b.Ev(name, m)
	l.mu.Unlock()
}

func execute(tb *tv.Batch, h *honest, r run) outcome {
	mutated := !bytes.Equal(r.Doc, h.doc) || r.Unwrap != 0
	headerOnly := len(h.plain) > 0 && bytes.Count(r.Doc, []byte{'\n'}) == 3 && r.Doc[len(r.Doc)-1] == '\n' // three header lines, no payload byte
	tb.Start(tv.M{"class": r.Class, "len": len(h.plain), "mutated": mutated, "headerOnly": headerOnly, "forged": r.Forged, "cipher": r.Cipher})
	b := &lockedBatch{b: tb}
	if r.Class == "control" {
		b.Ev("keycheck", tv.M{"intact": h.encKeyIntact, "after": "encrypt"})
	}
	if r.Prior {
		// the honest caller decrypts the honest document first, through the same caching key provider (no repair of the cache afterwards)
		before := poolPuts.Load()
		if dec, err := v1.Decrypt(bytes.NewReader(h.doc), v1.DecryptOptions{UnwrapKeyFn: h.vault.unwrap}); err == nil {
			_, _ = io.Copy(io.Discard, dec)
			waitPuts(before + 2)
		}
	}
	putsBefore := poolPuts.Load()
	finish := func(o outcome, streams int64) outcome {
		waitPuts(putsBefore + 1 + streams)
		b.Ev("end", tv.M{"term": o.term, "released": o.released, "equal": o.equal})
		b.Ev("keycheck", tv.M{"intact": h.vault.intact(), "after": "decrypt"})
		h.vault.restore()
		if !r.NoDrain {
			twice, n := drainPool()
			b.Ev("pool", tv.M{"twice": twice, "buffers": n})
		}
		return o
	}
	src := encref.New(r.Doc, r.Script, nil)
	src.OnRead = func(k, n int, err error) {
		if err != nil && err != io.EOF {
			b.Ev("srcerr", tv.M{"n": n, "at": src.Pos()})
		}
	}
	unwrap := func(w []byte, alg, name string, nonce, tag []byte) ([]byte, error) {
		switch r.Unwrap {
		case 1:
			return pseudo(32, 4242), nil
		case 2:
			return nil, errors.New("verif: key not found")
		case 3:
			return []byte{}, nil
		case 4:
			return make([]byte, 32), errors.New("verif: key not found")
		case 5:
			return pseudo(32, 4343), errors.New("verif: key not found")
		case 6:
			return pseudo(16, 4444), nil
		}
		return h.vault.unwrap(w, alg, name, nonce, tag)
	}
	// Decrypt and the consumer run in their own goroutine: a panic in the call is recovered and becomes the outcome
	// "panic", a stream that neither ends nor fails is cut by the watchdog and becomes the outcome "hang"
	o := outcome{prefixOK: true}
	var mu sync.Mutex // guards o and dec between the worker and the watchdog
	var dec io.Reader
	streams := int64(0)
	entry := "Decrypt"
	done := make(chan struct{})
	go func() {
		defer close(done)
		defer func() {
			if p := recover(); p != nil {
				mu.Lock()
				o.term = "panic"
				mu.Unlock()
				b.Ev("panic", tv.M{"entry": entry, "value": fmt.Sprint(p)})
			}
		}()
		d, err := v1.Decrypt(src, v1.DecryptOptions{UnwrapKeyFn: unwrap})
		if err != nil {
			b.Ev("decrypt", tv.M{"err": true, "msg": err.Error()})
			mu.Lock()
			o.term = "decrypt-err"
			mu.Unlock()
			return
		}
		mu.Lock()
		dec, streams, entry = d, 1, "Read"
		mu.Unlock()
		b.Ev("decrypt", tv.M{"err": false})
		buf := make([]byte, r.CBuf)
		for {
			n, err := d.Read(buf)
			mu.Lock()
			if o.term == "hang" {
				mu.Unlock()
				return
			}
			if n > 0 {
				if o.released+n > len(h.plain) || !bytes.Equal(buf[:n], h.plain[o.released:o.released+n]) {
					o.prefixOK = false
				}
				o.released += n
				b.Ev("release", tv.M{"n": n, "prefixOK": o.prefixOK})
			}
			if err != nil {
				o.term = "err"
				if err == io.EOF {
					o.term = "eof"
				}
				mu.Unlock()
				return
			}
			mu.Unlock()
		}
	}()
	patience := 30 * time.Second
	if r.Script.HoldOpen {
		patience = hangPatience
	}
	select {
	case <-done:
	case <-time.After(patience):
		mu.Lock()
		o.term = "hang"
		d := dec
		mu.Unlock()
		src.Release() // let the source end so that the goroutines of the library can finish
		if pr, ok := d.(*io.PipeReader); ok {
			_ = pr.CloseWithError(errors.New("verif: watchdog"))
		}
		select {
		case <-done:
		case <-time.After(5 * time.Second):
		}
	}
	o.srcPos = src.Pos()
	src.Release()
	mu.Lock()
	defer mu.Unlock()
	if o.term == "decrypt-err" {
		o.equal = len(h.plain) == 0
	} else {
		o.equal = o.prefixOK && o.released == len(h.plain)
	}
	return finish(o, streams)
}

// rejectsEarly: the document has the honest header and the README implementation finds a stored segment that does not
// open under its position and that is FOLLOWED by more input: a decryptor has everything it needs to reject the document
// once it has read that segment and one more byte - it does not need the end of the input.
func rejectsEarly(h *honest, doc []byte) bool {
	ph, payload := encref.ParseHeader(doc)
	if ph.Lines < 3 || ph.ParseErr != "" || !bytes.Equal(doc[:ph.Len], h.hdr) {
		return false
	}
	segs := encref.SplitSegments(payload)
	for i, sg := range segs {
		if i == len(segs)-1 {
			return false // only the final piece is left: whether it is acceptable depends on the end of the input
		}
		if _, err := encref.OpenSegment(encref.CipherIDs[h.cipher], h.fk, h.np, uint32(i), false, sg); err != nil {
			return true
		}
	}
	return false
}

// hangPatience: how long the consumer of a Decrypt stream waits for the error of a segment that cannot be authenticated
// when the source stays open; generous (the real code needs microseconds).
const hangPatience = 10 * time.Second

// ---------------------------------------------------------------------------
// model scripts

type script struct {
	NA       int
	LastFull bool
	Ops      [][3]int
	FailAt   int
	WithData bool
	PredRel  int
	PredTerm int
}

// parseScripts extracts <<"SCRIPT", nA, lastFull, <<<<c,a,b>>,...>>, failAt, withData, released, term>> tuples (possibly wrapped over lines).
func parseScripts(out string) []script {
	var res []script
	for {
		i := strings.Index(out, `<<"SCRIPT",`)
		if i < 0 {
			break
		}
		out = out[i+len(`<<"SCRIPT",`):]
		// collect integers and bracket depth until the tuple closes
		depth := 1
		var nums []int
		var opsStart, opsEnd = -1, -1
		j := 0
		for j < len(out) && depth > 0 {
			switch {
			case strings.HasPrefix(out[j:], "<<"):
				depth++
				if depth == 2 && opsStart < 0 {
					opsStart = len(nums)
				}
				j += 2
			case strings.HasPrefix(out[j:], ">>"):
				if depth == 2 && opsEnd < 0 {
					opsEnd = len(nums)
				}
				depth--
				j += 2
			case out[j] == '-' || out[j] >= '0' && out[j] <= '9':
				k := j + 1
				for k < len(out) && out[k] >= '0' && out[k] <= '9' {
					k++
				}
				n, _ := strconv.Atoi(out[j:k])
				nums = append(nums, n)
				j = k
			default:
				j++
			}
		}
		out = out[j:]
		if opsStart < 0 || opsEnd < 0 || (opsEnd-opsStart)%3 != 0 || len(nums) != opsEnd+4 || opsStart != 2 {
			continue
		}
		s := script{NA: nums[0], LastFull: nums[1] == 1, FailAt: nums[opsEnd], WithData: nums[opsEnd+1] == 1, PredRel: nums[opsEnd+2], PredTerm: nums[opsEnd+3]}
		for k := opsStart; k < opsEnd; k += 3 {
			s.Ops = append(s.Ops, [3]int{nums[k], nums[k+1], nums[k+2]})
		}
		res = append(res, s)
	}
	// TLC prints from several workers, in an order that differs from run to run: the scripts are put into a canonical order so that
	// the seeded selection below (and everything drawn from rng after it) is a function of VERIF_SEED alone
	keys := make([]string, len(res))
	idx := make([]int, len(res))
	for i := range res {
		keys[i], idx[i] = scriptKey(res[i]), i
	}
	sort.SliceStable(idx, func(a, b int) bool { return keys[idx[a]] < keys[idx[b]] })
	sorted := make([]script, len(res))
	for i, j := range idx {
		sorted[i] = res[j]
	}
	return sorted
}

// sameMAC reports whether two MAC lines decode, with the decoder the format prescribes, to the same MAC (a flip in the unused bits of
// the last base64 digit is ignored by it).
func sameMAC(a, b []byte) bool {
	ma, ea := base64.StdEncoding.DecodeString(string(a))
	mb, eb := base64.StdEncoding.DecodeString(string(b))
	return ea == nil && eb == nil && bytes.Equal(ma, mb)
}

func scriptKey(s script) string {
	return fmt.Sprintf("%d|%v|%03d|%v|%v|%d|%d", s.NA, s.LastFull, s.Ops, s.FailAt, s.WithData, s.PredRel, s.PredTerm)
}

var unwrapOutcome = []string{"succeeds", "other-key", "fails", "short-key", "zero-key-with-error", "other-key-with-error", "short-key"}

// forge builds, with the README implementation, a document of the same shape as h under the all-zero file key:
// header MAC and every segment are computed under keys derived from 32 zero bytes; the manifest values (wfk, nonce
// prefix, key name) are those of the honest document, so the caller's key provider recognises the wrapped key.
func forge(h *honest) (hdr []byte, units []unit, plain []byte) {
	plain = pseudo(len(h.plain), 777)
	doc, err := encref.Encrypt(plain, encref.EncryptOpts{FileKey: make([]byte, 32), NoncePrefix: h.np, Cph: encref.CipherIDs[h.cipher], Kw: 1, WFK: h.vault.wfk, KeyName: "c02-key"})
	if err != nil {
		panic(err)
	}
	ph, payload := encref.ParseHeader(doc)
	for _, s := range encref.SplitSegments(payload) {
		units = append(units, cellsOf(s))
	}
	return doc[:ph.Len], units, plain
}

func lineRanges(hdr []byte) (r [3][2]int) {
	off := 0
	for i, l := range bytes.SplitN(hdr, []byte{'\n'}, 4) {
		if i < 3 {
			r[i] = [2]int{off, off + len(l)}
			off += len(l) + 1
		}
	}
	return r
}

func opClass(op [3]int, units []unit) string {
	switch op[0] {
	case 1:
		return "flip-scheme"
	case 2:
		return "flip-manifest"
	case 3:
		return "flip-mac"
	case 4:
		n := len(units[op[1]-1].cells)
		switch {
		case op[2] == n:
			return "flip-seg-tag"
		case n == 3 && op[2] == 1:
			return "flip-seg-first-byte"
		}
		return "flip-seg-body"
	case 5:
		return "trunc-in-header"
	case 6:
		switch {
		case op[2] == 0 && op[1] == 1:
			return "trunc@header-end"
		case op[2] == 0:
			return "trunc@segment-boundary"
		case op[2] == 1 && len(units[op[1]-1].cells) == 3:
			return "trunc@lookahead-byte"
		}
		return "trunc-in-segment"
	case 7:
		return "delete-seg"
	case 8:
		return "dup-seg"
	case 9:
		return "swap-seg"
	case 10:
		return "append-copy"
	case 11:
		return "append-garbage"
	case 12:
		return "splice-replace-" + []string{"", "same-key", "other-key", "other-key"}[op[2]%10]
	case 13:
		return "splice-append-" + []string{"", "same-key", "other-key", "other-key"}[op[2]]
	case 14:
		return "unwrap-" + unwrapOutcome[op[1]]
	case 15:
		return "forge-zero-key"
	case 16:
		return "prior-legit-decrypt"
	case 17:
		return "lengthen-" + []string{"", "scheme", "manifest", "mac"}[op[1]]
	}
	return "?"
}

func flipBit(b []byte, rng *rand.Rand) []byte {
	c := append([]byte{}, b...)
	c[rng.Intn(len(c))] ^= 1 << uint(rng.Intn(8))
	return c
}

// apply replays a model script on the honest document's structure and returns the run.
func apply(h *honest, s script, rng *rand.Rand, variant int) run {
	hdr := append([]byte{}, h.hdr...)
	units := append([]unit{}, h.units...)
	unwrap := 0
	prior := false
	forged := false
	var classes []string
	neutral := false
	var hdrStates [][]byte    // header before each flip in it
	var cellFlips [][2][]byte // (cell before, cell after) of each flip in a segment
	for _, op := range s.Ops {
		classes = append(classes, opClass(op, units))
		a, bb := op[1], op[2]
		switch op[0] {
		case 15:
			hdr, units, _ = forge(h)
			forged = true
		case 1, 2, 3:
			ln := lineRanges(hdr)[op[0]-1]
			before := append([]byte{}, hdr...)
			pos := ln[0] + rng.Intn(ln[1]-ln[0])
			hdr[pos] ^= 1 << uint(rng.Intn(8))
			// the byte and bit are drawn, the model knows only the line: the flip may undo an earlier flip, or (MAC line) touch only
			// bits the base64 decoder ignores.  Such an instance is not the mutation the script describes
			for _, e := range hdrStates {
				neutral = neutral || bytes.Equal(e, hdr)
			}
			if lm := lineRanges(hdr); op[0] == 3 && lm == lineRanges(before) && sameMAC(before[ln[0]:ln[1]], hdr[ln[0]:ln[1]]) {
				neutral = true
			}
			hdrStates = append(hdrStates, before)
		case 4:
			u := unit{append([][]byte{}, units[a-1].cells...)}
			before := u.cells[bb-1]
			u.cells[bb-1] = flipBit(before, rng)
			for _, f := range cellFlips {
				if len(f[1]) > 0 && len(before) > 0 && &f[1][0] == &before[0] && bytes.Equal(f[0], u.cells[bb-1]) {
					// the second flip hit the bit the first one hit (cells are identified by their backing array, so this holds
					// wherever the cell has been moved or copied to in between): the model counts the cell as tampered, it is not
					neutral = true
				}
			}
			cellFlips = append(cellFlips, [2][]byte{before, u.cells[bb-1]})
			units[a-1] = u
		case 5:
			hdr = hdr[:1+rng.Intn(len(hdr)-1)]
			units = nil
		case 6:
			keep := append([]unit{}, units[:a-1]...)
			if bb > 0 {
				keep = append(keep, unit{append([][]byte{}, units[a-1].cells[:bb]...)})
			}
			units = keep
		case 7:
			units = append(append([]unit{}, units[:a-1]...), units[a:]...)
		case 8:
			units = append(append(append([]unit{}, units[:a]...), units[a-1]), units[a:]...)
		case 9:
			units = append([]unit{}, units...)
			units[a-1], units[bb-1] = units[bb-1], units[a-1]
		case 10:
			units = append(append([]unit{}, units...), units[a-1])
		case 11:
			var g unit
			switch bb {
			case 1:
				g = unit{[][]byte{pseudo(1, rng.Int63())}}
			case 2:
				g = cellsOf(pseudo(shortLen+tagSize, rng.Int63()))
			default:
				g = cellsOf(pseudo(unitSize, rng.Int63()))
			}
			units = append(append([]unit{}, units...), g)
		case 12:
			units = append([]unit{}, units...)
			units[a-1] = h.b[bb%10][bb/10-1]
		case 13:
			units = append(append([]unit{}, units...), h.b[bb][a-1])
		case 14:
			unwrap = a
		case 16:
			prior = true
		case 17:
			lr := lineRanges(hdr)
			at := lr[0][1] // end of the scheme line
			switch a {
			case 2:
				at = bytes.Index(hdr, []byte(`"wfk":"`)) + 7
			case 3:
				at = lr[2][0]
			}
			hdr = append(append(append([]byte{}, hdr[:at]...), bytes.Repeat([]byte{'A'}, bb)...), hdr[at:]...)
		}
	}
	var doc bytes.Buffer
	doc.Write(hdr)
	cellEnd := []int{len(hdr)} // byte offset after p payload cells
	for _, u := range units {
		for _, c := range u.cells {
			doc.Write(c)
			cellEnd = append(cellEnd, doc.Len())
		}
	}
	r := run{Cipher: h.cipher, PlainLen: len(h.plain), Doc: doc.Bytes(), DocLen: doc.Len(), Unwrap: unwrap, Forged: forged, Prior: prior, Script: encref.NoErr(),
		CBuf: []int{32 * 1024, segSize, 1000, segSize + 1}[variant%4], Pred: []int{s.PredRel, s.PredTerm}, neutral: neutral}
	class := strings.Join(classes, "+")
	if class == "" {
		class = "unmodified"
	}
	if s.FailAt != -1 {
		kinds := []string{"plain", "unexpected-eof", "wrapped-unexpected-eof"}
		sc := encref.Script{ErrKind: kinds[variant%3]}
		var where string
		switch {
		case s.FailAt == -3:
			sc = encref.Script{ErrAt: -1, HoldOpen: true}
			where = "source-stays-open"
		case s.FailAt == -2:
			sc.ErrAt = rng.Intn(len(hdr))
			where = "srcfail-in-header"
		case s.FailAt == 0:
			sc.ErrAt = len(hdr)
			where = "srcfail@header-end"
		default:
			sc.ErrAt = cellEnd[s.FailAt]
			where = "srcfail-in-segment"
			// is it a unit boundary?
			off := len(hdr)
			for _, u := range units {
				off += len(u.bytes())
				if off == sc.ErrAt {
					where = "srcfail@segment-boundary"
				}
			}
			if s.FailAt == len(cellEnd)-1 {
				where = "srcfail@end"
			}
		}
		if s.FailAt == -2 && sc.ErrAt > 0 && variant%2 == 1 || s.WithData && s.FailAt >= 0 {
			sc.ErrWithData = true
			where += "-with-data"
		}
		if variant%4 >= 2 {
			sc.Chunks = []int{100, 1000}
		}
		r.Script = sc
		if s.FailAt == -3 {
			class += "+" + where
		} else {
			class += "+" + where + ":" + sc.ErrKind
		}
		class = strings.TrimPrefix(class, "unmodified+")
	}
	r.Class = class
	r.Desc = fmt.Sprintf("model script nA=%d lastFull=%v ops=%v failAt=%d withData=%v (op codes: see spec/Enc/EncTamper.tla)", s.NA, s.LastFull, s.Ops, s.FailAt, s.WithData)
	return r
}

func predReleasedBytes(h *honest, segs int) int {
	n := segs * segSize
	if n > len(h.plain) {
		n = len(h.plain)
	}
	return n
}

// ---------------------------------------------------------------------------
// byte-level sweeps

func sweeps(thorough bool, rng *rand.Rand) (rs []run, hs []*honest) {
	add := func(h *honest, r run) {
		r.Cipher, r.PlainLen, r.DocLen = h.cipher, len(h.plain), len(r.Doc)
		if r.CBuf == 0 {
			r.CBuf = 32 * 1024
		}
		if r.Script.ErrAt == 0 && !r.Script.ErrWithData && r.Script.ErrKind == "" && r.Script.Chunks == nil {
			r.Script = encref.NoErr()
		}
		rs = append(rs, r)
		hs = append(hs, h)
	}
	for _, cph := range []string{cipherAES, cipherCC} {
		small := mkHonest(cph, 11, "small")
		big := mkHonest(cph, 2*segSize+shortLen, "2seg+tail")
		empty := mkHonest(cph, 0, "empty")
		lineName := func(off int) string {
			for i, l := range small.lines {
				if off >= l[0] && off <= l[1] {
					if off == l[1] {
						return "flip-header-LF"
					}
					return []string{"flip-scheme", "flip-manifest", "flip-mac"}[i]
				}
			}
			return "flip-header"
		}
		// every bit of the header of a small document (and of its single short segment)
		for off := 0; off < len(small.doc); off++ {
			for bit := 0; bit < 8; bit++ {
				d := append([]byte{}, small.doc...)
				d[off] ^= 1 << uint(bit)
				cl := "flip-seg-body"
				if off < len(small.hdr) {
					cl = lineName(off)
				} else if off >= len(small.doc)-tagSize {
					cl = "flip-seg-tag"
				}
				add(small, run{Class: cl, Doc: d, Desc: fmt.Sprintf("small document (11 bytes), flip bit %d of byte %d", bit, off), CBuf: 7})
			}
		}
		// every bit of the first/last 32 bytes and of the tag of every segment of a 2-segment-plus-tail document
		off := len(big.hdr)
		for ui, u := range big.units {
			ul := len(u.bytes())
			var offs []int
			for k := 0; k < 32 && k < ul-tagSize; k++ {
				offs = append(offs, k)
			}
			for k := ul - tagSize - 32; k < ul; k++ {
				if k >= 32 {
					offs = append(offs, k)
				}
			}
			for _, k := range offs {
				for bit := 0; bit < 8; bit++ {
					if !thorough && bit%2 == 1 && k >= 2 && k < ul-tagSize-2 {
						continue // quick tier: every other bit away from the edges
					}
					d := append([]byte{}, big.doc...)
					d[off+k] ^= 1 << uint(bit)
					cl := "flip-seg-body"
					if k == 0 {
						cl = "flip-seg-first-byte"
					} else if k >= ul-tagSize {
						cl = "flip-seg-tag"
					}
					add(big, run{Class: cl, Doc: d, Desc: fmt.Sprintf("2-segment+tail document, flip bit %d of byte %d of stored segment %d", bit, k, ui)})
				}
			}
			off += ul
		}
		// truncation at every offset of the header, around every segment boundary, and near the end
		for _, h := range []*honest{big, small} {
			cuts := map[int]string{}
			for o := 0; o < len(h.hdr); o++ {
				cuts[o] = "trunc-in-header"
			}
			cuts[len(h.hdr)] = "trunc@header-end"
			bo := len(h.hdr)
			for _, u := range h.units {
				for d := 1; d <= 20; d++ {
					if bo+d < len(h.doc) {
						cuts[bo+d] = "trunc-in-segment"
					}
				}
				cuts[bo+1] = "trunc@lookahead-byte"
				bo += len(u.bytes())
				for d := 1; d <= 20; d++ {
					cuts[bo-d] = "trunc-in-segment"
				}
				if bo < len(h.doc) {
					cuts[bo] = "trunc@segment-boundary"
				}
			}
			for i := 0; i < 6; i++ {
				o := len(h.hdr) + 1 + rng.Intn(len(h.doc)-len(h.hdr)-1)
				if _, ok := cuts[o]; !ok {
					cuts[o] = "trunc-in-segment"
				}
			}
			var os []int
			for o := range cuts {
				os = append(os, o)
			}
			sort.Ints(os)
			for _, o := range os {
				if o >= len(h.doc) {
					continue
				}
				add(h, run{Class: cuts[o], Doc: h.doc[:o], Desc: fmt.Sprintf("%d-byte message, document cut to its first %d of %d bytes (header is %d bytes)", len(h.plain), o, len(h.doc), len(h.hdr))})
			}
		}
		// appended bytes
		for _, h := range []*honest{big, small, empty} {
			for _, extra := range []int{1, 15, 16, 17, unitSize} {
				add(h, run{Class: "append-garbage", Doc: append(append([]byte{}, h.doc...), pseudo(extra, int64(extra))...), Desc: fmt.Sprintf("%d-byte message, %d garbage bytes appended", len(h.plain), extra)})
			}
		}
		// source-reader failures at every offset class, every error value, alone / with the final data, sticky / returned once
		for _, h := range []*honest{small, big, empty} {
			offs := map[int]string{0: "srcfail-in-header", 1: "srcfail-in-header", len(h.hdr) / 2: "srcfail-in-header", len(h.hdr) - 1: "srcfail-in-header", len(h.hdr): "srcfail@header-end"}
			bo := len(h.hdr)
			for _, u := range h.units {
				offs[bo+1] = "srcfail-in-segment"
				offs[bo+len(u.bytes())/2] = "srcfail-in-segment"
				bo += len(u.bytes())
				offs[bo-1] = "srcfail-in-segment"
				offs[bo] = "srcfail@segment-boundary"
			}
			offs[len(h.doc)] = "srcfail@end"
			var os []int
			for o := range offs {
				os = append(os, o)
			}
			sort.Ints(os)
			chunkings := [][]int{nil, {len(h.doc)}, {64, 64, 64, 64, 64}, {1, 1, 1}}
			for _, o := range os {
				for _, kind := range []string{"plain", "unexpected-eof", "wrapped-unexpected-eof"} {
					for _, withData := range []bool{false, true} {
						if withData && o == 0 {
							continue
						}
						for _, once := range []bool{false, true} {
							for ci, ch := range chunkings {
								if ci >= 2 && !thorough && kind != "plain" {
									continue
								}
								cl := offs[o]
								if withData {
									cl += "-with-data"
								}
								if once {
									// one class for all offsets: what matters is that the error is not repeated
									cl = "srcfail-once"
									if withData {
										cl += "-with-data"
									}
								}
								add(h, run{Class: cl + ":" + kind, Doc: h.doc, Script: encref.Script{Chunks: ch, ErrAt: o, ErrWithData: withData, ErrKind: kind, Once: once},
									Desc: fmt.Sprintf("%d-byte message (document %d bytes, header %d), source fails (%s) after %d bytes, withData=%v, errorReturnedOnce=%v, chunks=%v", len(h.plain), len(h.doc), len(h.hdr), kind, o, withData, once, ch)})
							}
						}
					}
				}
			}
		}
		// segments of ANOTHER document made by the real Encrypt (its own random file key and nonce prefix) spliced in
		{
			other := mkHonest(cph, 2*segSize+shortLen+1, "other-real")
			for u := 0; u < 3; u++ {
				var d bytes.Buffer
				d.Write(big.hdr)
				for j := range big.units {
					if j == u {
						d.Write(other.units[u].bytes())
					} else {
						d.Write(big.units[j].bytes())
					}
				}
				add(big, run{Class: "splice-replace-real-document", Doc: d.Bytes(), Desc: fmt.Sprintf("stored segment %d replaced by stored segment %d of another document produced by the real Encrypt", u, u)})
			}
		}
		// header lines whose (base64) payload is LONGER than what Encrypt writes
		for _, h := range []*honest{small, big} {
			lr := lineRanges(h.hdr)
			splice := func(at, del int, ins []byte) []byte {
				return append(append(append([]byte{}, h.doc[:at]...), ins...), h.doc[at+del:]...)
			}
			b64 := func(n int, seed int64) []byte { return []byte(base64.StdEncoding.EncodeToString(pseudo(n, seed))) }
			for _, n := range []int{0, 1, 16, 31, 33, 34, 35, 48, 64, 100, 1000, 49000} {
				add(h, run{Class: "lengthen-mac", Doc: splice(lr[2][0], lr[2][1]-lr[2][0], b64(n, int64(n))), Desc: fmt.Sprintf("MAC line replaced by the base64 of %d bytes", n)})
			}
			for k := 1; k <= 8; k++ {
				ins := bytes.Repeat([]byte{'Q'}, k)
				add(h, run{Class: "lengthen-mac", Doc: splice(lr[2][0], 0, ins), Desc: fmt.Sprintf("%d base64 characters inserted at the start of the MAC line", k)})
				add(h, run{Class: "lengthen-mac", Doc: splice(lr[2][1]-1, 0, ins), Desc: fmt.Sprintf("%d base64 characters inserted before the padding of the MAC line", k)})
				add(h, run{Class: "lengthen-mac", Doc: splice(lr[2][1], 0, ins), Desc: fmt.Sprintf("%d base64 characters appended to the MAC line", k)})
				add(h, run{Class: "lengthen-scheme", Doc: splice(lr[0][1], 0, ins), Desc: fmt.Sprintf("%d characters appended to the scheme line", k)})
				for _, f := range []string{`"wfk":"`, `"np":"`, `"k":"`} {
					if at := bytes.Index(h.hdr, []byte(f)); at >= 0 {
						add(h, run{Class: "lengthen-manifest", Doc: splice(at+len(f), 0, ins), Desc: fmt.Sprintf("%d characters inserted at the start of the manifest value %s", k, f)})
					}
				}
			}
			for _, f := range []string{`"wfk":"`, `"np":"`} {
				at := bytes.Index(h.hdr, []byte(f)) + len(f)
				end := at + bytes.IndexByte(h.hdr[at:], '"')
				for _, n := range []int{8, 9, 33, 64, 600} {
					add(h, run{Class: "lengthen-manifest", Doc: splice(at, end-at, b64(n, int64(n)+3)), Desc: fmt.Sprintf("manifest value %s replaced by the base64 of %d bytes", f, n)})
				}
			}
		}
		// a source that stays open after its last byte (a pipe / network body whose writer waits for the outcome): a segment that
		// cannot be authenticated and is followed by more input must be rejected without waiting for the end of the input
		for _, o := range []int{len(big.hdr), len(big.hdr) + 1000, len(big.hdr) + unitSize - 2, len(big.hdr) + unitSize + 7, len(big.hdr) + 2*unitSize - 20} {
			d := append([]byte{}, big.doc...)
			d[o] ^= 0x20
			add(big, run{Class: "flip-seg+source-stays-open", Doc: d, Script: encref.Script{ErrAt: -1, HoldOpen: true, ChunkSize: 10000},
				Desc: fmt.Sprintf("2-segment+tail document, bit flipped in byte %d (stored segment %d, followed by more input); the source blocks after its last byte instead of returning EOF", o, (o-len(big.hdr))/unitSize)})
		}
		{
			d := append(append(append([]byte{}, big.hdr...), big.units[1].bytes()...), big.doc[len(big.hdr):]...)
			add(big, run{Class: "dup-seg+source-stays-open", Doc: d, Script: encref.Script{ErrAt: -1, HoldOpen: true}, Desc: "stored segment 1 inserted in front of segment 0; the source blocks after its last byte"})
		}
		// documents forged under the all-zero file key x every outcome of the unwrap callback
		for _, h := range []*honest{small, big, empty} {
			fh, fu, _ := forge(h)
			var fd bytes.Buffer
			fd.Write(fh)
			for _, u := range fu {
				fd.Write(u.bytes())
			}
			for uw := 0; uw <= 6; uw++ {
				add(h, run{Class: "forge-zero-key+unwrap-" + unwrapOutcome[uw], Doc: fd.Bytes(), Unwrap: uw, Forged: true,
					Desc: fmt.Sprintf("document of a %d-byte attacker message built with the README implementation under the all-zero file key (MAC and segments under HKDF(32 zero bytes)), garbage wfk; unwrap callback outcome %d (%s)", len(h.plain), uw, unwrapOutcome[uw])})
			}
		}
		// wrong unwrapped key
		for _, h := range []*honest{small, big, empty} {
			for uw := 3; uw <= 6; uw++ {
				add(h, run{Class: "unwrap-" + unwrapOutcome[uw], Doc: h.doc, Unwrap: uw, Desc: fmt.Sprintf("honest document, unwrap callback outcome %d (%s)", uw, unwrapOutcome[uw])})
			}
			add(h, run{Class: "unwrap-other-key", Doc: h.doc, Unwrap: 1, Desc: "unwrap callback returns another 32-byte key"})
			add(h, run{Class: "unwrap-fails", Doc: h.doc, Unwrap: 2, Desc: "unwrap callback fails"})
		}
	}
	return rs, hs
}

// ---------------------------------------------------------------------------
// position binding of a single segment over the whole 32-bit counter range (v1.VerifSegmentFns)

type posCase struct {
	Cipher string `json:"cipher"`
	Sealer string `json:"sealer"` // real: sealed by the real segment encryptor; ref: by the README implementation
	N      uint32 `json:"N"`
	Last   bool   `json:"last"`
}

// runPosition seals one chunk for (N, last) and hands it to the REAL segment decryptor at every candidate position:
// the boundary counters, N mod 2^24, N mod 2^16, N +- 2^24, N +- 2^16, N +- 1, each with both last flags.
func runPosition(b *tv.Batch, cs posCase) {
	b.Start(tv.M{"class": "segment-position", "len": 0, "mutated": true, "headerOnly": false, "forged": false, "cipher": cs.Cipher, "sealer": cs.Sealer, "N": int64(cs.N), "last": cs.Last})
	fk, np := pseudo(32, int64(cs.N)+15), pseudo(7, int64(cs.N)+16)
	chunk := pseudo(40, int64(cs.N)+17)
	enc, dec, err := v1.VerifSegmentFns(fk, np, v1.Cipher(cs.Cipher))
	if err != nil {
		panic(err)
	}
	var sealed []byte
	if cs.Sealer == "real" {
		var out bytes.Buffer
		buf := make([]byte, len(chunk), len(chunk)+64)
		copy(buf, chunk)
		if err := enc(&out, buf, cs.N, cs.Last); err != nil {
			panic(err)
		}
		sealed = out.Bytes()
	} else {
		sealed, _ = encref.SealSegment(encref.CipherIDs[cs.Cipher], fk, np, cs.N, cs.Last, chunk)
	}
	seen := map[uint32]bool{}
	var cands []uint32
	for _, n := range append(append([]uint32{}, encref.BoundaryCounters...), cs.N%(1<<24), cs.N%(1<<16), cs.N+1<<24, cs.N-1<<24, cs.N+1<<16, cs.N-1<<16, cs.N+1, cs.N-1, cs.N^1, cs.N>>8, cs.N<<8) {
		if !seen[n] {
			seen[n] = true
			cands = append(cands, n)
		}
	}
	for _, n2 := range cands {
		for _, l2 := range []bool{false, true} {
			var w bytes.Buffer
			err := dec(&w, append(make([]byte, 0, len(sealed)+16), sealed...), n2, l2)
			b.Ev("openat", tv.M{"shi": int(cs.N >> 16), "slo": int(cs.N & 0xffff), "slast": cs.Last, "hi": int(n2 >> 16), "lo": int(n2 & 0xffff), "last": l2,
				"ok": err == nil && bytes.Equal(w.Bytes(), chunk), "wrote": w.Len(), "n2": int64(n2)})
		}
	}
	b.Ev("end", tv.M{"term": "err", "released": 0, "equal": true})
}

func flag(l bool) string {
	if l {
		return "L"
	}
	return ""
}

// ---------------------------------------------------------------------------

func mcRun(e *ev.Evidence, cfg string, timeout time.Duration, wantViolation bool) tlc.Result {
	module := "EncTamper"
	if strings.HasPrefix(cfg, "MC_position") {
		module = "EncPosition"
	}
	mc := encref.RunTLC(tlc.Opts{Dir: specDir, Module: module, Config: cfg, Workers: 16, Timeout: timeout, Args: []string{"-noGenerateSpecTE"}, HeapMB: 8192})
	fmt.Printf("MC "+module+"/%s: ok=%v violation=%v generated=%d distinct=%d depth=%d wall=%s %s\n", cfg, mc.OK, mc.Violation, mc.Generated, mc.Distinct, mc.Depth, mc.Wall.Round(time.Millisecond), mc.What)
	if wantViolation {
		if !mc.Violation {
			e.Inconclusive("configuration " + cfg + " of " + module + " was not rejected by TLC (vacuous model check?): " + mc.What)
		}
	} else if !mc.OK {
		e.Inconclusive("model check of " + module + " (" + cfg + ") did not pass: " + mc.What + "\n" + mc.Tail(3000))
	}
	return mc
}

func exportScripts(e *ev.Evidence, cfg string) []script {
	ss, _ := exportScriptsRes(e, cfg)
	return ss
}

func exportScriptsRes(e *ev.Evidence, cfg string) ([]script, tlc.Result) {
	res := encref.RunTLC(tlc.Opts{Dir: specDir, Module: "EncTamper", Config: cfg, Workers: 8, Timeout: 20 * time.Minute, Args: []string{"-noGenerateSpecTE"}, HeapMB: 8192})
	if !res.OK {
		e.Inconclusive("script export " + cfg + " failed: " + res.What + "\n" + res.Tail(2000))
		return nil, res
	}
	ss := parseScripts(res.Output)
	fmt.Printf("script export %s: %d scripts (%d states) wall=%s\n", cfg, len(ss), res.Distinct, res.Wall.Round(time.Millisecond))
	return ss, res
}

type batches struct {
	bs     []*tv.Batch
	caseOf [][]int
}

func (m *batches) cur() *tv.Batch {
	if len(m.bs) == 0 || m.bs[len(m.bs)-1].Lines() >= 250000 {
		m.bs = append(m.bs, &tv.Batch{})
		m.caseOf = append(m.caseOf, nil)
	}
	return m.bs[len(m.bs)-1]
}
func (m *batches) note(i int) { m.caseOf[len(m.bs)-1] = append(m.caseOf[len(m.bs)-1], i) }

func TestCheck(t *testing.T) {
	e := ev.New("C02", "model_checking")
	defer func() {
		if e.Write() > 0 {
			t.Fail()
		}
	}()
	thorough := ev.Thorough()
	rng := rand.New(rand.NewSource(ev.Seed()))

	// 1. model checks (background)
	mcDone := make(chan tlc.Result, 1)
	go func() {
		var mc tlc.Result
		if thorough {
			mc = mcRun(e, "MC_tamper_big.cfg", 40*time.Minute, false)
		}
		// configurations TLC must reject (strict = without the named exemption; defect variants), three at a time
		var dw sync.WaitGroup
		sem := make(chan struct{}, 3)
		for _, d := range []string{"MC_tamper_strict.cfg", "MC_tamper_defect_nolastbind.cfg", "MC_tamper_defect_release-first.cfg", "MC_tamper_defect_swallow.cfg",
			"MC_tamper_defect_zero-key-accepted.cfg", "MC_tamper_defect_wipes-unwrapped-key.cfg", "MC_tamper_defect_double-put.cfg", "MC_tamper_defect_drain-before-close.cfg", "MC_tamper_defect_mac-overflow-panics.cfg", "MC_position_defect_wrap24.cfg", "MC_position_defect_wrap16.cfg", "MC_position_defect_last-overlaps.cfg"} {
			dw.Add(1)
			go func(d string) {
				defer dw.Done()
				sem <- struct{}{}
				defer func() { <-sem }()
				mcRun(e, d, 3*time.Minute, true)
			}(d)
		}
		mcRun(e, "MC_position.cfg", 3*time.Minute, false)
		dw.Wait()
		mcDone <- mc
	}()

	// 2. scripts exported by TLC
	var s1, s2 []script
	var mcQuick tlc.Result
	if thorough {
		s1 = exportScripts(e, "MC_tamper_scripts1.cfg") // <= 1 op, with and without source failure
		s2 = exportScripts(e, "MC_tamper_scripts2.cfg") // <= 2 ops
	} else {
		// quick tier: the exhaustive model check (<= 2 ops, source failure with <= 1 op, all invariants) prints its own terminal states
		var all []script
		all, mcQuick = exportScriptsRes(e, "MC_tamper_small_export.cfg")
		for _, sc := range all {
			if len(sc.Ops) <= 1 {
				s1 = append(s1, sc)
			} else {
				s2 = append(s2, sc)
			}
		}
	}
	var scripts []script
	scripts = append(scripts, s1...)
	two := 0
	for _, s := range s2 {
		if len(s.Ops) < 2 {
			continue // already in s1
		}
		two++
		if thorough || rng.Intn(5) == 0 {
			scripts = append(scripts, s)
		}
	}
	if thorough {
		for _, s := range exportScripts(e, "MC_tamper_scripts3.cfg") {
			if len(s.Ops) == 3 && rng.Intn(10) == 0 {
				scripts = append(scripts, s)
			}
		}
	}
	fmt.Printf("scripts: %d with <=1 op (all replayed), %d with 2 ops, %d selected in total\n", len(s1), two, len(scripts))

	// 3. replay on real documents, one operation at a time (see C08 for concurrent streams); every mutated document is
	// built, decrypted and dropped before the next one
	var runs []run
	mb := &batches{}
	drift := 0
	nNeutral := 0 // printed, not part of the evidence: it depends on the (random) file keys and is 0, 1 or 2 in a quick run
	var driftSamples []any
	classes := map[string]int{}
	controlled := map[*honest]bool{}
	start := time.Now()
	instrumentPool()
	defer runtime.GOMAXPROCS(runtime.GOMAXPROCS(1)) // one pool shard: what one stream puts back is what the next one gets
	// harness sanity + key-provider / pool laws on the unmodified document: it decrypts
	ensureControl := func(h *honest) bool {
		if controlled[h] {
			return true
		}
		controlled[h] = true
		cr := run{Class: "control", Cipher: h.cipher, PlainLen: len(h.plain), DocLen: len(h.doc), Doc: h.doc, Script: encref.NoErr(), CBuf: 4096,
			Desc: fmt.Sprintf("unmodified document of a %d-byte message (made by the real Encrypt through the caching key provider)", len(h.plain))}
		o := execute(mb.cur(), h, cr)
		mb.note(len(runs))
		cr.Doc = nil
		runs = append(runs, cr)
		if o.term != "eof" || !o.equal {
			e.Inconclusive(fmt.Sprintf("control: an unmodified %d-byte %s document does not decrypt (term=%s) - see C01", len(h.plain), h.cipher, o.term))
			return false
		}
		return true
	}
	hangs := 0
	doRun := func(h *honest, r run) bool {
		if !ensureControl(h) {
			return false
		}
		if r.Script.HoldOpen {
			// the source stays open after its last byte.  Only documents that the decryptor demonstrably rejects WITHOUT needing the end
			// of the input are replayed this way (otherwise it legitimately waits): probe with the same document from a source that ends
			if hangs >= 2 {
				return true // the family is cut short after two hangs (each costs the watchdog's patience)
			}
			probe := r
			probe.Script = encref.NoErr()
			po := execute(&tv.Batch{}, h, probe)
			early := r.Unwrap == 0 && rejectsEarly(h, r.Doc) // judged by the README implementation, not by the code under test
			hdrOnly := po.term == "decrypt-err" && bytes.Count(r.Doc, []byte{'\n'}) >= 3
			if !early && !hdrOnly {
				return true
			}
		}
		if !ensureControl(h) {
			return false
		}
		o := execute(mb.cur(), h, r)
		if o.term == "hang" {
			hangs++
		}
		mb.note(len(runs))
		classes[strings.SplitN(r.Class, ":", 2)[0]]++
		e.Nontrivial(r.Cipher + "|" + r.Desc + "|" + r.Class)
		if r.Pred != nil && r.neutral {
			nNeutral++
		}
		r.Doc = nil
		if r.Pred != nil && !r.neutral {
			want := []string{"eof", "err", "decrypt-err", "pending"}[r.Pred[1]%4]
			sameTerm := o.term == want
			if r.Script.ErrAt >= 0 && want != "eof" && o.term != "eof" {
				// a source failure is reported by Decrypt itself when the failing Read is the one that completes the header
				// (depends on the reader's chunking, which the symbolic model abstracts): both are "an error"
				sameTerm = true
			}
			if !sameTerm || o.released != predReleasedBytes(h, r.Pred[0]) {
				drift++
				if len(driftSamples) < 5 {
					driftSamples = append(driftSamples, tv.M{"run": r, "model": tv.M{"term": want, "releasedSegments": r.Pred[0]}, "real": tv.M{"term": o.term, "released": o.released}})
				}
			}
		}
		runs = append(runs, r)
		return true
	}
	for i, s := range scripts {
		for ci, cph := range []string{cipherAES, cipherCC} {
			h := mkHonest(cph, shapeLen(s.NA, s.LastFull), "shape")
			if !doRun(h, apply(h, s, rng, i+ci)) {
				return
			}
		}
	}
	nScriptRuns := len(runs)
	sr, sh := sweeps(thorough, rng)
	for i := range sr {
		if !doRun(sh[i], sr[i]) {
			return
		}
		sr[i].Doc = nil
	}
	// staged family: ONE tampered document is rejected, then 2..4 streams of different valid documents overlap, each behind
	// a slow consumer with a small buffer; every stream must deliver its own plaintext (or end in an error)
	nOverlap := 0
	for ci, cph := range []string{cipherAES, cipherCC} {
		for k := 2; k <= 4; k++ {
			big := mkHonest(cph, 2*segSize+shortLen, "2seg+tail")
			var hs []*honest
			for j := 0; j < k; j++ {
				hs = append(hs, mkHonest(cph, segSize+1000*(j+1)+j, fmt.Sprintf("overlap%d", j)))
			}
			for _, h := range append([]*honest{big}, hs...) {
				if !ensureControl(h) {
					return
				}
			}
			// (a) the rejected document: one bit of the tag of stored segment (k+ci)%3 flipped
			d := append([]byte{}, big.doc...)
			off := len(big.hdr)
			for u := 0; u <= (k+ci)%3; u++ {
				off += len(big.units[u].bytes())
			}
			d[off-3] ^= 0x10
			if !doRun(big, run{Class: "overlap-stage-reject", Cipher: cph, PlainLen: len(big.plain), DocLen: len(d), Doc: d, Script: encref.NoErr(), CBuf: 5000, NoDrain: true,
				Desc: fmt.Sprintf("stage 1 of the overlap family: tag of stored segment %d flipped (the pool is left as this run leaves it)", (k+ci)%3)}) {
				return
			}
			// (b) open the k streams one after the other; each loop goroutine reads its first segment, opens it in place and blocks on its pipe
			type stream struct {
				h        *honest
				dec      io.Reader
				err      error
				rel      []tv.M
				released int
				prefixOK bool
				term     string
			}
			putsBefore := poolPuts.Load()
			var sts []*stream
			for _, h := range hs {
				st := &stream{h: h, prefixOK: true}
				src := encref.New(h.doc, encref.NoErr(), nil)
				st.dec, st.err = v1.Decrypt(src, v1.DecryptOptions{UnwrapKeyFn: h.vault.unwrap})
				need := len(h.hdr) + unitSize + 1
				for t0 := time.Now(); src.Pos() < need && time.Since(t0) < 100*time.Millisecond; {
					time.Sleep(50 * time.Microsecond)
				}
				time.Sleep(300 * time.Microsecond)
				sts = append(sts, st)
			}
			// (c) the consumers read, last stream first, 700 bytes at a time
			for j := len(sts) - 1; j >= 0; j-- {
				st := sts[j]
				if st.err != nil {
					st.term = "decrypt-err"
					continue
				}
				buf := make([]byte, 700)
				for t0 := time.Now(); ; {
					n, err := st.dec.Read(buf)
					if n > 0 {
						if st.released+n > len(st.h.plain) || !bytes.Equal(buf[:n], st.h.plain[st.released:st.released+n]) {
							st.prefixOK = false
						}
						st.released += n
						st.rel = append(st.rel, tv.M{"n": n, "prefixOK": st.prefixOK})
					}
					if err != nil {
						st.term = map[bool]string{true: "eof", false: "err"}[err == io.EOF]
						break
					}
					if time.Since(t0) > 30*time.Second {
						st.term = "hang"
						break
					}
				}
			}
			waitPuts(putsBefore + int64(2*k))
			for j, st := range sts {
				b := mb.cur()
				b.Start(tv.M{"class": "overlap-after-reject", "len": len(st.h.plain), "mutated": false, "headerOnly": false, "forged": false, "cipher": cph, "streams": k, "stream": j})
				b.Ev("decrypt", tv.M{"err": st.err != nil})
				for _, m := range st.rel {
					b.Ev("release", m)
				}
				b.Ev("end", tv.M{"term": st.term, "released": st.released, "equal": st.prefixOK && st.released == len(st.h.plain)})
				b.Ev("keycheck", tv.M{"intact": st.h.vault.intact(), "after": "decrypt"})
				st.h.vault.restore()
				if j == len(sts)-1 {
					twice, n := drainPool()
					b.Ev("pool", tv.M{"twice": twice, "buffers": n})
				}
				mb.note(len(runs))
				runs = append(runs, run{Class: "overlap-after-reject", Cipher: cph, PlainLen: len(st.h.plain), DocLen: len(st.h.doc), CBuf: 700, Script: encref.NoErr(),
					Desc: fmt.Sprintf("stream %d of %d overlapping Decrypt streams of different valid documents (%d-byte message) opened right after one tampered document was rejected; consumers read last-opened first, 700 bytes at a time", j+1, k, len(st.h.plain))})
				classes["overlap-after-reject"]++
				nOverlap++
			}
		}
	}
	fmt.Printf("replayed %d runs of the real Decrypt (%d from model scripts, %d from byte-level sweeps) in %s; model/real outcome disagreements (drift): %d; mutations that turned out to be no mutation (not compared with the prediction): %d\n",
		len(runs), nScriptRuns, len(runs)-nScriptRuns, time.Since(start).Round(time.Millisecond), drift, nNeutral)

	mc := <-mcDone
	if !thorough {
		mc = mcQuick
	}
	e.Set("states", mc.Distinct)
	e.Set("transitions", mc.Generated)
	e.Set("checker_cmd", mc.Cmd)
	e.Set("drift", drift > 0)
	e.Set("drift_runs", drift)
	e.Set("drift_note", "drift = the real terminal class / released byte count differs from the symbolic model's prediction while the Contract still holds. "+
		"Two kinds of script instance are not compared with the prediction because the bytes the harness drew make the scripted mutation no mutation at all "+
		"(which ones depends on the random file key, so they are counted on stdout only): two flips that hit the same bit and restore the document, and a flip in the "+
		"MAC line that leaves the decoded MAC unchanged (unused trailing bits of the last base64 digit, which Go's lenient decoder ignores). "+
		"Both still go through the Contract check and the TLC trace validation like every other run")
	if len(driftSamples) > 0 {
		e.Set("drift_samples", driftSamples)
	}
	e.Set("mutation_classes", classes)
	e.Set("overlap_streams", nOverlap)
	e.Set("key_provider", "caching vault: the unwrap callback returns the same retained slice (the one WrapKeyFn was given) on every call; checked intact after every Encrypt / Decrypt")
	e.Set("pool_discipline", "after every run v1.BufPool is drained (GOMAXPROCS=1) and no buffer may come out twice")
	e.Set("evaluations", int64(len(runs)))
	e.Set("rule", "run = (honest document made by the real Encrypt: shape 0..3 segments / last short or full / small / 2-segment+tail, cipher) x (mutation: model script of <=2 (3) adversary operations exported by TLC, or byte-level sweep item: bit position, cut offset, appended bytes) x (source failure: offset class, error value, alone / with the final data, sticky / returned once, reader chunking) x wrong unwrapped key; "+
		"every run is non-trivial (it is a mutation or a failure); distinct by (cipher, recipe, class)")

	// 4. TLC judges the recorded runs
	total, rejects := 0, 0
	for bi, b := range mb.bs {
		rej, res := encref.Validate(tlc.Opts{Dir: specDir, Module: "TraceEncTamper", Config: "TraceEncTamper.cfg", Workers: 8, Timeout: ev.Pick(6*time.Minute, 30*time.Minute), HeapMB: 8192}, b)
		fmt.Printf("TLC trace validation batch %d: traces=%d lines=%d ok=%v rejects=%d wall=%s %s\n", bi, b.Len(), b.Lines(), res.OK, len(rej), res.Wall.Round(time.Millisecond), res.What)
		if !res.OK {
			e.Inconclusive("trace validation did not run: " + res.What + "\n" + res.Tail(2000))
			continue
		}
		total += b.Len()
		rejects += len(rej)
		for _, rj := range rej {
			r := runs[mb.caseOf[bi][rj.Trace]]
			key := strings.SplitN(r.Class, ":", 2)[0] + ":" + slug(rj.Why)
			what := fmt.Sprintf("%s [%s, %s]: %s", r.Class, r.Cipher, r.Desc, rj.Why)
			if r.Forged && strings.HasPrefix(rj.Why, "forged document") {
				key = "forged-under-zero-key:unwrap-" + unwrapOutcome[r.Unwrap]
				what = fmt.Sprintf("Decrypt accepted a document FORGED under the all-zero file key when the unwrap callback %s [%s, %s]: %s", unwrapOutcome[r.Unwrap], r.Cipher, r.Desc, rj.Why)
			}
			if r.Forged && r.Prior && strings.HasPrefix(rj.Why, "forged document") {
				key = "forged-under-zero-key:after-legit-decrypt-through-caching-unwrap"
			}
			if strings.HasPrefix(rj.Why, "caller's retained key") {
				after := "decrypt"
				if strings.Contains(b.TraceStrings(rj.Trace)[rj.At], `"after":"encrypt"`) {
					after = "encrypt"
				}
				key = "caller-key-modified:after-" + after
				what = fmt.Sprintf("the key bytes retained by the caller's key provider (the slice the unwrap callback returns / the wrap callback was given) were modified by %s [first seen: %s, %s, %s]", after, r.Class, r.Cipher, r.Desc)
			}
			if rj.Why == "Decrypt panicked" {
				entry, val := "Decrypt", ""
				for _, l := range b.TraceStrings(rj.Trace) {
					if strings.Contains(l, `"ev":"panic"`) {
						var pe struct {
							Entry string `json:"entry"`
							Value string `json:"value"`
						}
						_ = json.Unmarshal([]byte(l), &pe)
						entry, val = pe.Entry, pe.Value
					}
				}
				cl := strings.SplitN(r.Class, ":", 2)[0]
				for _, part := range strings.Split(cl, "+") {
					if strings.HasPrefix(part, "lengthen-") || strings.HasPrefix(part, "flip-mac") || strings.HasPrefix(part, "flip-manifest") || strings.HasPrefix(part, "flip-scheme") || strings.HasPrefix(part, "trunc-in-header") {
						cl = part // the header mutation is what the synchronous part of Decrypt sees
						break
					}
				}
				key = "panic:" + entry + ":" + cl
				what = fmt.Sprintf("%s panicked (%s) instead of returning an error [%s, %s, %s]", entry, val, r.Class, r.Cipher, r.Desc)
			}
			if rj.Why == "stream never terminated" && r.Script.HoldOpen {
				key = "stream-never-terminated-after-tampered-segment"
				what = fmt.Sprintf("the source stays open after its last byte; the Decrypt stream delivered neither an error nor an end within %s although it had read a segment it cannot authenticate [first seen: %s, %s, %s]", hangPatience, r.Class, r.Cipher, r.Desc)
			}
			if strings.HasPrefix(rj.Why, "pooled buffer") {
				term := "?"
				for _, l := range b.TraceStrings(rj.Trace) {
					if j := strings.Index(l, `"term":"`); j >= 0 && strings.Contains(l, `"ev":"end"`) {
						term = l[j+8:]
						term = term[:strings.IndexByte(term, '"')]
					}
				}
				key = "bufpool-double-put:stream-ended-" + term
				what = fmt.Sprintf("after a Decrypt whose stream ended in %q the same buffer is in v1.BufPool twice [first seen: %s, %s, %s]", term, r.Class, r.Cipher, r.Desc)
			}
			if rj.Why == namedWhy {
				key = namedKey
				what = "document cut right after its header (all segments removed) decrypts to the empty message with a clean EOF: " + r.Desc
			}
			e.Violation(key, what, tv.M{"run": r, "trace": b.TraceStrings(rj.Trace), "at": rj.At})
		}
	}
	e.Set("traces_validated_against_impl", int64(total))
	e.Set("rejected_runs", rejects)
	for _, i := range []int{0, nScriptRuns / 2, nScriptRuns + 5, len(runs) - 1} {
		if i >= 0 && i < len(runs) {
			bi, ti := 0, i
			for bi < len(mb.bs) && ti >= mb.bs[bi].Len() {
				ti -= mb.bs[bi].Len()
				bi++
			}
			e.Sample(tv.M{"run": runs[i], "trace": mb.bs[bi].TraceStrings(ti)})
		}
	}

	// 4b. position binding of single segments over the 32-bit counter range
	pb := &tv.Batch{}
	var pcases []posCase
	nOpen := 0
	for _, cph := range []string{cipherAES, cipherCC} {
		for _, sealer := range []string{"real", "ref"} {
			for _, n := range encref.BoundaryCounters {
				for _, last := range []bool{false, true} {
					pcases = append(pcases, posCase{Cipher: cph, Sealer: sealer, N: n, Last: last})
					runPosition(pb, pcases[len(pcases)-1])
					e.Nontrivial(fmt.Sprintf("position %v", pcases[len(pcases)-1]))
				}
			}
		}
	}
	nOpen = pb.Lines() - 2*pb.Len()
	prej, pres := encref.Validate(tlc.Opts{Dir: specDir, Module: "TraceEncTamper", Config: "TraceEncTamper.cfg", Workers: 4, Timeout: 5 * time.Minute}, pb)
	fmt.Printf("TLC position-binding trace validation: traces=%d openat=%d ok=%v rejects=%d wall=%s %s\n", pb.Len(), nOpen, pres.OK, len(prej), pres.Wall.Round(time.Millisecond), pres.What)
	if !pres.OK {
		e.Inconclusive("position-binding trace validation did not run: " + pres.What)
	} else {
		total += pb.Len()
		e.Set("traces_validated_against_impl", int64(total))
		e.Set("evaluations", int64(len(runs)+nOpen))
		e.Set("position_binding", tv.M{"sealed_segments": len(pcases), "open_attempts": nOpen})
	}
	for _, rj := range prej {
		cs := pcases[rj.Trace]
		var evt struct {
			N2   int64 `json:"n2"`
			Last bool  `json:"last"`
		}
		_ = json.Unmarshal([]byte(pb.TraceStrings(rj.Trace)[rj.At]), &evt)
		key := fmt.Sprintf("segment-position-not-bound:%d%s->%d%s", cs.N, flag(cs.Last), evt.N2, flag(evt.Last))
		if strings.Contains(rj.Why, "own position") {
			key = fmt.Sprintf("segment-rejected-at-own-position:%d%s", cs.N, flag(cs.Last))
		} else if strings.Contains(rj.Why, "released bytes") {
			key = fmt.Sprintf("rejected-segment-released-bytes:%d%s->%d%s", cs.N, flag(cs.Last), evt.N2, flag(evt.Last))
		}
		e.Violation(key, fmt.Sprintf("%s, segment sealed (%s) for number %d last=%v, presented at number %d last=%v: %s", cs.Cipher, cs.Sealer, cs.N, cs.Last, evt.N2, evt.Last, rj.Why),
			tv.M{"case": cs, "event": pb.TraceStrings(rj.Trace)[rj.At], "at": rj.At})
	}

	// 5. binding self-test
	selfTest(e)
}

func selfTest(e *ev.Evidence) {
	h := mkHonest(cipherAES, 2*segSize+shortLen, "2seg+tail")
	good := &tv.Batch{}
	// a real run: last segment deleted -> error after two released segments
	cut := len(h.doc) - len(h.units[2].bytes())
	execute(good, h, run{Class: "selftest", Doc: h.doc[:cut], Script: encref.NoErr(), CBuf: segSize})
	lines := good.Trace(0)
	b := &tv.Batch{}
	b.AppendTrace(lines)
	var mutA, mutB, mutC [][]byte
	for _, l := range lines {
		mutA = append(mutA, bytes.Replace(l, []byte(`"term":"err"`), []byte(`"term":"eof"`), 1)) // shortened message, clean EOF
		mutB = append(mutB, bytes.Replace(l, []byte(`"prefixOK":true`), []byte(`"prefixOK":false`), 1))
	}
	// a source failure whose terminal error is rewritten to a clean EOF with all bytes released
	sf := &tv.Batch{}
	execute(sf, h, run{Class: "selftest", Doc: h.doc, Script: encref.Script{ErrAt: len(h.doc), ErrKind: "plain"}, CBuf: segSize})
	for _, l := range sf.Trace(0) {
		l = bytes.Replace(l, []byte(`"term":"err"`), []byte(`"term":"eof"`), 1)
		l = bytes.Replace(l, []byte(`"equal":false`), []byte(`"equal":true`), 1)
		mutC = append(mutC, l)
	}
	b.AppendTrace(mutA)
	b.AppendTrace(mutB)
	b.AppendTrace(sf.Trace(0))
	b.AppendTrace(mutC)
	// position binding: a real run, and the same with one foreign-position attempt rewritten to "accepted"
	pg := &tv.Batch{}
	runPosition(pg, posCase{Cipher: cipherAES, Sealer: "real", N: 1 << 24, Last: false})
	var mutP [][]byte
	done := false
	for _, l := range pg.Trace(0) {
		if !done && bytes.Contains(l, []byte(`"ok":false`)) {
			l = bytes.Replace(l, []byte(`"ok":false`), []byte(`"ok":true`), 1)
			done = true
		}
		mutP = append(mutP, l)
	}
	b.AppendTrace(pg.Trace(0))
	b.AppendTrace(mutP)
	rej, res := encref.Validate(tlc.Opts{Dir: specDir, Module: "TraceEncTamper", Config: "TraceEncTamper.cfg", Workers: 2, Timeout: 2 * time.Minute}, b)
	got := map[int]bool{}
	for _, r := range rej {
		got[r.Trace] = true
	}
	ok := res.OK && !got[0] && got[1] && got[2] && !got[3] && got[4] && !got[5] && got[6]
	e.Set("binding_selftest", tv.M{"unmodified_trace_accepted": !got[0], "terminal_error_rewritten_to_eof_rejected": got[1], "prefix_flag_rewritten_rejected": got[2],
		"source_failure_trace_accepted": !got[3], "source_failure_rewritten_to_eof_rejected": got[4],
		"position_binding_trace_accepted": !got[5], "foreign_position_rewritten_to_accepted_rejected": got[6]})
	if !ok {
		e.Inconclusive(fmt.Sprintf("binding self-test failed: rejects=%v %s", rej, res.What))
	}
}
