package c16

// Runs in which the consumer does not read to the end: (A) TeeReadCloser.Stop called while a Read is in flight,
// (B) MultiReaderCloser closed early - with a source whose Close fails - and closed again. Judged by the same contract
// (event end_partial): nothing taken from a source is lost, every closable source is closed exactly once.

import (
	"errors"
	"io"
	"sync"
	"time"

	"github.com/dapr/kit/streams"

	"verifharness/internal/tv"
)

type lockedBatch struct {
	mu sync.Mutex
	b  *tv.Batch
}

func (l *lockedBatch) ev(name string, m tv.M) {
	l.mu.Lock()
	defer l.mu.Unlock()
	l.b.Ev(name, m)
}

// gateSrc: a closable source whose first Read blocks until released.
type gateSrc struct {
	lb        *lockedBatch
	id        int
	data      []byte
	pos       int
	gated     bool
	entered   chan struct{}
	release   chan struct{}
	failClose bool
}

func (s *gateSrc) Read(p []byte) (n int, err error) {
	if s.gated && s.pos == 0 {
		s.gated = false
		close(s.entered)
		<-s.release
	}
	if s.pos >= len(s.data) {
		s.lb.ev("srcread", tv.M{"src": s.id, "k": len(p), "n": 0, "err": "eof"})
		return 0, io.EOF
	}
	n = copy(p, s.data[s.pos:])
	s.pos += n
	s.lb.ev("srcread", tv.M{"src": s.id, "k": len(p), "n": n, "err": "nil"})
	return n, nil
}

func (s *gateSrc) Close() error {
	s.lb.ev("srcclose", tv.M{"src": s.id})
	if s.failClose {
		return errors.New("close failed")
	}
	return nil
}

// pipeWriter behaves like the writing end of a pipe: after Close every Write fails.
type pipeWriter struct {
	lb     *lockedBatch
	want   []byte
	off    int
	mu     sync.Mutex
	closed bool
}

func (w *pipeWriter) Write(p []byte) (int, error) {
	w.mu.Lock()
	defer w.mu.Unlock()
	if w.closed {
		return 0, io.ErrClosedPipe
	}
	ok := w.off+len(p) <= len(w.want) && string(p) == string(w.want[w.off:w.off+len(p)])
	w.off += len(p)
	w.lb.ev("teewrite", tv.M{"n": len(p), "ok": ok})
	return len(p), nil
}

func (w *pipeWriter) Close() error {
	w.mu.Lock()
	w.closed = true
	w.mu.Unlock()
	w.lb.ev("wclose", nil)
	return nil
}

func classifyPartial(err error) string {
	if errors.Is(err, io.ErrClosedPipe) {
		return "closed"
	}
	return classify(err)
}

// teeStopRace: a Read is in flight (the source is inside its Read) when Stop is called.
func teeStopRace(b *tv.Batch, k, buf int) int {
	lb := &lockedBatch{b: b}
	data := mkData(k)
	tr := b.Start(tv.M{"kind": "tee", "N": 0, "lens": []int{k}, "closable": []bool{true}, "wcloser": true, "path": "stop-during-read", "buf": buf})
	s := &gateSrc{lb: lb, id: 1, data: data, gated: true, entered: make(chan struct{}), release: make(chan struct{})}
	w := &pipeWriter{lb: lb, want: data}
	t := streams.NewTeeReadCloser(s, w)
	readDone := make(chan struct{})
	go func() {
		defer close(readDone)
		p := make([]byte, buf)
		n, err := t.Read(p)
		ok := n >= 0 && n <= len(data) && string(p[:max(n, 0)]) == string(data[:max(n, 0)])
		lb.ev("read", tv.M{"k": buf, "n": n, "err": classifyPartial(err), "ok": ok})
	}()
	<-s.entered
	stopDone := make(chan struct{})
	go func() {
		defer close(stopDone)
		t.Stop()
		lb.ev("stop", nil)
	}()
	select { // give Stop the chance to overtake the Read (it must not: it has to wait for the Read in flight)
	case <-stopDone:
	case <-time.After(2 * time.Millisecond):
	}
	close(s.release)
	<-readDone
	<-stopDone
	t.Close()
	lb.ev("close", nil)
	lb.ev("end_partial", nil)
	return tr
}

// multiEarlyClose: m closable sources, the consumer reads `take` bytes (less than everything), calls Close - the Close of
// source `failAt` fails (0: none) - and calls Close once more.
func multiEarlyClose(b *tv.Batch, lens []int, take, failAt int) int {
	lb := &lockedBatch{b: b}
	total := 0
	for _, l := range lens {
		total += l
	}
	all := mkData(total)
	cl := make([]bool, len(lens))
	var readers []io.Reader
	off := 0
	for i, l := range lens {
		cl[i] = true
		readers = append(readers, &gateSrc{lb: lb, id: i + 1, data: all[off : off+l], failClose: failAt == i+1})
		off += l
	}
	tr := b.Start(tv.M{"kind": "multi", "N": 0, "lens": lens, "closable": cl, "wcloser": false, "path": "early-close", "buf": 1})
	mr := streams.NewMultiReaderCloser(readers...)
	delivered := 0
	p := make([]byte, 1)
	for delivered < take {
		n, err := mr.Read(p)
		ok := n == 0 || (delivered < total && p[0] == all[delivered])
		lb.ev("read", tv.M{"k": 1, "n": n, "err": classifyPartial(err), "ok": ok})
		delivered += n
		if err != nil {
			break
		}
	}
	mr.Close()
	lb.ev("close", nil)
	mr.Close()
	lb.ev("close", nil)
	lb.ev("end_partial", nil)
	return tr
}
