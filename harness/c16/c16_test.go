// C16 — streams: every run of the real LimitReadCloser / MultiReaderCloser /
// TeeReadCloser over scripted sources is recorded as a trace and validated by
// TLC against spec/Streams/StreamsContract.tla; the implementation-shaped
// model spec/Streams/StreamsImpl.tla is model-checked against the same
// contract exhaustively for small bounds.
package c16

import (
	"bytes"
	"errors"
	"fmt"
	"io"
	"math/rand"
	"testing"
	"time"

	"github.com/dapr/kit/streams"

	"verifharness/internal/ev"
	"verifharness/internal/tlc"
	"verifharness/internal/tv"
)

var errSrc = errors.New("verif: scripted source failure")

// style of a scripted source
type style struct {
	EOFWithData bool // the read that delivers the last byte also returns io.EOF
	ZeroBefore  int  // index of the chunk before which one (0,nil) read is inserted (-1: none)
	ErrAfter    int  // fail with errSrc instead of serving chunk index ErrAfter (-1: none)
	ErrWithData bool // the failing read returns the data of chunk ErrAfter together with the error
	Transient   bool // the error is returned once; the source then carries on (the consumer retries)
}

type src struct {
	id       int
	data     []byte
	chunks   []int // composition of len(data)
	st       style
	pos      int
	ci       int  // current chunk
	cleft    int  // bytes left in current chunk
	zeroDone bool
	eof      bool
	failed   bool
	errDone  bool // transient style: the one error has been returned
	closed   int
	b        *tv.Batch
}

func (s *src) Read(p []byte) (n int, err error) {
	defer func() {
		es := "nil"
		if err == io.EOF {
			es = "eof"
		} else if err != nil {
			es = "err"
		}
		s.b.Ev("srcread", tv.M{"src": s.id, "k": len(p), "n": n, "err": es})
	}()
	if s.failed {
		return 0, errSrc
	}
	if s.eof {
		return 0, io.EOF
	}
	if len(p) == 0 {
		return 0, nil
	}
	if s.cleft == 0 {
		if s.st.ErrAfter == s.ci && !s.errDone && !(s.st.ErrWithData && s.ci < len(s.chunks)) {
			if s.st.Transient {
				s.errDone = true
			} else {
				s.failed = true
			}
			return 0, errSrc
		}
		if s.ci >= len(s.chunks) {
			s.eof = true
			return 0, io.EOF
		}
		if s.st.ZeroBefore == s.ci && !s.zeroDone {
			s.zeroDone = true
			return 0, nil
		}
		s.cleft = s.chunks[s.ci]
	}
	n = s.cleft
	if n > len(p) {
		n = len(p)
	}
	copy(p, s.data[s.pos:s.pos+n])
	s.pos += n
	s.cleft -= n
	var once error
	if s.cleft == 0 && s.st.ErrWithData && s.st.ErrAfter == s.ci && !s.errDone {
		if !s.st.Transient {
			s.failed = true
			return n, errSrc
		}
		s.errDone = true
		once = errSrc
	}
	if s.cleft == 0 {
		s.ci++
		if once != nil {
			return n, once
		}
		if s.ci >= len(s.chunks) && s.st.EOFWithData && s.st.ErrAfter != s.ci {
			s.eof = true
			return n, io.EOF
		}
	}
	return n, nil
}

type closableSrc struct{ *src }

func (s closableSrc) Close() error {
	s.closed++
	s.b.Ev("srcclose", tv.M{"src": s.id})
	return nil
}

type recWriter struct {
	b        *tv.Batch
	want     []byte
	off      int
	isCloser bool
}

func (w *recWriter) Write(p []byte) (int, error) {
	ok := w.off+len(p) <= len(w.want) && bytes.Equal(p, w.want[w.off:w.off+len(p)])
	w.off += len(p)
	w.b.Ev("teewrite", tv.M{"n": len(p), "ok": ok})
	return len(p), nil
}

type recWriteCloser struct{ *recWriter }

func (w recWriteCloser) Close() error { w.b.Ev("wclose", nil); return nil }

func classify(err error) string {
	switch {
	case err == nil:
		return "nil"
	case err == io.EOF:
		return "eof"
	case errors.Is(err, streams.ErrStreamTooLarge):
		return "toolarge"
	case errors.Is(err, errSrc):
		return "srcerr"
	}
	return "other"
}

// compositions of n (ordered sums), all of them.
func compositions(n int) [][]int {
	if n == 0 {
		return [][]int{{}}
	}
	var out [][]int
	for first := 1; first <= n; first++ {
		for _, rest := range compositions(n - first) {
			out = append(out, append([]int{first}, rest...))
		}
	}
	return out
}

type caseSpec struct {
	Kind     string  `json:"kind"`
	N        int     `json:"N"`
	Lens     []int   `json:"lens"`
	Chunks   [][]int `json:"chunks"`
	Styles   []style `json:"styles"`
	Closable []bool  `json:"closable"`
	WCloser  bool    `json:"wcloser"`
	Buf      int     `json:"buf"`
	Path     string  `json:"path"` // read | readall | copy
	Stop     bool    `json:"stop"` // tee: Stop() is called after the consumption and before Close()
}

func mkData(total int) []byte {
	d := make([]byte, total)
	for i := range d {
		d[i] = byte(i*7 + 1)
	}
	return d
}

// run executes one case on the real code, appending its trace to b.
func run(b *tv.Batch, cs caseSpec) int {
	total := 0
	for _, l := range cs.Lens {
		total += l
	}
	all := mkData(total)
	retry := false
	for _, st := range cs.Styles {
		retry = retry || (st.Transient && cs.Path == "read") // ReadAll and io.Copy stop at the first error
	}
	for _, st := range cs.Styles {
		if st.ErrAfter >= 0 && !st.Transient { // a permanent error somewhere: retrying would never end
			retry = false
		}
	}
	tr := b.Start(tv.M{"kind": cs.Kind, "N": cs.N, "lens": cs.Lens, "closable": cs.Closable, "wcloser": cs.WCloser,
		"path": cs.Path, "buf": cs.Buf, "retry": retry})
	var readers []io.Reader
	off := 0
	for i, l := range cs.Lens {
		s := &src{id: i + 1, data: all[off : off+l], chunks: cs.Chunks[i], st: cs.Styles[i], b: b}
		off += l
		if cs.Closable[i] {
			readers = append(readers, closableSrc{s})
		} else {
			readers = append(readers, s)
		}
	}
	var w io.ReadCloser
	switch cs.Kind {
	case "limit":
		w = streams.LimitReadCloser(readers[0].(io.ReadCloser), int64(cs.N))
	case "multi":
		w = streams.NewMultiReaderCloser(readers...)
		// the caller's slice stays the caller's: reuse it for something else straight away (a wrapper that kept the
		// slice instead of copying it would now read from - and close - the wrong readers)
		for i := range readers {
			readers[i] = bytes.NewReader(bytes.Repeat([]byte{0xEE}, 8))
		}
	case "tee":
		rw := &recWriter{b: b, want: all}
		var ww io.Writer = rw
		if cs.WCloser {
			ww = recWriteCloser{rw}
		}
		w = streams.NewTeeReadCloser(readers[0], ww)
	}
	expect := all
	if cs.Kind == "limit" && total > cs.N {
		expect = all[:cs.N]
	}
	delivered := 0
	check := func(p []byte) bool {
		ok := delivered+len(p) <= len(all) && bytes.Equal(p, all[delivered:delivered+len(p)])
		delivered += len(p)
		return ok
	}
	_ = expect
	switch cs.Path {
	case "read":
		buf := make([]byte, cs.Buf)
		for i := 0; i < 6*(total+4); i++ {
			n, err := w.Read(buf)
			if n < 0 || n > len(buf) {
				b.Ev("read", tv.M{"k": cs.Buf, "n": cs.Buf + 1, "err": classify(err), "ok": false})
				break
			}
			b.Ev("read", tv.M{"k": cs.Buf, "n": n, "err": classify(err), "ok": check(buf[:n])})
			if err != nil && !(retry && classify(err) == "srcerr") { // a consumer that retries after a transient source error
				break
			}
		}
	case "readall":
		data, err := io.ReadAll(w)
		c := classify(err)
		if err == nil {
			c = "eof"
		}
		b.Ev("read", tv.M{"k": len(data) + 1, "n": len(data), "err": c, "ok": check(data)})
	case "copy":
		var dst bytes.Buffer
		n, err := io.Copy(&dst, w)
		b.Ev("writeto", tv.M{"n": int(n), "err": classify(err), "ok": int(n) == dst.Len() && check(dst.Bytes())})
	}
	if t, ok := w.(*streams.TeeReadCloser); ok && cs.Stop {
		t.Stop()
		b.Ev("stop", nil)
	}
	w.Close()
	b.Ev("close", nil)
	b.Ev("end", nil)
	return tr
}

func styles(nchunks int, thorough bool) []style {
	out := []style{
		{EOFWithData: false, ZeroBefore: -1, ErrAfter: -1},
		{EOFWithData: true, ZeroBefore: -1, ErrAfter: -1},
	}
	zs := []int{0, nchunks}
	if thorough {
		zs = nil
		for i := 0; i <= nchunks; i++ {
			zs = append(zs, i)
		}
	}
	for _, z := range zs {
		out = append(out, style{EOFWithData: z%2 == 0, ZeroBefore: z, ErrAfter: -1})
	}
	es := []int{nchunks}
	if nchunks > 0 {
		es = append(es, nchunks/2)
	}
	if thorough {
		es = nil
		for i := 0; i <= nchunks; i++ {
			es = append(es, i)
		}
	}
	for _, e := range es {
		out = append(out, style{EOFWithData: false, ZeroBefore: -1, ErrAfter: e})
		out = append(out, style{EOFWithData: e%2 == 1, ZeroBefore: -1, ErrAfter: e, Transient: true})
		if e < nchunks {
			out = append(out, style{EOFWithData: false, ZeroBefore: -1, ErrAfter: e, ErrWithData: true})
			out = append(out, style{EOFWithData: e%2 == 0, ZeroBefore: -1, ErrAfter: e, ErrWithData: true, Transient: true})
		}
	}
	return out
}

func bufs(n int) []int {
	m := map[int]bool{}
	var out []int
	for _, b := range []int{1, 2, n, n + 1, n + 2} {
		if b >= 1 && !m[b] {
			m[b] = true
			out = append(out, b)
		}
	}
	return out
}

func nontrivialKey(cs caseSpec) (string, bool) {
	// non-trivial: at least one source is split in >= 2 chunks, or returns data with EOF, or
	// has a zero read / error, or the case sits exactly at a limit boundary (len in N..N+1).
	nt := false
	for i := range cs.Lens {
		if len(cs.Chunks[i]) >= 2 || cs.Styles[i].EOFWithData || cs.Styles[i].ZeroBefore >= 0 || cs.Styles[i].ErrAfter >= 0 {
			nt = true
		}
	}
	if cs.Kind == "limit" && (cs.Lens[0] == cs.N || cs.Lens[0] == cs.N+1) {
		nt = true
	}
	return fmt.Sprintf("%v", cs), nt
}

func TestCheck(t *testing.T) {
	e := ev.New("C16", "model_checking")
	defer func() {
		if e.Write() > 0 {
			t.Fail()
		}
	}()
	thorough := ev.Thorough()
	rng := rand.New(rand.NewSource(ev.Seed()))

	// 1. exhaustive model check: implementation-shaped model refines the contract
	mc := tlc.Run(tlc.Opts{Dir: "Streams", Module: "StreamsImpl", Config: ev.Pick("MC_small.cfg", "MC_big.cfg"), Workers: 16,
		Timeout: ev.Pick(4*time.Minute, 40*time.Minute), Args: []string{"-noGenerateSpecTE"}})
	fmt.Printf("MC StreamsImpl: ok=%v generated=%d distinct=%d depth=%d wall=%s %s\n", mc.OK, mc.Generated, mc.Distinct, mc.Depth, mc.Wall.Round(time.Millisecond), mc.What)
	if !mc.OK {
		e.Inconclusive("model check of StreamsImpl did not pass: " + mc.What + "\n" + mc.Tail(3000))
	}
	e.Set("states", mc.Distinct)
	e.Set("transitions", mc.Generated)
	e.Set("checker_cmd", mc.Cmd)

	// 2. recorded runs of the real code, validated by TLC against the contract
	maxN := ev.Pick(5, 9)
	maxAllComp := ev.Pick(6, 7)
	b := &tv.Batch{}
	var cases []caseSpec
	add := func(cs caseSpec) {
		cases = append(cases, cs)
	}
	chunkings := func(l int) [][]int {
		if l <= maxAllComp {
			return compositions(l)
		}
		// boundary-placed chunkings above the exhaustive range
		out := [][]int{{l}, {1, l - 1}, {l - 1, 1}, {l / 2, l - l/2}}
		ones := make([]int, l)
		for i := range ones {
			ones[i] = 1
		}
		out = append(out, ones)
		for i := 0; i < 3; i++ {
			var c []int
			for left := l; left > 0; {
				k := 1 + rng.Intn(left)
				c = append(c, k)
				left -= k
			}
			out = append(out, c)
		}
		return out
	}
	paths := []string{"read", "readall", "copy"}
	// limit
	for n := 0; n <= maxN; n++ {
		for l := 0; l <= n+3; l++ {
			for _, ch := range chunkings(l) {
				for _, st := range styles(len(ch), thorough) {
					for _, p := range paths {
						bs := []int{n + 2}
						if p == "read" {
							bs = bufs(n)
						}
						for _, bf := range bs {
							add(caseSpec{Kind: "limit", N: n, Lens: []int{l}, Chunks: [][]int{ch}, Styles: []style{st}, Closable: []bool{true}, Buf: bf, Path: p})
						}
					}
				}
			}
		}
	}
	// tee
	maxT := ev.Pick(5, 8)
	for l := 0; l <= maxT; l++ {
		for _, ch := range chunkings(l) {
			for _, st := range styles(len(ch), thorough) {
				for _, p := range paths {
					for _, bf := range []int{1, 3, l + 1} {
						for _, cl := range []bool{true, false} {
							add(caseSpec{Kind: "tee", Lens: []int{l}, Chunks: [][]int{ch}, Styles: []style{st}, Closable: []bool{cl}, WCloser: cl, Buf: bf, Path: p})
							if bf == 3 {
								add(caseSpec{Kind: "tee", Lens: []int{l}, Chunks: [][]int{ch}, Styles: []style{st}, Closable: []bool{cl}, WCloser: cl, Buf: bf, Path: p, Stop: true})
							}
						}
						if p != "read" {
							break
						}
					}
				}
			}
		}
	}
	// multi: 0..3 sources with lengths 0..3 (4 in thorough), all chunkings, per-source styles
	maxL := ev.Pick(2, 3)
	var lensets [][]int
	lensets = append(lensets, []int{})
	for a := 0; a <= maxL; a++ {
		lensets = append(lensets, []int{a})
		for c := 0; c <= maxL; c++ {
			lensets = append(lensets, []int{a, c})
			for d := 0; d <= maxL; d++ {
				lensets = append(lensets, []int{a, c, d})
			}
		}
	}
	for _, lens := range lensets {
		var rec func(i int, chs [][]int, sts []style)
		rec = func(i int, chs [][]int, sts []style) {
			if i == len(lens) {
				for _, p := range paths {
					for _, bf := range []int{1, 2, 7} {
						cl := make([]bool, len(lens))
						for j := range cl {
							cl[j] = (j+bf)%3 != 0 // mix closable and plain readers
						}
						add(caseSpec{Kind: "multi", Lens: lens, Chunks: append([][]int{}, chs...), Styles: append([]style{}, sts...), Closable: cl, Buf: bf, Path: p})
						if p != "read" {
							break
						}
					}
				}
				return
			}
			for _, ch := range compositions(lens[i]) {
				sl := styles(len(ch), false)
				if !thorough {
					sl = []style{sl[0], sl[1], sl[rng.Intn(len(sl))]}
				}
				for _, st := range sl {
					rec(i+1, append(chs, ch), append(sts, st))
				}
			}
		}
		rec(0, nil, nil)
	}
	// the limits 10..16 of the property's range with boundary lengths and boundary-placed chunkings (thorough) 
	if thorough {
		for n := 10; n <= 16; n++ {
			for l := n - 1; l <= n+3; l++ {
				for _, ch := range chunkings(l) {
					for _, st := range styles(len(ch), false) {
						for _, p := range paths {
							add(caseSpec{Kind: "limit", N: n, Lens: []int{l}, Chunks: [][]int{ch}, Styles: []style{st}, Closable: []bool{true}, Buf: n + 1, Path: p})
						}
					}
				}
			}
		}
	}
	// random larger ones
	for i := 0; i < ev.Pick(300, 5000); i++ {
		n := rng.Intn(200)
		l := n - 3 + rng.Intn(8)
		if l < 0 {
			l = 0
		}
		var ch []int
		for left := l; left > 0; {
			k := 1 + rng.Intn(left)
			ch = append(ch, k)
			left -= k
		}
		sl := styles(len(ch), false)
		add(caseSpec{Kind: "limit", N: n, Lens: []int{l}, Chunks: [][]int{ch}, Styles: []style{sl[rng.Intn(len(sl))]}, Closable: []bool{true}, Buf: 1 + rng.Intn(n+3), Path: paths[rng.Intn(3)]})
	}

	for _, cs := range cases {
		run(b, cs)
		if k, nt := nontrivialKey(cs); nt {
			e.Nontrivial(k)
		}
	}
	// runs in which the consumer does not read to the end (partial_test.go): Stop while a Read is in flight, early Close
	// with a failing source Close followed by a second Close
	nPartial := 0
	for k := 1; k <= ev.Pick(4, 8); k++ {
		for _, bf := range []int{1, k, k + 2} {
			for rep := 0; rep < ev.Pick(3, 10); rep++ {
				teeStopRace(b, k, bf)
				cases = append(cases, caseSpec{Kind: "tee", Lens: []int{k}, Closable: []bool{true}, WCloser: true, Buf: bf, Path: "stop-during-read"})
				nPartial++
			}
		}
	}
	for _, lens := range [][]int{{2, 2}, {1, 2, 3}, {3, 0, 2}, {2, 2, 2, 2}} {
		total := 0
		for _, l := range lens {
			total += l
		}
		for take := 0; take < total; take++ {
			for failAt := 0; failAt <= len(lens); failAt++ {
				multiEarlyClose(b, lens, take, failAt)
				cl := make([]bool, len(lens))
				for i := range cl {
					cl[i] = true
				}
				cases = append(cases, caseSpec{Kind: "multi", Lens: lens, Closable: cl, Buf: 1, N: failAt, Path: "early-close"})
				nPartial++
			}
		}
	}
	e.Set("partial_consumption_runs", int64(nPartial))
	e.Set("evaluations", int64(len(cases)))
	e.Set("rule", "every case = (wrapper kind, limit N, source lengths, composition of each source into read chunks, reader style [EOF with data / EOF alone / zero-length read position / mid-stream error position], closable flags, consumer buffer size, consumption path read|readall|copy); enumerated exhaustively for small lengths, boundary-placed and seeded-random above; non-trivial = some source split in >=2 chunks or returning data with EOF or a zero read or an error, or a limit case with len in {N, N+1}; distinct by the full case tuple; plus partial-consumption runs: tee.Stop() while a Read is in flight, MultiReaderCloser closed early (every prefix length) with the Close of source i failing, then closed again")
	for _, i := range []int{0, len(cases) / 3, len(cases) / 2, len(cases) - 1} {
		e.Sample(tv.M{"case": cases[i], "trace": b.TraceStrings(i)})
	}
	fmt.Printf("recorded %d traces, %d events\n", b.Len(), b.Lines())
	rej, res := tv.ValidateChunked(tlc.Opts{Dir: "Streams", Module: "TraceStreams", Config: "TraceStreams.cfg", Workers: 16, Timeout: ev.Pick(5*time.Minute, 30*time.Minute), HeapMB: 8192}, b)
	fmt.Printf("TLC trace validation: ok=%v violation=%v rejects=%d distinct=%d wall=%s %s\n", res.OK, res.Violation, len(rej), res.Distinct, res.Wall.Round(time.Millisecond), res.What)
	if !res.OK && !res.Violation {
		e.Inconclusive("trace validation did not run: " + res.What)
		return
	}
	if res.Violation && len(rej) == 0 {
		e.Inconclusive("TLC reported a violation that could not be parsed:\n" + res.Tail(3000))
		return
	}
	e.Set("traces_validated_against_impl", int64(b.Len()))
	for _, r := range rej {
		cs := cases[r.Trace]
		key := findingKey(cs, r.Why)
		e.Violation(key, r.Why, tv.M{"case": cs, "trace": b.TraceStrings(r.Trace), "at": r.At})
	}

	// 3. binding self-test: a corrupted trace must be rejected
	selfTest(t, e, cases)
}

// findingKey reduces a rejected run to a stable key: wrapper kind, consumption
// path class and the monitor's reason.
func findingKey(cs caseSpec, why string) string {
	k := cs.Kind + ":" + cs.Path + ":"
	for _, r := range why {
		if r == ' ' {
			k += "-"
		} else if r >= 'a' && r <= 'z' || r >= 'A' && r <= 'Z' || r >= '0' && r <= '9' {
			k += string(r)
		}
	}
	return k
}

func selfTest(t *testing.T, e *ev.Evidence, cases []caseSpec) {
	b := &tv.Batch{}
	// an oversize run, (a) unmodified, (b) with the terminal error rewritten to EOF, (c) with the source close removed
	cs := caseSpec{Kind: "limit", N: 3, Lens: []int{5}, Chunks: [][]int{{2, 3}}, Styles: []style{{ZeroBefore: -1, ErrAfter: -1}}, Closable: []bool{true}, Buf: 4, Path: "read"}
	good := &tv.Batch{}
	run(good, cs)
	lines := good.Trace(0)
	b.AppendTrace(lines)
	var mutA, mutB [][]byte
	for _, l := range lines {
		mutA = append(mutA, bytes.Replace(l, []byte(`"err":"toolarge"`), []byte(`"err":"eof"`), 1))
		if !bytes.Contains(l, []byte(`"srcclose"`)) {
			mutB = append(mutB, l)
		}
	}
	b.AppendTrace(mutA)
	b.AppendTrace(mutB)
	rej, res := tv.ValidateChunked(tlc.Opts{Dir: "Streams", Module: "TraceStreams", Config: "TraceStreams.cfg", Workers: 2, Timeout: 2 * time.Minute}, b)
	got := map[int]bool{}
	for _, r := range rej {
		got[r.Trace] = true
	}
	ok := (res.OK || res.Violation) && !got[0] && got[1] && got[2]
	e.Set("binding_selftest", tv.M{"unmodified_accepted": !got[0], "terminal_error_rewritten_rejected": got[1], "source_close_removed_rejected": got[2]})
	if !ok {
		e.Inconclusive(fmt.Sprintf("binding self-test failed: rejects=%v %s", rej, res.What))
	}
}
