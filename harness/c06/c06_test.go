// C06 — queue.Processor.  Small client programs (Enqueue / Dequeue / Close from
// several goroutines, clock advances) run on the real Processor with a fake
// clock; every decision point of the Processor is a gate, and a seeded driver
// chooses at each quiescent point which goroutine proceeds.  The observable
// trace (calls, returns, callbacks, clock, quiescent points) is judged by TLC
// against spec/Processor/ProcContract.tla; spec/Processor/Processor.tla (the
// implementation-shaped model) is model-checked exhaustively.
package c06

import (
	"fmt"
	"math/rand"
	"strings"
	"sync"
	"testing"
	"time"

	"github.com/dapr/kit/events/queue"
	clocktesting "k8s.io/utils/clock/testing"

	"verifharness/internal/ev"
	"verifharness/internal/sched"
	"verifharness/internal/tlc"
	"verifharness/internal/tv"
)

const tick = 100 * time.Microsecond

var base = time.Unix(1_000_000, 0)

// zeroTime as an opSpec.Dt: the item's ScheduledTime is the zero time.Time; the traces carry it as an instant far in the
// past (-1e9 ticks)
const zeroTime = -1_000_000_000

type item struct {
	id  int
	key string
	at  time.Time
}

func (i *item) Key() string              { return i.key }
func (i *item) ScheduledTime() time.Time { return i.at }

type opSpec struct {
	Op  string `json:"op"` // enq | deq | close
	Key string `json:"key,omitempty"`
	Dt  int    `json:"dt,omitempty"` // enq: scheduled time = now + dt ticks (at the time the op starts)
}

type program struct {
	Clients  [][]opSpec `json:"clients"`
	Advances []int      `json:"advances"` // clock steps (ticks) the driver may take, in order
	BlockCb  bool       `json:"blockcb"`  // callbacks park at a harness gate
	Prefix   []string   `json:"prefix"`   // staged programs: the first choices are fixed, the rest is seeded-random
}

type recorder struct {
	mu sync.Mutex
	b  *tv.Batch // observable trace (contract level)
	hb *tv.Batch // hook-level trace (implementation level): the observable events plus every decision point passed
}

func cp(m tv.M) tv.M {
	o := tv.M{}
	for k, v := range m {
		o[k] = v
	}
	return o
}

func (r *recorder) ev(name string, m tv.M) {
	r.mu.Lock()
	defer r.mu.Unlock()
	if m == nil {
		m = tv.M{}
	}
	if r.hb != nil {
		r.hb.Ev(name, cp(m))
	}
	delete(m, "c")
	r.b.Ev(name, m)
}

func (r *recorder) hook(point string, args []any) {
	r.mu.Lock()
	defer r.mu.Unlock()
	// the commit window of the loop (see TraceProc.tla): it closes when the loop arrives at the point after its pop, or
	// back at the top of the loop
	if point == "queue.exec.popped" || point == "queue.loop.peeked" {
		r.b.Ev("w_close", tv.M{})
	}
	if r.hb == nil {
		return
	}
	m := tv.M{}
	for i := 0; i+1 < len(args); i += 2 {
		m[fmt.Sprint(args[i])] = args[i+1]
	}
	r.hb.Ev(point, m)
}

type result struct {
	trace    int
	schedule []string
	err      error
	stuck    string
	hook     []string
}

// runSchedule executes one program under one seeded schedule.
func runSchedule(b, hb *tv.Batch, prog program, seed int64, force []string) result {
	rng := rand.New(rand.NewSource(seed))
	clk := clocktesting.NewFakeClock(base)
	rec := &recorder{b: b, hb: hb}
	tr := b.Start(tv.M{"prog": prog, "seed": seed})
	if hb != nil {
		hb.Start(tv.M{"seed": seed})
	}
	ctl := sched.New("*")
	var hookTrace []string
	ctl.OnEvent = func(point string, args []any) {
		hookTrace = append(hookTrace, fmt.Sprint(point, args))
		rec.hook(point, args)
	}
	queue.VerifHook = func(point string, kv ...any) { ctl.Point(point, kv...) }
	defer func() { queue.VerifHook = nil }()

	proc := queue.NewProcessor[string, *item](func(it *item) {
		rec.ev("cbstart", tv.M{"id": it.id})
		if prog.BlockCb {
			ctl.Point("cb.block")
		}
		rec.ev("cbend", tv.M{"id": it.id})
	}).WithClock(clk)

	nowTicks := func() int { return int(clk.Now().Sub(base) / tick) }
	nextID, nextDeq := 0, 0
	var idmu sync.Mutex
	type client struct {
		ops  []opSpec
		next int
		cur  *sched.Task
	}
	clients := make([]*client, len(prog.Clients))
	for i, ops := range prog.Clients {
		clients[i] = &client{ops: ops}
	}
	adv := 0
	inflight := func() int {
		n := 0
		for _, c := range clients {
			if c.cur != nil && !c.cur.Done() {
				n++
			}
		}
		return n
	}
	startOp := func(c *client, ci int) func() {
		return func() {
			o := c.ops[c.next]
			c.next++
			switch o.Op {
			case "enq":
				idmu.Lock()
				nextID++
				it := &item{id: nextID, key: o.Key, at: clk.Now().Add(time.Duration(o.Dt) * tick)}
				atTicks := int(it.at.Sub(base) / tick)
				switch {
				case o.Dt == -1: // "never": a far-future scheduled time (year 9999), as callers use to park an item
					it.at = time.Date(9999, 12, 31, 0, 0, 0, 0, time.UTC)
					atTicks = 2_000_000_000
				case o.Dt == zeroTime: // the zero time.Time
					it.at = time.Time{}
					atTicks = zeroTime
				}
				idmu.Unlock()
				rec.ev("enq_call", tv.M{"id": it.id, "key": it.key, "at": atTicks, "c": ci + 1})
				c.cur = ctl.Go(fmt.Sprintf("c%d:enq", ci), func() {
					proc.Enqueue(it)
					rec.ev("enq_ret", tv.M{"id": it.id, "c": ci + 1})
				})
			case "deq":
				idmu.Lock()
				nextDeq++
				d := nextDeq
				idmu.Unlock()
				rec.ev("deq_call", tv.M{"d": d, "key": o.Key, "c": ci + 1})
				c.cur = ctl.Go(fmt.Sprintf("c%d:deq", ci), func() {
					proc.Dequeue(o.Key)
					rec.ev("deq_ret", tv.M{"d": d, "c": ci + 1})
				})
			case "close":
				rec.ev("close_call", tv.M{"c": ci + 1})
				c.cur = ctl.Go(fmt.Sprintf("c%d:close", ci), func() {
					proc.Close()
					rec.ev("close_ret", tv.M{"c": ci + 1})
				})
			}
		}
	}
	d := &sched.Driver{C: ctl, Rng: rng, MaxSteps: 400}
	d.OnRelease = func(point string) {
		if point == "queue.exec.enter" { // the loop passes the entry of execute(): from now on it may pop
			rec.mu.Lock()
			rec.b.Ev("w_open", tv.M{})
			rec.mu.Unlock()
		}
	}
	d.AtQuiescence = func(parked []*sched.Parked, s sched.Snapshot) {
		if len(parked) == 0 && inflight() == 0 {
			rec.ev("quiescent", tv.M{"now": nowTicks()})
		}
	}
	d.Extra = func(nParked int) []sched.Choice {
		var cs []sched.Choice
		for i, c := range clients {
			if (c.cur == nil || c.cur.Done()) && c.next < len(c.ops) {
				cs = append(cs, sched.Choice{Kind: "start", Name: fmt.Sprintf("start:c%d:%s", i, c.ops[c.next].Op), Do: startOp(c, i)})
			}
		}
		if adv < len(prog.Advances) {
			cs = append(cs, sched.Choice{Kind: "extra", Name: fmt.Sprintf("advance:%d", prog.Advances[adv]), Do: func() {
				dt := prog.Advances[adv]
				adv++
				rec.ev("adv", tv.M{"now": nowTicks() + dt})
				clk.Step(time.Duration(dt) * tick)
			}})
		}
		return cs
	}
	// Close is cheap to start and ends the interesting part of a run: start it less eagerly
	d.Weight = func(c sched.Choice) int {
		if strings.HasSuffix(c.Name, ":close") {
			return 1
		}
		return 3
	}
	if len(force) > 0 {
		// replay / staged schedules: take the forced choice names in order, then fall back to random
		d.Weight = func(c sched.Choice) int {
			if k := len(d.Log); k < len(force) {
				if c.Name == force[k] {
					return 1
				}
				return 0
			}
			if strings.HasSuffix(c.Name, ":close") {
				return 1
			}
			return 3
		}
	}
	res := result{trace: tr}
	err := d.Run()
	if err == nil {
		// final phase: move the clock past every deadline and let everything drain
		rec.ev("adv", tv.M{"now": nowTicks() + 26*36_000_000})
		clk.Step(26 * 36_000_000 * tick)
		d2 := &sched.Driver{C: ctl, Rng: rng, MaxSteps: 400, AtQuiescence: d.AtQuiescence, OnRelease: d.OnRelease}
		err = d2.Run()
		d.Log = append(d.Log, d2.Log...)
	}
	res.schedule = d.Log
	res.err = err
	if err == nil && inflight() > 0 {
		var names []string
		for _, c := range clients {
			if c.cur != nil && !c.cur.Done() {
				names = append(names, c.cur.Name)
			}
		}
		res.stuck = strings.Join(names, ",")
	}
	res.hook = hookTrace
	// tear down: open all gates, close the processor if the program did not
	ctl.Shutdown()
	if res.stuck == "" {
		done := make(chan struct{})
		go func() { proc.Close(); close(done) }()
		select {
		case <-done:
		case <-time.After(2 * time.Second):
		}
	}
	return res
}

func genProgram(rng *rand.Rand) program {
	keys := []string{"a", "b", "c"}
	dts := []int{0, 0, 3, 5, 6, 10, 20, 50, -1, -3, 25 * 36_000_000, zeroTime}
	nc := 1 + rng.Intn(3)
	total := 2 + rng.Intn(4)
	p := program{Clients: make([][]opSpec, nc), BlockCb: rng.Intn(4) == 0}
	closed := false
	for i := 0; i < total; i++ {
		c := rng.Intn(nc)
		switch r := rng.Intn(10); {
		case r < 6:
			p.Clients[c] = append(p.Clients[c], opSpec{Op: "enq", Key: keys[rng.Intn(len(keys))], Dt: dts[rng.Intn(len(dts))]})
		case r < 9:
			p.Clients[c] = append(p.Clients[c], opSpec{Op: "deq", Key: keys[rng.Intn(len(keys))]})
		default:
			if !closed {
				closed = true
				p.Clients[c] = append(p.Clients[c], opSpec{Op: "close"})
			}
		}
	}
	bigUsed := false // at most one day-scale step: TLC integers are 32 bit (2^31 ticks = 59 h)
	for i := 0; i < rng.Intn(4); i++ {
		a := []int{1, 4, 5, 6, 10, 30, 24 * 36_000_000}[rng.Intn(7)]
		if a > 1000 {
			if bigUsed {
				a = 30
			}
			bigUsed = true
		}
		p.Advances = append(p.Advances, a)
	}
	if p.Advances == nil {
		p.Advances = []int{}
	}
	for i := range p.Clients {
		if p.Clients[i] == nil {
			p.Clients[i] = []opSpec{}
		}
	}
	return p
}

func tailStrings(s []string, n int) []string {
	if len(s) > n {
		return s[len(s)-n:]
	}
	return s
}

func TestCheck(t *testing.T) {
	e := ev.New("C06", "model_checking")
	defer func() {
		if e.Write() > 0 {
			t.Fail()
		}
	}()
	rng := rand.New(rand.NewSource(ev.Seed()))

	mc := tlc.Run(tlc.Opts{Dir: "Processor", Module: "MCProcessor", Config: ev.Pick("MC_small.cfg", "MC_big.cfg"), Workers: 16,
		Timeout: ev.Pick(4*time.Minute, 40*time.Minute), HeapMB: 12000, Args: []string{"-noGenerateSpecTE"}})
	fmt.Printf("MC Processor: ok=%v generated=%d distinct=%d depth=%d wall=%s %s\n", mc.OK, mc.Generated, mc.Distinct, mc.Depth, mc.Wall.Round(time.Millisecond), mc.What)
	if !mc.OK {
		e.Inconclusive("model check of Processor.tla did not pass: " + mc.What + "\n" + mc.Tail(2000))
	}
	live := tlc.Run(tlc.Opts{Dir: "Processor", Module: "MCProcessor", Config: ev.Pick("MC_live_small.cfg", "MC_live.cfg"), Workers: 16, Timeout: 10 * time.Minute, HeapMB: 12000, Args: []string{"-noGenerateSpecTE"}})
	fmt.Printf("MC Processor liveness: ok=%v generated=%d distinct=%d wall=%s %s\n", live.OK, live.Generated, live.Distinct, live.Wall.Round(time.Millisecond), live.What)
	if !live.OK {
		e.Inconclusive("liveness model check of Processor.tla did not pass: " + live.What + "\n" + live.Tail(2000))
	}
	e.Set("states", mc.Distinct+live.Distinct)
	e.Set("transitions", mc.Generated+live.Generated)
	e.Set("checker_cmd", mc.Cmd)

	b := &tv.Batch{}
	hb := &tv.Batch{}
	var results []result
	var progs []program
	// staged programs aimed at the loop's decision points, each under many schedules
	staged := []program{
		{Clients: [][]opSpec{{{Op: "enq", Key: "a", Dt: 0}}, {{Op: "enq", Key: "b", Dt: 0}}}, Advances: []int{}},
		{Clients: [][]opSpec{{{Op: "enq", Key: "a", Dt: 10}}, {{Op: "enq", Key: "a", Dt: 3}}, {{Op: "deq", Key: "a"}}}, Advances: []int{5, 6}},
		{Clients: [][]opSpec{{{Op: "enq", Key: "a", Dt: 10}, {Op: "enq", Key: "b", Dt: 5}}, {{Op: "deq", Key: "b"}}}, Advances: []int{4, 6}},
		{Clients: [][]opSpec{{{Op: "enq", Key: "a", Dt: 0}, {Op: "enq", Key: "b", Dt: 6}}, {{Op: "close"}}}, Advances: []int{6}, BlockCb: true},
		{Clients: [][]opSpec{{{Op: "enq", Key: "a", Dt: 0}}, {{Op: "close"}}, {{Op: "close"}}}, Advances: []int{}, BlockCb: true},
		// the callback of a is running (parked) when the Close calls start
		{Clients: [][]opSpec{{{Op: "enq", Key: "a", Dt: 0}, {Op: "enq", Key: "b", Dt: 0}}, {{Op: "close"}}, {{Op: "close"}}}, Advances: []int{}, BlockCb: true,
			Prefix: []string{"start:c0:enq", "release:queue.enqueue.enter", "release:queue.loop.peeked", "release:queue.loop.signals", "release:queue.exec.enter", "release:queue.exec.popped"}},
		{Clients: [][]opSpec{{{Op: "enq", Key: "a", Dt: 6}}, {{Op: "enq", Key: "a", Dt: 6000}}}, Advances: []int{1, 5}},
		{Clients: [][]opSpec{{{Op: "enq", Key: "n", Dt: -1}, {Op: "enq", Key: "a", Dt: 5}}, {{Op: "enq", Key: "b", Dt: 0}}}, Advances: []int{6}},
		// the timer of b has fired and the loop is on its way to pop b when an earlier, already due item a arrives: a runs first
		{Clients: [][]opSpec{{{Op: "enq", Key: "b", Dt: 6}}, {{Op: "enq", Key: "a", Dt: -3}}}, Advances: []int{6},
			Prefix: []string{"start:c0:enq", "release:queue.enqueue.enter", "release:queue.loop.peeked", "release:queue.loop.signals", "release:queue.loop.armed", "advance:6", "start:c1:enq", "release:queue.enqueue.enter"}},
		{Clients: [][]opSpec{{{Op: "enq", Key: "b", Dt: 6}, {Op: "enq", Key: "c", Dt: 8}}, {{Op: "enq", Key: "a", Dt: 2}}}, Advances: []int{6, 3}},
		// items whose scheduled time is the zero time.Time (an instant long past): due at once, and they replace like any other
		{Clients: [][]opSpec{{{Op: "enq", Key: "a", Dt: zeroTime}}, {{Op: "enq", Key: "b", Dt: 5}}}, Advances: []int{6}},
		{Clients: [][]opSpec{{{Op: "enq", Key: "a", Dt: 10}, {Op: "enq", Key: "a", Dt: zeroTime}}, {{Op: "enq", Key: "b", Dt: 5}}}, Advances: []int{6, 6}},
		// an item more than a day ahead: nothing may run when the clock has moved 24 h, it runs after 25 h (1 h = 36e6 ticks)
		{Clients: [][]opSpec{{{Op: "enq", Key: "a", Dt: 25 * 36_000_000}}, {{Op: "enq", Key: "b", Dt: 3}}}, Advances: []int{24 * 36_000_000, 35_000_000, 1_000_000}},
	}
	nStaged := ev.Pick(25, 600)
	nRandProg := ev.Pick(170, 6000)
	nSchedPer := ev.Pick(3, 6)
	inconcl := 0
	run := func(p program, seed int64) {
		r := runSchedule(b, hb, p, seed, p.Prefix)
		results = append(results, r)
		progs = append(progs, p)
		if r.err != nil {
			inconcl++
		}
		if len(r.schedule) > 4 {
			e.Nontrivial(fmt.Sprint(p, r.schedule))
		}
	}
	for _, p := range staged {
		for i := 0; i < nStaged; i++ {
			run(p, rng.Int63())
		}
	}
	for i := 0; i < nRandProg; i++ {
		p := genProgram(rng)
		for j := 0; j < nSchedPer; j++ {
			run(p, rng.Int63())
		}
	}
	// free-running rounds (free_test.go), judged separately
	fb := &tv.Batch{}
	nFree, stranded := ev.Pick(400, 4000), 0
	for i := 0; i < nFree && stranded < 3; i++ {
		if !freeRun(fb, i, 60) {
			stranded++
		}
	}
	for i := 0; i < ev.Pick(150, 3000) && stranded < 3; i++ {
		if !freeStorm(fb, i) {
			stranded++
		}
	}
	fmissing, fres := tv.ValidateDoneChunked(tlc.Opts{Dir: "Processor", Module: "TraceProc", Config: "TraceProc.cfg", Workers: 16, Timeout: ev.Pick(6*time.Minute, 30*time.Minute), HeapMB: 8000}, fb)
	fmt.Printf("TLC free-running validation: ok=%v traces=%d events=%d rejected=%d wall=%s %s\n", fres.OK, fb.Len(), fb.Lines(), len(fmissing), fres.Wall.Round(time.Millisecond), fres.What)
	if !fres.OK {
		e.Inconclusive("free-running trace validation did not run: " + fres.What + fres.Tail(1500))
	}
	e.Set("free_running_enqueues", int64(fb.Len()*60))
	for _, i := range fmissing {
		e.Violation("stranded:due-item-not-executed-at-quiescence:free-running", "free-running trace of the real Processor is not a behaviour of ProcContract (an Enqueue racing the loop's exit)", tv.M{"family": "free-running back-to-back Enqueues", "trace_tail": tailStrings(fb.TraceStrings(i), 12)})
	}
	fmt.Printf("executed %d schedules (%d events), %d could not be driven to the end\n", b.Len(), b.Lines(), inconcl)
	if inconcl > b.Len()/20 {
		e.Inconclusive(fmt.Sprintf("%d of %d schedules could not be driven to quiescence", inconcl, b.Len()))
	}
	// only complete runs are judged
	jb := &tv.Batch{}
	var idx []int
	for i, r := range results {
		if r.err == nil {
			jb.AppendTrace(b.Trace(r.trace))
			idx = append(idx, i)
		}
	}
	missing, res := tv.ValidateDoneChunked(tlc.Opts{Dir: "Processor", Module: "TraceProc", Config: "TraceProc.cfg", Workers: 16, Timeout: ev.Pick(6*time.Minute, 40*time.Minute), HeapMB: 12000}, jb)
	fmt.Printf("TLC contract validation: ok=%v traces=%d rejected=%d distinct=%d wall=%s %s\n", res.OK, jb.Len(), len(missing), res.Distinct, res.Wall.Round(time.Millisecond), res.What)
	if !res.OK {
		e.Inconclusive("trace validation did not run: " + res.What + res.Tail(1500))
		return
	}
	e.Set("evaluations", int64(b.Len()))
	e.Set("traces_validated_against_impl", int64(jb.Len()))
	e.Set("rule", "a case = (client program: 1-3 goroutines with up to 5 Enqueue/Dequeue/Close ops over keys a,b,c and scheduled offsets {0,3,5,6,10,20,50} ticks of 100µs; clock advances; blocking or immediate callbacks) x (seeded schedule: at every quiescent point the driver releases one goroutine parked at a Processor decision point, starts a client op or advances the clock); 6 staged programs aimed at the loop's windows + random programs; non-trivial = schedule longer than 4 choices; distinct by (program, schedule)")
	for _, k := range []int{0, len(idx) / 2, len(idx) - 1} {
		i := idx[k]
		e.Sample(tv.M{"program": progs[i], "schedule": results[i].schedule, "trace": jb.TraceStrings(k)})
	}
	for _, m := range missing {
		i := idx[m]
		key := classify(jb.TraceStrings(m))
		e.Violation(key, "observable trace of the real Processor is not a behaviour of ProcContract", tv.M{"program": progs[i], "schedule": results[i].schedule, "hook_trace": results[i].hook, "trace": jb.TraceStrings(m)})
	}
	// binding of the implementation-shaped model: hook-level traces must be behaviours of Processor.tla (drift, not verdict)
	jhb := &tv.Batch{}
	for _, r := range results {
		if r.err == nil {
			jhb.AppendTrace(hb.Trace(r.trace))
		}
	}
	hmissing, hres := tv.ValidateDoneChunked(tlc.Opts{Dir: "Processor", Module: "TraceProcImpl", Config: "TraceProcImpl.cfg", Workers: 16, Timeout: ev.Pick(6*time.Minute, 40*time.Minute), HeapMB: 12000}, jhb)
	fmt.Printf("TLC model-binding validation (hook-level traces vs Processor.tla): ok=%v traces=%d not-explained=%d distinct=%d wall=%s %s\n", hres.OK, jhb.Len(), len(hmissing), hres.Distinct, hres.Wall.Round(time.Millisecond), hres.What)
	e.Set("impl_traces_validated", int64(jhb.Len()))
	e.Set("impl_drift_traces", int64(len(hmissing)))
	e.Set("drift", len(hmissing) > 0 || !hres.OK)
	if len(hmissing) > 0 {
		fmt.Printf("DRIFT property=C06 %d hook-level traces are not behaviours of Processor.tla (model and code diverge; not a violation by itself), first: %v\n", len(hmissing), jhb.TraceStrings(hmissing[0]))
	}
	selfTest(e)
}

// classify names the violated clause by a direct Go-side look at the trace (the verdict is TLC's).
func classify(lines []string) string {
	// stranded: trace ends / reaches a quiescent point with a returned, not removed, due item never executed
	type it struct {
		key          string
		at           int
		ret, started bool
		removedCall  bool
	}
	items := map[string]*it{}
	now := 0
	closed := false
	closeRet := false
	for _, l := range lines {
		get := func(f string) string {
			i := strings.Index(l, `"`+f+`":`)
			if i < 0 {
				return ""
			}
			s := l[i+len(f)+3:]
			s = strings.TrimLeft(s, `"`)
			j := strings.IndexAny(s, `",}`)
			return s[:j]
		}
		atoi := func(s string) int { n := 0; fmt.Sscan(s, &n); return n }
		switch {
		case strings.Contains(l, `"ev":"enq_call"`):
			for _, o := range items {
				if o.key == get("key") {
					o.removedCall = true
				}
			}
			items[get("id")] = &it{key: get("key"), at: atoi(get("at"))}
		case strings.Contains(l, `"ev":"enq_ret"`):
			items[get("id")].ret = true
		case strings.Contains(l, `"ev":"deq_call"`):
			for _, o := range items {
				if o.key == get("key") {
					o.removedCall = true
				}
			}
		case strings.Contains(l, `"ev":"adv"`):
			now = atoi(get("now"))
		case strings.Contains(l, `"ev":"close_call"`):
			closed = true
		case strings.Contains(l, `"ev":"close_ret"`):
			closeRet = true
		case strings.Contains(l, `"ev":"cbstart"`):
			o := items[get("id")]
			if closeRet {
				return "callback-after-close-returned"
			}
			if o.started {
				return "executed-twice"
			}
			if o.at > now+5 {
				return "executed-early"
			}
			o.started = true
		case strings.Contains(l, `"ev":"quiescent"`):
			if !closed {
				for _, o := range items {
					if o.ret && !o.started && !o.removedCall && o.at <= now {
						return "stranded:due-item-not-executed-at-quiescence"
					}
				}
			}
		}
	}
	return "other:rejected-by-contract"
}

func selfTest(e *ev.Evidence) {
	b := &tv.Batch{}
	mk := func(drop string, early bool) {
		b.Start(tv.M{})
		at := 10
		b.Ev("enq_call", tv.M{"id": 1, "key": "a", "at": at})
		b.Ev("enq_ret", tv.M{"id": 1})
		n := 10
		if early {
			n = 4
		}
		b.Ev("adv", tv.M{"now": n})
		if drop != "cb" {
			b.Ev("w_open", tv.M{})
			b.Ev("w_close", tv.M{})
			b.Ev("cbstart", tv.M{"id": 1})
			b.Ev("cbend", tv.M{"id": 1})
		}
		b.Ev("quiescent", tv.M{"now": n})
	}
	mk("", false)   // fine
	mk("cb", false) // due item never executed: stranded
	mk("", true)    // executed 0.6 ms early
	missing, res := tv.ValidateDoneChunked(tlc.Opts{Dir: "Processor", Module: "TraceProc", Config: "TraceProc.cfg", Workers: 2, Timeout: 2 * time.Minute}, b)
	ok := res.OK && len(missing) == 2 && missing[0] == 1 && missing[1] == 2
	e.Set("binding_selftest", tv.M{"valid_accepted_stranded_and_early_rejected": ok})
	if !ok {
		e.Inconclusive(fmt.Sprintf("binding self-test failed: missing=%v %s %s", missing, res.What, res.Tail(800)))
	}
}
