package c06

// Free-running (ungated) rounds: an Enqueue of a due item issued the moment the callback of the previous item has
// returned races the loop's exit ("saw the queue empty" .. "gave the running token back") with real parallelism -
// windows that lie between two statements without a gate. Judged by the same ProcContract (a due, surely live item at
// rest = stranded). No gate is installed, so the commit window is declared open for the whole run.

import (
	"fmt"
	"sync"
	"time"

	clocktesting "k8s.io/utils/clock/testing"

	"github.com/dapr/kit/events/queue"

	"verifharness/internal/tv"
)

// freeRun drives one Processor through `pairs` back-to-back Enqueues; returns false if an item was stranded.
func freeRun(b *tv.Batch, run, pairs int) bool {
	var mu sync.Mutex
	ev := func(name string, m tv.M) {
		mu.Lock()
		defer mu.Unlock()
		b.Ev(name, m)
	}
	clk := clocktesting.NewFakeClock(base)
	b.Start(tv.M{"family": "free-running", "run": run})
	ev("w_open", tv.M{})
	done := make(chan int, 4)
	proc := queue.NewProcessor[string, *item](func(it *item) {
		ev("cbstart", tv.M{"id": it.id})
		ev("cbend", tv.M{"id": it.id})
		done <- it.id
	}).WithClock(clk)
	ok := true
	id := 0
	enq := func(key string) {
		id++
		it := &item{id: id, key: key, at: clk.Now()}
		ev("enq_call", tv.M{"id": it.id, "key": it.key, "at": 0})
		proc.Enqueue(it)
		ev("enq_ret", tv.M{"id": it.id})
	}
	wait := func() bool {
		select {
		case <-done:
			return true
		case <-time.After(5 * time.Second):
			return false
		}
	}
	keys := []string{"a", "b", "c"}
	for i := 0; i < pairs && ok; i++ {
		enq(keys[i%3])
		if !wait() {
			ok = false
			break
		}
		for j := 0; j < (run+i)%40; j++ { // a little jitter around the loop's exit
		}
	}
	ev("quiescent", tv.M{"now": 0})
	if ok {
		closed := make(chan struct{})
		go func() { proc.Close(); close(closed) }()
		select {
		case <-closed:
		case <-time.After(2 * time.Second):
		}
	}
	return ok
}

// freeStorm: three producers enqueue due items as fast as they can while a fourth goroutine enqueues far-future items and
// a fifth dequeues them - every critical section of the Processor is contended with real parallelism. Every call must
// return (watchdog -> `hung`, an event no rule of the trace spec consumes), every due item must have been executed at rest.
func freeStorm(b *tv.Batch, run int) bool {
	var mu sync.Mutex
	ev := func(name string, m tv.M) {
		mu.Lock()
		defer mu.Unlock()
		b.Ev(name, m)
	}
	clk := clocktesting.NewFakeClock(base)
	b.Start(tv.M{"family": "free-running storm", "run": run})
	ev("w_open", tv.M{})
	var executed sync.WaitGroup
	proc := queue.NewProcessor[string, *item](func(it *item) {
		ev("cbstart", tv.M{"id": it.id})
		ev("cbend", tv.M{"id": it.id})
		executed.Done()
	}).WithClock(clk)
	const P, N, F = 2, 5, 5
	executed.Add(P * N)
	var idmu sync.Mutex
	nextID, nextDeq := 0, 0
	newID := func() int { idmu.Lock(); defer idmu.Unlock(); nextID++; return nextID }
	var wg sync.WaitGroup
	start := make(chan struct{})
	for g := 0; g < P; g++ {
		wg.Add(1)
		go func(g int) {
			defer wg.Done()
			<-start
			for i := 0; i < N; i++ {
				it := &item{id: newID(), key: fmt.Sprintf("p%d-%d", g, i), at: clk.Now()}
				ev("enq_call", tv.M{"id": it.id, "key": it.key, "at": 0})
				proc.Enqueue(it)
				ev("enq_ret", tv.M{"id": it.id})
			}
		}(g)
	}
	wg.Add(2)
	go func() {
		defer wg.Done()
		<-start
		for i := 0; i < F; i++ {
			it := &item{id: newID(), key: fmt.Sprintf("f%d", i), at: clk.Now().Add(time.Hour)}
			ev("enq_call", tv.M{"id": it.id, "key": it.key, "at": 36_000_000})
			proc.Enqueue(it)
			ev("enq_ret", tv.M{"id": it.id})
		}
	}()
	go func() {
		defer wg.Done()
		<-start
		for i := 0; i < F; i++ {
			idmu.Lock()
			nextDeq++
			d := nextDeq
			idmu.Unlock()
			key := fmt.Sprintf("f%d", i)
			ev("deq_call", tv.M{"d": d, "key": key})
			proc.Dequeue(key)
			ev("deq_ret", tv.M{"d": d})
		}
	}()
	close(start)
	done := make(chan struct{})
	go func() { wg.Wait(); close(done) }()
	select {
	case <-done:
	case <-time.After(10 * time.Second):
		ev("hung", tv.M{"what": "an Enqueue or Dequeue call never returned"})
		return false
	}
	ran := make(chan struct{})
	go func() { executed.Wait(); close(ran) }()
	ok := true
	select {
	case <-ran:
	case <-time.After(5 * time.Second):
		ok = false // stranded: the quiescent record below is rejected by the contract
	}
	ev("quiescent", tv.M{"now": 0})
	if ok {
		closed := make(chan struct{})
		go func() { proc.Close(); close(closed) }()
		select {
		case <-closed:
		case <-time.After(2 * time.Second):
		}
	}
	return ok
}
