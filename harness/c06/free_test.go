package c06

// Free-running (ungated) rounds: an Enqueue of a due item issued the moment the callback of the previous item has
// returned races the loop's exit ("saw the queue empty" .. "gave the running token back") with real parallelism -
// windows that lie between two statements without a gate. Judged by the same ProcContract (a due, surely live item at
// rest = stranded). No gate is installed, so the commit window is declared open for the whole run.

import (
	"sync"
	"time"

	clocktesting "k8s.io/utils/clock/testing"

	"github.com/dapr/kit/events/queue"

	"verifharness/internal/tv"
)

// freeRun drives one Processor through `pairs` back-to-back Enqueues; returns false if an item was stranded.
func freeRun(b *tv.Batch, run, pairs int) bool {
	var mu sync.Mutex
	ev := func(name string, m tv.M) {
		mu.Lock()
		defer mu.Unlock()
		b.Ev(name, m)
	}
	clk := clocktesting.NewFakeClock(base)
	b.Start(tv.M{"family": "free-running", "run": run})
	ev("w_open", tv.M{})
	done := make(chan int, 4)
	proc := queue.NewProcessor[string, *item](func(it *item) {
		ev("cbstart", tv.M{"id": it.id})
		ev("cbend", tv.M{"id": it.id})
		done <- it.id
	}).WithClock(clk)
	ok := true
	id := 0
	enq := func(key string) {
		id++
		it := &item{id: id, key: key, at: clk.Now()}
		ev("enq_call", tv.M{"id": it.id, "key": it.key, "at": 0})
		proc.Enqueue(it)
		ev("enq_ret", tv.M{"id": it.id})
	}
	wait := func() bool {
		select {
		case <-done:
			return true
		case <-time.After(500 * time.Millisecond):
			return false
		}
	}
	keys := []string{"a", "b", "c"}
	for i := 0; i < pairs && ok; i++ {
		enq(keys[i%3])
		if !wait() {
			ok = false
			break
		}
		for j := 0; j < (run+i)%40; j++ { // a little jitter around the loop's exit
		}
	}
	ev("quiescent", tv.M{"now": 0})
	if ok {
		closed := make(chan struct{})
		go func() { proc.Close(); close(closed) }()
		select {
		case <-closed:
		case <-time.After(2 * time.Second):
		}
	}
	return ok
}
