// X06 (extension check) — jwkscache.JWKSCache.
//
//   - spec/ext/JWKSCache/JWKSImpl.tla: implementation-shaped model of the cache state machine
//     (running flag, initCh, jwks) with starters, waiters and readers in all interleavings,
//     model-checked against the contract monitor JWKSContract.tla; TLC also writes the driver
//     programs (every order of Start / WaitForCacheReady / KeySet / cancellations up to a length).
//   - every program is run on the REAL cache with local sources (JSON, base64, temp files) from
//     several goroutines; internal/sched's quiescence detection (no gates: the package has no
//     hooks) tells when the component has settled.  Every run is recorded and judged by TLC
//     (TraceJWKS.tla).
//   - URL sources (url_test.go): a scripted server owned by the harness (ok / 500 / slow beyond
//     the timeout / garbage / changing key sets) over loopback TCP (httptest) for the initial
//     fetch, and over an in-memory transport inside a testing/synctest bubble for the
//     refresher (virtual clock); recorded and judged by TLC (TraceJWKSUrl.tla), the refresher
//     model is spec/ext/JWKSCache/RefreshModel.tla.
package x06

import (
	"bytes"
	"context"
	"encoding/base64"
	"encoding/json"
	"fmt"
	"io"
	"math/rand"
	"os"
	"path/filepath"
	"sort"
	"strings"
	"sync"
	"testing"
	"time"

	"github.com/lestrrat-go/jwx/v2/jwk"

	"github.com/dapr/kit/jwkscache"
	"github.com/dapr/kit/logger"

	"verifharness/internal/ev"
	"verifharness/internal/sched"
	"verifharness/internal/tlc"
	"verifharness/internal/tv"
)

const specDir = "ext/JWKSCache"

const (
	jwks1 = `{"keys":[{"kid":"mykey","alg":"RS256","kty":"RSA","use":"sig","e":"AQAB","n":"3I2mdIK4mRRu-ywMrYjUZzBxt0NlAVLrMhGlaJsby7PWTMiLpZVip4SBD9GwnCU0TGFD7k2-7tfs0y9U6WV7MwgCjc9m_DUUGbE-kKjEU7JYkLzYlndys-6xuhD4Jf1hu9AZVdfXftpWSy_NNg6fVwTH4nckOAbOSL1hXToOYWQcDDW95Rhw3U4z04PqssEpRKn5KGBuTahNNNiZcWns99pChpLTxgdm93LjMBI1KCGBpOaz7fcQJ9V3c6rSwMKyY3IPm1LwS6PIs7xb2ZJ0Eb8A6MtCkGhgNsodpkxhqKbqtxI-KqTuZy9g4jb8WKjJq9lB9q-HPHoQqIEDom6P8w"}]}`
	jwks2 = `{"keys":[{"kid":"mykey","alg":"RS256","kty":"RSA","use":"sig","e":"AQAB","n":"3I2mdIK4mRRu-ywMrYjUZzBxt0NlAVLrMhGlaJsby7PWTMiLpZVip4SBD9GwnCU0TGFD7k2-7tfs0y9U6WV7MwgCjc9m_DUUGbE-kKjEU7JYkLzYlndys-6xuhD4Jf1hu9AZVdfXftpWSy_NNg6fVwTH4nckOAbOSL1hXToOYWQcDDW95Rhw3U4z04PqssEpRKn5KGBuTahNNNiZcWns99pChpLTxgdm93LjMBI1KCGBpOaz7fcQJ9V3c6rSwMKyY3IPm1LwS6PIs7xb2ZJ0Eb8A6MtCkGhgNsodpkxhqKbqtxI-KqTuZy9g4jb8WKjJq9lB9q-HPHoQqIEDom6P8w"},{"alg":"RS256","kty":"RSA","use":"sig","n":"yeNlzlub94YgerT030codqEztjfU_S6X4DbDA_iVKkjAWtYfPHDzz_sPCT1Axz6isZdf3lHpq_gYX4Sz-cbe4rjmigxUxr-FgKHQy3HeCdK6hNq9ASQvMK9LBOpXDNn7mei6RZWom4wo3CMvvsY1w8tjtfLb-yQwJPltHxShZq5-ihC9irpLI9xEBTgG12q5lGIFPhTl_7inA1PFK97LuSLnTJzW0bj096v_TMDg7pOWm_zHtF53qbVsI0e3v5nmdKXdFf9BjIARRfVrbxVxiZHjU6zL6jY5QJdh1QCmENoejj_ytspMmGW7yMRxzUqgxcAqOBpVm0b-_mW3HoBdjQ","e":"AQAB","kid":"testkey"}]}`
)

var (
	kids1 = []string{"mykey"}
	kids2 = []string{"mykey", "testkey"}
)

func quietLogger() logger.Logger {
	l := logger.NewLogger("verif-x06")
	l.SetOutput(io.Discard)
	return l
}

// source: a way of giving a local JWKS to the cache.
type source struct {
	Kind string
	Good bool
	Kids []string
	Loc  func(dir string) string // dir: a fresh temp directory
}

func writeFile(dir, name, content string) string {
	p := filepath.Join(dir, name)
	if err := os.WriteFile(p, []byte(content), 0o600); err != nil {
		panic(err)
	}
	return p
}

// padTo appends JSON whitespace until len(s) % 3 == rem, which fixes the number of base64 padding characters.
func padTo(s string, rem int) string {
	for len(s)%3 != rem {
		s += " "
	}
	return s
}

func sources() []source {
	lit := func(s string) func(string) string { return func(string) string { return s } }
	return []source{
		{Kind: "json", Good: true, Kids: kids1, Loc: lit(jwks1)},
		{Kind: "garbage", Good: false, Loc: lit("this is not a JWKS")},
		{Kind: "json-two-keys", Good: true, Kids: kids2, Loc: lit(jwks2)},
		{Kind: "json-leading-space", Good: true, Kids: kids1, Loc: lit("\n  " + jwks1)},
		{Kind: "base64-padded", Good: true, Kids: kids2, Loc: lit(base64.StdEncoding.EncodeToString([]byte(padTo(jwks2, 1))))},     // ends in "=="
		{Kind: "base64-padded-one", Good: true, Kids: kids1, Loc: lit(base64.StdEncoding.EncodeToString([]byte(padTo(jwks1, 2))))}, // ends in "="
		{Kind: "base64-raw", Good: true, Kids: kids1, Loc: lit(base64.RawStdEncoding.EncodeToString([]byte(jwks1)))},
		{Kind: "file", Good: true, Kids: kids1, Loc: func(d string) string { return writeFile(d, "jwks.json", jwks1) }},
		{Kind: "file-two-keys", Good: true, Kids: kids2, Loc: func(d string) string { return writeFile(d, "keys.jwks", jwks2) }},
		{Kind: "empty", Good: false, Loc: lit("")},
		{Kind: "truncated-json", Good: false, Loc: lit(jwks1[:len(jwks1)/2])},
		{Kind: "keys-not-an-array", Good: false, Loc: lit(`{"keys": 12}`)},
		{Kind: "key-with-bad-modulus", Good: false, Loc: lit(`{"keys":[{"kid":"k","kty":"RSA","e":"AQAB","n":"!!not base64url!!"}]}`)},
		{Kind: "base64-of-garbage", Good: false, Loc: lit(base64.StdEncoding.EncodeToString([]byte("hello, world: not a JWKS")))},
		{Kind: "base64-of-truncated-json", Good: false, Loc: lit(base64.StdEncoding.EncodeToString([]byte(jwks1[:120])))},
		{Kind: "directory", Good: false, Loc: func(d string) string { return d }},
		{Kind: "missing-file", Good: false, Loc: func(d string) string { return filepath.Join(d, "does-not-exist.json") }},
		{Kind: "file-garbage", Good: false, Loc: func(d string) string { return writeFile(d, "jwks.json", "{{{{ nope") }},
		{Kind: "file-empty", Good: false, Loc: func(d string) string { return writeFile(d, "jwks.json", "") }},
	}
}

type recorder struct {
	mu sync.Mutex
	b  *tv.Batch
}

func (r *recorder) ev(name string, m tv.M) {
	r.mu.Lock()
	r.b.Ev(name, m)
	r.mu.Unlock()
}

func classifyStart(err error, panicked any) string {
	switch {
	case panicked != nil:
		return "panic"
	case err == nil:
		return "nil"
	case strings.Contains(err.Error(), "already running"):
		return "already"
	case strings.Contains(err.Error(), "failed to init cache"):
		return "initerr"
	}
	return "other"
}

func classifyWait(err error, panicked any) string {
	switch {
	case panicked != nil:
		return "panic"
	case err == nil:
		return "nil"
	case err == context.Canceled || err == context.DeadlineExceeded:
		return "ctxerr"
	case strings.Contains(err.Error(), "failed to init cache"):
		return "initerr"
	}
	return "other"
}

func describeSet(set jwk.Set, kids []string) (val string, n int, ok bool) {
	if set == nil {
		return "nil", 0, false
	}
	defer func() {
		if recover() != nil {
			val, ok = "panic", false
		}
	}()
	n = set.Len()
	ok = n == len(kids)
	for _, k := range kids {
		if _, found := set.LookupKeyID(k); !found {
			ok = false
		}
	}
	return "set", n, ok
}

type runMeta struct {
	Src   string   `json:"source"`
	Good  bool     `json:"well_formed"`
	Ops   []string `json:"ops"`
	Mode  string   `json:"mode"`
	Notes string   `json:"notes,omitempty"`
}

// runProgram drives one fresh cache through ops; returns the trace index, or an inconclusive reason.
func runProgram(t *testing.T, b *tv.Batch, src source, ops []string, mode string) (int, string) {
	dir := t.TempDir()
	loc := src.Loc(dir)
	cache := jwkscache.NewJWKSCache(loc, quietLogger())
	r := &recorder{b: b}
	srcClass := "bad"
	if src.Good {
		srcClass = "good"
	}
	tr := b.Start(tv.M{"scen": "local", "src": srcClass, "kind": src.Kind, "mode": mode, "ops": ops})
	ctl := sched.New()
	mainCtx, mainCancel := context.WithCancel(context.Background())
	defer mainCancel()
	mainCancelled := false
	type waiter struct {
		id     int
		cancel context.CancelFunc
		live   bool
	}
	var waiters []*waiter
	var tasks []*sched.Task
	nS, nW, nK := 0, 0, 0
	incon := ""
	var slow5s bool
	var slowMu sync.Mutex
	quiesce := func() bool {
		snap, err := ctl.Quiesce(5 * time.Second)
		if err != nil {
			incon = "no quiescence: " + err.Error()
			return false
		}
		r.ev("quiescent", tv.M{"initing": snap.InFunc("jwkscache.(*JWKSCache).init")})
		return true
	}
	for _, op := range ops {
		switch op {
		case "S":
			nS++
			id := nS
			tasks = append(tasks, ctl.Go(fmt.Sprintf("start%d", id), func() {
				var err error
				r.ev("start_call", tv.M{"id": id})
				p := func() (p any) {
					defer func() { p = recover() }()
					err = cache.Start(mainCtx)
					return nil
				}()
				if err != nil && strings.Contains(err.Error(), "after 5s") {
					slowMu.Lock()
					slow5s = true
					slowMu.Unlock()
				}
				r.ev("start_ret", tv.M{"id": id, "class": classifyStart(err, p)})
			}))
		case "W", "Wd":
			nW++
			id := nW
			wctx, wcancel := context.WithCancel(context.Background())
			w := &waiter{id: id, cancel: wcancel, live: op == "W"}
			waiters = append(waiters, w)
			if op == "Wd" {
				wcancel()
			}
			tasks = append(tasks, ctl.Go(fmt.Sprintf("wait%d", id), func() {
				var err error
				r.ev("wait_call", tv.M{"id": id, "done": op == "Wd"})
				p := func() (p any) {
					defer func() { p = recover() }()
					err = cache.WaitForCacheReady(wctx)
					return nil
				}()
				r.ev("wait_ret", tv.M{"id": id, "class": classifyWait(err, p)})
			}))
		case "K":
			nK++
			id := nK
			tasks = append(tasks, ctl.Go(fmt.Sprintf("keyset%d", id), func() {
				r.ev("keyset_call", tv.M{"id": id})
				var set jwk.Set
				p := func() (p any) {
					defer func() { p = recover() }()
					set = cache.KeySet()
					return nil
				}()
				val, n, ok := describeSet(set, src.Kids)
				if p != nil {
					val = "panic"
				}
				r.ev("keyset_ret", tv.M{"id": id, "val": val, "n": n, "ok": ok})
			}))
		case "C":
			if !mainCancelled {
				r.ev("cancel", nil)
				mainCancel()
				mainCancelled = true
			}
		case "Cw":
			for _, w := range waiters {
				if w.live {
					r.ev("wcancel", tv.M{"id": w.id})
					w.cancel()
					w.live = false
					break
				}
			}
		}
		if mode == "step" && !quiesce() {
			return tr, incon
		}
	}
	if !quiesce() {
		return tr, incon
	}
	// end of the program: every context ends, everything must come home
	if !mainCancelled {
		r.ev("cancel", nil)
		mainCancel()
	}
	for _, w := range waiters {
		if w.live {
			r.ev("wcancel", tv.M{"id": w.id})
		}
		w.cancel()
	}
	if !quiesce() {
		return tr, incon
	}
	stuck := 0
	for _, tk := range tasks {
		if !tk.Done() {
			stuck++
		}
	}
	r.ev("end", tv.M{"stuck": stuck})
	slowMu.Lock()
	defer slowMu.Unlock()
	if slow5s {
		return tr, "the file watcher did not deliver the first load within the package's 5s limit (machine load)"
	}
	return tr, ""
}

func loadPrograms(raw []byte) ([][]string, error) {
	var out [][]string
	for _, l := range bytes.Split(raw, []byte("\n")) {
		if len(bytes.TrimSpace(l)) == 0 {
			continue
		}
		var p struct {
			Ops []string `json:"ops"`
		}
		if err := json.Unmarshal(l, &p); err != nil {
			return nil, fmt.Errorf("%v: %s", err, l)
		}
		out = append(out, p.Ops)
	}
	return out, nil
}

func slug(s string) string {
	var sb strings.Builder
	for _, r := range s {
		switch {
		case r >= 'a' && r <= 'z' || r >= 'A' && r <= 'Z' || r >= '0' && r <= '9':
			sb.WriteRune(r)
		case r == ' ' || r == '-' || r == ':' || r == '/':
			sb.WriteByte('-')
		}
	}
	return strings.Trim(strings.ReplaceAll(sb.String(), "--", "-"), "-")
}

// sourceRelated: reasons that depend on how the JWKS was given (parsing, file watching), as opposed to the
// life cycle of Start / WaitForCacheReady / KeySet.
func sourceRelated(why string) bool {
	for _, s := range []string{"well-formed", "malformed", "not the key set", "Start still blocked"} {
		if strings.Contains(why, s) {
			return true
		}
	}
	return strings.HasPrefix(why, "Start panicked")
}

func srcFamily(kind string) string {
	switch {
	case strings.HasPrefix(kind, "file"):
		return "file"
	case strings.HasPrefix(kind, "base64"):
		return "base64"
	case kind == "directory" || kind == "missing-file":
		return "path"
	}
	return "value"
}

func TestCheck(t *testing.T) {
	e := ev.New("X06", "model_checking")
	defer func() {
		if e.Write() > 0 {
			t.Fail()
		}
	}()
	rng := rand.New(rand.NewSource(ev.Seed()))
	if rp := os.Getenv("VERIF_REPLAY"); rp != "" {
		replay(t, e, rp)
		return
	}
	e.Assume("the package has no verif hooks: client operations are started by the harness, 'the cache has settled' is read from goroutine wait states (internal/sched quiescence, no gates)",
		"whether a configured location is a well-formed JWKS is known to the harness by construction (fixed key sets; malformed variants)",
		"URL sources are served by a harness-owned scripted handler: over loopback TCP (httptest) on the real clock for the initial fetch, over an in-memory http.RoundTripper inside a testing/synctest bubble (virtual clock) for the refresher",
		"real-clock timeout scenarios allow a slack of several seconds for machine load")

	// ---- 1. model checking (sequentially before any scheduler-driven part)
	noTE := []string{"-noGenerateSpecTE"}
	var wg sync.WaitGroup
	var mc, mcRef, dRestart, dWaiters tlc.Result
	var dRef [2]tlc.Result
	wg.Add(6)
	go func() {
		defer wg.Done()
		mc = tlc.Run(tlc.Opts{Dir: specDir, Module: "JWKSImpl", Config: ev.Pick("MC_small.cfg", "MC_big.cfg"), Workers: 8,
			Timeout: ev.Pick(5*time.Minute, 30*time.Minute), Args: noTE, Keep: []string{"programs.ndjson"}})
	}()
	go func() {
		defer wg.Done()
		mcRef = tlc.Run(tlc.Opts{Dir: specDir, Module: "RefreshModel", Config: ev.Pick("MCref_small.cfg", "MCref_big.cfg"), Workers: 4,
			Timeout: ev.Pick(5*time.Minute, 30*time.Minute), Args: noTE, Keep: []string{"url_cases.ndjson"}})
	}()
	go func() {
		defer wg.Done()
		dRestart = tlc.Run(tlc.Opts{Dir: specDir, Module: "JWKSImpl", Config: "MC_defect_restart.cfg", Workers: 2, Timeout: 5 * time.Minute, Args: noTE})
	}()
	go func() {
		defer wg.Done()
		dWaiters = tlc.Run(tlc.Opts{Dir: specDir, Module: "JWKSImpl", Config: "MC_defect_waiters.cfg", Workers: 2, Timeout: 5 * time.Minute, Args: noTE})
	}()
	for i, cfg := range []string{"MCref_defect_minrefresh.cfg", "MCref_defect_droponfail.cfg"} {
		go func() {
			defer wg.Done()
			dRef[i] = tlc.Run(tlc.Opts{Dir: specDir, Module: "RefreshModel", Config: cfg, Workers: 2, Timeout: 5 * time.Minute, Args: noTE})
		}()
	}
	wg.Wait()
	fmt.Printf("MC JWKSImpl: ok=%v generated=%d distinct=%d depth=%d wall=%s %s\n", mc.OK, mc.Generated, mc.Distinct, mc.Depth, mc.Wall.Round(time.Millisecond), mc.What)
	fmt.Printf("MC RefreshModel: ok=%v generated=%d distinct=%d depth=%d wall=%s %s\n", mcRef.OK, mcRef.Generated, mcRef.Distinct, mcRef.Depth, mcRef.Wall.Round(time.Millisecond), mcRef.What)
	e.Set("states", mc.Distinct+mcRef.Distinct)
	e.Set("transitions", mc.Generated+mcRef.Generated)
	e.Set("checker_cmd", mc.Cmd+" ; "+mcRef.Cmd)
	if !mc.OK {
		e.Inconclusive("model check of JWKSImpl did not pass: " + mc.What + "\n" + mc.Tail(3000))
		return
	}
	if !mcRef.OK {
		e.Inconclusive("model check of RefreshModel did not pass: " + mcRef.What + "\n" + mcRef.Tail(3000))
		return
	}
	defs := tv.M{}
	for name, r := range map[string]tlc.Result{"as_found_restart": dRestart, "as_found_waiters": dWaiters, "refresh_ignores_min_interval": dRef[0], "refresh_drops_set_on_failure": dRef[1]} {
		ok := r.Violation && strings.Contains(r.What, "NotBad")
		defs[name] = ok
		if !ok {
			e.Inconclusive("the defect variant " + name + " was not rejected by the contract: " + r.What)
		}
	}
	e.Set("defect_models_rejected", defs)
	progs, err := loadPrograms(mc.Kept["programs.ndjson"])
	if err != nil || len(progs) == 0 {
		e.Inconclusive(fmt.Sprintf("cannot read the programs written by TLC: %v (%d)", err, len(progs)))
		return
	}
	e.Set("programs_enumerated_by_tlc", int64(len(progs)))

	// ---- 2. local sources: every program on the real cache
	t0 := time.Now()
	b := &tv.Batch{}
	var metas []runMeta
	var skipped []string
	inconclusiveRuns := 0
	srcs := sources()
	add := func(src source, ops []string, mode string) {
		tr, incon := runProgram(t, b, src, ops, mode)
		for len(metas) <= tr {
			metas = append(metas, runMeta{})
		}
		metas[tr] = runMeta{Src: src.Kind, Good: src.Good, Ops: ops, Mode: mode, Notes: incon}
		if incon != "" {
			inconclusiveRuns++
			skipped = append(skipped, fmt.Sprintf("%s %v %s: %s", src.Kind, ops, mode, incon))
		}
		if len(ops) >= 2 {
			e.Nontrivial(fmt.Sprintf("%s|%v|%s", src.Kind, ops, mode))
		}
	}
	// all programs on a well-formed and a malformed value, stepwise; bursts on a seeded subset
	burstEvery := 4
	for i, p := range progs {
		add(srcs[0], p, "step")
		add(srcs[1], p, "step")
		if (i+int(ev.Seed()))%burstEvery == 0 {
			add(srcs[0], p, "burst")
			add(srcs[1], p, "burst")
		}
	}
	// every way of giving the JWKS: fixed programs + seeded ones
	fixed := [][]string{{"S", "W", "K", "C"}, {"W", "K", "S", "W", "K"}, {"S", "S"}, {"S", "C", "S"}, {"C", "S", "W"}, {"S", "W", "W", "K"}, {"Wd", "S", "Wd"}, {"K", "S", "K", "C", "K"}}
	for _, src := range srcs[2:] {
		for _, p := range fixed {
			add(src, p, "step")
			add(src, p, "burst")
		}
		for k := 0; k < ev.Pick(6, 40); k++ {
			add(src, progs[rng.Intn(len(progs))], []string{"step", "burst"}[k%2])
		}
	}
	// repeat bursts (scheduling varies from run to run)
	for k := 0; k < ev.Pick(100, 1500); k++ {
		add(srcs[rng.Intn(2)], progs[rng.Intn(len(progs))], "burst")
	}
	nLocal := b.Len()
	fmt.Printf("performed %d local-source runs in %s (%d events, %d inconclusive)\n", nLocal, time.Since(t0).Round(time.Millisecond), b.Lines(), inconclusiveRuns)
	if inconclusiveRuns > nLocal/20 {
		e.Inconclusive(fmt.Sprintf("%d of %d runs could not be brought to quiescence; first: %s", inconclusiveRuns, nLocal, skipped[0]))
	}
	e.Set("runs_without_quiescence", int64(inconclusiveRuns))

	// ---- 3. URL sources
	ub, umetas, uIncon := urlScenarios(t, e, mcRef.Kept["url_cases.ndjson"], rng)
	if uIncon != "" {
		e.Inconclusive(uIncon)
	}

	e.Set("evaluations", int64(nLocal+ub.Len()))
	e.Set("rule", fmt.Sprintf("local sources: run = (source kind [19: JSON, JSON with 2 keys, leading whitespace, base64 padded/raw, files; malformed: empty, garbage, truncated, wrong shape, bad key, base64 of garbage/truncated JSON, directory, missing file, garbage/empty file], "+
		"program = sequence over {S Start, W / Wd WaitForCacheReady with live / done context, K KeySet, C cancel Start's context, Cw cancel a waiter} of length <= %d enumerated by TLC (JWKSImpl!Progs: %d programs), "+
		"mode step [quiescence after every operation] | burst [all goroutines at once]); all programs on a well-formed and a malformed value, fixed + seeded programs on every other kind. "+
		"URL sources: initial-fetch scenarios over loopback TCP (ok / 500 / garbage / slow beyond the request timeout / TLS with the right, a wrong and no CA / custom client) and refresher cases enumerated by TLC "+
		"(RefreshModel!Cases: server scripts over {okA, okB, 500, garbage, slow} x minimum refresh interval x Cache-Control max-age x cancellation tick) on the virtual clock. "+
		"non-trivial = a program with >= 2 operations, any URL scenario; distinct by (source kind, program, mode) resp. the URL case", len(progs[len(progs)-1]), len(progs)))
	for _, i := range []int{0, nLocal / 3, nLocal / 2, nLocal - 1} {
		e.Sample(tv.M{"run": metas[i], "trace": b.TraceStrings(i)})
	}
	for _, i := range []int{0, ub.Len() / 2, ub.Len() - 1} {
		if i >= 0 && i < ub.Len() {
			e.Sample(tv.M{"url_run": umetas[i], "trace": ub.TraceStrings(i)})
		}
	}

	// ---- 4. TLC judges the recorded runs
	var rej, urej []tv.Reject
	var res, ures tlc.Result
	var st string
	wg.Add(3)
	go func() {
		defer wg.Done()
		rej, res = tv.ValidateChunked(tlc.Opts{Dir: specDir, Module: "TraceJWKS", Config: "TraceJWKS.cfg", Workers: 8, Timeout: ev.Pick(6*time.Minute, 30*time.Minute), HeapMB: 6144}, b)
	}()
	go func() {
		defer wg.Done()
		urej, ures = tv.ValidateChunked(tlc.Opts{Dir: specDir, Module: "TraceJWKSUrl", Config: "TraceJWKSUrl.cfg", Workers: 4, Timeout: ev.Pick(6*time.Minute, 30*time.Minute), HeapMB: 4096}, ub)
	}()
	go func() { defer wg.Done(); st = selfTest(e) }()
	wg.Wait()
	fmt.Printf("TLC trace validation (local): ok=%v violation=%v rejects=%d distinct=%d wall=%s %s\n", res.OK, res.Violation, len(rej), res.Distinct, res.Wall.Round(time.Millisecond), res.What)
	fmt.Printf("TLC trace validation (url): ok=%v violation=%v rejects=%d distinct=%d wall=%s %s\n", ures.OK, ures.Violation, len(urej), ures.Distinct, ures.Wall.Round(time.Millisecond), ures.What)
	if st != "" {
		e.Inconclusive("binding self-test failed: " + st)
	}
	for _, r := range []tlc.Result{res, ures} {
		if !r.OK && !r.Violation {
			e.Inconclusive("trace validation did not run: " + r.What + "\n" + r.Tail(2000))
			return
		}
	}
	if (res.Violation && len(rej) == 0) || (ures.Violation && len(urej) == 0) {
		e.Inconclusive("TLC reported a violation that could not be parsed:\n" + res.Tail(1500) + ures.Tail(1500))
		return
	}
	e.Set("traces_validated_against_impl", int64(b.Len()+ub.Len()))
	perKey := map[string]int64{}
	// report, for every key, the smallest rejected run (fewest operations, stepwise before burst)
	sort.SliceStable(rej, func(i, j int) bool {
		a, c := metas[rej[i].Trace], metas[rej[j].Trace]
		if len(a.Ops) != len(c.Ops) {
			return len(a.Ops) < len(c.Ops)
		}
		return a.Mode == "step" && c.Mode != "step"
	})
	for _, r := range rej {
		m := metas[r.Trace]
		if m.Notes != "" {
			continue // a run the driver could not bring to quiescence is inconclusive, never a violation
		}
		key := "local:" + slug(r.Why)
		if sourceRelated(r.Why) { // the way the JWKS was given matters only for these
			key = "local:" + srcFamily(m.Src) + ":" + slug(r.Why)
		}
		perKey[key]++
		e.Violation(key, r.Why, tv.M{"run": m, "trace": b.TraceStrings(r.Trace), "at": r.At})
	}
	for _, r := range urej {
		m := umetas[r.Trace]
		key := "url:" + m.Kind + ":" + slug(r.Why)
		perKey[key]++
		e.Violation(key, r.Why, tv.M{"run": m, "trace": ub.TraceStrings(r.Trace), "at": r.At})
	}
	e.Set("rejected_runs_per_key", perKey)
}

// selfTest: the unmodified trace of a plain run is accepted, corrupted ones are rejected.
func selfTest(e *ev.Evidence) string {
	good := [][]byte{
		[]byte(`{"ev":"reset","scen":"local","src":"good","kind":"selftest"}`),
		[]byte(`{"ev":"start_call","id":1}`),
		[]byte(`{"ev":"wait_call","id":1,"done":false}`),
		[]byte(`{"ev":"wait_ret","id":1,"class":"nil"}`),
		[]byte(`{"ev":"keyset_call","id":1}`),
		[]byte(`{"ev":"keyset_ret","id":1,"val":"set","n":1,"ok":true}`),
		[]byte(`{"ev":"quiescent","initing":false}`),
		[]byte(`{"ev":"cancel"}`),
		[]byte(`{"ev":"start_ret","id":1,"class":"nil"}`),
		[]byte(`{"ev":"quiescent","initing":false}`),
		[]byte(`{"ev":"end","stuck":0}`),
	}
	mut := func(from, to string) [][]byte {
		var out [][]byte
		for _, l := range good {
			out = append(out, bytes.Replace(l, []byte(from), []byte(to), 1))
		}
		return out
	}
	b := &tv.Batch{}
	b.AppendTrace(good)
	b.AppendTrace(mut(`"val":"set","n":1,"ok":true`, `"val":"nil","n":0,"ok":false`)) // nil key set after ready
	b.AppendTrace(mut(`"src":"good"`, `"src":"bad"`))                                 // ready although malformed
	var noCancel [][]byte
	for _, l := range good {
		if !bytes.Contains(l, []byte(`"ev":"cancel"`)) {
			noCancel = append(noCancel, l)
		}
	}
	b.AppendTrace(noCancel) // Start returned nil with a live context
	rej, res := tv.Validate(tlc.Opts{Dir: specDir, Module: "TraceJWKS", Config: "TraceJWKS.cfg", Workers: 2, Timeout: 3 * time.Minute}, b)
	got := map[int]bool{}
	for _, r := range rej {
		got[r.Trace] = true
	}
	e.Set("binding_selftest", tv.M{"unmodified_accepted": !got[0], "nil_keyset_after_ready_rejected": got[1], "ready_for_malformed_source_rejected": got[2], "start_returning_early_rejected": got[3]})
	if (res.OK || res.Violation) && !got[0] && got[1] && got[2] && got[3] {
		return ""
	}
	return fmt.Sprintf("rejects=%v %s", rej, res.What)
}

// replay re-performs the single run stored in a replay file (./check X06 --replay <file>) a number of times
// (scheduling varies) and has TLC judge the runs.
func replay(t *testing.T, e *ev.Evidence, path string) {
	raw, err := os.ReadFile(path)
	if err != nil {
		e.Inconclusive("cannot read the replay file: " + err.Error())
		return
	}
	var f struct {
		Replay struct {
			Run json.RawMessage `json:"run"`
		} `json:"replay"`
	}
	if err := json.Unmarshal(raw, &f); err != nil {
		e.Inconclusive("cannot parse the replay file: " + err.Error())
		return
	}
	var lm runMeta
	var um struct {
		Kind string          `json:"kind"`
		Name string          `json:"name"`
		Case json.RawMessage `json:"case"`
	}
	_ = json.Unmarshal(f.Replay.Run, &lm)
	_ = json.Unmarshal(f.Replay.Run, &um)
	b := &tv.Batch{}
	opts := tlc.Opts{Dir: specDir, Module: "TraceJWKS", Config: "TraceJWKS.cfg", Workers: 2, Timeout: 3 * time.Minute}
	prefix := "local:"
	switch {
	case len(lm.Ops) > 0:
		var src *source
		for _, s := range sources() {
			if s.Kind == lm.Src {
				src = &s
				break
			}
		}
		if src == nil {
			e.Inconclusive("unknown source kind in the replay file: " + lm.Src)
			return
		}
		for i := 0; i < 20; i++ {
			runProgram(t, b, *src, lm.Ops, lm.Mode)
		}
	case um.Kind == "refresh":
		var uc UrlCase
		if err := json.Unmarshal(um.Case, &uc); err != nil {
			e.Inconclusive("cannot parse the URL case: " + err.Error())
			return
		}
		runRefreshCase(t, b, uc)
		opts.Module, opts.Config, prefix = "TraceJWKSUrl", "TraceJWKSUrl.cfg", "url:refresh:"
	case um.Kind == "init":
		var sc initScenario
		if err := json.Unmarshal(um.Case, &sc); err != nil {
			e.Inconclusive("cannot parse the init scenario: " + err.Error())
			return
		}
		runInitScenario(t, b, sc)
		opts.Module, opts.Config, prefix = "TraceJWKSUrl", "TraceJWKSUrl.cfg", "url:init:"
	default:
		e.Inconclusive("the replay file holds no run")
		return
	}
	rej, res := tv.Validate(opts, b)
	fmt.Printf("replay: %d runs, %d events, TLC ok=%v rejects=%d %s\n", b.Len(), b.Lines(), res.OK, len(rej), res.What)
	if !res.OK && !res.Violation {
		e.Inconclusive("trace validation did not run: " + res.What)
		return
	}
	e.Set("evaluations", int64(b.Len()))
	e.Set("traces_validated_against_impl", int64(b.Len()))
	for _, r := range rej {
		key := prefix + slug(r.Why)
		if prefix == "local:" && sourceRelated(r.Why) {
			key = "local:" + srcFamily(lm.Src) + ":" + slug(r.Why)
		}
		e.Violation(key, r.Why, tv.M{"replayed": path, "trace": b.TraceStrings(r.Trace), "at": r.At})
	}
}
