package x06

import (
	"bytes"
	"context"
	"crypto/ecdsa"
	"crypto/elliptic"
	crand "crypto/rand"
	"crypto/x509"
	"crypto/x509/pkix"
	"encoding/json"
	"encoding/pem"
	"fmt"
	"io"
	"log"
	"math/big"
	"math/rand"
	"net/http"
	"net/http/httptest"
	"os"
	"path/filepath"
	"strings"
	"sync"
	"testing"
	"testing/synctest"
	"time"

	"github.com/lestrrat-go/jwx/v2/jwk"

	"github.com/dapr/kit/jwkscache"

	"verifharness/internal/ev"
	"verifharness/internal/tv"
)

// urlMeta describes one URL run.
type urlMeta struct {
	Kind string `json:"kind"` // init | refresh
	Name string `json:"name"`
	Case any    `json:"case,omitempty"`
}

// UrlCase is one line of url_cases.ndjson (RefreshModel!Case).
type UrlCase struct {
	Script        []string `json:"script"`
	MinRefreshMin int      `json:"minRefreshMin"`
	MaxAgeMin     int      `json:"maxAgeMin"`
	CancelTick    int      `json:"cancelTick"`
	Ticks         int      `json:"ticks"`
}

// urlRec records the events of one URL run; t is measured from `start` on the clock of the run.
type urlRec struct {
	mu    sync.Mutex
	lines []tv.M
	t0    time.Time
}

func (r *urlRec) ev(name string, m tv.M) {
	if m == nil {
		m = tv.M{}
	}
	r.mu.Lock()
	m["ev"] = name
	if name != "reset" && name != "end" && name != "leak" {
		m["t"] = int(time.Since(r.t0) / time.Millisecond)
	}
	r.lines = append(r.lines, m)
	r.mu.Unlock()
}

func (r *urlRec) flush(b *tv.Batch) int {
	r.mu.Lock()
	defer r.mu.Unlock()
	tr := b.Start(r.lines[0])
	for _, l := range r.lines[1:] {
		b.Ev(l["ev"].(string), l)
	}
	return tr
}

// scripted server behaviour shared by the TCP handler and the in-memory transport
type script struct {
	mu      sync.Mutex
	resps   []string
	n       int
	maxAgeS int
	rec     *urlRec
	release chan struct{} // closed at the end of the run: slow answers give up
}

func (s *script) next() string {
	s.mu.Lock()
	defer s.mu.Unlock()
	i := s.n
	if i >= len(s.resps) {
		i = len(s.resps) - 1
	}
	s.n++
	r := s.resps[i]
	s.rec.ev("fetch", tv.M{"resp": r})
	return r
}

func (s *script) answer(resp string) (status int, hdr http.Header, body string) {
	hdr = http.Header{}
	if s.maxAgeS > 0 {
		hdr.Set("Cache-Control", fmt.Sprintf("max-age=%d", s.maxAgeS))
	}
	switch resp {
	case "okA":
		hdr.Set("Content-Type", "application/json")
		return http.StatusOK, hdr, jwks1
	case "okB":
		hdr.Set("Content-Type", "application/json")
		return http.StatusOK, hdr, jwks2
	case "garbage":
		hdr.Set("Content-Type", "application/json")
		return http.StatusOK, hdr, `{"keys": [ {"kty": "RSA", "n": `
	}
	return http.StatusInternalServerError, hdr, "scripted failure"
}

// ServeHTTP: the loopback-TCP face of the script.
func (s *script) ServeHTTP(w http.ResponseWriter, req *http.Request) {
	resp := s.next()
	if resp == "slow" {
		select {
		case <-s.release:
		case <-req.Context().Done():
		}
		return
	}
	status, hdr, body := s.answer(resp)
	for k, v := range hdr {
		w.Header()[k] = v
	}
	w.WriteHeader(status)
	_, _ = io.WriteString(w, body)
}

// RoundTrip: the in-memory face of the script (no sockets: usable inside a synctest bubble).
func (s *script) RoundTrip(req *http.Request) (*http.Response, error) {
	resp := s.next()
	if resp == "slow" {
		select {
		case <-s.release:
			return nil, fmt.Errorf("verif: server went away")
		case <-req.Context().Done():
			return nil, req.Context().Err()
		}
	}
	status, hdr, body := s.answer(resp)
	return &http.Response{StatusCode: status, Status: fmt.Sprintf("%d %s", status, http.StatusText(status)), Header: hdr,
		Body: io.NopCloser(strings.NewReader(body)), Request: req, ProtoMajor: 1, ProtoMinor: 1, ContentLength: int64(len(body))}, nil
}

func whichSet(set jwk.Set) (val string) {
	if set == nil {
		return "nil"
	}
	defer func() {
		if recover() != nil {
			val = "panic"
		}
	}()
	_, a := set.LookupKeyID("mykey")
	_, b := set.LookupKeyID("testkey")
	switch {
	case set.Len() == 1 && a:
		return "A"
	case set.Len() == 2 && a && b:
		return "B"
	}
	return "other"
}

func startClass(err error) string { return classifyStart(err, nil) }

// ---- refresher cases on the virtual clock

func runRefreshCase(t *testing.T, b *tv.Batch, uc UrlCase) (tr int, problem string) {
	const timeout = 2 * time.Second
	rec := &urlRec{}
	defer func() {
		// synctest.Test panics when goroutines of the bubble remain blocked after its main goroutine returned:
		// something of the cache outlived the closing of its context
		if p := recover(); p != nil {
			msg := fmt.Sprint(p)
			if strings.Contains(msg, "deadlock") {
				rec.ev("leak", tv.M{"what": msg})
				tr = rec.flush(b)
				return
			}
			problem = "harness panic: " + msg
			tr = rec.flush(b)
		}
	}()
	synctest.Test(t, func(t *testing.T) {
		defer func() {
			if p := recover(); p != nil {
				problem = fmt.Sprint("harness panic: ", p)
			}
		}()
		rec.t0 = time.Now()
		initOK := uc.Script[0] == "okA" || uc.Script[0] == "okB"
		rec.ev("reset", tv.M{"scen": "url", "kind": "refresh", "initOK": initOK, "timeoutMs": int(timeout / time.Millisecond), "slackMs": 50,
			"minRefreshMs": uc.MinRefreshMin * 60000, "script": uc.Script, "maxAgeMin": uc.MaxAgeMin, "cancelTick": uc.CancelTick})
		sc := &script{resps: uc.Script, maxAgeS: uc.MaxAgeMin * 60, rec: rec, release: make(chan struct{})}
		cache := jwkscache.NewJWKSCache("http://jwks.verif.test/keys.json", quietLogger())
		cache.SetHTTPClient(&http.Client{Transport: sc, Timeout: timeout})
		cache.SetRequestTimeout(timeout)
		cache.SetMinRefreshInterval(time.Duration(uc.MinRefreshMin) * time.Minute)
		ctx, cancel := context.WithCancel(context.Background())
		defer cancel()
		startDone := make(chan error, 1)
		rec.ev("start", nil)
		go func() { startDone <- cache.Start(ctx) }()
		werr := cache.WaitForCacheReady(context.Background())
		rec.ev("ready", tv.M{"class": classifyWait(werr, nil)})
		synctest.Wait()
		rec.ev("keyset", tv.M{"val": whichSet(cache.KeySet())})
		cancelled := false
		if werr == nil {
			time.Sleep(30 * time.Second) // observe 30s after every period of the refresh ticker
			for k := 1; k <= uc.Ticks; k++ {
				time.Sleep(15 * time.Minute)
				synctest.Wait()
				rec.ev("keyset", tv.M{"val": whichSet(cache.KeySet())})
				if uc.CancelTick == k && !cancelled {
					rec.ev("cancel", nil)
					cancel()
					cancelled = true
					synctest.Wait()
				}
			}
			time.Sleep(10 * time.Second)
		}
		if !cancelled {
			rec.ev("cancel", nil)
			cancel()
		}
		close(sc.release)
		select {
		case err := <-startDone:
			rec.ev("start_ret", tv.M{"class": startClass(err)})
		case <-time.After(time.Hour):
			// Start never returned: the trace ends without start_ret
		}
		// let every request timer of the HTTP client expire (virtual time) before the bubble ends: whatever is
		// still blocked after that was left behind by the cache
		time.Sleep(3 * timeout)
		rec.ev("end", nil)
	})
	return rec.flush(b), problem
}

// ---- initial fetch over loopback TCP (real clock)

type initScenario struct {
	Name     string
	Resp     string // first answer of the server
	TLS      bool
	CA       string // "", "right", "right-file", "wrong", "garbage"
	Client   string // "", "server-client" (SetHTTPClient with the server's client), "no-timeout-client"
	InitOK   bool
	Timeout  time.Duration
	MinAfter bool // also call SetMinRefreshInterval
}

func selfSignedPEM() string {
	key, _ := ecdsa.GenerateKey(elliptic.P256(), crand.Reader)
	tpl := &x509.Certificate{SerialNumber: big.NewInt(42), Subject: pkix.Name{CommonName: "verif other CA"}, NotBefore: time.Now().Add(-time.Hour),
		NotAfter: time.Now().Add(24 * time.Hour), IsCA: true, BasicConstraintsValid: true, KeyUsage: x509.KeyUsageCertSign}
	der, _ := x509.CreateCertificate(crand.Reader, tpl, tpl, &key.PublicKey, key)
	return string(pem.EncodeToMemory(&pem.Block{Type: "CERTIFICATE", Bytes: der}))
}

func runInitScenario(t *testing.T, b *tv.Batch, sc initScenario) int {
	rec := &urlRec{t0: time.Now()}
	const slack = 15 * time.Second
	rec.ev("reset", tv.M{"scen": "url", "kind": "init", "name": sc.Name, "initOK": sc.InitOK, "timeoutMs": int(sc.Timeout / time.Millisecond),
		"slackMs": int(slack / time.Millisecond), "minRefreshMs": 600000})
	srvScript := &script{resps: []string{sc.Resp}, rec: rec, release: make(chan struct{})}
	srv := httptest.NewUnstartedServer(srvScript)
	srv.Config.ErrorLog = log.New(io.Discard, "", 0)
	if sc.TLS {
		srv.StartTLS()
	} else {
		srv.Start()
	}
	defer srv.Close()
	defer close(srvScript.release)
	cache := jwkscache.NewJWKSCache(srv.URL+"/keys.json", quietLogger())
	cache.SetRequestTimeout(sc.Timeout)
	if sc.MinAfter {
		cache.SetMinRefreshInterval(time.Hour)
	}
	switch sc.CA {
	case "right":
		cache.SetCACertificate(string(pem.EncodeToMemory(&pem.Block{Type: "CERTIFICATE", Bytes: srv.Certificate().Raw})))
	case "right-file":
		p := filepath.Join(t.TempDir(), "ca.pem")
		_ = os.WriteFile(p, pem.EncodeToMemory(&pem.Block{Type: "CERTIFICATE", Bytes: srv.Certificate().Raw}), 0o600)
		cache.SetCACertificate(p)
	case "wrong":
		cache.SetCACertificate(selfSignedPEM())
	case "garbage":
		cache.SetCACertificate("-----BEGIN CERTIFICATE-----\nbm90IGEgY2VydGlmaWNhdGU=\n-----END CERTIFICATE-----\n")
	case "missing-file":
		cache.SetCACertificate(filepath.Join(t.TempDir(), "no-such-ca.pem"))
	}
	switch sc.Client {
	case "server-client":
		cache.SetHTTPClient(srv.Client())
	case "no-timeout-client":
		c := *srv.Client()
		c.Timeout = 0
		cache.SetHTTPClient(&c)
	}
	ctx, cancel := context.WithCancel(context.Background())
	defer cancel()
	startDone := make(chan error, 1)
	rec.ev("start", nil)
	go func() { startDone <- cache.Start(ctx) }()
	wctx, wcancel := context.WithTimeout(context.Background(), sc.Timeout+2*slack)
	werr := cache.WaitForCacheReady(wctx)
	wcancel()
	cls := classifyWait(werr, nil)
	if cls == "ctxerr" {
		cls = "never" // the harness gave up waiting: reported as an unexpected result
	}
	rec.ev("ready", tv.M{"class": cls})
	rec.ev("keyset", tv.M{"val": whichSet(cache.KeySet())})
	rec.ev("cancel", nil)
	cancel()
	select {
	case err := <-startDone:
		rec.ev("start_ret", tv.M{"class": startClass(err)})
	case <-time.After(2 * slack):
	}
	rec.ev("end", nil)
	return rec.flush(b)
}

func loadUrlCases(raw []byte) ([]UrlCase, error) {
	var out []UrlCase
	for _, l := range bytes.Split(raw, []byte("\n")) {
		if len(bytes.TrimSpace(l)) == 0 {
			continue
		}
		var c UrlCase
		if err := json.Unmarshal(l, &c); err != nil {
			return nil, fmt.Errorf("%v: %s", err, l)
		}
		out = append(out, c)
	}
	return out, nil
}

func urlScenarios(t *testing.T, e *ev.Evidence, rawCases []byte, rng *rand.Rand) (*tv.Batch, []urlMeta, string) {
	b := &tv.Batch{}
	var metas []urlMeta
	t0 := time.Now()
	inits := []initScenario{
		{Name: "http-ok", Resp: "okA", InitOK: true, Timeout: 20 * time.Second},
		{Name: "http-ok-two-keys", Resp: "okB", InitOK: true, Timeout: 20 * time.Second, MinAfter: true},
		{Name: "http-500", Resp: "e500", Timeout: 20 * time.Second},
		{Name: "http-garbage", Resp: "garbage", Timeout: 20 * time.Second},
		{Name: "http-slow-beyond-timeout", Resp: "slow", Timeout: 300 * time.Millisecond},
		{Name: "http-slow-beyond-short-timeout", Resp: "slow", Timeout: 50 * time.Millisecond},
		{Name: "http-slow-client-without-timeout", Resp: "slow", Timeout: 300 * time.Millisecond, Client: "no-timeout-client"},
		{Name: "https-right-ca", Resp: "okA", TLS: true, CA: "right", InitOK: true, Timeout: 20 * time.Second},
		{Name: "https-right-ca-from-file", Resp: "okB", TLS: true, CA: "right-file", InitOK: true, Timeout: 20 * time.Second},
		{Name: "https-no-ca", Resp: "okA", TLS: true, Timeout: 20 * time.Second},
		{Name: "https-wrong-ca", Resp: "okA", TLS: true, CA: "wrong", Timeout: 20 * time.Second},
		{Name: "https-garbage-ca", Resp: "okA", TLS: true, CA: "garbage", Timeout: 20 * time.Second},
		{Name: "https-missing-ca-file", Resp: "okA", TLS: true, CA: "missing-file", Timeout: 20 * time.Second},
		{Name: "https-server-client", Resp: "okB", TLS: true, Client: "server-client", InitOK: true, Timeout: 20 * time.Second},
		{Name: "https-server-client-500", Resp: "e500", TLS: true, Client: "server-client", Timeout: 20 * time.Second},
		{Name: "https-slow-right-ca", Resp: "slow", TLS: true, CA: "right", Timeout: 300 * time.Millisecond},
	}
	for rep := 0; rep < ev.Pick(1, 5); rep++ {
		for _, sc := range inits {
			runInitScenario(t, b, sc)
			metas = append(metas, urlMeta{Kind: "init", Name: sc.Name, Case: sc})
			e.Nontrivial("url-init|" + sc.Name)
		}
	}
	nInit := b.Len()
	cases, err := loadUrlCases(rawCases)
	if err != nil || len(cases) == 0 {
		return b, metas, fmt.Sprintf("cannot read the URL cases written by TLC: %v (%d)", err, len(cases))
	}
	e.Set("url_cases_enumerated_by_tlc", int64(len(cases)))
	problems := 0
	first := ""
	for _, uc := range cases {
		_, p := runRefreshCase(t, b, uc)
		metas = append(metas, urlMeta{Kind: "refresh", Name: fmt.Sprintf("%v/min%d/maxage%d/cancel%d", uc.Script, uc.MinRefreshMin, uc.MaxAgeMin, uc.CancelTick), Case: uc})
		e.Nontrivial(fmt.Sprintf("url-refresh|%v|%d|%d|%d", uc.Script, uc.MinRefreshMin, uc.MaxAgeMin, uc.CancelTick))
		if p != "" {
			problems++
			if first == "" {
				first = p
			}
		}
	}
	_ = rng
	fmt.Printf("performed %d URL runs (%d initial-fetch scenarios over TCP, %d refresher cases on the virtual clock) in %s\n", b.Len(), nInit, len(cases), time.Since(t0).Round(time.Millisecond))
	if problems > 0 {
		return b, metas, fmt.Sprintf("%d refresher cases could not be performed; first: %s", problems, first)
	}
	return b, metas, ""
}
