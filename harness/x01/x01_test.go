// X01 (extension check) — cron job wrappers (cron/chain.go): Chain.Then,
// Recover, DelayIfStillRunning, SkipIfStillRunning.
//
// The wrappers are plain cron.Job values, so the harness drives them directly:
// invocations of one wrapped job are started from their own goroutines at
// arbitrary quiescent points (or several at once, to stage real races on the
// wrapper's channel / mutex), the job body is a harness gate (it runs for as
// long as the driver wants and may panic with several kinds of values), a fake
// clock is stepped at quiescent points.  The driver's choices are enumerated
// exhaustively (stateless depth-first replay) up to a budget and seeded-random
// beyond.  The same wrappers also run under a real cron.Cron with a fake clock
// (WithChain, one entry; and one pre-wrapped job shared by two entries, which
// makes every tick a concurrent double invocation).  Every run is recorded
// (invoke / enter / exit / start / end / skiplog / delaylog / errlog / ret /
// escaped / waiting / clock / done) and judged by TLC against
// spec/ext/CronChain/CronChainContract.tla; CronChainImpl.tla (channel token,
// FIFO mutex, deferred recover) is model-checked exhaustively with the same
// monitor attached, including liveness (every invocation completes; under
// Delay every invocation runs).
package x01

import (
	"bytes"
	"errors"
	"fmt"
	"math/rand"
	"runtime"
	"strconv"
	"strings"
	"sync"
	"testing"
	"time"

	"github.com/dapr/kit/cron"
	clocktesting "k8s.io/utils/clock/testing"

	"verifharness/internal/ev"
	"verifharness/internal/sched"
	"verifharness/internal/tlc"
	"verifharness/internal/tv"
)

const specDir = "ext/CronChain"

var base = time.Date(2024, 1, 1, 0, 0, 0, 0, time.UTC)

type scenario struct {
	Chain     []string `json:"chain"`   // "m" | "recover" | "skip" | "delay"
	N         int      `json:"n"`       // invocations
	Panic     []int    `json:"panic"`   // per invocation: 0 = the body returns, k > 0 = it panics with a value of kind k
	Mode      string   `json:"mode"`    // direct | race | cron | cronshared | default
	Steps     []int    `json:"steps"`   // clock steps (seconds) the driver may take, in order (cron modes: [tick])
	RealDelay bool     `json:"realdelay,omitempty"`
	Choices   []int    `json:"choices"` // the driver's choices (index into the choice list at each quiescent point)
	Seed      int64    `json:"seed"`    // seeds the choices after the prefix (0: always the first choice)
}

func gid() uint64 {
	var b [64]byte
	n := runtime.Stack(b[:], false)
	s := b[len("goroutine "):n]
	if k := bytes.IndexByte(s, ' '); k > 0 {
		v, _ := strconv.ParseUint(string(s[:k]), 10, 64)
		return v
	}
	return 0
}

type invState struct {
	invoked, started, finished, waitSeen bool
	panicKind                           int
	panicVal                            any
}

type recorder struct {
	mu      sync.Mutex
	b       *tv.Batch
	closed  bool
	gids    map[uint64]int
	inv     map[int]*invState
	nextInv int
	shape   []string
	seen    map[string]int
}

func (r *recorder) st(i int) *invState {
	s := r.inv[i]
	if s == nil {
		s = &invState{}
		r.inv[i] = s
	}
	return s
}

func (r *recorder) bind(i int) {
	r.mu.Lock()
	r.gids[gid()] = i
	r.mu.Unlock()
}

func (r *recorder) newInv() int {
	r.mu.Lock()
	defer r.mu.Unlock()
	r.nextInv++
	r.gids[gid()] = r.nextInv
	return r.nextInv
}

// who attributes the calling goroutine to an invocation (0: none).
func (r *recorder) who() int {
	g := gid()
	r.mu.Lock()
	defer r.mu.Unlock()
	return r.gids[g]
}

func (r *recorder) ev(name string, m tv.M) {
	r.mu.Lock()
	defer r.mu.Unlock()
	if r.closed {
		return
	}
	if i, ok := m["i"].(int); ok {
		s := r.st(i)
		switch name {
		case "invoke":
			s.invoked = true
		case "start":
			s.started = true
		case "ret", "escaped":
			s.finished = true
		}
		r.shape = append(r.shape, name+strconv.Itoa(i))
	}
	r.seen[name]++
	r.b.Ev(name, m)
}

type hlogger struct{ r *recorder }

func (l *hlogger) Info(msg string, kv ...interface{}) {
	switch msg {
	case "skip":
		l.r.ev("skiplog", tv.M{"i": l.r.who()})
	case "delay":
		dur := -1
		for k := 0; k+1 < len(kv); k += 2 {
			if fmt.Sprint(kv[k]) == "duration" {
				if d, ok := kv[k+1].(time.Duration); ok && d%time.Second == 0 {
					dur = int(d / time.Second)
				}
			}
		}
		l.r.ev("delaylog", tv.M{"i": l.r.who(), "dur": dur})
	}
}

func (l *hlogger) Error(err error, msg string, kv ...interface{}) {
	i := l.r.who()
	stack := false
	for k := 0; k+1 < len(kv); k += 2 {
		if fmt.Sprint(kv[k]) == "stack" {
			if s, ok := kv[k+1].(string); ok && strings.Contains(s, "goroutine") {
				stack = true
			}
		}
	}
	l.r.mu.Lock()
	s := l.r.st(i)
	match := matchPanic(s.panicKind, s.panicVal, err)
	l.r.mu.Unlock()
	l.r.ev("errlog", tv.M{"i": i, "match": match, "stack": stack})
}

// panic value kinds
const (
	pkError = iota + 1
	pkString
	pkInt
	pkStruct
	pkRuntime
	pkWrapped
	pkNil
	numPanicKinds = pkNil
)

var errJob = errors.New("verif: job failed")

type pstruct struct {
	A int
	B string
}

func panicValue(kind int) any {
	switch kind {
	case pkError:
		return errJob
	case pkString:
		return "verif: boom"
	case pkInt:
		return 42
	case pkStruct:
		return pstruct{7, "x"}
	case pkWrapped:
		return fmt.Errorf("wrapped: %w", errJob)
	}
	return nil
}

func doPanic(kind int, val any) {
	switch kind {
	case pkRuntime:
		var m map[string]int
		m["x"] = 1 //nolint
	case pkNil:
		panic(nil) //nolint
	default:
		panic(val)
	}
}

func matchPanic(kind int, val any, err error) bool {
	if err == nil {
		return false
	}
	switch kind {
	case pkError, pkWrapped:
		return err == val
	case pkString, pkInt, pkStruct:
		return err.Error() == fmt.Sprintf("%v", val)
	case pkRuntime:
		var re runtime.Error
		return errors.As(err, &re) && strings.Contains(err.Error(), "nil map")
	case pkNil:
		var pn *runtime.PanicNilError
		return errors.As(err, &pn)
	}
	return false
}

type everyTick struct{ d time.Duration }

func (s everyTick) Next(t time.Time) time.Time { return t.Add(s.d) }

type result struct {
	trace   int
	path    []int // choices taken
	widths  []int // number of choices at each point
	log     []string
	err     error // the driver could not bring the run to quiescence: inconclusive
	shape   string
	seen    map[string]int
}

func hasW(chain []string, w string) bool {
	for _, x := range chain {
		if x == w {
			return true
		}
	}
	return false
}

// runScenario executes one scenario on the real code and appends its trace to b.
func runScenario(b *tv.Batch, sc scenario) result {
	rec := &recorder{b: b, gids: map[uint64]int{}, inv: map[int]*invState{}, seen: map[string]int{}}
	fifo := sc.Mode == "direct" || sc.Mode == "cron" || sc.Mode == "default"
	declared := sc.Chain
	if sc.Mode == "default" {
		declared = []string{"recover"} // what the doc comment of cron.New promises for the default chain
	}
	res := result{}
	res.trace = b.Start(tv.M{"chain": declared, "n": sc.N, "fifo": fifo, "minute": 60, "logobs": sc.Mode != "default", "sc": sc})
	clk := clocktesting.NewFakeClock(base)
	nowSec := func() int { return int(clk.Now().Sub(base) / time.Second) }
	ctl := sched.New("job.body")
	logger := &hlogger{r: rec}
	var rng *rand.Rand
	if sc.Seed != 0 {
		rng = rand.New(rand.NewSource(sc.Seed))
	}

	inner := cron.FuncJob(func() {
		i := rec.who()
		rec.ev("start", tv.M{"i": i})
		ctl.Point("job.body", i)
		kind := 0
		if i >= 1 && i <= len(sc.Panic) {
			kind = sc.Panic[i-1]
		}
		if kind != 0 {
			val := panicValue(kind)
			rec.mu.Lock()
			s := rec.st(i)
			s.panicKind, s.panicVal = kind, val
			rec.mu.Unlock()
			rec.ev("end", tv.M{"i": i, "p": true})
			doPanic(kind, val)
		}
		rec.ev("end", tv.M{"i": i, "p": false})
	})
	mark := func(p int) cron.JobWrapper {
		return func(j cron.Job) cron.Job {
			rec.ev("apply", tv.M{"pos": p})
			return cron.FuncJob(func() {
				i := rec.who()
				rec.ev("enter", tv.M{"i": i, "pos": p})
				panicked := true
				defer func() { rec.ev("exit", tv.M{"i": i, "pos": p, "p": panicked}) }()
				j.Run()
				panicked = false
			})
		}
	}
	var ws []cron.JobWrapper
	for k, w := range sc.Chain {
		switch w {
		case "m":
			ws = append(ws, mark(k+1))
		case "recover":
			ws = append(ws, cron.Recover(logger))
		case "skip":
			ws = append(ws, cron.SkipIfStillRunning(logger))
		case "delay":
			if sc.RealDelay {
				ws = append(ws, cron.DelayIfStillRunning(logger))
			} else {
				ws = append(ws, cron.DelayIfStillRunningWithClock(logger, clk))
			}
		}
	}
	// the call of the wrapped job: invoke immediately before, ret / escaped immediately after
	call := func(i int, j cron.Job) {
		rec.ev("invoke", tv.M{"i": i})
		esc := true
		func() {
			defer func() {
				if esc {
					recover() //nolint
					rec.ev("escaped", tv.M{"i": i})
				}
			}()
			j.Run()
			esc = false
		}()
		if !esc {
			rec.ev("ret", tv.M{"i": i})
		}
	}

	var wrapped cron.Job
	var c *cron.Cron
	cronMode := sc.Mode == "cron" || sc.Mode == "cronshared"
	tick := 40
	if len(sc.Steps) > 0 {
		tick = sc.Steps[0]
	}
	maxTicks := 0
	switch sc.Mode {
	case "direct", "race":
		wrapped = cron.NewChain(ws...).Then(inner)
	case "default":
		c = cron.New(cron.WithClock(clk), cron.WithLogger(logger), cron.WithLocation(time.UTC))
		id := c.Schedule(everyTick{time.Hour}, inner)
		wrapped = c.Entry(id).WrappedJob
	case "cron", "cronshared":
		outer := func(j cron.Job) cron.Job {
			return cron.FuncJob(func() { call(rec.newInv(), j) })
		}
		if sc.Mode == "cron" {
			c = cron.New(cron.WithClock(clk), cron.WithLogger(logger), cron.WithLocation(time.UTC),
				cron.WithChain(append([]cron.JobWrapper{outer}, ws...)...))
			c.Schedule(everyTick{time.Duration(tick) * time.Second}, inner)
			maxTicks = sc.N
		} else {
			shared := cron.NewChain(ws...).Then(inner)
			c = cron.New(cron.WithClock(clk), cron.WithLogger(logger), cron.WithLocation(time.UTC), cron.WithChain(outer))
			c.Schedule(everyTick{time.Duration(tick) * time.Second}, shared)
			c.Schedule(everyTick{time.Duration(tick) * time.Second}, shared)
			maxTicks = sc.N / 2
		}
		c.Start()
	}

	invoked, ticks, stepIdx := 0, 0, 0
	startInv := func() {
		invoked++
		i := invoked
		ctl.Go("inv"+strconv.Itoa(i), func() {
			rec.bind(i)
			call(i, wrapped)
		})
	}
	type choice struct {
		name string
		do   func()
	}
	pick := func(n int) int {
		k := len(res.path)
		v := 0
		if k < len(sc.Choices) {
			v = sc.Choices[k]
		} else if rng != nil {
			v = rng.Intn(n)
		}
		if v >= n {
			v = n - 1
		}
		res.path = append(res.path, v)
		res.widths = append(res.widths, n)
		return v
	}
	for step := 0; ; step++ {
		if step > 200 {
			res.err = fmt.Errorf("step budget exhausted")
			break
		}
		if _, err := ctl.Quiesce(3 * time.Second); err != nil {
			res.err = err
			break
		}
		parked := ctl.Parked()
		isParked := map[int]bool{}
		for _, p := range parked {
			if len(p.Args) > 0 {
				if i, ok := p.Args[0].(int); ok {
					isParked[i] = true
				}
			}
		}
		// what the harness sees at the quiescent point: invocations that are blocked before the job body
		rec.mu.Lock()
		var waiting []int
		open := 0
		for i := 1; i <= sc.N; i++ {
			s := rec.inv[i]
			if s == nil || !s.invoked || s.finished {
				continue
			}
			open++
			if !s.started && !s.waitSeen {
				s.waitSeen = true
				waiting = append(waiting, i)
			}
		}
		rec.mu.Unlock()
		for _, i := range waiting {
			rec.ev("waiting", tv.M{"i": i})
		}
		var cs []choice
		if cronMode {
			if ticks < maxTicks {
				cs = append(cs, choice{"tick", func() {
					ticks++
					rec.ev("clock", tv.M{"now": nowSec() + tick})
					clk.Step(time.Duration(tick) * time.Second)
				}})
			}
		} else if invoked < sc.N {
			cs = append(cs, choice{"invoke", startInv})
		}
		for _, p := range parked {
			p := p
			cs = append(cs, choice{fmt.Sprint("release", p.Args), func() { ctl.Release(p) }})
		}
		if !cronMode && stepIdx < len(sc.Steps) && open > 0 {
			cs = append(cs, choice{"clock", func() {
				d := sc.Steps[stepIdx]
				stepIdx++
				rec.ev("clock", tv.M{"now": nowSec() + d})
				clk.Step(time.Duration(d) * time.Second)
			}})
		}
		if sc.Mode == "race" {
			if invoked+2 <= sc.N {
				cs = append(cs, choice{"invoke2", func() { startInv(); startInv() }})
			}
			if invoked < sc.N {
				for _, p := range parked {
					p := p
					cs = append(cs, choice{fmt.Sprint("release+invoke", p.Args), func() { ctl.Release(p); startInv() }})
				}
			}
		}
		if len(cs) == 0 {
			break
		}
		ch := cs[pick(len(cs))]
		res.log = append(res.log, ch.name)
		ch.do()
	}
	if c != nil && cronMode {
		ctx := c.Stop()
		select {
		case <-ctx.Done():
		case <-time.After(2 * time.Second):
		}
	}
	if res.err == nil {
		if _, err := ctl.Quiesce(3 * time.Second); err != nil {
			res.err = err
		} else {
			rec.ev("done", nil)
		}
	}
	rec.mu.Lock()
	rec.closed = true
	res.shape = strings.Join(sc.Chain, ",") + "|" + strings.Join(rec.shape, " ")
	res.seen = rec.seen
	rec.mu.Unlock()
	ctl.Shutdown()
	return res
}

// explore runs a scenario under every sequence of driver choices (depth first, by replay) up to budget
// runs; when the budget is hit the rest of the tree is sampled with seeded choices.
func explore(b *tv.Batch, sc scenario, budget, extra int, rng *rand.Rand, each func(scenario, result)) (exhausted bool) {
	var prefix []int
	for n := 0; n < budget; n++ {
		s := sc
		s.Choices = append([]int{}, prefix...)
		r := runScenario(b, s)
		s.Choices = r.path
		each(s, r)
		if r.err != nil {
			return false
		}
		k := len(r.path) - 1
		for k >= 0 && r.path[k]+1 >= r.widths[k] {
			k--
		}
		if k < 0 {
			return true
		}
		prefix = append(append([]int{}, r.path[:k]...), r.path[k]+1)
	}
	for n := 0; n < extra; n++ {
		s := sc
		s.Choices = nil
		s.Seed = rng.Int63() | 1
		r := runScenario(b, s)
		s.Choices = r.path
		s.Seed = 0
		each(s, r)
	}
	return false
}

func slug(s string) string {
	var sb strings.Builder
	for _, r := range s {
		switch {
		case r == ' ':
			sb.WriteByte('-')
		case r >= 'a' && r <= 'z' || r >= 'A' && r <= 'Z' || r >= '0' && r <= '9':
			sb.WriteRune(r)
		}
	}
	return sb.String()
}

// findingKey: the wrapper the rejected law belongs to (so one root cause gives one key whatever else is
// in the chain), whether a panic had happened before the rejected event, and the monitor's reason.
func findingKey(sc scenario, trace []string, at int, why string) string {
	var real []string
	for _, w := range sc.Chain {
		if w != "m" {
			real = append(real, w)
		}
	}
	class := strings.Join(real, "+")
	if class == "" {
		class = "plain"
	}
	switch {
	case sc.Mode == "default":
		class = "cron.New-default-chain"
	case strings.Contains(why, "skip"):
		class = "skip"
	case strings.Contains(why, "delay") || strings.Contains(why, "waiting"):
		class = "delay"
	case strings.Contains(why, "Recover") || strings.Contains(why, "panic"):
		class = "recover"
	case strings.Contains(why, "Then ") || strings.Contains(why, "chain order") || strings.Contains(why, "unwind"):
		class = "chain"
	}
	pan := ""
	for k := 0; k <= at && k < len(trace); k++ {
		if strings.Contains(trace[k], `"p":true`) {
			pan = "after-panic:"
			break
		}
	}
	return class + ":" + pan + slug(why)
}

func panicPlans(n int, rng *rand.Rand, thorough bool) [][]int {
	none := make([]int, n)
	out := [][]int{none}
	first := make([]int, n)
	first[0] = pkError
	out = append(out, first)
	if n >= 2 {
		all := make([]int, n)
		for i := range all {
			all[i] = 1 + (i+1)%numPanicKinds
		}
		out = append(out, all)
		last := make([]int, n)
		last[n-1] = pkString
		out = append(out, last)
	}
	if thorough && n >= 3 {
		mid := make([]int, n)
		mid[1] = pkRuntime
		out = append(out, mid)
	}
	return out
}

func TestCheck(t *testing.T) {
	e := ev.New("X01", "model_checking")
	defer func() {
		if e.Write() > 0 {
			t.Fail()
		}
	}()
	thorough := ev.Thorough()
	rng := rand.New(rand.NewSource(ev.Seed()))
	e.Assume("extension check (not one of the twenty listed properties): contract written from the doc comments of cron/chain.go and cron.New",
		"the arrival-order law of DelayIfStillRunning is judged only for arrivals the harness saw blocked at a quiescent point before the later invocation was made (Go's sync.Mutex lets a racing arrival overtake)",
		"invocations are attributed to events by goroutine (the wrappers call the job synchronously)")

	// 1. exhaustive model checks of the implementation-shaped model against the contract monitor
	var states, trans int64
	mcs := []struct {
		cfg     string
		expectV bool
		timeout time.Duration
	}{
		{ev.Pick("MC_small.cfg", "MC_big.cfg"), false, ev.Pick(8*time.Minute, 60*time.Minute)},
		{ev.Pick("MC_live_small.cfg", "MC_live_big.cfg"), false, ev.Pick(8*time.Minute, 60*time.Minute)},
		{"MC_defect_skip_nodefer.cfg", true, 5 * time.Minute},
		{"MC_defect_barging.cfg", true, 5 * time.Minute},
	}
	if thorough {
		mcs = append(mcs, struct {
			cfg     string
			expectV bool
			timeout time.Duration
		}{"MC_asis_nopanic.cfg", false, 20 * time.Minute})
	}
	mcInfo := tv.M{}
	for _, m := range mcs {
		r := tlc.Run(tlc.Opts{Dir: specDir, Module: "MCCronChain", Config: m.cfg, Workers: 12, Timeout: m.timeout, Args: []string{"-noGenerateSpecTE"}})
		fmt.Printf("MC %s: ok=%v violation=%v generated=%d distinct=%d depth=%d wall=%s %s\n", m.cfg, r.OK, r.Violation, r.Generated, r.Distinct, r.Depth, r.Wall.Round(time.Millisecond), r.What)
		mcInfo[m.cfg] = tv.M{"ok": r.OK, "violation": r.Violation, "distinct": r.Distinct, "generated": r.Generated, "wall_s": r.Wall.Seconds()}
		if m.expectV {
			if !r.Violation {
				e.Inconclusive("defect config " + m.cfg + " was not rejected (vacuous model check?): " + r.What)
			}
			continue
		}
		if !r.OK {
			e.Inconclusive("model check " + m.cfg + " did not pass: " + r.What + "\n" + r.Tail(2500))
		}
		states += r.Distinct
		trans += r.Generated
		e.Set("checker_cmd", r.Cmd)
	}
	e.Set("states", states)
	e.Set("transitions", trans)
	e.Set("model_checks", mcInfo)

	// 2. real code
	b := &tv.Batch{}
	var scs []scenario
	var ress []result
	inconcl := 0
	each := func(sc scenario, r result) {
		scs = append(scs, sc)
		ress = append(ress, r)
		if r.err != nil {
			inconcl++
		}
		if r.seen["skiplog"]+r.seen["waiting"]+r.seen["errlog"]+r.seen["delaylog"]+r.seen["escaped"] > 0 {
			e.Nontrivial(r.shape)
		}
		for _, k := range []string{"skiplog", "waiting", "errlog", "delaylog", "escaped", "start"} {
			e.Add("events_"+k, int64(r.seen[k]))
		}
	}
	chains := [][]string{
		{}, {"m"}, {"m", "m", "m"}, {"recover"}, {"skip"}, {"delay"},
		{"recover", "skip"}, {"skip", "recover"}, {"recover", "delay"}, {"delay", "recover"},
		{"m", "skip", "m"}, {"m", "delay", "m"}, {"m", "recover", "m"},
		{"recover", "m", "skip", "m"}, {"recover", "m", "delay", "m"}, {"delay", "skip"}, {"skip", "delay"},
		{"m", "recover", "skip", "delay"},
	}
	maxN := ev.Pick(3, 4)
	budget := ev.Pick(14, 60)
	extra := ev.Pick(2, 10)
	exhausted, trees := 0, 0
	for _, ch := range chains {
		for n := 1; n <= maxN; n++ {
			for pi, pp := range panicPlans(n, rng, thorough) {
				for _, mode := range []string{"direct", "race"} {
					if mode == "race" && (n < 2 || (!thorough && pi >= 2)) {
						continue
					}
					if !thorough && n == 3 && (pi >= 2 || (mode == "race" && pi >= 1)) {
						continue
					}
					var steps []int
					if hasW(ch, "delay") && mode == "direct" {
						steps = [][]int{{61}, {60, 1}, {30, 31}, {59}}[rng.Intn(4)]
					}
					sc := scenario{Chain: ch, N: n, Panic: pp, Mode: mode, Steps: steps, RealDelay: hasW(ch, "delay") && len(steps) == 0 && n%2 == 0}
					trees++
					if explore(b, sc, budget, extra, rng, each) {
						exhausted++
					}
				}
			}
		}
	}
	// larger seeded runs
	for k := 0; k < ev.Pick(40, 600); k++ {
		ch := chains[rng.Intn(len(chains))]
		n := 4 + rng.Intn(3)
		pp := make([]int, n)
		for i := range pp {
			if rng.Intn(3) == 0 {
				pp[i] = 1 + rng.Intn(numPanicKinds)
			}
		}
		mode := []string{"direct", "race"}[rng.Intn(2)]
		var steps []int
		if hasW(ch, "delay") && mode == "direct" {
			steps = []int{30 + rng.Intn(40), 1 + rng.Intn(61)}
		}
		sc := scenario{Chain: ch, N: n, Panic: pp, Mode: mode, Steps: steps, Seed: rng.Int63() | 1}
		r := runScenario(b, sc)
		sc.Choices, sc.Seed = r.path, 0
		each(sc, r)
	}
	// the default chain of cron.New (doc comment: "A chain that recovers panics and logs them")
	for n := 1; n <= 2; n++ {
		for _, pp := range panicPlans(n, rng, false) {
			explore(b, scenario{Chain: []string{}, N: n, Panic: pp, Mode: "default"}, 6, 0, rng, each)
		}
	}
	// under a real cron.Cron with a fake clock
	cronChains := [][]string{{"skip"}, {"delay"}, {"recover", "skip"}, {"recover", "delay"}, {"m", "skip", "m"}, {"m", "recover", "delay"}, {"recover"}}
	for _, ch := range cronChains {
		for _, mode := range []string{"cron", "cronshared"} {
			for _, tick := range []int{40, 61} {
				for n := 2; n <= ev.Pick(3, 4); n++ {
					if mode == "cronshared" && n%2 == 1 {
						continue
					}
					pps := [][]int{make([]int, n)}
					if hasW(ch, "recover") {
						p := make([]int, n)
						p[0] = pkStruct
						pps = append(pps, p)
					}
					for _, pp := range pps {
						trees++
						if explore(b, scenario{Chain: ch, N: n, Panic: pp, Mode: mode, Steps: []int{tick}}, ev.Pick(8, 60), ev.Pick(1, 10), rng, each) {
							exhausted++
						}
					}
				}
			}
		}
	}
	fmt.Printf("recorded %d runs (%d events), %d choice trees (%d enumerated completely), %d not quiescent\n", b.Len(), b.Lines(), trees, exhausted, inconcl)
	e.Set("evaluations", int64(len(scs)))
	e.Set("choice_trees", int64(trees))
	e.Set("choice_trees_exhausted", int64(exhausted))
	e.Set("rule", "every evaluation = one run of one wrapped job: (chain over {mark, Recover, SkipIfStillRunning, DelayIfStillRunning[WithClock]}, number of invocations, per-invocation panic plan with 7 kinds of panic values, mode direct|race|cron|cronshared|cron.New default chain, clock steps, the driver's choice sequence); for N<=3 (thorough 4) the driver's choice tree (invoke / release a job body / step the clock / start two invocations at once / release+invoke at once) is enumerated depth-first up to a budget and sampled beyond; non-trivial = the run contains a skip, a blocked invocation, a recovered or escaped panic, or a logged delay; distinct by chain + the sequence of attributed events")
	for _, i := range []int{0, len(scs) / 3, len(scs) / 2, len(scs) - 1} {
		e.Sample(tv.M{"scenario": scs[i], "trace": b.TraceStrings(i)})
	}
	if inconcl > 0 {
		e.Set("runs_not_quiescent", int64(inconcl))
		if inconcl*20 > len(scs) {
			e.Inconclusive(fmt.Sprintf("%d of %d runs could not be driven to quiescence", inconcl, len(scs)))
		}
	}

	// 3. TLC judges the recorded runs
	rej, res := tv.ValidateChunked(tlc.Opts{Dir: specDir, Module: "TraceCronChain", Config: "TraceCronChain.cfg", Workers: 12, Timeout: ev.Pick(8*time.Minute, 40*time.Minute), HeapMB: 8192}, b)
	fmt.Printf("TLC trace validation: ok=%v violation=%v rejects=%d distinct=%d wall=%s %s\n", res.OK, res.Violation, len(rej), res.Distinct, res.Wall.Round(time.Millisecond), res.What)
	if !res.OK && !res.Violation {
		e.Inconclusive("trace validation did not run: " + res.What + "\n" + res.Tail(2000))
		return
	}
	if res.Violation && len(rej) == 0 {
		e.Inconclusive("TLC reported a violation that could not be parsed:\n" + res.Tail(3000))
		return
	}
	validated := 0
	skipT := map[int]bool{}
	for i, r := range ress {
		if r.err != nil {
			skipT[r.trace] = true
			_ = i
		} else {
			validated++
		}
	}
	e.Set("traces_validated_against_impl", int64(validated))
	byKey := map[string]int{}
	for _, r := range rej {
		if skipT[r.Trace] {
			continue // a run the driver could not finish is inconclusive, never a violation
		}
		sc := scs[r.Trace]
		tr := b.TraceStrings(r.Trace)
		key := findingKey(sc, tr, r.At, r.Why)
		byKey[key]++
		e.Violation(key, r.Why, tv.M{"scenario": sc, "schedule": ress[r.Trace].log, "trace": tr, "at": r.At})
	}
	if len(byKey) > 0 {
		e.Set("rejected_runs_by_key", byKey)
	}

	// 4. binding self-test
	selfTest(e)
}

func selfTest(e *ev.Evidence) {
	good := &tv.Batch{}
	// invocation 2 arrives while 1 runs and is skipped; then 1 ends; 3 runs
	runScenario(good, scenario{Chain: []string{"skip"}, N: 3, Panic: []int{0, 0, 0}, Mode: "direct", Choices: []int{0, 0, 1, 0, 0}})
	// a panic recovered and logged
	runScenario(good, scenario{Chain: []string{"recover", "m"}, N: 1, Panic: []int{pkInt}, Mode: "direct"})
	// two invocations serialised by Delay
	runScenario(good, scenario{Chain: []string{"delay"}, N: 2, Panic: []int{0, 0}, Mode: "direct", Choices: []int{0, 0}})
	b := &tv.Batch{}
	for i := 0; i < 3; i++ {
		b.AppendTrace(good.Trace(i))
	}
	drop := func(lines [][]byte, needle string) [][]byte {
		var out [][]byte
		done := false
		for _, l := range lines {
			if !done && bytes.Contains(l, []byte(needle)) {
				done = true
				continue
			}
			out = append(out, l)
		}
		return out
	}
	hadSkip := bytes.Contains(bytes.Join(good.Trace(0), nil), []byte(`"skiplog"`))
	// (3) the skip is not logged; (4) the skipped invocation runs the job while 1 is in flight
	b.AppendTrace(drop(good.Trace(0), `"skiplog"`))
	var m4 [][]byte
	for _, l := range good.Trace(0) {
		if bytes.Contains(l, []byte(`"skiplog"`)) {
			m4 = append(m4, []byte(`{"ev":"start","i":2}`), []byte(`{"ev":"end","i":2,"p":false}`))
			continue
		}
		m4 = append(m4, l)
	}
	b.AppendTrace(m4)
	// (5) the panic is not logged; (6) it reaches the caller
	b.AppendTrace(drop(good.Trace(1), `"errlog"`))
	var m6 [][]byte
	for _, l := range drop(good.Trace(1), `"errlog"`) {
		m6 = append(m6, bytes.Replace(l, []byte(`"ev":"ret"`), []byte(`"ev":"escaped"`), 1))
	}
	b.AppendTrace(m6)
	// (7) the second delayed invocation starts right after its arrival, while the first one is running
	var m7 [][]byte
	var start2 []byte
	for _, l := range good.Trace(2) {
		if bytes.Contains(l, []byte(`"ev":"start","i":2`)) {
			start2 = l
		}
	}
	for _, l := range good.Trace(2) {
		if bytes.Contains(l, []byte(`"ev":"start","i":2`)) {
			continue
		}
		m7 = append(m7, l)
		if start2 != nil && bytes.Contains(l, []byte(`"ev":"invoke","i":2`)) {
			m7 = append(m7, start2)
		}
	}
	b.AppendTrace(m7)
	// (8) the last invocation never returns
	b.AppendTrace(drop(good.Trace(2), `"ev":"ret","i":2`))
	rej, res := tv.ValidateChunked(tlc.Opts{Dir: specDir, Module: "TraceCronChain", Config: "TraceCronChain.cfg", Workers: 2, Timeout: 3 * time.Minute}, b)
	got := map[int]string{}
	for _, r := range rej {
		got[r.Trace] = r.Why
	}
	ok := (res.OK || res.Violation) && hadSkip
	for i := 0; i < 3; i++ {
		if _, bad := got[i]; bad {
			ok = false
		}
	}
	for i := 3; i <= 8; i++ {
		if _, bad := got[i]; !bad {
			ok = false
		}
	}
	e.Set("binding_selftest", tv.M{"unmodified_accepted": got[0] == "" && got[1] == "" && got[2] == "", "skip_not_logged": got[3], "skipped_invocation_runs": got[4],
		"panic_not_logged": got[5], "panic_escapes": got[6], "overlapping_runs_under_delay": got[7], "invocation_never_returns": got[8]})
	if !ok {
		e.Inconclusive(fmt.Sprintf("binding self-test failed: rejects=%v hadSkip=%v %s", got, hadSkip, res.What))
	}
}
