package c20

// Free-running (ungated) rounds: Add from several goroutines, Cancel and a hot loop of Size calls run truly in
// parallel - windows no gate can reach (between two statements of Cancel, inside a critical section). Judged by the
// same PoolContract: every call returns, Size is zero after Cancel, a second Cancel does not panic, the watcher is gone.

import (
	"context"
	"fmt"
	"runtime"
	"strings"
	"sync"
	"sync/atomic"
	"time"

	kitctx "github.com/dapr/kit/context"

	"verifharness/internal/tv"
)

func watcherAlive() bool {
	buf := make([]byte, 1<<20)
	n := runtime.Stack(buf, true)
	return strings.Contains(string(buf[:n]), "kit/context.NewPool.func1")
}

var freeHung int // rounds that ended in a hang: after a few of them further rounds only cost time

func freeRound(b *tv.Batch, round int) {
	if freeHung >= 3 {
		return
	}
	var mu sync.Mutex
	ev := func(name string, m tv.M) {
		mu.Lock()
		defer mu.Unlock()
		b.Ev(name, m)
	}
	b.Start(tv.M{"family": "free-running", "round": round})
	var cancels []context.CancelFunc
	defer func() {
		for _, c := range cancels {
			c()
		}
	}()
	mk := func() context.Context {
		c, cancel := context.WithCancel(context.Background())
		cancels = append(cancels, cancel)
		return c
	}
	nInit := 1 + round%2
	init := []int{}
	var ctxs []context.Context
	for i := 1; i <= nInit; i++ {
		init = append(init, i)
		ctxs = append(ctxs, mk())
	}
	ev("new", tv.M{"init": init, "pre": []int{}})
	pool := kitctx.NewPool(ctxs...)
	adders := 2 + round%3
	perAdder := 1 + (round/3)%3
	addCtx := make([][]context.Context, adders)
	for g := range addCtx {
		for k := 0; k < perAdder; k++ {
			addCtx[g] = append(addCtx[g], mk())
		}
	}
	var wg sync.WaitGroup
	var stop atomic.Bool
	start := make(chan struct{})
	for g := 0; g < adders; g++ {
		wg.Add(1)
		go func(g int) {
			defer wg.Done()
			<-start
			for k, cx := range addCtx[g] {
				m := 100 + g*10 + k
				ev("add_call", tv.M{"m": m, "ended": false})
				func() {
					defer func() {
						if p := recover(); p != nil {
							ev("panic", tv.M{"op": "add", "what": fmt.Sprint(p)})
						}
					}()
					// one recorded Add standing for a hot loop of identical Adds (nothing observes the pool during the loop;
					// after Cancel returned every one of them must have been ignored or dropped)
					for {
						pool.Add(cx)
						if stop.Load() || k+1 < len(addCtx[g]) {
							break
						}
					}
				}()
				ev("add_ret", tv.M{"m": m})
			}
		}(g)
	}
	wg.Add(1)
	go func() { // Size in a hot loop: must never block for good
		defer wg.Done()
		<-start
		for i := 0; i < 300; i++ {
			_ = pool.Size()
		}
	}()
	// further Cancel callers released at the same instant (Cancel may be called by several goroutines at once)
	for x := 0; x < round%3; x++ {
		wg.Add(1)
		go func() {
			defer wg.Done()
			<-start
			for i := 0; i < 3*(round%17); i++ {
				runtime.Gosched()
			}
			func() {
				defer func() {
					if p := recover(); p != nil {
						ev("panic", tv.M{"op": "parallel-cancel", "what": fmt.Sprint(p)})
					}
				}()
				pool.Cancel()
			}()
		}()
	}
	wg.Add(1)
	go func() {
		defer wg.Done()
		defer stop.Store(true)
		<-start
		for i := 0; i < 3*(round%17); i++ {
			runtime.Gosched()
		}
		ev("pcancel_call", nil)
		func() {
			defer func() {
				if p := recover(); p != nil {
					ev("panic", tv.M{"op": "cancel", "what": fmt.Sprint(p)})
				}
			}()
			pool.Cancel()
		}()
		ev("pcancel_ret", nil)
		for i := 0; i < 5; i++ {
			runtime.Gosched()
		}
	}()
	close(start)
	done := make(chan struct{})
	go func() { wg.Wait(); close(done) }()
	select {
	case <-done:
	case <-time.After(5 * time.Second):
		ev("hung", tv.M{"op": "add/size/cancel"})
		freeHung++
		return
	}
	observe := func(final bool) bool {
		size, ok := timedSize(pool)
		if !ok {
			ev("hung", tv.M{"op": "size"})
			return false
		}
		alive := watcherAlive()
		for i := 0; alive && i < 100; i++ { // the watcher needs a moment to notice
			time.Sleep(time.Millisecond)
			alive = watcherAlive()
		}
		ev("obs", tv.M{"done": pool.Err() != nil, "size": size, "final": final, "watcher": alive})
		return true
	}
	if !observe(true) {
		return
	}
	// a second Cancel is a no-op
	ev("pcancel_call", nil)
	func() {
		defer func() {
			if p := recover(); p != nil {
				ev("panic", tv.M{"op": "second-cancel", "what": fmt.Sprint(p)})
			}
		}()
		pool.Cancel()
	}()
	ev("pcancel_ret", nil)
	observe(true)
}
