// C20 — context.Pool.  Programs of member cancellations, Add (live / ended /
// never-ending contexts), Cancel and observations run on the real Pool; the
// watcher goroutine's decision points and the entries of Add/Cancel are gates
// driven by a seeded scheduler.  At every quiescent point the pool is observed
// (Done?, Size, watcher goroutine alive?).  Traces are judged by TLC against
// spec/CtxPool/PoolContract.tla; CtxPool.tla is model-checked exhaustively.
package c20

import (
	"context"
	"fmt"
	"math/rand"
	"strings"
	"sync"
	"testing"
	"time"

	kitctx "github.com/dapr/kit/context"

	"verifharness/internal/ev"
	"verifharness/internal/sched"
	"verifharness/internal/tlc"
	"verifharness/internal/tv"
)

type opSpec struct {
	Op   string `json:"op"`             // end | add | pcancel
	M    int    `json:"m,omitempty"`    // end: member id; add: new id
	Kind string `json:"kind,omitempty"` // add: live | ended | never
}

type program struct {
	Init    int        `json:"init"` // initial contexts 1..Init
	Pre     []int      `json:"pre"`  // of which already cancelled
	Clients [][]opSpec `json:"clients"`
	Prefix  []string   `json:"prefix"`
}

type recorder struct {
	mu sync.Mutex
	b  *tv.Batch
}

func (r *recorder) ev(name string, m tv.M) {
	r.mu.Lock()
	defer r.mu.Unlock()
	r.b.Ev(name, m)
}

type result struct {
	trace    int
	schedule []string
	err      error
}

func runSchedule(b *tv.Batch, prog program, seed int64) result {
	rng := rand.New(rand.NewSource(seed))
	rec := &recorder{b: b}
	tr := b.Start(tv.M{"prog": prog, "seed": seed})
	ctl := sched.New("pool.*")
	kitctx.VerifHook = func(point string) { ctl.Point(point) }
	ctl.OnPanic = func(task string, p any) { rec.ev("panic", tv.M{"op": task, "what": fmt.Sprint(p)}) }
	defer func() { kitctx.VerifHook = nil }()

	cancels := map[int]context.CancelFunc{}
	var ctxs []context.Context
	init := []int{}
	for i := 1; i <= prog.Init; i++ {
		c, cancel := context.WithCancel(context.Background())
		cancels[i] = cancel
		ctxs = append(ctxs, c)
		init = append(init, i)
	}
	for _, p := range prog.Pre {
		cancels[p]()
	}
	pre := prog.Pre
	if pre == nil {
		pre = []int{}
	}
	rec.ev("new", tv.M{"init": init, "pre": pre})
	pool := kitctx.NewPool(ctxs...)

	type client struct {
		ops  []opSpec
		next int
		cur  *sched.Task
	}
	clients := make([]*client, len(prog.Clients))
	for i, ops := range prog.Clients {
		clients[i] = &client{ops: ops}
	}
	inflight := func() int {
		n := 0
		for _, c := range clients {
			if c.cur != nil && !c.cur.Done() {
				n++
			}
		}
		return n
	}
	var cmu sync.Mutex
	startOp := func(c *client, ci int) func() {
		return func() {
			o := c.ops[c.next]
			c.next++
			switch o.Op {
			case "end":
				cmu.Lock()
				cancel := cancels[o.M]
				cmu.Unlock()
				if cancel != nil {
					rec.ev("end", tv.M{"m": o.M})
					cancel()
				}
			case "add":
				var cx context.Context
				ended := false
				switch o.Kind {
				case "never":
					cx = context.Background()
				case "ended":
					c2, cancel := context.WithCancel(context.Background())
					cancel()
					cx, ended = c2, true
				default:
					c2, cancel := context.WithCancel(context.Background())
					cmu.Lock()
					cancels[o.M] = cancel
					cmu.Unlock()
					cx = c2
				}
				rec.ev("add_call", tv.M{"m": o.M, "ended": ended})
				c.cur = ctl.Go(fmt.Sprintf("c%d:add", ci), func() {
					pool.Add(cx)
					rec.ev("add_ret", tv.M{"m": o.M})
				})
			case "pcancel":
				rec.ev("pcancel_call", nil)
				c.cur = ctl.Go(fmt.Sprintf("c%d:pcancel", ci), func() {
					pool.Cancel()
					rec.ev("pcancel_ret", nil)
				})
			}
		}
	}
	final := false
	d := &sched.Driver{C: ctl, Rng: rng, MaxSteps: 600}
	d.AtQuiescence = func(parked []*sched.Parked, s sched.Snapshot) {
		// observe only when no Add/Cancel is between its entry and its return
		if inflight() == 0 {
			rec.ev("obs", tv.M{"done": pool.Err() != nil, "size": pool.Size(), "final": final && len(parked) == 0,
				"watcher": s.InFunc("kit/context.NewPool.func1")})
		}
	}
	d.Extra = func(nParked int) []sched.Choice {
		var cs []sched.Choice
		for i, c := range clients {
			if (c.cur == nil || c.cur.Done()) && c.next < len(c.ops) {
				cs = append(cs, sched.Choice{Kind: "start", Name: fmt.Sprintf("start:c%d:%s", i, c.ops[c.next].Op), Do: startOp(c, i)})
			}
		}
		return cs
	}
	d.Weight = func(c sched.Choice) int {
		if k := len(d.Log); k < len(prog.Prefix) {
			if c.Name == prog.Prefix[k] {
				return 1
			}
			return 0
		}
		if strings.HasSuffix(c.Name, ":pcancel") {
			return 1
		}
		return 3
	}
	res := result{trace: tr}
	err := d.Run()
	if err == nil {
		final = true
		s, qerr := ctl.Quiesce(3 * time.Second)
		if qerr != nil {
			err = qerr
		} else {
			d.AtQuiescence(ctl.Parked(), s)
		}
	}
	res.schedule = d.Log
	res.err = err
	// tear down: end everything so no watcher leaks into the next scenario
	ctl.Shutdown()
	func() {
		defer func() {
			if p := recover(); p != nil {
				rec.ev("panic", tv.M{"op": "cancel-at-teardown", "what": fmt.Sprint(p)})
			}
		}()
		pool.Cancel()
	}()
	cmu.Lock()
	for _, c := range cancels {
		c()
	}
	cmu.Unlock()
	_, _ = ctl.Quiesce(2 * time.Second)
	return res
}

func genProgram(rng *rand.Rand) program {
	p := program{Init: rng.Intn(5), Prefix: []string{}}
	for i := 1; i <= p.Init; i++ {
		if rng.Intn(4) == 0 {
			p.Pre = append(p.Pre, i)
		}
	}
	nc := 2 + rng.Intn(2)
	p.Clients = make([][]opSpec, nc)
	next := p.Init
	var live []int
	for i := 1; i <= p.Init; i++ {
		live = append(live, i)
	}
	total := 2 + rng.Intn(6)
	cancelled := false
	for i := 0; i < total; i++ {
		c := rng.Intn(nc)
		switch r := rng.Intn(10); {
		case r < 4 && len(live) > 0:
			k := rng.Intn(len(live))
			p.Clients[c] = append(p.Clients[c], opSpec{Op: "end", M: live[k]})
			live = append(live[:k], live[k+1:]...)
		case r < 8:
			next++
			kind := []string{"live", "live", "live", "ended", "never"}[rng.Intn(5)]
			p.Clients[c] = append(p.Clients[c], opSpec{Op: "add", M: next, Kind: kind})
			if kind == "live" {
				live = append(live, next)
			}
		default:
			if !cancelled && rng.Intn(2) == 0 {
				cancelled = true
				p.Clients[c] = append(p.Clients[c], opSpec{Op: "pcancel"})
			}
		}
	}
	for i := range p.Clients {
		if p.Clients[i] == nil {
			p.Clients[i] = []opSpec{}
		}
	}
	if p.Pre == nil {
		p.Pre = []int{}
	}
	return p
}

func TestCheck(t *testing.T) {
	e := ev.New("C20", "model_checking")
	defer func() {
		if e.Write() > 0 {
			t.Fail()
		}
	}()
	rng := rand.New(rand.NewSource(ev.Seed()))
	mc := tlc.Run(tlc.Opts{Dir: "CtxPool", Module: "CtxPool", Config: ev.Pick("MC_small.cfg", "MC_big.cfg"), Workers: 16,
		Timeout: ev.Pick(4*time.Minute, 40*time.Minute), HeapMB: 12000, Args: []string{"-noGenerateSpecTE"}})
	fmt.Printf("MC CtxPool: ok=%v generated=%d distinct=%d depth=%d wall=%s %s\n", mc.OK, mc.Generated, mc.Distinct, mc.Depth, mc.Wall.Round(time.Millisecond), mc.What)
	if !mc.OK {
		e.Inconclusive("model check of CtxPool.tla did not pass: " + mc.What + "\n" + mc.Tail(2000))
	}
	e.Set("states", mc.Distinct)
	e.Set("transitions", mc.Generated)
	e.Set("checker_cmd", mc.Cmd)

	b := &tv.Batch{}
	var results []result
	var progs []program
	END := func(m int) opSpec { return opSpec{Op: "end", M: m} }
	ADD := func(m int, k string) opSpec { return opSpec{Op: "add", M: m, Kind: k} }
	PC := opSpec{Op: "pcancel"}
	staged := []program{
		// Add racing the end of the last live member
		{Init: 2, Clients: [][]opSpec{{END(1), END(2)}, {ADD(3, "live"), END(3)}}},
		{Init: 2, Clients: [][]opSpec{{END(1), ADD(3, "live"), END(2), END(3)}}},
		{Init: 3, Pre: []int{2}, Clients: [][]opSpec{{END(1), ADD(4, "live"), ADD(5, "ended"), END(3)}, {END(4)}}},
		// never-ending members
		{Init: 1, Clients: [][]opSpec{{ADD(2, "never"), END(1)}}},
		{Init: 1, Clients: [][]opSpec{{ADD(2, "never"), END(1)}, {PC}}},
		// Add racing Cancel
		{Init: 1, Clients: [][]opSpec{{ADD(2, "live")}, {PC}, {ADD(3, "live")}}},
		{Init: 2, Clients: [][]opSpec{{PC}, {PC}, {ADD(3, "live"), END(1)}}},
		// degenerate pools
		{Init: 0, Clients: [][]opSpec{{ADD(1, "live")}}},
		{Init: 2, Pre: []int{1, 2}, Clients: [][]opSpec{{ADD(3, "live")}, {PC}}},
	}
	nStaged := ev.Pick(40, 600)
	nRandProg := ev.Pick(400, 8000)
	nSchedPer := ev.Pick(3, 6)
	inconcl := 0
	run := func(p program, seed int64) {
		if p.Prefix == nil {
			p.Prefix = []string{}
		}
		if p.Pre == nil {
			p.Pre = []int{}
		}
		r := runSchedule(b, p, seed)
		results = append(results, r)
		progs = append(progs, p)
		if r.err != nil {
			inconcl++
		}
		if len(r.schedule) > 4 {
			e.Nontrivial(fmt.Sprint(p, r.schedule))
		}
	}
	for _, p := range staged {
		for i := 0; i < nStaged; i++ {
			run(p, rng.Int63())
		}
	}
	for i := 0; i < nRandProg; i++ {
		p := genProgram(rng)
		for j := 0; j < nSchedPer; j++ {
			run(p, rng.Int63())
		}
	}
	fmt.Printf("executed %d schedules (%d events), %d could not be driven to the end\n", b.Len(), b.Lines(), inconcl)
	if inconcl > b.Len()/20 {
		e.Inconclusive(fmt.Sprintf("%d of %d schedules could not be driven to quiescence", inconcl, b.Len()))
	}
	jb := &tv.Batch{}
	var idx []int
	for i, r := range results {
		if r.err == nil {
			jb.AppendTrace(b.Trace(r.trace))
			idx = append(idx, i)
		}
	}
	rej, res := tv.ValidateChunked(tlc.Opts{Dir: "CtxPool", Module: "TracePool", Config: "TracePool.cfg", Workers: 16, Timeout: ev.Pick(6*time.Minute, 40*time.Minute), HeapMB: 12000}, jb)
	fmt.Printf("TLC contract validation: ok=%v traces=%d rejected=%d distinct=%d wall=%s %s\n", res.OK, jb.Len(), len(rej), res.Distinct, res.Wall.Round(time.Millisecond), res.What)
	if !res.OK {
		e.Inconclusive("trace validation did not run: " + res.What + res.Tail(1500))
		return
	}
	e.Set("evaluations", int64(b.Len()))
	e.Set("traces_validated_against_impl", int64(jb.Len()))
	e.Set("rule", "a case = (pool of 0-4 initial contexts, some already cancelled; 2-3 goroutines issuing member cancellations, Add of live/ended/never-ending contexts, Cancel) x (seeded schedule over the watcher's decision points and the entries of Add/Cancel); the pool is observed (Done, Size, watcher alive) at every quiescent point; 9 staged + random programs; non-trivial = schedule longer than 4 choices; distinct by (program, schedule)")
	for _, k := range []int{0, len(idx) / 2, len(idx) - 1} {
		i := idx[k]
		e.Sample(tv.M{"program": progs[i], "schedule": results[i].schedule, "trace": jb.TraceStrings(k)})
	}
	for _, r := range rej {
		i := idx[r.Trace]
		key := strings.ReplaceAll(strings.Map(func(c rune) rune {
			if c >= 'a' && c <= 'z' || c >= 'A' && c <= 'Z' || c == ' ' {
				return c
			}
			return -1
		}, r.Why), " ", "-")
		e.Violation(key, r.Why, tv.M{"program": progs[i], "schedule": results[i].schedule, "trace": jb.TraceStrings(r.Trace), "at": r.At})
	}
	selfTest(e)
}

func selfTest(e *ev.Evidence) {
	b := &tv.Batch{}
	mk := func(doneEarly bool, sizeAfterCancel int) {
		b.Start(tv.M{})
		b.Ev("new", tv.M{"init": []int{1, 2}, "pre": []int{}})
		b.Ev("obs", tv.M{"done": false, "size": 2, "final": false, "watcher": true})
		b.Ev("end", tv.M{"m": 1})
		b.Ev("obs", tv.M{"done": doneEarly, "size": 2, "final": false, "watcher": true})
		b.Ev("pcancel_call", nil)
		b.Ev("pcancel_ret", nil)
		b.Ev("obs", tv.M{"done": true, "size": sizeAfterCancel, "final": true, "watcher": false})
	}
	mk(false, 0)
	mk(true, 0)  // done while member 2 is live
	mk(false, 1) // Size not zero after Cancel
	rej, res := tv.ValidateChunked(tlc.Opts{Dir: "CtxPool", Module: "TracePool", Config: "TracePool.cfg", Workers: 2, Timeout: 2 * time.Minute}, b)
	got := map[int]bool{}
	for _, r := range rej {
		got[r.Trace] = true
	}
	ok := res.OK && !got[0] && got[1] && got[2]
	e.Set("binding_selftest", tv.M{"valid_accepted_early_done_and_size_rejected": ok})
	if !ok {
		e.Inconclusive(fmt.Sprintf("binding self-test failed: %v %s %s", rej, res.What, res.Tail(600)))
	}
}
