// C20 — context.Pool.  Programs of member cancellations, Add (live / ended /
// never-ending contexts), Cancel and observations run on the real Pool; the
// watcher goroutine's decision points and the entries of Add/Cancel are gates
// driven by a seeded scheduler.  At every quiescent point the pool is observed
// (Done?, Size, watcher goroutine alive?).  Traces are judged by TLC against
// spec/CtxPool/PoolContract.tla; CtxPool.tla is model-checked exhaustively.
package c20

import (
	"context"
	"fmt"
	"math/rand"
	"os"
	"strings"
	"sync"
	"testing"
	"time"

	kitctx "github.com/dapr/kit/context"

	"verifharness/internal/ev"
	"verifharness/internal/sched"
	"verifharness/internal/tlc"
	"verifharness/internal/tv"
)

type opSpec struct {
	Op   string `json:"op"`             // end | add | pcancel
	M    int    `json:"m,omitempty"`    // end: member id; add: new id
	Kind string `json:"kind,omitempty"` // add: live | ended | never
}

type program struct {
	Init    int        `json:"init"` // initial contexts 1..Init
	Pre     []int      `json:"pre"`  // of which already cancelled
	Clients [][]opSpec `json:"clients"`
	Prefix  []string   `json:"prefix"`
}

type recorder struct {
	mu   sync.Mutex
	b    *tv.Batch // observable trace (contract level)
	hb   *tv.Batch // hook-level trace (implementation level): the observable events (+ caller numbers) plus every decision point passed
	over bool      // the run is over (tear-down): nothing more goes into the hook-level trace
}

// ev records an observable event; the caller number "c" only goes into the hook-level trace.
func (r *recorder) ev(name string, m tv.M) {
	r.mu.Lock()
	defer r.mu.Unlock()
	if m == nil {
		m = tv.M{}
	}
	if r.hb != nil && !r.over {
		o := tv.M{}
		for k, v := range m {
			o[k] = v
		}
		r.hb.Ev(name, o)
	}
	delete(m, "c")
	r.b.Ev(name, m)
}

// hook records a decision point (verif hook) the pool passed.
func (r *recorder) hook(point string, args []any) {
	r.mu.Lock()
	defer r.mu.Unlock()
	if r.hb == nil || r.over {
		return
	}
	m := tv.M{}
	for i := 0; i+1 < len(args); i += 2 {
		m[fmt.Sprint(args[i])] = args[i+1]
	}
	r.hb.Ev(point, m)
}

type result struct {
	trace    int
	schedule []string
	err      error
}

func runSchedule(b, hb *tv.Batch, prog program, seed int64) result {
	rng := rand.New(rand.NewSource(seed))
	rec := &recorder{b: b, hb: hb}
	tr := b.Start(tv.M{"prog": prog, "seed": seed})
	if hb != nil {
		hb.Start(tv.M{"seed": seed})
	}
	ctl := sched.New("pool.*")
	ctl.OnEvent = func(point string, args []any) { rec.hook(point, args) }
	kitctx.VerifHook = func(point string) { ctl.Point(point) }
	ctl.OnPanic = func(task string, p any) { rec.ev("panic", tv.M{"op": task, "what": fmt.Sprint(p)}) }
	defer func() { kitctx.VerifHook = nil }()

	cancels := map[int]context.CancelFunc{}
	var ctxs []context.Context
	init := []int{}
	for i := 1; i <= prog.Init; i++ {
		c, cancel := context.WithCancel(context.Background())
		cancels[i] = cancel
		ctxs = append(ctxs, c)
		init = append(init, i)
	}
	for _, p := range prog.Pre {
		cancels[p]()
	}
	pre := prog.Pre
	if pre == nil {
		pre = []int{}
	}
	rec.ev("new", tv.M{"init": init, "pre": pre})
	pool := kitctx.NewPool(ctxs...)

	type client struct {
		ops  []opSpec
		next int
		cur  *sched.Task
	}
	clients := make([]*client, len(prog.Clients))
	for i, ops := range prog.Clients {
		clients[i] = &client{ops: ops}
	}
	inflight := func() int {
		n := 0
		for _, c := range clients {
			if c.cur != nil && !c.cur.Done() {
				n++
			}
		}
		return n
	}
	var cmu sync.Mutex
	startOp := func(c *client, ci int) func() {
		return func() {
			o := c.ops[c.next]
			c.next++
			switch o.Op {
			case "end":
				cmu.Lock()
				cancel := cancels[o.M]
				cmu.Unlock()
				if cancel != nil {
					rec.ev("end", tv.M{"m": o.M})
					cancel()
				}
			case "add":
				var cx context.Context
				ended := false
				switch o.Kind {
				case "never":
					cx = context.Background()
				case "ended":
					c2, cancel := context.WithCancel(context.Background())
					cancel()
					cx, ended = c2, true
				default:
					c2, cancel := context.WithCancel(context.Background())
					cmu.Lock()
					cancels[o.M] = cancel
					cmu.Unlock()
					cx = c2
				}
				rec.ev("add_call", tv.M{"m": o.M, "ended": ended, "c": ci + 1})
				c.cur = ctl.Go(fmt.Sprintf("c%d:add", ci), func() {
					pool.Add(cx)
					rec.ev("add_ret", tv.M{"m": o.M, "c": ci + 1})
				})
			case "pcancel":
				rec.ev("pcancel_call", tv.M{"c": ci + 1})
				c.cur = ctl.Go(fmt.Sprintf("c%d:pcancel", ci), func() {
					pool.Cancel()
					rec.ev("pcancel_ret", tv.M{"c": ci + 1})
				})
			}
		}
	}
	final := false
	hung := false
	d := &sched.Driver{C: ctl, Rng: rng, MaxSteps: 600}
	d.AtQuiescence = func(parked []*sched.Parked, s sched.Snapshot) {
		// observe only when no Add/Cancel is between its entry and its return
		if hung {
			return
		}
		if inflight() == 0 {
			size, ok := timedSize(pool)
			if !ok { // Size blocked although nothing is in flight: a lock was left held
				hung = true
				rec.ev("hung", tv.M{"op": "size"})
				return
			}
			rec.ev("obs", tv.M{"done": pool.Err() != nil, "size": size, "final": final && len(parked) == 0,
				"watcher": s.InFunc("kit/context.NewPool.func1")})
		} else if final && len(parked) == 0 {
			// the run is over, nothing is parked, everything is blocked in the runtime - and a call has not returned
			hung = true
			rec.ev("hung", tv.M{"op": "call"})
		}
	}
	d.Extra = func(nParked int) []sched.Choice {
		var cs []sched.Choice
		for i, c := range clients {
			if (c.cur == nil || c.cur.Done()) && c.next < len(c.ops) {
				cs = append(cs, sched.Choice{Kind: "start", Name: fmt.Sprintf("start:c%d:%s", i, c.ops[c.next].Op), Do: startOp(c, i)})
			}
		}
		return cs
	}
	d.Weight = func(c sched.Choice) int {
		if k := len(d.Log); k < len(prog.Prefix) {
			if c.Name == prog.Prefix[k] {
				return 1
			}
			return 0
		}
		if strings.HasSuffix(c.Name, ":pcancel") {
			return 1
		}
		return 3
	}
	res := result{trace: tr}
	err := d.Run()
	if err == nil {
		final = true
		s, qerr := ctl.Quiesce(3 * time.Second)
		if qerr != nil {
			err = qerr
		} else {
			d.AtQuiescence(ctl.Parked(), s)
		}
	}
	res.schedule = d.Log
	res.err = err
	rec.mu.Lock()
	rec.over = true
	rec.mu.Unlock()
	// tear down: end everything so no watcher leaks into the next scenario
	ctl.Shutdown()
	if !hung { // a wedged pool cannot be cancelled either; its goroutines stay blocked and are ignored from now on
		done := make(chan struct{})
		go func() {
			defer close(done)
			defer func() {
				if p := recover(); p != nil {
					rec.ev("panic", tv.M{"op": "cancel-at-teardown", "what": fmt.Sprint(p)})
				}
			}()
			pool.Cancel()
		}()
		select {
		case <-done:
		case <-time.After(3 * time.Second):
		}
	}
	cmu.Lock()
	for _, c := range cancels {
		c()
	}
	cmu.Unlock()
	_, _ = ctl.Quiesce(2 * time.Second)
	return res
}

// timedSize calls pool.Size() but gives up after 2 s (a pool whose lock was left held would block the driver itself).
func timedSize(pool *kitctx.Pool) (int, bool) {
	ch := make(chan int, 1)
	go func() { ch <- pool.Size() }()
	select {
	case n := <-ch:
		return n, true
	case <-time.After(2 * time.Second):
		return 0, false
	}
}

func genProgram(rng *rand.Rand) program {
	p := program{Init: rng.Intn(5), Prefix: []string{}}
	for i := 1; i <= p.Init; i++ {
		if rng.Intn(4) == 0 {
			p.Pre = append(p.Pre, i)
		}
	}
	nc := 2 + rng.Intn(2)
	p.Clients = make([][]opSpec, nc)
	next := p.Init
	var live []int
	for i := 1; i <= p.Init; i++ {
		live = append(live, i)
	}
	total := 2 + rng.Intn(6)
	cancelled := false
	for i := 0; i < total; i++ {
		c := rng.Intn(nc)
		switch r := rng.Intn(10); {
		case r < 4 && len(live) > 0:
			k := rng.Intn(len(live))
			p.Clients[c] = append(p.Clients[c], opSpec{Op: "end", M: live[k]})
			live = append(live[:k], live[k+1:]...)
		case r < 8:
			next++
			kind := []string{"live", "live", "live", "ended", "never"}[rng.Intn(5)]
			p.Clients[c] = append(p.Clients[c], opSpec{Op: "add", M: next, Kind: kind})
			if kind == "live" {
				live = append(live, next)
			}
		default:
			if !cancelled && rng.Intn(2) == 0 {
				cancelled = true
				p.Clients[c] = append(p.Clients[c], opSpec{Op: "pcancel"})
			}
		}
	}
	for i := range p.Clients {
		if p.Clients[i] == nil {
			p.Clients[i] = []opSpec{}
		}
	}
	if p.Pre == nil {
		p.Pre = []int{}
	}
	return p
}

func TestCheck(t *testing.T) {
	e := ev.New("C20", "model_checking")
	defer func() {
		if e.Write() > 0 {
			t.Fail()
		}
	}()
	rng := rand.New(rand.NewSource(ev.Seed()))
	driveStart := time.Now()
	b := &tv.Batch{}
	hb := &tv.Batch{}
	var results []result
	var progs []program
	END := func(m int) opSpec { return opSpec{Op: "end", M: m} }
	ADD := func(m int, k string) opSpec { return opSpec{Op: "add", M: m, Kind: k} }
	PC := opSpec{Op: "pcancel"}
	staged := []program{
		// Add racing the end of the last live member
		{Init: 2, Clients: [][]opSpec{{END(1), END(2)}, {ADD(3, "live"), END(3)}}},
		{Init: 2, Clients: [][]opSpec{{END(1), ADD(3, "live"), END(2), END(3)}}},
		{Init: 3, Pre: []int{2}, Clients: [][]opSpec{{END(1), ADD(4, "live"), ADD(5, "ended"), END(3)}, {END(4)}}},
		// never-ending members
		{Init: 1, Clients: [][]opSpec{{ADD(2, "never"), END(1)}}},
		{Init: 1, Clients: [][]opSpec{{ADD(2, "never"), END(1)}, {PC}}},
		// Add racing Cancel
		{Init: 1, Clients: [][]opSpec{{ADD(2, "live")}, {PC}, {ADD(3, "live")}}},
		{Init: 2, Clients: [][]opSpec{{PC}, {PC}, {ADD(3, "live"), END(1)}}},
		// degenerate pools
		{Init: 0, Clients: [][]opSpec{{ADD(1, "live")}}},
		{Init: 2, Pre: []int{1, 2}, Clients: [][]opSpec{{ADD(3, "live")}, {PC}}},
	}
	nStaged := ev.Pick(40, 600)
	nRandProg := ev.Pick(400, 8000)
	nSchedPer := ev.Pick(3, 6)
	inconcl := 0
	run := func(p program, seed int64) {
		if p.Prefix == nil {
			p.Prefix = []string{}
		}
		if p.Pre == nil {
			p.Pre = []int{}
		}
		r := runSchedule(b, hb, p, seed)
		results = append(results, r)
		progs = append(progs, p)
		if r.err != nil {
			inconcl++
		}
		if len(r.schedule) > 4 {
			e.Nontrivial(fmt.Sprint(p, r.schedule))
		}
	}
	for _, p := range staged {
		for i := 0; i < nStaged; i++ {
			run(p, rng.Int63())
		}
	}
	for i := 0; i < nRandProg; i++ {
		p := genProgram(rng)
		for j := 0; j < nSchedPer; j++ {
			run(p, rng.Int63())
		}
	}
	fmt.Printf("executed %d schedules (%d events), %d could not be driven to the end\n", b.Len(), b.Lines(), inconcl)
	fmt.Printf("timing: driving the schedules took %s\n", time.Since(driveStart).Round(time.Millisecond))
	if inconcl > b.Len()/20 {
		e.Inconclusive(fmt.Sprintf("%d of %d schedules could not be driven to quiescence", inconcl, b.Len()))
	}
	jb := &tv.Batch{}
	jhb := &tv.Batch{}
	var idx []int
	for i, r := range results {
		if r.err == nil {
			jb.AppendTrace(b.Trace(r.trace))
			jhb.AppendTrace(hb.Trace(r.trace))
			idx = append(idx, i)
		}
	}
	// the exhaustive model check and the model-binding validation run while the contract validation runs (all TLC, after the
	// driving: the scheduler's quiescence detection must not see busy harness goroutines)
	mcCh := make(chan tlc.Result, 1)
	go func() {
		mcCh <- tlc.Run(tlc.Opts{Dir: "CtxPool", Module: "CtxPool", Config: ev.Pick("MC_small.cfg", "MC_big.cfg"), Workers: 16,
			Timeout: ev.Pick(4*time.Minute, 40*time.Minute), HeapMB: ev.Pick(4000, 12000), Args: []string{"-noGenerateSpecTE"}})
	}()
	type hval struct {
		missing []int
		res     tlc.Result
	}
	hCh := make(chan hval, 1)
	go func() {
		m, r := tv.ValidateDoneChunked(tlc.Opts{Dir: "CtxPool", Module: "TracePoolImpl", Config: "TracePoolImpl.cfg", Workers: ev.Pick(8, 16), Timeout: ev.Pick(6*time.Minute, 40*time.Minute), HeapMB: ev.Pick(4000, 8000)}, jhb)
		hCh <- hval{m, r}
	}()
	defer func() {
		mc := <-mcCh
		fmt.Printf("MC CtxPool: ok=%v generated=%d distinct=%d depth=%d wall=%s %s\n", mc.OK, mc.Generated, mc.Distinct, mc.Depth, mc.Wall.Round(time.Millisecond), mc.What)
		if !mc.OK {
			e.Inconclusive("model check of CtxPool.tla did not pass: " + mc.What + "\n" + mc.Tail(2000))
		}
		e.Set("states", mc.Distinct)
		e.Set("transitions", mc.Generated)
		e.Set("checker_cmd", mc.Cmd)
	}()
	rej, res := tv.ValidateChunked(tlc.Opts{Dir: "CtxPool", Module: "TracePool", Config: "TracePool.cfg", Workers: 16, Timeout: ev.Pick(6*time.Minute, 40*time.Minute), HeapMB: 12000}, jb)
	fmt.Printf("TLC contract validation: ok=%v traces=%d rejected=%d distinct=%d wall=%s %s\n", res.OK, jb.Len(), len(rej), res.Distinct, res.Wall.Round(time.Millisecond), res.What)
	if !res.OK {
		e.Inconclusive("trace validation did not run: " + res.What + res.Tail(1500))
		return
	}
	e.Set("evaluations", int64(b.Len()))
	e.Set("traces_validated_against_impl", int64(jb.Len()))
	e.Set("rule", "a case = (pool of 0-4 initial contexts, some already cancelled; 2-3 goroutines issuing member cancellations, Add of live/ended/never-ending contexts, Cancel) x (seeded schedule over the watcher's decision points and the entries of Add/Cancel); the pool is observed (Done, Size, watcher alive) at every quiescent point; 9 staged + random programs; non-trivial = schedule longer than 4 choices; distinct by (program, schedule)")
	for _, k := range []int{0, len(idx) / 2, len(idx) - 1} {
		i := idx[k]
		e.Sample(tv.M{"program": progs[i], "schedule": results[i].schedule, "trace": jb.TraceStrings(k)})
	}
	for _, r := range rej {
		i := idx[r.Trace]
		key := strings.ReplaceAll(strings.Map(func(c rune) rune {
			if c >= 'a' && c <= 'z' || c >= 'A' && c <= 'Z' || c == ' ' {
				return c
			}
			return -1
		}, r.Why), " ", "-")
		e.Violation(key, r.Why, tv.M{"program": progs[i], "schedule": results[i].schedule, "trace": jb.TraceStrings(r.Trace), "at": r.At})
	}
	// binding of the implementation-shaped model: hook-level traces must be behaviours of CtxPool.tla (drift, not verdict)
	hv := <-hCh
	hmissing, hres := hv.missing, hv.res
	fmt.Printf("TLC model-binding validation (hook-level traces vs CtxPool.tla): ok=%v traces=%d events=%d not-explained=%d distinct=%d wall=%s %s\n", hres.OK, jhb.Len(), jhb.Lines(), len(hmissing), hres.Distinct, hres.Wall.Round(time.Millisecond), hres.What)
	e.Set("impl_traces_validated", int64(jhb.Len()))
	e.Set("impl_drift_traces", int64(len(hmissing)))
	e.Set("drift", len(hmissing) > 0 || !hres.OK)
	if !hres.OK {
		fmt.Printf("DRIFT property=C20 the model-binding validation did not run: %s %s\n", hres.What, strings.ReplaceAll(hres.Tail(600), "\n", " | "))
	} else if len(hmissing) > 0 {
		fmt.Printf("DRIFT property=C20 %d hook-level traces are not behaviours of CtxPool.tla (model and code diverge; not a violation by itself), first: %v\n", len(hmissing), jhb.TraceStrings(hmissing[0]))
	}
	if os.Getenv("VERIF_DUMP_HOOK") != "" {
		_ = os.WriteFile(os.Getenv("VERIF_DUMP_HOOK"), jhb.Bytes(), 0o644)
	}
	// free-running rounds (free_test.go)
	fb := &tv.Batch{}
	nFree := ev.Pick(400, 6000)
	for i := 0; i < nFree; i++ {
		freeRound(fb, i)
	}
	frej, fres := tv.ValidateChunked(tlc.Opts{Dir: "CtxPool", Module: "TracePool", Config: "TracePool.cfg", Workers: 8, Timeout: ev.Pick(4*time.Minute, 20*time.Minute), HeapMB: 4000}, fb)
	fmt.Printf("TLC free-running validation: ok=%v traces=%d rejected=%d wall=%s %s\n", fres.OK, fb.Len(), len(frej), fres.Wall.Round(time.Millisecond), fres.What)
	if !fres.OK {
		e.Inconclusive("free-running trace validation did not run: " + fres.What + fres.Tail(1500))
	}
	e.Set("free_running_rounds", int64(nFree))
	for _, r := range frej {
		key := strings.ReplaceAll(strings.Map(func(c rune) rune {
			if c >= 'a' && c <= 'z' || c >= 'A' && c <= 'Z' || c == ' ' {
				return c
			}
			return -1
		}, r.Why), " ", "-")
		e.Violation("free:"+key, r.Why, tv.M{"family": "free-running Add x Cancel x Size", "trace": fb.TraceStrings(r.Trace), "at": r.At})
	}
	selfTest(e)
}

func selfTest(e *ev.Evidence) {
	b := &tv.Batch{}
	mk := func(doneEarly bool, sizeAfterCancel int) {
		b.Start(tv.M{})
		b.Ev("new", tv.M{"init": []int{1, 2}, "pre": []int{}})
		b.Ev("obs", tv.M{"done": false, "size": 2, "final": false, "watcher": true})
		b.Ev("end", tv.M{"m": 1})
		b.Ev("obs", tv.M{"done": doneEarly, "size": 2, "final": false, "watcher": true})
		b.Ev("pcancel_call", nil)
		b.Ev("pcancel_ret", nil)
		b.Ev("obs", tv.M{"done": true, "size": sizeAfterCancel, "final": true, "watcher": false})
	}
	mk(false, 0)
	mk(true, 0)  // done while member 2 is live
	mk(false, 1) // Size not zero after Cancel
	rej, res := tv.ValidateChunked(tlc.Opts{Dir: "CtxPool", Module: "TracePool", Config: "TracePool.cfg", Workers: 2, Timeout: 2 * time.Minute}, b)
	got := map[int]bool{}
	for _, r := range rej {
		got[r.Trace] = true
	}
	ok := res.OK && !got[0] && got[1] && got[2]
	e.Set("binding_selftest", tv.M{"valid_accepted_early_done_and_size_rejected": ok})
	if !ok {
		e.Inconclusive(fmt.Sprintf("binding self-test failed: %v %s %s", rej, res.What, res.Tail(600)))
	}
}
