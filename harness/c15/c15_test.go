// C15 — ttlcache.  (1) every operation sequence up to a bound is executed on
// the real cache with a fake clock and validated by TLC against
// spec/TTLCache (sequential mode); (2) concurrent histories recorded with
// call/return order are checked for an explanation by the same spec, whose
// Cleanup/Reset are two steps and whose periodic cleaner may run at any time;
// (3) Stop is raced against a cleaner parked inside Cleanup.
package c15

import (
	"encoding/json"
	"sync/atomic"
	"fmt"
	"os"
	"math/rand"
	"runtime"
	"sync"
	"testing"
	"time"

	"github.com/dapr/kit/ttlcache"
	clocktesting "k8s.io/utils/clock/testing"

	"verifharness/internal/ev"
	"verifharness/internal/tlc"
	"verifharness/internal/tv"
)

type op struct {
	Op  string `json:"op"`
	K   string `json:"k"`
	V   int    `json:"v"`
	TTL int    `json:"ttl"`
	D   int    `json:"d"`  // advance: whole seconds ...
	DT  int    `json:"dt"` // ... plus tenths of a second (traces carry the sum in ticks of 100 ms)
}

const miss = -1

func apply(c *ttlcache.Cache[int], clk interface{ Step(time.Duration) }, o op) int {
	switch o.Op {
	case "set":
		c.Set(o.K, o.V, int64(o.TTL))
	case "get":
		v, ok := c.Get(o.K)
		if !ok {
			return miss
		}
		return v
	case "delete":
		c.Delete(o.K)
	case "cleanup":
		c.Cleanup()
	case "reset":
		c.Reset()
	case "advance":
		clk.Step(time.Duration(o.D)*time.Second + time.Duration(o.DT)*100*time.Millisecond)
	}
	return 0
}

// reference model in Go, used only to name the finding once TLC rejected a sequential trace.
type refEntry struct{ v, exp int }

func classifySeq(ops []op, results []int, maxTTL int) string {
	st := map[string]refEntry{}
	now := 0
	for i, o := range ops {
		switch o.Op {
		case "set":
			ttl := o.TTL
			if maxTTL > 0 && ttl > maxTTL {
				ttl = maxTTL
			}
			st[o.K] = refEntry{o.V, now + ttl*10} // ticks of 100 ms
		case "get":
			want := miss
			if e, ok := st[o.K]; ok && e.exp > now {
				want = e.v
			}
			if results[i] != want {
				switch {
				case want == miss:
					return "seq:get-hit-where-miss-expected"
				case results[i] == miss:
					return "seq:get-miss-where-hit-expected"
				default:
					return "seq:get-wrong-value"
				}
			}
		case "delete":
			delete(st, o.K)
		case "cleanup":
			for k, e := range st {
				if e.exp < now {
					delete(st, k)
				}
			}
		case "reset":
			st = map[string]refEntry{}
		case "advance":
			now += o.D*10 + o.DT
		}
	}
	return "seq:rejected-by-spec"
}

func TestCheck(t *testing.T) {
	e := ev.New("C15", "model_checking")
	defer func() {
		if e.Write() > 0 {
			t.Fail()
		}
	}()
	rng := rand.New(rand.NewSource(ev.Seed()))
	if n := os.Getenv("C15_ONLY_RACE"); n != "" { // debugging aid: only the staged refresh race, n rounds
		rounds := 0
		fmt.Sscan(n, &rounds)
		rb := &tv.Batch{}
		for i := 0; i < rounds; i++ {
			refreshRace(rb, rng, e, i)
		}
		missing, res := tv.ValidateDoneChunked(tlc.Opts{Dir: "TTLCache", Module: "TraceTTL", Config: "TraceTTL.cfg", Workers: 16, Timeout: 30 * time.Minute, HeapMB: 12000}, rb)
		fmt.Println("only-race:", rounds, "rounds, ok", res.OK, "missing", len(missing))
		for _, i := range missing {
			e.Violation(classifyConc(rb.TraceStrings(i)), "debug", tv.M{"trace": rb.TraceStrings(i)})
		}
		e.Set("evaluations", int64(rounds))
		e.Nontrivial("a")
		e.Nontrivial("b")
		e.Sample("debug run")
		return
	}

	mc := tlc.Run(tlc.Opts{Dir: "TTLCache", Module: "TTLModel", Config: ev.Pick("MC_small.cfg", "MC_big.cfg"), Workers: 16,
		Timeout: ev.Pick(4*time.Minute, 30*time.Minute), HeapMB: 12000, Args: []string{"-noGenerateSpecTE"}})
	fmt.Printf("MC TTLModel: ok=%v generated=%d distinct=%d depth=%d wall=%s %s\n", mc.OK, mc.Generated, mc.Distinct, mc.Depth, mc.Wall.Round(time.Millisecond), mc.What)
	if !mc.OK {
		e.Inconclusive("model check of TTLModel did not pass: " + mc.What + "\n" + mc.Tail(2000))
	}
	e.Set("states", mc.Distinct)
	e.Set("transitions", mc.Generated)
	e.Set("checker_cmd", mc.Cmd)

	// ---- (1) sequential: all operation sequences up to length L
	alphabet := []op{
		{Op: "set", K: "a", TTL: 1}, {Op: "set", K: "a", TTL: 3}, {Op: "set", K: "", TTL: 2}, {Op: "set", K: "", TTL: 1_000_000_000}, // the second key is the EMPTY string
		{Op: "get", K: "a"}, {Op: "get", K: ""}, {Op: "delete", K: "a"},
		{Op: "cleanup"}, {Op: "reset"}, {Op: "advance", D: 1}, {Op: "advance", D: 2},
		{Op: "advance", DT: 1}, // 0.1 s: the clock starts at xx.9 s, so this crosses a whole-second boundary
	}
	L := ev.Pick(5, 6)
	b := &tv.Batch{}
	type seqCase struct {
		MaxTTL  int  `json:"maxTTL"`
		Ops     []op `json:"ops"`
		results []int
	}
	var cases []seqCase
	const hugeTTL = int64(1) << 62 // far beyond anything a Duration can hold: must be capped by MaxTTL before any arithmetic
	runSeq := func(maxTTL int, ops []op) {
		clk := clocktesting.NewFakeClock(time.Unix(100000, 900_000_000)) // sub-second phase .9: expiry must not be rounded to whole seconds
		c := ttlcache.NewCacheWithClock[int](ttlcache.CacheOptions{MaxTTL: int64(maxTTL), CleanupInterval: 1000 * time.Hour}, clk)
		b.Start(tv.M{"maxTTL": maxTTL, "cleaner": false})
		res := make([]int, len(ops))
		v := 0
		ops2 := make([]op, len(ops))
		for i, o := range ops {
			if o.Op == "set" {
				v++
				o.V = v
			}
			ops2[i] = o
			if o.Op == "set" && o.TTL == 1_000_000_000 {
				if maxTTL == 0 {
					o.TTL = 3 // without a cap a huge ttl has no defined meaning (it overflows time.Duration): not generated
					ops2[i] = o
					c.Set(o.K, o.V, int64(o.TTL))
				} else {
					c.Set(o.K, o.V, hugeTTL) // recorded as ttl=1e9 s: the spec caps it to MaxTTL all the same
				}
				res[i] = 0
			} else {
				res[i] = apply(c, clk, o)
			}
			b.Ev("op", tv.M{"op": o.Op, "k": o.K, "v": o.V, "ttl": o.TTL, "d": o.D*10 + o.DT, "res": res[i]})
		}
		c.Stop()
		cases = append(cases, seqCase{MaxTTL: maxTTL, Ops: ops2, results: res})
		hasGet, hasSet := false, false
		for _, o := range ops2 {
			hasGet = hasGet || o.Op == "get"
			hasSet = hasSet || o.Op == "set"
		}
		if hasGet && hasSet {
			e.Nontrivial(fmt.Sprint(maxTTL, ops2))
		}
	}
	var rec func(cur []op)
	rec = func(cur []op) {
		if len(cur) > 0 && cur[len(cur)-1].Op == "get" { // only sequences that end in an observation
			for _, m := range []int{0, 2} {
				runSeq(m, cur)
			}
		}
		if len(cur) == L {
			return
		}
		for _, o := range alphabet {
			if len(cur) == 0 && o.Op != "set" { // w.l.o.g. start with a Set
				continue
			}
			rec(append(append([]op{}, cur...), o))
		}
	}
	rec(nil)
	// one-key deep histories: every sequence of length 6..D over {Set a ttl1, Set a ttl3, Get a, Cleanup, Advance 2s} that starts
	// with a Set and ends with a Get (several cleanups and re-Sets of the same key in one history: state that a cleanup
	// keeps between passes, entries re-created after a sweep)
	deep := []op{alphabet[0], alphabet[1], alphabet[4], alphabet[7], alphabet[10]}
	nDeep := 0
	for n := 6; n <= ev.Pick(7, 8); n++ {
		idx := make([]int, n-2)
		for {
			for _, first := range deep[:2] {
				ops := []op{first}
				for _, i := range idx {
					ops = append(ops, deep[i])
				}
				ops = append(ops, deep[2])
				for _, m := range []int{0, 2} {
					runSeq(m, ops)
					nDeep++
				}
			}
			j := 0
			for ; j < len(idx); j++ {
				if idx[j]++; idx[j] < len(deep) {
					break
				}
				idx[j] = 0
			}
			if j == len(idx) {
				break
			}
		}
	}
	e.Set("one_key_deep_histories", nDeep)
	// longer seeded-random sequences
	for i := 0; i < ev.Pick(1500, 30000); i++ {
		n := 6 + rng.Intn(10)
		ops := make([]op, n)
		for j := range ops {
			ops[j] = alphabet[rng.Intn(len(alphabet))]
		}
		ops[n-1] = alphabet[3+rng.Intn(2)]
		runSeq([]int{0, 2}[rng.Intn(2)], ops)
	}
	nSeq := len(cases)
	fmt.Printf("sequential: %d traces, %d events\n", b.Len(), b.Lines())
	missing, res := tv.ValidateDoneChunked(tlc.Opts{Dir: "TTLCache", Module: "TraceTTL", Config: "TraceTTL.cfg", Workers: 16, Timeout: ev.Pick(6*time.Minute, 40*time.Minute), HeapMB: 12000}, b)
	fmt.Printf("TLC sequential validation: ok=%v rejected=%d distinct=%d wall=%s %s\n", res.OK, len(missing), res.Distinct, res.Wall.Round(time.Millisecond), res.What)
	if !res.OK {
		e.Inconclusive("sequential trace validation did not run: " + res.What + res.Tail(1500))
		return
	}
	for _, i := range missing {
		cs := cases[i]
		key := classifySeq(cs.Ops, cs.results, cs.MaxTTL)
		e.Violation(key, "sequential history has no explanation in TTLCache.tla", tv.M{"case": cs, "results": cs.results, "trace": b.TraceStrings(i)})
	}
	e.Sample(tv.M{"mode": "sequential", "trace": b.TraceStrings(nSeq / 2)})
	e.Sample(tv.M{"mode": "sequential", "trace": b.TraceStrings(nSeq - 1)})

	// ---- (2) concurrent histories with the periodic cleaner on
	cb := &tv.Batch{}
	nHist := ev.Pick(2000, 20000)
	overlaps := 0
	for h := 0; h < nHist; h++ {
		if concurrentHistory(cb, rng, e) {
			overlaps++
		}
	}
	fmt.Printf("concurrent: %d histories (%d with overlapping calls), %d events\n", cb.Len(), overlaps, cb.Lines())
	cmissing, cres := tv.ValidateDoneChunked(tlc.Opts{Dir: "TTLCache", Module: "TraceTTL", Config: "TraceTTL.cfg", Workers: 16, Timeout: ev.Pick(6*time.Minute, 40*time.Minute), HeapMB: 12000}, cb)
	fmt.Printf("TLC concurrent validation: ok=%v rejected=%d distinct=%d wall=%s %s\n", cres.OK, len(cmissing), cres.Distinct, cres.Wall.Round(time.Millisecond), cres.What)
	if !cres.OK {
		e.Inconclusive("concurrent trace validation did not run: " + cres.What + cres.Tail(1500))
		return
	}
	for _, i := range cmissing {
		e.Violation(classifyConc(cb.TraceStrings(i)), "concurrent history has no linearization in TTLCache.tla (beyond the documented cleanup/refresh race)", tv.M{"trace": cb.TraceStrings(i)})
	}
	e.Sample(tv.M{"mode": "concurrent", "trace": cb.TraceStrings(cb.Len() / 2)})

	// ---- (2a) duels: two goroutines overwrite one existing key with different values and ttls at the same time; the
	// probes afterwards must see the value and the expiry of one and the same Set
	db := &tv.Batch{}
	for i := 0; i < ev.Pick(1500, 20000); i++ {
		setDuel(db, rng, e, i)
	}
	dmissing, dres := tv.ValidateDoneChunked(tlc.Opts{Dir: "TTLCache", Module: "TraceTTL", Config: "TraceTTL.cfg", Workers: 16, Timeout: ev.Pick(6*time.Minute, 40*time.Minute), HeapMB: 12000}, db)
	fmt.Printf("TLC set-duel validation: ok=%v traces=%d rejected=%d distinct=%d wall=%s %s\n", dres.OK, db.Len(), len(dmissing), dres.Distinct, dres.Wall.Round(time.Millisecond), dres.What)
	if !dres.OK {
		e.Inconclusive("set-duel trace validation did not run: " + dres.What + dres.Tail(1500))
		return
	}
	for _, i := range dmissing {
		e.Violation("conc:entry-mixes-two-sets", "after two overlapping Sets of one key the entry has the value of one and the expiry of the other (or a value nobody set)", tv.M{"trace": db.TraceStrings(i)})
	}

	// ---- (2b) the documented refresh race, staged: a key is refreshed in a hot loop while Cleanup/Reset
	// sits between its scan and its bulk delete, and the loop goes on during the delete
	rb := &tv.Batch{}
	for i := 0; i < ev.Pick(150, 3000); i++ {
		refreshRace(rb, rng, e, i)
	}
	rmissing, rres := tv.ValidateDoneChunked(tlc.Opts{Dir: "TTLCache", Module: "TraceTTL", Config: "TraceTTL.cfg", Workers: 16, Timeout: ev.Pick(6*time.Minute, 40*time.Minute), HeapMB: 12000}, rb)
	fmt.Printf("TLC refresh-race validation: ok=%v traces=%d rejected=%d distinct=%d wall=%s %s\n", rres.OK, rb.Len(), len(rmissing), rres.Distinct, rres.Wall.Round(time.Millisecond), rres.What)
	if !rres.OK {
		e.Inconclusive("refresh-race trace validation did not run: " + rres.What + rres.Tail(1500))
		return
	}
	for _, i := range rmissing {
		e.Violation(classifyConc(rb.TraceStrings(i)), "history around a staged cleanup/refresh race has no linearization in TTLCache.tla", tv.M{"trace": rb.TraceStrings(i)})
	}
	e.Sample(tv.M{"mode": "refresh-race", "trace": rb.TraceStrings(0)})

	// ---- (2c) a large, mostly expired cache cleaned up while live probe keys are Set/Deleted during the Cleanup call
	gb := &tv.Batch{}
	for i := 0; i < ev.Pick(40, 600); i++ {
		bigCleanup(gb, rng, e, i)
	}
	gmissing, gres := tv.ValidateDoneChunked(tlc.Opts{Dir: "TTLCache", Module: "TraceTTL", Config: "TraceTTL.cfg", Workers: 16, Timeout: ev.Pick(6*time.Minute, 40*time.Minute), HeapMB: 12000}, gb)
	fmt.Printf("TLC big-cleanup validation: ok=%v traces=%d rejected=%d distinct=%d wall=%s %s\n", gres.OK, gb.Len(), len(gmissing), gres.Distinct, gres.Wall.Round(time.Millisecond), gres.What)
	if !gres.OK {
		e.Inconclusive("big-cleanup trace validation did not run: " + gres.What + gres.Tail(1500))
		return
	}
	for _, i := range gmissing {
		e.Violation(classifyConc(gb.TraceStrings(i)), "history around the Cleanup of a large, mostly expired cache has no linearization in TTLCache.tla", tv.M{"trace": gb.TraceStrings(i)})
	}
	e.Set("big_cleanup_histories", int64(gb.Len()))

	// ---- (3) Stop vs a cleaner parked inside Cleanup
	sb := &tv.Batch{}
	stopScenarios(sb, e)
	immediateStop(sb, e, ev.Pick(50, 500))
	smissing, sres := tv.ValidateDoneChunked(tlc.Opts{Dir: "TTLCache", Module: "TraceTTL", Config: "TraceTTL.cfg", Workers: 2, Timeout: 3 * time.Minute}, sb)
	if !sres.OK {
		e.Inconclusive("stop trace validation did not run: " + sres.What)
		return
	}
	for _, i := range smissing {
		e.Violation("stop:returned-while-cleaner-alive", "Stop returned while the background cleaner was still running", tv.M{"trace": sb.TraceStrings(i)})
	}
	e.Sample(tv.M{"mode": "stop", "trace": sb.TraceStrings(0)})

	e.Set("evaluations", int64(nSeq+cb.Len()+sb.Len()+rb.Len()+db.Len()))
	e.Set("traces_validated_against_impl", int64(nSeq+cb.Len()+sb.Len()+rb.Len()+db.Len()))
	e.Set("concurrent_histories_with_overlap", int64(overlaps))
	e.Set("rule", "sequential: every sequence over a 12-letter alphabet (Set a ttl1/ttl3, Set <empty key> ttl2, Get a/<empty key>, Delete a, Cleanup, Reset, Advance 1s/2s/0.1s; the clock starts at xx.9 s) up to length L that starts with Set and ends with Get, for MaxTTL in {0,2}, plus every one-key sequence of length 6..7(8) over {Set a ttl1/ttl3, Get a, Cleanup, Advance 2s}, plus seeded random sequences of length 6-15; concurrent: 3 goroutines x 4 random ops with the periodic cleaner on, call/return order recorded under one mutex; big cleanup: thousands of filler entries, most expired, cleaned up while 6 live probe keys are Set/Deleted at instants spread over the Cleanup call; stop: Stop raced against a cleaner parked inside Cleanup, and Stop straight after NewCache on one P. non-trivial (sequential) = contains a Set and a Get; distinct by (MaxTTL, op sequence)")

	selfTest(e)
}

// classifyConc names a rejected concurrent history (the verdict is TLC's): it looks, per key, for
//  (a) a Get that returned a value although a later Set or a Delete of that key had completely
//      finished before the Get was called                      -> superseded/deleted value returned
//  (b) a Get miss although a Set of that key (not expired) had finished before it and no Delete /
//      Cleanup / Reset was called after that Set started       -> a Set was lost; if earlier in the
//      history a delete-type operation overlapped a Set of the same key this is the haxmap defect
//      (a Set landing while Del has marked but not yet unlinked the node re-indexes the dead node)
func classifyConc(lines []string) string {
	type opRec struct {
		op, k          string
		v, ttl, d, res int
		call, ret      int
	}
	ops := map[int]*opRec{}
	var order []*opRec
	for i, l := range lines {
		var m map[string]any
		if json.Unmarshal([]byte(l), &m) != nil {
			continue
		}
		num := func(k string) int { f, _ := m[k].(float64); return int(f) }
		switch m["ev"] {
		case "call":
			o := &opRec{op: m["op"].(string), v: num("v"), ttl: num("ttl"), d: num("d"), call: i, ret: 1 << 30}
			o.k, _ = m["k"].(string)
			ops[num("id")] = o
			order = append(order, o)
		case "ret":
			if o := ops[num("id")]; o != nil {
				o.ret, o.res = i, num("res")
			}
		}
	}
	deleter := func(o *opRec, k string) bool {
		return o.op == "reset" || o.op == "cleanup" || (o.op == "delete" && o.k == k)
	}
	for _, g := range order {
		if g.op != "get" {
			continue
		}
		if g.res != miss {
			for _, o := range order { // (a)
				if o.ret < g.call && ((o.op == "set" && o.k == g.k && o.v != g.res) || (o.op == "delete" && o.k == g.k)) {
					// o finished before the Get; was the returned value's Set finished before o started?
					for _, sv := range order {
						if sv.op == "set" && sv.k == g.k && sv.v == g.res && sv.ret < o.call {
							return "conc:get-returned-superseded-or-deleted-value"
						}
					}
				}
			}
			continue
		}
		for _, sv := range order { // (b)
			if sv.op != "set" || sv.k != g.k || sv.ret >= g.call {
				continue
			}
			explained := false
			for _, o := range order {
				if o.call > sv.call && o.call < g.ret && (deleter(o, g.k) || o.op == "advance") {
					explained = true
				}
				if o.call < sv.call && o.ret > sv.call && deleter(o, g.k) {
					explained = true // a delete-type operation was still running when the Set started
				}
			}
			if explained {
				continue
			}
			for _, o := range order {
				if deleter(o, g.k) && o.call < sv.call {
					for _, s2 := range order {
						if s2.op == "set" && s2.k == g.k && s2.call < o.ret && s2.ret > o.call {
							return "conc:set-lost-after-set-overlapped-delete:haxmap"
						}
					}
				}
			}
			return "conc:set-lost-without-any-delete"
		}
	}
	return "conc:history-not-explained"
}

type hist struct {
	mu sync.Mutex
	b  *tv.Batch
	id int
}

func (h *hist) call(o op) int {
	h.mu.Lock()
	defer h.mu.Unlock()
	h.id++
	h.b.Ev("call", tv.M{"id": h.id, "op": o.Op, "k": o.K, "v": o.V, "ttl": o.TTL, "d": o.D*10 + o.DT})
	return h.id
}
func (h *hist) ret(id, res int) {
	h.mu.Lock()
	defer h.mu.Unlock()
	h.b.Ev("ret", tv.M{"id": id, "res": res})
}

// concurrentHistory records one history; returns whether two calls overlapped.
func concurrentHistory(b *tv.Batch, rng *rand.Rand, e *ev.Evidence) bool {
	maxTTL := []int{0, 2}[rng.Intn(2)]
	clk := clocktesting.NewFakeClock(time.Unix(100000, 0))
	c := ttlcache.NewCacheWithClock[int](ttlcache.CacheOptions{MaxTTL: int64(maxTTL), CleanupInterval: time.Second}, clk)
	defer c.Stop()
	b.Start(tv.M{"maxTTL": maxTTL, "cleaner": true})
	h := &hist{b: b}
	kinds := []string{"set", "set", "get", "get", "get", "delete", "cleanup", "reset", "advance"}
	var vmu sync.Mutex
	v := 0
	var wg sync.WaitGroup
	progs := make([][]op, 3)
	for g := range progs {
		for i := 0; i < 4; i++ {
			o := op{Op: kinds[rng.Intn(len(kinds))], K: []string{"a", "b"}[rng.Intn(2)], TTL: 1 + rng.Intn(3), D: 1 + rng.Intn(2)}
			progs[g] = append(progs[g], o)
		}
	}
	yields := make([][]int, 3)
	for g := range yields {
		for i := 0; i < 4; i++ {
			yields[g] = append(yields[g], rng.Intn(3))
		}
	}
	start := make(chan struct{})
	for g := 0; g < 3; g++ {
		wg.Add(1)
		go func(g int) {
			defer wg.Done()
			<-start
			for i, o := range progs[g] {
				for y := 0; y < yields[g][i]; y++ {
					runtime.Gosched()
				}
				if o.Op == "set" {
					vmu.Lock()
					v++
					o.V = v
					vmu.Unlock()
				}
				id := h.call(o)
				r := apply(c, clk, o)
				h.ret(id, r)
			}
		}(g)
	}
	close(start)
	wg.Wait()
	// after the concurrent phase: sequential probes at successive instants - the surviving entry of every key must be one
	// that some Set wrote as a whole (value AND expiry of the same Set)
	for step := 0; step < 4; step++ {
		for _, k := range []string{"a", "b"} {
			o := op{Op: "get", K: k}
			id := h.call(o)
			h.ret(id, apply(c, clk, o))
		}
		o := op{Op: "advance", D: 1}
		id := h.call(o)
		h.ret(id, apply(c, clk, o))
	}
	// overlap: some call event directly follows another call without a ret in between
	lines := b.TraceStrings(b.Len() - 1)
	open := 0
	over := false
	for _, l := range lines {
		if len(l) > 12 && l[:12] == `{"d":` {
		}
		switch {
		case contains(l, `"ev":"call"`):
			open++
			if open > 1 {
				over = true
			}
		case contains(l, `"ev":"ret"`):
			open--
		}
	}
	if over {
		e.Nontrivial(fmt.Sprint(lines))
	}
	return over
}

// setDuel: Set(k,1,ttl 3) first; then two goroutines overwrite k concurrently (value 2 with ttl 1 vs value 3 with ttl 4) in
// hot loops, barrier-released; then Get at +0,+2,+3 s.  Whatever order the Sets took, the entry is (2, exp 1) or (3, exp 4),
// as a whole.  Values are 384-byte arrays filled with one number, so that a value assembled from two Sets is visible (-2).
type bigVal [48]int64

func fill(v int) (b bigVal) {
	for i := range b {
		b[i] = int64(v)
	}
	return
}

func unfill(b bigVal, ok bool) int {
	if !ok {
		return miss
	}
	for _, x := range b {
		if x != b[0] {
			return -2 // torn: not a value anybody set
		}
	}
	return int(b[0])
}

func setDuel(b *tv.Batch, rng *rand.Rand, e *ev.Evidence, round int) {
	clk := clocktesting.NewFakeClock(time.Unix(100000, 0))
	c := ttlcache.NewCacheWithClock[bigVal](ttlcache.CacheOptions{CleanupInterval: 1000 * time.Hour}, clk)
	defer c.Stop()
	b.Start(tv.M{"maxTTL": 0, "cleaner": false, "scenario": "set duel"})
	h := &hist{b: b}
	get := func() {
		id := h.call(op{Op: "get", K: "k"})
		h.ret(id, unfill(c.Get("k")))
	}
	adv := func(d int) {
		id := h.call(op{Op: "advance", D: d})
		clk.Step(time.Duration(d) * time.Second)
		h.ret(id, 0)
	}
	id := h.call(op{Op: "set", K: "k", V: 1, TTL: 3})
	c.Set("k", fill(1), 3)
	h.ret(id, 0)
	var wg sync.WaitGroup
	var ready, goFlag, stopFlag atomic.Int32
	for g, o := range []op{{Op: "set", K: "k", V: 2, TTL: 1}, {Op: "set", K: "k", V: 3, TTL: 4}} {
		wg.Add(1)
		go func(g int, o op) {
			defer wg.Done()
			ready.Add(1)
			for goFlag.Load() == 0 {
			}
			for i := 0; i < (round>>uint(g))%3; i++ {
				runtime.Gosched()
			}
			// one recorded Set standing for a hot loop of identical Sets: nobody reads during the loop, so for every
			// observation it is equivalent to a single Set taking effect somewhere inside the call
			id := h.call(o)
			v := fill(o.V)
			for { // both loops are stopped together, so that their last Sets are likely to overlap
				c.Set(o.K, v, int64(o.TTL))
				if stopFlag.Load() != 0 {
					break
				}
			}
			h.ret(id, 0)
		}(g, o)
	}
	for ready.Load() < 2 {
		runtime.Gosched()
	}
	goFlag.Store(1)
	for i := 0; i < 20+round%50; i++ {
		runtime.Gosched()
	}
	stopFlag.Store(1)
	wg.Wait()
	get()
	adv(2)
	get()
	adv(1)
	get()
	e.Nontrivial(fmt.Sprint("duel", round%9))
}

// refreshRace stages the window between the scan and the bulk delete of Cleanup (or Reset).
func refreshRace(b *tv.Batch, rng *rand.Rand, e *ev.Evidence, round int) {
	clk := clocktesting.NewFakeClock(time.Unix(100000, 0))
	c := ttlcache.NewCacheWithClock[int](ttlcache.CacheOptions{CleanupInterval: 1000 * time.Hour}, clk)
	defer c.Stop()
	useReset := round%4 == 3
	useDelete := round%2 == 1
	b.Start(tv.M{"maxTTL": 0, "cleaner": false, "scenario": fmt.Sprintf("refresh-race reset=%v delete=%v", useReset, useDelete)})
	h := &hist{b: b}
	do := func(o op) int {
		id := h.call(o)
		r := apply(c, clk, o)
		h.ret(id, r)
		return r
	}
	for i := 0; i < 20+rng.Intn(40); i++ { // filler keys: expired, never read, only there to lengthen scan and delete
		c.Set(fmt.Sprintf("filler%d", i), 0, 1)
	}
	do(op{Op: "set", K: "k", V: 1, TTL: 1})
	do(op{Op: "advance", D: 2})
	started := make(chan struct{})
	warm := make(chan struct{})
	done := make(chan struct{})
	iters := 30 + rng.Intn(30)
	go func() {
		defer close(done)
		<-started
		v := 1
		for i := 0; i < iters; i++ {
			if i == 2 {
				close(warm)
			}
			if useDelete && i%2 == 1 {
				do(op{Op: "delete", K: "k"})
			} else {
				v++
				do(op{Op: "set", K: "k", V: v, TTL: 3})
			}
			do(op{Op: "get", K: "k"})
		}
	}()
	point := "cleanup.scanned"
	if useReset {
		point = "reset.scanned"
	}
	fired := false
	ttlcache.VerifHook = func(p string) {
		if p == point && !fired {
			fired = true
			close(started)
			<-warm
		}
	}
	if useReset {
		do(op{Op: "reset"})
	} else {
		do(op{Op: "cleanup"})
	}
	ttlcache.VerifHook = nil
	if !fired {
		close(started)
	}
	<-done
	do(op{Op: "get", K: "k"})
	e.Nontrivial(fmt.Sprint("refresh-race", round))
}

func contains(s, sub string) bool {
	for i := 0; i+len(sub) <= len(s); i++ {
		if s[i:i+len(sub)] == sub {
			return true
		}
	}
	return false
}

// gatedClock parks every Now() call while armed.
type gatedClock struct {
	*clocktesting.FakeClock
	mu      sync.Mutex
	armed   bool
	parked  int
	release chan struct{}
}

func (g *gatedClock) Now() time.Time {
	g.mu.Lock()
	if g.armed {
		g.parked++
		ch := g.release
		g.mu.Unlock()
		<-ch
		g.mu.Lock()
		g.parked--
	}
	g.mu.Unlock()
	return g.FakeClock.Now()
}
func (g *gatedClock) arm()        { g.mu.Lock(); g.armed = true; g.release = make(chan struct{}); g.mu.Unlock() }
func (g *gatedClock) open()       { g.mu.Lock(); g.armed = false; close(g.release); g.mu.Unlock() }
func (g *gatedClock) nparked() int { g.mu.Lock(); defer g.mu.Unlock(); return g.parked }

func stopScenarios(b *tv.Batch, e *ev.Evidence) {
	for _, nStops := range []int{1, 2, 3} {
		for _, busy := range []bool{false, true} {
			g := &gatedClock{FakeClock: clocktesting.NewFakeClock(time.Unix(100000, 0))}
			c := ttlcache.NewCacheWithClock[int](ttlcache.CacheOptions{CleanupInterval: time.Second}, g)
			b.Start(tv.M{"maxTTL": 0, "cleaner": true, "scenario": fmt.Sprintf("stops=%d busy=%v", nStops, busy)})
			if busy {
				g.arm()
				deadline := time.Now().Add(3 * time.Second)
				for g.nparked() == 0 && time.Now().Before(deadline) {
					g.Step(time.Second) // make the ticker fire; the cleaner enters Cleanup and parks in Now()
					time.Sleep(2 * time.Millisecond)
				}
				if g.nparked() == 0 {
					// the cleaner never reached Cleanup's clock read: cannot stage the scenario
					g.open()
					c.Stop()
					b.Ev("stopret", tv.M{"alive": false, "note": "scenario not staged"})
					e.Set("stop_scenario_unstaged", true)
					continue
				}
			}
			var mu sync.Mutex
			returned := 0
			var wg sync.WaitGroup
			for i := 0; i < nStops; i++ {
				wg.Add(1)
				go func() {
					defer wg.Done()
					c.Stop()
					mu.Lock()
					returned++
					alive := g.nparked() > 0 // the cleaner is still parked inside Cleanup: it has not exited
					b.Ev("stopret", tv.M{"alive": alive})
					mu.Unlock()
				}()
				time.Sleep(5 * time.Millisecond)
			}
			if busy {
				time.Sleep(60 * time.Millisecond) // give an early-returning Stop every chance to return
				g.open()
			}
			wg.Wait()
			e.Nontrivial(fmt.Sprintf("stop %d %v", nStops, busy))
		}
	}
}

func selfTest(e *ev.Evidence) {
	// a valid sequential trace, then the same with a Get result altered (hit -> miss) and with the expiry boundary moved
	b := &tv.Batch{}
	mk := func(res1, res2 int) {
		b.Start(tv.M{"maxTTL": 0, "cleaner": false})
		b.Ev("op", tv.M{"op": "set", "k": "a", "v": 1, "ttl": 2, "d": 0, "res": 0})
		b.Ev("op", tv.M{"op": "advance", "k": "", "v": 0, "ttl": 0, "d": 10, "res": 0})
		b.Ev("op", tv.M{"op": "get", "k": "a", "v": 0, "ttl": 0, "d": 0, "res": res1})
		b.Ev("op", tv.M{"op": "advance", "k": "", "v": 0, "ttl": 0, "d": 10, "res": 0})
		b.Ev("op", tv.M{"op": "get", "k": "a", "v": 0, "ttl": 0, "d": 0, "res": res2})
	}
	mk(1, miss)
	mk(miss, miss)
	mk(1, 1)
	missing, res := tv.ValidateDoneChunked(tlc.Opts{Dir: "TTLCache", Module: "TraceTTL", Config: "TraceTTL.cfg", Workers: 2, Timeout: 2 * time.Minute}, b)
	ok := res.OK && len(missing) == 2 && missing[0] == 1 && missing[1] == 2
	e.Set("binding_selftest", tv.M{"valid_accepted_and_two_corrupted_rejected": ok})
	if !ok {
		e.Inconclusive(fmt.Sprintf("binding self-test failed: missing=%v %s", missing, res.What))
	}
}
