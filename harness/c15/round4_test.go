package c15

// Families added after round 4 of seeded changes:
//  * bigCleanup: a large, mostly expired cache (thousands of filler entries that never appear in the trace - the map
//    semantics make them independent of the probe keys) cleaned up while probe keys are Set/Deleted at instants spread
//    over the duration of the Cleanup call; whatever Cleanup does internally for big maps, a live key's latest
//    Set/Delete must survive;
//  * immediateStop: Stop called straight after NewCache, before the cleaner goroutine may have been scheduled.

import (
	"fmt"
	"math/rand"
	"runtime"
	"sync"
	"sync/atomic"
	"time"

	"k8s.io/utils/clock"
	clocktesting "k8s.io/utils/clock/testing"

	"github.com/dapr/kit/ttlcache"

	"verifharness/internal/ev"
	"verifharness/internal/tv"
)

func bigCleanup(b *tv.Batch, rng *rand.Rand, e *ev.Evidence, round int) {
	clk := clocktesting.NewFakeClock(time.Unix(100000, 0))
	c := ttlcache.NewCacheWithClock[int](ttlcache.CacheOptions{CleanupInterval: 1000 * time.Hour}, clk)
	defer c.Stop()
	b.Start(tv.M{"maxTTL": 0, "cleaner": false, "scenario": "big cleanup"})
	h := &hist{b: b}
	nExpired, nLive := 5000+rng.Intn(2000), 2500+rng.Intn(1500)
	for i := 0; i < nExpired; i++ {
		c.Set(fmt.Sprintf("x%d", i), 0, 1)
	}
	for i := 0; i < nLive; i++ {
		c.Set(fmt.Sprintf("y%d", i), 0, 100000)
	}
	const P = 6
	val := 0
	for j := 0; j < P; j++ {
		val++
		o := op{Op: "set", K: fmt.Sprintf("p%d", j), V: val, TTL: 1000}
		id := h.call(o)
		h.ret(id, apply(c, clk, o))
	}
	adv := op{Op: "advance", D: 2}
	id := h.call(adv)
	h.ret(id, apply(c, clk, adv))

	var started atomic.Int64
	var wg sync.WaitGroup
	step := time.Duration(40+rng.Intn(200)) * time.Microsecond
	for j := 0; j < P; j++ {
		val++
		o := op{Op: "set", K: fmt.Sprintf("p%d", j), V: val, TTL: 1000}
		if j%3 == 2 {
			o = op{Op: "delete", K: fmt.Sprintf("p%d", j)}
		}
		wg.Add(1)
		go func(j int, o op) {
			defer wg.Done()
			for started.Load() == 0 {
				runtime.Gosched()
			}
			t0 := time.Unix(0, started.Load())
			for time.Since(t0) < time.Duration(j)*step { // spread the operations over the duration of the Cleanup call
			}
			id := h.call(o)
			h.ret(id, apply(c, clk, o))
		}(j, o)
	}
	cl := op{Op: "cleanup"}
	cid := h.call(cl)
	started.Store(time.Now().UnixNano())
	c.Cleanup()
	h.ret(cid, 0)
	wg.Wait()
	for j := 0; j < P; j++ {
		o := op{Op: "get", K: fmt.Sprintf("p%d", j)}
		id := h.call(o)
		h.ret(id, apply(c, clk, o))
	}
	e.Nontrivial(fmt.Sprint("bigcleanup", round%7))
}

// tickClock records whether the cleaner has created its ticker (the first thing the cleaner goroutine does).
type tickClock struct {
	*clocktesting.FakeClock
	tickers atomic.Int32
}

func (t *tickClock) NewTicker(d time.Duration) clock.Ticker {
	t.tickers.Add(1)
	return t.FakeClock.NewTicker(d)
}

// immediateStop: NewCache then Stop at once, on a single P so that the freshly spawned cleaner goroutine cannot have run
// before Stop is called. When Stop returns the cleaner must have run and exited - if it has not even started, it is
// still alive.
func immediateStop(b *tv.Batch, e *ev.Evidence, rounds int) {
	prev := runtime.GOMAXPROCS(1)
	defer runtime.GOMAXPROCS(prev)
	for i := 0; i < rounds; i++ {
		g := &tickClock{FakeClock: clocktesting.NewFakeClock(time.Unix(100000, 0))}
		b.Start(tv.M{"maxTTL": 0, "cleaner": true, "scenario": "stop immediately after NewCache"})
		c := ttlcache.NewCacheWithClock[int](ttlcache.CacheOptions{CleanupInterval: time.Second}, g)
		c.Stop()
		b.Ev("stopret", tv.M{"alive": g.tickers.Load() == 0})
	}
	e.Nontrivial("stop immediately")
}
