// X10 (extension check) — github.com/dapr/kit/signals: Context().
//
//   - spec/ext/Signals/SignalsImpl.tla: a small state machine of a process using the package
//     (pending signals with coalescing, Go's default dispositions, os/signal's non-blocking send
//     on the notification channel, the package's goroutine, the call-once guard) and of a parent
//     running a driver program; model-checked against the contract monitor
//     SignalsContract.tla.  TLC also writes the driver programs (programs.ndjson).
//   - every program is run on the REAL package in a re-exec'ed child process (child_test.go):
//     the child calls signals.Context() and reports over a pipe; the parent sends real signals
//     with kill(2) in the enumerated orders / timings (acknowledged, back-to-back with seeded
//     gaps, before Context() is called, self-sent before the package's goroutine ran, around a
//     second Context() call) and records what it did and saw; TLC judges the records
//     (TraceSignals.tla).
//   - children are short-lived and always reaped; a child that cannot be driven (no answer in
//     time, died of something the harness did not send) is inconclusive, never a violation.
package x10

import (
	"bufio"
	"bytes"
	"encoding/json"
	"fmt"
	"io"
	"math/rand"
	"os"
	"os/exec"
	"os/signal"
	"sort"
	"strings"
	"sync"
	"syscall"
	"testing"
	"time"

	"verifharness/internal/ev"
	"verifharness/internal/tlc"
	"verifharness/internal/tv"
)

const specDir = "ext/Signals"

type step struct {
	Op  string `json:"op"`
	Sig string `json:"sig"`
}

// Program is one line of programs.ndjson (SignalsImpl!Describe).
type Program struct {
	ID    int      `json:"id"`
	Fam   string   `json:"fam"`
	Pre   bool     `json:"pre"`
	Self  []string `json:"self"`
	Steps []step   `json:"steps"`
}

func (p Program) String() string {
	var sb strings.Builder
	sb.WriteString(p.Fam)
	if p.Pre {
		sb.WriteString(" pre")
	}
	if len(p.Self) > 0 {
		sb.WriteString(" self=" + strings.Join(p.Self, "+"))
	}
	for _, s := range p.Steps {
		sb.WriteByte(' ')
		sb.WriteString(s.Op)
		if s.Op == "send" {
			sb.WriteString("(" + s.Sig + ")")
		}
	}
	return sb.String()
}

// variant: how a program is timed on the real process.
type variant struct {
	GapUs int `json:"gapUs"` // pause before a send that is not preceded by an ack
	Procs int `json:"procs"` // GOMAXPROCS of the child (0: default)
}

type runInfo struct {
	Prog    Program `json:"program"`
	Variant variant `json:"variant"`
}

type statusMsg struct {
	m   map[string]any
	eof bool
}

const (
	awaitTimeout = 30 * time.Second // an answer the child owes (generous: the machine may be busy)
)

// runChild performs one program on a fresh child.  It returns the recorded events (first line = reset)
// or a non-empty reason why the child could not be driven.
func runChild(in runInfo, settle, settleMany time.Duration) (lines []tv.M, undrivable string) {
	p := in.Prog
	self := p.Self
	if self == nil {
		self = []string{}
	}
	steps := make([]any, 0, len(p.Steps))
	for _, s := range p.Steps {
		steps = append(steps, tv.M{"op": s.Op, "sig": s.Sig})
	}
	lines = append(lines, tv.M{"ev": "reset", "id": p.ID, "fam": p.Fam, "pre": p.Pre, "self": self, "steps": steps, "gapUs": in.Variant.GapUs, "procs": in.Variant.Procs})
	rec := func(name string, m tv.M) {
		if m == nil {
			m = tv.M{}
		}
		m["ev"] = name
		lines = append(lines, m)
	}

	plan, _ := json.Marshal(childPlan{Pre: p.Pre, Self: self, Procs: in.Variant.Procs, Life: 120})
	sr, sw, err := os.Pipe()
	if err != nil {
		return lines, "pipe: " + err.Error()
	}
	cmd := exec.Command(os.Args[0], "-test.run=^$")
	cmd.Env = append(os.Environ(), childEnv+"="+string(plan))
	cmd.ExtraFiles = []*os.File{sw}
	var out bytes.Buffer
	cmd.Stdout, cmd.Stderr = &out, &out
	stdin, err := cmd.StdinPipe()
	if err != nil {
		sr.Close()
		sw.Close()
		return lines, "stdin pipe: " + err.Error()
	}
	if err := cmd.Start(); err != nil {
		sr.Close()
		sw.Close()
		return lines, "start: " + err.Error()
	}
	sw.Close()
	pid := cmd.Process.Pid
	msgs := make(chan statusMsg, 64)
	go func() {
		sc := bufio.NewScanner(sr)
		for sc.Scan() {
			var m map[string]any
			if json.Unmarshal(sc.Bytes(), &m) == nil {
				msgs <- statusMsg{m: m}
			}
		}
		msgs <- statusMsg{eof: true} // the child closed fd 3: it has ended (it is reaped below, so the pid is not reused before)
	}()
	exited := false
	reaped := false
	var state *os.ProcessState
	reap := func() {
		if reaped {
			return
		}
		reaped = true
		stdin.Close()
		_ = cmd.Wait()
		state = cmd.ProcessState
		sr.Close()
	}
	defer func() {
		if !reaped {
			_ = syscall.Kill(pid, syscall.SIGKILL)
			reap()
		}
	}()

	sentShutdown := 0
	// note records one status line of the child
	note := func(m map[string]any) {
		switch m["ev"] {
		case "started":
			rec("started", tv.M{"ignInt": m["ignInt"], "ignTerm": m["ignTerm"], "ignHup": m["ignHup"]})
		case "ctxret":
			rec("ctxret", tv.M{"self": self, "done": m["done"]})
			sentShutdown += len(self)
		case "cancelled":
			rec("cancelled", tv.M{"kind": m["kind"], "cause": m["cause"]})
		case "panic1":
			rec("panic1", tv.M{"msg": m["msg"]})
		case "panic2":
			rec("panic2", tv.M{"msg": m["msg"]})
		case "nopanic2":
			rec("nopanic2", nil)
		}
	}
	// await reads status lines until one with the wanted name arrives ("" = just drain what is there), the
	// child ends, or the timeout passes.  It returns the wanted line (nil if not seen).
	await := func(want string, d time.Duration) map[string]any {
		if exited {
			return nil
		}
		var timer <-chan time.Time
		if want != "" || d > 0 {
			timer = time.After(d)
		}
		for {
			if want == "" && d == 0 {
				select {
				case sm := <-msgs:
					if sm.eof {
						exited = true
						return nil
					}
					note(sm.m)
				default:
					return nil
				}
				continue
			}
			select {
			case sm := <-msgs:
				if sm.eof {
					exited = true
					return nil
				}
				note(sm.m)
				if want != "" && sm.m["ev"] == want {
					return sm.m
				}
			case <-timer:
				return nil
			}
		}
	}

	if await("started", awaitTimeout) == nil {
		return lines, "the child did not start: " + tail(out.String())
	}
	ignored := func(sig string) bool {
		for _, l := range lines {
			if l["ev"] == "started" {
				switch sig {
				case "INT":
					return l["ignInt"] == true
				case "TERM":
					return l["ignTerm"] == true
				case "HUP":
					return l["ignHup"] == true
				}
			}
		}
		return false
	}
	cancelledSeen := func() bool {
		for _, l := range lines {
			if l["ev"] == "cancelled" {
				return true
			}
		}
		return false
	}
	lastWasAck := true
	for _, s := range p.Steps {
		if exited {
			break
		}
		switch s.Op {
		case "go":
			if p.Pre {
				rec("go", nil)
				if _, err := io.WriteString(stdin, "go\n"); err != nil {
					return lines, "cannot write to the child: " + err.Error()
				}
			}
			if await("ctxret", awaitTimeout) == nil {
				if !exited {
					return lines, "Context() did not return in the child: " + tail(out.String())
				}
				if len(self) > 0 {
					// the child ended before it could report: it calls Context() and sends itself the signals unconditionally
					rec("ctxret", tv.M{"self": self, "done": false, "synthesized": true})
					sentShutdown += len(self)
				}
			}
			lastWasAck = true
		case "send":
			if ignored(s.Sig) {
				return lines, "the child was started with SIG" + s.Sig + " ignored (inherited disposition)"
			}
			if !lastWasAck && in.Variant.GapUs > 0 {
				time.Sleep(time.Duration(in.Variant.GapUs) * time.Microsecond)
			}
			await("", 0)
			if exited {
				break
			}
			rec("sent", tv.M{"sig": s.Sig, "by": "parent"})
			if err := syscall.Kill(pid, sigByName[s.Sig]); err != nil {
				return lines, "kill: " + err.Error()
			}
			if s.Sig == "INT" || s.Sig == "TERM" {
				sentShutdown++
			}
			lastWasAck = false
		case "ack":
			if !cancelledSeen() {
				if await("cancelled", awaitTimeout) == nil && !exited {
					// no cancellation although a signal was sent: let the final state query tell
					lastWasAck = true
					continue
				}
			}
			lastWasAck = true
		case "ctx2":
			rec("ctx2", nil)
			if _, err := io.WriteString(stdin, "ctx2\n"); err != nil {
				return lines, "cannot write to the child: " + err.Error()
			}
			// panic2 / nopanic2 are recorded by note
			deadline := time.Now().Add(awaitTimeout)
			for !exited && time.Now().Before(deadline) {
				n := len(lines)
				await("panic2", 50*time.Millisecond)
				got := false
				for _, l := range lines[n:] {
					if l["ev"] == "panic2" || l["ev"] == "nopanic2" {
						got = true
					}
				}
				if got {
					break
				}
			}
			lastWasAck = true
		}
	}

	// the outcome: wait for the end of the child; a child that stays is asked for its state twice
	wait := settle
	if sentShutdown >= 2 || (len(p.Steps) > 0 && p.Steps[len(p.Steps)-1].Sig == "HUP") || (p.Pre && len(p.Steps) == 1) {
		wait = settleMany
	}
	await("<exit>", wait)
	if !exited {
		var st map[string]any
		for round := 0; round < 2 && !exited; round++ {
			if _, err := io.WriteString(stdin, "state\n"); err != nil {
				break
			}
			st = nil
			deadline := time.Now().Add(awaitTimeout)
			for !exited && st == nil && time.Now().Before(deadline) {
				select {
				case sm := <-msgs:
					if sm.eof {
						exited = true
					} else if sm.m["ev"] == "state" {
						st = sm.m
					} else {
						note(sm.m)
					}
				case <-time.After(100 * time.Millisecond):
				}
			}
			if st == nil && !exited {
				return lines, "the child does not answer: " + tail(out.String())
			}
			if round == 0 && !exited {
				await("<exit>", wait/2+20*time.Millisecond)
			}
		}
		if !exited {
			rec("alive", tv.M{"done": st["done"], "kind": st["kind"]})
			_ = syscall.Kill(pid, syscall.SIGKILL)
			reap()
			rec("end", nil)
			return lines, ""
		}
	}
	reap()
	code, sig := -1, "none"
	if ws, ok := state.Sys().(syscall.WaitStatus); ok {
		switch {
		case ws.Exited():
			code = ws.ExitStatus()
		case ws.Signaled():
			switch ws.Signal() {
			case syscall.SIGINT:
				sig = "INT"
			case syscall.SIGTERM:
				sig = "TERM"
			case syscall.SIGHUP:
				sig = "HUP"
			default:
				return lines, fmt.Sprintf("the child was killed by %v, which the harness did not send: %s", ws.Signal(), tail(out.String()))
			}
		}
	}
	if sig == "none" && (code == 3 || code == 4 || code == 2) {
		return lines, fmt.Sprintf("the child gave up (exit code %d): %s", code, tail(out.String()))
	}
	rec("exit", tv.M{"code": code, "sig": sig, "log": tail(out.String())})
	rec("end", nil)
	return lines, ""
}

func tail(s string) string {
	s = strings.TrimSpace(s)
	if len(s) > 300 {
		s = s[len(s)-300:]
	}
	return s
}

func appendTrace(b *tv.Batch, lines []tv.M) int {
	tr := b.Start(lines[0])
	for _, l := range lines[1:] {
		b.Ev(l["ev"].(string), l)
	}
	return tr
}

func slug(s string) string {
	var sb strings.Builder
	for _, r := range s {
		switch {
		case r >= 'a' && r <= 'z' || r >= 'A' && r <= 'Z' || r >= '0' && r <= '9':
			sb.WriteRune(r)
		case r == ' ' || r == '-' || r == ':' || r == '/':
			sb.WriteByte('-')
		}
	}
	out := sb.String()
	for strings.Contains(out, "--") {
		out = strings.ReplaceAll(out, "--", "-")
	}
	out = strings.Trim(out, "-")
	if len(out) > 90 {
		out = out[:90]
	}
	return out
}

func loadPrograms(raw []byte) ([]Program, error) {
	var out []Program
	for _, l := range bytes.Split(raw, []byte("\n")) {
		if len(bytes.TrimSpace(l)) == 0 {
			continue
		}
		var p Program
		if err := json.Unmarshal(l, &p); err != nil {
			return nil, fmt.Errorf("%v: %s", err, l)
		}
		if p.Self == nil {
			p.Self = []string{}
		}
		out = append(out, p)
	}
	sort.Slice(out, func(i, j int) bool { return out[i].ID < out[j].ID })
	return out, nil
}

// hasRace: the program has a send that is not separated from the previous one by an ack
func hasRace(p Program) bool {
	prev := ""
	for _, s := range p.Steps {
		if s.Op == "send" && prev == "send" {
			return true
		}
		prev = s.Op
	}
	return false
}

func TestCheck(t *testing.T) {
	e := ev.New("X10", "model_checking")
	defer func() {
		if e.Write() > 0 {
			t.Fail()
		}
	}()
	// a handler in the parent makes sure children do not inherit an ignored SIGINT/SIGHUP (background jobs of
	// non-interactive shells): caught signals are reset to the default on exec, ignored ones stay ignored
	sigCh := make(chan os.Signal, 4)
	signal.Notify(sigCh, syscall.SIGINT, syscall.SIGHUP, syscall.SIGTERM)
	go func() {
		s := <-sigCh
		fmt.Printf("INCONCLUSIVE property=X10 the harness itself received %v\n", s)
		os.Exit(2)
	}()
	defer signal.Stop(sigCh)

	thorough := ev.Thorough()
	rng := rand.New(rand.NewSource(ev.Seed()))
	if rp := os.Getenv("VERIF_REPLAY"); rp != "" {
		replay(e, rp)
		return
	}
	e.Assume("the child is the harness test binary re-executed in child mode: it calls the real signals.Context(), reports over a pipe and is driven by real signals (kill(2)) from the parent or, for the window before the package's goroutine ran, from itself",
		"the parent cannot observe how many of its signals the kernel / Go runtime merged: two signals of the same kind without an acknowledged quiet point in between count as one or two (both outcomes are accepted)",
		"an outcome 'alive' is recorded only after the child outlived a settling period (longer when two signals were sent) and answered two state queries after it",
		"SIGHUP / SIGUSR1 follow the Go defaults (kill / ignore); the contract only demands that they neither cancel the context nor count as a shutdown signal")

	// ---- 1. model checking
	noTE := []string{"-noGenerateSpecTE"}
	defects := []string{"buf1", "handles_hup", "only_int", "no_panic_twice", "exit_code"}
	var wg sync.WaitGroup
	var mc tlc.Result
	defRes := make([]tlc.Result, len(defects))
	wg.Add(1 + len(defects))
	go func() {
		defer wg.Done()
		mc = tlc.Run(tlc.Opts{Dir: specDir, Module: "SignalsImpl", Config: ev.Pick("MC_small.cfg", "MC_big.cfg"), Workers: 4,
			Timeout: ev.Pick(5*time.Minute, 20*time.Minute), Args: noTE, Keep: []string{"programs.ndjson"}})
	}()
	for i, d := range defects {
		go func() {
			defer wg.Done()
			defRes[i] = tlc.Run(tlc.Opts{Dir: specDir, Module: "SignalsImpl", Config: "MC_defect_" + d + ".cfg", Workers: 2, Timeout: 5 * time.Minute, Args: noTE})
		}()
	}
	wg.Wait()
	fmt.Printf("MC SignalsImpl: ok=%v generated=%d distinct=%d depth=%d wall=%s %s\n", mc.OK, mc.Generated, mc.Distinct, mc.Depth, mc.Wall.Round(time.Millisecond), mc.What)
	e.Set("states", mc.Distinct)
	e.Set("transitions", mc.Generated)
	e.Set("checker_cmd", mc.Cmd)
	if !mc.OK {
		e.Inconclusive("model check of SignalsImpl did not pass: " + mc.What + "\n" + mc.Tail(3000))
		return
	}
	defSummary := tv.M{}
	for i, d := range defects {
		ok := defRes[i].Violation && strings.Contains(defRes[i].What, "NotBad")
		defSummary[d] = ok
		if !ok {
			e.Inconclusive("the defect variant " + d + " of SignalsImpl was not rejected by the contract: " + defRes[i].What)
		}
	}
	e.Set("defect_models_rejected", defSummary)
	progs, err := loadPrograms(mc.Kept["programs.ndjson"])
	if err != nil || len(progs) == 0 {
		e.Inconclusive(fmt.Sprintf("cannot read the programs written by TLC: %v (%d)", err, len(progs)))
		return
	}
	e.Set("programs_enumerated_by_tlc", int64(len(progs)))

	// ---- 2. the programs on real child processes
	settle := ev.Pick(250*time.Millisecond, 600*time.Millisecond)
	settleMany := ev.Pick(1500*time.Millisecond, 4*time.Second)
	var runs []runInfo
	gaps := []int{0, 0, 20, 100, 500, 2000}
	reps := ev.Pick(2, 8)
	for _, p := range progs {
		n := 1
		if hasRace(p) || len(p.Self) > 0 {
			n = reps // the racy ones are worth repeating with other gaps / processor counts
		} else if thorough {
			n = 2
		}
		for r := 0; r < n; r++ {
			v := variant{}
			if hasRace(p) {
				v.GapUs = gaps[(r+rng.Intn(len(gaps)))%len(gaps)]
				if r == 0 {
					v.GapUs = 0
				}
			}
			if len(p.Self) > 0 || r%3 == 2 {
				v.Procs = []int{1, 0, 2, 1}[r%4]
			}
			runs = append(runs, runInfo{Prog: p, Variant: v})
		}
	}
	t0 := time.Now()
	type result struct {
		lines []tv.M
		und   string
	}
	results := make([]result, len(runs))
	par := 10
	sem := make(chan struct{}, par)
	for i := range runs {
		wg.Add(1)
		sem <- struct{}{}
		go func() {
			defer wg.Done()
			defer func() { <-sem }()
			for attempt := 0; attempt < 2; attempt++ { // an undrivable child gets one more chance
				l, u := runChild(runs[i], settle, settleMany)
				results[i] = result{l, u}
				if u == "" {
					break
				}
			}
		}()
	}
	wg.Wait()
	b := &tv.Batch{}
	var infos []runInfo
	undrivable := 0
	perFam := map[string]int64{}
	outcomes := map[string]int64{}
	for i, r := range results {
		if r.und != "" {
			undrivable++
			if undrivable <= 3 {
				fmt.Printf("undrivable child (%s): %s\n", runs[i].Prog, r.und)
			}
			continue
		}
		appendTrace(b, r.lines)
		infos = append(infos, runs[i])
		perFam[runs[i].Prog.Fam]++
		last := r.lines[len(r.lines)-2]
		o := fmt.Sprint(last["ev"])
		if o == "exit" {
			o = fmt.Sprintf("exit code=%v sig=%v", last["code"], last["sig"])
		} else {
			o = fmt.Sprintf("alive done=%v", last["done"])
		}
		outcomes[o]++
		nsend := 0
		for _, s := range runs[i].Prog.Steps {
			if s.Op == "send" {
				nsend++
			}
		}
		if nsend+len(runs[i].Prog.Self) > 0 {
			e.Nontrivial(fmt.Sprintf("%d|%d|%d", runs[i].Prog.ID, runs[i].Variant.GapUs, runs[i].Variant.Procs))
		}
	}
	fmt.Printf("drove %d child processes (%d programs) in %s; %d events; %d could not be driven; outcomes %v\n", len(runs), len(progs), time.Since(t0).Round(time.Millisecond), b.Lines(), undrivable, outcomes)
	e.Set("children_per_family", perFam)
	e.Set("outcomes", outcomes)
	e.Set("children_undrivable", int64(undrivable))
	e.Set("evaluations", int64(b.Len()))
	e.Set("rule", "program = (signals sent before Context() is called | signals the child sends itself right after Context() returned, before the package's goroutine ran | SIGINT/SIGTERM sequences up to length "+
		fmt.Sprint(ev.Pick(3, 4))+" with or without waiting for the reported cancellation between them | a second Context() call at every position | SIGUSR1 at every position, SIGHUP last), enumerated by TLC (SignalsCases!Programs); "+
		"every program is run on a fresh re-exec'ed child calling the real signals.Context(); programs with racing signals are repeated with seeded gaps (0-2000 us) and GOMAXPROCS 1/2/default; non-trivial = a child that was sent at least one signal, distinct by (program, gap, GOMAXPROCS)")
	if undrivable*10 > len(runs) {
		e.Inconclusive(fmt.Sprintf("%d of %d child processes could not be driven", undrivable, len(runs)))
		return
	}
	if b.Len() == 0 {
		e.Inconclusive("no child could be driven")
		return
	}
	for _, i := range []int{0, b.Len() / 4, b.Len() / 2, 3 * b.Len() / 4, b.Len() - 1} {
		e.Sample(tv.M{"run": infos[i].Prog.String(), "variant": infos[i].Variant, "trace": b.TraceStrings(i)})
	}

	// ---- 3. TLC judges the records
	var rej []tv.Reject
	var res tlc.Result
	var st string
	wg.Add(2)
	go func() {
		defer wg.Done()
		rej, res = tv.ValidateChunked(tlc.Opts{Dir: specDir, Module: "TraceSignals", Config: "TraceSignals.cfg", Workers: 4, Timeout: ev.Pick(5*time.Minute, 20*time.Minute)}, b)
	}()
	go func() { defer wg.Done(); st = selfTest(e, settle, settleMany) }()
	wg.Wait()
	fmt.Printf("TLC trace validation: ok=%v violation=%v rejects=%d distinct=%d wall=%s %s\n", res.OK, res.Violation, len(rej), res.Distinct, res.Wall.Round(time.Millisecond), res.What)
	if st != "" {
		if strings.HasPrefix(st, "only-unmodified:") && len(rej) > 0 {
			// the package itself misbehaves (see the violations): the self-test's own run is rejected for the same reason
			fmt.Println("note: the unmodified self-test run was rejected too: " + st)
		} else {
			e.Inconclusive("binding self-test failed: " + st)
		}
	}
	if !res.OK && !res.Violation {
		e.Inconclusive("trace validation did not run: " + res.What + "\n" + res.Tail(2000))
		return
	}
	if res.Violation && len(rej) == 0 {
		e.Inconclusive("TLC reported a violation that could not be parsed:\n" + res.Tail(1500))
		return
	}
	e.Set("traces_validated_against_impl", int64(b.Len()))
	sort.SliceStable(rej, func(i, j int) bool { return len(infos[rej[i].Trace].Prog.Steps) < len(infos[rej[j].Trace].Prog.Steps) })
	for _, r := range rej {
		in := infos[r.Trace]
		if strings.HasPrefix(r.Why, "harness:") {
			e.Inconclusive("the harness recorded an impossible trace: " + r.Why + " " + strings.Join(b.TraceStrings(r.Trace), " "))
			continue
		}
		e.Violation("signals:"+slug(r.Why), r.Why+" (program: "+in.Prog.String()+")", tv.M{"run": in, "trace": b.TraceStrings(r.Trace), "at": r.At,
			"reproducer": reproducer(in)})
	}
}

func reproducer(in runInfo) string {
	p := in.Prog
	var sb strings.Builder
	if p.Pre {
		sb.WriteString("child waits; ")
	}
	for _, s := range p.Steps {
		switch s.Op {
		case "go":
			sb.WriteString("child: ctx := signals.Context()")
			for _, k := range p.Self {
				sb.WriteString("; syscall.Kill(os.Getpid(), SIG" + k + ")")
			}
			sb.WriteString("; ")
		case "send":
			sb.WriteString("parent: kill -" + s.Sig + " child; ")
		case "ack":
			sb.WriteString("parent waits for <-ctx.Done() in the child; ")
		case "ctx2":
			sb.WriteString("child: signals.Context() again; ")
		}
	}
	return sb.String() + fmt.Sprintf("(gap %dus, GOMAXPROCS %d)", in.Variant.GapUs, in.Variant.Procs)
}

// selfTest: the unmodified record of a two-signal run is accepted; corrupted ones are rejected.
func selfTest(e *ev.Evidence, settle, settleMany time.Duration) string {
	p := Program{ID: 0, Fam: "selftest", Self: []string{}, Steps: []step{{"go", "none"}, {"send", "INT"}, {"ack", "none"}, {"send", "TERM"}, {"ack", "none"}}}
	var lines []tv.M
	var und string
	for attempt := 0; attempt < 3; attempt++ {
		lines, und = runChild(runInfo{Prog: p}, settle, settleMany)
		if und == "" {
			break
		}
	}
	if und != "" {
		return "child: " + und
	}
	var raw [][]byte
	for _, l := range lines {
		j, _ := json.Marshal(l)
		raw = append(raw, bytes.ReplaceAll(j, []byte(":null"), []byte(`:"null"`)))
	}
	b := &tv.Batch{}
	b.AppendTrace(raw)
	var wrongCode, wrongCause, noSecond, earlyCancel [][]byte
	for _, l := range raw {
		wrongCode = append(wrongCode, bytes.Replace(l, []byte(`"code":1`), []byte(`"code":0`), 1))
		wrongCause = append(wrongCause, bytes.Replace(l, []byte(`"kind":"INT"`), []byte(`"kind":"TERM"`), 1))
		if !bytes.Contains(l, []byte(`"sig":"TERM"`)) || !bytes.Contains(l, []byte(`"ev":"sent"`)) {
			noSecond = append(noSecond, l)
		}
	}
	// the cancellation moved in front of the first signal
	var canc []byte
	for _, l := range raw {
		if bytes.Contains(l, []byte(`"ev":"cancelled"`)) {
			canc = l
		}
	}
	for _, l := range raw {
		if bytes.Contains(l, []byte(`"ev":"cancelled"`)) {
			continue
		}
		if bytes.Contains(l, []byte(`"ev":"sent"`)) && bytes.Contains(l, []byte(`"sig":"INT"`)) && canc != nil {
			earlyCancel = append(earlyCancel, canc)
		}
		earlyCancel = append(earlyCancel, l)
	}
	b.AppendTrace(wrongCode)
	b.AppendTrace(wrongCause)
	b.AppendTrace(noSecond)
	b.AppendTrace(earlyCancel)
	rej, res := tv.Validate(tlc.Opts{Dir: specDir, Module: "TraceSignals", Config: "TraceSignals.cfg", Workers: 2, Timeout: 3 * time.Minute}, b)
	got := map[int]bool{}
	for _, r := range rej {
		got[r.Trace] = true
	}
	e.Set("binding_selftest", tv.M{"unmodified_accepted": !got[0], "exit_code_rewritten_rejected": got[1], "cause_rewritten_rejected": got[2],
		"second_signal_removed_rejected": got[3], "cancellation_before_signal_rejected": got[4]})
	if (res.OK || res.Violation) && !got[0] && got[1] && got[2] && got[3] && got[4] {
		return ""
	}
	pre := ""
	if (res.OK || res.Violation) && got[0] && got[1] && got[2] && got[3] && got[4] {
		pre = "only-unmodified: "
	}
	return pre + fmt.Sprintf("rejects=%v %s trace=%v", rej, res.What, b.TraceStrings(0))
}

// replay re-runs the program stored in a replay file (./check X10 --replay <file>) a number of times.
func replay(e *ev.Evidence, path string) {
	raw, err := os.ReadFile(path)
	if err != nil {
		e.Inconclusive("cannot read the replay file: " + err.Error())
		return
	}
	var f struct {
		Replay struct {
			Run *runInfo `json:"run"`
		} `json:"replay"`
	}
	if err := json.Unmarshal(raw, &f); err != nil || f.Replay.Run == nil {
		e.Inconclusive("cannot parse the replay file")
		return
	}
	b := &tv.Batch{}
	n := 0
	for i := 0; i < 20; i++ {
		lines, und := runChild(*f.Replay.Run, 300*time.Millisecond, 2*time.Second)
		if und != "" {
			continue
		}
		appendTrace(b, lines)
		n++
	}
	if n == 0 {
		e.Inconclusive("the child could not be driven")
		return
	}
	rej, res := tv.Validate(tlc.Opts{Dir: specDir, Module: "TraceSignals", Config: "TraceSignals.cfg", Workers: 2, Timeout: 3 * time.Minute}, b)
	fmt.Printf("replay: %d runs, TLC ok=%v rejects=%d %s\n", n, res.OK, len(rej), res.What)
	if !res.OK && !res.Violation {
		e.Inconclusive("trace validation did not run: " + res.What)
		return
	}
	e.Set("evaluations", int64(n))
	e.Set("traces_validated_against_impl", int64(n))
	for _, r := range rej {
		for _, l := range b.TraceStrings(r.Trace) {
			fmt.Println("  " + l)
		}
		e.Violation("signals:"+slug(r.Why), r.Why, tv.M{"replayed": path, "run": f.Replay.Run, "trace": b.TraceStrings(r.Trace), "at": r.At})
	}
}
