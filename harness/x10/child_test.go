package x10

// Child mode of the X10 harness: the test binary re-executes itself with VERIF_X10_CHILD set to a
// JSON plan; TestMain then runs childMain instead of the tests.  The child calls the REAL
// signals.Context(), reports what it sees on the status pipe (fd 3) and obeys one-line commands on
// stdin.  It never outlives its parent for long: stdin EOF or a self-destruct timer end it.

import (
	"bufio"
	"context"
	"encoding/json"
	"fmt"
	"os"
	"os/signal"
	"runtime"
	"strings"
	"sync"
	"syscall"
	"testing"
	"time"

	"github.com/dapr/kit/signals"
)

const childEnv = "VERIF_X10_CHILD"

// childPlan is what the parent asks of one child process.
type childPlan struct {
	Pre   bool     `json:"pre"`   // wait for the "go" command before calling Context()
	Self  []string `json:"self"`  // signals the child sends to itself right after Context() returned, without yielding
	Procs int      `json:"procs"` // GOMAXPROCS (0: default)
	Life  int      `json:"life"`  // self-destruct after this many seconds (exit code 3)
}

var sigByName = map[string]syscall.Signal{"INT": syscall.SIGINT, "TERM": syscall.SIGTERM, "HUP": syscall.SIGHUP, "USR1": syscall.SIGUSR1}

func TestMain(m *testing.M) {
	if p := os.Getenv(childEnv); p != "" {
		childMain(p)
		os.Exit(0)
	}
	os.Exit(m.Run())
}

func causeKind(cause string) string {
	switch {
	case strings.Contains(cause, syscall.SIGINT.String()):
		return "INT"
	case strings.Contains(cause, syscall.SIGTERM.String()):
		return "TERM"
	case strings.Contains(cause, syscall.SIGHUP.String()):
		return "HUP"
	case strings.Contains(cause, syscall.SIGUSR1.String()):
		return "USR1"
	}
	return "other"
}

func childMain(planJSON string) {
	var plan childPlan
	if err := json.Unmarshal([]byte(planJSON), &plan); err != nil {
		os.Exit(4)
	}
	if plan.Procs > 0 {
		runtime.GOMAXPROCS(plan.Procs)
	}
	if plan.Life <= 0 {
		plan.Life = 60
	}
	time.AfterFunc(time.Duration(plan.Life)*time.Second, func() { os.Exit(3) })
	status := os.NewFile(3, "status")
	if status == nil {
		os.Exit(4)
	}
	var mu sync.Mutex
	say := func(m map[string]any) {
		b, _ := json.Marshal(m)
		mu.Lock()
		_, _ = status.Write(append(b, '\n'))
		mu.Unlock()
	}
	in := bufio.NewReader(os.Stdin)
	say(map[string]any{"ev": "started", "ignInt": signal.Ignored(syscall.SIGINT), "ignTerm": signal.Ignored(syscall.SIGTERM), "ignHup": signal.Ignored(syscall.SIGHUP)})
	if plan.Pre {
		line, err := in.ReadString('\n')
		if err != nil || strings.TrimSpace(line) != "go" {
			os.Exit(0)
		}
	}
	var ctx context.Context
	p := func() (p any) {
		defer func() { p = recover() }()
		ctx = signals.Context()
		return nil
	}()
	if p != nil {
		say(map[string]any{"ev": "panic1", "msg": fmt.Sprint(p)})
		os.Exit(0)
	}
	if len(plan.Self) > 0 {
		// the window before the package's goroutine has run: no yield between Context() and the kills
		pid := syscall.Getpid()
		for _, s := range plan.Self {
			_ = syscall.Kill(pid, sigByName[s])
		}
	}
	say(map[string]any{"ev": "ctxret", "done": ctx.Err() != nil})
	go func() {
		<-ctx.Done()
		cause := fmt.Sprint(context.Cause(ctx))
		say(map[string]any{"ev": "cancelled", "kind": causeKind(cause), "cause": cause, "err": fmt.Sprint(ctx.Err())})
	}()
	for {
		line, err := in.ReadString('\n')
		if err != nil {
			os.Exit(0)
		}
		switch strings.TrimSpace(line) {
		case "ping":
			say(map[string]any{"ev": "pong"})
		case "state":
			m := map[string]any{"ev": "state", "done": ctx.Err() != nil, "kind": "none"}
			if ctx.Err() != nil {
				m["kind"] = causeKind(fmt.Sprint(context.Cause(ctx)))
			}
			say(m)
		case "ctx2":
			p := func() (p any) {
				defer func() { p = recover() }()
				_ = signals.Context()
				return nil
			}()
			if p != nil {
				say(map[string]any{"ev": "panic2", "msg": fmt.Sprint(p)})
			} else {
				say(map[string]any{"ev": "nopanic2"})
			}
		case "quit":
			os.Exit(0)
		}
	}
}
