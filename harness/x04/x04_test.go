// X04 — crypto/spiffe/trustanchors FromFile (extension check).  Scripts run against
// the real file-backed trust anchor source with real temp files: valid bundles
// (renamed into place or written in place), garbage, removal and re-creation,
// rapid successive writes, changes of a neighbouring file; Run / second Run /
// cancellation; CurrentTrustAnchors calls (also with a context that is cancelled
// later); Watch subscribers with a prompt or a slow consumer that leave or stay.
// The harness acts at quiescent points only (internal/sched goroutine-state
// quiescence, no gates, plus a window of several batching intervals without any
// recorded event) and issues a CurrentTrustAnchors probe at each of them.  The
// observable trace is judged by TLC against spec/ext/TrustAnchorsFile/TAFContract.tla;
// TAFImpl.tla (implementation-shaped) is model-checked exhaustively.
// The package has no injection API: the two test-only interval fields of the
// unexported type (fsWatcherInterval, initFileWatchInterval - the package's own
// tests set them) are shortened through reflection for most scripts; some run
// with the defaults (500 ms / 1 s).
package x04

import (
	"bytes"
	"context"
	"crypto/ecdsa"
	"crypto/elliptic"
	"crypto/rand"
	"crypto/x509"
	"crypto/x509/pkix"
	"encoding/json"
	"encoding/pem"
	"errors"
	"fmt"
	"math/big"
	mrand "math/rand"
	"os"
	"os/exec"
	"path/filepath"
	"reflect"
	"strconv"
	"strings"
	"sync"
	"sync/atomic"
	"testing"
	"time"
	"unsafe"

	"github.com/dapr/kit/crypto/spiffe/trustanchors"
	"github.com/dapr/kit/logger"

	"verifharness/internal/ev"
	"verifharness/internal/sched"
	"verifharness/internal/tlc"
	"verifharness/internal/tv"
)

type step struct {
	Op     string `json:"op"` // write garbage remove recreate burst neighbor | run run2 cancel race | cta ctac ctacancel | watch subcancel take drain
	Atomic bool   `json:"atomic,omitempty"`
	N      int    `json:"n,omitempty"`    // burst: number of writes; garbage: variant
	S      int    `json:"s,omitempty"`    // subscriber
	Kind   string `json:"kind,omitempty"` // watch: prompt | slow
}

type scenario struct {
	Init     string `json:"init"` // valid | absent | garbage
	Defaults bool   `json:"defaults,omitempty"`
	Race     bool   `json:"race,omitempty"` // poll for the missing file every 100 us: the burst that creates it races the initial load
	Steps    []step `json:"steps"`
}

type recorder struct {
	mu sync.Mutex
	b   *tv.Batch
	n   atomic.Int64
	off bool
}

func (r *recorder) ev(name string, m tv.M) {
	r.mu.Lock()
	defer r.mu.Unlock()
	if r.off { // the scenario is over: what the tear-down provokes is not part of the run
		return
	}
	r.b.Ev(name, m)
	r.n.Add(1)
}

func (r *recorder) stop() {
	r.mu.Lock()
	r.off = true
	r.mu.Unlock()
}

// ---- bundles ----

var certPool [][]byte

func init() {
	for i := 0; i < 4; i++ {
		k, err := ecdsa.GenerateKey(elliptic.P256(), rand.Reader)
		if err != nil {
			panic(err)
		}
		tpl := &x509.Certificate{SerialNumber: big.NewInt(int64(i + 1)), Subject: pkix.Name{CommonName: fmt.Sprintf("x04 root %d", i)},
			NotBefore: time.Now().Add(-time.Hour), NotAfter: time.Now().Add(24 * time.Hour), IsCA: true, BasicConstraintsValid: true,
			KeyUsage: x509.KeyUsageCertSign}
		der, err := x509.CreateCertificate(rand.Reader, tpl, tpl, &k.PublicKey, k)
		if err != nil {
			panic(err)
		}
		certPool = append(certPool, pem.EncodeToMemory(&pem.Block{Type: "CERTIFICATE", Bytes: der}))
	}
}

// bundle v: one or two root certificates followed by a marker line (data after the last PEM block is ignored by the
// decoder, the package's tests rely on that too); every version has different bytes.
func bundle(v int) []byte {
	b := append([]byte{}, certPool[v%4]...)
	if v%3 == 0 {
		b = append(b, certPool[(v+1)%4]...)
	}
	return append(b, []byte(fmt.Sprintf("# version %d\n", v))...)
}

func versionOf(b []byte) int {
	i := bytes.LastIndex(b, []byte("# version "))
	if i < 0 {
		return -1
	}
	v, err := strconv.Atoi(strings.TrimSpace(string(b[i+len("# version "):])))
	if err != nil || v < 1 || !bytes.Equal(b, bundle(v)) {
		return -1
	}
	return v
}

func garbage(n int) []byte {
	switch n % 6 {
	case 0:
		return []byte("garbage data")
	case 1:
		return []byte{}
	case 2:
		return certPool[0][10:]
	case 3:
		return pem.EncodeToMemory(&pem.Block{Type: "PRIVATE KEY", Bytes: []byte("not a certificate")})
	case 4:
		return pem.EncodeToMemory(&pem.Block{Type: "CERTIFICATE", Bytes: []byte("not DER")})
	default:
		return append(append([]byte{}, certPool[1]...), pem.EncodeToMemory(&pem.Block{Type: "CERTIFICATE", Bytes: []byte("bad second block")})...)
	}
}

// setIntervals shortens the test-only interval fields of the unexported *file; reports the values in effect.
func setIntervals(ta trustanchors.Interface, fs, init time.Duration) (time.Duration, time.Duration) {
	curFS, curInit := 500*time.Millisecond, time.Second
	defer func() { _ = recover() }()
	v := reflect.ValueOf(ta)
	if v.Kind() != reflect.Pointer || v.Elem().Kind() != reflect.Struct {
		return curFS, curInit
	}
	set := func(name string, d time.Duration, cur *time.Duration) {
		f := v.Elem().FieldByName(name)
		if !f.IsValid() || f.Type() != reflect.TypeOf(time.Duration(0)) {
			return
		}
		p := (*time.Duration)(unsafe.Pointer(f.UnsafeAddr()))
		if d > 0 {
			*p = d
		}
		*cur = *p
	}
	set("fsWatcherInterval", fs, &curFS)
	set("initFileWatchInterval", init, &curInit)
	return curFS, curInit
}

var errInconclusive = errors.New("inconclusive")

type subState struct {
	ch     chan []byte
	cancel context.CancelFunc
	kind   string
	done   chan struct{}
	gone   bool // cancelled
	prompt atomic.Bool
	wake   chan struct{}
}

type ctaState struct {
	cancel context.CancelFunc
	done   chan struct{}
}

type stats struct {
	Dups        int `json:"dups"`         // consecutive deliveries of the same version to a subscriber
	Skips       int `json:"skips"`        // a subscriber saw version v then v+k (k>1): conflated updates
	AfterCancel int `json:"after_cancel"` // deliveries received after Run's context was cancelled
}

func runScenario(sc scenario, ctl *sched.Controller) (b *tv.Batch, tr int, st stats, err error, why string, diag string) {
	b = &tv.Batch{}
	rec := &recorder{b: b}
	tr = b.Start(tv.M{"scenario": sc})
	fail := func(f string, a ...any) (*tv.Batch, int, stats, error, string, string) {
		return b, tr, st, errInconclusive, fmt.Sprintf(f, a...), ""
	}
	root, e1 := os.MkdirTemp("", "x04-")
	if e1 != nil {
		return fail("%v", e1)
	}
	defer os.RemoveAll(root)
	wdir, stage := filepath.Join(root, "w"), filepath.Join(root, "stage")
	_ = os.Mkdir(wdir, 0o755)
	_ = os.Mkdir(stage, 0o755)
	path := filepath.Join(wdir, "ca.crt")
	version := 0
	fileValid := false
	var smu sync.Mutex // protects st and lastSeen
	lastSeen := map[int]int{}
	var runCancelled atomic.Bool
	put := func(content []byte, atomicWrite bool) error {
		if !atomicWrite {
			return os.WriteFile(path, content, 0o644)
		}
		tmp := filepath.Join(stage, "next")
		if err := os.WriteFile(tmp, content, 0o644); err != nil {
			return err
		}
		return os.Rename(tmp, path)
	}
	writeValid := func(atomicWrite bool) error {
		version++
		rec.ev("write", tv.M{"v": version, "valid": true, "atomic": atomicWrite})
		fileValid = true
		return put(bundle(version), atomicWrite)
	}
	writeGarbage := func(n int) error {
		rec.ev("write", tv.M{"v": 0, "valid": false, "atomic": true})
		fileValid = false
		return put(garbage(n), true)
	}
	switch sc.Init {
	case "valid":
		if err := writeValid(true); err != nil {
			return fail("%v", err)
		}
	case "garbage":
		if err := writeGarbage(0); err != nil {
			return fail("%v", err)
		}
	}
	log := logger.NewLogger("x04")
	log.SetOutputLevel(logger.FatalLevel)
	ta := trustanchors.FromFile(trustanchors.OptionsFile{Log: log, Path: path})
	fsI, initI := time.Duration(0), time.Duration(0)
	if !sc.Defaults {
		fsI, initI = 20*time.Millisecond, 10*time.Millisecond
	}
	if sc.Race {
		initI = 100 * time.Microsecond
	}
	fsI, initI = setIntervals(ta, fsI, initI)
	// every consequence of an action shows up within one batching interval (or one poll of the missing file) of the last
	// recorded event; a window without any recorded event therefore has to be longer than that
	window := 3*max(fsI, initI)/2 + 40*time.Millisecond

	runCtx, runCancel := context.WithCancel(context.Background())
	defer runCancel()
	var runDone []chan struct{}
	subs := map[int]*subState{}
	ctas := map[int]*ctaState{}
	nextCta := 0
	started := false
	defer func() {
		rec.stop()
		runCancel()
		for _, s := range subs {
			s.cancel()
			s.prompt.Store(true)
			select {
			case s.wake <- struct{}{}:
			default:
			}
		}
		for _, c := range ctas {
			c.cancel()
		}
		deadline := time.After(5 * time.Second)
		for _, d := range runDone {
			select {
			case <-d:
			case <-deadline:
			}
		}
		for _, c := range ctas {
			select {
			case <-c.done:
			case <-time.After(2 * time.Second):
			}
		}
	}()

	var lastSnap sched.Snapshot
	// settle: everything blocked and no event recorded for a whole window (several batching intervals)
	settle := func(w time.Duration) error {
		for i := 0; i < 60; i++ {
			if _, err := ctl.Quiesce(10 * time.Second); err != nil {
				return err
			}
			n0 := rec.n.Load()
			time.Sleep(w)
			snap, err := ctl.Quiesce(10 * time.Second)
			if err != nil {
				return err
			}
			// Run closes the fsnotify watcher on its way out; closing an inotify instance can take the kernel a long
			// time while the goroutine looks blocked: not a quiescent point
			if rec.n.Load() == n0 && !strings.Contains(snap.Dump, "fsnotify.(*Watcher).Close") {
				lastSnap = snap
				return nil
			}
		}
		return errors.New("the system never stayed quiet for a whole window")
	}
	startCta := func(probe, cancellable bool) *ctaState {
		nextCta++
		i := nextCta
		ctx, cancel := context.WithCancel(context.Background())
		c := &ctaState{cancel: cancel, done: make(chan struct{})}
		ctas[i] = c
		rec.ev("cta_call", tv.M{"i": i, "probe": probe})
		go func() {
			defer close(c.done)
			got, err := ta.CurrentTrustAnchors(ctx)
			v := 0
			if err == nil {
				v = versionOf(got)
			}
			rec.ev("cta_ret", tv.M{"i": i, "ok": err == nil, "v": v})
		}()
		_ = cancellable
		return c
	}
	wait := func(d chan struct{}, t time.Duration) bool {
		select {
		case <-d:
			return true
		case <-time.After(t):
			return false
		}
	}
	liveSlow := func() bool {
		for _, s := range subs {
			if !s.gone && !s.prompt.Load() {
				select {
				case <-s.done:
				default:
					return true
				}
			}
		}
		return false
	}
	runActive := func() bool {
		if len(runDone) == 0 || runCancelled.Load() {
			return false
		}
		select {
		case <-runDone[0]:
			return false
		default:
			return true
		}
	}
	openCta := func() bool {
		for _, c := range ctas {
			select {
			case <-c.done:
			default:
				return true
			}
		}
		return false
	}
	// quiet: settle, give a source that looks behind a much longer time before the point is declared quiescent, probe
	quiet := func() error {
		if err := settle(window); err != nil {
			return err
		}
		serving := started && runActive() && fileValid && !liveSlow()
		if serving && !openCta() {
			// unrecorded patience only: peek at the state through a throw-away call on a private context
			res := make(chan int, 1)
			want := version
			go func() {
				ctx, cancel := context.WithTimeout(context.Background(), time.Second)
				defer cancel()
				got, err := ta.CurrentTrustAnchors(ctx)
				if err != nil {
					res <- -2
					return
				}
				res <- versionOf(got)
			}()
			fresh := false
			select {
			case v := <-res:
				fresh = v == want
			case <-time.After(500 * time.Millisecond):
			}
			if !fresh {
				if err := settle(window + 2*time.Second); err != nil {
					return err
				}
			} else if err := settle(window); err != nil {
				return err
			}
		}
		rec.ev("quiet", nil)
		if !started || openCta() { // no probe before Run, and no second pending call next to one that is already pending
			return nil
		}
		c := startCta(true, false)
		if !wait(c.done, time.Second) {
			// the probe is pending: if everything is blocked this is the state the monitor has to see
			if err := settle(window); err != nil {
				return err
			}
			select {
			case <-c.done:
			default:
				diag = summarize(lastSnap)
				if os.Getenv("X04_DUMP") != "" {
					fmt.Fprintf(os.Stderr, "==== pending probe, full dump ====\n%s\n", lastSnap.Dump)
				}
				rec.ev("quiet", nil)
			}
		}
		return nil
	}
	consumer := func(id int, s *subState) {
		for {
			if !s.prompt.Load() {
				select {
				case <-s.wake:
				case <-s.done:
					return
				}
				if !s.prompt.Load() {
					continue
				}
			}
			select {
			case got := <-s.ch:
				v := versionOf(got)
				rec.ev("recv", tv.M{"s": id, "v": v})
				noteRecv(&smu, &st, lastSeen, id, v, runCancelled.Load())
			case <-s.done:
				return
			}
		}
	}
	for _, s := range sc.Steps {
		switch s.Op {
		case "write":
			if err := writeValid(s.Atomic); err != nil {
				return fail("%v", err)
			}
		case "burst":
			for i := 0; i < s.N; i++ {
				if err := writeValid(true); err != nil {
					return fail("%v", err)
				}
			}
		case "garbage":
			if err := writeGarbage(s.N); err != nil {
				return fail("%v", err)
			}
		case "remove":
			rec.ev("remove", nil)
			fileValid = false
			_ = os.Remove(path)
		case "recreate":
			rec.ev("remove", nil)
			_ = os.Remove(path)
			if err := writeValid(true); err != nil {
				return fail("%v", err)
			}
		case "neighbor":
			if err := os.WriteFile(filepath.Join(wdir, "other.txt"), []byte(time.Now().String()), 0o644); err != nil {
				return fail("%v", err)
			}
		case "race": // the one script that does not wait for quiescence: Run is polling for the file when a burst of writes creates it
			d := make(chan struct{})
			runDone = append(runDone, d)
			started = true
			rec.ev("run_call", tv.M{"r": 1})
			go func() {
				defer close(d)
				err := ta.Run(runCtx)
				rec.ev("run_ret", tv.M{"r": 1, "err": err != nil})
			}()
			time.Sleep(3 * time.Millisecond)
			for i := 0; i < s.N; i++ {
				if err := writeValid(true); err != nil {
					return fail("%v", err)
				}
			}
		case "run", "run2":
			id := len(runDone) + 1
			d := make(chan struct{})
			runDone = append(runDone, d)
			started = true
			rec.ev("run_call", tv.M{"r": id})
			go func() {
				defer close(d)
				err := ta.Run(runCtx)
				rec.ev("run_ret", tv.M{"r": id, "err": err != nil})
			}()
		case "cancel":
			rec.ev("run_cancel", nil)
			runCancelled.Store(true)
			runCancel()
		case "cta":
			c := startCta(false, false)
			wait(c.done, 200*time.Millisecond)
		case "ctac": // a call whose context is cancelled by a later step
			c := startCta(false, true)
			wait(c.done, 200*time.Millisecond)
		case "ctacancel":
			for i := 1; i <= nextCta; i++ {
				select {
				case <-ctas[i].done:
				default:
					rec.ev("cta_cancel", tv.M{"i": i})
					ctas[i].cancel()
				}
			}
		case "watch":
			if subs[s.S] != nil {
				continue
			}
			ctx, cancel := context.WithCancel(context.Background())
			sub := &subState{ch: make(chan []byte), cancel: cancel, kind: s.Kind, done: make(chan struct{}), wake: make(chan struct{}, 1)}
			sub.prompt.Store(s.Kind == "prompt")
			subs[s.S] = sub
			id := s.S
			rec.ev("watch_call", tv.M{"s": id, "kind": s.Kind})
			go func() {
				defer close(sub.done)
				ta.Watch(ctx, sub.ch)
				rec.ev("watch_ret", tv.M{"s": id})
			}()
			go consumer(id, sub)
		case "subcancel":
			if sub := subs[s.S]; sub != nil && !sub.gone {
				sub.gone = true
				rec.ev("sub_cancel", tv.M{"s": s.S})
				sub.cancel()
			}
		case "take":
			if sub := subs[s.S]; sub != nil && !sub.prompt.Load() {
				select {
				case got := <-sub.ch:
					v := versionOf(got)
					rec.ev("recv", tv.M{"s": s.S, "v": v})
					noteRecv(&smu, &st, lastSeen, s.S, v, runCancelled.Load())
				default:
					rec.ev("noval", tv.M{"s": s.S})
				}
			}
		case "drain":
			for id, sub := range subs {
				if !sub.prompt.Load() {
					rec.ev("drain", tv.M{"s": id})
					sub.prompt.Store(true)
					select {
					case sub.wake <- struct{}{}:
					default:
					}
				}
			}
		}
		if err := quiet(); err != nil {
			return fail("%v", err)
		}
	}
	return b, tr, st, nil, "", diag
}

func noteRecv(mu *sync.Mutex, st *stats, last map[int]int, id, v int, afterCancel bool) {
	mu.Lock()
	defer mu.Unlock()
	if p, ok := last[id]; ok {
		if p == v {
			st.Dups++
		} else if v > p+1 {
			st.Skips++
		}
	}
	last[id] = v
	if afterCancel {
		st.AfterCancel++
	}
}

// summarize lists where the goroutines of the package under test are blocked (diagnosis of a stuck state).
func summarize(s sched.Snapshot) string {
	var out []string
	for _, blk := range strings.Split(s.Dump, "\n\n") {
		if !strings.Contains(blk, "crypto/spiffe/trustanchors.") {
			continue
		}
		lines := strings.Split(blk, "\n")
		hdr := lines[0]
		fn := ""
		for _, l := range lines[1:] {
			if strings.Contains(l, "trustanchors.") && !strings.HasPrefix(l, "\t") {
				fn = l
				break
			}
		}
		if i := strings.Index(hdr, "["); i >= 0 {
			hdr = hdr[i:]
		}
		if i := strings.Index(fn, "trustanchors."); i >= 0 {
			fn = fn[i:]
		}
		if i := strings.Index(fn, "(0x"); i >= 0 {
			fn = fn[:i]
		}
		out = append(out, hdr+" "+fn)
	}
	return strings.Join(out, "; ")
}

// ---- scenarios ----

func staged() []scenario {
	W := step{Op: "write", Atomic: true}
	P := func(s int) step { return step{Op: "watch", S: s, Kind: "prompt"} }
	SL := func(s int) step { return step{Op: "watch", S: s, Kind: "slow"} }
	X := func(s int) step { return step{Op: "subcancel", S: s} }
	T := func(s int) step { return step{Op: "take", S: s} }
	run, cancel, cta, drain := step{Op: "run"}, step{Op: "cancel"}, step{Op: "cta"}, step{Op: "drain"}
	rep := func(s step, n int) []step {
		var o []step
		for i := 0; i < n; i++ {
			o = append(o, s)
		}
		return o
	}
	cat := func(parts ...[]step) []step {
		var o []step
		for _, p := range parts {
			o = append(o, p...)
		}
		return o
	}
	return []scenario{
		// valid -> other valid -> garbage -> valid again
		{Init: "valid", Steps: []step{run, P(1), cta, W, W, {Op: "garbage", N: 0}, cta, W, cta, cancel, cta}},
		// the file appears after Run and CurrentTrustAnchors were called
		{Init: "absent", Steps: []step{run, cta, {Op: "ctac"}, {Op: "ctacancel"}, P(1), W, W, cancel}},
		{Init: "garbage", Steps: []step{cta, run, cta, W, cta}},
		// calls before Run, Run twice, cancellation with callers inside
		{Init: "valid", Steps: []step{cta, P(1), SL(2), run, {Op: "run2"}, W, T(2), T(2), cancel, {Op: "run2"}, cta}},
		// rapid successive writes, removal and re-creation, a neighbouring file
		{Init: "valid", Steps: []step{run, P(1), {Op: "burst", N: 4}, {Op: "recreate"}, {Op: "neighbor"}, {Op: "write"}, {Op: "remove"}, cta, W, cta}},
		// a subscriber leaves, the file keeps changing
		{Init: "valid", Steps: cat([]step{run, P(1), P(2), W, X(1)}, rep(W, 8), []step{cta, cancel})},
		{Init: "valid", Steps: cat([]step{run, SL(1), W, X(1)}, rep(W, 8), []step{cta, cancel})},
		{Init: "valid", Steps: cat([]step{run, P(1), X(1), P(2)}, rep(W, 7), []step{X(2)}, rep(W, 7), []step{cancel})},
		// a live subscriber that does not read holds the source up; everything flows again once it reads
		{Init: "valid", Steps: cat([]step{run, SL(1), P(2)}, rep(W, 8), []step{T(1), T(1), drain, W, cta, cancel})},
		{Init: "valid", Defaults: true, Steps: []step{run, P(1), W, {Op: "write"}, cta, cancel}},
		// consumers that were busy for a while (more than the 5-slot signal buffer plus one update behind) and then read everything
		{Init: "valid", Steps: cat([]step{run, SL(1), SL(2)}, rep(W, 10), []step{drain, W, cta, cancel})},
		{Init: "valid", Steps: cat([]step{run, SL(1), W, W, SL(2), W, W, T(1), W, W, P(3)}, rep(W, 11), []step{drain, W, cancel, cta})},
		{Init: "valid", Steps: cat([]step{run, SL(1), SL(2), P(3)}, rep(W, 12), []step{drain, W, W, cta, cancel})},
	}
}

func genScenario(rng *mrand.Rand) scenario {
	sc := scenario{Init: []string{"valid", "valid", "valid", "valid", "valid", "absent", "garbage"}[rng.Intn(7)]}
	long := rng.Intn(4) == 0
	n := 5 + rng.Intn(9)
	if long {
		n = 16 + rng.Intn(12)
	}
	started, cancelled := false, false
	nsub := 0
	live := []int{}
	add := func(s step) { sc.Steps = append(sc.Steps, s) }
	if rng.Intn(4) == 0 { // calls before Run
		if rng.Intn(2) == 0 {
			add(step{Op: "cta"})
		} else {
			nsub++
			live = append(live, nsub)
			add(step{Op: "watch", S: nsub, Kind: []string{"prompt", "slow"}[rng.Intn(2)]})
		}
	}
	add(step{Op: "run"})
	started = true
	for i := 0; i < n; i++ {
		x := rng.Intn(100)
		if long && x >= 45 && x < 70 {
			x = 0 // more updates
		}
		switch {
		case x < 32:
			add(step{Op: "write", Atomic: true})
		case x < 36:
			add(step{Op: "write", Atomic: false})
		case x < 42:
			add(step{Op: "burst", N: 2 + rng.Intn(3)})
		case x < 45:
			add(step{Op: "neighbor"})
		case x < 48:
			add(step{Op: "garbage", N: rng.Intn(6)})
		case x < 50:
			add(step{Op: "remove"})
		case x < 53:
			add(step{Op: "recreate"})
		case x < 62:
			add(step{Op: "cta"})
		case x < 65:
			add(step{Op: "ctac"})
		case x < 68:
			add(step{Op: "ctacancel"})
		case x < 78:
			if nsub < 4 {
				nsub++
				live = append(live, nsub)
				add(step{Op: "watch", S: nsub, Kind: []string{"prompt", "prompt", "slow"}[rng.Intn(3)]})
			}
		case x < 87:
			if len(live) > 0 {
				k := rng.Intn(len(live))
				add(step{Op: "subcancel", S: live[k]})
				live = append(live[:k], live[k+1:]...)
			}
		case x < 93:
			if len(live) > 0 {
				add(step{Op: "take", S: live[rng.Intn(len(live))]})
			}
		case x < 95:
			add(step{Op: "drain"})
		case x < 97:
			add(step{Op: "run2"})
		default:
			if !cancelled {
				cancelled = true
				add(step{Op: "cancel"})
			}
		}
	}
	_ = started
	if sc.Init == "absent" { // the file appears in one piece: changes racing the initial load are the business of raceScript
		for i, st := range sc.Steps {
			switch st.Op {
			case "write", "burst", "garbage", "remove", "recreate":
				sc.Steps[i] = step{Op: "write", Atomic: true}
			default:
				continue
			}
			break
		}
	}
	add(step{Op: "drain"})
	add(step{Op: "write", Atomic: true})
	if !cancelled {
		add(step{Op: "cancel"})
	}
	add(step{Op: "cta"})
	return sc
}

// ---- workers (see x03: quiescence detection is process-wide) ----

type outTrace struct {
	Sc    scenario `json:"sc"`
	Err   bool     `json:"err"`
	Why   string   `json:"why"`
	Diag  string   `json:"diag"`
	Stats stats    `json:"stats"`
	Lines []string `json:"lines"`
}

// raceScript: the file appears, and keeps changing for a moment, while Run is waiting for it
func raceScript() scenario {
	return scenario{Init: "absent", Race: true, Steps: []step{{Op: "race", N: 3}, {Op: "cancel"}}}
}

const nRace = 300

func scenarioAt(seed int64, nStaged, j int) scenario {
	if j < nRace {
		return raceScript()
	}
	j -= nRace
	if j < nStaged {
		st := staged()
		return st[j%len(st)]
	}
	sc := genScenario(mrand.New(mrand.NewSource(seed*1_000_003 + int64(j))))
	if j%97 == 96 {
		sc.Defaults = true
		if len(sc.Steps) > 9 {
			sc.Steps = append(sc.Steps[:6], sc.Steps[len(sc.Steps)-3:]...)
		}
	}
	return sc
}

func TestWorker(t *testing.T) {
	spec := os.Getenv("X04_WORKER")
	if spec == "" {
		t.Skip("helper process of TestCheck")
	}
	var i, n, total, nStaged int
	var seed int64
	if _, err := fmt.Sscanf(spec, "%d/%d/%d/%d/%d", &i, &n, &total, &nStaged, &seed); err != nil {
		t.Fatal(err)
	}
	ctl := sched.New()
	var outs []outTrace
	for j := i; j < total; j += n {
		sc := scenarioAt(seed, nStaged, j)
		b, tr, st, err, why, diag := runScenario(sc, ctl)
		outs = append(outs, outTrace{Sc: sc, Err: err != nil, Why: why, Diag: diag, Stats: st, Lines: b.TraceStrings(tr)})
	}
	j, err := json.Marshal(outs)
	if err != nil {
		t.Fatal(err)
	}
	if err := os.WriteFile(os.Getenv("X04_OUT"), j, 0o644); err != nil {
		t.Fatal(err)
	}
}

func spawnWorkers(n, total, nStaged int, seed int64) ([]outTrace, error) {
	dir, err := os.MkdirTemp("", "x04w-")
	if err != nil {
		return nil, err
	}
	defer os.RemoveAll(dir)
	var wg sync.WaitGroup
	errs := make([]error, n)
	parts := make([][]outTrace, n)
	for i := 0; i < n; i++ {
		wg.Add(1)
		go func(i int) {
			defer wg.Done()
			out := filepath.Join(dir, fmt.Sprintf("w%d.json", i))
			cmd := exec.Command(os.Args[0], "-test.run=^TestWorker$", "-test.timeout=100m")
			cmd.Env = append(os.Environ(), fmt.Sprintf("X04_WORKER=%d/%d/%d/%d/%d", i, n, total, nStaged, seed), "X04_OUT="+out)
			if o, err := cmd.CombinedOutput(); err != nil {
				errs[i] = fmt.Errorf("worker %d: %v: %s", i, err, o)
				return
			}
			j, err := os.ReadFile(out)
			if err != nil {
				errs[i] = err
				return
			}
			errs[i] = json.Unmarshal(j, &parts[i])
		}(i)
	}
	wg.Wait()
	for i := 0; i < n; i++ {
		if errs[i] != nil {
			return nil, errs[i]
		}
	}
	var all []outTrace
	for k := 0; ; k++ {
		any := false
		for i := 0; i < n; i++ {
			if k < len(parts[i]) {
				all = append(all, parts[i][k])
				any = true
			}
		}
		if !any {
			break
		}
	}
	return all, nil
}

// findingKey: the three ways a source that stopped making progress shows at a quiescent point (a pending
// CurrentTrustAnchors call, a stale probe answer, a subscriber that is behind) share one key per context.
func findingKey(why string) string {
	if i := strings.Index(why, " ("); i >= 0 && strings.HasSuffix(why, ")") {
		return "source-stops-making-progress-" + slug(why[i:])
	}
	return slug(why)
}

func slug(s string) string {
	return strings.ReplaceAll(strings.Map(func(c rune) rune {
		if c >= 'a' && c <= 'z' || c >= 'A' && c <= 'Z' || c == ' ' {
			return c
		}
		return -1
	}, s), " ", "-")
}

func TestCheck(t *testing.T) {
	e := ev.New("X04", "model_checking")
	e.Assume("extension check (not in properties.jsonl): contract read from the doc comments, the code and the package's tests",
		"the package has no injection API: the test-only interval fields of the unexported type (fsWatcherInterval 500 ms -> 20 ms, initFileWatchInterval 1 s -> 10 ms) are set through reflection, as the package's own tests set them; about 1 percent of the scripts run with the defaults",
		"the harness acts at quiescent points only (all goroutines blocked, no recorded event for 1.5 intervals, the fsnotify tear-down not in progress; a source that looks behind gets 2 more seconds); only the dedicated start-up scripts change the file while Run is picking it up (initFileWatchInterval 100 us there)",
		"a failed update (garbage, missing or half-written file) may end Run with an error (the package's tests require that for garbage); after that nothing more is required of the source",
		"while a live subscriber's consumer is not reading, the source may be held up by it (pending-call and freshness rules suspended); duplicate deliveries and conflated updates are allowed (the directory is watched, every notification reloads; a subscriber is handed the bundle current at hand-over time)")
	defer func() {
		if e.Write() > 0 {
			t.Fail()
		}
	}()
	mcDone := make(chan struct{})
	go func() {
		defer close(mcDone)
		mc := tlc.Run(tlc.Opts{Dir: "ext/TrustAnchorsFile", Module: "MCTAF", Config: ev.Pick("MC_small.cfg", "MC_big.cfg"), Workers: 8,
			Timeout: ev.Pick(4*time.Minute, 40*time.Minute), HeapMB: 8000, Args: []string{"-noGenerateSpecTE"}})
		fmt.Printf("MC TAFImpl: ok=%v generated=%d distinct=%d depth=%d wall=%s %s\n", mc.OK, mc.Generated, mc.Distinct, mc.Depth, mc.Wall.Round(time.Millisecond), mc.What)
		if !mc.OK {
			e.Inconclusive("model check of TAFImpl.tla did not pass: " + mc.What + "\n" + mc.Tail(2000))
		}
		states, transitions := mc.Distinct, mc.Generated
		if ev.Thorough() { // a second exhaustive configuration: one subscriber, more calls, every initial file state, a bad update
			mc2 := tlc.Run(tlc.Opts{Dir: "ext/TrustAnchorsFile", Module: "MCTAF", Config: "MC_big2.cfg", Workers: 8, Timeout: 30 * time.Minute, HeapMB: 8000, Args: []string{"-noGenerateSpecTE"}})
			fmt.Printf("MC TAFImpl (second configuration): ok=%v generated=%d distinct=%d depth=%d wall=%s %s\n", mc2.OK, mc2.Generated, mc2.Distinct, mc2.Depth, mc2.Wall.Round(time.Millisecond), mc2.What)
			if !mc2.OK {
				e.Inconclusive("model check of TAFImpl.tla (MC_big2) did not pass: " + mc2.What + "\n" + mc2.Tail(2000))
			}
			states, transitions = states+mc2.Distinct, transitions+mc2.Generated
		}
		e.Set("states", states)
		e.Set("transitions", transitions)
		e.Set("checker_cmd", mc.Cmd)
		defects := map[string]string{}
		var dmu sync.Mutex
		var dwg sync.WaitGroup
		// MC_small/MC_big model a repaired source (Fix = "nonblocking": the signal send never blocks).  "leak" is the model of the
		// code as it is (Fix = "none"), "order" the code with only the leaked signal channel repaired (Fix = "leak": updateAnchors
		// still waits under the lock for a subscriber that holds a signal while waiting for the read lock); the others are seeded defects
		for _, d := range []string{"leak", "order", "garbage", "early", "stale", "rerun"} {
			dwg.Add(1)
			go func(d string) {
				defer dwg.Done()
				r := tlc.Run(tlc.Opts{Dir: "ext/TrustAnchorsFile", Module: "MCTAF", Config: "MC_defect_" + d + ".cfg", Workers: 2, Timeout: 3 * time.Minute, HeapMB: 1500, Args: []string{"-noGenerateSpecTE"}})
				dmu.Lock()
				defer dmu.Unlock()
				defects[d] = r.What
				if !r.Violation {
					e.Inconclusive("the defect model " + d + " was not rejected by the model check (vacuous check?): " + r.What)
				}
			}(d)
		}
		dwg.Wait()
		e.Set("defect_models_rejected", defects)
	}()

	nStaged := ev.Pick(2, 6) * len(staged())
	total := nRace + nStaged + ev.Pick(330, 4000)
	if n, err := strconv.Atoi(os.Getenv("X04_SCRIPTS")); err == nil && n > 0 { // soak runs
		total = nRace + nStaged + n
	}
	outs, werr := spawnWorkers(ev.Pick(28, 32), total, nStaged, ev.Seed())
	<-mcDone
	if werr != nil {
		e.Inconclusive("scenario workers: " + werr.Error())
		return
	}
	jb := &tv.Batch{}
	var idx []outTrace
	inconcl := 0
	var tot stats
	withDup, withSkip := 0, 0
	for _, o := range outs {
		if o.Err {
			inconcl++
			if inconcl <= 3 {
				fmt.Printf("scenario not judged: %s\n", o.Why)
			}
			continue
		}
		var lines [][]byte
		for _, l := range o.Lines {
			lines = append(lines, []byte(l))
		}
		jb.AppendTrace(lines)
		idx = append(idx, o)
		tot.Dups += o.Stats.Dups
		tot.Skips += o.Stats.Skips
		tot.AfterCancel += o.Stats.AfterCancel
		if o.Stats.Dups > 0 {
			withDup++
		}
		if o.Stats.Skips > 0 {
			withSkip++
		}
		if len(o.Sc.Steps) > 6 {
			e.Nontrivial(fmt.Sprint(o.Sc))
		}
	}
	fmt.Printf("executed %d scripts (%d events), %d could not be judged; deliveries: %d duplicates (%d runs), %d conflated updates (%d runs), %d after Run's cancellation\n",
		len(outs), jb.Lines(), inconcl, tot.Dups, withDup, tot.Skips, withSkip, tot.AfterCancel)
	e.Set("not_judged", int64(inconcl))
	e.Set("delivery_observations", tv.M{"duplicate_deliveries": tot.Dups, "runs_with_duplicates": withDup, "conflated_updates": tot.Skips, "runs_with_conflation": withSkip,
		"deliveries_after_run_cancel": tot.AfterCancel, "note": "allowed by the contract monitor (the directory is watched: every notification reloads and re-delivers; a slow subscriber is handed the bundle current at hand-over time)"})
	if inconcl > len(outs)/20 {
		e.Inconclusive(fmt.Sprintf("%d of %d scripts could not be driven to quiescence", inconcl, len(outs)))
	}
	rej, rs := tv.ValidateChunked(tlc.Opts{Dir: "ext/TrustAnchorsFile", Module: "TraceTAF", Config: "TraceTAF.cfg", Workers: 12, Timeout: ev.Pick(6*time.Minute, 40*time.Minute), HeapMB: 8000}, jb)
	fmt.Printf("TLC contract validation: ok=%v traces=%d rejected=%d distinct=%d wall=%s %s\n", rs.OK, jb.Len(), len(rej), rs.Distinct, rs.Wall.Round(time.Millisecond), rs.What)
	if !rs.OK {
		e.Inconclusive("trace validation did not run: " + rs.What + rs.Tail(1500))
		return
	}
	e.Set("evaluations", int64(len(outs)))
	e.Set("traces_validated_against_impl", int64(jb.Len()))
	e.Set("rule", "a case = one script on the real FromFile source with a real temp file: initial file (valid | absent | garbage) x [calls before Run] x Run x 5-27 steps of {valid bundle renamed into place / written in place, burst of 2-4 writes, garbage (6 variants), remove, remove+recreate, neighbouring file, CurrentTrustAnchors (plain / context cancelled later), Watch (prompt | slow consumer), subscriber cancel, slow consumer take / drain, second Run, cancel} x drain, final write, cancel, final call; a probe CurrentTrustAnchors at every quiescent point; 300 start-up scripts (the file appears in a burst of three writes while Run polls for it every 100 us) + 13 staged scripts (valid-valid-garbage-valid, file appearing late, callers before Run, rapid writes, remove/recreate, a subscriber leaving followed by 7-8 updates, a live non-reading subscriber, consumers that fall 10-12 updates behind and then read everything) + seeded random scripts; ~1 percent with the default 500 ms / 1 s intervals; non-trivial = more than 6 steps; distinct by script")
	for _, k := range []int{0, len(idx) / 2, len(idx) - 1} {
		e.Sample(tv.M{"scenario": idx[k].Sc, "trace": jb.TraceStrings(k)})
	}
	perKey := map[string]int{}
	for _, r := range rej {
		perKey[findingKey(r.Why)]++
	}
	if len(rej) > 0 {
		fmt.Printf("rejected runs per finding key: %v\n", perKey)
		e.Set("rejected_runs_per_key", perKey)
	}
	for _, r := range rej {
		x := idx[r.Trace]
		e.Violation(findingKey(r.Why), r.Why, tv.M{"scenario": x.Sc, "trace": jb.TraceStrings(r.Trace), "at": r.At, "goroutines_at_last_quiescent_point": x.Diag})
	}
	bad := map[int]bool{}
	for _, r := range rej {
		bad[r.Trace] = true
	}
	selfTest(e, jb, bad)
}

// selfTest: binding of the trace format to the monitor.  A recorded run is accepted as it is; rejected when a probe
// answer is changed to an older version, to unknown bytes, or when a probe's return is dropped (pending call).
func selfTest(e *ev.Evidence, jb *tv.Batch, bad map[int]bool) {
	var src [][]byte
	at := -1
	for i := 0; i < jb.Len() && src == nil; i++ {
		if bad[i] {
			continue
		}
		tr := jb.Trace(i)
		seenV2 := false
		for j, l := range tr {
			s := string(l)
			if strings.Contains(s, `"ev":"write"`) && strings.Contains(s, `"v":2,`) {
				seenV2 = true
			}
			if seenV2 && j > 1 && strings.Contains(s, `"ev":"cta_ret"`) && strings.Contains(s, `"ok":true`) && strings.Contains(s, `"v":2}`) &&
				strings.Contains(string(tr[j-1]), `"probe":true`) && strings.Contains(string(tr[j-2]), `"ev":"quiet"`) {
				src, at = tr, j
				break
			}
		}
	}
	if src == nil {
		e.Inconclusive("binding self-test: no recorded run with a probe returning version 2")
		return
	}
	mut := func(f func(l string) string) [][]byte {
		out := append([][]byte{}, src...)
		out[at] = []byte(f(string(src[at])))
		return out
	}
	b := &tv.Batch{}
	b.AppendTrace(append([][]byte{}, src...))
	b.AppendTrace(mut(func(l string) string { return strings.Replace(l, `"v":2}`, `"v":1}`, 1) }))
	b.AppendTrace(mut(func(l string) string { return strings.Replace(l, `"v":2}`, `"v":-1}`, 1) }))
	dropped := append(append([][]byte{}, src[:at]...), src[at+1:]...)
	dropped = append(dropped, []byte(`{"ev":"quiet"}`))
	b.AppendTrace(dropped)
	rej, res := tv.ValidateChunked(tlc.Opts{Dir: "ext/TrustAnchorsFile", Module: "TraceTAF", Config: "TraceTAF.cfg", Workers: 2, Timeout: 2 * time.Minute}, b)
	got := map[int]bool{}
	for _, r := range rej {
		got[r.Trace] = true
	}
	ok := res.OK && !got[0] && got[1] && got[2] && got[3]
	e.Set("binding_selftest", tv.M{"recorded_accepted_stale_unknown_pending_rejected": ok})
	if !ok {
		e.Inconclusive(fmt.Sprintf("binding self-test failed: %v %s %s", rej, res.What, res.Tail(600)))
	}
}
