// X13 (extension check) — github.com/dapr/kit/logger: the logger registry (NewLogger), ApplyOptionsToLoggers,
// the Logger methods (SetOutputLevel, IsOutputLevelEnabled, EnableJSONOutput, SetAppID, WithFields, WithLogType,
// Debug..Error[f]) and the log lines they produce, Options, the context helpers and the discarding default logger.
//
//   - spec/ext/Logger/LoggerContract.tla: the documented contract (doc comments + the package's own tests) as a
//     deterministic monitor over CALL SEQUENCES on the registry, the loggers it hands out and the loggers derived from
//     them; per handle the monitor keeps the set of values every attribute (level, format, app_id, type, fields) may
//     have: a singleton where the documentation determines it, more where it is silent (sharing inside a family).
//   - LoggerModel.tla: implementation-shaped model; the state holds the calls made so far, so TLC enumerates EVERY call
//     sequence of a family (alphabet + length bound) as behaviours, feeds the answers of a conforming implementation to
//     the monitor (invariant NotBad) and prints the maximal sequences.  15 defect variants (incl. the code as found)
//     must be rejected, 2 alternative conforming implementations accepted.  LoggerTables.tla: the table families.
//   - every maximal sequence (every enumerated sequence is a prefix of one) is replayed on the REAL package in re-exec'ed
//     child processes (the registry is process-global and cannot be reset: fresh logger names per sequence, at most
//     seqsPerChild sequences per process); a panic is recorded, a crash or hang of the child is attributed to the call
//     in flight.  The recorded runs are judged by TLC (TraceLogger.tla): expectations come from the monitor only.
//   - seeded random longer sequences over the whole alphabet are recorded and judged the same way.
//   - table families (Options.SetOutputLevel, ApplyOptionsToLoggers level texts, NewLogger identity), fact groups
//     (context helpers, discarding logger, Options/AttachCmdFlags) and two dedicated children that log at level fatal.
package x13

import (
	"bufio"
	"bytes"
	"encoding/json"
	"fmt"
	"math/rand"
	"os"
	"os/exec"
	"sort"
	"strconv"
	"strings"
	"sync"
	"testing"
	"time"

	"verifharness/internal/ev"
	"verifharness/internal/tlc"
	"verifharness/internal/tv"
)

const (
	specDir      = "ext/Logger"
	childEnv     = "VERIF_X13_CHILD"
	fatalEnv     = "VERIF_X13_FATAL"
	seqsPerChild = 250 // ApplyOptionsToLoggers touches every logger ever registered in the process
)

func TestMain(m *testing.M) {
	if v := os.Getenv(fatalEnv); v != "" {
		fatalChild(v)
		os.Exit(0)
	}
	if f := os.Getenv(childEnv); f != "" {
		childMain(f)
		os.Exit(0)
	}
	os.Exit(m.Run())
}

// ---------------------------------------------------------------- running jobs in child processes

type crashInfo struct {
	Cls string // crash | hang
	Msg string
	At  int // progress mode: the call in flight (1-based), 0 if unknown
}

type jobResult struct {
	lines [][]byte
	crash *crashInfo
}

// runJobs performs the jobs in child processes (one process for all of them unless it dies): a child that dies or stalls
// is replaced behind the job in flight, which gets a crashInfo (and the trace lines written so far in progress mode).
func runJobs(jobs []Job, stall time.Duration, extraEnv []string) (map[int]*jobResult, error) {
	res := map[int]*jobResult{}
	rest := jobs
	for len(rest) > 0 {
		f, err := os.CreateTemp("", "x13-jobs-*.ndjson")
		if err != nil {
			return res, err
		}
		w := bufio.NewWriter(f)
		for _, j := range rest {
			b, _ := json.Marshal(j)
			w.Write(b)
			w.WriteByte('\n')
		}
		w.Flush()
		f.Close()
		rd, wr, err := os.Pipe()
		if err != nil {
			os.Remove(f.Name())
			return res, err
		}
		cmd := exec.Command(os.Args[0], "-test.run=^$")
		cmd.Env = append(append(os.Environ(), childEnv+"="+f.Name()), extraEnv...)
		cmd.ExtraFiles = []*os.File{wr}
		var stderr bytes.Buffer
		cmd.Stdout, cmd.Stderr = &stderr, &stderr
		if err := cmd.Start(); err != nil {
			rd.Close()
			wr.Close()
			os.Remove(f.Name())
			return res, err
		}
		wr.Close()
		lines := make(chan []byte, 1024)
		go func() {
			sc := bufio.NewScanner(rd)
			sc.Buffer(make([]byte, 1<<20), 1<<24)
			for sc.Scan() {
				lines <- append([]byte{}, sc.Bytes()...)
			}
			close(lines)
		}()
		inFlight, done, at := -1, 0, 0
		var cur [][]byte
		hang := false
		timer := time.NewTimer(stall)
	loop:
		for {
			select {
			case l, ok := <-lines:
				if !ok {
					break loop
				}
				if !timer.Stop() {
					select {
					case <-timer.C:
					default:
					}
				}
				timer.Reset(stall)
				if len(l) < 2 {
					continue
				}
				switch l[0] {
				case 'B':
					inFlight, _ = strconv.Atoi(string(l[2:]))
					cur, at = nil, 0
				case 'P':
					at, _ = strconv.Atoi(string(l[2:]))
				case 'L':
					cur = append(cur, l[2:])
				case 'E':
					id, _ := strconv.Atoi(string(l[2:]))
					res[id] = &jobResult{lines: cur}
					cur, inFlight = nil, -1
					done++
				}
			case <-timer.C:
				hang = true
				_ = cmd.Process.Kill()
				break loop
			}
		}
		timer.Stop()
		_ = cmd.Process.Kill()
		_ = cmd.Wait()
		rd.Close()
		os.Remove(f.Name())
		if done == len(rest) {
			break
		}
		if inFlight < 0 {
			if done == 0 {
				return res, fmt.Errorf("the child process made no progress: %s", tailStr(stderr.String()))
			}
			rest = rest[done:]
			continue
		}
		ci := &crashInfo{Cls: "crash", Msg: "the child process died: " + tailStr(stderr.String()), At: at}
		if hang {
			ci.Cls, ci.Msg = "hang", fmt.Sprintf("no output within %s", stall)
		}
		res[inFlight] = &jobResult{lines: cur, crash: ci}
		idx := -1
		for i, j := range rest {
			if j.ID == inFlight {
				idx = i
			}
		}
		if idx < 0 {
			return res, fmt.Errorf("the child reported an unknown job %d", inFlight)
		}
		rest = rest[idx+1:]
	}
	return res, nil
}

func tailStr(s string) string {
	s = strings.TrimSpace(s)
	if len(s) > 400 {
		s = s[len(s)-400:]
	}
	return s
}

// traceOf turns the result of a job into the lines of its trace.  A sequence whose child died is performed again, alone
// and in progress mode, to find the call in flight; the trace then ends with a "crash" event for that call.
func traceOf(j Job, r *jobResult) ([][]byte, string) {
	if r == nil {
		return nil, "no result"
	}
	if r.crash == nil {
		return r.lines, ""
	}
	ci := r.crash
	lines := r.lines
	if j.Kind == "seq" && ci.At == 0 {
		again, err := runJobs([]Job{j}, 15*time.Second, []string{"VERIF_X13_PROGRESS=1"})
		if err != nil || again[j.ID] == nil {
			return nil, fmt.Sprintf("the child process ended (%s: %s) and the sequence could not be performed again", ci.Cls, ci.Msg)
		}
		if again[j.ID].crash == nil {
			return nil, fmt.Sprintf("the child process ended (%s: %s) during sequence %d, which runs to its end when performed alone", ci.Cls, ci.Msg, j.ID)
		}
		ci, lines = again[j.ID].crash, again[j.ID].lines
	}
	mk := func(m tv.M) []byte { b, _ := json.Marshal(m); return b }
	switch j.Kind {
	case "seq":
		// keep the reset line and the completed calls; the call in flight becomes the crash event
		if len(lines) == 0 {
			return nil, "the child died before it wrote the reset line: " + ci.Msg
		}
		at := ci.At
		if at < 1 || at > len(j.Ops) {
			return nil, "the child died outside a call: " + ci.Msg
		}
		keep := lines
		if len(keep) > at {
			keep = keep[:at] // reset + at-1 op events
		}
		out := append([][]byte{}, keep...)
		out = append(out, mk(tv.M{"ev": "crash", "op": j.Ops[at-1], "cls": ci.Cls, "msg": ci.Msg}))
		return out, ""
	case "case":
		return [][]byte{mk(tv.M{"ev": "reset", "kind": "case", "id": j.Case, "fam": j.Fam, "fed": []string{j.Fam, j.X, j.Y}}),
			mk(tv.M{"ev": "call", "panic": ci.Cls + ": " + ci.Msg}), mk(tv.M{"ev": "end", "nops": 1})}, ""
	}
	return [][]byte{mk(tv.M{"ev": "reset", "kind": "facts", "group": j.Group, "n": 1}),
		mk(tv.M{"ev": "fact", "name": "context:default-is-not-nil", "got": false, "panic": ci.Cls + ": " + ci.Msg}), mk(tv.M{"ev": "end", "nops": 1})}, ""
}

// ---------------------------------------------------------------- sequences

type runInfo struct {
	Fam  string     `json:"fam"`
	Ops  [][]string `json:"ops"`
	Kind string     `json:"kind"` // enumerated | sampled
}

func renderOps(ops [][]string) string {
	parts := make([]string, len(ops))
	for i, op := range ops {
		parts[i] = strings.Join(op, ":")
	}
	return strings.Join(parts, ",")
}

func parseOps(s string) [][]string {
	if s == "" {
		return [][]string{}
	}
	var ops [][]string
	for _, o := range strings.Split(s, ",") {
		ops = append(ops, strings.Split(o, ":"))
	}
	return ops
}

// parseExport: lines "SEQ|<family>|<calls>" printed by LoggerModel!Export.
func parseExport(out string) []runInfo {
	var rs []runInfo
	for _, l := range strings.Split(out, "\n") {
		if !strings.HasPrefix(l, `"SEQ|`) {
			continue
		}
		f := strings.SplitN(strings.TrimSuffix(strings.TrimPrefix(strings.TrimRight(l, "\r "), `"`), `"`), "|", 3)
		if len(f) != 3 {
			continue
		}
		rs = append(rs, runInfo{Fam: f[1], Ops: parseOps(f[2]), Kind: "enumerated"})
	}
	return rs
}

func lessOps(a, b [][]string) bool {
	for i := 0; i < len(a) && i < len(b); i++ {
		if x, y := strings.Join(a[i], ":"), strings.Join(b[i], ":"); x != y {
			return x < y
		}
	}
	return len(a) < len(b)
}

func countOp(ops [][]string, name string) int {
	n := 0
	for _, op := range ops {
		if op[0] == name {
			n++
		}
	}
	return n
}

func sameOp(a, b []string) bool {
	if len(a) != len(b) {
		return false
	}
	for i := range a {
		if a[i] != b[i] {
			return false
		}
	}
	return true
}

// prefixCount: the number of distinct non-empty prefixes of the (sorted) sequences.
func prefixCount(rs []runInfo) int64 {
	var n int64
	for i, r := range rs {
		lcp := 0
		if i > 0 {
			p := rs[i-1].Ops
			for lcp < len(p) && lcp < len(r.Ops) && sameOp(p[lcp], r.Ops[lcp]) {
				lcp++
			}
		}
		n += int64(len(r.Ops) - lcp)
	}
	return n
}

// goCall: the Go statement of one call (for reproducers).
func goCall(op []string, nd *int) string {
	q := strconv.Quote
	lv := func(s string) string {
		if s == "undefined" {
			return "logger.UndefinedLevel"
		}
		return "logger." + strings.ToUpper(s[:1]) + s[1:] + "Level"
	}
	switch op[0] {
	case "New":
		return fmt.Sprintf("%s := logger.NewLogger(%s); %s.SetOutput(&buf%s)", op[1], q("x13-"+op[1]), op[1], strings.ToUpper(op[1]))
	case "Apply":
		s := "o := logger.DefaultOptions(); "
		if validLevelText(op[1]) {
			s += fmt.Sprintf("_ = o.SetOutputLevel(%s); ", q(op[1]))
		} else {
			s += fmt.Sprintf("o.OutputLevel = %s; ", q(op[1]))
		}
		s += fmt.Sprintf("o.JSONFormatEnabled = %v; ", op[2] == "json")
		if op[3] != "" {
			s += fmt.Sprintf("o.SetAppID(%s); ", q(op[3]))
		}
		return s + "err := logger.ApplyOptionsToLoggers(&o)"
	case "SetLevel":
		return fmt.Sprintf("%s.SetOutputLevel(%s)", op[1], lv(op[2]))
	case "Enabled":
		return fmt.Sprintf("%s.IsOutputLevelEnabled(%s)", op[1], lv(op[2]))
	case "Log":
		return fmt.Sprintf("%s.%s(\"token\") // then read the buffers", op[1], strings.ToUpper(op[2][:1])+op[2][1:])
	case "EnableJSON":
		return fmt.Sprintf("%s.EnableJSONOutput(%v)", op[1], op[2] == "json")
	case "SetAppID":
		return fmt.Sprintf("%s.SetAppID(%s)", op[1], q(op[2]))
	case "WithFields":
		*nd++
		m := `map[string]any{"k1": "v1"}`
		if op[2] == "F2" {
			m = `map[string]any{"k2": "v2", "n": 42}`
		}
		return fmt.Sprintf("d%d := %s.WithFields(%s)", *nd, op[1], m)
	case "WithType":
		*nd++
		return fmt.Sprintf("d%d := %s.WithLogType(%s)", *nd, op[1], q(op[2]))
	}
	return strings.Join(op, " ")
}

func reproducer(ops [][]string) string {
	var sb strings.Builder
	nd := 0
	for _, op := range ops {
		sb.WriteString(goCall(op, &nd) + "\n")
	}
	return sb.String()
}

// randomOps: a well-formed call sequence of the family "sampled" (LoggerContract!Fam, OTHER arm).
func randomOps(rng *rand.Rand, n int) [][]string {
	pick := func(xs ...string) string { return xs[rng.Intn(len(xs))] }
	var ops [][]string
	var live []string
	nd := 0
	lvAll := []string{"debug", "info", "warn", "error", "fatal"}
	for len(ops) < n {
		if len(live) == 0 {
			if rng.Intn(4) > 0 {
				nm := pick("a", "b")
				ops, live = append(ops, []string{"New", nm}), append(live, nm)
				continue
			}
		}
		switch r := rng.Intn(100); {
		case r < 8:
			nm := pick("a", "b")
			ops = append(ops, []string{"New", nm})
			found := false
			for _, h := range live {
				found = found || h == nm
			}
			if !found {
				live = append(live, nm)
			}
		case r < 20:
			if rng.Intn(5) == 0 {
				ops = append(ops, []string{"Apply", pick("fatal", "FATAL", "trace", " info"), pick("json", "text"), pick("", "app1")})
			} else {
				ops = append(ops, []string{"Apply", pick("debug", "info", "warn", "error", "WARN", "Info", "verbose", ""), pick("json", "text"), pick("", "app1", "app2")})
			}
		case len(live) == 0:
		case r < 30:
			l := pick(lvAll...)
			if rng.Intn(12) == 0 {
				l = "undefined"
			}
			ops = append(ops, []string{"SetLevel", pick(live...), l})
		case r < 40:
			l := pick(lvAll...)
			if rng.Intn(12) == 0 {
				l = "undefined"
			}
			ops = append(ops, []string{"Enabled", pick(live...), l})
		case r < 68:
			ops = append(ops, []string{"Log", pick(live...), pick("debug", "info", "warn", "error")})
		case r < 78:
			ops = append(ops, []string{"EnableJSON", pick(live...), pick("json", "text")})
		case r < 88:
			ops = append(ops, []string{"SetAppID", pick(live...), pick("app1", "app2")})
		default:
			if nd >= 2 {
				continue
			}
			nd++
			if rng.Intn(2) == 0 {
				ops = append(ops, []string{"WithFields", pick(live...), pick("F1", "F2")})
			} else {
				ops = append(ops, []string{"WithType", pick(live...), pick("request", "request", "log")})
			}
			live = append(live, "d"+strconv.Itoa(nd))
		}
	}
	return ops
}

// ---------------------------------------------------------------- explanations

func explain(key string) string {
	switch {
	case strings.HasPrefix(key, "appid-lost-after-EnableJSONOutput"):
		return "after EnableJSONOutput the lines of the logger no longer carry the app_id set before (EnableJSONOutput rebuilds the entry data with scope/type/instance/ver only). " +
			"Contradicts: 'EnableJSONOutput enables JSON formatted output log' (a format switch) and 'SetAppID sets app_id field in the log'"
	case strings.HasPrefix(key, "appid-lost-after-ApplyOptions-without-appid"):
		return "ApplyOptionsToLoggers with Options that carry no app id removes the app_id set before from every registered logger (it calls EnableJSONOutput, which rebuilds the entry data). " +
			"Contradicts: 'SetAppID sets app_id field in the log' and the guard `if options.appID != undefinedAppID` (an Options without app id is meant to leave it alone)"
	case strings.HasPrefix(key, "appid-"):
		return "'SetAppID sets app_id field in the log' / ApplyOptionsToLoggers 'applys options to all registered loggers': the lines of a logger carry the app_id last set for it, none if none was set"
	case strings.HasPrefix(key, "fields-lost-after-EnableJSONOutput"):
		return "after EnableJSONOutput on a logger made with WithFields its lines no longer carry the fields. Contradicts: WithFields 'returns a logger with the added structured fields'; 'EnableJSONOutput enables JSON formatted output log' (a format switch)"
	case strings.HasPrefix(key, "type-reset-after-EnableJSONOutput"):
		return "after EnableJSONOutput on a logger made with WithLogType(\"request\") its lines have type \"log\" again. Contradicts: 'WithLogType specifies the log_type field in log'; 'EnableJSONOutput enables JSON formatted output log' (a format switch)"
	case strings.HasPrefix(key, "fields"):
		return "WithFields 'returns a logger with the added structured fields'; the logger it was called on is unchanged (TestWithFields)"
	case strings.HasPrefix(key, "type-"), key == "line:type-field":
		return "'WithLogType specifies the log_type field in log. Default value is LogTypeLog'; the logger it was called on keeps its type (TestWithTypeFields)"
	case strings.HasPrefix(key, "level:"):
		return "'SetOutputLevel sets the log output level', 'IsOutputLevelEnabled returns true if the logger will output this LogLevel' (TestOutputLevel: debug < info < warn < error < fatal; info is the default), ApplyOptionsToLoggers applies the level to all registered loggers and leaves it alone when it fails"
	case strings.HasPrefix(key, "format:"):
		return "'EnableJSONOutput enables JSON formatted output log' / Options.JSONFormatEnabled 'is the flag to enable JSON formatted log'; text is the default"
	case strings.HasPrefix(key, "registry:"):
		return "NewLogger returns the registered instance for a known name ('return the existing logger instance'), a new one otherwise"
	case strings.HasPrefix(key, "apply:"), strings.HasPrefix(key, "options:"):
		return "Options.SetOutputLevel / ApplyOptionsToLoggers accept exactly debug, info, warn, error, fatal in any letter case ('Options are debug, info, warn, error, or fatal') and fail for everything else without changing the level"
	case strings.HasPrefix(key, "line:"), strings.HasPrefix(key, "output:"):
		return "one log call writes exactly one line to the output of its logger, carrying the Dapr log schema (time, level, type, scope, instance, ver, msg; logger.go 'Field names that defines Dapr log schema')"
	case strings.HasPrefix(key, "context:"):
		return "FromContextOrDefault 'returns a Logger from ctx. If no Logger is found, this returns a Logger that discards all log messages' (TestNewContext)"
	case strings.HasPrefix(key, "fatal:"):
		return "'Fatal logs a message at level Fatal then the process will exit with status set to 1'"
	case strings.HasPrefix(key, "panic:"), strings.HasPrefix(key, "crash:"), strings.HasPrefix(key, "hang:"):
		return "no call of the package may panic, kill or stall the process"
	case strings.HasPrefix(key, "derive:"):
		return "WithFields / WithLogType return a usable logger"
	}
	return "the recorded run breaks the contract"
}

// ---------------------------------------------------------------- the check

type mcRun struct {
	cfg     string
	workers int
	res     tlc.Result
}

func tlcOpts(workers int, timeout time.Duration) tlc.Opts {
	return tlc.Opts{Dir: specDir, Module: "TraceLogger", Config: "TraceLogger.cfg", Workers: workers, Timeout: timeout, HeapMB: 6144}
}

func TestCheck(t *testing.T) {
	e := ev.New("X13", "model_checking")
	defer func() {
		if e.Write() > 0 {
			t.Fail()
		}
	}()
	rng := rand.New(rand.NewSource(ev.Seed()))
	if rp := os.Getenv("VERIF_REPLAY"); rp != "" {
		replay(e, rp)
		return
	}
	e.Assume("the arguments of the calls are fixed by the harness: two logger names per sequence (made unique per sequence by a prefix, the registry cannot be reset), app ids app1/app2, field sets {k1:v1} and {k2:v2,n:42}, log type request; the messages are unique tokens",
		"the harness sets the output of every logger it obtains (NewLogger, WithFields, WithLogType) to the buffer of its root, so where a line goes never depends on what derived loggers share",
		"where the documentation is silent the monitor accepts every behaviour: whether a later SetOutputLevel / EnableJSONOutput / SetAppID / ApplyOptionsToLoggers through one handle reaches the other handles of its family; format and app_id after an ApplyOptionsToLoggers that returned an error; the level after SetOutputLevel(\"undefined\")",
		"Fatal / Fatalf are only called in two dedicated child processes; sequences run one after the other inside a child (ApplyOptionsToLoggers is process-global)")

	// ---- 1. model checking: enumeration of the call sequences, defect variants, table model (all TLC runs in parallel)
	noTE := []string{"-noGenerateSpecTE"}
	enum := []*mcRun{{cfg: ev.Pick("MC_small.cfg", "MC_big.cfg"), workers: 6}, {cfg: ev.Pick("MC_small_all.cfg", "MC_big_all.cfg"), workers: 6}}
	defects := []string{"as_found", "enablejson_drops_appid", "enablejson_drops_fields", "enablejson_resets_type", "apply_drops_appid", "new_fresh_every_time",
		"apply_skips_first", "level_off_by_one", "enabled_off_by_one", "failed_apply_changes_level", "apply_no_error", "withfields_mutates_parent",
		"withtype_mutates_parent", "setappid_ignored", "derived_default_level"}
	alts := []string{"snapshot", "validate_first"}
	tdefects := []string{"case_sensitive", "accepts_any_level", "failed_set_stores", "failed_apply_sets_level", "new_always_fresh", "new_one_for_all", "fact_false"}
	defRes := make([]tlc.Result, len(defects))
	altRes := make([]tlc.Result, len(alts))
	tdefRes := make([]tlc.Result, len(tdefects))
	var tables tlc.Result
	var wg sync.WaitGroup
	sem := make(chan struct{}, 6) // the small runs
	for _, m := range enum {
		wg.Add(1)
		go func() {
			defer wg.Done()
			m.res = tlc.Run(tlc.Opts{Dir: specDir, Module: "LoggerModel", Config: m.cfg, Workers: m.workers, Timeout: ev.Pick(5*time.Minute, 30*time.Minute), Args: noTE, HeapMB: 6144})
		}()
	}
	small := func(res *tlc.Result, module, cfg string, keep []string) {
		wg.Add(1)
		go func() {
			defer wg.Done()
			sem <- struct{}{}
			defer func() { <-sem }()
			*res = tlc.Run(tlc.Opts{Dir: specDir, Module: module, Config: cfg, Workers: 1, Timeout: 5 * time.Minute, Args: noTE, HeapMB: 1024, Keep: keep})
		}()
	}
	small(&tables, "LoggerTables", "MC_tables.cfg", []string{"cases.ndjson"})
	for i, d := range defects {
		small(&defRes[i], "LoggerModel", "MC_defect_"+d+".cfg", nil)
	}
	for i, d := range alts {
		small(&altRes[i], "LoggerModel", "MC_alt_"+d+".cfg", nil)
	}
	for i, d := range tdefects {
		small(&tdefRes[i], "LoggerTables", "MC_tables_defect_"+d+".cfg", nil)
	}
	wg.Wait()
	var states, trans int64
	var cmds []string
	var infos []runInfo
	famSizes := tv.M{}
	for _, m := range enum {
		rs := parseExport(m.res.Output)
		sort.Slice(rs, func(i, j int) bool { return lessOps(rs[i].Ops, rs[j].Ops) })
		fmt.Printf("MC %s: ok=%v generated=%d distinct=%d depth=%d maximal sequences=%d wall=%s %s\n", m.cfg, m.res.OK, m.res.Generated, m.res.Distinct, m.res.Depth, len(rs), m.res.Wall.Round(time.Millisecond), m.res.What)
		states += m.res.Distinct
		trans += m.res.Generated
		cmds = append(cmds, m.res.Cmd)
		if !m.res.OK {
			e.Inconclusive("model check " + m.cfg + " did not pass: " + m.res.What + "\n" + m.res.Tail(3000))
			return
		}
		if pc := prefixCount(rs); pc+1 != m.res.Distinct || len(rs) == 0 {
			e.Inconclusive(fmt.Sprintf("%s: the %d exported maximal sequences have %d prefixes, TLC found %d sequences", m.cfg, len(rs), pc+1, m.res.Distinct))
			return
		}
		famSizes[rs[0].Fam] = tv.M{"sequences": m.res.Distinct, "maximal": len(rs)}
		infos = append(infos, rs...)
	}
	fmt.Printf("MC LoggerTables: ok=%v distinct=%d wall=%s %s\n", tables.OK, tables.Distinct, tables.Wall.Round(time.Millisecond), tables.What)
	if !tables.OK {
		e.Inconclusive("model check of LoggerTables did not pass: " + tables.What + "\n" + tables.Tail(2000))
		return
	}
	states += tables.Distinct
	trans += tables.Generated
	e.Set("states", states)
	e.Set("transitions", trans)
	e.Set("checker_cmd", strings.Join(cmds, " ; "))
	e.Set("sequences_enumerated_by_tlc", famSizes)
	defSummary := tv.M{}
	check := func(name string, r tlc.Result, wantReject bool) {
		ok := r.OK
		if wantReject {
			ok = r.Violation && strings.Contains(r.What, "NotBad")
		}
		defSummary[name] = ok
		if !ok {
			if wantReject {
				e.Inconclusive("the defect variant " + name + " of the model was not rejected by the contract: " + r.What)
			} else {
				e.Inconclusive("the alternative conforming variant " + name + " of the model was not accepted by the contract: " + r.What)
			}
		}
	}
	for i, d := range defects {
		check(d, defRes[i], true)
	}
	for i, d := range tdefects {
		check("tables_"+d, tdefRes[i], true)
	}
	e.Set("defect_models_rejected", defSummary)
	altSummary := tv.M{}
	for i, d := range alts {
		check("alt_"+d, altRes[i], false)
		altSummary[d] = altRes[i].OK
		delete(defSummary, "alt_"+d)
	}
	e.Set("alternative_models_accepted", altSummary)
	var cases []Job
	for _, l := range bytes.Split(tables.Kept["cases.ndjson"], []byte("\n")) {
		if len(bytes.TrimSpace(l)) == 0 {
			continue
		}
		var c struct {
			ID   int
			Fam  string
			X, Y string
		}
		if err := json.Unmarshal(l, &c); err != nil {
			e.Inconclusive("cannot read the case table written by TLC: " + err.Error())
			return
		}
		cases = append(cases, Job{Kind: "case", Fam: c.Fam, Case: c.ID, X: c.X, Y: c.Y})
	}
	if len(cases) == 0 {
		e.Inconclusive("TLC wrote no case table")
		return
	}
	e.Set("table_cases_enumerated_by_tlc", int64(len(cases)))

	// ---- 2. the runs: enumerated maximal sequences + seeded samples, then tables / facts
	nEnum := len(infos)
	nSampled := ev.Pick(1500, 20000)
	for i := 0; i < nSampled; i++ {
		infos = append(infos, runInfo{Fam: "sampled", Ops: randomOps(rng, 6+rng.Intn(ev.Pick(6, 9))), Kind: "sampled"})
	}
	jobs := make([]Job, len(infos))
	for i, in := range infos {
		jobs[i] = Job{ID: i + 1, Kind: "seq", Fam: in.Fam, Ops: in.Ops}
	}
	t0 := time.Now()

	// chunk = consecutive runs judged by one TLC run; inside a chunk groups of seqsPerChild runs per child process
	type found struct {
		r     tv.Reject // Trace: index into infos
		lines []string
	}
	var (
		mu           sync.Mutex
		events       int
		best         = map[string]found{}
		perKey       = map[string]int64{}
		nRej         int
		agg          = tlc.Result{OK: true}
		harnessNotes []string
		samples      = map[int][]string{}
		written      int64
	)
	sampleIdx := map[int]bool{0: true, nEnum / 3: true, (2 * nEnum) / 3: true, nEnum - 1: true, nEnum: true, len(infos) - 1: true}
	less := func(a, b tv.Reject) bool {
		x, y := infos[a.Trace], infos[b.Trace]
		if a.At != b.At {
			return a.At < b.At
		}
		if len(x.Ops) != len(y.Ops) {
			return len(x.Ops) < len(y.Ops)
		}
		if ax, ay := countOp(x.Ops, "Apply"), countOp(y.Ops, "Apply"); ax != ay {
			return ax < ay // the reproducer with fewer process-global calls
		}
		return renderOps(x.Ops) < renderOps(y.Ops)
	}
	chunkRuns := ev.Pick(6000, 40000)
	childPar := ev.Pick(10, 10)
	tlcSem := make(chan struct{}, ev.Pick(3, 2))
	childSem := make(chan struct{}, childPar)
	var vwg sync.WaitGroup
	for from := 0; from < len(jobs); from += chunkRuns {
		to := from + chunkRuns
		if to > len(jobs) {
			to = len(jobs)
		}
		n := to - from
		traces := make([][][]byte, n)
		notes := make([]string, n)
		var cwg sync.WaitGroup
		var gerr error
		for g := from; g < to; g += seqsPerChild {
			gto := g + seqsPerChild
			if gto > to {
				gto = to
			}
			cwg.Add(1)
			childSem <- struct{}{}
			go func(g, gto int) {
				defer cwg.Done()
				defer func() { <-childSem }()
				res, err := runJobs(jobs[g:gto], 30*time.Second, nil)
				if err != nil {
					mu.Lock()
					gerr = err
					mu.Unlock()
					return
				}
				for i := g; i < gto; i++ {
					traces[i-from], notes[i-from] = traceOf(jobs[i], res[jobs[i].ID])
				}
			}(g, gto)
		}
		cwg.Wait()
		if gerr != nil {
			e.Inconclusive("child process: " + gerr.Error())
			return
		}
		b := &tv.Batch{}
		idx := make([]int, 0, n) // batch trace -> index into infos
		for i := 0; i < n; i++ {
			if traces[i] == nil {
				harnessNotes = append(harnessNotes, notes[i])
				continue
			}
			b.AppendTrace(traces[i])
			idx = append(idx, from+i)
			wrote := false
			for _, l := range traces[i] {
				if bytes.Contains(l, []byte(`"nlines":1`)) {
					wrote = true
				}
			}
			if wrote {
				written++
				e.Nontrivial(infos[from+i].Fam + "|" + renderOps(infos[from+i].Ops))
			}
			if sampleIdx[from+i] {
				samples[from+i] = b.TraceStrings(b.Len() - 1)
			}
		}
		traces = nil
		vwg.Add(1)
		tlcSem <- struct{}{}
		go func() {
			defer vwg.Done()
			defer func() { <-tlcSem }()
			rej, res := tv.Validate(tlcOpts(ev.Pick(5, 8), ev.Pick(6*time.Minute, 30*time.Minute)), b)
			mu.Lock()
			defer mu.Unlock()
			events += b.Lines()
			agg.Distinct += res.Distinct
			agg.Generated += res.Generated
			if res.Wall > agg.Wall {
				agg.Wall = res.Wall
			}
			if !res.OK && !res.Violation {
				agg.OK, agg.What, agg.Output, agg.TimedOut = false, res.What, res.Output, res.TimedOut
			}
			if res.Violation && len(rej) == 0 {
				agg.OK, agg.Violation, agg.What, agg.Output = false, true, res.What, res.Output
			}
			for _, r := range rej {
				local := r.Trace
				r.Trace = idx[local]
				nRej++
				perKey[r.Why]++
				if cur, ok := best[r.Why]; !ok || less(r, cur.r) {
					best[r.Why] = found{r, b.TraceStrings(local)}
				}
			}
		}()
	}

	// ---- 3. tables, facts, fatal children, binding self-test (concurrently with the last chunks)
	tb := &tv.Batch{}
	var tjobs []Job
	var tnote string
	var selfTest string
	vwg.Add(2)
	go func() {
		defer vwg.Done()
		tjobs, tnote = runTables(tb, cases)
	}()
	go func() { defer vwg.Done(); selfTest = bindingSelfTest(e) }()
	vwg.Wait()
	var trej []tv.Reject
	var tres tlc.Result
	if tnote == "" {
		trej, tres = tv.Validate(tlcOpts(2, 5*time.Minute), tb)
	}
	fmt.Printf("performed %d maximal enumerated sequences and %d sampled sequences on the real package (%d with at least one written line), %d events, in %s\n",
		nEnum, nSampled, written, events, time.Since(t0).Round(time.Millisecond))
	fmt.Printf("TLC trace validation (sequences): ok=%v rejects=%d distinct=%d longest-chunk-wall=%s %s\n", agg.OK, nRej, agg.Distinct, agg.Wall.Round(time.Millisecond), agg.What)
	fmt.Printf("TLC trace validation (tables, facts): ok=%v violation=%v traces=%d rejects=%d wall=%s %s\n", tres.OK, tres.Violation, tb.Len(), len(trej), tres.Wall.Round(time.Millisecond), tres.What)
	e.Set("evaluations", int64(len(infos)+tb.Len()))
	e.Set("rule", "call sequences over NewLogger(a|b), ApplyOptionsToLoggers(level text x format x app id), SetOutputLevel, IsOutputLevelEnabled, Debug..Error[f], EnableJSONOutput, SetAppID, WithFields, WithLogType on the "+
		"two roots and up to two derived loggers (LoggerContract!Fam). EXHAUSTIVE (every sequence enumerated by TLC as a behaviour of LoggerModel, every maximal one replayed, every prefix judged): "+
		ev.Pick("family all4 = whole alphabet (7 Apply variants, SetLevel debug/warn/error/fatal, Enabled debug/info/fatal, Log debug..error, both formats, app1/app2, WithFields F1, WithLogType request, 2 derived) up to length 4; "+
			"family core5 = one root, one derived logger, reduced values (3 Apply variants, SetLevel debug/error, Enabled warn, Log info/error, both formats, app1), up to length 5",
			"family all5 = whole alphabet (7 Apply variants, SetLevel debug/warn/error/fatal, Enabled debug/warn/fatal, Log debug..error, both formats, app1/app2, WithFields F1/F2, WithLogType request, 2 derived) up to length 5; "+
				"family core6 = one root, two derived loggers, reduced values (3 Apply variants, SetLevel debug/error, Log info/error, both formats, app1; no IsOutputLevelEnabled), up to length 6")+
		"; pruning: logger b only after a (the names are interchangeable), the last call of a maximal sequence is an observation, consecutive observations in rising order (they commute). "+
		"SAMPLED (seeded, drawn by the harness, judged by the same monitor, binding = well-formedness): sequences of length 6.."+ev.Pick("11", "14")+" over the whole alphabet incl. fatal/undefined levels and 40 Apply variants. "+
		"TABLES (enumerated by TLC, LoggerContract!CaseSeq): Options.SetOutputLevel and ApplyOptionsToLoggers over 28 level texts, NewLogger identity over 8x8 names; FACTS: context helpers / discarding logger, DefaultOptions / AttachCmdFlags, two child processes logging at level fatal. "+
		"non-trivial = a sequence in which at least one line was written; distinct by (family, sequence)")
	for _, i := range []int{0, nEnum / 3, (2 * nEnum) / 3, nEnum - 1, nEnum, len(infos) - 1} {
		if s, ok := samples[i]; ok {
			e.Sample(tv.M{"run": infos[i], "trace": s})
		}
	}
	if tb.Len() > 0 {
		e.Sample(tv.M{"table": tjobs[0], "trace": tb.TraceStrings(0)})
		e.Sample(tv.M{"facts": tjobs[len(tjobs)-1].Group, "trace": tb.TraceStrings(tb.Len() - 1)})
	}
	e.Set("maximal_sequences_run", int64(nEnum))
	e.Set("sampled_sequences_run", int64(nSampled))
	e.Set("events_recorded", int64(events+tb.Lines()))

	// ---- 4. verdict
	if selfTest != "" {
		e.Inconclusive("binding self-test failed: " + selfTest)
	}
	for i, n := range harnessNotes {
		if i < 3 {
			e.Inconclusive("a run could not be recorded: " + n)
		}
	}
	bad := false
	if tnote != "" {
		e.Inconclusive("tables / facts: " + tnote)
		bad = true
	}
	if !agg.OK {
		e.Inconclusive("trace validation (sequences) did not run or could not be parsed: " + agg.What + "\n" + agg.Tail(2000))
		bad = true
	}
	if tnote == "" && !tres.OK && !tres.Violation {
		e.Inconclusive("trace validation (tables, facts) did not run: " + tres.What + "\n" + tres.Tail(2000))
		bad = true
	}
	if tres.Violation && len(trej) == 0 {
		e.Inconclusive("TLC reported a violation that could not be parsed:\n" + tres.Tail(1500))
		bad = true
	}
	if bad {
		return
	}
	e.Set("traces_validated_against_impl", int64(len(infos)-len(harnessNotes)+tb.Len()))
	var keys []string
	for k := range best {
		keys = append(keys, k)
	}
	sort.Slice(keys, func(i, j int) bool { return less(best[keys[i]].r, best[keys[j]].r) })
	for _, k := range keys {
		f := best[k]
		in := infos[f.r.Trace]
		if strings.HasPrefix(k, "harness:") {
			e.Inconclusive("the harness recorded an impossible trace: " + k + " " + strings.Join(f.lines, " "))
			continue
		}
		ops := in.Ops
		if f.r.At >= 1 && f.r.At <= len(ops) {
			ops = ops[:f.r.At]
		}
		e.Violation(k, explain(k)+". Minimal sequence found: "+renderOps(ops),
			tv.M{"run": runInfo{Fam: "sampled", Ops: ops, Kind: in.Kind}, "reproducer": reproducer(ops), "trace": f.lines, "at": f.r.At})
	}
	sort.SliceStable(trej, func(i, j int) bool { return trej[i].Trace < trej[j].Trace })
	for _, r := range trej {
		j := tjobs[r.Trace]
		perKey[r.Why]++
		if strings.HasPrefix(r.Why, "harness:") {
			e.Inconclusive("the harness recorded an impossible trace: " + r.Why + " " + strings.Join(tb.TraceStrings(r.Trace), " "))
			continue
		}
		e.Violation(r.Why, explain(r.Why)+fmt.Sprintf(" (%s %s %q %q)", j.Kind, j.Fam+j.Group, j.X, j.Y), tv.M{"job": j, "trace": tb.TraceStrings(r.Trace), "at": r.At})
	}
	e.Set("rejected_runs_per_key", perKey)
}

// ---------------------------------------------------------------- tables, facts, fatal children

// runFatal starts a child that logs at level fatal and reports what the parent saw.
func runFatal(variant string) []fact {
	rd, wr, err := os.Pipe()
	if err != nil {
		return []fact{{Name: "fatal:child-exits-with-status-1", Panic: "harness: " + err.Error()}}
	}
	cmd := exec.Command(os.Args[0], "-test.run=^$")
	cmd.Env = append(os.Environ(), fatalEnv+"="+variant)
	cmd.ExtraFiles = []*os.File{wr}
	var stderr bytes.Buffer
	cmd.Stdout, cmd.Stderr = &stderr, &stderr
	if err := cmd.Start(); err != nil {
		rd.Close()
		wr.Close()
		return []fact{{Name: "fatal:child-exits-with-status-1", Panic: "harness: " + err.Error()}}
	}
	wr.Close()
	outc := make(chan []byte, 1)
	go func() {
		var buf bytes.Buffer
		_, _ = buf.ReadFrom(rd)
		outc <- buf.Bytes()
	}()
	done := make(chan error, 1)
	go func() { done <- cmd.Wait() }()
	code, hung := -1, false
	select {
	case <-done:
		code = cmd.ProcessState.ExitCode()
	case <-time.After(30 * time.Second):
		hung = true
		_ = cmd.Process.Kill()
		<-done
	}
	out := <-outc
	rd.Close()
	lines := strings.Split(strings.TrimSpace(string(out)), "\n")
	first := ""
	if len(lines) > 0 {
		first = lines[0]
	}
	ln := parseLine(first)
	tok := "fatal-token-" + variant
	fs := []fact{
		{Name: "fatal:child-exits-with-status-1", Got: !hung && code == 1},
		{Name: "fatal:line-written-before-exit", Got: first != "" && first != "AFTER"},
		{Name: "fatal:line-has-level-fatal-and-the-message", Got: ln["level"] == "fatal" && ln["msg"] == tok},
		{Name: "fatal:nothing-runs-after-fatal", Got: !strings.Contains(string(out), "AFTER")},
	}
	if hung {
		fs[0].Panic = "hang: the child did not exit within 30s"
	}
	return fs
}

// runTables performs the table cases and the fact groups in one child (plus the two fatal children) and records them.
func runTables(tb *tv.Batch, cases []Job) ([]Job, string) {
	jobs := append([]Job{}, cases...)
	for i := range jobs {
		jobs[i].ID = 1_000_000 + i
	}
	jobs = append(jobs, Job{ID: 2_000_001, Kind: "facts", Group: "context"}, Job{ID: 2_000_002, Kind: "facts", Group: "options"})
	res, err := runJobs(jobs, 30*time.Second, nil)
	if err != nil {
		return nil, "child process: " + err.Error()
	}
	var done []Job
	for _, j := range jobs {
		lines, note := traceOf(j, res[j.ID])
		if lines == nil {
			return nil, note
		}
		tb.AppendTrace(lines)
		done = append(done, j)
	}
	for _, v := range []string{"plain", "f"} {
		em := &emitter{}
		var buf bytes.Buffer
		em.w = bufio.NewWriter(&buf)
		emitFacts(em, "fatal-"+v, runFatal(v))
		em.w.Flush()
		var lines [][]byte
		for _, l := range bytes.Split(buf.Bytes(), []byte("\n")) {
			if len(l) > 2 {
				lines = append(lines, append([]byte{}, l[2:]...))
			}
		}
		tb.AppendTrace(lines)
		done = append(done, Job{Kind: "facts", Group: "fatal-" + v})
	}
	return done, ""
}

// ---------------------------------------------------------------- binding self-test

var selfTestOps = [][]string{{"New", "a"}, {"SetLevel", "a", "warn"}, {"WithFields", "a", "F1"}, {"Log", "d1", "warn"}, {"Enabled", "a", "info"},
	{"Apply", "debug", "json", "app1"}, {"Log", "a", "debug"}, {"New", "a"}}

// bindingSelfTest: the unmodified record of a real run is accepted, rewritten ones are rejected with the expected reason;
// a hanging and a crashing child are attributed to the job (and the call) in flight.
func bindingSelfTest(e *ev.Evidence) string {
	base := Job{ID: 3_000_001, Kind: "seq", Fam: "sampled", Ops: selfTestOps}
	other := Job{ID: 3_000_002, Kind: "seq", Fam: "sampled", Ops: [][]string{{"New", "b"}, {"Log", "b", "error"}}}
	res, err := runJobs([]Job{base, other}, 30*time.Second, nil)
	if err != nil || res[base.ID] == nil || res[base.ID].crash != nil || len(res[base.ID].lines) != len(selfTestOps)+2 {
		return fmt.Sprintf("the base run could not be recorded: %v", err)
	}
	raw := res[base.ID].lines
	clone := func() [][]byte { return append([][]byte{}, raw...) }
	edit := func(line []byte, f func(m map[string]any)) []byte {
		var m map[string]any
		_ = json.Unmarshal(line, &m)
		f(m)
		j, _ := json.Marshal(m)
		return j
	}
	b := &tv.Batch{}
	b.AppendTrace(raw) // 0
	t1 := clone()      // 1: the level field of the first written line rewritten
	t1[4] = edit(t1[4], func(m map[string]any) { m["line"].(map[string]any)["level"] = "info" })
	b.AppendTrace(t1)
	t2 := clone() // 2: IsOutputLevelEnabled answer flipped
	t2[5] = edit(t2[5], func(m map[string]any) { m["on"] = !m["on"].(bool) })
	b.AppendTrace(t2)
	b.AppendTrace(append(append([][]byte{}, raw[:8]...), raw[9])) // 3: last call removed, end kept
	t4 := clone()                                                 // 4: a call recorded that was not fed
	t4[2] = edit(t4[2], func(m map[string]any) { m["op"] = []string{"SetLevel", "a", "error"} })
	b.AppendTrace(t4)
	t5 := clone() // 5: the field of the derived logger dropped from its line
	t5[4] = edit(t5[4], func(m map[string]any) { m["line"].(map[string]any)["fields"] = []any{} })
	b.AppendTrace(t5)
	t6 := clone() // 6: the app id dropped from the line after Apply
	t6[7] = edit(t6[7], func(m map[string]any) { m["line"].(map[string]any)["app"] = "<absent>" })
	b.AppendTrace(t6)
	b.AppendTrace(raw[:9]) // 7: end removed
	t8 := clone()          // 8: declared a member of an enumerated family it does not belong to
	t8[0] = edit(t8[0], func(m map[string]any) { m["fam"] = "all4" })
	b.AppendTrace(t8)
	t9 := clone() // 9: a suppressed message reported as written to the other logger's buffer
	t9[7] = edit(t9[7], func(m map[string]any) { m["where"] = []string{"b"} })
	b.AppendTrace(t9)
	t10 := clone() // 10: second NewLogger("a") reported as a new object
	t10[8] = edit(t10[8], func(m map[string]any) { m["ident"] = "" })
	b.AppendTrace(t10)
	rej, tres := tv.Validate(tlcOpts(2, 3*time.Minute), b)
	got := map[int]string{}
	for _, r := range rej {
		got[r.Trace] = r.Why
	}
	// watchdog
	hres, herr := runJobs([]Job{base, other}, 4*time.Second, []string{"VERIF_X13_SELFTEST_HANG=" + strconv.Itoa(other.ID)})
	cres, cerr := runJobs([]Job{other, base}, 30*time.Second, []string{"VERIF_X13_SELFTEST_CRASH=" + strconv.Itoa(other.ID)})
	hangOK := herr == nil && hres[other.ID] != nil && hres[other.ID].crash != nil && hres[other.ID].crash.Cls == "hang" && hres[base.ID] != nil && hres[base.ID].crash == nil
	crashOK := cerr == nil && cres[other.ID] != nil && cres[other.ID].crash != nil && cres[other.ID].crash.Cls == "crash" && cres[base.ID] != nil && cres[base.ID].crash == nil &&
		len(cres[base.ID].lines) == len(raw)
	// a child that dies inside a call: the sequence is performed again alone, the call in flight becomes a crash event,
	// which TLC judges as a finding naming the call
	crashJob := Job{ID: 3_000_003, Kind: "seq", Fam: "sampled", Ops: selfTestOps}
	dres, derr := runJobs([]Job{crashJob, other}, 30*time.Second, []string{"VERIF_X13_SELFTEST_CRASHOP=3000003:3"})
	crashJudged := false
	if derr == nil && dres[crashJob.ID] != nil && dres[crashJob.ID].crash != nil && dres[other.ID] != nil && dres[other.ID].crash == nil {
		pres, perr := runJobs([]Job{crashJob}, 15*time.Second, []string{"VERIF_X13_PROGRESS=1", "VERIF_X13_SELFTEST_CRASHOP=3000003:3"})
		if perr == nil && pres[crashJob.ID] != nil && pres[crashJob.ID].crash != nil {
			if lines, _ := traceOf(crashJob, pres[crashJob.ID]); lines != nil {
				cb := &tv.Batch{}
				cb.AppendTrace(lines)
				crej, _ := tv.Validate(tlcOpts(1, 3*time.Minute), cb)
				crashJudged = len(crej) == 1 && crej[0].Why == "crash:WithFields" && crej[0].At == 3
			}
		}
	}
	_, acc := got[0]
	if acc && (tres.OK || tres.Violation) {
		e.Set("binding_selftest", tv.M{"skipped": "the base run on the real package is rejected: " + got[0]})
		e.Violation(got[0], explain(got[0])+". Sequence: "+renderOps(selfTestOps), tv.M{"run": runInfo{Fam: "sampled", Ops: selfTestOps, Kind: "selftest-base"}, "reproducer": reproducer(selfTestOps), "trace": b.TraceStrings(0)})
		return ""
	}
	e.Set("binding_selftest", tv.M{"unmodified_accepted": !acc, "level_field_rewritten": got[1], "enabled_answer_flipped": got[2], "truncated": got[3], "foreign_call": got[4],
		"field_dropped": got[5], "appid_dropped": got[6], "end_removed": got[7], "not_a_member_of_the_family": got[8], "line_in_other_buffer": got[9], "new_object_for_registered_name": got[10],
		"hanging_child_attributed": hangOK, "crashing_child_attributed": crashOK, "crash_event_judged": crashJudged})
	if (tres.OK || tres.Violation) && !acc && got[1] == "line:level-field" && got[2] == "level:disabled-level-reported-enabled-after-SetOutputLevel" && strings.HasPrefix(got[3], "harness: truncated") &&
		strings.HasPrefix(got[4], "harness: the recorded call") && got[5] == "fields-lost-after-WithFields" && got[6] == "appid-lost-after-ApplyOptions" &&
		got[7] == "harness: no end event" && strings.HasPrefix(got[8], "harness: the call does not belong") && got[9] == "output:line-went-to-the-output-of-another-logger" &&
		got[10] == "registry:new-of-a-registered-name-returns-a-new-object" && hangOK && crashOK && crashJudged {
		return ""
	}
	return fmt.Sprintf("rejects=%v hang=%v(%v) crash=%v(%v) crashJudged=%v %s %s", rej, hangOK, herr, crashOK, cerr, crashJudged, tres.What, tres.Tail(600))
}

// ---------------------------------------------------------------- replay

// replay re-performs the run stored in a replay file (./check X13 --replay <file>) and has TLC judge it.
func replay(e *ev.Evidence, path string) {
	raw, err := os.ReadFile(path)
	if err != nil {
		e.Inconclusive("cannot read the replay file: " + err.Error())
		return
	}
	var f struct {
		Replay struct {
			Run *runInfo `json:"run"`
			Job *Job     `json:"job"`
		} `json:"replay"`
	}
	if err := json.Unmarshal(raw, &f); err != nil {
		e.Inconclusive("cannot parse the replay file: " + err.Error())
		return
	}
	b := &tv.Batch{}
	switch {
	case f.Replay.Run != nil:
		j := Job{ID: 1, Kind: "seq", Fam: "sampled", Ops: f.Replay.Run.Ops}
		res, err := runJobs([]Job{j}, 30*time.Second, nil)
		if err != nil {
			e.Inconclusive("child process: " + err.Error())
			return
		}
		lines, note := traceOf(j, res[j.ID])
		if lines == nil {
			e.Inconclusive(note)
			return
		}
		b.AppendTrace(lines)
	case f.Replay.Job != nil && f.Replay.Job.Kind == "facts" && strings.HasPrefix(f.Replay.Job.Group, "fatal-"):
		v := strings.TrimPrefix(f.Replay.Job.Group, "fatal-")
		var buf bytes.Buffer
		em := &emitter{w: bufio.NewWriter(&buf)}
		emitFacts(em, "fatal-"+v, runFatal(v))
		em.w.Flush()
		var lines [][]byte
		for _, l := range bytes.Split(buf.Bytes(), []byte("\n")) {
			if len(l) > 2 {
				lines = append(lines, append([]byte{}, l[2:]...))
			}
		}
		b.AppendTrace(lines)
	case f.Replay.Job != nil:
		j := *f.Replay.Job
		j.ID = 1
		res, err := runJobs([]Job{j}, 30*time.Second, nil)
		if err != nil {
			e.Inconclusive("child process: " + err.Error())
			return
		}
		lines, note := traceOf(j, res[j.ID])
		if lines == nil {
			e.Inconclusive(note)
			return
		}
		b.AppendTrace(lines)
	default:
		e.Inconclusive("the replay file holds neither a run nor a job")
		return
	}
	rej, res := tv.Validate(tlcOpts(2, 3*time.Minute), b)
	fmt.Printf("replay: %d events, TLC ok=%v rejects=%d %s\n", b.Lines(), res.OK, len(rej), res.What)
	for _, l := range b.TraceStrings(0) {
		fmt.Println("  " + l)
	}
	if !res.OK && !res.Violation {
		e.Inconclusive("trace validation did not run: " + res.What)
		return
	}
	e.Set("evaluations", int64(1))
	e.Set("traces_validated_against_impl", int64(1))
	for _, r := range rej {
		if strings.HasPrefix(r.Why, "harness:") {
			e.Inconclusive("the harness recorded an impossible trace: " + r.Why)
			continue
		}
		pl := tv.M{"replayed": path, "trace": b.TraceStrings(0), "at": r.At}
		if f.Replay.Run != nil {
			pl["run"], pl["reproducer"] = f.Replay.Run, reproducer(f.Replay.Run.Ops)
		} else {
			pl["job"] = f.Replay.Job
		}
		e.Violation(r.Why, explain(r.Why), pl)
	}
}
