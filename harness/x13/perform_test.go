package x13

// Child-process side of X13: performs call sequences, table cases and fact groups on the REAL
// github.com/dapr/kit/logger package and writes the recorded traces to fd 3.

import (
	"bufio"
	"bytes"
	"context"
	"encoding/json"
	"fmt"
	"io"
	"os"
	"sort"
	"strconv"
	"strings"
	"time"

	"github.com/dapr/kit/logger"

	"verifharness/internal/tv"
)

// Job: one unit of work of a child process = one trace.
type Job struct {
	ID    int        `json:"id"`              // unique within a run; also makes the logger names of a sequence unique
	Kind  string     `json:"kind"`            // seq | case | facts
	Fam   string     `json:"fam,omitempty"`   // seq: family of sequences; case: table family
	Ops   [][]string `json:"ops,omitempty"`   // seq
	Case  int        `json:"case,omitempty"`  // case: number in the table
	X     string     `json:"x"`               // case
	Y     string     `json:"y"`               // case
	Group string     `json:"group,omitempty"` // facts
}

// wire protocol on fd 3, one record per line:  "B <id>"  job begins | "P <k>" call k begins (progress mode) |
// "L <json>" one trace line | "E <id>" job done
type emitter struct {
	w        *bufio.Writer
	progress bool
}

func (em *emitter) raw(format string, a ...any) {
	fmt.Fprintf(em.w, format+"\n", a...)
	if em.progress {
		em.w.Flush()
	}
}

func (em *emitter) line(ev string, m tv.M) {
	m["ev"] = ev
	j, err := json.Marshal(m)
	if err != nil {
		j, _ = json.Marshal(tv.M{"ev": ev, "harnesserr": err.Error()})
	}
	j = bytes.ReplaceAll(j, []byte(":null"), []byte(`:"null"`))
	em.w.WriteString("L ")
	em.w.Write(j)
	em.w.WriteByte('\n')
	if em.progress {
		em.w.Flush()
	}
}

func childMain(file string) {
	out := os.NewFile(3, "results")
	raw, err := os.ReadFile(file)
	if err != nil || out == nil {
		os.Exit(4)
	}
	em := &emitter{w: bufio.NewWriterSize(out, 1<<16), progress: os.Getenv("VERIF_X13_PROGRESS") != ""}
	for _, l := range bytes.Split(raw, []byte("\n")) {
		if len(bytes.TrimSpace(l)) == 0 {
			continue
		}
		var j Job
		if err := json.Unmarshal(l, &j); err != nil {
			continue
		}
		fmt.Fprintf(em.w, "B %d\n", j.ID)
		em.w.Flush()
		if os.Getenv("VERIF_X13_SELFTEST_HANG") == strconv.Itoa(j.ID) {
			time.Sleep(time.Hour) // (select {} would be reported as a deadlock by the runtime)
		}
		if os.Getenv("VERIF_X13_SELFTEST_CRASH") == strconv.Itoa(j.ID) {
			os.Exit(7)
		}
		switch j.Kind {
		case "seq":
			performSeq(em, j)
		case "case":
			performCase(em, j)
		case "facts":
			performFacts(em, j)
		}
		fmt.Fprintf(em.w, "E %d\n", j.ID)
	}
	em.w.Flush()
}

// ---------------------------------------------------------------- call sequences

type root struct {
	name string // "a" | "b"
	l    logger.Logger
	buf  *bytes.Buffer
}

type seqState struct {
	id      int
	pfx     string
	roots   []*root                  // in the order of creation
	handles map[string]logger.Logger // "a", "b", "d1", "d2"
	rootOf  map[string]*root
	nd      int
}

func (st *seqState) root(name string) *root {
	for _, r := range st.roots {
		if r.name == name {
			return r
		}
	}
	return nil
}

var levelOf = map[string]logger.LogLevel{"debug": logger.DebugLevel, "info": logger.InfoLevel, "warn": logger.WarnLevel, "error": logger.ErrorLevel,
	"fatal": logger.FatalLevel, "undefined": logger.UndefinedLevel}

var fieldVariants = map[string]map[string]any{"F1": {"k1": "v1"}, "F2": {"k2": "v2", "n": 42}}

func validLevelText(t string) bool {
	switch strings.ToLower(t) { // the DOCUMENTED rule ("Options are debug, info, warn, error, or fatal"), only used to choose how Apply builds its Options
	case "debug", "info", "warn", "error", "fatal":
		return true
	}
	return false
}

type harnessErr string

func (st *seqState) handle(h string) logger.Logger {
	l, ok := st.handles[h]
	if !ok || l == nil {
		panic(harnessErr("no such handle " + h))
	}
	return l
}

// do performs call k and fills the observation into ev.
func (st *seqState) do(k int, op []string, ev tv.M) {
	switch op[0] {
	case "New":
		n := op[1]
		l := logger.NewLogger(st.pfx + n)
		ident := ""
		for _, r := range st.roots {
			if r.l == l {
				ident = r.name
			}
		}
		ev["ident"] = ident
		if ident == "" {
			r := st.root(n)
			if r == nil {
				r = &root{name: n, buf: &bytes.Buffer{}}
				st.roots = append(st.roots, r)
			}
			r.l = l
			st.handles[n], st.rootOf[n] = l, r
		}
		if r := st.root(n); r != nil && l != nil {
			l.SetOutput(r.buf)
		}
	case "Apply":
		o := logger.DefaultOptions()
		ev["seterr"] = "skipped"
		if validLevelText(op[1]) {
			if err := o.SetOutputLevel(op[1]); err != nil {
				ev["seterr"] = "err"
				o.OutputLevel = op[1]
			} else {
				ev["seterr"] = "nil"
			}
		} else {
			o.OutputLevel = op[1]
		}
		o.JSONFormatEnabled = op[2] == "json"
		if op[3] != "" {
			o.SetAppID(op[3])
		}
		ev["err"] = logger.ApplyOptionsToLoggers(&o) != nil
	case "SetLevel":
		st.handle(op[1]).SetOutputLevel(levelOf[op[2]])
	case "Enabled":
		ev["on"] = st.handle(op[1]).IsOutputLevelEnabled(levelOf[op[2]])
	case "Log":
		x := st.handle(op[1])
		tok := fmt.Sprintf("tok-%d-%d", st.id, k)
		ev["tok"] = tok
		ev["nlines"], ev["where"], ev["line"] = 0, []string{}, tv.M{"fmt": "none"}
		logAt(x, op[2], k%2 == 1, st.id, k, tok)
		st.collect(st.rootOf[op[1]], ev)
	case "EnableJSON":
		st.handle(op[1]).EnableJSONOutput(op[2] == "json")
	case "SetAppID":
		st.handle(op[1]).SetAppID(op[2])
	case "WithFields", "WithType":
		x := st.handle(op[1])
		var y logger.Logger
		if op[0] == "WithFields" {
			fs := map[string]any{} // a fresh map per call
			for fk, fv := range fieldVariants[op[2]] {
				fs[fk] = fv
			}
			y = x.WithFields(fs)
		} else {
			y = x.WithLogType(op[2])
		}
		ev["nonnil"] = y != nil
		if y != nil {
			st.nd++
			d := "d" + strconv.Itoa(st.nd)
			st.handles[d], st.rootOf[d] = y, st.rootOf[op[1]]
			y.SetOutput(st.rootOf[op[1]].buf)
		}
	default:
		panic(harnessErr("unknown call " + op[0]))
	}
}

func logAt(l logger.Logger, m string, fvariant bool, id, k int, tok string) {
	const format = "tok-%d-%d"
	switch m {
	case "debug":
		if fvariant {
			l.Debugf(format, id, k)
		} else {
			l.Debug(tok)
		}
	case "info":
		if fvariant {
			l.Infof(format, id, k)
		} else {
			l.Info(tok)
		}
	case "warn":
		if fvariant {
			l.Warnf(format, id, k)
		} else {
			l.Warn(tok)
		}
	case "error":
		if fvariant {
			l.Errorf(format, id, k)
		} else {
			l.Error(tok)
		}
	default:
		panic(harnessErr("the harness never logs at level " + m))
	}
}

// collect reads and empties the buffers of all roots of the sequence.
func (st *seqState) collect(own *root, ev tv.M) {
	n := 0
	where := []string{}
	first, ownFirst := "", ""
	rs := append([]*root{}, st.roots...)
	sort.Slice(rs, func(i, j int) bool { return rs[i].name < rs[j].name })
	for _, r := range rs {
		s := r.buf.String()
		r.buf.Reset()
		if s == "" {
			continue
		}
		where = append(where, r.name)
		for _, ln := range strings.Split(s, "\n") {
			if ln == "" {
				continue
			}
			n++
			if first == "" {
				first = ln
			}
			if r == own && ownFirst == "" {
				ownFirst = ln
			}
		}
	}
	if ownFirst != "" {
		first = ownFirst
	}
	ev["nlines"], ev["where"] = n, where
	if n > 0 {
		ev["line"] = parseLine(first)
	}
}

var schemaKeys = map[string]string{"time": "time", "level": "level", "type": "type", "scope": "scope", "msg": "msg", "instance": "instance", "ver": "ver", "app_id": "app"}

// parseLine: one output line -> the record the monitor judges (values as strings; "<absent>" for a missing key).
func parseLine(s string) tv.M {
	out := tv.M{"fmt": "garbled", "level": "<absent>", "type": "<absent>", "scope": "<absent>", "app": "<absent>", "msg": "<absent>",
		"time": "<absent>", "instance": "<absent>", "ver": "<absent>", "fields": [][]string{}}
	kv := map[string]string{}
	var obj map[string]any
	if strings.HasPrefix(strings.TrimSpace(s), "{") && json.Unmarshal([]byte(s), &obj) == nil {
		out["fmt"] = "json"
		for k, v := range obj {
			switch t := v.(type) {
			case string:
				kv[k] = t
			case float64:
				kv[k] = strconv.FormatFloat(t, 'f', -1, 64)
			default:
				kv[k] = fmt.Sprint(v)
			}
		}
	} else if m, ok := parseText(s); ok {
		out["fmt"] = "text"
		kv = m
	} else {
		return out
	}
	fields := [][]string{}
	for k, v := range kv {
		name, ok := schemaKeys[k]
		switch {
		case !ok:
			fields = append(fields, []string{k, v})
		case name == "time":
			if _, err := time.Parse(time.RFC3339Nano, v); err == nil {
				out["time"] = "rfc3339"
			} else {
				out["time"] = "unparseable"
			}
		default:
			out[name] = v
		}
	}
	sort.Slice(fields, func(i, j int) bool { return fields[i][0] < fields[j][0] })
	out["fields"] = fields
	return out
}

// parseText: logrus' text format, `key=value` pairs separated by blanks; a value is bare or a Go-quoted string.
func parseText(s string) (map[string]string, bool) {
	out := map[string]string{}
	i := 0
	for i < len(s) {
		for i < len(s) && s[i] == ' ' {
			i++
		}
		if i >= len(s) {
			break
		}
		j := strings.IndexByte(s[i:], '=')
		if j <= 0 {
			return nil, false
		}
		key := s[i : i+j]
		if strings.ContainsAny(key, " \"") {
			return nil, false
		}
		i += j + 1
		val := ""
		if i < len(s) && s[i] == '"' {
			q, err := strconv.QuotedPrefix(s[i:])
			if err != nil {
				return nil, false
			}
			if val, err = strconv.Unquote(q); err != nil {
				return nil, false
			}
			i += len(q)
		} else {
			e := strings.IndexByte(s[i:], ' ')
			if e < 0 {
				e = len(s) - i
			}
			val = s[i : i+e]
			i += e
		}
		if _, dup := out[key]; dup {
			return nil, false
		}
		out[key] = val
	}
	return out, len(out) > 0
}

func performSeq(em *emitter, j Job) {
	host, _ := os.Hostname()
	st := &seqState{id: j.ID, pfx: fmt.Sprintf("s%d-", j.ID), handles: map[string]logger.Logger{}, rootOf: map[string]*root{}}
	ops := j.Ops
	if ops == nil {
		ops = [][]string{}
	}
	em.line("reset", tv.M{"kind": "seq", "id": j.ID, "fam": j.Fam, "fed": ops, "n": len(ops), "pfx": st.pfx, "host": host, "ver": logger.DaprVersion})
	done := 0
	for k, op := range ops {
		if em.progress {
			em.raw("P %d", k+1)
		}
		ev := tv.M{"op": op, "panic": ""}
		herr := ""
		if os.Getenv("VERIF_X13_SELFTEST_CRASHOP") == fmt.Sprintf("%d:%d", j.ID, k+1) {
			os.Exit(9)
		}
		func() {
			defer func() {
				if p := recover(); p != nil {
					if he, ok := p.(harnessErr); ok {
						herr = string(he)
						return
					}
					ev["panic"] = "panic: " + fmt.Sprint(p)
				}
			}()
			st.do(k+1, op, ev)
		}()
		if herr != "" {
			ev["harnesserr"] = herr
		}
		em.line("op", ev)
		done++
		if ev["panic"] != "" || herr != "" {
			break
		}
	}
	em.line("end", tv.M{"nops": done})
}

// ---------------------------------------------------------------- table cases

func realName(s string) string {
	if s == "U+00FC" {
		return "ü"
	}
	return s
}

func performCase(em *emitter, j Job) {
	em.line("reset", tv.M{"kind": "case", "id": j.Case, "fam": j.Fam, "fed": []string{j.Fam, j.X, j.Y}})
	ev := tv.M{"panic": ""}
	func() {
		defer func() {
			if p := recover(); p != nil {
				ev["panic"] = "panic: " + fmt.Sprint(p)
			}
		}()
		switch j.Fam {
		case "optlevel":
			o := logger.DefaultOptions()
			o.OutputLevel = "warn"
			err := o.SetOutputLevel(j.X)
			ev["err"], ev["after"] = err != nil, o.OutputLevel
		case "applylevel":
			l := logger.NewLogger(fmt.Sprintf("t%d", j.ID))
			l.SetOutput(io.Discard)
			l.SetOutputLevel(logger.WarnLevel)
			o := logger.DefaultOptions()
			o.OutputLevel = j.X
			err := logger.ApplyOptionsToLoggers(&o)
			vec := []bool{}
			for _, m := range []logger.LogLevel{logger.DebugLevel, logger.InfoLevel, logger.WarnLevel, logger.ErrorLevel, logger.FatalLevel} {
				vec = append(vec, l.IsOutputLevelEnabled(m))
			}
			ev["err"], ev["vec"] = err != nil, vec
		case "newident":
			p := logger.NewLogger(realName(j.X))
			q := logger.NewLogger(realName(j.Y))
			ev["nonnil"] = p != nil && q != nil
			ev["same"] = p == q
			if p != nil {
				p.SetOutput(io.Discard)
			}
			if q != nil {
				q.SetOutput(io.Discard)
			}
		}
	}()
	em.line("call", ev)
	em.line("end", tv.M{"nops": 1})
}

// ---------------------------------------------------------------- fact groups

type fact struct {
	Name  string
	Got   bool
	Panic string
}

func runFact(name string, f func() bool) fact {
	ft := fact{Name: name}
	func() {
		defer func() {
			if p := recover(); p != nil {
				ft.Panic = "panic: " + fmt.Sprint(p)
			}
		}()
		ft.Got = f()
	}()
	return ft
}

func exerciseAll(l logger.Logger) {
	l.EnableJSONOutput(true)
	l.EnableJSONOutput(false)
	l.SetAppID("app1")
	l.SetOutputLevel(logger.DebugLevel)
	l.SetOutputLevel(logger.UndefinedLevel)
	_ = l.IsOutputLevelEnabled(logger.InfoLevel)
	_ = l.IsOutputLevelEnabled(logger.UndefinedLevel)
	l.Debug("m")
	l.Debugf("%s", "m")
	l.Info("m")
	l.Infof("%s", "m")
	l.Warn("m")
	l.Warnf("%s", "m")
	l.Error("m")
	l.Errorf("%s", "m")
	l.SetOutput(io.Discard)
}

func factsOf(group string, id int) []fact {
	var fs []fact
	add := func(name string, f func() bool) { fs = append(fs, runFact(name, f)) }
	bg := context.Background()
	switch group {
	case "context":
		add("context:default-is-not-nil", func() bool { return logger.FromContextOrDefault(bg) != nil })
		add("context:default-methods-do-not-panic", func() bool { exerciseAll(logger.FromContextOrDefault(bg)); return true })
		add("context:default-discards-messages", func() bool {
			var buf bytes.Buffer
			l := logger.FromContextOrDefault(bg)
			l.SetOutput(&buf)
			l.SetOutputLevel(logger.DebugLevel)
			l.Info("x")
			l.Errorf("%s", "y")
			l.Debug("z")
			return buf.Len() == 0
		})
		add("context:default-derived-loggers-usable", func() bool {
			l := logger.FromContextOrDefault(bg)
			y, z := l.WithFields(map[string]any{"k1": "v1"}), l.WithLogType(logger.LogTypeRequest)
			if y == nil || z == nil {
				return false
			}
			exerciseAll(y)
			exerciseAll(z)
			return y.WithLogType("request") != nil && z.WithFields(nil) != nil
		})
		add("context:default-derived-loggers-discard", func() bool {
			var buf bytes.Buffer
			y := logger.FromContextOrDefault(bg).WithFields(map[string]any{"k1": "v1"})
			y.SetOutput(&buf)
			y.Error("x")
			return buf.Len() == 0
		})
		add("context:roundtrip-returns-the-logger", func() bool {
			l := logger.NewLogger(fmt.Sprintf("ctx%d-a", id))
			l.SetOutput(io.Discard)
			return logger.FromContextOrDefault(logger.NewContext(bg, l)) == l
		})
		add("context:roundtrip-derived-logger", func() bool {
			l := logger.NewLogger(fmt.Sprintf("ctx%d-a", id))
			y := l.WithFields(map[string]any{"k1": "v1"})
			type key struct{}
			ctx := context.WithValue(logger.NewContext(bg, y), key{}, 1) // a value added on top does not hide the logger
			return logger.FromContextOrDefault(ctx) == y && logger.FromContextOrDefault(ctx) != l
		})
		add("context:innermost-logger-wins", func() bool {
			l1, l2 := logger.NewLogger(fmt.Sprintf("ctx%d-a", id)), logger.NewLogger(fmt.Sprintf("ctx%d-b", id))
			l2.SetOutput(io.Discard)
			return logger.FromContextOrDefault(logger.NewContext(logger.NewContext(bg, l1), l2)) == l2
		})
		add("context:roundtrip-logger-still-writes", func() bool {
			var buf bytes.Buffer
			l := logger.NewLogger(fmt.Sprintf("ctx%d-c", id))
			l.SetOutput(&buf)
			logger.FromContextOrDefault(logger.NewContext(bg, l)).Info("through the context")
			return strings.Contains(buf.String(), "through the context")
		})
		add("context:nil-logger-gives-non-nil", func() bool { return logger.FromContextOrDefault(logger.NewContext(bg, nil)) != nil })
		add("context:nil-logger-gives-the-default", func() bool {
			return logger.FromContextOrDefault(logger.NewContext(bg, nil)) == logger.FromContextOrDefault(bg)
		})
		add("context:nil-logger-discards-messages", func() bool {
			var buf bytes.Buffer
			l := logger.FromContextOrDefault(logger.NewContext(bg, nil))
			l.SetOutput(&buf)
			l.Warn("x")
			return buf.Len() == 0
		})
	case "options":
		add("options:default-level-is-info", func() bool { o := logger.DefaultOptions(); return o.OutputLevel == "info" })
		add("options:default-format-is-text", func() bool { o := logger.DefaultOptions(); return !o.JSONFormatEnabled })
		type sreg struct {
			p         *string
			name, def string
		}
		type breg struct {
			p    *bool
			name string
			def  bool
		}
		attach := func(o *logger.Options, withS, withB bool) ([]sreg, []breg) {
			var ss []sreg
			var bs []breg
			var sf func(p *string, name string, value string, usage string)
			var bf func(p *bool, name string, value bool, usage string)
			if withS {
				sf = func(p *string, name, value, usage string) { ss = append(ss, sreg{p, name, value}) }
			}
			if withB {
				bf = func(p *bool, name string, value bool, usage string) { bs = append(bs, breg{p, name, value}) }
			}
			o.AttachCmdFlags(sf, bf)
			return ss, bs
		}
		add("options:attach-registers-log-level-default-info", func() bool {
			o := logger.DefaultOptions()
			ss, _ := attach(&o, true, true)
			return len(ss) == 1 && ss[0].name == "log-level" && ss[0].def == "info" && ss[0].p != nil
		})
		add("options:attach-registers-log-as-json-default-false", func() bool {
			o := logger.DefaultOptions()
			_, bs := attach(&o, true, true)
			return len(bs) == 1 && bs[0].name == "log-as-json" && !bs[0].def && bs[0].p != nil
		})
		add("options:attach-binds-the-level-field", func() bool {
			o := logger.DefaultOptions()
			ss, _ := attach(&o, true, true)
			if len(ss) != 1 || ss[0].p == nil {
				return false
			}
			*ss[0].p = "debug"
			return o.OutputLevel == "debug"
		})
		add("options:attach-binds-the-json-field", func() bool {
			o := logger.DefaultOptions()
			_, bs := attach(&o, true, true)
			if len(bs) != 1 || bs[0].p == nil {
				return false
			}
			*bs[0].p = true
			return o.JSONFormatEnabled
		})
		add("options:attach-tolerates-nil-callbacks", func() bool { o := logger.DefaultOptions(); attach(&o, false, false); return true })
		add("options:attach-nil-string-callback-still-registers-bool", func() bool {
			o := logger.DefaultOptions()
			ss, bs := attach(&o, false, true)
			return len(ss) == 0 && len(bs) == 1 && bs[0].name == "log-as-json"
		})
		add("options:attach-nil-bool-callback-still-registers-string", func() bool {
			o := logger.DefaultOptions()
			ss, bs := attach(&o, true, false)
			return len(bs) == 0 && len(ss) == 1 && ss[0].name == "log-level"
		})
	}
	return fs
}

func emitFacts(em *emitter, group string, fs []fact) {
	em.line("reset", tv.M{"kind": "facts", "group": group, "n": len(fs)})
	for _, f := range fs {
		em.line("fact", tv.M{"name": f.Name, "got": f.Got, "panic": f.Panic})
	}
	em.line("end", tv.M{"nops": len(fs)})
}

func performFacts(em *emitter, j Job) { emitFacts(em, j.Group, factsOf(j.Group, j.ID)) }

// ---------------------------------------------------------------- the dedicated fatal child

// fatalChild logs at level fatal on the real package; the line goes to fd 3.  It must not come back.
func fatalChild(variant string) {
	out := os.NewFile(3, "out")
	l := logger.NewLogger("x13-fatal-child")
	l.SetOutput(out)
	switch variant {
	case "plain":
		l.Fatal("fatal-token-plain")
	case "f":
		l.EnableJSONOutput(true)
		l.SetOutputLevel(logger.FatalLevel)
		y := l.WithFields(map[string]any{"k1": "v1"})
		y.SetOutput(out)
		y.Fatalf("fatal-token-%s", "f")
	}
	out.WriteString("AFTER\n")
	os.Exit(0)
}
