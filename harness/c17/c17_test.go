// C17 — crypto helpers never write to memory owned by the caller.
//
// spec/CryptoDispatch/MemDispatch.tla enumerates the configuration space
// (every exported function of crypto, crypto/aeskw, crypto/padding and
// crypto/aescbcaead taking []byte x algorithm x message length around block
// boundaries x success / each failure path x a spare-capacity vector that
// gives every argument every value of {0,1,15,16,17,64}) and states the law
// MayWrite; MemModel.tla (where the code writes, implementation-shaped) is
// model-checked against the monitor of MemContract.tla and writes
// configs.ndjson.  This harness performs every configuration on the REAL
// packages with all arguments cut out of ONE canary-filled arena, compares
// the whole arena with its snapshot after the call and has TLC judge the
// observations (TraceMemAll.tla: written subset of MayWrite, nothing outside
// the arguments, the runs are exactly the specification's configurations).
package c17

import (
	"bytes"
	"crypto/aes"
	"crypto/cipher"
	"crypto/ecdsa"
	"crypto/ed25519"
	"crypto/rand"
	"crypto/rsa"
	"crypto/x509"
	"encoding/base64"
	"encoding/json"
	"encoding/pem"
	"errors"
	"fmt"
	"os"
	"runtime"
	"sort"
	"strings"
	"sync"
	"testing"
	"time"

	kit "github.com/dapr/kit/crypto"
	"github.com/dapr/kit/crypto/aescbcaead"
	"github.com/dapr/kit/crypto/aeskw"
	"github.com/dapr/kit/crypto/padding"
	"github.com/lestrrat-go/jwx/v2/jwk"

	"verifharness/c03/cref"
	"verifharness/internal/ev"
	"verifharness/internal/tlc"
	"verifharness/internal/tv"
)

// Config is one line of configs.ndjson (MemDispatch!DescribeCf).
type Config struct {
	Fn        string   `json:"fn"`
	Alg       string   `json:"alg"`
	Len       int      `json:"len"`
	Path      string   `json:"path"`
	SV        int      `json:"sv"`
	Args      []string `json:"args"`
	Spares    []int    `json:"spares"`
	Fam       string   `json:"fam"`
	GKeyBits  int      `json:"gKeyBits"`
	GNonce    int      `json:"gNonce"`
	GTag      int      `json:"gTag"`
	Hash      int      `json:"hash"`
	Keep      int      `json:"keep"`      // "results stay the caller's" configurations: results of Keep earlier calls are retained (0: not one)
	Chain     string   `json:"chain"`     // argument of the last call that IS the previous call's result ("none")
	Conc      int      `json:"conc"`      // goroutines doing this at once
	DstNeeded int      `json:"dstNeeded"` // aescbcaead: bytes behind dst the result may occupy
}

type obs struct {
	Outcome string
	Written [][]string // [argument, "len"|"spare"]
	Outside bool
	Detail  string

	recheck func() ([][]string, bool) // the same comparison again, later (after garbage collections)
}

// ---------------------------------------------------------------------------
// the arena

const guard = 32

type region struct {
	name           string
	off, ln, spare int
	used           int // how much of the spare capacity a result may occupy (dst of an AEAD; otherwise all of it)
}

type arena struct {
	buf, snap []byte
	regs      []region
}

func canary(i int) byte { return byte(0xC3 ^ (i * 37) ^ (i >> 5)) }

// newArena lays out guard | arg1 | spare1 | guard | arg2 | spare2 | ... | guard.
func newArena(names []string, data [][]byte, spares []int, dstNeeded int) *arena {
	a := &arena{}
	total := guard
	for j := range names {
		total += len(data[j]) + spares[j] + guard
	}
	a.buf = make([]byte, total)
	for i := range a.buf {
		a.buf[i] = canary(i)
	}
	off := guard
	for j, n := range names {
		copy(a.buf[off:], data[j])
		used := spares[j]
		if n == "dst" && dstNeeded < used {
			used = dstNeeded
		}
		a.regs = append(a.regs, region{n, off, len(data[j]), spares[j], used})
		off += len(data[j]) + spares[j] + guard
	}
	a.snap = append([]byte{}, a.buf...)
	return a
}

// arg returns the j-th argument: len = the data, cap-len = its spare capacity.
func (a *arena) arg(name string) []byte {
	for _, r := range a.regs {
		if r.name == name {
			return a.buf[r.off : r.off+r.ln : r.off+r.ln+r.spare]
		}
	}
	panic("no argument " + name)
}

func (a *arena) diff() (written [][]string, outside bool) {
	covered := make([]bool, len(a.buf))
	for _, r := range a.regs {
		for i := r.off; i < r.off+r.ln+r.spare; i++ {
			covered[i] = true
		}
		if !bytes.Equal(a.buf[r.off:r.off+r.ln], a.snap[r.off:r.off+r.ln]) {
			written = append(written, []string{r.name, "len"})
		}
		if !bytes.Equal(a.buf[r.off+r.ln:r.off+r.ln+r.used], a.snap[r.off+r.ln:r.off+r.ln+r.used]) {
			written = append(written, []string{r.name, "spare"})
		}
		if !bytes.Equal(a.buf[r.off+r.ln+r.used:r.off+r.ln+r.spare], a.snap[r.off+r.ln+r.used:r.off+r.ln+r.spare]) {
			written = append(written, []string{r.name, "beyond"})
		}
	}
	for i := range a.buf {
		if !covered[i] && a.buf[i] != a.snap[i] {
			outside = true
		}
	}
	if written == nil {
		written = [][]string{}
	}
	return
}

// ---------------------------------------------------------------------------

func classify(err error) string {
	switch {
	case err == nil:
		return "ok"
	case errors.Is(err, kit.ErrKeyTypeMismatch):
		return "keytype"
	case errors.Is(err, kit.ErrInvalidNonce):
		return "nonce"
	case errors.Is(err, kit.ErrInvalidTag):
		return "tag"
	case errors.Is(err, kit.ErrInvalidPlaintextLength):
		return "ptlen"
	case errors.Is(err, kit.ErrInvalidCiphertextLength):
		return "ctlen"
	case errors.Is(err, kit.ErrUnsupportedAlgorithm):
		return "unsupported"
	}
	return "error"
}

func cp(b []byte) []byte { return append([]byte{}, b...) }

func isAsym(f string) bool { return f == "rsa15" || f == "oaep" }
func isSig(f string) bool {
	return f == "rsapkcs" || f == "rsapss" || f == "ecdsa" || f == "eddsa"
}

func refSym(cf Config, key, nonce, pt, aad []byte) (ct, tag []byte, err error) {
	switch cf.Fam {
	case "cbc":
		ct, err = cref.CBCEncrypt(key, nonce, pt, true)
	case "cbcnopad":
		ct, err = cref.CBCEncrypt(key, nonce, pt, false)
	case "gcm":
		ct, tag, err = cref.GCMSeal(key, nonce, pt, aad)
	case "cbchmac":
		p, _ := cref.CBCHMACByName(cf.Alg)
		ct, tag, err = p.Seal(key, nonce, pt, aad)
	case "kw":
		ct, err = cref.KWWrap(key, pt)
	case "chacha":
		ct, tag, err = cref.ChaChaSeal(false, key, nonce, pt, aad)
	case "xchacha":
		ct, tag, err = cref.ChaChaSeal(true, key, nonce, pt, aad)
	default:
		err = cref.ErrRef
	}
	return
}

func sigKey(cf Config) (kind string, bits int) {
	switch cf.Fam {
	case "ecdsa":
		return "ec", cf.GKeyBits
	case "eddsa":
		return "okp", 255
	}
	return "rsa", 2048
}

func aeadCtor(alg string) func([]byte) (cipher.AEAD, error) {
	switch alg {
	case "A128CBC-HS256":
		return aescbcaead.NewAESCBC128SHA256
	case "A192CBC-HS384":
		return aescbcaead.NewAESCBC192SHA384
	case "A256CBC-HS384":
		return aescbcaead.NewAESCBC256SHA384
	case "A256CBC-HS512":
		return aescbcaead.NewAESCBC256SHA512
	}
	return nil
}

func badPadCT(p cref.CBCHMAC, key, nonce []byte) []byte {
	blk := cref.Det(7, 16)
	blk[15] = 0
	c, _ := cref.CBCEncryptRaw(p.EncKey(key), nonce, blk)
	return c
}

// perform lays the arguments of one configuration out in an arena, makes the
// real call and reports what changed.
// prepared is one real call ready to be made: the named []byte arguments and a
// closure that makes the call with whatever slices arg hands it.
type prepared struct {
	data   map[string][]byte
	invoke func(arg func(string) []byte) (outs [][]byte, err error)
}

// prepare builds the arguments of one call of cf.Fn steered into path.  When
// chain names an argument, chainVal (a slice returned by an earlier call) IS
// that argument, and the other inputs are made consistent with its content.
func prepare(cf Config, msg []byte, path, chain string, chainVal []byte) (pr prepared) {
	sub := func(name string, def []byte) []byte {
		if chain == name {
			return chainVal
		}
		return def
	}
	data := map[string][]byte{}
	pr.data = data
	aad := cref.Det(3, 20)
	alg := cf.Alg
	if path == "fail_alg" {
		alg = "A128GCMKW"
		if isSig(cf.Fam) {
			alg = "HS256"
		}
	}
	switch cf.Fn {
	case "Encrypt", "EncryptSymmetric":
		if isAsym(cf.Fam) {
			kind, bits := "rsa-pub", 2048
			if path == "fail_key" || path == "fail" {
				kind, bits = "ec", 256
			}
			key, _ := cref.JWK(kind, bits, 0)
			data["plaintext"], data["key"], data["nonce"], data["associatedData"] = sub("plaintext", msg), nil, nil, sub("associatedData", aad)
			pr.invoke = func(arg func(string) []byte) ([][]byte, error) {
				ct, tag, err := kit.Encrypt(arg("plaintext"), alg, key, arg("nonce"), arg("associatedData"))
				return [][]byte{ct, tag}, err
			}
			return
		}
		kb, nonce := cref.Oct(cf.GKeyBits/8), cref.Det(2, cf.GNonce)
		switch path {
		case "fail_key", "fail":
			kb = cref.Oct(8)
		case "fail_nonce":
			nonce = cref.Det(2, cf.GNonce+1)
		}
		data["plaintext"], data["key"], data["nonce"], data["associatedData"] = sub("plaintext", msg), kb, nonce, sub("associatedData", aad)
		pr.invoke = func(arg func(string) []byte) ([][]byte, error) {
			key, kerr := jwk.FromRaw(arg("key"))
			if kerr != nil {
				panic(kerr)
			}
			var ct, tag []byte
			var err error
			if cf.Fn == "Encrypt" {
				ct, tag, err = kit.Encrypt(arg("plaintext"), alg, key, arg("nonce"), arg("associatedData"))
			} else {
				ct, tag, err = kit.EncryptSymmetric(arg("plaintext"), alg, key, arg("nonce"), arg("associatedData"))
			}
			return [][]byte{ct, tag}, err
		}
	case "Decrypt", "DecryptSymmetric":
		if isAsym(cf.Fam) {
			label := sub("associatedData", aad)
			ct := rsaCT(cf, msg, label)
			kind := "rsa"
			switch path {
			case "fail_key":
				kind = "rsa-pub"
			case "fail_auth", "fail":
				ct[5] ^= 0x40
			}
			key, _ := cref.JWK(kind, 2048, 0)
			data["ciphertext"], data["key"], data["nonce"], data["tag"], data["associatedData"] = ct, nil, nil, nil, label
			pr.invoke = func(arg func(string) []byte) ([][]byte, error) {
				pt, err := kit.Decrypt(arg("ciphertext"), alg, key, arg("nonce"), arg("tag"), arg("associatedData"))
				return [][]byte{pt}, err
			}
			return
		}
		gk, nonce, ad := sub("key", cref.Oct(cf.GKeyBits/8)), sub("nonce", cref.Det(2, cf.GNonce)), sub("associatedData", aad)
		ct, tag, rerr := refSym(cf, gk, nonce, msg, ad)
		if rerr != nil {
			panic(fmt.Sprintf("reference encryption %+v: %v", cf, rerr))
		}
		kb := gk
		switch path {
		case "fail_key":
			kb = cref.Oct(8)
		case "fail_nonce":
			nonce = cref.Det(2, cf.GNonce+1)
		case "fail_tag":
			tag = tag[:len(tag)-1]
		case "fail_auth", "fail":
			if len(ct) > 0 {
				ct[0] ^= 1
			} else {
				tag[0] ^= 1
			}
		case "fail_len":
			ct = append(ct, 0x5a)
		case "fail_pad":
			blk := cref.Det(7, 16)
			blk[15] = 0
			ct, _ = cref.CBCEncryptRaw(gk, nonce, blk)
		}
		data["ciphertext"], data["key"], data["nonce"], data["tag"], data["associatedData"] = sub("ciphertext", ct), kb, nonce, sub("tag", tag), ad
		pr.invoke = func(arg func(string) []byte) ([][]byte, error) {
			key, kerr := jwk.FromRaw(arg("key"))
			if kerr != nil {
				panic(kerr)
			}
			var pt []byte
			var err error
			if cf.Fn == "Decrypt" {
				pt, err = kit.Decrypt(arg("ciphertext"), alg, key, arg("nonce"), arg("tag"), arg("associatedData"))
			} else {
				pt, err = kit.DecryptSymmetric(arg("ciphertext"), alg, key, arg("nonce"), arg("tag"), arg("associatedData"))
			}
			return [][]byte{pt}, err
		}
	case "EncryptPublicKey":
		kind, bits := "rsa-pub", 2048
		if path == "fail_key" || path == "fail" {
			kind, bits = "ec", 256
		}
		key, _ := cref.JWK(kind, bits, 0)
		data["plaintext"], data["associatedData"] = sub("plaintext", msg), sub("associatedData", aad)
		pr.invoke = func(arg func(string) []byte) ([][]byte, error) {
			ct, err := kit.EncryptPublicKey(arg("plaintext"), alg, key, arg("associatedData"))
			return [][]byte{ct}, err
		}
	case "DecryptPrivateKey":
		label := sub("associatedData", aad)
		ct := rsaCT(cf, msg, label)
		kind := "rsa"
		switch path {
		case "fail_key":
			kind = "rsa-pub"
		case "fail_auth", "fail":
			ct[5] ^= 0x40
		}
		key, _ := cref.JWK(kind, 2048, 0)
		data["ciphertext"], data["associatedData"] = ct, label
		pr.invoke = func(arg func(string) []byte) ([][]byte, error) {
			pt, err := kit.DecryptPrivateKey(arg("ciphertext"), alg, key, arg("associatedData"))
			return [][]byte{pt}, err
		}
	case "SignPrivateKey", "VerifyPublicKey":
		kind, bits := sigKey(cf)
		sig := refSig(cf, kind, bits, msg)
		callKind, callBits := kind, bits
		switch path {
		case "fail_key", "fail":
			callKind, callBits = "oct", 256
		case "fail_auth":
			sig[len(sig)/2] ^= 0x10
		}
		key, _ := cref.JWK(callKind, callBits, 0)
		data["digest"], data["signature"] = msg, sig
		pr.invoke = func(arg func(string) []byte) ([][]byte, error) {
			if cf.Fn == "SignPrivateKey" {
				s, err := kit.SignPrivateKey(arg("digest"), alg, key)
				return [][]byte{s}, err
			}
			valid, err := kit.VerifyPublicKey(arg("digest"), arg("signature"), alg, key)
			if err == nil && !valid {
				err = errors.New("signature invalid")
			}
			return nil, err
		}
	case "aeskw.Wrap":
		blk, _ := aes.NewCipher(cref.Oct(cf.GKeyBits / 8))
		data["cek"] = sub("cek", msg)
		pr.invoke = func(arg func(string) []byte) ([][]byte, error) {
			out, err := aeskw.Wrap(blk, arg("cek"))
			return [][]byte{out}, err
		}
	case "aeskw.Unwrap":
		kek := cref.Oct(cf.GKeyBits / 8)
		blk, _ := aes.NewCipher(kek)
		ct, _ := cref.KWWrap(kek, msg)
		if path == "fail_auth" || path == "fail" {
			ct[3] ^= 2
		}
		data["cipherText"] = sub("cipherText", ct)
		pr.invoke = func(arg func(string) []byte) ([][]byte, error) {
			out, err := aeskw.Unwrap(blk, arg("cipherText"))
			return [][]byte{out}, err
		}
	case "padding.PadPKCS7":
		size := 16
		if path == "fail_size" || path == "fail" {
			size = 256
		}
		data["buf"] = sub("buf", msg)
		pr.invoke = func(arg func(string) []byte) ([][]byte, error) {
			out, err := padding.PadPKCS7(arg("buf"), size)
			return [][]byte{out}, err
		}
	case "padding.UnpadPKCS7":
		buf, size := cref.Pad(msg, 16), 16
		switch path {
		case "fail_size":
			size = 1
		case "fail_pad", "fail":
			buf[len(buf)-1] = 0
		}
		data["buf"] = sub("buf", buf)
		pr.invoke = func(arg func(string) []byte) ([][]byte, error) {
			out, err := padding.UnpadPKCS7(arg("buf"), size)
			return [][]byte{out}, err
		}
	case "aescbcaead.New":
		kb := cref.Oct(cf.GKeyBits / 8)
		if path == "fail_key" {
			kb = cref.Oct(8)
		}
		data["key"] = kb
		pr.invoke = func(arg func(string) []byte) ([][]byte, error) {
			_, err := aeadCtor(cf.Alg)(arg("key"))
			return nil, err
		}
	case "aescbcaead.Seal", "aescbcaead.Open":
		p, _ := cref.CBCHMACByName(cf.Alg)
		kb, nonce, ad := cref.Oct(cf.GKeyBits/8), sub("nonce", cref.Det(2, 16)), sub("additionalData", aad)
		dst := cref.Det(8, 3*(cf.SV%2)) // an empty or a 3-byte destination prefix
		data["dst"], data["nonce"], data["additionalData"], data["key"] = dst, nonce, ad, kb
		if cf.Fn == "aescbcaead.Seal" {
			data["plaintext"] = sub("plaintext", msg)
			pr.invoke = func(arg func(string) []byte) ([][]byte, error) {
				aead, cerr := aeadCtor(cf.Alg)(arg("key"))
				if cerr != nil {
					panic(cerr)
				}
				out := aead.Seal(arg("dst"), arg("nonce"), arg("plaintext"), arg("additionalData"))
				if !bytes.HasPrefix(out, dst) {
					return [][]byte{out}, errors.New("destination prefix lost")
				}
				return [][]byte{out}, nil
			}
			return
		}
		ct, tag, _ := p.Seal(kb, nonce, msg, ad)
		switch path {
		case "fail_auth", "fail":
			tag[0] ^= 1
		case "fail_pad":
			ct = badPadCT(p, kb, nonce)
			tag = p.Tag(kb, nonce, ct, ad)
		}
		data["ciphertext"] = append(cp(ct), tag...)
		pr.invoke = func(arg func(string) []byte) ([][]byte, error) {
			aead, cerr := aeadCtor(cf.Alg)(arg("key"))
			if cerr != nil {
				panic(cerr)
			}
			out, err := aead.Open(arg("dst"), arg("nonce"), arg("ciphertext"), arg("additionalData"))
			return [][]byte{out}, err
		}
	case "ParseKey":
		raw := cref.Det(11, cf.Len)
		switch cf.Alg {
		case "base64":
			raw = []byte(base64.StdEncoding.EncodeToString(raw))
		case "jwk":
			raw = []byte(`{"kty":"oct","k":"` + base64.RawURLEncoding.EncodeToString(raw) + `"}`)
		case "pem":
			der, _ := x509.MarshalPKCS8PrivateKey(cref.EC(256, 0))
			raw = pem.EncodeToMemory(&pem.Block{Type: "PRIVATE KEY", Bytes: der})
		case "badjson":
			raw = []byte(`{"kty":"oct","k":` + strings.Repeat("1", cf.Len%7))
		}
		data["raw"] = raw
		pr.invoke = func(arg func(string) []byte) ([][]byte, error) {
			_, err := kit.ParseKey(arg("raw"), "")
			return nil, err
		}
	default:
		panic("unknown function " + cf.Fn)
	}
	return pr
}

// perform lays the arguments of one configuration out in an arena, makes the
// real call and reports what changed.
func perform(cf Config, seed int64) (o obs) {
	if cf.Keep > 0 {
		return performRet(cf, seed)
	}
	var a *arena
	defer func() {
		if p := recover(); p != nil {
			if a == nil {
				o = obs{Outcome: "harness-panic", Written: [][]string{}, Detail: fmt.Sprint(p)}
				return
			}
			o.Outcome, o.Detail = "panic", fmt.Sprint(p)
			o.Written, o.Outside = a.diff()
		}
	}()
	msg := cref.Det(byte(1+16*int(seed%8)), cf.Len)
	pr := prepare(cf, msg, cf.Path, "", nil)
	d := make([][]byte, len(cf.Args))
	for j, n := range cf.Args {
		d[j] = pr.data[n]
	}
	a = newArena(cf.Args, d, cf.Spares, cf.DstNeeded)
	_, err := pr.invoke(a.arg)
	o.Outcome = classify(err)
	if err != nil {
		o.Detail = err.Error()
	}
	o.Written, o.Outside = a.diff()
	o.recheck = a.diff
	return o
}

// exact returns a private copy with cap == len.
func exact(b []byte) []byte {
	o := make([]byte, len(b))
	copy(o, b)
	return o
}

// performRet: "results stay the caller's".  cf.Conc goroutines each make
// cf.Keep successful calls, keep every returned slice (and a snapshot), then
// make one more call on cf.Path — when cf.Chain names an argument, the primary
// result of the previous call IS that argument.  After every call all retained
// results (and the chained argument) are compared with their snapshots.
func performRet(cf Config, seed int64) (o obs) {
	type pair struct {
		name       string
		live, snap []byte
	}
	var keepMu sync.Mutex
	var kept []pair // every argument and every retained result of the run, for the late re-check
	type wout struct {
		written map[string]bool
		outcome string
		detail  string
		fault   string
	}
	outs := make([]wout, cf.Conc)
	var wg sync.WaitGroup
	start := make(chan struct{})
	for w := 0; w < cf.Conc; w++ {
		wg.Add(1)
		go func() {
			defer wg.Done()
			wo := &outs[w]
			wo.written = map[string]bool{}
			defer func() {
				if p := recover(); p != nil {
					wo.fault = fmt.Sprint(p)
				}
			}()
			type held struct{ live, snap []byte }
			var ring []held
			check := func() {
				for _, h := range ring {
					if !bytes.Equal(h.live, h.snap) {
						wo.written["result.len"] = true
					}
					if !bytes.Equal(h.live[:cap(h.live)][len(h.live):], h.snap[:cap(h.snap)][len(h.snap):]) {
						wo.written["result.spare"] = true
					}
				}
			}
			hold := func(rs [][]byte) {
				for _, r := range rs {
					if r == nil {
						continue
					}
					full := r[:cap(r)]
					s := make([]byte, len(full))
					copy(s, full)
					ring = append(ring, held{r, s[:len(r)]})
				}
			}
			<-start
			var primary []byte
			for i := 0; i <= cf.Keep; i++ {
				msg := cref.Det(byte(1+16*int(seed%8)+7*w+31*i), cf.Len)
				path, chain, chainVal := "ok", "", []byte(nil)
				if i == cf.Keep {
					path = cf.Path
					if cf.Chain != "none" && primary != nil {
						path, chain, chainVal = "ok", cf.Chain, primary
					}
				}
				pr := prepare(cf, msg, path, chain, chainVal)
				args := map[string][]byte{}
				for n, d := range pr.data {
					if n == chain {
						args[n] = chainVal // the earlier result itself
					} else {
						args[n] = exact(d)
					}
				}
				snaps := map[string][]byte{}
				for n, d := range args {
					snaps[n] = exact(d)
				}
				var rs [][]byte
				var err error
				if p, pm := guardCall(func() { rs, err = pr.invoke(func(n string) []byte { return args[n] }) }); p {
					wo.outcome, wo.detail = "panic", pm
				} else {
					wo.outcome = classify(err)
					if err != nil {
						wo.detail = err.Error()
					}
				}
				keepMu.Lock()
				for n, d := range args {
					if !bytes.Equal(d, snaps[n]) {
						wo.written[n+".len"] = true
					}
					kept = append(kept, pair{n + ".len", d, snaps[n]})
				}
				keepMu.Unlock()
				check()
				if err == nil {
					hold(rs)
					if len(rs) > 0 {
						primary = rs[0]
					}
				}
			}
			check()
			keepMu.Lock()
			for _, h := range ring {
				kept = append(kept, pair{"result.len", h.live, h.snap})
			}
			keepMu.Unlock()
		}()
	}
	close(start)
	wg.Wait()
	o.Written = [][]string{}
	seen := map[string]bool{}
	for _, wo := range outs {
		if wo.fault != "" {
			return obs{Outcome: "harness-panic", Written: [][]string{}, Detail: wo.fault}
		}
		o.Outcome, o.Detail = wo.outcome, wo.detail
		for k := range wo.written {
			if !seen[k] {
				seen[k] = true
				a, r, _ := strings.Cut(k, ".")
				o.Written = append(o.Written, []string{a, r})
			}
		}
	}
	sort.Slice(o.Written, func(i, j int) bool { return o.Written[i][0]+o.Written[i][1] < o.Written[j][0]+o.Written[j][1] })
	o.recheck = func() ([][]string, bool) {
		var w [][]string
		did := map[string]bool{}
		for _, p := range kept {
			if !bytes.Equal(p.live, p.snap) && !did[p.name] {
				did[p.name] = true
				a, r, _ := strings.Cut(p.name, ".")
				w = append(w, []string{a, r})
			}
		}
		return w, false
	}
	return o
}

func guardCall(f func()) (panicked bool, msg string) {
	defer func() {
		if r := recover(); r != nil {
			panicked, msg = true, fmt.Sprint(r)
		}
	}()
	f()
	return false, ""
}

func rsaCT(cf Config, msg, label []byte) []byte {
	pub := &cref.RSA(2048, 0).PublicKey
	var ct []byte
	var err error
	if cf.Fam == "rsa15" {
		ct, err = rsa.EncryptPKCS1v15(rand.Reader, pub, msg)
	} else {
		_, h := cref.HashBySize(cf.Hash)
		ct, err = rsa.EncryptOAEP(h(), rand.Reader, pub, msg, label)
	}
	if err != nil {
		panic(err)
	}
	return ct
}

func refSig(cf Config, kind string, bits int, digest []byte) []byte {
	ch, _ := cref.HashBySize(cf.Hash)
	var sig []byte
	var err error
	switch cf.Fam {
	case "rsapkcs":
		sig, err = rsa.SignPKCS1v15(nil, cref.RSA(bits, 0), ch, digest)
	case "rsapss":
		sig, err = rsa.SignPSS(rand.Reader, cref.RSA(bits, 0), ch, digest, nil)
	case "ecdsa":
		sig, err = ecdsa.SignASN1(rand.Reader, cref.EC(bits, 0), digest)
	case "eddsa":
		sig = ed25519.Sign(cref.Ed(0), digest)
	}
	if err != nil {
		panic(err)
	}
	return sig
}

// ---------------------------------------------------------------------------

// helper names the function of the package in which a write happens, from the
// entry point and the algorithm family (the documented dispatch).
func helper(cf Config) string {
	switch cf.Fn {
	case "padding.PadPKCS7":
		return "PadPKCS7"
	case "padding.UnpadPKCS7":
		return "UnpadPKCS7"
	case "Encrypt", "EncryptSymmetric":
		switch cf.Fam {
		case "cbc", "cbcnopad":
			return "encryptSymmetricAESCBC"
		case "cbchmac":
			return "aescbcaead.Seal"
		case "gcm":
			return "encryptSymmetricAEAD"
		case "kw":
			return "encryptSymmetricAESKW"
		case "chacha", "xchacha":
			return "encryptSymmetricChaCha20Poly1305"
		}
		return "EncryptPublicKey"
	case "Decrypt", "DecryptSymmetric":
		switch cf.Fam {
		case "cbc", "cbcnopad":
			return "decryptSymmetricAESCBC"
		case "gcm", "cbchmac":
			return "decryptSymmetricAEAD"
		case "kw":
			return "decryptSymmetricAESKW"
		case "chacha", "xchacha":
			return "decryptSymmetricChaCha20Poly1305"
		}
		return "DecryptPrivateKey"
	}
	return cf.Fn
}

// findingKey: why is "<argument>.<region>" or "outside" (from the monitor).
func findingKey(cf Config, why string) string {
	h := helper(cf)
	if why == "outside" {
		return "write:" + h + ":outside"
	}
	arg, reg, _ := strings.Cut(why, ".")
	if arg == "result" {
		return "write:" + h + ":earlier-result"
	}
	if h == "aescbcaead.Seal" && arg == "plaintext" {
		arg = "plaintext" // the same argument under both entry points
	}
	if reg == "len" {
		return "write:" + h + ":" + arg + "[in-length]"
	}
	if reg == "beyond" {
		return "write:" + h + ":" + arg + "[beyond-result]"
	}
	return "write:" + h + ":" + arg
}

func line(cf Config, o obs) tv.M {
	m := tv.M{"fn": cf.Fn, "alg": cf.Alg, "len": cf.Len, "path": cf.Path, "sv": cf.SV, "args": cf.Args, "spares": cf.Spares,
		"outcome": o.Outcome, "written": o.Written, "outside": o.Outside}
	if cf.Keep > 0 {
		m["keep"], m["chain"], m["conc"] = cf.Keep, cf.Chain, cf.Conc
	}
	return m
}

func loadConfigs(b []byte) ([]Config, error) {
	var out []Config
	for _, ln := range bytes.Split(b, []byte("\n")) {
		if len(bytes.TrimSpace(ln)) == 0 {
			continue
		}
		var c Config
		if err := json.Unmarshal(ln, &c); err != nil {
			return nil, err
		}
		out = append(out, c)
	}
	return out, nil
}

func TestCheck(t *testing.T) {
	e := ev.New("C17", "exploration")
	defer func() {
		if e.Write() > 0 {
			t.Fail()
		}
	}()
	seed := ev.Seed()
	e.Assume("the observation is plain Go: every argument of a call is a three-index slice of one canary-filled arena; after the call the whole arena is compared with its snapshot",
		"TLC decides which regions a call may write (MayWrite) and that the performed configurations are the whole enumerated configuration space",
		"memory reachable only through a jwk.Key (asymmetric keys) is not observed; symmetric key bytes are handed in as an arena slice")
	if err := cref.SelfCheck(); err != nil {
		e.Inconclusive("reference implementation fails its RFC vectors: " + err.Error())
		return
	}
	go cref.RSA(2048, 0)

	if rp := os.Getenv("VERIF_REPLAY"); rp != "" {
		replay(t, e, rp, seed)
		return
	}

	mcCfg := ev.Pick("MCmem_small.cfg", "MCmem_big.cfg")
	defCh := make(chan [2]string, 4)
	for _, d := range []string{"pad", "append", "pool", "finalizer"} {
		go func() {
			r := tlc.Run(tlc.Opts{Dir: "CryptoDispatch", Module: "MemModel", Config: "MCmem_defect_" + d + ".cfg", Workers: 2,
				Timeout: 5 * time.Minute, Args: []string{"-noGenerateSpecTE"}})
			v := "not rejected"
			if r.Violation && strings.Contains(r.What, "NotBad") {
				v = "rejected"
			} else if !r.OK {
				v = "failed: " + r.What
			}
			defCh <- [2]string{d, v}
		}()
	}
	mc := tlc.Run(tlc.Opts{Dir: "CryptoDispatch", Module: "MemModel", Config: mcCfg, Workers: 8,
		Timeout: ev.Pick(4*time.Minute, 20*time.Minute), Args: []string{"-noGenerateSpecTE"}, Keep: []string{"configs.ndjson"}})
	fmt.Printf("MC MemModel(%s): ok=%v generated=%d distinct=%d wall=%s %s\n", mcCfg, mc.OK, mc.Generated, mc.Distinct, mc.Wall.Round(time.Millisecond), mc.What)
	e.Set("states", mc.Distinct)
	e.Set("transitions", mc.Generated)
	e.Set("checker_cmd", mc.Cmd)
	if !mc.OK {
		e.Inconclusive("model check of MemModel did not pass: " + mc.What + "\n" + mc.Tail(3000))
		return
	}
	cfs, err := loadConfigs(mc.Kept["configs.ndjson"])
	if err != nil || len(cfs) == 0 {
		e.Inconclusive(fmt.Sprintf("cannot read the configuration space written by TLC: %v (%d)", err, len(cfs)))
		return
	}
	e.Set("configurations_enumerated_by_tlc", int64(len(cfs)))

	t0 := time.Now()
	cref.RSA(2048, 0)
	res := make([]obs, len(cfs))
	var wg sync.WaitGroup
	next := make(chan int, 256)
	for w := 0; w < runtime.NumCPU(); w++ {
		wg.Add(1)
		go func() {
			defer wg.Done()
			for i := range next {
				res[i] = perform(cfs[i], seed)
			}
		}()
	}
	for i := range cfs {
		next <- i
	}
	close(next)
	wg.Wait()
	late := lateRecheck(res)
	e.Set("late_writes_seen_after_gc", int64(late))
	b := &tv.Batch{}
	outcomes := map[string]int64{}
	notReached := map[string]int64{}
	fnsSeen := map[string]bool{}
	for i, cf := range cfs {
		o := res[i]
		if o.Outcome == "harness-panic" {
			e.Inconclusive(fmt.Sprintf("harness fault while performing %+v: %s", cf, o.Detail))
			return
		}
		b.Start(line(cf, o))
		outcomes[o.Outcome]++
		fnsSeen[cf.Fn] = true
		if (cf.Path == "ok") != (o.Outcome == "ok") {
			notReached[fmt.Sprintf("%s/%s/%s->%s", cf.Fn, cf.Alg, cf.Path, o.Outcome)]++
		}
		nz := 0
		for _, s := range cf.Spares {
			if s > 0 {
				nz++
			}
		}
		if nz > 0 || cf.Keep > 0 { // non-trivial: some argument has spare capacity behind it, or results are retained
			e.Nontrivial(fmt.Sprintf("%s|%s|%d|%s|%d|%d|%s|%d", cf.Fn, cf.Alg, cf.Len, cf.Path, cf.SV, cf.Keep, cf.Chain, cf.Conc))
		}
	}
	fmt.Printf("performed %d configurations in %s\n", len(cfs), time.Since(t0).Round(time.Millisecond))
	e.Set("evaluations", int64(len(cfs)))
	e.Set("functions_covered", int64(len(fnsSeen)))
	e.Set("outcome_classes_observed", outcomes)
	e.Set("paths_not_reached", notReached) // the steered path did not happen (C03 findings show up here); the law holds on any path
	e.Set("rule", "configuration = (exported function taking []byte, algorithm / input kind, message length around block boundaries, path: ok or the failure steered into, spare-capacity vector), enumerated by TLC from spec/CryptoDispatch/MemDispatch.tla (MemGroups/MemGroupConfigs); vectors 0-5 rotate {0,1,15,16,17,64} over the arguments, 6-11 put the same value behind every argument, 12-17 (thorough) counter-rotate, so every argument sees every value; results-stay-the-caller's configurations (keep, chain, conc): conc goroutines each make keep successful calls, retain every returned slice with a snapshot, then make an ok / failing / chained call (the previous result IS the named argument) and re-check everything retained after every call; each configuration performed once on the real package with all arguments cut out of one canary arena; TLC judges written subset of MayWrite and nothing outside. non-trivial = at least one argument has spare capacity > 0; distinct by the configuration tuple")
	for _, i := range []int{0, len(cfs) / 7, 2 * len(cfs) / 7, 3 * len(cfs) / 7, 4 * len(cfs) / 7, 5 * len(cfs) / 7, len(cfs) - 1} {
		e.Sample(tv.M{"config": cfs[i], "observation": res[i]})
	}

	stCh := make(chan string, 1)
	go func() { stCh <- selfTest(e, cfs, seed) }()
	rej, vres := tv.Validate(tlc.Opts{Dir: "CryptoDispatch", Module: "TraceMemAll", Config: ev.Pick("Trace_small.cfg", "Trace_big.cfg"),
		Workers: 16, Timeout: ev.Pick(6*time.Minute, 40*time.Minute), HeapMB: 12288}, b)
	fmt.Printf("TLC trace validation: ok=%v violation=%v rejects=%d distinct=%d wall=%s %s\n", vres.OK, vres.Violation, len(rej), vres.Distinct, vres.Wall.Round(time.Millisecond), vres.What)
	if !vres.OK && !vres.Violation {
		e.Inconclusive("trace validation did not run: " + vres.What + "\n" + vres.Tail(2000))
		return
	}
	if vres.Violation && len(rej) == 0 {
		e.Inconclusive("TLC reported a failure that is not a rejected run (enumeration mismatch?): " + vres.What + "\n" + vres.Tail(3000))
		return
	}
	e.Set("traces_validated_against_impl", int64(b.Len()))
	report(e, cfs, res, rej)
	if s := <-stCh; s != "" {
		e.Inconclusive(s)
	}
	rejected := map[string]string{}
	for i := 0; i < 4; i++ {
		d := <-defCh
		rejected[d[0]] = d[1]
		if d[1] != "rejected" {
			e.Inconclusive("defect model MCmem_defect_" + d[0] + ".cfg: " + d[1])
		}
	}
	e.Set("defect_models", rejected)
}

// lateRecheck: a finalizer (or any deferred clean-up) of an object a call created may touch the caller's buffers
// after the call returned.  Collect twice, give finalizers time to run, and compare everything again; what differs
// only now is added to the observation of its configuration.
func lateRecheck(res []obs) int {
	late := 0
	for round := 0; round < 2; round++ {
		runtime.GC()
		time.Sleep(60 * time.Millisecond)
	}
	runtime.GC()
	for i := range res {
		if res[i].recheck == nil {
			continue
		}
		w, outside := res[i].recheck()
		have := map[string]bool{}
		for _, x := range res[i].Written {
			have[x[0]+"."+x[1]] = true
		}
		for _, x := range w {
			if !have[x[0]+"."+x[1]] {
				res[i].Written = append(res[i].Written, x)
				res[i].Detail += " [" + x[0] + "." + x[1] + " changed only after the call had returned: seen at the re-check after garbage collection]"
				late++
			}
		}
		res[i].Outside = res[i].Outside || outside
		res[i].recheck = nil
	}
	return late
}

func report(e *ev.Evidence, cfs []Config, res []obs, rej []tv.Reject) {
	type agg struct {
		why   string
		runs  []tv.M
		count int
	}
	found := map[string]*agg{}
	for _, r := range rej {
		cf := cfs[r.Trace]
		if strings.HasPrefix(r.Why, "harness:") {
			e.Inconclusive(fmt.Sprintf("harness/spec disagreement on %+v: %s", cf, r.Why))
			continue
		}
		k := findingKey(cf, r.Why)
		a := found[k]
		if a == nil {
			a = &agg{why: r.Why}
			found[k] = a
		}
		a.count++
		if len(a.runs) < 10 {
			a.runs = append(a.runs, tv.M{"config": cf, "observation": res[r.Trace]})
		}
	}
	keys := make([]string, 0, len(found))
	for k := range found {
		keys = append(keys, k)
	}
	sort.Strings(keys)
	for _, k := range keys {
		a := found[k]
		e.Violation(k, fmt.Sprintf("caller memory written: %s (%d configurations)", a.why, a.count), tv.M{"rejected_runs": a.runs})
	}
}

// selfTest: the observation of a clean real call is accepted; the same line
// claiming a write into an argument / outside / into the in-length bytes of an
// AEAD destination is rejected, a write into the destination's capacity is not.
func selfTest(e *ev.Evidence, cfs []Config, seed int64) string {
	pick := func(f func(Config) bool) (Config, bool) {
		for _, c := range cfs {
			if f(c) {
				return c, true
			}
		}
		return Config{}, false
	}
	enc, ok1 := pick(func(c Config) bool {
		return c.Fn == "EncryptSymmetric" && c.Alg == "A128GCM" && c.Path == "ok" && c.Len == 17 && c.SV == 5
	})
	seal, ok2 := pick(func(c Config) bool {
		return c.Fn == "aescbcaead.Open" && c.Alg == "A128CBC-HS256" && c.Path == "ok" && c.Len == 17 && c.SV == 11
	})
	if !ok1 || !ok2 {
		return "binding self-test: probe configurations missing"
	}
	oe, os := perform(enc, seed), perform(seal, seed)
	b := &tv.Batch{}
	b.Start(line(enc, oe)) // 0 as observed
	w := oe
	w.Written = [][]string{{"plaintext", "spare"}}
	b.Start(line(enc, w)) // 1
	w = oe
	w.Outside = true
	b.Start(line(enc, w))   // 2
	b.Start(line(seal, os)) // 3 as observed
	w = os
	w.Written = [][]string{{"dst", "spare"}}
	b.Start(line(seal, w)) // 4 allowed
	w.Written = [][]string{{"dst", "len"}}
	b.Start(line(seal, w)) // 5
	bad := enc
	bad.Len = 4242
	b.Start(line(bad, oe)) // 6 not in the configuration space
	if ret, ok := pick(func(c Config) bool {
		return c.Fn == "DecryptSymmetric" && c.Alg == "A256GCM" && c.Keep == 1 && c.Chain == "key" && c.Conc == 1
	}); ok {
		or := perform(ret, seed)
		b.Start(line(ret, or)) // 7 as observed
		w = or
		w.Written = [][]string{{"result", "len"}}
		b.Start(line(ret, w)) // 8 an earlier result changed
	} else {
		return "binding self-test: retention probe missing"
	}
	rej, res := tv.Validate(tlc.Opts{Dir: "CryptoDispatch", Module: "TraceMem", Config: "Trace_small.cfg", Workers: 2, Timeout: 3 * time.Minute}, b)
	got := map[int]string{}
	for _, r := range rej {
		got[r.Trace] = r.Why
	}
	clean := len(oe.Written) == 0 && !oe.Outside
	ok := (res.OK || res.Violation) && (!clean || got[0] == "") && got[1] == "plaintext.spare" && got[2] == "outside" &&
		got[4] == "" && got[5] == "dst.len" && strings.HasPrefix(got[6], "harness: configuration outside") && got[8] == "result.len"
	e.Set("binding_selftest", tv.M{"observed_clean_call_accepted": got[0] == "", "claimed_argument_write": got[1], "claimed_outside_write": got[2],
		"aead_destination_capacity_write_accepted": got[4] == "", "aead_destination_in_length_write": got[5], "configuration_outside_space": got[6],
		"retention_run_as_observed": got[7], "claimed_earlier_result_write": got[8]})
	if !ok {
		return fmt.Sprintf("binding self-test failed: %v %s", got, res.What)
	}
	return ""
}

// replay re-performs the configurations of a replay file and judges them alone.
func replay(t *testing.T, e *ev.Evidence, path string, seed int64) {
	raw, err := os.ReadFile(path)
	if err != nil {
		e.Inconclusive("cannot read replay file: " + err.Error())
		return
	}
	var f struct {
		Replay struct {
			Runs []struct {
				Config Config `json:"config"`
			} `json:"rejected_runs"`
		} `json:"replay"`
	}
	if err := json.Unmarshal(raw, &f); err != nil || len(f.Replay.Runs) == 0 {
		e.Inconclusive(fmt.Sprintf("replay file has no configurations: %v", err))
		return
	}
	b := &tv.Batch{}
	var cfs []Config
	var res []obs
	for _, r := range f.Replay.Runs {
		o := perform(r.Config, seed)
		cfs, res = append(cfs, r.Config), append(res, o)
		b.Start(line(r.Config, o))
	}
	lateRecheck(res)
	b = &tv.Batch{}
	for i := range cfs {
		b.Start(line(cfs[i], res[i]))
		fmt.Printf("replay %+v -> %v %v %s\n", cfs[i], res[i].Written, res[i].Outcome, res[i].Detail)
	}
	rej, vres := tv.Validate(tlc.Opts{Dir: "CryptoDispatch", Module: "TraceMem", Config: ev.Pick("Trace_small.cfg", "Trace_big.cfg"), Workers: 2, Timeout: 3 * time.Minute}, b)
	if !vres.OK && !vres.Violation {
		e.Inconclusive("trace validation did not run: " + vres.What)
		return
	}
	e.Set("evaluations", int64(len(cfs)))
	e.Set("traces_validated_against_impl", int64(b.Len()))
	report(e, cfs, res, rej)
}
